import ZvbiModel.Props.C10Ttx
import ZvbiModel.Cache.LemmasSimGet
/-!
# C10, round 6: the abstract map under `cache_page_unref`, under the memory limit, and look-up order

Property theorems only.  Asked for by Props/C03Join.lean (`ttx_refined_by_cache_full`: the decoder releases every page
right after use, so the mirrored cache.c history interleaves `unref`s; `C10Ttx.Sim` must survive them) and by seed C10-f
(a page found by an exact look-up must be what the next wildcard look-up returns).

* `unref_keeps_store` / `sim_unref`: the release of a page reference leaves the retrievable versions - content and
  most-recently-used order - alone when the network of the page is not a zombie and the page fits the memory limit once
  it is unreferenced (`memory_used + size <= memory_limit`; always so in libzvbi 0.2, `C10.limit_unreachable_0_2`).
* `no_eviction_within_limit` / `sim_evict_within`: in every reachable state `memory_used <= memory_limit`, hence the
  eviction entry points (`delete_surplus_pages`, the check at the end of `cache_page_unref`) are the identity there:
  eviction under the memory limit keeps `Sim` because it evicts nothing.
* `sim_unref_last`: the same with the hypotheses only for the last reference; `sim_ptype` (a page-type write does not touch
  the pages); `sim_chsw` (the network `vbi_chsw_reset` hands out simulates the empty list): with `C10Ttx.sim_get` /
  `sim_put` these cover every call `mirrorOp` of Props/C03Join.lean makes.
* `sim_get_unref`: look-up + release of the page found keeps `Sim` from every reachable state with NO side condition.
* `sim_put_unref`: store + release of the page stored keeps `Sim` with room for one full page struct, given that no
  network is a zombie after the store (hypothesis; see NOTES/C10.md).
* `wildcard_after_lookup`: whatever position of its hash chain a look-up found a page at, the next wildcard look-up
  (`VBI_ANY_SUBNO`) of that page number in that network returns it.

All for both source shapes of `_vbi_cache_put_page` (`fix`) and every history.
-/
namespace Zvbi.Props.C10Sim
open Zvbi.Cache Zvbi.Gen.Cache Zvbi.Props.C10Ttx

/-- `cache_page_unref` after any history: if the network of the page is not a zombie and the page fits the memory limit
    once it counts as unreferenced, the retrievable versions (the abstract map, with its most-recently-used order) are
    exactly what they were - whether a further reference stays, the page moves to the priority list, or it was a
    replaced version (zombie) and is freed. -/
theorem unref_keeps_store (fix : Bool) (ops : List Op) (pid : Nat)
    (hz : ∀ p, (runF fix init ops).findPage pid = some p → ∀ n ∈ (runF fix init ops).nets, n.id = p.net → n.zombie = false)
    (hroom : ∀ p, (runF fix init ops).findPage pid = some p →
      (runF fix init ops).memUsed + p.size ≤ (runF fix init ops).memLimit) :
    (stepF fix (runF fix init ops) (.unref pid)).1.abs = (runF fix init ops).abs := by
  rw [stepF_unref_state]
  exact pageUnref_abs_keep (good_runF fix good_init ops).1 pid hz hroom

/-- non-vacuity: store, release; the version is still retrievable (and the hypotheses hold: live network, 1 GiB limit) -/
example : ((runF true init [.addNet, .put 0 ⟨0x100, 0, 0, 0, 0, 7⟩, .unref 0]).abs.map fun e => (e.net, e.pgno, e.subno, e.tag))
      = [(0, 0x100, 0, 7)]
    ∧ ((runF true init [.addNet, .put 0 ⟨0x100, 0, 0, 0, 0, 7⟩]).nets.map (·.zombie)) = [false] := by
  decide +kernel

/-- `Sim` (the decoder model's page list = the retrievable versions of its network, Props/C10Ttx.lean) survives the
    release of a page reference (what `ttx_refined_by_cache_full` of Props/C03Join.lean needs from the cache side for the
    `cache_page_unref` the decoder issues after every look-up and store). -/
theorem sim_unref (fix : Bool) (ops : List Op) (nid : Nat) (enc : Zvbi.Ttx.Page → Nat) (c : List Zvbi.Ttx.Page)
    (hsim : Sim nid enc c (runF fix init ops)) (pid : Nat)
    (hz : ∀ p, (runF fix init ops).findPage pid = some p → ∀ n ∈ (runF fix init ops).nets, n.id = p.net → n.zombie = false)
    (hroom : ∀ p, (runF fix init ops).findPage pid = some p →
      (runF fix init ops).memUsed + p.size ≤ (runF fix init ops).memLimit) :
    Sim nid enc c (stepF fix (runF fix init ops) (.unref pid)).1 := by
  unfold Sim at hsim ⊢
  rw [unref_keeps_store fix ops pid hz hroom]
  exact hsim

example (fix : Bool) : Sim 0 (fun _ => 0) [] (stepF fix (runF fix init [.addNet]) (.unref 5)).1 := by
  unfold Sim; rfl

/-- Between two calls the cache is never over its limit (`Inv.memLe`), so both eviction entry points - the check at the end
    of `cache_page_unref` and `delete_surplus_pages` itself - are the identity on every reachable state: eviction under the
    memory limit evicts nothing (eviction happens only INSIDE a store / a release / a lowered limit that went over). -/
theorem no_eviction_within_limit (fix : Bool) (ops : List Op) :
    (runF fix init ops).memCheck = runF fix init ops ∧ (runF fix init ops).deleteSurplusPages = runF fix init ops :=
  ⟨memCheck_within (good_runF fix good_init ops).2.2, deleteSurplusPages_within _ (good_runF fix good_init ops).2.2⟩

/-- ... hence `Sim` survives them -/
theorem sim_evict_within (fix : Bool) (ops : List Op) (nid : Nat) (enc : Zvbi.Ttx.Page → Nat) (c : List Zvbi.Ttx.Page)
    (hsim : Sim nid enc c (runF fix init ops)) :
    Sim nid enc c (runF fix init ops).memCheck ∧ Sim nid enc c (runF fix init ops).deleteSurplusPages := by
  rw [(no_eviction_within_limit fix ops).1, (no_eviction_within_limit fix ops).2]
  exact ⟨hsim, hsim⟩

example (fix : Bool) : Sim 0 (fun _ => 0) [] (runF fix init [.addNet]).deleteSurplusPages :=
  (sim_evict_within fix [.addNet] 0 (fun _ => 0) [] (by unfold Sim; rfl)).2

/-- **Look-up order** (seed C10-f): a page returned by `_vbi_cache_get_page` - under any sub-page number and mask, found
    at any position of its hash chain - is the page the next wildcard look-up (`VBI_ANY_SUBNO`) of that page number in
    that network returns: `page_by_pgno` relinks what it finds to the head of the chain unconditionally. -/
theorem wildcard_after_lookup (fix : Bool) (ops : List Op) (nid pgno subno mask : Nat) (hv : validPgno pgno = true)
    (p : Page) (hget : ((runF fix init ops).getPage nid pgno subno mask).2 = some p) :
    ((((runF fix init ops).getPage nid pgno subno mask).1.getPage nid pgno anySubno 0).2.map Page.entry) = some p.entry := by
  have g := good_runF fix good_init ops
  obtain ⟨g1, g2⟩ := getPage_abs g.1 nid pgno subno mask hv
  have g' := good_getPage g nid pgno subno mask
  obtain ⟨k1, _⟩ := getPage_abs g'.1 nid pgno anySubno 0 hv
  rw [k1, g2]
  rw [hget] at g1
  have : (if anySubno = anySubno then 0 else 0) = 0 := by simp
  rw [this]
  exact alookup_atouch_any g1.symm anySubno

/-- non-vacuity, the situation of the seed: 101.1 and 101.2 stored, 101.1 (second in its chain) looked up exactly, the
    wildcard look-up then returns 101.1 -/
example :
    let s := runF true init [.addNet, .put 0 ⟨0x101, 1, 0, 0, 0, 1⟩, .unref 0, .put 0 ⟨0x101, 2, 0, 0, 0, 2⟩, .unref 1]
    ((s.getPage 0 0x101 1 0xFF).2.map (·.subno)) = some 1
    ∧ (((s.getPage 0 0x101 1 0xFF).1.getPage 0 0x101 anySubno 0).2.map (·.subno)) = some 1
    ∧ ((s.getPage 0 0x101 anySubno 0).2.map (·.subno)) = some 2 := by
  decide +kernel

/-- `sim_unref` with the hypotheses only where `cache_page_unref` reads them: nothing is asked when a further reference
    stays (`ref_count > 1`); for the LAST reference the network must not be a zombie, and a page that stays cached must
    fit the limit (a replaced version - zombie - is freed and needs no room). -/
theorem sim_unref_last (fix : Bool) (ops : List Op) (nid : Nat) (enc : Zvbi.Ttx.Page → Nat) (c : List Zvbi.Ttx.Page)
    (hsim : Sim nid enc c (runF fix init ops)) (pid : Nat)
    (hz : ∀ p, (runF fix init ops).findPage pid = some p → p.ref = 1 →
      ∀ n ∈ (runF fix init ops).nets, n.id = p.net → n.zombie = false)
    (hroom : ∀ p, (runF fix init ops).findPage pid = some p → p.ref = 1 → p.pri ≠ .zombie →
      (runF fix init ops).memUsed + p.size ≤ (runF fix init ops).memLimit) :
    Sim nid enc c (stepF fix (runF fix init ops) (.unref pid)).1 := by
  have g := good_runF fix good_init ops
  unfold Sim at hsim ⊢
  rw [stepF_unref_state, pageUnref_abs_keep' g.1 g.2.2 pid hz hroom]
  exact hsim

/-- non-vacuity: a page looked up twice; the release of one of the two references asks for nothing -/
example : ((runF true init [.addNet, .put 0 ⟨0x100, 0, 0, 0, 0, 7⟩, .get 0 0x100 0 0xFF]).pages.map (·.ref)) = [2] := by
  decide +kernel

/-- the decoder writing a page type into the statistics (`cn->_pages[].page_type`; `.ptype`, issued by `mirrorOp` of
    Props/C03Join.lean before each store) does not touch the pages: `Sim` survives. -/
theorem sim_ptype (fix : Bool) (ops : List Op) (nid : Nat) (enc : Zvbi.Ttx.Page → Nat) (c : List Zvbi.Ttx.Page)
    (hsim : Sim nid enc c (runF fix init ops)) (nid' pgno t : Nat) :
    Sim nid enc c (stepF fix (runF fix init ops) (.ptype nid' pgno t)).1 := by
  unfold Sim at hsim ⊢
  rw [ptype_abs]
  exact hsim

example (fix : Bool) : Sim 0 (fun _ => 0) [] (stepF fix (runF fix init [.addNet]) (.ptype 0 0x100 1)).1 :=
  sim_ptype fix [.addNet] 0 (fun _ => 0) [] (by unfold Sim; rfl) 0 0x100 1

/-- `vbi_chsw_reset`: the network handed out simulates the EMPTY decoder list (the decoder model's `.clear`), whatever the
    cache held before - `chsw_unreachable` in the form the joint refinement needs. -/
theorem sim_chsw (fix : Bool) (ops : List Op) (nid : Nat) (cn : Net) (hf : (runF fix init ops).findNet nid = some cn)
    (nid' : Nat) (hout : (stepF fix (runF fix init ops) (.chsw nid)).2 = .net nid') (enc : Zvbi.Ttx.Page → Nat) :
    Sim nid' enc [] (stepF fix (runF fix init ops) (.chsw nid)).1 := by
  have h : ∀ q ∈ (stepF fix (runF fix init ops) (.chsw nid)).1.pages, q.net ≠ nid' :=
    chsw_empty (good_runF fix good_init ops) nid cn hf nid' hout
  unfold Sim
  rw [abs_filter_empty h]
  rfl

/-- non-vacuity: a stored page still held by a client, channel switch: a new network (id 1) is handed out and simulates
    the empty list while the old page is still allocated -/
example : (stepF true (runF true init [.addNet, .put 0 ⟨0x100, 0, 0, 0, 0, 7⟩]) (.chsw 0)).2 = .net 1
    ∧ (stepF true (runF true init [.addNet, .put 0 ⟨0x100, 0, 0, 0, 0, 7⟩]) (.chsw 0)).1.pages.length = 1 := by
  decide +kernel

/-- **The decoder's look-up pattern, no side condition**: `_vbi_cache_get_page` followed by `cache_page_unref` of the page
    returned (what `vbi_is_cached`, the page fetch and `mirrorOp .get` of Props/C03Join.lean do) keeps `Sim`, from every
    reachable state, for every key and mask: the reference taken by the look-up un-zombies the network and the page needs,
    when it is unreferenced again, exactly the room it gave up when it was referenced. -/
theorem sim_get_unref (fix : Bool) (ops : List Op) (nid : Nat) (enc : Zvbi.Ttx.Page → Nat) (c : List Zvbi.Ttx.Page)
    (hsim : Sim nid enc c (runF fix init ops)) (pgno subno mask : Nat) (hv : validPgno pgno = true) :
    Sim nid enc (match Zvbi.Ttx.cacheGet c pgno subno mask with | some r => r.2 | none => c)
      (match (runF fix init ops).getPage nid pgno subno mask with
       | (s1, some q) => s1.pageUnref q.id
       | (s1, none) => s1) := by
  have hs := (sim_get fix ops nid enc c hsim pgno subno mask hv).2
  have hg := getPage_unref_abs (good_runF fix good_init ops) nid pgno subno mask
  generalize (runF fix init ops).getPage nid pgno subno mask = r at hs hg
  obtain ⟨s1, o⟩ := r
  cases o with
  | none => exact hs
  | some q =>
    have := hg q rfl
    unfold Sim at hs ⊢
    simp only at this hs ⊢
    rw [this]
    exact hs

/-- non-vacuity: look-up of a stored page and release: still retrievable, `memory_used` back to the size of the page -/
example :
    let s := runF true init [.addNet, .put 0 ⟨0x100, 0, 0, 0, 0, 7⟩, .unref 0]
    (match s.getPage 0 0x100 0 0xFF with
     | (s1, some q) => ((s1.pageUnref q.id).abs.map (·.tag), (s1.pageUnref q.id).memUsed == s.memUsed, s1.memUsed)
     | (s1, none) => ([], false, 1)) = ([7], true, 0) := by
  decide +kernel

/-- **The decoder's store pattern**: `_vbi_cache_put_page` followed by `cache_page_unref` of the page returned (`mirrorOp .put`
    of Props/C03Join.lean).  Under the hypotheses of `sim_put` with room for one full `cache_page` struct (so the stored page
    fits again when it is unreferenced; `memory_used` does not grow in a store, `putPageF_all`), `Sim` holds after the
    release provided no network is a zombie after the store (`hlive`: the cache side has no lemma yet that a store creates
    no zombie network - it never sets the flag - so this stays a hypothesis about the state after the store). -/
theorem sim_put_unref (fix : Bool) (ops : List Op) (nid : Nat) (enc : Zvbi.Ttx.Page → Nat) (c : List Zvbi.Ttx.Page)
    (hsim : Sim nid enc c (runF fix init ops)) (cn : Net) (hf : (runF fix init ops).findNet nid = some cn)
    (p : Zvbi.Ttx.Page) (hrange : 0x100 ≤ p.pgno ∧ p.pgno ≤ 0x8FF)
    (a : PutArg) (ha : a = ⟨p.pgno, p.subno, p.function, p.x26, p.x28, enc (tstored (cn.getStat p.pgno).ptype p)⟩)
    (hroom : (runF fix init ops).memUsed + fullSize ≤ (runF fix init ops).memLimit)
    (c' : List Zvbi.Ttx.Page) (hc : Zvbi.Ttx.cachePutF fix c (cn.getStat p.pgno).ptype p = some c')
    (s' : State) (q : Page) (hres : (runF fix init ops).putPageF fix nid a = .ok (s', some q))
    (hlive : ∀ n ∈ s'.nets, n.zombie = false) :
    Sim nid enc c' (s'.pageUnref q.id) := by
  have hsz : ∀ (f : Int) (x y : Nat), pageSize f x y ≤ fullSize := by
    intro f x y
    unfold pageSize
    repeat' split
    all_goals decide
  have g := good_runF fix good_init ops
  have hroom1 : (runF fix init ops).memUsed + pageSize a.func a.x26 a.x28 ≤ (runF fix init ops).memLimit := by
    have := hsz a.func a.x26 a.x28; omega
  have hs := (sim_put fix ops nid enc c hsim cn hf p hrange a ha hroom1 c' hc s' (some q) hres).2
  obtain ⟨h', _, hmu, hml, _⟩ := putPageF_all fix g.1 g.2.1 nid a hres
  have hm' : s'.memUsed ≤ s'.memLimit := by rw [hml]; omega
  unfold Sim at hs ⊢
  rw [pageUnref_abs_keep' h' hm' q.id (fun _ _ _ n hn _ => hlive n hn)
    (fun r _ _ _ => by
      have := hsz r.func r.x26 r.x28
      show s'.memUsed + pageSize r.func r.x26 r.x28 ≤ s'.memLimit
      rw [hml]; omega)]
  exact hs

/-- non-vacuity: a store into a fresh network: no zombie network afterwards, the page handed out has one reference -/
example : (match (runF true init [.addNet]).putPageF true 0 ⟨0x100, 0, 0, 0, 0, 7⟩ with
    | .ok (s', some q) => (s'.nets.map (·.zombie), q.ref, (s'.pageUnref q.id).abs.map (·.tag))
    | _ => ([], 0, [])) = ([false], 1, [7]) := by
  decide +kernel

end Zvbi.Props.C10Sim
