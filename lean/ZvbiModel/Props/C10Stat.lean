import ZvbiModel.Props.C10Hi
import ZvbiModel.Cache.MaxStat
import ZvbiModel.Cache.LemmasLimit
/-!
# C10, round 5: the page statistics (`struct ttx_page_stat`) and the size rule, over all histories

`n_subpages` is in `Inv` (Props/C10.lean, modulo 65536).  Here: `max_subpages` is a high-water mark of the number of
allocated versions of the page number (both source shapes, every history, deletes / replaces / recycling / statistics
resets included, through the wrap of the `uint16_t` counter), the recorded range is ordered whenever a version is
allocated, and the size rule `cache_page_size` that `cache_page_copy`, the struct-reuse branch of the store and the
memory accounting share stays inside `sizeof (cache_page)` for every page function.
-/
namespace Zvbi.Props.C10Stat
open Zvbi.Cache Zvbi.Gen.Cache Zvbi.Props.C10Evict Zvbi.Props.C10Hi

/-- `max_subpages` is a high-water mark: after ANY history (either source shape) and for every network and page number,
    `min (number of allocated versions of the page number) 65535 <= max_subpages`. -/
theorem max_subpages_highwater (fix : Bool) (ops : List Op) :
    ∀ n ∈ (runF fix init ops).nets, ∀ pg,
      min ((runF fix init ops).pages.countP (fun p => p.net = n.id ∧ p.pgno = pg)) 65535 ≤ (n.getStat pg).maxSub :=
  MaxStat.max_runF fix ops good_init MaxStat.max_init

/-- ... hence `n_subpages <= max_subpages` always - also right after the counter wrapped -/
theorem nsub_le_max_subpages (fix : Bool) (ops : List Op) :
    ∀ n ∈ (runF fix init ops).nets, ∀ pg, (n.getStat pg).nSub ≤ (n.getStat pg).maxSub := by
  intro n hn pg
  have h1 := max_subpages_highwater fix ops n hn pg
  have h2 := (good_reach fix ops).1.nSub n hn pg
  rw [h2]
  generalize (runF fix init ops).pages.countP (fun p => decide (p.net = n.id ∧ p.pgno = pg)) = c at h1 ⊢
  rw [Nat.min_def] at h1
  split at h1
  · have : c % 65536 = c := Nat.mod_eq_of_lt (by omega)
    omega
  · have : c % 65536 < 65536 := Nat.mod_lt _ (by decide)
    omega

/-- three versions of 0x101 cached, two replaced and released: the counter is back at 1, the high-water mark stays 3 -/
example : (runF true init [.addNet, .put 0 ⟨0x101, 1, 0, 0, 0, 1⟩, .put 0 ⟨0x101, 2, 0, 0, 0, 2⟩, .put 0 ⟨0x101, 3, 0, 0, 0, 3⟩,
      .unref 0, .unref 1, .unref 2, .put 0 ⟨0x101, 0x100, 0, 0, 0, 4⟩]).nets.map
    (fun n => ((n.getStat 0x101).nSub, (n.getStat 0x101).maxSub)) = [(1, 3)] := by decide

/-- The recorded range is ordered wherever it means something: repaired shape, client within `RefBound`, a version of
    the page number allocated => `subno_min <= subno_max` (so the page walk of C17 sees a non-empty interval). -/
theorem range_ordered_refbound (ops : List Op) (h1 : ∀ op ∈ ops, SubOk op)
    (h2 : ∀ k, 1 ≤ k → k ≤ ops.length → RefBound (runF true init (ops.take k)))
    (n : Net) (p : Page) (hn : n ∈ (runF true init ops).nets) (hp : p ∈ (runF true init ops).pages) (hnet : p.net = n.id) :
    (n.getStat p.pgno).subMin ≤ (n.getStat p.pgno).subMax := by
  have := hi_subno_agrees_refbound ops h1 h2 n p hn hp hnet
  omega

/-- **Size rule** (`cache_page_size`, used by `cache_page_copy`'s `memcpy`, by the struct-reuse branch of the store and by
    the memory accounting): for EVERY page function and designation sets the size is more than the header and at most
    `sizeof (cache_page)` - a copy into a full `cache_page` never overruns, whatever the function field says.  The sizes
    are the ones the translator reads from the compiled structs. -/
theorem page_size_bounds (func : Int) (x26 x28 : Nat) : hdrSize < pageSize func x26 x28 ∧ pageSize func x26 x28 ≤ fullSize := by
  unfold pageSize
  repeat' split
  all_goals decide

/-- the size depends on the class of the page function only (the `switch` of `cache_page_size`) -/
theorem page_size_classes :
    pageSize fnLop 0 0 = hdrSize + lopSize ∧ pageSize fnUnknown 0 0 = hdrSize + lopSize
    ∧ (∀ x28, x28 &&& 0x13 ≠ 0 → ∀ x26, pageSize fnLop x26 x28 = hdrSize + extLopSize)
    ∧ pageSize fnPop 0 0 = hdrSize + popSize ∧ pageSize fnGpop 0 0 = hdrSize + popSize
    ∧ pageSize fnDrcs 0 0 = hdrSize + drcsSize ∧ pageSize fnGdrcs 0 0 = hdrSize + drcsSize
    ∧ pageSize fnAit 0 0 = hdrSize + aitSize ∧ pageSize 1 0 0 = fullSize := by
  refine ⟨by decide, by decide, ?_, by decide, by decide, by decide, by decide, by decide, by decide⟩
  intro x28 h x26
  unfold pageSize
  rw [if_pos (Or.inr rfl), if_pos h]

/-- **`vbi_cache_set_memory_limit`** (body as compiled for 0.3; 0.2 keeps the constant): after the call, from any
    reachable state and for any new limit, the limit is the new one, `memory_used` is within it, every page with
    `ref > 0` is still allocated with its content (referenced pages are never evicted), networks are untouched, and
    with a limit that is not below `memory_used` nothing is evicted at all. -/
theorem set_memory_limit_enforced (fix : Bool) (ops : List Op) (n : Nat) :
    let s := runF fix init ops
    let s' := (stepF fix s (.setLimit n)).1
    s'.memLimit = n ∧ s'.memUsed ≤ n
    ∧ (∀ p ∈ s.pages, 0 < p.ref → ∃ q ∈ s'.pages, q.id = p.id ∧ q.tag = p.tag ∧ q.ref = p.ref)
    ∧ s'.nets.map (·.id) = s.nets.map (·.id)
    ∧ (s.memUsed ≤ n → s'.pages = s.pages) := by
  intro s s'
  have g := good_reach fix ops
  have hs' : s' = ({ s with memLimit := n } : State).deleteSurplusPages := rfl
  have hw : InvW ({ s with memLimit := n } : State) := by
    have := g.1
    exact ⟨this.pidNodup, this.pidLt, this.priNodup, this.refNodup, this.priMem, this.refMem, this.zombieRef, this.nidNodup,
      this.nidLt, this.netOf, this.nCached, this.nRef, this.nSub, this.nPages, this.mem, this.nNets⟩
  have sh := deleteSurplusPages_shrinks ({ s with memLimit := n } : State)
  have le := deleteSurplusPages_le hw
  rw [hs']
  refine ⟨sh.limit, by rw [sh.limit] at le; exact le, ?_, ?_, ?_⟩
  · intro p hp hr
    obtain ⟨q, hq, b⟩ := sh.keep hw p hp hr
    exact ⟨q, hq, b.1.symm, b.cont.2.2.2.2.2.2.2.symm, b.ref.symm⟩
  · have := congrArg (List.map (fun k : Nat × Nat × Nat × Bool => k.1)) sh.key
    simpa [List.map_map, netKey, Function.comp_def] using this
  · intro hle
    have := deleteSurplusPages_within ({ s with memLimit := n } : State) hle
    rw [this]

/-- a limit of one plain page: the unreferenced page goes, the held one stays; a generous limit evicts nothing -/
example : ((stepF true (runF true init [.addNet, .put 0 ⟨0x101, 0, 0, 0, 0, 1⟩, .put 0 ⟨0x102, 0, 0, 0, 0, 2⟩, .unref 0,
      .put 0 ⟨0x103, 0, 0, 0, 0, 3⟩, .unref 2]) (.setLimit 1564)).1.pages.map (·.pgno) = [0x103, 0x102])
    ∧ ((stepF true (runF true init [.addNet, .put 0 ⟨0x101, 0, 0, 0, 0, 1⟩, .put 0 ⟨0x102, 0, 0, 0, 0, 2⟩, .unref 0,
      .put 0 ⟨0x103, 0, 0, 0, 0, 3⟩, .unref 2]) (.setLimit 4000)).1.pages.map (·.pgno) = [0x103, 0x102, 0x101]) := by
  constructor <;> decide

end Zvbi.Props.C10Stat
