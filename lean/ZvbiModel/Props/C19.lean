import ZvbiModel.Proxy.Model
import ZvbiModel.Proxy.Lemmas
import ZvbiModel.Proxy.LemmasLog
import ZvbiModel.Proxy.LemmasNF4
import ZvbiModel.Proxy.LemmasSched
/-!
# Property C19 - the proxy daemon withstands faulty clients; channel control is held by one client

Model: `ZvbiModel/Proxy/Core.lean` (token machine) and `ZvbiModel/Proxy/Model.lean` (message validation, dispatch, main
loop).  Every `State` of the model carries the proof that its token fields were produced by the daemon's token
operations (`State.core : Core.Reach g`), so statements about `Core.Reachable` hold for every state of every history.
`g.ret` / `g.rel` say whether fixes/C19-token-return-by-non-owner and fixes/C19-release-waits-for-confirm are in the source
(`Cfg.current` reads them from the tree); the scheduler is an arbitrary function (`cfg.pick`).
-/
namespace Zvbi.Props.C19
open Zvbi.Proxy Zvbi.Proxy.Core Zvbi.Gen.Proxy

/-- **token_exclusive.** After any history of daemon inputs (connects, arbitrary bytes from any client, disconnects,
    clock ticks, alarms, frames) that the daemon survives, at most one client of each device has a token state other
    than NONE - whatever the scheduler picks - provided a token can only be returned by a client that has one. -/
theorem token_exclusive (cfg : Cfg) (hret : cfg.g.ret = true) (ops : List Op) (s : State cfg.g)
    (_h : run cfg ops = .ok s) (d : Nat) : (owners s.core.st d).length ≤ 1 :=
  let hi := inv_reachable cfg.g hret s.core.ok
  owners_le_one hi.uniq hi.excl d

example : (owners ((Reach.init ⟨true, true⟩).app (.add 0 0) |>.app (.tokenReq 0 prioBACKGROUND 1) |>.app (.grant 0)).st 0).length = 1 := by decide

/-- the same for every model state, reachable or not: the type of `State` enforces it -/
theorem token_exclusive_state (g : Guards) (hret : g.ret = true) (s : State g) (d : Nat) : (owners s.core.st d).length ≤ 1 :=
  let hi := inv_reachable g hret s.core.ok
  owners_le_one hi.uniq hi.excl d

/-- two clients of a device that both have a token state are the same client; in particular at most one client is in
    GRANTED / RECLAIM / RELEASE (the states in which the client itself believes it holds the token) -/
theorem token_holders_same (g : Guards) (hret : g.ret = true) (s : State g) (r1 r2 : Rec)
    (h1 : r1 ∈ s.core.st.recs) (h2 : r2 ∈ s.core.st.recs) (hd : r1.dev = r2.dev) (t1 : r1.tok ≠ .none) (t2 : r2.tok ≠ .none) :
    r1 = r2 :=
  let hi := inv_reachable g hret s.core.ok
  uniq_eq hi.uniq h1 h2 (hi.excl r1 h1 r2 h2 hd t1 t2)

theorem reachable_foldl (g : Guards) (ops : List COp) {c : CState} (hc : Reachable g c) : Reachable g (ops.foldl (apply g) c) := by
  induction ops generalizing c with
  | nil => exact hc
  | cons op rest ih => exact ih (.step op hc)

/-- **token_exclusive_counterexample** (unrepaired `CHN_NOTIFY_REQ`): client 0 holds the token, client 1 - which never
    had it - "returns" it and becomes a second owner.  Replay on the C code: corpus/C19/token-return-by-non-owner.ops
    (`assert (p_owner == NULL)` of vbi_proxyd_get_token_owner aborts the daemon at the next scheduling). -/
theorem token_exclusive_counterexample (rel : Bool) :
    ∃ c, Reachable ⟨false, rel⟩ c ∧ (owners c 0).length = 2 :=
  ⟨[COp.add 0 0, .add 1 0, .tokenReq 0 prioBACKGROUND 1, .grant 0, .sendGrant 0, .tokenReq 1 prioBACKGROUND 0, .ret 1].foldl (apply ⟨false, rel⟩) {},
   reachable_foldl _ _ .init, by cases rel <;> decide⟩

/-- **grant_only_to_requesters.** Every client that has any token state (is about to be granted the token, holds it,
    is being reclaimed, or has returned it) sent a CHN_TOKEN_REQ with a valid profile at background priority and has
    not withdrawn it since: the daemon grants channel control only to clients that asked for it. -/
theorem grant_only_to_requesters (cfg : Cfg) (hret : cfg.g.ret = true) (ops : List Op) (s : State cfg.g)
    (_h : run cfg ops = .ok s) (r : Rec) (hr : r ∈ s.core.st.recs) (ht : r.tok ≠ .none) : r.asked = true :=
  (inv_reachable cfg.g hret s.core.ok).asked r hr ht

example : ∃ c, Reachable ⟨true, true⟩ c ∧ ∃ r ∈ c.recs, r.tok = .granted ∧ r.asked = true :=
  ⟨[COp.add 0 0, .tokenReq 0 prioBACKGROUND 1, .grant 0, .sendGrant 0].foldl (apply ⟨true, true⟩) {}, reachable_foldl _ _ .init, by decide⟩

/-- a request without a valid profile, or at another priority, is never granted (the `grant` operation ignores it) -/
theorem grant_ignores_non_requesters (g : Guards) (c : CState) (h : Nat) (r : Rec) (hf : find c h = some r)
    (hn : r.asked = false) : apply g c (.grant h) = c := by
  simp [apply, hf, hn]

/-- **grant_only_after_return, state form.** At the moment the daemon produces a grant message for client `b`
    (TOKEN_IND or TOKEN_CNF with token_ind), no other client of the device has any token state: whoever held the token
    before is back in NONE. -/
theorem grant_when_others_none (g : Guards) (hret : g.ret = true) (c : CState) (hc : Reachable g c) (b : Nat) (rb : Rec)
    (hf : find c b = some rb) (hg : rb.tok = .grant) :
    ∀ r ∈ (apply g c (.sendGrant b)).recs, r.dev = rb.dev → r.h ≠ b → r.tok = .none := by
  intro r hr hd hne
  have hi := inv_reachable g hret hc
  obtain ⟨hrb, hhb⟩ := find_some hf
  simp only [apply, hf, hg, beq_self_eq_true, if_true, addLog] at hr
  rw [setTok_eq] at hr
  obtain ⟨y, my, ey⟩ := mem_map_tok hr
  subst ey
  by_cases e : y.h = b
  · simp [e] at hne
  · simp only [beq_iff_eq, e, if_false] at hd ⊢
    exact Classical.byContradiction (fun hcon => e ((hi.excl y my rb hrb hd hcon (by rw [hg]; decide)).trans hhb))

/-- **grant_only_after_return, log form (state of the token machine).**  In every state the daemon's token operations
    can produce (both repairs present), the log of events is ordered: every grant message for device `d` is produced while
    the log shows no holder of `d` other than the grantee - the holder being the client of the last grant on `d` that has
    not since sent a return/release, a reclaim confirmation or a new token request, and has not gone away
    (`Proxy/Spec.lean`).  By induction over the operations with the invariant "the holder according to the log has a
    record of the device in GRANTED / RECLAIM / RELEASE" (`Core.LogInv`). -/
theorem grant_only_after_return (g : Guards) (hret : g.ret = true) (hrel : g.rel = true) (c : CState) (hc : Reachable g c) :
    grantsOrdered (fun _ => none) c.log = true :=
  (logInv_reachable g hret hrel hc).ordered

/-- the invariant behind it: whoever holds device `d` according to the log has a record of `d` in a holder state -/
theorem log_holder_has_record (g : Guards) (hret : g.ret = true) (hrel : g.rel = true) (c : CState) (hc : Reachable g c)
    (d a : Nat) (h : holdOf c.log d = some a) : ∃ r ∈ c.recs, r.h = a ∧ r.dev = d ∧ Holding r.tok :=
  (logInv_reachable g hret hrel hc).holder d a h

/-- **grant_only_after_return_full** (whole histories, any scheduler).  After ANY history of daemon inputs the daemon
    survives: if its log shows a grant message to client `a` on device `d` and later a grant message to another client
    `b` on `d` (no other grant on `d` in between), then between the two there is `a`'s return/release message, `a`'s
    reclaim confirmation, a new token request of `a`, or `a`'s disconnect. -/
theorem grant_only_after_return_full (cfg : Cfg) (hret : cfg.g.ret = true) (hrel : cfg.g.rel = true) (ops : List Op)
    (s : State cfg.g) (_h : run cfg ops = .ok s) (l1 l2 l3 : List Event) (a b d : Nat)
    (hlog : s.core.st.log = l1 ++ Event.granted a d :: (l2 ++ Event.granted b d :: l3)) (hab : a ≠ b)
    (hno : ∀ x, Event.granted x d ∉ l2) : ∃ e ∈ l2, e.frees a = true :=
  grant_preceded_by_free (fun _ => none) l1 l2 l3 a b d
    (hlog ▸ grant_only_after_return cfg.g hret hrel s.core.st s.core.ok) hab hno

/-- non-vacuity: a hand-over 0 -> 1 by reclaim and confirmation produces exactly such a log -/
example : ([COp.add 0 0, .add 1 0, .tokenReq 0 prioBACKGROUND 1, .grant 0, .sendGrant 0, .tokenReq 1 prioBACKGROUND 1, .stopped 0, .sendReclaim 0,
      .grant 1, .reclaimCnf 0, .grant 1, .sendGrant 1].foldl (apply ⟨true, true⟩) {}).log =
    [.tokenReq 0 0, .granted 0 0, .tokenReq 1 0, .reclaimCnf 0 0, .granted 1 0] := by decide

/-- **for the current tree** (guard flags read from the source by the translator): unconditional.  If one of the two
    repairs is reverted the flag flips and this proof no longer checks. -/
theorem grant_only_after_return_current (ops : List Op) (s : State Cfg.current.g) (_h : run Cfg.current ops = .ok s) :
    grantsOrdered (fun _ => none) s.core.st.log = true :=
  grant_only_after_return Cfg.current.g rfl rfl s.core.st s.core.ok

/-- **grant_only_after_return_counterexample** (unrepaired `vbi_proxyd_token_grant`): client 0 was granted the token and
    sent RECLAIM_REQ (state RELEASE); it is rescheduled (RELEASE -> GRANT), and a request of client 1 then takes the
    token away silently: client 1 is granted while client 0 never confirmed.  Replay: corpus/C19/grant-before-confirm.ops -/
theorem grant_only_after_return_counterexample :
    ∃ c, Reachable ⟨true, false⟩ c ∧ grantsOrdered (fun _ => none) c.log = false :=
  ⟨[COp.add 0 0, .add 1 0, .tokenReq 0 prioBACKGROUND 1, .grant 0, .sendGrant 0, .tokenReq 1 prioBACKGROUND 1, .stopped 0, .sendReclaim 0,
    .grant 0, .grant 1, .sendGrant 1].foldl (apply ⟨true, false⟩) {}, reachable_foldl _ _ .init, by decide⟩

/-- with the repair the same inputs leave client 0 in RELEASE and client 1 waiting -/
example : grantsOrdered (fun _ => none)
    ([COp.add 0 0, .add 1 0, .tokenReq 0 prioBACKGROUND 1, .grant 0, .sendGrant 0, .tokenReq 1 prioBACKGROUND 1, .stopped 0, .sendReclaim 0,
      .grant 0, .grant 1, .sendGrant 1].foldl (apply ⟨true, true⟩) {}).log = true := by decide

/-! ## faulty messages -/

theorem find_map_ne (l : List Client) (h h' : Nat) (f : Client → Client) (hf : ∀ c, (f c).h = c.h) (hne : h' ≠ h) :
    (l.map (fun c => if c.h == h then f c else c)).find? (·.h == h') = l.find? (·.h == h') := by
  induction l with
  | nil => rfl
  | cons a l ih =>
    simp only [List.map_cons, List.find?_cons]
    by_cases e : (a.h == h) = true
    · have e' : a.h = h := by simpa using e
      have n1 : ((f a).h == h') = false := by
        rw [hf]; simp only [beq_eq_false_iff_ne, ne_eq]; intro x; exact hne (x.symm.trans e')
      have n2 : (a.h == h') = false := by
        simp only [beq_eq_false_iff_ne, ne_eq]; intro x; exact hne (x.symm.trans e')
      simp only [e, if_true, n1, n2]; exact ih
    · have e0 : (a.h == h) = false := by simpa using e
      rw [ih]
      simp [e0]

/-- closing a connection touches nothing but that connection -/
theorem close_frame {g : Guards} (s : State g) (h : Nat) :
    (closeClient s h).devs = s.devs ∧ (closeClient s h).core = s.core ∧
    (∀ h', h' ≠ h → findClient (closeClient s h) h' = findClient s h') ∧
    (closeClient s h).clients.map (·.h) = s.clients.map (·.h) := by
  unfold closeClient
  split
  · split
    · refine ⟨rfl, rfl, ?_, ?_⟩
      · intro h' hne
        simp only [findClient, setSock, modClient]
        exact find_map_ne _ h h' _ (fun _ => rfl) hne
      · simp only [setSock, modClient, List.map_map]
        apply List.map_congr_left
        intro a _
        simp only [Function.comp]
        split <;> rfl
    · exact ⟨rfl, rfl, fun _ _ => rfl, rfl⟩
  · exact ⟨rfl, rfl, fun _ _ => rfl, rfl⟩

/-- **bad_message_rejected (1).** A complete message that fails `vbi_proxyd_check_msg` (wrong length for its type, bad
    magic, a server-to-client or unknown type) closes this connection and changes nothing else. -/
theorem bad_message_rejected (cfg : Cfg) (s : State cfg.g) (h : Nat) (m : Msg) (sw : Bool) (hbad : checkMsg m sw = none) :
    onMessage cfg s h m sw = .ok (closeClient s h) := by
  simp [onMessage, hbad]

/-- an oversized length field fails the check whatever the type (sizes from Generated/ProxyLayout) -/
example : checkMsg { type := tSERVICEREQ, len := hdr + szServiceReq + 1, body := [] } false = none := by decide
example : checkMsg { type := tSERVICEREQ, len := hdr + szServiceReq, body := [] } false = some false := by decide
example : checkMsg { type := tCONNECTCNF, len := hdr + szConnectCnf, body := [] } false = none := by decide

/-- **bad_message_rejected (2).** A message that is well-formed but not legal in the connection's state is refused by
    `vbi_proxyd_take_message` without any state change (the caller then closes the connection, see `close_frame`). -/
theorem wrong_state_rejected (cfg : Cfg) (s s' : State cfg.g) (h : Nat) (m : Msg) (c : Client)
    (hc : findClient s h = some c)
    (hst : (m.type = tCONNECTREQ ∧ c.st ≠ .waitCon) ∨ (m.type = tDAEMONPIDREQ ∧ c.st ≠ .waitCon) ∨
           (m.type = tSERVICEREQ ∧ c.st ≠ .forward) ∨ (m.type = tCHNTOKENREQ ∧ c.st ≠ .forward) ∨
           (m.type = tCHNNOTIFYREQ ∧ c.st ≠ .forward) ∨ (m.type = tCHNIOCTLREQ ∧ c.st ≠ .forward) ∨
           (m.type = tDAEMONPIDCNF))
    (ht : takeMessage cfg s h m = .ok (s', true)) : False := by
  unfold takeMessage at ht
  rw [hc] at ht
  rcases hst with ⟨e, n⟩ | ⟨e, n⟩ | ⟨e, n⟩ | ⟨e, n⟩ | ⟨e, n⟩ | ⟨e, n⟩ | e
  all_goals
    simp [e, tCONNECTREQ, tDAEMONPIDREQ, tSERVICEREQ, tCHNTOKENREQ, tCHNNOTIFYREQ, tCHNIOCTLREQ, tDAEMONPIDCNF, tCHNSUSPENDREQ,
          tCHNRECLAIMCNF, tCLOSEREQ] at ht
  all_goals simp_all

/-! ## index fields -/

/-- the clamp of the connect path (and, once repaired, of the service request path) keeps `strict` inside the extent of
    `PROXY_CLNT.services` (extent and limits from the compiled code) -/
theorem clamp_in_range (v : Int) : 0 ≤ clampStrict true v - minStrict ∧ clampStrict true v - minStrict < (nServices : Int) := by
  unfold clampStrict minStrict maxStrict nServices
  simp only [if_true]
  split
  · decide
  · split
    · decide
    · constructor <;> omega

/-- **index_fields_clamped.** With the clamp in place `vbi_proxyd_take_service_req` never indexes `services[]` out of
    range, for every value of `strict` a client can send. -/
theorem index_fields_clamped {g : Guards} (s : State g) (h d services : Nat) (v : Int) (site : String) :
    takeServiceReq s h d services (clampStrict true v) ≠ .error (.oob site) := by
  unfold takeServiceReq
  have hr := clamp_in_range v
  have h1 : ¬ (clampStrict true v - minStrict < 0) := by omega
  have h2 : ¬ (clampStrict true v - minStrict ≥ (nServices : Int)) := by omega
  simp only [h1, h2, decide_false, Bool.or_false, Bool.false_eq_true, if_false]
  split <;> simp

/-- **index_fields_counterexample** (the unrepaired service request path passes `strict` through): strict = 127 indexes
    `services[128]`.  Replay on the C code: corpus/C19/service-req-strict.ops (ASan: heap-buffer-overflow in
    vbi_proxyd_take_service_req). -/
theorem index_fields_counterexample {g : Guards} (s : State g) (h d services : Nat) :
    takeServiceReq s h d services (clampStrict false 127) = .error (.oob "take_service_req:services[strict]") := by
  unfold takeServiceReq clampStrict minStrict nServices
  simp

/-- the header check of `vbi_proxy_msg_handle_read`, repaired: after an illegal length nothing more is read, the
    function fails and the caller closes the connection - no out-of-bounds write into `msg_buf`, no assertion -/
theorem illegal_length_rejected (cfg : Cfg) (hg : cfg.readLenGuard = true) (now : Int) (c : Client) (inq : List Nat) (shut : Bool)
    (hoff : c.readOff < hdr) (hw : c.wr = none) (hl : c.readLen = 0)
    (hbad : (readHeader c now inq shut).2.2.2.2.2 = false) :
    ∃ c' rest b, handleRead cfg now c inq shut = .ok (c', rest, false, b) := by
  unfold handleRead
  simp only [hw, hl, Option.isSome_none, Bool.false_eq_true, if_false, bne_self_eq_false, Bool.and_false]
  generalize hrh : readHeader c now inq shut = rh at hbad
  obtain ⟨c1, inq1, err, lz, cz, res⟩ := rh
  simp only at hbad
  subst hbad
  simp only [hg, Bool.not_true, Bool.or_false, Bool.false_eq_true, Bool.and_false, Bool.false_and, if_false]
  split <;> exact ⟨_, _, _, rfl⟩

/-- **the owner assertion never fires**: `assert (p_owner == NULL)` in vbi_proxyd_get_token_owner is unreachable once a
    token can only be returned by its owner -/
theorem owner_assert_unreachable (g : Guards) (hret : g.ret = true) (s : State g) (h : Nat) :
    ∃ s' free, tokenGrant s h = .ok (s', free) := by
  unfold tokenGrant
  have := token_exclusive_state g hret s (recOf s h).dev
  have h2 : ¬ ((owners s.core.st (recOf s h).dev).length > 1) := by omega
  simp [h2]

/-- **no_fault_full.**  With the repairs that guard a fault site in the source (`Cfg.Repaired`: both strict clamps, the
    length guard of handle_read, no idle assertions, the flush guard, the token-return guard) NO history of daemon inputs -
    connects, arbitrary bytes from any client in any fragmentation, half-closes, disconnects at any byte, clock ticks,
    alarms, frames of up to 31 lines, device variants - makes any step of the model return `.oob` or `.assertFail`,
    whatever the scheduler picks.  The fault sites are: `services[strict]` in take_service_req, the write into `msg_buf` and
    the three assertions of vbi_proxy_msg_handle_read (`writeLen == 0`, `readLen == 0` in phase one,
    `readLen <= max_read_len`), the two idle assertions, `assert (p_owner == NULL)` of get_token_owner,
    `vbi_capture_flush (NULL)`, `assert (line_count <= max_lines)` of forward_data.
    Proof: the invariant `NF` (every record `findClient` can return has a consistent read state `RI`; every device has
    frames of at most 31 lines and `max_lines >= 31` while open) holds initially and after every op
    (`Proxy/LemmasNF1-4.lean`: frame rules for all functions of the main loop, `handleRead_ok`, `run_ok`). -/
theorem no_fault_full (cfg : Cfg) (hcfg : cfg.Repaired) (ops : List Op) : ∃ s, run cfg ops = .ok s :=
  let ⟨s, h, _⟩ := run_ok cfg hcfg ops
  ⟨s, h⟩

/-- all repairs applied, any scheduler -/
theorem no_fault_repaired (pick : Int → List Cand → Option Nat) (ops : List Op) : ∃ s, run (Cfg.repaired pick) ops = .ok s :=
  no_fault_full (Cfg.repaired pick) ⟨rfl, rfl, rfl, rfl, rfl, rfl⟩ ops

/-- **for the current tree**: the guard flags are read from the source by the translator (`Generated/ProxyLayout.lean`);
    if one of the six repairs is reverted its flag flips and this proof no longer checks -/
theorem no_fault_current (ops : List Op) : ∃ s, run Cfg.current ops = .ok s :=
  no_fault_full Cfg.current ⟨rfl, rfl, rfl, rfl, rfl, rfl⟩ ops

/-- non-vacuity: an oversized length, a partial header followed by a disconnect, and a service request with strict = 127
    are survived; the faulty connections are gone afterwards -/
example : (run (Cfg.repaired codePick) [.connect 0, .iter, .send 0 [0xff, 0xff, 0xff, 0xff, 0, 0, 0, 5], .iter, .connect 0, .iter,
    .send 1 [0, 0, 0], .iter, .shut 1, .iter, .iter]).toOption.map (·.clients.length) = some 0 := by decide

/-- the read-state invariant itself, after every history: a record with a complete header has a legal length and an
    offset inside the message (`msg_buf` cannot overflow), a record without has no length yet -/
theorem read_state_invariant (cfg : Cfg) (hcfg : cfg.Repaired) (ops : List Op) (s : State cfg.g) (h : run cfg ops = .ok s)
    (hd : Nat) (c : Client) (hf : findClient s hd = some c) : RI c := by
  obtain ⟨s', h', n⟩ := run_ok cfg hcfg ops
  rw [h] at h'; cases h'
  rcases n.ci hd c hf with r | ⟨e, _⟩
  · exact r
  · cases e

/-- the unrepaired length check: one header with length 0xffffffff aborts the daemon (`assert (readLen <= max_read_len)`);
    replay corpus/C19/oversize-length-assert.ops -/
theorem no_fault_counterexample :
    (match run { Cfg.repaired codePick with readLenGuard := false } [.connect 0, .iter, .send 0 [0xff, 0xff, 0xff, 0xff, 0, 0, 0, 5], .iter] with
     | .error e => some e
     | .ok _ => none) = some (.assertFail "handle_read:readLen<=max_read_len") := by decide

/-! ## the current tree, unconditionally -/

/-- token exclusivity for the tree as it is (flag from the source) -/
theorem token_exclusive_current (ops : List Op) (s : State Cfg.current.g) (h : run Cfg.current ops = .ok s) (d : Nat) :
    (owners s.core.st d).length ≤ 1 :=
  token_exclusive Cfg.current rfl ops s h d

/-- grants only to requesters for the tree as it is -/
theorem grant_only_to_requesters_current (ops : List Op) (s : State Cfg.current.g) (h : run Cfg.current ops = .ok s) (r : Rec)
    (hr : r ∈ s.core.st.recs) (ht : r.tok ≠ .none) : r.asked = true :=
  grant_only_to_requesters Cfg.current rfl ops s h r hr ht

/-! ## the scheduler -/

/-- **only requesters are scheduled**, whatever the comparison chain does: the client `vbi_proxyd_channel_schedule` returns
    is a client of the device with a valid profile at background priority -/
theorem schedule_only_candidates (cfg : Cfg) (s : State cfg.g) (d h : Nat) (hp : (channelSchedule cfg s d).2 = some h) :
    ∃ c ∈ s.clients, c.dev = d ∧ c.h = h ∧ (recOf s c.h).asked = true :=
  Zvbi.Proxy.schedule_only_candidates cfg s d h hp

/-- **the pick is deterministic**: it is a function of the clock and of the scheduler's view of the device's clients
    (token state, sub-priority, min_duration, completed flag, cycle count, last start - `Cand`), nothing else -/
theorem schedule_deterministic (cfg : Cfg) (s s' : State cfg.g) (d : Nat) (hn : s.now = s'.now)
    (hc : (s.clients.filter (·.dev == d)).map (candOf s) = (s'.clients.filter (·.dev == d)).map (candOf s')) :
    (channelSchedule cfg s d).2 = (channelSchedule cfg s' d).2 := by
  have h1 : ∀ t : State cfg.g, (channelSchedule cfg t d).2 =
      (cfg.pick t.now ((t.clients.filter (·.dev == d)).map (candOf t))).filter
        (fun h => ((t.clients.filter (·.dev == d)).map (candOf t)).any (fun c => c.h == h && c.cand)) := by
    intro t
    unfold channelSchedule
    dsimp only
    split
    · split <;> rfl
    · rfl
  rw [h1 s, h1 s', hn, hc]

/-- **what the code guarantees about waiting clients, and what it does not.**  `vbi_proxyd_channel_timer_update` arms the
    alarm only for a client that CONTROLS the channel (GRANTED / RETURNED).  A client that was just chosen is in state
    GRANT until its message is written, so the `channel_update` that grants a free token leaves the timer disarmed
    (`alarm (0)`); unless another message, disconnect or frame-independent event runs `channel_update` again, the
    scheduler never re-evaluates and equal-priority requesters wait for ever (replay corpus/C19/sched-timer-not-armed.ops,
    on the real code: one grant in 40 s with three equal requests and min_duration = 2 s).  The property does not demand
    fairness: an observation, not a violation. -/
theorem timer_not_armed_without_controller (g : Guards) (s : State g) (hn : ∀ c ∈ s.clients, (tokOf s c.h).controls = false) :
    (timerUpdate s).alarmAt = none ∧ (timerUpdate s).lastAlarm = some 0 :=
  timerUpdate_disarmed s hn

example : Tok.controls .grant = false ∧ Tok.controls .granted = true := by decide

/-! ## teardown -/

/-- **close_releases.** When a closed connection is unlinked it leaves the client list and the token machine: it no
    longer has a record, so it holds no token state, and the slot is free for the scheduler run that follows in
    `clientReap`. -/
theorem close_releases {g : Guards} (s : State g) (h : Nat) :
    findClient (unlink s h) h = none ∧ find (unlink s h).core.st h = none ∧
    (∀ r ∈ (unlink s h).core.st.recs, r ∈ s.core.st.recs ∧ r.h ≠ h) := by
  refine ⟨?_, ?_, ?_⟩
  · simp [unlink, coreOp, findClient, List.find?_eq_none]
  · simp only [unlink, coreOp, Reach.app, apply]
    split
    · simp [find, addLog, List.find?_eq_none]
    · rename_i hn; exact hn
  · intro r hr
    simp only [unlink, coreOp, Reach.app, apply] at hr
    split at hr
    · simp only [addLog, List.mem_filter] at hr
      exact ⟨hr.1, by simpa using hr.2⟩
    · rename_i hn
      refine ⟨hr, ?_⟩
      intro e
      have : (find s.core.st h) ≠ none := by
        unfold find
        intro hnone
        rw [List.find?_eq_none] at hnone
        exact hnone r hr (by simpa using e)
      exact this hn

/-- a token holder that disconnects frees the token: afterwards the device has no owner -/
example : (owners (([COp.add 0 0, .tokenReq 0 prioBACKGROUND 1, .grant 0, .sendGrant 0, .remove 0].foldl (apply ⟨true, true⟩) {})) 0) = [] := by decide

end Zvbi.Props.C19
