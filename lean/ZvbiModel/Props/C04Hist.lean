import ZvbiModel.Rawdec.BlankFrame
import ZvbiModel.Rawdec.Window
import ZvbiModel.Rawdec.Spec
/-!
# C04, round 3 - what a decoder remembers from frame to frame cannot cost a line; the CRI search covers the window

Continues `Props/C04.lean` / `Props/C04Bits.lean` (same model `Rawdec/Model.lean`; new: `Rawdec/Blank.lean`,
`Rawdec/Window.lean`).  Two statements of `src/raw_decoder.c` are read from /repo on every run
(`translate/gen_rawdecflags.py` -> `Generated/RawdecFlags.lean`): the body of the "line is blank" counter branch of
`decode_pattern`, and the two expressions assigned to `cri_end` in `vbi3_raw_decoder_add_services`.

Part 1 (histories).  A decoder object remembers, per scan line, the ORDER of the jobs searched on it, a "not blank"
marker, and - if the commented-out counter statement were live - how many calls found nothing.  For every state whose
pattern is *armed* (`PatArmed`: jobs first, marker in the last way; every successful `add_services` produces such rows,
see the examples) and EVERY history of decode calls from there, on ANY images:
* the pattern stays armed and every line keeps exactly its jobs (`armed_preserved_by_decodes`);
* in every call `decode_pattern` tries every job listed for the line, in way order, until one matches - no slicer
  call is skipped (`no_line_ever_skipped`, stated about `decode_pattern` AS /repo HAS IT);
* hence the records of a frame are a function of that frame's image, the jobs per line and `max_lines`
  (`frame_records_are_frameSpec`), and do not depend on the frames decoded before
  (`decode_is_history_independent`) - under two stated hypotheses: the slicers' verdicts do not depend on the adaptive
  threshold left behind by earlier lines/frames (`ThreshFree`), and at most one job matches each line (`UniqueHit`; the
  known cases with two matching jobs are F65, F67, F69, see `two_matches_order_decides`).
With the counter statement live this is false (`counter_on_skips_line`).

Part 2 (window).  For every row of the regenerated service table and every sampling window `set_params` accepts, the
CRI search range configured by `add_services` admits EXACTLY the positions at which data and look-ahead fit the window
(`cri_search_covers_window`); a limit of half the window loses positions (`wss_half_window_counterexample`).
-/
namespace Zvbi.Props.C04Hist
open Zvbi.Rawdec Zvbi.Generated.ServiceTable Zvbi.Generated.RawdecFlags
open Zvbi.Slicer (U32)

/-! ## 1. the prediction state -/

/-- **repo_counter_off.** In /repo's `decode_pattern` the body of `else if ((j = pattern[MAX_WAYS - 1]) < 0)` is one of
    the two forms the model knows, and the counter statement `pattern[MAX_WAYS - 1] = j + 1;` is NOT live. -/
theorem repo_counter_off : blankBranchKnown = true ∧ blankCounterOn = false := ⟨rfl, rfl⟩

/-- **model_is_repo_decode_pattern.** `decode_pattern` as /repo has it (the counter statement switched by the
    regenerated flag) is the `decodePattern` of `Rawdec/Model.lean` that all other C04 theorems are about. -/
theorem model_is_repo_decode_pattern (sp : SPar) (rj : Nat) (sl : Nat → Job → Option (List Nat) × Nat) (i : Nat)
    (row : PRow) (jobs : List Job) :
    decodePatternC blankCounterOn sp rj sl i row jobs = decodePattern sp rj sl i row jobs := by
  unfold decodePatternC decodePattern
  rw [repo_counter_off.2]
  exact decodeWaysC_false sp rj sl i _ _ _ _

example : (decodePatternC false ⟨625, 1, 13500000, 720, 132, 21, 2, 334, 2, false, true⟩ 3
    (fun _ job => (none, job.thresh)) 1 [1, 0, 0, 0, 0, 0, 0, -128] [⟨0x18, 8, 0⟩]).toOption
    = some ([1, 0, 0, 0, 0, 0, 0, -128], [⟨0x18, 8, 0⟩], none) := by decide
example : (decodePatternC true ⟨625, 1, 13500000, 720, 132, 21, 2, 334, 2, false, true⟩ 3
    (fun _ job => (none, job.thresh)) 1 [1, 0, 0, 0, 0, 0, 0, -128] [⟨0x18, 8, 0⟩]).toOption
    = some ([1, 0, 0, 0, 0, 0, 0, -127], [⟨0x18, 8, 0⟩], none) := by decide

/-- the decoder used in the examples: Teletext B + VPS + Caption 625 + WSS on lines 7-23 / 320-336 -/
def sEx : State := run Fixes.all (fun _ => 0) ⟨625, 1, 13500000, 720, 132, 7, 17, 320, 17, false, true⟩ [.add 0x41f 0]

/-- what `add_services` produces is armed (here: 4 jobs; line 22 lists Teletext = job 1 and Caption = job 4) -/
example : ∃ p, sEx.pattern = some p ∧ PatArmed p ∧ sEx.err = none ∧ p[15]? = some [1, 4, 0, 0, 0, 0, 0, -128] :=
  ⟨_, rfl, by decide, by decide, by decide⟩
/-- ... also after a remove and a further add -/
example : ∃ p, (run Fixes.all (fun _ => 0) ⟨625, 1, 13500000, 720, 132, 7, 17, 320, 17, false, true⟩
    [.add 0x1f 0, .remove 0x3, .add 0x400 1]).pattern = some p ∧ PatArmed p := ⟨_, rfl, by decide⟩

/-- **armed_preserved_by_decodes.** From any reachable state with an armed pattern, after ANY history of decode calls
    (any images, any `max_lines`): no error, same services, the jobs differ in slicer thresholds only, and row by row the
    pattern is valid, armed, and lists exactly the jobs it listed before (as a multiset - the order is the only thing
    that changes). -/
theorem armed_preserved_by_decodes (fx : Fixes) (ti : Nat → Nat) (sp : SPar) (ops : List Op) (p0 : Pattern)
    (hp0 : (run fx ti sp ops).pattern = some p0) (herr : (run fx ti sp ops).err = none) (ha : PatArmed p0)
    (h : List (Nat × Slicer)) :
    let s0 := run fx ti sp ops
    let s := runDecodes s0 h
    s.err = none ∧ s.services = s0.services ∧ s.jobs.map jobKey = s0.jobs.map jobKey ∧
    ∃ p, s.pattern = some p ∧ RowsRel s0.jobs.length p0 p ∧ PatArmed p := by
  intro s0 s
  have hst := runDecodes_rel h s0 (StateRel.refl (armedState_of_run fx ti sp ops p0 hp0 herr ha))
  obtain ⟨q0, p, hq0, hp, hrr⟩ := hst.pat
  rw [hp0] at hq0
  cases hq0
  exact ⟨hst.err, hst.services, hst.jobs.symm, p, hp, hrr, fun r hr => (hrr.right r hr).2⟩

/-- **no_line_ever_skipped.** From any reachable state with an armed pattern, after ANY history of decode calls, for
    EVERY line `i`: the line still lists exactly the jobs it listed at the start, and the next call of
    `decode_pattern` - as /repo has it - on ANY image `sl` returns inside the row and does exactly `tryJobs` over ALL
    jobs listed for the line: each is tried, in way order, with the threshold its slicer has at that moment, until one
    matches; the record is that match.  No prediction state can make the decoder skip a slicer call. -/
theorem no_line_ever_skipped (fx : Fixes) (ti : Nat → Nat) (sp : SPar) (ops : List Op) (p0 : Pattern)
    (hp0 : (run fx ti sp ops).pattern = some p0) (herr : (run fx ti sp ops).err = none) (ha : PatArmed p0)
    (h : List (Nat × Slicer)) :
    let s := runDecodes (run fx ti sp ops) h
    ∃ p, s.pattern = some p ∧ ∀ (i : Nat) (row : PRow), p[i]? = some row →
      (∃ row0, p0[i]? = some row0 ∧ SameJobs row0 row) ∧
      ∀ (sl : Nat → Job → Option (List Nat) × Nat),
        ∃ row', decodePatternC blankCounterOn s.sp s.readjust sl i row s.jobs =
          .ok (row', (tryJobs sl (jobsOf row) s.jobs).2,
               (tryJobs sl (jobsOf row) s.jobs).1.map (fun m => ({ id := m.2.1.id, line := lineOf s.sp i, data := m.2.2 } : Rec))) := by
  intro s
  obtain ⟨_, _, hjobs, p, hp, hrr, _⟩ := armed_preserved_by_decodes fx ti sp ops p0 hp0 herr ha h
  refine ⟨p, hp, ?_⟩
  intro i row hrow
  obtain ⟨row0, hrow0, hrel⟩ := rowsRel_getElem? hrr i row hrow
  refine ⟨⟨row0, hrow0, hrel.2.2⟩, ?_⟩
  intro sl
  have hlen : (run fx ti sp ops).jobs.length = s.jobs.length := by
    have := congrArg List.length hjobs
    simpa using this.symm
  have hok : RowOK s.jobs.length row := by rw [← hlen]; exact hrel.1
  obtain ⟨row', jobs', rec, he, _, hj, hr⟩ :=
    decodeWays_armed s.sp s.readjust sl i row.length 0 row s.jobs (by rw [hok.len]) hok hrel.2.1 (by intro q hq; omega)
  rw [List.drop_zero] at hj hr
  refine ⟨row', ?_⟩
  rw [model_is_repo_decode_pattern]
  unfold decodePattern
  rw [he, hj, hr]

/-- non-vacuity: line 22 (row 15) of `sEx` lists Teletext (job 1) and Caption (job 4); on an image where only the
    caption slicer matches both are tried, the caption record is returned and caption moves to way 0 -/
example : (decodePattern sEx.sp 5 (fun j _ => if j = 3 then (some [0x80, 0x80], 7) else (none, 9)) 15
    [1, 4, 0, 0, 0, 0, 0, -128] sEx.jobs).toOption =
    some ([4, 1, 0, 0, 0, 0, 0, -128], [⟨3, 2, 9⟩, ⟨4, 5, 0⟩, ⟨0x400, 7, 0⟩, ⟨0x18, 9, 7⟩], some ⟨0x18, 22, [0x80, 0x80]⟩) := by
  decide +kernel

/-- **frame_records_are_frameSpec.** From any reachable state with an armed pattern, after ANY history of decode
    calls: for an image whose slicing does not depend on the adaptive thresholds (`ThreshFree`), the records of the
    next frame are `frameSpec` of the current pattern: row by row the first listed job that matches, cut at
    `max_lines` - nothing else enters (not `readjust`, not the marker, not earlier frames). -/
theorem frame_records_are_frameSpec (fx : Fixes) (ti : Nat → Nat) (sp : SPar) (ops : List Op) (p0 : Pattern)
    (hp0 : (run fx ti sp ops).pattern = some p0) (herr : (run fx ti sp ops).err = none) (ha : PatArmed p0)
    (h : List (Nat × Slicer)) (m : Nat) (sl : Slicer) (htf : ThreshFree sl) :
    let s := runDecodes (run fx ti sp ops) h
    ∃ p, s.pattern = some p ∧
      (decodeFrame s m sl).2.1 = if s.services = 0 then [] else frameSpec s.sp sl s.jobs p m := by
  intro s
  have hst := runDecodes_rel h _ (StateRel.refl (armedState_of_run fx ti sp ops p0 hp0 herr ha))
  obtain ⟨q0, p, _, hp, hrr⟩ := hst.pat
  refine ⟨p, hp, ?_⟩
  by_cases hsv : s.services = 0
  · rw [if_pos hsv]
    unfold decodeFrame
    have h1 : s.err.isSome = false := by rw [hst.err]; rfl
    simp [h1, hsv]
  · rw [if_neg hsv]
    have hlen := hst.jobs.length
    obtain ⟨_, _, _, _, _, _, _, hrec⟩ := decodeFrame_h s m sl hst.err hsv p hp
      (by intro r hr; rw [← hlen]; exact hrr.right r hr)
    exact hrec htf

/-- **order_cannot_change_result.** One line, two way orders of the same jobs (`SameJobs`), job lists that differ in
    thresholds only: if at most one listed job matches the line (`UniqueHit`) and the verdicts do not depend on the
    thresholds, the record is the same. -/
theorem order_cannot_change_result (sp : SPar) (sl : Slicer) (htf : ThreshFree sl) (jobs0 jobs : List Job)
    (hrel : jobs0.map jobKey = jobs.map jobKey) (i : Nat) (r r' : PRow) (hsame : SameJobs r r')
    (hu : UniqueHit sl jobs0 i r) : lineSpec sp sl jobs i r' = lineSpec sp sl jobs0 i r :=
  lineSpec_order_free sp sl htf hrel i r r' hsame hu

/-- **two_matches_order_decides.** The hypothesis `UniqueHit` is needed: when two listed jobs match the same line (the
    known findings F65 Teletext A/C, F67 Caption 525/Teletext 525, F69 low-pass Caption 625/Teletext B) the record
    depends on which is tried first - i.e. on history. -/
theorem two_matches_order_decides :
    lineSpec sEx.sp (fun _ _ _ => (some [1], 0)) sEx.jobs 15 [1, 4, 0, 0, 0, 0, 0, -128] = some ⟨3, 22, [1]⟩ ∧
    lineSpec sEx.sp (fun _ _ _ => (some [1], 0)) sEx.jobs 15 [4, 1, 0, 0, 0, 0, 0, -128] = some ⟨0x18, 22, [1]⟩ := by
  decide +kernel

/-- **decode_is_history_independent.** Fix a reachable state with an armed pattern (services, jobs, lines).  Whatever
    two histories of decode calls `h1`, `h2` (any number of frames, any images, any `max_lines`) the decoder has gone
    through, the records it returns for a frame `sl` are THE SAME - namely `frameSpec` of the starting state -
    provided the frame's slicing does not depend on the thresholds and at most one job matches each line.  (Without
    `UniqueHit` the histories can differ in the order of the ways: `two_matches_order_decides`.) -/
theorem decode_is_history_independent (fx : Fixes) (ti : Nat → Nat) (sp : SPar) (ops : List Op) (p0 : Pattern)
    (hp0 : (run fx ti sp ops).pattern = some p0) (herr : (run fx ti sp ops).err = none) (ha : PatArmed p0)
    (h1 h2 : List (Nat × Slicer)) (m : Nat) (sl : Slicer) (htf : ThreshFree sl)
    (hu : ∀ ir ∈ (List.range p0.length).zip p0, UniqueHit sl (run fx ti sp ops).jobs ir.1 ir.2) :
    (decodeFrame (runDecodes (run fx ti sp ops) h1) m sl).2.1 = (decodeFrame (runDecodes (run fx ti sp ops) h2) m sl).2.1 := by
  have key : ∀ h : List (Nat × Slicer),
      (decodeFrame (runDecodes (run fx ti sp ops) h) m sl).2.1 =
        if (run fx ti sp ops).services = 0 then [] else frameSpec sp sl (run fx ti sp ops).jobs p0 m := by
    intro h
    have hst := runDecodes_rel h _ (StateRel.refl (armedState_of_run fx ti sp ops p0 hp0 herr ha))
    obtain ⟨p, hp, hrec⟩ := frame_records_are_frameSpec fx ti sp ops p0 hp0 herr ha h m sl htf
    rw [hrec, hst.services]
    split
    · rfl
    · obtain ⟨q0, q, hq0, hq, hrr⟩ := hst.pat
      rw [hp0] at hq0; cases hq0
      rw [hp] at hq; cases hq
      unfold frameSpec
      rw [List.range_eq_range', List.range_eq_range'] at *
      rw [hst.sp, (run_inv fx ti sp ops).2]
      rw [frameSpec_congr sp sl htf hst.jobs _ p0 p 0 hrr hu]
  rw [key h1, key h2]

/-- non-vacuity: `sEx`, a frame with caption on line 22, decoded directly and after five other frames (three with
    Teletext on line 22, which moves Teletext to way 0): the same record -/
example :
    let img : Slicer := nominalSlicer [(0x8, 15, [0x80, 0x80])]
    let ttx : Slicer := nominalSlicer [(0x3, 15, [1, 2, 3])]
    (decodeFrame (runDecodes sEx []) 34 img).2.1 = [⟨0x18, 22, [0x80, 0x80]⟩] ∧
    (decodeFrame (runDecodes sEx [(34, img), (34, ttx), (34, ttx), (34, nominalSlicer []), (34, ttx)]) 34 img).2.1
      = [⟨0x18, 22, [0x80, 0x80]⟩] := by decide +kernel

/-- **counter_on_skips_line.** With the counter statement live the theorems above are FALSE: caption line 22 of a
    decoder (one job, marker -128), 129 calls without signal, then the signal is back - the call returns nothing (the
    line is predicted blank: row `[0, 1, ...]`), and so do the next 14 calls; the released code returns the record. -/
theorem counter_on_skips_line :
    let sp : SPar := ⟨625, 1, 13500000, 720, 132, 21, 2, 334, 2, false, true⟩
    let blank : Nat → Job → Option (List Nat) × Nat := fun _ job => (none, job.thresh)
    let signal : Nat → Job → Option (List Nat) × Nat := fun _ job => (some [0x80, 0x80], job.thresh)
    let start : PRow × List Job × Nat := ([1, 0, 0, 0, 0, 0, 0, -128], [⟨0x18, 8, 0⟩], 1)
    ((lineHistory true sp 1 start (List.replicate 129 blank ++ List.replicate 16 signal)).2.drop 129).map Option.isSome
      = List.replicate 15 false ++ [true] ∧
    ((lineHistory false sp 1 start (List.replicate 129 blank ++ List.replicate 16 signal)).2.drop 129).map Option.isSome
      = List.replicate 16 true := by
  decide +kernel

/-- FULL statement (open): every reachable pattern of the repaired code is armed, so that the hypothesis `PatArmed`
    of the theorems above holds after every history of add / remove / reset / decode.  It fails only if
    `add_job_to_pattern` can return FALSE ("Out of decoder pattern space": the rows compacted by its first loop lose
    their marker), which `add_accepts_all_full` (Props/C04Bits.lean, open since round 2) excludes. -/
def armed_after_every_history_full : Prop :=
  ∀ (ti : Nat → Nat) (sp : SPar) (ops : List Op) (p : Pattern), (run Fixes.all ti sp ops).pattern = some p → PatArmed p

/-- proved part: decode calls never disarm a pattern (all other ops: examples above, and `add_services` of one
    service set on a fresh decoder in `sEx`) -/
theorem armed_after_every_history_partial (fx : Fixes) (ti : Nat → Nat) (sp : SPar) (ops : List Op) (p0 : Pattern)
    (hp0 : (run fx ti sp ops).pattern = some p0) (herr : (run fx ti sp ops).err = none) (ha : PatArmed p0)
    (m : Nat) (sl : Slicer) : ∀ p, (run fx ti sp (ops ++ [.decode m sl])).pattern = some p → PatArmed p := by
  intro p hp
  obtain ⟨_, _, _, q, hq, _, harm⟩ := armed_preserved_by_decodes fx ti sp ops p0 hp0 herr ha [(m, sl)]
  have : run fx ti sp (ops ++ [.decode m sl]) = runDecodes (run fx ti sp ops) [(m, sl)] := by
    unfold run runDecodes
    rw [List.foldl_append]
    rfl
  rw [this, hq] at hp
  cases hp
  exact harm

/-! ## 2. the CRI search range covers the window -/

/-- **add_services_cri_end_repo.** With the two `cri_end` assignments /repo contains, `add_services` hands
    `vbi3_bit_slicer_set_params` exactly the arguments `rowParams` of C05 describes (`cri_end = ~0`), for every table
    row, pixel format, rate and window length - the premise under which C05's and round 2's slicer theorems speak about
    the raw decoder. -/
theorem add_services_cri_end_repo (r : Row) (fmt : Zvbi.Slicer.Fmt) (rate spl : Nat) :
    rowParamsW criEndWss criEndOther r fmt rate spl = Zvbi.Slicer.rowParams r fmt rate spl :=
  rowParamsW_repo r fmt rate spl

/-- **cri_search_covers_window.** For EVERY row of the regenerated service table, every pixel format, sampling rate
    (C `int`) and window length: if `set_params` accepts the window (otherwise `add_services` asserts), the search
    range it sets up from the `cri_end` of `add_services` admits search position `k` - the run-in found `k` samples
    after the start of the window - EXACTLY when FRC + payload still fit the window (`k + data_samples < spl`) and the
    furthest sample of the payload loop lies in it.  In particular the range is never cut below a position at which the
    whole signal lies inside the window, wherever the window starts (`sp->offset` does not enter) and however short
    it is. -/
theorem cri_search_covers_window (r : Row) (hr : r ∈ serviceTable) (fmt : Zvbi.Slicer.Fmt) (rate spl : Nat)
    (hrate : rate < 2147483648) (c : Zvbi.Slicer.Cfg)
    (h : Zvbi.Slicer.setParams true (rowParamsW criEndWss criEndOther r fmt rate spl) = .ok c) (k : Nat) :
    k < c.criSamples ↔
      (k + Zvbi.Slicer.dataSamples (Zvbi.Slicer.rowParams r fmt rate spl) < spl ∧
       k + Zvbi.Slicer.lookAhead c.kind c.phaseShift c.step c.nBits < spl) := by
  have hb := table_bits_le_rates r hr
  have hnw := row_no_wrap r fmt rate spl hrate hb.1 hb.2 criEndWss criEndOther
  rw [add_services_cri_end_repo] at h hnw
  have := Zvbi.Slicer.setParams_window _ c h rfl hnw k
  simpa [Zvbi.Slicer.rowParams] using this

/-- non-vacuity: WSS 625 (table row 7), 8 bit luma, 13.5 MHz, a 540 sample window (40 us): 314 positions, i.e. every
    `k` with `k + 226 < 540` -/
example : (serviceTable[7]?.bind (fun r =>
      (Zvbi.Slicer.setParams true (rowParamsW criEndWss criEndOther r ⟨1, 0, 1, true⟩ 13500000 540)).toOption)).map
    (fun c => (c.criSamples, Zvbi.Slicer.lookAhead c.kind c.phaseShift c.step c.nBits)) = some (314, 217) := by decide +kernel

/-- **wss_half_window_counterexample.** `cri_end = samples_per_line / 2` for WSS ("occupies only first half of line")
    is wrong for windows: 13.5 MHz, 540 samples from 0.96 us after 0H contain the whole WSS signal (10.9 - 38.5 us); the
    run-in and start code end 21.5 us after 0H = sample 277 of the window; data (226 samples) and look-ahead (217)
    fit behind it - but the search would stop at sample 270. -/
theorem wss_half_window_counterexample :
    (serviceTable[7]?.bind (fun r =>
      (Zvbi.Slicer.setParams true (rowParamsW (.splDiv 2) .all r ⟨1, 0, 1, true⟩ 13500000 540)).toOption)).map
      (fun c => (c.criSamples, decide (277 + 226 < 540 ∧ 277 + Zvbi.Slicer.lookAhead c.kind c.phaseShift c.step c.nBits < 540)))
      = some (270, true) := by decide +kernel

end Zvbi.Props.C04Hist
