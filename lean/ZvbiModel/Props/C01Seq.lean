import ZvbiModel.Dec.X26Seq
import ZvbiModel.Dec.TopIndex
/-!
# C01 - two counters the broadcast drives: the X/26 fill level and the line counter of the TOP index page

Both decide where the decoder writes next; both are tested in one place and used in another.
Facts regenerated from the current source by translate/gen_c01.py (`Generated/C01Facts.lean`).
-/
namespace Zvbi.Props.C01Seq
open Zvbi.Gen.C01

section X26
open Zvbi.Dec.X26Seq

/-- the facts about case 26 the proofs below rest on: the test is `num_triplets >= 208 || num_triplets != d * 13`, a rejected
packet leaves -1, nothing sits between test and stores, and only page headers reset the counter (to 0) -/
theorem x26_sequence_test_in_source :
    (∀ nt d : Int, x26Rejects nt d = decide (nt ≥ 208 ∨ nt ≠ d * 13)) ∧ x26Sentinel = -1 ∧ x26GapFill = false ∧
    x26HeaderResets = true ∧ x26Stride = 13 ∧ x26PerPacket = 13 := by
  refine ⟨fun _ _ => rfl, rfl, rfl, rfl, rfl, rfl⟩

/-- one packet, from any admissible counter value: every store is at an index 0 ... 207 and the counter stays admissible.
The sentinel never passes the test, an accepted packet starts exactly at `d * 13 <= 195`. -/
theorem x26_step_in_range (nt : Int) (op : Op) (h : CounterOk nt) :
    CounterOk (step nt op).1 ∧ ∀ i ∈ (step nt op).2, 0 ≤ i ∧ i ≤ 207 := by
  cases op with
  | header => simp [step, CounterOk]
  | other => simpa [step] using h
  | x26 d k =>
    have hd := d.isLt
    simp only [step]
    by_cases hr : x26Rejects nt d.val = true
    · simp [hr, CounterOk]
    · have hacc : ¬ (nt ≥ 208 ∨ nt ≠ (d.val : Int) * 13) := by simpa [x26Rejects] using hr
      rw [if_neg hr]
      simp only [x26GapFill, Bool.false_eq_true, false_and, if_false, List.nil_append, x26PerPacket, x26Stride,
        List.mem_map, List.mem_range, CounterOk, x26Sentinel]
      constructor
      · right; omega
      · rintro i ⟨j, hj, rfl⟩; omega

/-- **x26_store_index_in_range**: for EVERY packet history of a magazine (headers, X/26 packets with any designation in
any order - repeated, descending, a 17th one - with any number of good triplets, anything else in between), started from
any admissible counter value, every store `enh[num_triplets++] = triplet` happens at an index 0 ... 207, inside
`enh_lop.enh[209]` and behind `lop.have_flof`.  With the test relaxed to `>` (the sentinel -1 passes) or with a fill loop
the proof does not build (seeded C01-i). -/
theorem x26_store_index_in_range (ops : List Op) : ∀ (nt : Int), CounterOk nt → ∀ i ∈ run nt ops, 0 ≤ i ∧ i < (enhLen : Int) - 1 := by
  induction ops with
  | nil => intro nt _ i hi; simp [run] at hi
  | cons op rest ih =>
    intro nt h i hi
    have hs := x26_step_in_range nt op h
    simp only [run, List.mem_append] at hi
    rcases hi with hi | hi
    · have := hs.2 i hi
      simp only [enhLen]; omega
    · exact ih _ hs.1 i hi

/-- the decoder starts with the counter at 0 -/
theorem x26_store_index_in_range_from_start (ops : List Op) : ∀ i ∈ run 0 ops, 0 ≤ i ∧ i < (enhLen : Int) - 1 :=
  x26_store_index_in_range ops 0 (Or.inr ⟨by omega, by omega⟩)

/-- why the sentinel must not pass: with the test `num_triplets > d * 13` and the fill loop of the seeded change, the
history "X/26/0, X/26/0 (rejected), X/26/1" stores at index -1 (in front of the array: `lop.have_flof`) -/
theorem x26_relaxed_test_counterexample :
    let rejects (nt d : Int) : Bool := decide (nt ≥ 208 ∨ nt > d * 13)
    rejects 13 0 = true ∧ rejects (-1) 1 = false ∧ ((List.range (13 - (-1 : Int)).toNat).map fun (i : Nat) => (-1 : Int) + (i : Int)).head? = some (-1) := by
  decide

/-- non-vacuity: a full page of 16 packets fills 0 ... 207; a repeated designation stops the page -/
example : run 0 ((List.range 16).map fun d => Op.x26 ⟨d % 16, Nat.mod_lt _ (by decide)⟩ 13) = (List.range 208).map Int.ofNat := by decide +kernel
example : run 0 [.x26 0 13, .x26 0 13, .x26 1 13, .x26 2 5] = (List.range 13).map Int.ofNat := by decide
example : run 0 [.x26 0 13, .x26 0 13, .header, .x26 0 2] = (List.range 13).map Int.ofNat ++ [0, 1] := by decide

end X26

section TopIndex
open Zvbi.Dec.TopIndex

/-- reachable states of the title loop -/
def LoopInv (s : St) : Prop :=
  (s.subno > 0 → s.row = indexFirstRow ∧ 0 ≤ s.lines ∧ s.lines ≤ linesInit) ∧
  (s.subno ≤ 0 → s.lines ≤ linesInit ∧ (0 ≤ s.lines → (s.row : Int) + s.lines = indexFirstRow + linesInit) ∧
    (s.lines < 0 → (s.row : Int) ≤ indexFirstRow + linesInit))

theorem top_index_step (s : St) (h : LoopInv s) :
    LoopInv (step s).1 ∧ ∀ r, (step s).2 = some r → (r : Int) < indexFirstRow + linesInit := by
  obtain ⟨subno, lines, row⟩ := s
  simp only [LoopInv, indexFirstRow, linesInit] at h
  obtain ⟨h1, h2⟩ := h
  simp only [step, postDec, linesSigned, if_true, linesInit]
  by_cases hs : subno > 0
  · have := h1 hs
    simp only [hs, if_true]
    by_cases hl : lines = 0
    · simp only [hl, if_true, LoopInv, indexFirstRow, linesInit, reduceCtorEq, false_implies, implies_true, and_true]
      omega
    · simp only [hl, if_false, LoopInv, indexFirstRow, linesInit, reduceCtorEq, false_implies, implies_true, and_true]
      omega
  · have := h2 (by omega)
    simp only [hs, if_false]
    by_cases hl : lines ≤ 0
    · simp only [hl, if_true, LoopInv, indexFirstRow, linesInit, reduceCtorEq, false_implies, implies_true, and_true]
      omega
    · simp only [hl, if_false, LoopInv, indexFirstRow, linesInit, Option.some.injEq, Int.natCast_add, Int.natCast_one]
      refine ⟨by omega, fun r hr => by subst hr; omega⟩

theorem top_index_rows_bound : ∀ (n : Nat) (s : St), LoopInv s → ∀ r ∈ rows n s, (r : Int) < indexFirstRow + linesInit := by
  intro n
  induction n with
  | zero => intro s _ r hr; simp [rows] at hr
  | succ n ih =>
    intro s h r hr
    have hs := top_index_step s h
    unfold rows at hr
    split at hr
    · rename_i s' r0 heq
      have e1 : (step s).1 = s' := by rw [heq]
      have e2 : (step s).2 = some r0 := by rw [heq]
      simp only [List.mem_cons] at hr
      rcases hr with rfl | hr
      · exact hs.2 _ e2
      · exact ih s' (e1 ▸ hs.1) r hr
    · rename_i s' heq
      have e1 : (step s).1 = s' := by rw [heq]
      exact ih s' (e1 ▸ hs.1) r hr

/-- **top_index_rows_in_page**: for ANY number of AIT titles and ANY requested index sub-page, every row `top_index`
prints a title into is one of rows 4 ... 20, below `ROWS` = 25: with the right-most cell written (column 37) the store
stays inside `pg->text[]`.  `lines` is an `int` in the current source; with an unsigned type `lines--` wraps at 0 and
the proof does not build (seeded C01-j). -/
theorem top_index_rows_in_page (n : Nat) (subno : Int) :
    ∀ r ∈ rows n (init subno), r < pageRows ∧ r * extColumns + indexMaxColumn < pageTextLen := by
  intro r hr
  have hinv : LoopInv (init subno) := by
    refine ⟨fun _ => ⟨rfl, ?_, ?_⟩, fun _ => ⟨?_, fun _ => ?_, fun _ => ?_⟩⟩ <;>
      simp [init, indexFirstRow, linesInit]
  have := top_index_rows_bound n (init subno) hinv r hr
  simp only [indexFirstRow, linesInit, pageRows, extColumns, indexMaxColumn, pageTextLen] at *
  omega

/-- the counter is signed in the source -/
theorem top_index_lines_signed : linesSigned = true := by decide

/-- why it must be: with an unsigned counter 30 titles on sub-page 0 reach row 31 (beyond the 25 rows and, from row 25
on, beyond `pg->text[]`) -/
theorem top_index_unsigned_counterexample :
    let postDecU (l : Int) : Int := if l = 0 then 4294967295 else l - 1
    let stepU (s : St) : St × Option Nat :=
      if s.lines ≤ 0 then ({ s with lines := postDecU s.lines }, none)
      else ({ s with lines := postDecU s.lines, row := s.row + 1 }, some s.row)
    ((List.range 30).foldl (fun (acc : St × List Nat) _ =>
        match stepU acc.1 with | (s', some r) => (s', r :: acc.2) | (s', none) => (s', acc.2)) (init 0, [])).2.head? = some 32 := by
  decide +kernel

/-- non-vacuity: 40 titles - sub-page 0 prints rows 4 ... 20, sub-page 1 too (titles 19 ...), sub-page 2 rows 4 ... 7 -/
example : rows 40 (init 0) = (List.range 17).map (· + 4) := by decide
example : rows 40 (init 1) = (List.range 17).map (· + 4) := by decide
example : rows 40 (init 2) = [4, 5, 6, 7] := by decide

end TopIndex

end Zvbi.Props.C01Seq
