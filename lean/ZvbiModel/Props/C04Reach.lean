import ZvbiModel.Rawdec.NoAbort
import ZvbiModel.Props.C04Bits
import ZvbiModel.Props.C04Hist
/-!
# C04, round 5 - every reachable pattern is armed; `add_job_to_pattern` never runs out of pattern space

Closes the two statements left open in rounds 2 and 3 for the repaired `remove_services` (what /repo contains:
`repo_has_the_repairs`).

The missing half was: *the job numbers listed for a scan line stay pairwise distinct over all histories* of
add / remove / reset / decode calls.  With it a line lists at most `n_jobs <= 7` jobs (7 = merge classes of a video
standard), so next to the marker way there is always a second free way for the job being added (or the job is listed
already): `add_job_to_pattern` never returns FALSE, no row is left compacted without its marker, hence every row of
every reachable pattern is armed (`rows_armed_distinct_after_every_history`).  The hypothesis `PatArmed` of the round 3
theorems is discharged (`no_line_ever_skipped_reachable`, `decode_is_history_independent_reachable`).

`add_accepts_all_full` as literally written in round 2 (`rd->services` grows by EXACTLY `check_services (request)`) is
FALSE - not because a service is dropped but because `add_services` tests `check_services (par->id)` per TABLE ROW: a
row whose id is a union (Teletext B 625 = 0x3) is accepted as soon as one of the rows sharing a bit is permitted
(`add_accepts_all_counterexample`, confirmed on the C code: `corpus/C04/add-claims-unpermitted-subservice.ops`).
Proved instead: `rd->services` grows by exactly the union of the ids of the table rows `r` in the request with
`check_services (r.id) != 0` (`add_accepts_exactly`), which contains `check_services (request)`
(`add_never_drops_an_accepted_service`).
-/
namespace Zvbi.Props.C04Reach
open Zvbi.Rawdec Zvbi.Generated.ServiceTable Zvbi.Generated.RawdecFlags
open Zvbi.Slicer (U32)

/-- **rows_armed_distinct_after_every_history.** Repaired code, ANY history of add / remove / reset / decode calls, any
    sampling parameters and images: every row of the pattern is armed (jobs first, marker in the last way while the line
    has a job), the job numbers it lists are pairwise distinct and refer to live jobs. -/
theorem rows_armed_distinct_after_every_history (fx : Fixes) (hja : fx.jobAdvance = true) (hm : fx.merged = true)
    (hmk : fx.marker = true) (ti : Nat → Nat) (sp : SPar) (ops : List Op) (p : Pattern)
    (hp : (run fx ti sp ops).pattern = some p) :
    ∀ row ∈ p, RowArmed row ∧ (jobsOf row).Nodup ∧ (∀ x ∈ jobsOf row, 0 < x ∧ x ≤ ((run fx ti sp ops).jobs.length : Int)) ∧
      (jobsOf row).length ≤ 7 := by
  intro row hrow
  have hg := run_gd fx hja hm hmk ti sp ops p hp row hrow
  have hok := ((run_inv fx ti sp ops).1.pat p hp).2 row hrow
  have hb : ∀ x ∈ jobsOf row, 0 < x ∧ x ≤ ((run fx ti sp ops).jobs.length : Int) := by
    intro x hx
    rw [mem_jobsOf] at hx
    exact ⟨hx.2, hok.bound x hx.1⟩
  refine ⟨hg.armed, hg.nodup, hb, ?_⟩
  have h7 := (Zvbi.Props.C04Bits.job_ids_disjoint_at_most_7 fx hja hm ti sp ops).1
  have := pigeon (jobsOf row) _ hg.nodup hb
  omega

/-- non-vacuity: the bound 7 is attained (625 lines, lines 7-11 sampled, strict 0, all services) -/
example : (run Fixes.all (fun _ => 0) ⟨625, 1, 13500000, 720, 132, 7, 5, 320, 5, false, true⟩ [.add 0xffffffff 0]).pattern.map
    (fun p => (p.map (fun row => (jobsOf row).length)).take 5) = some [7, 7, 7, 7, 7] := by decide +kernel

/-- **armed_after_every_history.** The full statement of Props/C04Hist.lean (open since round 3). -/
theorem armed_after_every_history : Zvbi.Props.C04Hist.armed_after_every_history_full := by
  intro ti sp ops p hp row hrow
  exact (rows_armed_distinct_after_every_history Fixes.all rfl rfl rfl ti sp ops p hp row hrow).1

/-- **armed_reachable.** The full statement of Props/C04.lean (false on the released code: `armed_counterexample`). -/
theorem armed_reachable : Zvbi.Props.C04.armed_reachable_full Fixes.all := by
  intro ti sp ops p hp row hrow
  have ha := (rows_armed_distinct_after_every_history Fixes.all rfl rfl rfl ti sp ops p hp row hrow).1
  have hlen := (((run_inv Fixes.all ti sp ops).1.pat p hp).2 row hrow).len
  obtain ⟨a0, a1, a2, a3, a4, a5, a6, a7, rfl⟩ := row8 row hlen
  rw [armed8_iff] at ha
  obtain ⟨c1, c2, c3, c4, c5, c6, c7, m⟩ := ha
  unfold Zvbi.Props.C04.armed
  by_cases h0 : 0 < a0
  · have := m h0
    simp [h0, this]
  · have : a0 ≤ 0 ∧ a1 ≤ 0 ∧ a2 ≤ 0 ∧ a3 ≤ 0 ∧ a4 ≤ 0 ∧ a5 ≤ 0 ∧ a6 ≤ 0 ∧ a7 ≤ 0 := by omega
    simp [this]

/-- **repo_has_the_repairs.** /repo contains the three repairs (regenerated `Generated/RawdecFacts.lean`), so the
    theorems of this file speak about `decode_pattern` / `add_services` / `remove_services` as /repo has them.  Stops
    compiling when one is reverted. -/
theorem repo_has_the_repairs : Fixes.repo = Fixes.all := by decide

/-- **armed_after_every_history_repo.** ... for the code in /repo. -/
theorem armed_after_every_history_repo (ti : Nat → Nat) (sp : SPar) (ops : List Op) (p : Pattern)
    (hp : (run Fixes.repo ti sp ops).pattern = some p) : PatArmed p := by
  rw [repo_has_the_repairs] at hp
  exact armed_after_every_history ti sp ops p hp

example : ∃ p, (run Fixes.repo (fun _ => 0) ⟨625, 1, 13500000, 720, 132, 7, 17, 320, 17, false, true⟩
    [.add 0x1f 0, .remove 0x3, .add 0x400 1, .remove 0x18, .add 0x2003 0]).pattern = some p ∧ p.length = 34 :=
  ⟨_, rfl, by decide +kernel⟩

/-- **no_line_ever_skipped_reachable.** `no_line_ever_skipped` (round 3) without the `PatArmed` hypothesis: after ANY
    history of add / remove / reset / decode calls of the repaired code that did not abort, and any further decode
    calls, for EVERY line the next `decode_pattern` call - as /repo has it - tries every job listed for the line, in way
    order, until one matches. -/
theorem no_line_ever_skipped_reachable (ti : Nat → Nat) (sp : SPar) (ops : List Op) (p0 : Pattern)
    (hp0 : (run Fixes.all ti sp ops).pattern = some p0) (herr : (run Fixes.all ti sp ops).err = none)
    (h : List (Nat × Slicer)) :
    let s := runDecodes (run Fixes.all ti sp ops) h
    ∃ p, s.pattern = some p ∧ ∀ (i : Nat) (row : PRow), p[i]? = some row →
      (∃ row0, p0[i]? = some row0 ∧ SameJobs row0 row) ∧
      ∀ (sl : Nat → Job → Option (List Nat) × Nat),
        ∃ row', decodePatternC blankCounterOn s.sp s.readjust sl i row s.jobs =
          .ok (row', (tryJobs sl (jobsOf row) s.jobs).2,
               (tryJobs sl (jobsOf row) s.jobs).1.map (fun m => ({ id := m.2.1.id, line := lineOf s.sp i, data := m.2.2 } : Rec))) :=
  Zvbi.Props.C04Hist.no_line_ever_skipped Fixes.all ti sp ops p0 hp0 herr (armed_after_every_history ti sp ops p0 hp0) h

/-- **decode_is_history_independent_reachable.** `decode_is_history_independent` (round 3) without the `PatArmed`
    hypothesis: for EVERY reachable decoder state of the repaired code, whatever two histories of decode calls follow,
    the records of a frame are the same (under `ThreshFree` and `UniqueHit`, as before). -/
theorem decode_is_history_independent_reachable (ti : Nat → Nat) (sp : SPar) (ops : List Op) (p0 : Pattern)
    (hp0 : (run Fixes.all ti sp ops).pattern = some p0) (herr : (run Fixes.all ti sp ops).err = none)
    (h1 h2 : List (Nat × Slicer)) (m : Nat) (sl : Slicer) (htf : ThreshFree sl)
    (hu : ∀ ir ∈ (List.range p0.length).zip p0, UniqueHit sl (run Fixes.all ti sp ops).jobs ir.1 ir.2) :
    (decodeFrame (runDecodes (run Fixes.all ti sp ops) h1) m sl).2.1 =
      (decodeFrame (runDecodes (run Fixes.all ti sp ops) h2) m sl).2.1 :=
  Zvbi.Props.C04Hist.decode_is_history_independent Fixes.all ti sp ops p0 hp0 herr
    (armed_after_every_history ti sp ops p0 hp0) h1 h2 m sl htf hu

/-- non-vacuity: a reachable state after add / remove / add, caption on line 22 decoded directly and after other frames -/
example :
    let s0 := run Fixes.all (fun _ => 0) ⟨625, 1, 13500000, 720, 132, 7, 17, 320, 17, false, true⟩ [.add 0x1f 0, .remove 0x4, .add 0x400 0]
    let img : Slicer := nominalSlicer [(0x8, 15, [0x80, 0x80])]
    let ttx : Slicer := nominalSlicer [(0x3, 15, [1, 2, 3])]
    s0.err = none ∧
    (decodeFrame (runDecodes s0 []) 34 img).2.1 = [⟨0x18, 22, [0x80, 0x80]⟩] ∧
    (decodeFrame (runDecodes s0 [(34, ttx), (34, ttx), (34, nominalSlicer []), (34, ttx)]) 34 img).2.1
      = [⟨0x18, 22, [0x80, 0x80]⟩] := by decide +kernel

/-! ## what `add_services` accepts -/

/-- union of the ids of the table rows inside the (masked) request `M` for which
    `_vbi_sampling_par_check_services_log (sp, par->id, strict)` is non-zero - the test `add_services` makes -/
def acceptedRows (sp : SPar) (M : Nat) (strict : Int) : Nat :=
  orAll (serviceTable.map (fun r => if r.id &&& M ≠ 0 ∧ checkServices sp r.id strict ≠ 0 then r.id else 0))

theorem acceptedRows_eq (sp : SPar) (M : Nat) (strict : Int) : acceptedSet sp M strict = acceptedRows sp M strict := by
  unfold acceptedSet acceptedRows enumTable
  have : ∀ (l : List Row) (k : List Nat), k.length = l.length →
      (k.zip l).map (fun x => accId sp M strict x.2) = l.map (fun r => accId sp M strict r) := by
    intro l
    induction l with
    | nil => intro k _; simp
    | cons r rs ih =>
      intro k hk
      cases k with
      | nil => simp at hk
      | cons a as => simp only [List.zip_cons_cons, List.map_cons]; rw [ih as (by simpa using hk)]
  rw [this _ _ (by simp)]
  rfl

/-- **add_accepts_exactly.** Repaired code, any history, any request: if `add_services` returns (no `set_params`
    assertion), `rd->services` has grown by EXACTLY the ids of the table rows in the masked request that
    `check_services (par->id)` accepts.  Neither the `MAX_JOBS` break nor "Out of decoder pattern space"
    (`add_job_to_pattern` returning FALSE) is reachable with the real table. -/
theorem add_accepts_exactly (ti : Nat → Nat) (sp : SPar) (ops : List Op) (sv : Nat) (strict : Int)
    (herr : (run Fixes.all ti sp (ops ++ [.add sv strict])).err = none) :
    (run Fixes.all ti sp (ops ++ [.add sv strict])).services =
      (run Fixes.all ti sp ops).services ||| acceptedRows sp (maskServices (run Fixes.all ti sp ops) sv) strict := by
  have hrun : run Fixes.all ti sp (ops ++ [.add sv strict]) = addServices ti (run Fixes.all ti sp ops) sv strict := by
    unfold run; rw [List.foldl_append]; rfl
  rw [hrun] at herr ⊢
  have hi := run_inv Fixes.all ti sp ops
  have := (addServices_gd ti _ sv strict hi.1 (run_jok Fixes.all rfl rfl ti sp ops) (run_gd Fixes.all rfl rfl rfl ti sp ops)).2 herr
  rw [this, hi.2, acceptedRows_eq]

/-- **add_never_drops_an_accepted_service.** ... and that set contains `check_services (request)`: every service
    `_vbi_sampling_par_check_services_log` accepts for the masked request is part of `rd->services` afterwards. -/
theorem add_never_drops_an_accepted_service (ti : Nat → Nat) (sp : SPar) (ops : List Op) (sv : Nat) (strict : Int)
    (herr : (run Fixes.all ti sp (ops ++ [.add sv strict])).err = none) :
    checkServices sp (maskServices (run Fixes.all ti sp ops) sv) strict &&&
      (run Fixes.all ti sp (ops ++ [.add sv strict])).services =
    checkServices sp (maskServices (run Fixes.all ti sp ops) sv) strict := by
  rw [add_accepts_exactly ti sp ops sv strict herr, Nat.or_comm]
  apply subset_trans_or
  generalize maskServices (run Fixes.all ti sp ops) sv = M
  rw [checkServices_eq]
  unfold acceptedRows
  apply orAll_sub_orAll
  intro r hr
  unfold chkId
  by_cases h1 : r.id &&& M = 0
  · simp [h1]
  · by_cases h2 : permitService sp r strict = true
    · have h0 : r.id ≠ 0 := by
        intro hz; rw [hz] at h1; simp at h1
      have := permitted_row_accepted sp strict r hr h0 h2
      simp [h1, h2, this]
    · simp [h1, h2]

example : checkServices ⟨625, 1, 13500000, 720, 132, 7, 17, 320, 17, false, true⟩ 0x41f 0 = 0x41f := by decide +kernel

/-- non-vacuity / the case of the counterexample below: Teletext B requested with strict 1 and lines 7-22 sampled -/
example : (run Fixes.all (fun _ => 0) ⟨625, 1, 13500000, 720, 132, 7, 16, 320, 16, false, true⟩ [.add 0x3 1]).services = 3 ∧
    acceptedRows ⟨625, 1, 13500000, 720, 132, 7, 16, 320, 16, false, true⟩ 0x3 1 = 3 ∧
    checkServices ⟨625, 1, 13500000, 720, 132, 7, 16, 320, 16, false, true⟩ 0x3 1 = 1 := by decide +kernel

/-- **add_accepts_all_counterexample.** `add_accepts_all_full` of round 2 (growth by exactly `check_services (request)`) is
    FALSE: with lines 7-22 / 320-335 sampled and strict 1, `check_services (TELETEXT_B)` = `TELETEXT_B_L10_625` (line 6
    / 318 of the Level 2.5 service is not sampled), but the table row "Teletext System B, 625" (id 0x3) passes
    `check_services (0x3) != 0` and `rd->services` becomes 0x3: the decoder reports `TELETEXT_B_L25_625` as decoded. -/
theorem add_accepts_all_counterexample : ¬ Zvbi.Props.C04Bits.add_accepts_all_full Fixes.all := by
  intro h
  have := h (fun _ => 0) ⟨625, 1, 13500000, 720, 132, 7, 16, 320, 16, false, true⟩ [] 0x3 1
  revert this
  decide +kernel

/-! ## the `set_params` assertion of `add_services` is unreachable -/

/-- **set_params_assertion_unreachable.** Sampling parameters with a pixel format `vbi3_bit_slicer_set_params` knows
    (`fmtOfCode`: every `VBI_PIXFMT_*` except PAL8 and the planar/compressed ones it rejects as "Unknown sample_format"), at
    most 32767 samples per line (`set_params` itself asserts this) and a 32 bit sampling rate: NO history of add / remove /
    reset / decode calls of the repaired code reaches `assert (!"bit_slicer_set_params")` or any other error value of the
    model.  For every table row `add_services` hands to `set_params` (those with `check_services (par->id) != 0`),
    `set_params` - including the look-ahead block of the C05 repair - accepts: the line-length comparison of
    `permit_service` is the "samples_per_line too small" test, its rate test gives `cri_rate, bit_rate <= sampling_rate`. -/
theorem set_params_assertion_unreachable (fx : Fixes) (hja : fx.jobAdvance = true) (hm : fx.merged = true)
    (hmk : fx.marker = true) (ti : Nat → Nat) (sp : SPar) (hc : CfgOK sp) (ops : List Op) :
    (run fx ti sp ops).err = none :=
  run_noerr fx hja hm hmk ti sp hc ops

/-- non-vacuity: 8 bit luma 720 samples and RGBA32 at 27 MHz are such configurations -/
example : CfgOK ⟨625, 1, 13500000, 720, 132, 7, 17, 320, 17, false, true⟩ ∧
    CfgOK ⟨525, 32, 27000000, 5760, 0, 10, 12, 272, 12, true, true⟩ := by unfold CfgOK; decide

/-- **cfg_hypothesis_needed.** Outside `CfgOK` the assertion IS reached (also in C: `add_services` aborts, by design):
    PAL8 (code 6) is a format `set_params` does not know; 40000 samples per line violate its own assert. -/
theorem cfg_hypothesis_needed :
    (run Fixes.all (fun _ => 0) ⟨625, 6, 13500000, 1440, 132, 7, 17, 320, 17, false, true⟩ [.add 0x1 0]).err
      = some "assert bit_slicer_set_params" ∧
    (run Fixes.all (fun _ => 0) ⟨625, 1, 13500000, 40000, 132, 7, 17, 320, 17, false, true⟩ [.add 0x1 0]).err
      = some "assert bit_slicer_set_params" := by decide +kernel

/-- **ids_within_services_every_history.** `ids_within_services_full` of Props/C04.lean without the "no abort"
    hypothesis of round 2 (`ids_within_services`), for every configuration in which C does not abort: after ANY history
    and `remove_services (sv)` no live job carries a bit of `sv`. -/
theorem ids_within_services_every_history (ti : Nat → Nat) (sp : SPar) (hc : CfgOK sp) (ops : List Op) (sv : Nat) :
    ∀ job ∈ (run Fixes.all ti sp (ops ++ [.remove sv])).jobs, job.id &&& sv = 0 :=
  Zvbi.Props.C04Bits.ids_within_services Fixes.all rfl rfl ti sp ops sv
    (set_params_assertion_unreachable Fixes.all rfl rfl rfl ti sp hc ops)

/-- **no_line_ever_skipped_every_history.** ... and the round 3 theorem with NO hypothesis about the reached state: any
    configuration in which C does not abort, any history, any further decode calls, every line. -/
theorem no_line_ever_skipped_every_history (ti : Nat → Nat) (sp : SPar) (hc : CfgOK sp) (ops : List Op) (p0 : Pattern)
    (hp0 : (run Fixes.all ti sp ops).pattern = some p0) (h : List (Nat × Slicer)) :
    let s := runDecodes (run Fixes.all ti sp ops) h
    ∃ p, s.pattern = some p ∧ ∀ (i : Nat) (row : PRow), p[i]? = some row →
      (∃ row0, p0[i]? = some row0 ∧ SameJobs row0 row) ∧
      ∀ (sl : Nat → Job → Option (List Nat) × Nat),
        ∃ row', decodePatternC blankCounterOn s.sp s.readjust sl i row s.jobs =
          .ok (row', (tryJobs sl (jobsOf row) s.jobs).2,
               (tryJobs sl (jobsOf row) s.jobs).1.map (fun m => ({ id := m.2.1.id, line := lineOf s.sp i, data := m.2.2 } : Rec))) :=
  no_line_ever_skipped_reachable ti sp ops p0 hp0 (set_params_assertion_unreachable Fixes.all rfl rfl rfl ti sp hc ops) h

/-- **add_accepts_exactly_every_history.** `add_accepts_exactly` with the configuration hypothesis instead of "returned". -/
theorem add_accepts_exactly_every_history (ti : Nat → Nat) (sp : SPar) (hc : CfgOK sp) (ops : List Op) (sv : Nat) (strict : Int) :
    (run Fixes.all ti sp (ops ++ [.add sv strict])).services =
      (run Fixes.all ti sp ops).services ||| acceptedRows sp (maskServices (run Fixes.all ti sp ops) sv) strict :=
  add_accepts_exactly ti sp ops sv strict (set_params_assertion_unreachable Fixes.all rfl rfl rfl ti sp hc _)

end Zvbi.Props.C04Reach
