import ZvbiModel.Ttx.Hdr8Unread
import ZvbiModel.Props.C03
/-!
# C03, part 5 - the verbatim copy of the header's Hamming bytes (`raw[0][0..7]`) is not read

`C03.single_error_invisible_header_bytes`: a single bit error in one of the 8 Hamming bytes of a header
gives the same events and return value, and a state that differs from the error-free one ONLY in
`raw[0][0..7]` of the page in progress (`patchHdr8`).  What was open: that nothing later reads these bytes.
Readers of `raw[0]` are `store_lop` (rolling-header test `same_header`, clock test `same_clock`, copy of the
header text into `vt.header`) and the formatter.  Proved here, for an arbitrary page and arbitrary 8 bytes:

* `store_lop_verdict_ignores_hdr8` - the decision of `store_lop` (channel-switch reset / skip / store, roll
  header, header update, clock update, page-number offset) and the header text copied to `vt.header`;
* `formatter_ignores_hdr8` - every character code the Level 1 formatter works on.

Still open (see `hdr8_never_read_full`): the bisimulation over whole histories - the page is also STORED
with these bytes (they sit in the cached page and come back when the page is continued from the cache), so
the relation has to be carried through the cache; the two theorems are its local steps.
-/
namespace Zvbi.Props.C03Hdr8
open Zvbi.Ttx Zvbi.Ttx.Spec Zvbi.Hamm Zvbi.Gen

/-- `store_lop` does not read `raw[0][0..7]`: for every decoder state whose reference header starts with 8
    bytes that do not have odd parity (`vt.header[0..7]` is never written by the library and stays 0 - this is
    what makes the misplaced comparison of finding F24 harmless; with F24 repaired the hypothesis is not
    used), every page `vtp` and any 8 bytes `h8` in place of the stored Hamming bytes: same verdict
    (reset / skip / store with the same roll, header-update, clock and page-number-offset values) and the same
    header text copied into `vt.header`. -/
theorem store_lop_verdict_ignores_hdr8 (s : St) (vtp : Page) (h8 : List Nat) (hl : h8.length = 8)
    (hne : vtp.raw ≠ []) (hq : RefHdrQuiet s.header) :
    hdrVerdict s (withHdr8 vtp h8) = hdrVerdict s vtp ∧
    hdrText ((withHdr8 vtp h8).raw.getD 0 zeroRow) = hdrText (vtp.raw.getD 0 zeroRow) := by
  refine ⟨hdrVerdict_withHdr8 s vtp h8 hl hne hq, ?_⟩
  rw [withHdr8_row0 vtp h8 hne]
  unfold hdrText
  rw [List.drop_append_of_le_length (by omega)]
  simp [hl]

/-- non-vacuity: the initial decoder's reference header is quiet, and `withHdr8` is what `patchHdr8` writes -/
example : RefHdrQuiet (init.enable true).header ∧
    (patchHdr8 (init.enable true) 1 [1, 2, 3, 4, 5, 6, 7, 8]).rp 1
      = { (init.enable true).rp 1 with page := withHdr8 ((init.enable true).rp 1).page [1, 2, 3, 4, 5, 6, 7, 8] } := by
  constructor
  · intro i hi
    have : ∀ i < 8, oddPar ((init.enable true).header.getD i 0) = false := by decide +kernel
    exact this i hi
  · decide +kernel

/-- The Level 1 formatter does not read them either: every cell's character code is the same. -/
theorem formatter_ignores_hdr8 (vtp : Page) (h8 : List Nat) (hl : h8.length = 8) (hne : vtp.raw ≠ [])
    (row column : Nat) : fmtRaw (withHdr8 vtp h8) row column = fmtRaw vtp row column := by
  unfold fmtRaw
  by_cases h : (row == 0 && decide (column < 8)) = true
  · simp only [h, if_true]
  · simp only [h, Bool.false_eq_true, if_false]
    by_cases hr : row = 0
    · subst hr
      have hc : 8 ≤ column := by
        simp only [beq_self_eq_true, Bool.true_and, decide_eq_true_eq] at h; omega
      rw [withHdr8_tail vtp h8 hl hne column hc]
    · have : (withHdr8 vtp h8).raw.getD row zeroRow = vtp.raw.getD row zeroRow := by
        unfold withHdr8
        simp only [List.getD_eq_getElem?_getD]
        rw [List.getElem?_set_ne (by omega)]
      rw [this]

example : fmtRaw (withHdr8 { Page.zero with raw := List.replicate 26 blankRow } [1, 2, 3, 4, 5, 6, 7, 8]) 0 3 = 0 := by
  decide +kernel

/-- FULL STATEMENT (open, not proved): two histories that differ only in single bit errors of the Hamming bytes
    2..9 of HEADER packets yield
    the same events except for `raw[0][0..7]` of the pages carried by `Event.put`, and decoder states that are
    equal except for `raw[0][0..7]` of the pages under assembly and of the cached pages. -/
def hdr8_never_read_full : Prop :=
  ∀ (ps qs : List Packet), ps.length = qs.length →
    (∀ k, k < ps.length → ps.getD k [] = qs.getD k [] ∨
      ∃ i b pmag, 2 ≤ i ∧ i < 10 ∧ b < 8 ∧ WellFormed (ps.getD k []) ∧
        a16 (ps.getD k []) 0 = some pmag ∧ pmag >>> 3 = 0 ∧       -- a header packet
        (∀ j, j < 10 → IsHam8 (byte (ps.getD k []) j)) ∧
        qs.getD k [] = flipBit (ps.getD k []) i b) →
    ((run (init.enable true) ps).2.map fun e => match e with
        | Event.put p => Event.put (withHdr8 p (List.replicate 8 0)) | e => e) =
    ((run (init.enable true) qs).2.map fun e => match e with
        | Event.put p => Event.put (withHdr8 p (List.replicate 8 0)) | e => e)

end Zvbi.Props.C03Hdr8
