import ZvbiModel.Export.HtmlSpec
import ZvbiModel.Export.LemmasHtml
import ZvbiModel.Export.LemmasHtmlTags
import ZvbiModel.Export.LemmasHtmlUnesc
import ZvbiModel.Props.C16
/-!
# C16, HTML export module (exp-html.c) inside the model

Property theorems about `Export/Html.lean` (`htmlOps`: the write-layer calls of the module for a page):
faithful text, complete escaping, balanced tags, output size, and the link to the write-layer theorems
(`targets_agree`, `mem_bounded` of `Props/C16.lean` quantify over arbitrary call lists; the HTML module's
list is one of them).  `conv` is iconv for the page charset (one byte or failure), `colorAt` the colour map.
-/
namespace Zvbi.Props.C16Html
open Zvbi.Export Zvbi.Export.Spec

/-- the bytes between `<pre>` and `</pre>` -/
def htmlBody (cfg : HtmlCfg) (env : HtmlEnv) (conv : Nat → Option Nat) (colorAt : Nat → Nat) (cells : List (List Cell)) : Bytes :=
  output (piecesOps (bodyPieces cfg env conv colorAt (countStyles (htmlRows env.reveal cells)) (htmlRows env.reveal cells)))

/-- Shape of the document: header (nothing when `header=0`), `<pre>`, body, `</pre>`, page end, final line feed. -/
theorem html_document_shape (cfg : HtmlCfg) (env : HtmlEnv) (conv : Nat → Option Nat) (colorAt : Nat → Nat) (cells : List (List Cell)) :
    output (htmlOpsOf cfg env conv colorAt (htmlRows env.reveal cells))
      = output (headerOps cfg env colorAt (countStyles (htmlRows env.reveal cells))) ++ tagPre
          ++ htmlBody cfg env conv colorAt cells ++ tagPreOff ++ (if env.header then tailHtml else []) ++ [10]
    ∧ (env.header = false → headerOps cfg env colorAt (countStyles (htmlRows env.reveal cells)) = []) := by
  constructor
  · cases h : env.header <;>
      simp [htmlOpsOf, htmlBody, tailOps, output_append, output_cons, output_nil, opBytes, h, List.append_assoc]
  · intro h; simp [headerOps, h]

example : output (htmlOpsOf ⟨false, false⟩ { header := false } (fun u => some u) (fun _ => 0) (htmlRows false [[{ unicode := 60, size := 0, foreground := 3 }]]))
    = tagPre ++ tagSpanStyle ++ hashColor 0 ++ tagBgColor ++ hashColor 0 ++ tagQuoteGt ++ entLt ++ [10] ++ tagSpanOff ++ tagPreOff ++ [10] := by
  decide

/-- **(a) faithful.**  For every page, option vector and colour map: removing the tags from the body leaves exactly
the page's characters row by row, each HTML-escaped, each row closed by a line feed - printable characters as the
page charset has them (numeric entity where it has none or iconv answers `@`), block graphics replaced by `gfx_chr`,
continuation cells of enlarged characters, concealed cells (unless `reveal`) and no-break spaces as spaces, everything
else a space.  `GfxSafe`: `gfx_chr` is not one of `<` `>` `&` (low byte) unless the H2 repair is present. -/
theorem html_faithful (cfg : HtmlCfg) (env : HtmlEnv) (conv : Nat → Option Nat) (colorAt : Nat → Nat) (cells : List (List Cell))
    (hc : ConvByte conv) (hg : GfxSafe cfg env.gfx) :
    stripTags (htmlBody cfg env conv colorAt cells) = (pageText conv env.gfx env.reveal cells).flatMap escChar := by
  unfold htmlBody
  rw [strip_pieces _ (bodyPieces_ok cfg env conv colorAt _ hc hg _), bodyPieces_chr, chr_output cfg conv env.gfx hc hg, htmlRows_chars]

example : stripTags (htmlBody ⟨false, false⟩ {} (fun u => if u < 256 then some u else none) (fun _ => 0)
    [[{ unicode := 0x41, size := 0 }, { unicode := 0x20AC, size := 0, bold := true }, { unicode := 0xEE21, size := 0, foreground := 3 }]])
    = [0x41, 38, 35, 56, 51, 54, 52, 59, 35, 10] := by decide

/-- **(a) faithful, decoded.**  A reader who removes the tags and decodes the entities (`unescape`: plain bytes, `&lt;` `&gt;`
`&amp;`, decimal `&#N;`; anything else after `&` is an error) gets back exactly the page's characters row by row: tag
stripping followed by entity decoding is a left inverse of what the module writes between `<pre>` and `</pre>`.
(`vbi_char.unicode` is a 16-bit field.) -/
theorem html_text_recovered (cfg : HtmlCfg) (env : HtmlEnv) (conv : Nat → Option Nat) (colorAt : Nat → Nat) (cells : List (List Cell))
    (hc : ConvByte conv) (hg : GfxSafe cfg env.gfx) (hu : ∀ r ∈ cells, ∀ c ∈ r, c.unicode ≤ 0xFFFF) :
    unescape (stripTags (htmlBody cfg env conv colorAt cells)) = some (pageText conv env.gfx env.reveal cells) := by
  rw [html_faithful cfg env conv colorAt cells hc hg]
  apply unescape_escaped
  intro u hu'
  have := pageText_ucs_bound conv env.gfx env.reveal cells 0xFFFF (by decide) hu u hu'
  exact Nat.lt_of_le_of_lt this (by decide)

example : unescape [0x41, 38, 35, 56, 51, 54, 52, 59, 38, 108, 116, 59, 10] = some [.byte 0x41, .ucs 8364, .byte 60, .byte 10] := by decide
example : unescape [38, 120, 59] = none := by decide

/-- **(c) escape complete.**  The body is a sequence of complete tags (`<`, no `<` `>` `&` inside, `>`) and escaped
characters (a byte that is none of `<` `>` `&`, or `&lt;` `&gt;` `&amp;` `&#N;`): no character of the page can open or
close a tag or start an entity, and after removing the tags no `<` or `>` is left. -/
theorem html_escape_complete (cfg : HtmlCfg) (env : HtmlEnv) (conv : Nat → Option Nat) (colorAt : Nat → Nat) (cells : List (List Cell))
    (hc : ConvByte conv) (hg : GfxSafe cfg env.gfx) :
    (∃ segs : List Bytes, htmlBody cfg env conv colorAt cells = segs.flatten ∧ ∀ s ∈ segs, IsTag s ∨ IsEscaped s) ∧
    (∀ b ∈ stripTags (htmlBody cfg env conv colorAt cells), b ≠ 60 ∧ b ≠ 62) := by
  constructor
  · refine ⟨(bodyPieces cfg env conv colorAt (countStyles (htmlRows env.reveal cells)) (htmlRows env.reveal cells)).map
      (fun p => output p.ops), ?_, ?_⟩
    · unfold htmlBody
      generalize bodyPieces cfg env conv colorAt _ _ = ps
      induction ps with
      | nil => simp [piecesOps, output]
      | cons p ps ih => simp [piecesOps_cons, output_append, ih]
    · intro s hs
      obtain ⟨p, hp, rfl⟩ := List.mem_map.1 hs
      have := bodyPieces_ok cfg env conv colorAt _ hc hg _ p hp
      unfold PieceOk at this
      split at this
      · exact Or.inl this
      · exact Or.inr this
  · intro b hb
    rw [html_faithful cfg env conv colorAt cells hc hg] at hb
    obtain ⟨c, _, hbc⟩ := List.mem_flatMap.1 hb
    have he := isEscaped_noLt (escChar_isEscaped c)
    constructor
    · intro h; exact he.1 (h ▸ hbc)
    · intro h; exact he.2 (h ▸ hbc)

-- the hypotheses are met: latin-1 converter, the default gfx_chr '#'
example : ConvByte (fun u => if u < 256 then some u else none) := by
  intro u b h; dsimp only at h; split at h <;> simp at h; omega
example : GfxSafe ⟨false, false⟩ 35 := Or.inr (by unfold Plain; decide)
example : ∀ g, GfxSafe ⟨false, true⟩ g := fun _ => Or.inl rfl

/-- H2 witness (unrepaired code): with `gfx_chr` = `<` a block graphic puts a raw `<` into the text; removing the
tags then swallows the rest of the row: the page's characters are not recoverable. -/
theorem html_gfx_chr_counterexample :
    stripTags (htmlBody ⟨false, false⟩ { gfx := 60, color := false } (fun u => some u) (fun _ => 0)
      [[{ unicode := 0xEE21, size := 0 }, { unicode := 0x41, size := 0 }]])
      ≠ (pageText (fun u => some u) 60 false [[{ unicode := 0xEE21, size := 0 }, { unicode := 0x41, size := 0 }]]).flatMap escChar ∧
    stripTags (htmlBody ⟨false, true⟩ { gfx := 60, color := false } (fun u => some u) (fun _ => 0)
      [[{ unicode := 0xEE21, size := 0 }, { unicode := 0x41, size := 0 }]])
      = (pageText (fun u => some u) 60 false [[{ unicode := 0xEE21, size := 0 }, { unicode := 0x41, size := 0 }]]).flatMap escChar := by
  decide

/-- **(b) balanced.**  Reading the tags of the body in order (`tagsIn`: every segment from `<` to the next `>`), starting
with nothing open: every tag is one of `<span ...>` `</span>` `<u>` `</u>` `<b>` `</b>` `<i>` `</i>`; an element is
opened only while closed and closed only while open; a span is opened and closed only while u, b, i are all closed
(spans never cross the other elements); and at `</pre>` everything is closed.  (Spans stay open across row ends:
the line feed is inside the span.) -/
theorem html_tags_balanced (cfg : HtmlCfg) (env : HtmlEnv) (conv : Nat → Option Nat) (colorAt : Nat → Nat) (cells : List (List Cell))
    (hc : ConvByte conv) (hg : GfxSafe cfg env.gfx) :
    scanTags {} (tagsIn none (htmlBody cfg env conv colorAt cells)) = some {} := by
  unfold htmlBody
  rw [tagsIn_pieces _ (bodyPieces_ok cfg env conv colorAt _ hc hg _)]
  exact bodyPieces_scan cfg env conv colorAt _ _

example : tagsIn none (htmlBody ⟨false, false⟩ { color := false } (fun u => some u) (fun _ => 0)
    [[{ unicode := 0x41, size := 0, italic := true }]]) = [tagIOn, tagIOff] := by decide

/-- H3 (observation): u, b, i are opened in this order but closed one by one: underline switched off while bold stays on
gives `<u><b>A</u>B</b>` - balanced in the sense of `html_tags_balanced`, but not nested as the HTML grammar asks. -/
theorem html_strict_nesting_counterexample :
    htmlBody ⟨false, false⟩ { color := false } (fun u => some u) (fun _ => 0)
      [[{ unicode := 0x41, size := 0, underline := true, bold := true }, { unicode := 0x42, size := 0, bold := true }]]
      = tagUOn ++ tagBOn ++ [0x41] ++ tagUOff ++ [0x42, 10] ++ tagBOff ∧
    nested [] ((tagsIn none (htmlBody ⟨false, false⟩ { color := false } (fun u => some u) (fun _ => 0)
      [[{ unicode := 0x41, size := 0, underline := true, bold := true }, { unicode := 0x42, size := 0, bold := true }]])).filterMap tagEvent)
      = false := by
  decide

/-- H1 witness: for a caption page (pgno < 0x100) the unrepaired `title ()` starts the title element with `t`, not `<`;
with the repair (and for every Teletext page) it starts with `<`. -/
theorem html_caption_title_counterexample :
    (output (titleOps ⟨false, false⟩ { pgno := 1 })).head? = some 116 ∧
    (output (titleOps ⟨true, false⟩ { pgno := 1 })).head? = some 60 ∧
    (output (titleOps ⟨false, false⟩ { pgno := 0x100 })).head? = some 60 := by
  decide

/-- **(d) size.**  For a page of `cells.length` rows of `w` cells the document has at most
header + `<pre>` + rows * (131 * w + 1) + 19 (final closing tags) + `</pre>` + page end + line feed bytes:
per cell at most 19 bytes of closing tags, 77 of span, 12 of u / b / i and 23 of character. -/
theorem html_length_bound (cfg : HtmlCfg) (env : HtmlEnv) (conv : Nat → Option Nat) (colorAt : Nat → Nat) (cells : List (List Cell))
    (w : Nat) (hw : ∀ r ∈ cells, r.length = w) :
    (output (htmlOpsOf cfg env conv colorAt (htmlRows env.reveal cells))).length
      ≤ (output (headerOps cfg env colorAt (countStyles (htmlRows env.reveal cells)))).length
        + cells.length * (131 * w + 1) + 5 + 19 + 6 + 16 + 1 := by
  have hshape := (html_document_shape cfg env conv colorAt cells).1
  rw [hshape]
  have hw' : ∀ r ∈ htmlRows env.reveal cells, r.length = w := by
    intro r hr
    unfold htmlRows at hr
    obtain ⟨r0, hr0, rfl⟩ := List.mem_map.1 hr
    rw [normRow_length]; simp [hw r0 hr0]
  have hb := rowsStep_len cfg env conv colorAt (countStyles (htmlRows env.reveal cells)) w (htmlRows env.reveal cells) hw' (bodyInit env)
  have hcl := closers_len (rowsStep cfg env conv colorAt (countStyles (htmlRows env.reveal cells)) (bodyInit env) (htmlRows env.reveal cells)).1
  have hlen : (htmlRows env.reveal cells).length = cells.length := by simp [htmlRows]
  have hbody : (htmlBody cfg env conv colorAt cells).length ≤ cells.length * (131 * w + 1) + 19 := by
    unfold htmlBody bodyPieces
    have := plen_append (rowsStep cfg env conv colorAt (countStyles (htmlRows env.reveal cells)) (bodyInit env) (htmlRows env.reveal cells)).2
      (closers (rowsStep cfg env conv colorAt (countStyles (htmlRows env.reveal cells)) (bodyInit env) (htmlRows env.reveal cells)).1)
    unfold plen at this hb hcl
    rw [this]; rw [hlen] at hb; unfold cellMax at hb; omega
  have ht : (if env.header then tailHtml else []).length ≤ 16 := by split <;> simp [tailHtml]
  simp only [List.length_append, List.length_cons, List.length_nil]
  simp only [tagPre, tagPreOff, List.length_cons, List.length_nil] at *
  omega

example : (output (htmlOpsOf ⟨false, false⟩ { header := false } (fun u => some u) (fun _ => 0) (htmlRows false [[{ unicode := 0x41, size := 0 }]]))).length = 14 := by
  decide

/-- **Joined with the write layer.**  The HTML module's calls are an instance of the abstract call list the write-layer
theorems quantify over: whenever `htmlOps` yields the calls for a page, `vbi_export_mem` (any buffer, also NULL) returns
exactly the document's size and fills the buffer with its first bytes without touching anything past the given size
(`mem_bounded`), and `vbi_export_alloc`, `vbi_export_stdio`, `vbi_export_file` deliver exactly the document
(`targets_agree`). -/
theorem html_targets_agree (wcfg : Cfg) (cfg : HtmlCfg) (env : HtmlEnv) (conv : Nat → Option Nat) (pg : Page) (ops : List Op)
    (h : htmlOps cfg env conv pg = .ok ops) (user : Option Bytes) :
    (exportMem wcfg .unlimited user ops).ret = some (output ops).length ∧
    (exportMem wcfg .unlimited user ops).user.length = (user.getD []).length ∧
    (exportMem wcfg .unlimited user ops).user.take (min (output ops).length (user.getD []).length) = (output ops).take (user.getD []).length ∧
    (exportAlloc wcfg .unlimited ops).data = some (output ops) ∧
    (exportStdio wcfg .unlimited ops).sink = some (output ops) ∧ (exportFile wcfg .unlimited ops).sink = some (output ops) := by
  have ht := Zvbi.Props.C16.targets_agree wcfg user ops
  have hne : output ops ≠ [] := by
    unfold htmlOps at h
    split at h
    · cases h
    · dsimp only at h
      split at h
      · cases h
        simp [htmlOpsOf, tailOps, output_append, output_cons, opBytes]
      · cases h
  exact ⟨ht.1, (Zvbi.Props.C16.mem_bounded wcfg .unlimited user ops).1, ht.2.1, ht.2.2.1 hne, ht.2.2.2.1.2, ht.2.2.2.2.2⟩

example : ∃ ops, htmlOps ⟨false, false⟩ {} (fun u => some u)
    ⟨1, 1, List.replicate 1056 { unicode := 0x41, size := 0 }, [], List.replicate 40 0⟩ = .ok ops := ⟨_, rfl⟩

end Zvbi.Props.C16Html
