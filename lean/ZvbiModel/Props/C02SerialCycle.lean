import ZvbiModel.Ttx.SerialChain3
import ZvbiModel.Props.C02Serial
/-!
# Property C02: a whole cycle of MAGAZINE-SERIAL transmissions (`page_roundtrip_cycle_serial`)

The magazine-serial counterpart of `C02Chain.page_roundtrip_cycle` (which is the parallel-mode theorem).  In serial mode
every page header carries control bit C11 (`C11_MAGAZINE_SERIAL` in packet.c), a page is terminated by the next header of
ANY magazine that carries a different page number (magazine digit included), and the packets between two headers all
belong to the page of the first header.

* the decoder is in ANY state reached from a fresh decoder by a history of `GoodS` packets (consistent page headers
  `GoodHdr`, page headers of decimal or time-filling page numbers only `TextOnly`; nothing is asked about C11 of the
  history: parallel-mode pages, rows, X/26 .. 8/30, undecodable bytes of any magazine may have come before);
* a cycle `x0 :: xs` of transmissions (`STx = Tx × Packet × List RowPkt`, `SSegOk`), each of its OWN magazine: header of
  a decimal page with C11 set (any sub-code, other control bits, erase flag on/off), then any rows 1..25 of that page
  (any subset / order / repeats, odd-parity bytes);
* neighbours carry different full page numbers (`AltS`; 150 then 250 is allowed); a final header `fin` of any magazine
  `mF` whose page number `finPage` decodes (decimal or time-filling FF; only `TextOnly` is asked of it, C11 or not) and
  differs from the last transmission's.

Conclusions for the state after `fin` (`PageClaimS` mirrors `C02Chain.PageClaim`): (1) ALL TTX_PAGE events of the cycle
and `fin` = events of closing whatever was open before ++ exactly one `(pgno, subno)` per transmission, in order; (2)
every transmission was stored as `Fetched` says, page type not CLOCK; (3) for the last transmission of a page number,
exact and wildcard look-ups in the FINAL cache return exactly that entry; (4) rotating subpages.
Lemma chain: `Ttx/SerialChain1..3.lean`.  Joined with the formatter: `Props/C02SerialCycleFetch.lean`.
-/
namespace Zvbi.Props.C02SerialCycle
open Zvbi.Ttx Zvbi.Hamm Zvbi.Fmt Zvbi.Fmt.L1Spec Zvbi.Props.C02Roundtrip Zvbi.Props.C02Interleave

/-- the conclusions of `page_roundtrip_cycle_serial` about the transmission `x` at position `pre ++ x :: post` of the
    cycle, `s` = state before the cycle, `sF` = state after the final header (full page number `pgnoF`) -/
def PageClaimS (s sF : St) (pgnoF : Nat) (pre : List STx) (x : STx) (post : List STx) : Prop :=
  ∃ q pt, Fetched q x.1 (s1S (run s (sstream pre)).1 x.1) x.2.1 x.rows pt ∧ pt ≠ PT_CLOCK
    -- last transmission of its page number: exact and wildcard look-ups in the final cache return it
    ∧ ((∀ y ∈ post, y.1.pgno ≠ x.1.pgno) → pgnoF ≠ x.1.pgno →
        q ∈ sF.net.cache ∧ ∀ subno mask, subno = q.subno ∨ subno = ANY_SUBNO →
          (cacheGet sF.net.cache x.1.pgno subno mask).map (·.1) = some q)
    -- rotating subpages: later transmissions of the page number carry other sub-codes 01..79
    ∧ (SubCode x.1.subno → (∀ y ∈ post, y.1.pgno = x.1.pgno → SubCode y.1.subno ∧ y.1.subno ≠ x.1.subno) →
        pgnoF ≠ x.1.pgno →
        q.subno = x.1.subno ∧ (cacheGet sF.net.cache x.1.pgno x.1.subno 0xFFFFFFFF).map (·.1) = some q)

/-- **page_roundtrip_cycle_serial** (magazine-serial mode, transmissions of several magazines; see the file header).
From the state after ANY history of packets with consistent, text-only page headers: a cycle of serial-mode
transmissions (header with C11 of a decimal page of any magazine + any of its rows 1..25), neighbours with different
full page numbers, then a header `fin` of any magazine with yet another page number (decimal or time filling).  Then
(1) the TTX_PAGE events of the whole sequence are those of closing the page that was open before, followed by exactly
one `(pgno, subno)` per transmission in order; and for every transmission (2) it was stored as `Fetched` (text page,
its numbers / national option / flags, rows = previous version or blanks merged with the rows received), page type not
CLOCK, (3) if no later transmission nor `fin` carries its page number, exact and wildcard look-ups in the final cache
return that entry, (4) if the later transmissions of its page number carry other sub-codes 01..79, the exact look-up of
its own sub-code still returns it. -/
theorem page_roundtrip_cycle_serial (tmpl : List Nat) (off : Nat)
    (hist : List Packet) (hhist : ∀ p ∈ hist, GoodS tmpl off p)
    (x0 : STx) (xs : List STx) (hx : ∀ x ∈ x0 :: xs, SSegOk tmpl off x)
    (fin : Packet) (mF finPage : Nat) (hmF : mF < 8) (hfa : a16 fin 0 = some mF) (hfp : a16 fin 2 = some finPage)
    (hft : TextOnly fin)
    (halt : AltS ((x0 :: xs).map (·.1.pgno) ++ [mag8Of mF * 256 + finPage])) :
    let s := (run (init.enable true) hist).1
    let all := run s (sstream (x0 :: xs) ++ [fin])
    ttxPages all.2 = ttxPages (terminatePage (tick s) x0.1.m x0.1.pgno x0.1.page).2 ++ (x0 :: xs).map STx.key
    ∧ ∀ pre x post, x0 :: xs = pre ++ x :: post → PageClaimS s all.1 (mag8Of mF * 256 + finPage) pre x post := by
  intro s all
  have hs : SInv tmpl off s := (run_sinv hist _ (init_sinv tmpl off) hhist).1
  obtain ⟨hcl, hev, hcE⟩ := schain_from mF (mag8Of mF * 256 + finPage) finPage hmF s hs x0 xs hx halt
  have hall : all = run s (sstream (x0 :: xs) ++ [fin]) := rfl
  rw [run_append] at hall
  simp only [run_cons, run_nil, List.append_nil] at hall
  generalize hsE : (run s (sstream (x0 :: xs))).1 = sE at hall hcl hev hcE
  generalize hevE : (run s (sstream (x0 :: xs))).2 = evE at hall hev
  have hfe := header_events_s sE fin mF finPage hmF hfa hfp hcE hft
  generalize hcT : (terminatePage (tick sE) mF (mag8Of mF * 256 + finPage) finPage).1.net.cache = cT at hcl
  have hff : ∀ f : Page → Bool, (∀ y : Page, y.pgno = mag8Of mF * 256 + finPage → f y = false) →
      (step sE fin).1.net.cache.find? f = cT.find? f := by
    intro f hf
    rw [← hcT]
    exact header_find_s sE fin mF finPage hmF hfa hfp hcE hft f hf
  rw [hall]
  refine ⟨?_, ?_⟩
  · show ttxPages (evE ++ (step sE fin).2) = _
    rw [ttxPages_append, hfe, ← ttxPages_append]
    exact hev
  · intro pre x post e
    show PageClaimS s (step sE fin).1 (mag8Of mF * 256 + finPage) pre x post
    rw [e] at hcl
    obtain ⟨q, rest, pt, hF, hpt, hfind⟩ := sclaims_split cT pre s x post hcl
    have hxok : SSegOk tmpl off x := hx x (by rw [e]; simp)
    have hpage : x.1.page < 256 := a16_lt x.2.1 2 _ hxok.hdr.page
    have hvalid : validPgno x.1.pgno := (pgno_facts x.1.m x.1.page hxok.hdr.mag hxok.dec).1
    have hkm : ∀ key mask (y : Page), y.pgno = mag8Of mF * 256 + finPage → mag8Of mF * 256 + finPage ≠ x.1.pgno →
        keyMatch x.1.pgno key mask y = false := by
      intro key mask y hy hne
      cases hk : keyMatch x.1.pgno key mask y with
      | false => rfl
      | true =>
        exfalso
        have := (keyMatch_true hk).1
        rw [hy] at this
        exact hne this
    refine ⟨q, pt, hF, hpt, ?_, ?_⟩
    · intro hlast hfinne
      have hk := sknown_of_claim cT x post q rest hF.pgno hlast hfind
      have hfound : ∀ subno mask, subno = q.subno ∨ subno = ANY_SUBNO →
          (step sE fin).1.net.cache.find? (keyMatch x.1.pgno subno (if subno == ANY_SUBNO then 0 else mask)) = some q := by
        intro subno mask hsub
        rw [hff _ (fun y hy => hkm _ _ y hy hfinne)]
        exact hk subno mask hsub
      refine ⟨?_, ?_⟩
      · exact List.mem_of_find?_eq_some (hfound ANY_SUBNO 0 (Or.inr rfl))
      · intro subno mask hsub
        exact cacheGet_of_find _ _ subno mask q hvalid (hfound subno mask hsub)
    · intro hsc hrot hfinne
      have hb : isBcd x.1.pgno = true := isBcd_pgno x.1.m hxok.hdr.mag x.1.page hpage hxok.dec.1 hxok.dec.2
      have hqs : q.subno = x.1.subno := hF.subno _ _ (putKey_sub pt x.1.pgno x.1.subno hb hsc hpt)
      refine ⟨hqs, ?_⟩
      have hsx : x.1.subno < 256 := by have := hsc.2.1; omega
      have hany : (x.1.subno == ANY_SUBNO) = false := by
        have : x.1.subno ≠ ANY_SUBNO := by unfold ANY_SUBNO; omega
        simpa using this
      apply cacheGet_of_find _ _ _ _ q hvalid
      simp only [hany, Bool.false_eq_true, if_false]
      rw [hff _ (fun y hy => hkm _ _ y hy hfinne), hfind _]
      · have hmq : keyMatch x.1.pgno x.1.subno 0xFFFFFFFF q = true := by
          unfold keyMatch
          rw [hF.pgno, hqs]
          simp
        rw [List.find?_cons, hmq]
      · intro y hy
        by_cases hyp : y.1.pgno = x.1.pgno
        · obtain ⟨hys, hyne⟩ := hrot y hy hyp
          refine ⟨?_, ?_⟩
          · rw [hyp]; exact putKeeps_sub x.1.pgno y.1.subno x.1.subno hb hys hsx hyne
          · rw [hyp]
            exact fun n => getKeeps_sub x.1.pgno y.1.subpage y.1.fl y.1.subno x.1.subno rfl hys.2.1 hsx hyne n
        · exact undistS_other _ _ _ y.1 hyp

/-! ### the concrete serial cycle used for non-vacuity -/

/-- header with C11 set of page (`m`, `page`), page number at columns 8..10 of the header text -/
def hdS (m page : Nat) : Packet := hdrPkt m page 0x10 (textOf (mag8Of m * 256 + page) 0x20)
def serTmpl : List Nat := payload (hdS 1 0)

/-- magazine 1 sends 150 (row 1), magazine 2 sends 250 (row 1), magazine 1 sends 150 again (row 2 only, no erase flag) -/
def ser0 : STx := (⟨1, 0x50, 0, 0, 0x10⟩, hdS 1 0x50, [(1, rowPkt 1 1 0xC1)])
def ser1 : STx := (⟨2, 0x50, 0, 0, 0x10⟩, hdS 2 0x50, [(1, rowPkt 2 1 0x43)])
def ser2 : STx := (⟨1, 0x50, 0, 0, 0x10⟩, hdS 1 0x50, [(2, rowPkt 1 2 0x45)])

/-- `page_roundtrip_cycle_serial` APPLIES to that cycle from a fresh decoder (every hypothesis discharged; final header:
    time-filling header of magazine 3): the claim for 250 of magazine 2 in the middle, closed by the header of 150 of
    magazine 1 -/
example : PageClaimS (init.enable true)
    (run (init.enable true) (sstream [ser0, ser1, ser2] ++ [hdS 3 0xFF])).1 0x3FF [ser0] ser1 [ser2] := by
  have hok : ∀ x ∈ [ser0, ser1, ser2], SSegOk serTmpl 8 x := by
    have : ∀ x ∈ [ser0, ser1, ser2], ssegOkB serTmpl 8 x = true := by decide +kernel
    exact fun x hx => ssegOk_of_dec _ _ x (this x hx)
  exact (page_roundtrip_cycle_serial serTmpl 8 [] (fun _ h => by cases h) ser0 [ser1, ser2] hok (hdS 3 0xFF) 3 0xFF
    (by decide) (by decide +kernel) (by decide +kernel) (textOnly_of_dec _ (by decide +kernel))
    ⟨by decide, by decide, by decide, trivial⟩).2 [ser0] ser1 [ser2] rfl

/-- what the model computes on that cycle: one event per transmission in order (magazines 1, 2, 1), page 150 = row 1 of
    its first and row 2 of its second transmission, 250 of magazine 2 intact -/
example :
    let r := run (init.enable true) (sstream [ser0, ser1, ser2] ++ [hdS 3 0xFF])
    ttxPages r.2 = [(0x150, 0), (0x250, 0), (0x150, 0)]
    ∧ (cacheGet r.1.net.cache 0x150 ANY_SUBNO 0).map (fun g => (g.1.raw.getD 1 [], g.1.raw.getD 2 []))
        = some (List.replicate 40 0xC1, List.replicate 40 0x45)
    ∧ (cacheGet r.1.net.cache 0x250 ANY_SUBNO 0).map (fun g => g.1.raw.getD 1 []) = some (List.replicate 40 0x43) := by
  decide +kernel


end Zvbi.Props.C02SerialCycle
