import ZvbiModel.Xds.Lemmas
import ZvbiModel.Xds.LemmasSep
import ZvbiModel.Xds.LemmasMore
import ZvbiModel.Xds.LemmasSvc
/-!
# C09 - XDS packets are delivered intact, exactly once, and only with a valid checksum

Property theorems only; helper lemmas live in `ZvbiModel/Xds/Lemmas*.lean`.

`Demux.*` is the model of `vbi_xds_demux_feed` (src/xds_demux.c), `Sep.*` the model of the
field-2 routing of `vbi_decode_caption` and of `xds_separator` (src/caption.c).  The step functions
take two control-flow facts of the C code as a parameter (`rk`: a refused header leaves the
interrupted packet alone; `ec`: the parity-error branch of `xds_separator` clears `cc->curr_sp`);
`translate/gen_xds.py` reads their current values from the source (`Gen.Xds.demuxRejectKeepsCurrent`,
`Gen.Xds.sepErrClearsCurr`; both were `false` on the original tree and are `true` since the repairs
1c0ef8d and 34b85fe), and the model driver runs with those.  A third generated fact,
`Gen.Xds.sepNuidCompared` (commit c11abb5: the decoder reset on a repeated network name is guarded
by `sum != n->nuid`), only enters `Sep.netDecode`; no theorem below depends on its value.  Theorems that hold either way quantify over the flag; where the property fails for the
current value there is a proved counterexample on a concrete stream (the same stream is replayed
on the C code from corpus/C09/ - as regression once the repair is in) next to the theorem for the repaired control flow.

Histories: `Demux.run rk Demux.init hist` is the state after feeding an arbitrary list of raw
byte pairs to a fresh demultiplexer, so a statement "for all `hist`" covers every reachable state.
-/
namespace Zvbi.Props.C09
open Zvbi.Xds Zvbi.Hamm Zvbi.Gen.Xds

/-! ## xds_demux.c -/

/-- never_oob, length_le_32 (xds_demux.c): for every sequence of byte pairs fed to a fresh
    demultiplexer no step reports an error site (no index outside `subpacket[][]`, no store outside
    `buffer[0..31]`, terminating NUL inside `vbi_xds_packet.buffer[36]`), and whatever is handed to
    the callback has 1..32 bytes and a (class, subclass) the table has room for. -/
theorem demux_never_oob_length_le_32 (rk : Bool) (hist : List (Nat × Nat)) :
    ∀ o ∈ (Demux.run rk Demux.init hist).2,
      o.err = none ∧ ∀ p, o.pkt = some p →
        1 ≤ p.data.length ∧ p.data.length ≤ 32 ∧ Demux.accepted p.cls p.sub :=
  (Demux.inv_run rk hist Demux.inv_init).2

example : (Demux.run false Demux.init [(0x01, 0x83), (0xC1, 0xC2), (0x8F, 0xEA)]).2.map (·.pkt) =
    [none, none, some ⟨0, 3, [0x41, 0x42]⟩] := by decide +kernel

/-- deliver_iff_valid (xds_demux.c): in every reachable state, a packet of an accepted (class, type)
    with 1..32 characters sent in one piece - start pair, payload pairs, end pair with final byte
    `ck`, every byte with odd parity - is handed to the callback exactly once with its class, type
    and bytes if the 7-bit sum of the packet is 0, and not at all otherwise; afterwards no packet
    is current (a repeated end pair delivers nothing). -/
theorem demux_deliver_iff_valid (rk : Bool) (hist : List (Nat × Nat)) (p : Packet) (hv : p.Valid)
    (hacc : Demux.accepted p.cls p.sub) (ck : Nat) (hck : ck < 128) :
    let s := (Demux.run rk Demux.init hist).1
    Demux.deliveries (Demux.run rk s (wire p ck)).2 =
      (if (bodySum p + ck) % 128 = 0 then [p.toPkt] else []) ∧
    (Demux.run rk s (wire p ck)).1.curr = none := by
  intro s
  have hs : Demux.Inv s := (Demux.inv_run rk hist Demux.inv_init).1
  unfold wire
  rw [Demux.run_map_parPair rk _ _ (Demux.wire7_lt p hv ck hck)]
  exact Demux.deliver_wire7 rk hs p hv hacc ck

/-- the checksum a conforming encoder sends makes the sum 0 -/
theorem checksum_valid (p : Packet) : (bodySum p + checksum p) % 128 = 0 ∧ checksum p < 128 := by
  unfold checksum; omega

example : Demux.deliveries (Demux.run false Demux.init (wire ⟨0, 3, [0x41, 0x42, 0x43]⟩ (checksum ⟨0, 3, [0x41, 0x42, 0x43]⟩))).2
    = [⟨0, 3, [0x41, 0x42, 0x43]⟩] := by decide +kernel

/-- a parity error is never delivered (xds_demux.c): replace any one byte pair of a transmitted
    packet by a pair in which at least one byte fails the parity check - nothing is delivered,
    whatever the checksum byte. -/
theorem demux_parity_error_not_delivered (rk : Bool) (hist : List (Nat × Nat)) (p : Packet) (hv : p.Valid)
    (hacc : Demux.accepted p.cls p.sub) (ck : Nat) (hck : ck < 128) (n : Nat) (hn : n < (wire p ck).length)
    (bad : Nat × Nat) (hbad : unpar8 bad.1 = none ∨ unpar8 bad.2 = none) :
    Demux.deliveries (Demux.run rk (Demux.run rk Demux.init hist).1 ((wire p ck).set n bad)).2 = [] :=
  Demux.fault_wire rk (Demux.inv_run rk hist Demux.inv_init).1 p hv hacc ck hck n
    (by simpa [wire] using hn) bad hbad

example : unpar8 0x41 = none ∧ (wire ⟨0, 3, [0x41, 0x42]⟩ 0x6A).length = 3 := by decide +kernel

/-- a missing start is never delivered (xds_demux.c): while no packet is current, payload pairs
    and an end pair deliver nothing and change nothing. -/
theorem demux_missing_start_not_delivered (rk : Bool) (s : Demux.State) (hs : s.curr = none)
    (payload : List Nat) (hp : ∀ c ∈ payload, isChar c) (ck : Nat) :
    Demux.deliveries (Demux.run7 rk s (pairsOf payload ++ [(0x0F, ck)])).2 = [] ∧
    (Demux.run7 rk s (pairsOf payload ++ [(0x0F, ck)])).1 = s := by
  obtain ⟨_, _, hcont, _⟩ := pairsOf_spec payload hp
  have := Demux.idle_run rk (pairsOf payload ++ [(0x0F, ck)]) hs (by
    intro q hq
    rcases List.mem_append.mp hq with hq | hq
    · have := hcont q hq; simp only [IsContent] at this; omega
    · simp only [List.mem_singleton] at hq; subst hq; simp)
  exact ⟨this.2, this.1⟩

example : Demux.init.curr = none ∧ ∀ c ∈ [0x41, 0x42, 0x43], isChar c := by decide

/-- interleaving_independent (xds_demux.c): a packet that is interrupted any number of times -
    each interruption being a block of readable pairs that starts with a caption control code or
    with a header for another buffer and contains no header for this packet's buffer, followed by
    the packet's continue pair and its next payload pairs - is delivered exactly as if it had been
    sent in one piece: once, intact, iff its sum is 0; what the foreign pairs are (other packets,
    complete or not, caption text, NULs) does not matter.  `forSlot` selects the deliveries
    labelled with a (class, type) of this packet's buffer; deliveries of the foreign packets are
    not constrained here.  With `rk = false` (the unchanged code) a foreign block may not *start*
    with a header the demultiplexer refuses - see `demux_unsupported_header_counterexample`. -/
theorem demux_interleaving_independent (rk : Bool) (hist : List (Nat × Nat)) (p : Packet) (hv : p.Valid)
    (hacc : Demux.accepted p.cls p.sub) (ck : Nat) (hck : ck < 128)
    (chunk0 : List Pair) (segs : List (List Pair × List Pair))
    (hch : chunksOf chunk0 segs = pairsOf p.payload)
    (hb : ∀ sg ∈ segs, Demux.ForeignBlock rk (Demux.slotOf p.cls p.sub) sg.1 ∧
      ∀ q ∈ sg.1, q.1 < 128 ∧ q.2 < 128) :
    Demux.forSlot (Demux.slotOf p.cls p.sub)
      (Demux.run rk (Demux.run rk Demux.init hist).1 ((interleaved7 p ck chunk0 segs).map parPair)).2 =
      if (bodySum p + ck) % 128 = 0 then [p.toPkt] else [] := by
  have hs := (Demux.inv_run rk hist Demux.inv_init).1
  have hw := Demux.wire7_lt p hv ck hck
  have hpay : ∀ q ∈ pairsOf p.payload, q.1 < 128 ∧ q.2 < 128 := by
    intro q hq; apply hw; simp [wire7, hq]
  have hlt : ∀ q ∈ interleaved7 p ck chunk0 segs, q.1 < 128 ∧ q.2 < 128 := by
    intro q hq
    simp only [interleaved7, List.mem_cons, List.mem_append, List.mem_flatMap, List.not_mem_nil, or_false,
      List.cons_append] at hq
    rcases hq with rfl | (hq | ⟨sg, hsg, hq⟩) | rfl
    · apply hw; simp [wire7]
    · apply hpay; rw [← hch]; simp [chunksOf, hq]
    · rcases hq with hq | rfl | hq
      · exact (hb sg hsg).2 q hq
      · have := hv.cls_lt; have := hv.sub_lt; simp only [contPair]; omega
      · apply hpay; rw [← hch]; simp only [chunksOf, List.mem_append, List.mem_flatMap]
        exact Or.inr ⟨sg, hsg, hq⟩
    · apply hw; simp [wire7]
  rw [Demux.run_map_parPair rk _ _ hlt]
  exact Demux.deliver_interleaved7 rk hs p hv hacc ck chunk0 segs hch (fun sg h => (hb sg h).1)

/-- an instance: title "ABCD" interrupted by a caption control code, two text pairs and a complete
    packet 2/1 "XY"; the hypotheses hold and the title is delivered (the foreign packet as well) -/
example :
    chunksOf [(0x41, 0x42)] [([(0x14, 0x2C), (0x54, 0x56), (5, 1), (0x58, 0x59), (0x0F, checksum ⟨2, 1, [0x58, 0x59]⟩)],
      [(0x43, 0x44)])] = pairsOf [0x41, 0x42, 0x43, 0x44] ∧
    Demux.Leaves false (Demux.slotOf 0 3) (0x14, 0x2C) ∧
    (∀ q ∈ [(0x54, 0x56), (5, 1), (0x58, 0x59), (0x0F, checksum ⟨2, 1, [0x58, 0x59]⟩)], ¬ Demux.Opens (Demux.slotOf 0 3) q) ∧
    Demux.deliveries (Demux.run false Demux.init ((interleaved7 ⟨0, 3, [0x41, 0x42, 0x43, 0x44]⟩
      (checksum ⟨0, 3, [0x41, 0x42, 0x43, 0x44]⟩) [(0x41, 0x42)]
      [([(0x14, 0x2C), (0x54, 0x56), (5, 1), (0x58, 0x59), (0x0F, checksum ⟨2, 1, [0x58, 0x59]⟩)], [(0x43, 0x44)])]).map parPair)).2
      = [⟨2, 1, [0x58, 0x59]⟩, ⟨0, 3, [0x41, 0x42, 0x43, 0x44]⟩] := by
  refine ⟨by decide, Or.inl (by decide), ?_, by decide +kernel⟩
  intro q hq
  simp only [List.mem_cons, List.not_mem_nil, or_false] at hq
  rcases hq with rfl | rfl | rfl | rfl <;> simp [Demux.Opens, Demux.slotOf, Demux.remap, Demux.remapWith, demuxRemapFrom, demuxLowLimit, demuxSubclasses] <;> omega


/-- corpus/C09/20-demux-unsupported-header.ops: title packet 0/3 "ABCD", interrupted after "AB" by a
    complete public-service packet 4/1 "PQ", re-opened with its continue pair -/
def witnessReject : List (Nat × Nat) :=
  [(0x01, 0x83), (0xC1, 0xC2), (0x89, 0x01), (0xD0, 0x51), (0x8F, 0x46), (0x02, 0x83), (0x43, 0xC4), (0x8F, 0xE3)]

/-- interleaving_independent is FALSE for the unchanged xds_demux.c when the interrupting packet has
    a class/subclass the demultiplexer refuses (class > MISC, e.g. every public-service packet, or
    subclass >= 0x18 outside 0x40..0x47): the refused header jumps to `discard:` with `sp` still
    pointing at the interrupted packet and resets it.  The witness is a conforming interleaving of a
    valid title packet with a valid public-service packet; the title is never delivered
    (`rk = false`), while with the refusal leaving `sp` alone (`rk = true`) it is. -/
theorem demux_unsupported_header_counterexample :
    witnessReject = (interleaved7 ⟨0, 3, [0x41, 0x42, 0x43, 0x44]⟩ (checksum ⟨0, 3, [0x41, 0x42, 0x43, 0x44]⟩)
      [(0x41, 0x42)] [([(9, 1), (0x50, 0x51), (0x0F, checksum ⟨4, 1, [0x50, 0x51]⟩)], [(0x43, 0x44)])]).map parPair ∧
    Demux.deliveries (Demux.run false Demux.init witnessReject).2 = [] ∧
    Demux.deliveries (Demux.run true Demux.init witnessReject).2 = [⟨0, 3, [0x41, 0x42, 0x43, 0x44]⟩] := by
  decide +kernel

/-! ### no_slot_aliasing (xds_demux.c, F33)

`Demux.remap` is `Demux.remapWith` at the four constants translate/gen_xds.py reads from the tree under
test: subclasses `>= from` are moved so that `from` lands on `to`; subclasses `low .. from - 1` are
refused; `n` is the second extent of `subpacket[][]`.  Two source shapes:

* unrepaired (F33): `if (i >= 0x40) i += 0x10 - 0x40;`, extent 0x18: `from, to, low, n = 64, 16, 64, 24`
* repaired (fixes/C09-demux-0x4n-own-buffers.diff): `if (i >= 0x40) i += VBI_XDS_MAX_SUBCLASSES - 0x40;
  else if (i >= VBI_XDS_MAX_SUBCLASSES) i = N_ELEMENTS (xd->subpacket[0]);`, extent 0x18 + 8: `64, 24, 24, 32`.

The theorems are stated for every layout; which one applies to the tree is decided by `low <= to`. -/

/-- Every layout whose refused gap starts at or below the place the high subclasses are moved to
    (`low <= to`) gives distinct accepted (class, subclass) pairs distinct buffers. -/
theorem demux_no_slot_aliasing_of_layout (f t l n : Nat) (hl : l ≤ t) (c1 s1 c2 s2 : Nat)
    (h1 : Demux.remapWith f t l n s1 < n) (h2 : Demux.remapWith f t l n s2 < n)
    (h : c1 * n + Demux.remapWith f t l n s1 = c2 * n + Demux.remapWith f t l n s2) : c1 = c2 ∧ s1 = s2 := by
  have hc : c1 = c2 := by
    rcases Nat.lt_trichotomy c1 c2 with hlt | heq | hgt
    · exfalso
      have : (c1 + 1) * n ≤ c2 * n := Nat.mul_le_mul_right n hlt
      rw [Nat.add_mul] at this; omega
    · exact heq
    · exfalso
      have : (c2 + 1) * n ≤ c1 * n := Nat.mul_le_mul_right n hgt
      rw [Nat.add_mul] at this; omega
  subst hc
  refine ⟨rfl, ?_⟩
  have h' : Demux.remapWith f t l n s1 = Demux.remapWith f t l n s2 := by omega
  unfold Demux.remapWith at h' h1 h2
  split at h' <;> split at h' <;> (try split at h') <;> (try split at h') <;> simp_all <;> omega

/-- Every layout that moves the high subclasses onto indices still open to low ones (`to < low`, `to < from`,
    `to < n`) makes subclasses `to` and `from` of one class share a buffer: F33 for all such layouts. -/
theorem demux_slot_aliasing_of_layout (f t l n : Nat) (h1 : t < l) (h2 : t < f) (h3 : t < n) :
    Demux.remapWith f t l n t < n ∧ Demux.remapWith f t l n f < n ∧
    Demux.remapWith f t l n t = Demux.remapWith f t l n f ∧ t ≠ f := by
  have a : ¬ t ≥ f := by omega
  have b : ¬ t ≥ l := by omega
  simp only [Demux.remapWith, a, b, if_false, ge_iff_le, Nat.le_refl, if_true]
  omega

/-- no_slot_aliasing (xds_demux.c) at FULL strength for a tree with the repair: all accepted (class, subclass)
    pairs - 0x00..0x17 and 0x40..0x47 of the classes current .. misc - have buffers of their own.  The hypothesis
    is a closed fact about the generated constants (`demux_layout_of_this_tree`): true with
    fixes/C09-demux-0x4n-own-buffers.diff applied, false on the unrepaired tree. -/
theorem demux_no_slot_aliasing (hl : demuxLowLimit ≤ demuxRemapTo) (c1 s1 c2 s2 : Nat)
    (h1 : Demux.accepted c1 s1) (h2 : Demux.accepted c2 s2)
    (h : Demux.slotOf c1 s1 = Demux.slotOf c2 s2) : c1 = c2 ∧ s1 = s2 :=
  demux_no_slot_aliasing_of_layout _ _ _ _ hl c1 s1 c2 s2 h1.2 h2.2 h

/-- no_slot_aliasing (xds_demux.c) is FALSE on a tree without the repair: subclasses 0x10..0x17 and 0x40..0x47
    of one class use the same buffer (`if (i >= 0x40) i += 0x10 - 0x40` is applied to every class and
    0x10..0x17 is not excluded).  The hypotheses are closed facts about the generated constants, true on the
    unrepaired tree (16 < 64, 16 < 64, 16 < 24), the first one false with the repair (24 < 24). -/
theorem demux_no_slot_aliasing_counterexample (h1 : demuxRemapTo < demuxLowLimit) (h2 : demuxRemapTo < demuxRemapFrom)
    (h3 : demuxRemapTo < demuxSubclasses) :
    ¬ (∀ c1 s1 c2 s2, Demux.accepted c1 s1 → Demux.accepted c2 s2 →
        Demux.slotOf c1 s1 = Demux.slotOf c2 s2 → c1 = c2 ∧ s1 = s2) := by
  intro h
  obtain ⟨a, b, e, ne⟩ := demux_slot_aliasing_of_layout _ _ _ _ h1 h2 h3
  have := h 0 demuxRemapTo 0 demuxRemapFrom ⟨Nat.zero_le _, a⟩ ⟨Nat.zero_le _, b⟩
    (by simp only [Demux.slotOf, Demux.remap]; rw [e])
  exact ne this.2

/-- which of the two cases the tree under test is: the flag the translator reads (is the branch
    `else if (i >= ..) i = N_ELEMENTS (..)` present) agrees with the arithmetic condition of the theorems, and
    the three side conditions of the counterexample hold exactly when the flag is off.  A half-applied repair
    (new mapping without the larger array, larger array without the new mapping, refusal branch with the old
    target) makes this fail to build or changes the accepted set, which the reference oracle reports. -/
theorem demux_layout_of_this_tree :
    decide (demuxLowLimit ≤ demuxRemapTo) = demuxGapRefused ∧
    decide (demuxRemapTo < demuxLowLimit ∧ demuxRemapTo < demuxRemapFrom ∧ demuxRemapTo < demuxSubclasses) = !demuxGapRefused ∧
    demuxSubclasses = demuxMaxSubclasses + (if demuxGapRefused then 8 else 0) ∧
    (∀ s, s < 128 → (Demux.remap s < demuxSubclasses ↔ s < 0x18 ∨ (0x40 ≤ s ∧ s < 0x48))) := by
  refine ⟨by decide, by decide, by decide, ?_⟩
  decide +kernel

-- non-vacuity, independent of the tree: the two layouts as literals
example : Demux.remapWith 64 16 64 24 0x10 = Demux.remapWith 64 16 64 24 0x40 ∧ Demux.remapWith 64 16 64 24 0x40 < 24 := by decide
example : Demux.remapWith 64 24 24 32 0x10 = 0x10 ∧ Demux.remapWith 64 24 24 32 0x40 = 0x18 ∧
    Demux.remapWith 64 24 24 32 0x47 < 32 ∧ ¬ Demux.remapWith 64 24 24 32 0x48 < 32 ∧ ¬ Demux.remapWith 64 24 24 32 0x18 < 32 ∧
    ¬ Demux.remapWith 64 24 24 32 0x3F < 32 := by decide

/-- no_slot_aliasing (xds_demux.c), the part that holds in either shape: below 0x40 (all subclasses EIA-608
    defines for the classes current, future, channel) distinct (class, subclass) have distinct buffers. -/
theorem demux_no_slot_aliasing_partial (c1 s1 c2 s2 : Nat) (h1 : Demux.accepted c1 s1) (h2 : Demux.accepted c2 s2)
    (l1 : s1 < demuxRemapFrom) (l2 : s2 < demuxRemapFrom) (h : Demux.slotOf c1 s1 = Demux.slotOf c2 s2) : c1 = c2 ∧ s1 = s2 := by
  have e : ∀ s, s < demuxRemapFrom → Demux.remap s = Demux.remapWith demuxRemapFrom 0 demuxLowLimit demuxSubclasses s := by
    intro s hs
    have : ¬ s ≥ demuxRemapFrom := by omega
    simp [Demux.remap, Demux.remapWith, this]
  simp only [Demux.accepted, Demux.slotOf] at h1 h2 h
  rw [e s1 l1] at h1 h; rw [e s2 l2] at h2 h
  -- below `from` the map is the identity or the refusal
  have key : ∀ s, s < demuxRemapFrom → Demux.remapWith demuxRemapFrom 0 demuxLowLimit demuxSubclasses s < demuxSubclasses →
      Demux.remapWith demuxRemapFrom 0 demuxLowLimit demuxSubclasses s = s := by
    intro s hs hlt
    have : ¬ s ≥ demuxRemapFrom := by omega
    simp only [Demux.remapWith, this, if_false] at hlt ⊢
    split at hlt
    · omega
    · rename_i hh; simp [hh]
  rw [key s1 l1 h1.2, key s2 l2 h2.2] at h
  have b1 := key s1 l1 h1.2; have b2 := key s2 l2 h2.2
  have q1 : s1 < demuxSubclasses := by rw [← b1]; exact h1.2
  have q2 : s2 < demuxSubclasses := by rw [← b2]; exact h2.2
  have hc : c1 = c2 := by
    rcases Nat.lt_trichotomy c1 c2 with hlt | heq | hgt
    · exfalso
      have : (c1 + 1) * demuxSubclasses ≤ c2 * demuxSubclasses := Nat.mul_le_mul_right _ hlt
      rw [Nat.add_mul] at this; omega
    · exact heq
    · exfalso
      have : (c2 + 1) * demuxSubclasses ≤ c1 * demuxSubclasses := Nat.mul_le_mul_right _ hgt
      rw [Nat.add_mul] at this; omega
  subst hc
  exact ⟨rfl, by omega⟩

/-- corpus/C09/30-demux-alias-0x10-0x40.ops: packet 3/0x40 "ABCD" interrupted after "AB" by a complete
    packet 3/0x10 "PQ", re-opened with its continue pair -/
def witnessAlias : List (Nat × Nat) :=
  [(0x07, 0x40), (0xC1, 0xC2), (0x07, 0x10), (0xD0, 0x51), (0x8F, 0xB9), (0x08, 0x40), (0x43, 0xC4), (0x8F, 0x20)]

/-- what the shared buffer costs, and what the repair gives: on a tree without the refusal branch
    (`demuxGapRefused = false`, F33) the valid packet 3/0x40 of the witness is never delivered (either control
    flow), only the interrupting 3/0x10 is; with the repair both are delivered, the interrupted one intact. -/
theorem demux_alias_loses_packet (rk : Bool) :
    witnessAlias = (interleaved7 ⟨3, 0x40, [0x41, 0x42, 0x43, 0x44]⟩ (checksum ⟨3, 0x40, [0x41, 0x42, 0x43, 0x44]⟩)
      [(0x41, 0x42)] [([(7, 0x10), (0x50, 0x51), (0x0F, checksum ⟨3, 0x10, [0x50, 0x51]⟩)], [(0x43, 0x44)])]).map parPair ∧
    Demux.deliveries (Demux.run rk Demux.init witnessAlias).2 =
      (if demuxGapRefused then [⟨3, 0x10, [0x50, 0x51]⟩, ⟨3, 0x40, [0x41, 0x42, 0x43, 0x44]⟩] else [⟨3, 0x10, [0x50, 0x51]⟩]) := by
  cases rk <;> decide +kernel

/-! ## caption.c -/

/-- length_le_32 and the upper half of never_oob (caption.c, either control flow): for every sequence
    of byte pairs on line 284 of a fresh decoder, no step stores at or above `buffer[32]`, uses an
    index outside `sub_packet[][]`, reaches `assert (!"reached")` or calls `xds_decoder` with a length
    outside 1..32 (its `assert (length > 0 && length <= 32)` is unreachable); the only error site a
    step can report is the store *below* the buffer, and only if the parity-error branch keeps
    `curr_sp`.  Every packet handed to `xds_decoder` has 1..32 bytes and class < 4, type < 0x18. -/
theorem sep_length_le_32 (ec : Bool) (hist : List (Nat × Nat)) :
    ∀ o ∈ (Sep.run ec Sep.init hist).2,
      (o.err = none ∨ (ec = false ∧ o.err = some "sep.store.under")) ∧
      ∀ p, o.dec = some p → 1 ≤ p.data.length ∧ p.data.length ≤ 32 ∧ Sep.accepted p.cls p.sub :=
  (Sep.inv_run ec hist (Sep.inv_init ec)).2

example : (Sep.run false Sep.init [(0x01, 0x83), (0xC1, 0xC2), (0x8F, 0xEA)]).2.map (·.dec) =
    [none, none, some ⟨0, 3, [0x41, 0x42]⟩] := by decide +kernel

/-- never_oob (caption.c) once the parity-error branch clears `cc->curr_sp`
    (fixes/xds-sep-parity-reset.diff): no step reports any error site. -/
theorem sep_never_oob_if_cleared (hist : List (Nat × Nat)) :
    ∀ o ∈ (Sep.run true Sep.init hist).2, o.err = none := by
  intro o ho
  rcases ((Sep.inv_run true hist (Sep.inv_init true)).2 o ho).1 with h | ⟨h, _⟩
  · exact h
  · cases h

example : (Sep.run true Sep.init [(0x01, 0x83), (0x43, 0x36), (0x45, 0x46)]).2.map (·.err) = [none, none, none] ∧
    (Sep.run false Sep.init [(0x01, 0x83), (0x43, 0x36), (0x45, 0x46)]).2.map (·.err) =
      [none, none, some "sep.store.under"] := by decide +kernel

/-- corpus/C09/10-sep-parity-keeps-curr.ops: title packet 0/3 "ABC6EFGH", the byte '6' sent with a
    parity error -/
def witnessParity : List (Nat × Nat) :=
  [(0x01, 0x83), (0xC1, 0xC2), (0x43, 0x36), (0x45, 0x46), (0xC7, 0xC8), (0x8F, 0x57)]

/-- never_oob and "a packet with a parity error is never delivered" are FALSE for the unchanged
    caption.c: the parity-error branch of `xds_separator` resets the buffer but clears only the local
    `sp`, not `cc->curr_sp`; the next payload pair is stored at `buffer[0 - 2]`, `buffer[0 - 1]` (inside
    `chksum`), reassembly goes on from `count = 2`, and because the bytes up to and including the
    damaged pair sum to 0 mod 128 the end pair checks: the title "GH" is delivered.  The witness is
    the wire form of a valid packet with bit 7 of one byte flipped.  With the branch clearing
    `curr_sp` (`ec = true`) nothing is stored and nothing is delivered. -/
theorem sep_parity_error_counterexample :
    witnessParity = (wire ⟨0, 3, [0x41, 0x42, 0x43, 0x36, 0x45, 0x46, 0x47, 0x48]⟩
        (checksum ⟨0, 3, [0x41, 0x42, 0x43, 0x36, 0x45, 0x46, 0x47, 0x48]⟩)).set 2 (0x43, 0x36) ∧
    unpar8 0x36 = none ∧
    Sep.errors (Sep.run false Sep.init witnessParity).2 = ["sep.store.under"] ∧
    Sep.deliveries (Sep.run false Sep.init witnessParity).2 = [⟨0, 3, [0x47, 0x48]⟩] ∧
    Sep.errors (Sep.run true Sep.init witnessParity).2 = [] ∧
    Sep.deliveries (Sep.run true Sep.init witnessParity).2 = [] := by
  decide +kernel

/-- no_slot_aliasing (caption.c): distinct accepted (class, type) use distinct buffers. -/
theorem sep_no_slot_aliasing (c1 s1 c2 s2 : Nat) (h1 : Sep.accepted c1 s1) (h2 : Sep.accepted c2 s2)
    (h : Sep.slotOf c1 s1 = Sep.slotOf c2 s2) : c1 = c2 ∧ s1 = s2 := by
  simp only [Sep.accepted, Sep.slotOf, sepSubclasses, sepClasses] at *
  omega

example : Sep.accepted 3 0x17 ∧ Sep.slotOf 3 0x17 = 95 := by decide


/-- deliver_iff_valid (caption.c, either control flow): in every reachable state of the caption
    decoder, a packet with class < 4, type < 0x18 and 1..32 characters sent in one piece on line 284 is
    handed to `xds_decoder` exactly once with its class, type and bytes if the 7-bit sum of the packet
    is 0, and not at all otherwise; afterwards no packet is current and XDS mode is off. -/
theorem sep_deliver_iff_valid (ec : Bool) (hist : List (Nat × Nat)) (p : Packet) (hv : p.Valid)
    (hacc : Sep.accepted p.cls p.sub) (ck : Nat) (hck : ck < 128) :
    let s := (Sep.run ec Sep.init hist).1
    Sep.deliveries (Sep.run ec s (wire p ck)).2 =
      (if (bodySum p + ck) % 128 = 0 then [p.toPkt] else []) ∧
    (Sep.run ec s (wire p ck)).1.curr = none ∧ (Sep.run ec s (wire p ck)).1.xds = false := by
  intro s
  have hs : Sep.Inv ec s := (Sep.inv_run ec hist (Sep.inv_init ec)).1
  unfold wire
  rw [Sep.run_map_parPair ec _ _ (Demux.wire7_lt p hv ck hck)]
  exact Sep.deliver_wire7 ec hs p hv hacc ck

example : Sep.deliveries (Sep.run false Sep.init (wire ⟨2, 1, [0x41, 0x42, 0x43]⟩ (checksum ⟨2, 1, [0x41, 0x42, 0x43]⟩))).2
    = [⟨2, 1, [0x41, 0x42, 0x43]⟩] := by decide +kernel

/-- interleaving_independent (caption.c, either control flow): a packet with class < 4, type < 0x18
    that is interrupted any number of times - each interruption a block of readable pairs that starts
    with a caption control code or an XDS header and passes `Sep.blockOk`: no header for this packet's
    buffer, no header of the network-name packet 2/1 (announcing a different network flushes every
    buffer by design), no end pair in caption context (caption.c keeps `curr_sp` across caption control
    codes, so a stray end pair there would close the interrupted packet) - and re-opened each time by its
    continue pair, is handed to `xds_decoder` exactly as if sent in one piece: once, intact, iff its
    sum is 0.  Foreign packets (complete or not, supported or not), caption text and NULs in the
    blocks do not matter; their own deliveries are not constrained here. -/
theorem sep_interleaving_independent (ec : Bool) (hist : List (Nat × Nat)) (p : Packet) (hv : p.Valid)
    (hacc : Sep.accepted p.cls p.sub) (ck : Nat) (hck : ck < 128)
    (chunk0 : List Pair) (segs : List (List Pair × List Pair))
    (hch : chunksOf chunk0 segs = pairsOf p.payload)
    (hb : ∀ sg ∈ segs, Sep.ForeignBlock (Sep.slotOf p.cls p.sub) sg.1) :
    Sep.forSlot (Sep.slotOf p.cls p.sub)
      (Sep.run ec (Sep.run ec Sep.init hist).1 ((interleaved7 p ck chunk0 segs).map parPair)).2 =
      if (bodySum p + ck) % 128 = 0 then [p.toPkt] else [] := by
  have hs := (Sep.inv_run ec hist (Sep.inv_init ec)).1
  have hw := Demux.wire7_lt p hv ck hck
  have hpay : ∀ q ∈ pairsOf p.payload, q.1 < 128 ∧ q.2 < 128 := by
    intro q hq; apply hw; simp [wire7, hq]
  have hlt : ∀ q ∈ interleaved7 p ck chunk0 segs, q.1 < 128 ∧ q.2 < 128 := by
    intro q hq
    simp only [interleaved7, List.mem_cons, List.mem_append, List.mem_flatMap, List.not_mem_nil, or_false,
      List.cons_append] at hq
    rcases hq with rfl | (hq | ⟨sg, hsg, hq⟩) | rfl
    · apply hw; simp [wire7]
    · apply hpay; rw [← hch]; simp [chunksOf, hq]
    · rcases hq with hq | rfl | hq
      · exact (hb sg hsg).2.2 q hq
      · have := hv.cls_lt; have := hv.sub_lt; simp only [contPair]; omega
      · apply hpay; rw [← hch]; simp only [chunksOf, List.mem_append, List.mem_flatMap]
        exact Or.inr ⟨sg, hsg, hq⟩
    · apply hw; simp [wire7]
  rw [Sep.run_map_parPair ec _ _ hlt]
  exact Sep.deliver_interleaved7 ec hs p hv hacc ck chunk0 segs hch hb

/-- an instance: title "ABCD" interrupted by a caption control code, a text pair, a complete packet
    0/2 "XY" and more caption; the block is a `ForeignBlock` and both packets are delivered -/
example :
    Sep.ForeignBlock (Sep.slotOf 0 3)
      [(0x14, 0x2C), (0x54, 0x56), (1, 2), (0x58, 0x59), (0x0F, checksum ⟨0, 2, [0x58, 0x59]⟩), (0x14, 0x2F)] ∧
    Sep.deliveries (Sep.run true Sep.init ((interleaved7 ⟨0, 3, [0x41, 0x42, 0x43, 0x44]⟩
      (checksum ⟨0, 3, [0x41, 0x42, 0x43, 0x44]⟩) [(0x41, 0x42)]
      [([(0x14, 0x2C), (0x54, 0x56), (1, 2), (0x58, 0x59), (0x0F, checksum ⟨0, 2, [0x58, 0x59]⟩), (0x14, 0x2F)],
        [(0x43, 0x44)])]).map parPair)).2
      = [⟨0, 2, [0x58, 0x59]⟩, ⟨0, 3, [0x41, 0x42, 0x43, 0x44]⟩] := by
  refine ⟨⟨⟨_, _, rfl, by decide, by decide, by decide⟩, by decide, ?_⟩, by decide +kernel⟩
  intro q hq
  simp only [List.mem_cons, List.not_mem_nil, or_false] at hq
  rcases hq with rfl | rfl | rfl | rfl | rfl | rfl <;> decide

/-- a parity error is never delivered (caption.c with the repaired parity branch, `ec = true`, the
    current tree): replace the `n`-th pair of a transmitted packet by a pair that reaches the
    parity-error branch of `xds_separator` (`Sep.Damaged`: first byte unreadable, or first byte a
    readable XDS control code / character and second byte unreadable) - nothing is delivered, whatever
    the checksum byte.  If the damaged pair is the start pair itself (`n = 0`) the decoder must not be
    left with a packet pointer from before (`curr = none`): with a stale pointer the orphaned end pair
    would close that older packet.  False for `ec = false`: `sep_parity_error_counterexample`. -/
theorem sep_parity_error_not_delivered (hist : List (Nat × Nat)) (p : Packet) (hv : p.Valid)
    (hacc : Sep.accepted p.cls p.sub) (ck : Nat) (hck : ck < 128) (n : Nat) (hn : n < (wire p ck).length)
    (hidle : n = 0 → (Sep.run true Sep.init hist).1.curr = none)
    (bad : Nat × Nat) (hbad : Sep.Damaged bad) :
    Sep.deliveries (Sep.run true (Sep.run true Sep.init hist).1 ((wire p ck).set n bad)).2 = [] :=
  Sep.fault_wire (Sep.inv_run true hist (Sep.inv_init true)).1 p hv hacc ck hck n
    (by simpa [wire] using hn) hidle bad hbad

/-- the single-byte fault the property speaks of is such a pair: one byte of the `n`-th pair received
    with its parity bit flipped -/
theorem sep_parity_flip_is_damaged (p : Packet) (hv : p.Valid) (ck : Nat) (hck : ck < 128) (n : Nat)
    (q : Nat × Nat) (hq : (wire p ck)[n]? = some q) (bad : Nat × Nat)
    (hbad : bad = (q.1 ^^^ 0x80, q.2) ∨ bad = (q.1, q.2 ^^^ 0x80)) : Sep.Damaged bad :=
  Sep.flip_damaged p hv ck hck n q hq bad hbad

example : Sep.Damaged (0x43, 0x36) ∧ Sep.deliveries (Sep.run true Sep.init witnessParity).2 = [] := by
  refine ⟨Or.inr ⟨0x43, by decide +kernel, by decide, by decide +kernel⟩, by decide +kernel⟩

/-- oversize_not_delivered (xds_demux.c): in every reachable state a packet of an accepted (class, type)
    with more than 32 characters (any number) sent in one piece delivers nothing - not even a truncated
    packet - whatever the checksum byte. -/
theorem demux_oversize_not_delivered (rk : Bool) (hist : List (Nat × Nat)) (p : Packet)
    (hcls : p.cls < 7) (hsub : p.sub < 128) (hc : ∀ c ∈ p.payload, isChar c) (hlen : 32 < p.payload.length)
    (hacc : Demux.accepted p.cls p.sub) (ck : Nat) (hck : ck < 128) :
    Demux.deliveries (Demux.run rk (Demux.run rk Demux.init hist).1 (wire p ck)).2 = [] := by
  unfold wire
  rw [Demux.run_map_parPair rk _ _ (wire7_lt' p hcls hsub hc ck hck)]
  exact Demux.oversize7 rk (Demux.inv_run rk hist Demux.inv_init).1 p hc hlen hacc ck

example : Demux.deliveries (Demux.run true Demux.init (wire ⟨0, 3, List.replicate 33 0x41⟩
    (checksum ⟨0, 3, List.replicate 33 0x41⟩))).2 = [] ∧ (bodySum ⟨0, 3, List.replicate 33 0x41⟩ +
    checksum ⟨0, 3, List.replicate 33 0x41⟩) % 128 = 0 := by decide +kernel

/-- oversize_not_delivered (caption.c, either control flow) -/
theorem sep_oversize_not_delivered (ec : Bool) (hist : List (Nat × Nat)) (p : Packet)
    (hcls : p.cls < 7) (hsub : p.sub < 128) (hc : ∀ c ∈ p.payload, isChar c) (hlen : 32 < p.payload.length)
    (hacc : Sep.accepted p.cls p.sub) (ck : Nat) (hck : ck < 128) :
    Sep.deliveries (Sep.run ec (Sep.run ec Sep.init hist).1 (wire p ck)).2 = [] := by
  unfold wire
  rw [Sep.run_map_parPair ec _ _ (wire7_lt' p hcls hsub hc ck hck)]
  exact Sep.oversize7 ec (Sep.inv_run ec hist (Sep.inv_init ec)).1 p hc hlen hacc ck

example : Sep.deliveries (Sep.run true Sep.init (wire ⟨0, 3, List.replicate 40 0x41⟩
    (checksum ⟨0, 3, List.replicate 40 0x41⟩))).2 = [] := by decide +kernel


/-! ## the service decoder behind the separator (`Svc`: model of `xds_decoder`) -/

/-- prog_info_equals_packets, programme name, at the level of delivered packets (any decoder state):
    decoding a title packet (class current or future, type 3, at least 2 characters) stores exactly the
    packet's text (`xds_strfu`: leading blanks removed) as title, and every event raised while it is
    decoded is a PROG_INFO event of that class carrying that text. -/
theorem prog_info_title_faithful (v : Svc.State) (cls : Nat) (data : List Nat) (hn : 2 ≤ data.length) :
    ((Svc.feed v ⟨cls, 3, data⟩).1.pi cls).title = Svc.strfuText data ∧
    ∀ ev ∈ (Svc.feed v ⟨cls, 3, data⟩).2, ∃ e, ev = Svc.Ev.progInfo cls e ∧ e.title = Svc.strfuText data :=
  Svc.title_faithful v cls data hn

example : Svc.strfuText [0x20, 0x20, 0x41, 0x10, 0x42] = [0x41, 0x20, 0x42] := by decide

/-- "announced after the documented repeat", programme name: a title packet whose text differs from
    the stored title raises nothing the first time, exactly one PROG_INFO event carrying the new text
    when it is repeated unchanged, and nothing at the third identical occurrence (any decoder state;
    a new title that is a proper prefix of the old one included - the seeded mutant C09-b breaks this). -/
theorem prog_info_title_second_occurrence (v : Svc.State) (cls : Nat) (data : List Nat) (hn : 2 ≤ data.length)
    (hneq : Svc.strfuText data ≠ (v.pi cls).title) :
    (Svc.feed v ⟨cls, 3, data⟩).2 = [] ∧
    (∃ e, (Svc.feed (Svc.feed v ⟨cls, 3, data⟩).1 ⟨cls, 3, data⟩).2 = [Svc.Ev.progInfo cls e] ∧
      e.title = Svc.strfuText data) ∧
    (Svc.feed (Svc.feed (Svc.feed v ⟨cls, 3, data⟩).1 ⟨cls, 3, data⟩).1 ⟨cls, 3, data⟩).2 = [] ∧
    ((Svc.feed (Svc.feed (Svc.feed v ⟨cls, 3, data⟩).1 ⟨cls, 3, data⟩).1 ⟨cls, 3, data⟩).1.pi cls).title =
      Svc.strfuText data :=
  Svc.title_second_occurrence v cls data hn hneq

/-- prog_info_equals_packets, programme name, end to end on the byte-pair stream: in every reachable
    state of the decoder (separator + service decoder after any history, either control flow), a valid
    title packet whose text differs from the stored title, transmitted twice in a row on line 284,
    raises exactly one event in total - PROG_INFO of its class carrying the packet's text. -/
theorem prog_info_equals_packets_title (ec : Bool) (hist : List (Nat × Nat)) (p : Packet) (hv : p.Valid)
    (hcls : p.cls ≤ 1) (hsub : p.sub = 3) (hn : 2 ≤ p.payload.length) :
    let st := (Svc.run ec (Sep.init, Svc.init) hist).1
    Svc.strfuText p.payload ≠ (st.2.pi p.cls).title →
    ∃ e, (Svc.run ec st (wire p (checksum p) ++ wire p (checksum p))).2 = [Svc.Ev.progInfo p.cls e] ∧
      e.title = Svc.strfuText p.payload := by
  intro st hneq
  have hacc : Sep.accepted p.cls p.sub := by
    simp only [Sep.accepted, sepClasses, sepSubclasses, hsub]; omega
  have hs : Sep.Inv ec st.1 := by
    have := Svc.run_sep ec hist Sep.init Svc.init
    simp only [st]; rw [this]; exact (Sep.inv_run ec hist (Sep.inv_init ec)).1
  have hd := Svc.deliveries_twice ec hs p hv hacc
  obtain ⟨_, _, g3⟩ := Svc.run_feedAll ec (wire p (checksum p) ++ wire p (checksum p)) st.1 st.2 (by
    rw [hd]; intro q hq
    simp only [List.mem_cons, List.not_mem_nil, or_false, or_self] at hq
    subst hq; exact hcls)
  have hst : st = (st.1, st.2) := rfl
  rw [hst, g3, hd]
  obtain ⟨t1, ⟨e, t2, t3⟩, _, _⟩ := Svc.title_second_occurrence st.2 p.cls p.payload hn hneq
  refine ⟨e, ?_, t3⟩
  simp only [Svc.feedAll, Packet.toPkt, hsub, List.append_nil]
  rw [t1, t2]; rfl

example : (Svc.run true (Sep.init, Svc.init)
    (wire ⟨0, 3, [0x54, 0x56]⟩ (checksum ⟨0, 3, [0x54, 0x56]⟩) ++ wire ⟨0, 3, [0x54, 0x56]⟩ (checksum ⟨0, 3, [0x54, 0x56]⟩))).2
    = [Svc.Ev.progInfo 0 { title := [0x54, 0x56] }] := by decide +kernel

/-- prog_info_equals_packets, network name and call letters (any network state): decoding a network
    name packet stores the packet's text as name and keeps the call letters; a call-letters packet
    stores its text as call letters, raises no event and never resets the decoder. -/
theorem network_name_call_faithful (n : Sep.Net) (data : List Nat) :
    (Sep.netDecode n ⟨2, 1, data⟩).1.name = Svc.strfuText data ∧
    (Sep.netDecode n ⟨2, 1, data⟩).1.call = n.call ∧
    (Sep.netDecode n ⟨2, 2, data⟩).1.call = Svc.strfuText data ∧
    Svc.netEvents n ⟨2, 2, data⟩ = [] ∧ (Sep.netDecode n ⟨2, 2, data⟩).2 = false :=
  ⟨(Svc.netDecode_name n data).1, (Svc.netDecode_name n data).2, (Svc.netDecode_call n data).1,
   (Svc.netDecode_call n data).2.1, (Svc.netDecode_call n data).2.2⟩

/-- "announced after the documented repeat", network name: a name packet whose text differs from the
    stored name raises nothing the first time; repeated unchanged it raises NETWORK_ID, preceded by
    NETWORK (new name, call letters, new station id) iff the station id changed; the third identical
    occurrence raises nothing. -/
theorem network_name_second_occurrence (n : Sep.Net) (data : List Nat) (hneq : Svc.strfuText data ≠ n.name) :
    let p : Pkt := ⟨2, 1, data⟩
    let n1 := (Sep.netDecode n p).1
    let n2 := (Sep.netDecode n1 p).1
    Svc.netEvents n p = [] ∧
    Svc.netEvents n1 p =
      (if n2.nuid != n.nuid then [Svc.Ev.network (Svc.strfuText data) n.call n2.nuid n.tapeDelay] else [])
        ++ [Svc.Ev.networkId] ∧
    Svc.netEvents n2 p = [] ∧ n2.name = Svc.strfuText data :=
  Svc.network_second_occurrence n data hneq

example : Svc.netEvents (Sep.netDecode {} ⟨2, 1, [0x41, 0x42, 0x43]⟩).1 ⟨2, 1, [0x41, 0x42, 0x43]⟩ =
    [Svc.Ev.network [0x41, 0x42, 0x43] [] 1835754624 0, Svc.Ev.networkId] := by decide +kernel


/-- "announced after the documented repeat" is FALSE for the programme type (packet type 4) on the
    current tree: `case 4` of `xds_decoder` declares its own `int neq`, which hides the variable the
    epilogue tests, so a programme-type packet - first, second or any later occurrence, changed or not -
    never raises PROG_INFO and never sets its bit in `info_cycle` (so the
    hypothesis that the bit is clear holds from `Svc.init` on); the type only rides along with an
    event another packet type triggers.  `Gen.Xds.svcTypeNeqShadowed` is read from the source
    (fixes/xds-prog-type-neq-shadow.diff removes the inner declaration). -/
theorem prog_info_type_never_announced_counterexample (h : svcTypeNeqShadowed = true)
    (v : Svc.State) (cls : Nat) (data : List Nat) (h4 : (v.cyc cls).contains 4 = false) :
    (Svc.feed v ⟨cls, 4, data⟩).2 = [] ∧ (Svc.feed v ⟨cls, 4, data⟩).1.cyc cls = v.cyc cls ∧
    (Svc.feed (Svc.feed v ⟨cls, 4, data⟩).1 ⟨cls, 4, data⟩).2 = [] := by
  have e : ∀ w : Svc.State, (w.cyc cls).contains 4 = false →
      (Svc.feed w ⟨cls, 4, data⟩).2 = [] ∧ (Svc.feed w ⟨cls, 4, data⟩).1.cyc cls = w.cyc cls := by
    intro w hw
    have hw' : ¬ 4 ∈ w.cyc cls := by simpa using hw
    simp [Svc.feed, h, Svc.epilogue, hw']
  obtain ⟨e1, e2⟩ := e v h4
  exact ⟨e1, e2, (e _ (by rw [e2]; exact h4)).1⟩

/-- the hypothesis on `info_cycle` holds in the initial state (the flag itself is whatever the source says) -/
example : (Svc.init.cyc 0).contains 4 = false ∧ (Svc.init.cyc 1).contains 4 = false := by decide

end Zvbi.Props.C09
