import ZvbiModel.Hamm.Lemmas
import ZvbiModel.Nav.Lemmas3
import ZvbiModel.Nav.Lemmas4
/-!
# C01 - formatter and navigation of src/teletext.c `vbi_format_vt_page`: every array access in range

Models: `Nav/L1.lean` (access log of the Level 1 character loop on top of the executable Level 1 model `Fmt/Model.lean`),
`Nav/Model.lean` (zap_links / keyword with checked reads and stores, FLOF bar, flof_links, TOP label / index cell positions).
All extents, loop bounds, strides, keyword strings and character classes are regenerated from the current source by
translate/gen_c01nav.py (`Generated/C01Nav.lean`); the statement skeleton of each function is pinned by a digest.
The executable parts (`zapLinks`, `flofLinksLog`, FLOF bar) run against the real `vbi_format_vt_page` in the nav stage of
`./check C01` (harness/nav_harness.c ~ `zvbi_model nav`).
-/
namespace Zvbi.Props.C01Nav
open Zvbi.Nav Zvbi.Fmt Zvbi.Gen.C01Nav

/-- The regenerated numbers are consistent with the regenerated extents: ROWS x EXT_COLUMNS cells and the navigation row fit
    `pg->text[]`, the raw page has ROWS x COLUMNS bytes, the header buffer holds the eight header columns, zap_links' two
    automatic arrays hold a row plus two blanks and the NUL, FLOF keys fit `nav_link[]` / `lop.link[]`, the TOP loops stay
    inside `btt_link[]`, `ait.title[]`, `title.text[]`, `national_subset[14][13]`. -/
theorem nav_extents_consistent :
    rows * extColumns ≤ textLen ∧ lastRow + extColumns ≤ textLen ∧ rows * columns ≤ rawLen ∧ l1HdrCols ≤ hdrBufLen ∧
    zapCols + 3 ≤ zapBufferLen ∧ zapCols + 3 ≤ zapLinkLen ∧ zapCols2 ≤ zapCols ∧ flofKeys ≤ navLinkLen ∧
    flofKeys ≤ lopLinkLen ∧ topBttLoop ≤ bttLinkLen ∧ topTitles ≤ aitTitleLen ∧ topTextLast < aitTextLen ∧
    tixTextLast < aitTextLen ∧ tuSubsetLimit ≤ nationalRows ∧ tuSubsetCols ≤ nationalCols ∧ satHi ≤ rows ∧
    (∀ i ∈ navHomeIdx, i < navLinkLen ∧ i < lopLinkLen) ∧ navPacket24 < intBits - 1 := by decide

example : textLen = 1056 ∧ zapBufferLen = 43 := by decide

/-- The guards the executable Level 1 model `Fmt/Model.lean` is written with (double height / double size only in rows 1 .. 22,
    double width store and box look-ahead only before the last column, eight header columns, 40 columns, row stride 41, raw
    stride 40, control codes up to 0x1F, the lower-half copy over 41 cells with stride 41) are the ones of the current source. -/
theorem l1_guards_match_model :
    l1DhRows = [0, 23, 0, 23] ∧ l1WideLast = 39 ∧ l1DwLast = 39 ∧ l1DsLast = 39 ∧ l1PeekLasts = [39, 39] ∧ l1HdrCols = 8 ∧
    l1ColLoop = 40 ∧ l1Col40 = 40 ∧ l1Stride = 41 ∧ l1RowSkip = 40 ∧ l1CharCtl = 31 ∧ l1LowerLoop = 41 ∧
    l1LowerStrides = [41, 41, 41, 41] ∧ hdrFormat = [2, 37, 120, 46, 37, 48, 50, 120, 7] ∧ sizeVals = [0, 1, 2, 3, 4, 5, 6, 7] ∧
    zapOffsets = [1, 0, 1, 2, 1] ∧ zapPads = [32, 32, 0] ∧ zapCharLo = 32 ∧ zapCharHi = 255 ∧ zapPad = 32 := by decide

example : l1DhRows.length = 4 := by decide

/-- **Level 1 character loop, all inputs.**  For every page content (`raw`: any 25 x 40 bytes, parity good or bad), every
    page / subpage number, flags, national option, character set designations, colour look-up offsets, EVERY `display_rows`
    (any `int`; saturated to 1 .. 25 as the C code does) and every iteration bound: each access the loop makes -
    `vtp->data.lop.raw[0][i]` (also the box look-ahead), `buf[column]`, `acp[column]`, `acp[column + 1]`, the double height copy
    into the row below, `pg->font[esc]`, `pg->page_opacity[row > 0]`, the arguments of `vbi_teletext_unicode` (character
    0x20 .. 0x7F, national subset < 14, a G0 set the function knows) and the index into the lang.c table it selects, the shift
    `1 << row` - is inside its object.  No `.oob` for any input. -/
theorem format_l1_in_range (p : PageIn) (displayRows : Int) (fuel : Nat) :
    ∀ a ∈ l1Acc p displayRows fuel, okAcc a :=
  pageAcc_ok p (saturate displayRows) (saturate_le displayRows).2 fuel 0

/-- not vacuous: a page of double-size letters in a Cyrillic font touches raw[999] and reads the G0 table -/
example : (Site.raw, 999) ∈ l1Acc { pgno := 0x100, subno := 0, flags := 0, national := 0, raw := fun _ => 0x20 } 25 26 := by
  decide +kernel

/-- `display_rows` is saturated into 1 .. ROWS whatever the caller passes -/
theorem display_rows_saturated (dr : Int) : 1 ≤ saturate dr ∧ saturate dr ≤ rows := saturate_le dr

example : saturate (-5) = 1 ∧ saturate 1000 = 25 ∧ saturate 7 = 7 := by decide

/-- the formatter selects only fonts `vbi_teletext_unicode` can handle, for every X/28 / M/29 designation byte and national option -/
theorem format_fonts_valid (code national : Nat) : FontOK (fontOf (charsetDesignation code national)) :=
  charsetDesignation_ok code national

example : FontOK (fontOf (charsetDesignation 0x24 0)) := charsetDesignation_ok _ _

/-- **keyword(), all inputs.**  On the buffer zap_links builds (blank, `len` bytes of ANY value, blank, NUL; `len <= 40`), called
    at any column `1 .. len`, for any page subno: no read outside the `len + 3` initialised bytes (in particular none behind
    the NUL - the F19 / F76 territory), no scan bound used up, the return value is at least 1 and does not pass the trailing
    blank, `*back` stays behind the leading blank, and the URL assembled in `ld->url[256]` is shorter than 7 + len + 2 bytes. -/
theorem keyword_in_range (buf : List Nat) (len : Nat) (wf : WF buf len) (col subno : Nat) (hc : 1 ≤ col) (hcl : col ≤ len) :
    ∃ r, keyword buf col subno = some r ∧ 1 ≤ r.n ∧ col + r.n ≤ len + 1 ∧ r.back + 1 ≤ col ∧ r.url + 1 < urlLen := by
  obtain ⟨r, hr, hg⟩ := keyword_good buf len wf col subno hc hcl
  have := wf.fits
  have h1 : zapBufferLen = 43 := rfl
  have h2 : urlLen = 256 := rfl
  exact ⟨r, hr, hg.pos, hg.stays, hg.back, by have := hg.url; omega⟩

/-- not vacuous: `x@y.de` - the e-mail case walks back over `x` and forward to the blank -/
example : keyword [0x20, 0x78, 0x40, 0x79, 0x2E, 0x64, 0x65, 0x20, 0] 2 0
    = some { n := 5, back := 1, linked := true, url := 7 + 1 + 1 + 4 } := by decide +kernel

/-- **zap_links(), all inputs.**  For every row content (any number of cells, any unicode, any size attribute) and every subno:
    `buffer[43]` is never indexed behind its initialised part, `link[43]` never outside 0 .. 42, `ld.url[]` never overrun, every
    loop ends within its bound; each of the (at most 40) cells gets a link value. -/
theorem zap_links_in_range (cells : List ZCell) (subno : Nat) :
    ∃ vs, zapLinks cells subno = some vs ∧ vs.length = min zapCols cells.length :=
  zapLinks_ok cells subno

example : (zapLinks ((List.range 40).map (fun i => ⟨0x30 + i % 10, 0⟩)) 0).isSome = true := by decide +kernel

/-- the rows zap_links is called for, and its 40 cells, are inside `pg->text[]` for every `display_rows` -/
theorem zap_links_rows_in_text (dr row i : Nat) (_h1 : navZapFirst ≤ row) (h2 : row < min navZapLast dr) (hi : i < zapCols) :
    zapStride * row + i < textLen := by
  have a : navZapLast = 24 := rfl
  have b : zapCols = 40 := rfl
  simp only [zapStride, textLen]
  omega

example : zapStride * 23 + 39 < textLen := by decide

/-- the TOP index path (`vbi_fetch_vt_page`, case 0x900) calls zap_links for every row 1 .. ROWS - 1: these rows, too, are inside
    `pg->text[]` (row 24 x 41 + 39 = 1023) -/
theorem zap_links_rows_in_text_top_index (row i : Nat) (h : row < rows) (hi : i < zapCols) :
    zapStride * row + i < textLen := by
  simp only [zapStride, textLen, rows, zapCols] at *
  omega

example : zapStride * 24 + 39 = 1023 := by decide

/-- Observation (not a memory error): when the last cells of a row are OVER_TOP / OVER_BOTTOM cells (a double width
    character in column 38), the third loop of zap_links reads `link[len]`, which no iteration stored: the `link` bit of
    those cells is an indeterminate automatic value (`none`). -/
theorem zap_links_uninitialised_link_counterexample :
    (zapLinksF false (List.replicate 39 ⟨0x41, 0⟩ ++ [⟨0x41, 4⟩]) 0).map (fun vs => vs.getD 39 (some false)) = some none := by
  decide +kernel

/-- With `link[]` cleared before the keyword loop (fixes/C01-zap-links-uninit-link.diff) every link attribute zap_links
    stores is a value it computed, for every row content: the formatted page is a function of the cached page. -/
theorem zap_links_link_defined_repaired (cells : List ZCell) (subno : Nat) :
    ∀ vs, zapLinksF true cells subno = some vs → ∀ v ∈ vs, v.isSome = true :=
  zapLinksF_cleared_allSome cells subno

example : (zapLinksF true (List.replicate 39 ⟨0x41, 0⟩ ++ [⟨0x41, 4⟩]) 0).map (fun vs => vs.getD 39 none) = some (some false) := by
  decide +kernel

/-- the current source is deterministic exactly when the regenerated flag says `link[]` is cleared -/
theorem zap_links_current_defined_iff :
    (∀ cells subno vs, zapLinks cells subno = some vs → ∀ v ∈ vs, v.isSome = true) ↔ zapLinkCleared = true := by
  constructor
  · intro h
    cases hc : zapLinkCleared with
    | true => rfl
    | false =>
      exfalso
      have hz : ∀ cells subno, zapLinks cells subno = zapLinksF false cells subno := by
        intro cells subno; unfold zapLinks; rw [hc]
      have hex : ∃ vs, zapLinksF false (List.replicate 39 ⟨0x41, 0⟩ ++ [⟨0x41, 4⟩]) 0 = some vs ∧ none ∈ vs := by
        decide +kernel
      obtain ⟨vs, hvs, hn⟩ := hex
      have := h _ 0 vs (by rw [hz]; exact hvs) none hn
      cases this
  · intro hc cells subno vs h
    unfold zapLinks at h; rw [hc] at h
    exact zapLinksF_cleared_allSome cells subno vs h

example : zapLinkCleared = false ∨ zapLinkCleared = true := by cases zapLinkCleared <;> simp

/-- **flof_navigation_bar().**  Every store into `pg->text[]` (41 blanks, 4 x 3 digits), `pg->nav_index[]`, `pg->nav_link[]` and
    every read of `lop.link[]` is inside the array. -/
theorem flof_bar_in_range :
    (∀ i ∈ flofBarText, i < textLen) ∧ (∀ i ∈ flofBarNavIndex, i < navIndexLen) ∧
    (∀ i ∈ flofBarNavLink, i < navLinkLen ∧ i < lopLinkLen) := by decide

example : 984 + 35 ∈ flofBarText ∧ 35 ∈ flofBarNavIndex := by decide

/-- **flof_links(), all inputs.**  For every content of row 24 (colours, characters) and every link table: each `acp[i]`,
    `acp[j]` is inside `pg->text[]`, each `nav_index[j]` inside `nav_index[64]`, each `link[k]` / `nav_link[k]` inside its array. -/
theorem flof_links_in_range (fg uni : Nat → Nat) (noPage : Nat → Bool) :
    ∀ a ∈ flofLinksLog fg uni noPage, okFlof a :=
  flofLinksFrom_ok fg uni noPage flofLinksEnd 0 {} (by omega)

/-- not vacuous: a red prompt over the whole row marks cell 39 -/
example : (1, 39) ∈ flofLinksLog (fun _ => 1) (fun _ => 0x41) (fun _ => false) := by decide +kernel

/-- **top_label().**  For each of the three calls of top_navigation_bar (index / ff = 0/0, 2/2, 1/1) and every title (last
    non-blank character at any of the 12 positions, or none): every cell written in row 24 is inside `pg->text[]`, the same
    column indexes `pg->nav_index[64]`, `index` indexes `nav_link[6]`. -/
theorem top_label_in_range :
    ∀ call ∈ topCalls, ∀ v < topTextLast + 2, ∀ c ∈ topLabelCols call.1 call.2 (if v = 0 then none else some (v - 1)),
      topBase + c < textLen ∧ c < navIndexLen ∧ c < extColumns ∧ call.1 < navLinkLen := by decide +kernel

example : 39 ∈ topLabelCols 2 2 (some 9) := by decide

/-- the character handed to `vbi_teletext_unicode` by top_label / top_index / ait_title: parse_ait stores only successfully
    parity-decoded bytes into `title.text[]` (and the page starts cleared), so `(text < 0x20) ? 0x20 : text` is 0x20 .. 0x7F -/
theorem ait_text_char_in_range :
    ∀ b < 256, ∀ v, Zvbi.Hamm.unpar8 b = some v →
      tuCharLo ≤ (if v < topCharLo then topCharLo else v) ∧ (if v < topCharLo then topCharLo else v) ≤ tuCharHi := by
  intro b hb v h
  obtain ⟨hv, _⟩ := Zvbi.Hamm.unpar8_some b hb v h
  have : v ≤ 127 := by rw [hv]; exact Nat.and_le_right
  have a : tuCharLo = 32 := rfl
  have c : tuCharHi = 127 := rfl
  have d : topCharLo = 32 := rfl
  split <;> omega

example : Zvbi.Hamm.unpar8 0xC1 = some 0x41 := by decide

/-- **top_index() cells.**  The page fill, the double-size title (for the untranslated string) and, for every title line
    (either indent, any title length) in any of the rows the line counter admits (Props/C01Seq `top_index_rows_in_page`:
    4 .. 20; here: any row below ROWS), every cell written is inside `pg->text[]`. -/
theorem top_index_cells_in_range :
    tixFill ≤ textLen ∧ (∀ i ∈ topIndexTitle tixTitleLen, i < textLen) ∧
    (∀ k0 ∈ tixIndent, ∀ v < tixTextLast + 2, ∀ c ∈ topIndexCols k0 (if v = 0 then none else some (v - 1)),
       ∀ row < rows, tixStride * row + c < textLen) := by
  refine ⟨by decide, by decide, ?_⟩
  have h : ∀ k0 ∈ tixIndent, ∀ v < tixTextLast + 2, ∀ c ∈ topIndexCols k0 (if v = 0 then none else some (v - 1)),
      c < extColumns := by decide +kernel
  intro k0 hk v hv c hc row hrow
  have := h k0 hk v hv c hc
  simp only [tixStride, textLen, rows, extColumns] at *
  omega

example : 37 ∈ topIndexCols 3 (some 11) := by decide

end Zvbi.Props.C01Nav
