import ZvbiModel.Search.LemmasPass3
import ZvbiModel.Search.WitnessBase
import ZvbiModel.Search.WitnessD8
import ZvbiModel.Search.Current
/-!
# C17, whole-pass exactness: REPEATED `vbi_search_next` calls in forward direction (round 5)

`Props/C17.lean` proves the property per call (first call of a pass exactly; SUCCESS soundness of any forward call).
Here: over ANY number of successive forward calls on an unchanging cache (what changes between the calls is the order
of the hash chains - `next_cache_equiv` - and the search context: start position = page returned last, cursor behind the
occurrence highlighted), up to the first answer that is not SUCCESS,

* `search_pass_sound`: every page reported contains the pattern (whole text, independent of the cursor),
* `search_pass_complete`: when that answer comes (NOT_FOUND), every cached level one page of a valid page number that
  contains the pattern has been reported,
* `search_pass_ordered`: the pages are reported in ascending pass order (`passRank`: ascending (page, sub-page) from the
  start position, wrapping once) - so the reports of one page (one per occurrence) are consecutive and no page comes back
  later: "each once, in walk order, then NOT_FOUND",
* `search_exact_pass` = the three together = `Zvbi.Search.search_exact_full` with the hypotheses it needs spelled out
  (below), `search_exact_pass_repaired` the same on the repaired source shapes with no exclusion left,
  `search_exact_pass_current` on the shapes the translators read from /repo on this run.

Hypotheses, and why `search_exact_full` as recorded in Search/Spec.lean is not literally what is proved:
* `NoWrap` (fewer than 65536 cached pages per page number: finding C17-D2 / F17) for the store shape as found; a theorem
  for the repaired store (`fix = true`).
* the pages of `search_pass_complete` have a page number in 0x100..0x8FF (`PgOk`): the model's store accepts any page
  number (`PutOp.pgno : Nat`), the walk visits 0x100..0x8FF only, the Teletext decoder stores nothing else; the recorded
  `def` forgot that restriction and is false for a page stored under number 5.
* start sub-page number `0 <= S <= 0xFFFF` (includes VBI_ANY_SUBNO).
* finding C17-D7: in the source shape `startExact = false` no cached page has sub-page number 0x3F7F (a continued call
  would look its start position up with the wildcard); void in the repaired shape.
* no hypothesis on the matcher (`exec` arbitrary, may even return empty matches).
Backward passes and direction changes: not covered (see NOTES/C17.md).

`fwd_continue_bol_counterexample`: finding C17-D8 (the flags `search_page_fwd` hands to ure_exec).
-/
namespace Zvbi.Props.C17Pass
open Zvbi.Search

/-- **next_cache_equiv.** Whatever `vbi_search_next` is asked (any direction, any context, any matcher, any fuel), the
cache it leaves behind has the statistics of the cache it got and answers every exact look-up alike: only the order of
the hash chains changes (most recently used first).  This is what lets the per-call theorems be chained. -/
theorem next_cache_equiv (sh : Shape) (exec : Exec) (fuel : Nat) (c : Cache) (s : SearchSt) (d : Int) :
    Equiv c (searchNext sh exec fuel c s d).cache ∧
    ∀ p sub : Int, lookupX (searchNext sh exec fuel c s d).cache p sub = lookupX c p sub :=
  ⟨searchNext_cache_equiv sh exec fuel c c s d (Equiv.refl c),
   fun p sub => lookupX_equiv (searchNext_cache_equiv sh exec fuel c c s d (Equiv.refl c)) p sub⟩

example : lookupX (searchNext Shape.repaired exAb 50 (buildF true [⟨0x100, 0, 0, abPage⟩]) {} 1).cache 0x100 0 =
    lookupX (buildF true [⟨0x100, 0, 0, abPage⟩]) 0x100 0 := (next_cache_equiv _ _ _ _ _ _).2 _ _

/-- **search_pass_sound.** (whole pass, first conjunct of `search_exact_full`)  A fresh forward search on any reachable
cache (either store shape, `NoWrap` = exclusion of C17-D2), any number `n` of successive `vbi_search_next (.., +1)`
calls: every page reported before the first answer other than SUCCESS is a cached level one page whose displayed text
contains the pattern (the matcher accepts the WHOLE text, although a continued call only searched behind the cursor).
Any matcher, any source shape of the D7 statements. -/
theorem search_pass_sound (fix : Bool) (sh : Shape) (exec : Exec) (ops : List PutOp) (P S : Int) (s0 : SearchSt) (n : Nat)
    (hops : ∀ o ∈ ops, o.subno ≤ 0x3F7F) (hnw : NoWrap (buildF fix ops)) (hP : PgOk P) (hS : 0 ≤ S ∧ S ≤ 0xFFFF)
    (hnew : searchNew P S 1 = some s0) :
    ∀ r ∈ (runNexts sh exec (buildF fix ops) s0 (List.replicate n 1)).takeWhile (fun r => r.1 = .ret SEARCH_SUCCESS),
      Matches exec (buildF fix ops) r.2.1 r.2.2 := by
  obtain ⟨hcov, hnoff, _, hd0, hinv, hok, _⟩ := pass_setup fix sh exec ops P S s0 hops hnw hP hS hnew
  rw [runNexts_prepared sh exec _ s0 hd0 n]
  exact runNexts_sound sh exec _ hcov hnoff n _ _ (Equiv.refl _) hinv hok

/-- **search_pass_complete.** (whole pass, second conjunct)  Same setting: when one of the `n` calls answers something
other than SUCCESS (that is NOT_FOUND, or CACHE_EMPTY on an empty cache), every cached level one page with a page number
in 0x100..0x8FF whose text contains the pattern is among the pages reported before.  `hany` = exclusion of finding
C17-D7 in the unrepaired shape (void when `sh.startExact`). -/
theorem search_pass_complete (fix : Bool) (sh : Shape) (exec : Exec) (ops : List PutOp) (P S : Int) (s0 : SearchSt) (n : Nat)
    (hops : ∀ o ∈ ops, o.subno ≤ 0x3F7F) (hnw : NoWrap (buildF fix ops)) (hP : PgOk P) (hS : 0 ≤ S ∧ S ≤ 0xFFFF)
    (hany : sh.startExact = true ∨ ∀ p, ∀ e ∈ ((buildF fix ops).slots p).chain, (e.subno : Int) ≠ ANY_SUBNO)
    (hnew : searchNew P S 1 = some s0)
    (hlen : ((runNexts sh exec (buildF fix ops) s0 (List.replicate n 1)).takeWhile
      (fun r => r.1 = .ret SEARCH_SUCCESS)).length < n) :
    ∀ p s : Nat, PgOk p → Matches exec (buildF fix ops) p s →
      ∃ r ∈ (runNexts sh exec (buildF fix ops) s0 (List.replicate n 1)).takeWhile (fun r => r.1 = .ret SEARCH_SUCCESS),
        r.2 = (p, s) := by
  obtain ⟨hcov, hnoff, hcnt, hd0, hinv, hok, hctx, hS0, hrank, hr, hc⟩ :=
    pass_setup fix sh exec ops P S s0 hops hnw hP hS hnew
  rw [runNexts_prepared sh exec _ s0 hd0 n] at hlen ⊢
  intro p s hp hm
  apply runNexts_exact sh exec _ hcov hnoff hcnt P _ hP hS0 hany n _ _ (Equiv.refl _) hinv hok hctx hlen p s hp hm
  rw [hrank]
  have h0 : 0 ≤ passRank P (if S = ANY_SUBNO then 0 else S) p s := by
    obtain ⟨e', hl', _, _⟩ := hm
    obtain ⟨htb, _, _⟩ := page_facts (Equiv.refl _) hcov hl'
    exact passRank_nonneg (key_bounds hP hS0) (key_bounds hp htb)
  by_cases h1 : 0 < passRank P (if S = ANY_SUBNO then 0 else S) p s
  · exact Or.inl h1
  · exact Or.inr ⟨by omega, hr, hc⟩

/-- **search_pass_ordered.** (whole pass, order)  Same setting: the pages reported before the first answer other than
SUCCESS come in ascending pass order (ascending (page, sub-page) from the start position, wrapping once behind 8FF);
equal ranks are the same page (one report per occurrence), so every page is reported in one block and never again. -/
theorem search_pass_ordered (fix : Bool) (sh : Shape) (exec : Exec) (ops : List PutOp) (P S : Int) (s0 : SearchSt) (n : Nat)
    (hops : ∀ o ∈ ops, o.subno ≤ 0x3F7F) (hnw : NoWrap (buildF fix ops)) (hP : PgOk P) (hS : 0 ≤ S ∧ S ≤ 0xFFFF)
    (hany : sh.startExact = true ∨ ∀ p, ∀ e ∈ ((buildF fix ops).slots p).chain, (e.subno : Int) ≠ ANY_SUBNO)
    (hnew : searchNew P S 1 = some s0) :
    (((runNexts sh exec (buildF fix ops) s0 (List.replicate n 1)).takeWhile (fun r => r.1 = .ret SEARCH_SUCCESS)).map
      (fun r => passRank P (if S = ANY_SUBNO then 0 else S) r.2.1 r.2.2)).Pairwise (· ≤ ·) := by
  obtain ⟨hcov, hnoff, _, hd0, hinv, hok, hctx, hS0, _⟩ := pass_setup fix sh exec ops P S s0 hops hnw hP hS hnew
  rw [runNexts_prepared sh exec _ s0 hd0 n]
  exact (runNexts_ordered sh exec _ hcov hnoff P _ hP hS0 hany n _ _ (Equiv.refl _) hinv hok hctx).2

/-- **search_exact_pass.** (= `Zvbi.Search.search_exact_full` with its hypotheses spelled out; forward direction)
Over any number of successive forward `vbi_search_next` calls on an unchanging reachable cache: the pages reported are
exactly the matching pages, in pass order, each in one block of consecutive reports, then NOT_FOUND. -/
theorem search_exact_pass (fix : Bool) (sh : Shape) (exec : Exec) (ops : List PutOp) (P S : Int) (s0 : SearchSt) (n : Nat)
    (hops : ∀ o ∈ ops, o.subno ≤ 0x3F7F) (hnw : NoWrap (buildF fix ops)) (hP : PgOk P) (hS : 0 ≤ S ∧ S ≤ 0xFFFF)
    (hany : sh.startExact = true ∨ ∀ p, ∀ e ∈ ((buildF fix ops).slots p).chain, (e.subno : Int) ≠ ANY_SUBNO)
    (hnew : searchNew P S 1 = some s0) :
    let c := buildF fix ops
    let pass := (runNexts sh exec c s0 (List.replicate n 1)).takeWhile (fun r => r.1 = .ret SEARCH_SUCCESS)
    (∀ r ∈ pass, Matches exec c r.2.1 r.2.2) ∧
    (pass.length < n → ∀ p s : Nat, PgOk p → Matches exec c p s → ∃ r ∈ pass, r.2 = (p, s)) ∧
    (pass.map (fun r => passRank P (if S = ANY_SUBNO then 0 else S) r.2.1 r.2.2)).Pairwise (· ≤ ·) :=
  ⟨search_pass_sound fix sh exec ops P S s0 n hops hnw hP hS hnew,
   search_pass_complete fix sh exec ops P S s0 n hops hnw hP hS hany hnew,
   search_pass_ordered fix sh exec ops P S s0 n hops hnw hP hS hany hnew⟩

/-- **search_exact_pass_repaired.** The same on the repaired source shapes (store: fixes/C10-put-replaces-all-versions.diff,
walk start / turn: fixes/C17-turn-3f7f.diff - both applied in /repo): after EVERY history of page stores, no exclusion. -/
theorem search_exact_pass_repaired (exec : Exec) (ops : List PutOp) (P S : Int) (s0 : SearchSt) (n : Nat)
    (hops : ∀ o ∈ ops, o.subno ≤ 0x3F7F) (hP : PgOk P) (hS : 0 ≤ S ∧ S ≤ 0xFFFF) (hnew : searchNew P S 1 = some s0) :
    let c := buildF true ops
    let pass := (runNexts Shape.repaired exec c s0 (List.replicate n 1)).takeWhile (fun r => r.1 = .ret SEARCH_SUCCESS)
    (∀ r ∈ pass, Matches exec c r.2.1 r.2.2) ∧
    (pass.length < n → ∀ p s : Nat, PgOk p → Matches exec c p s → ∃ r ∈ pass, r.2 = (p, s)) ∧
    (pass.map (fun r => passRank P (if S = ANY_SUBNO then 0 else S) r.2.1 r.2.2)).Pairwise (· ≤ ·) :=
  search_exact_pass true Shape.repaired exec ops P S s0 n hops (noWrap_repaired ops) hP hS (Or.inl rfl) hnew

/-- **search_exact_pass_current.** The same for the source shapes of the CURRENT /repo, as the translators read them on
this run (`Shape.current`: translate/gen_search.py; store: `Zvbi.Gen.Cache.putReplacesAllVersions`, translate/gen_cache.py -
what `Driver/Search.lean` runs against the real code).  An exclusion is a hypothesis only while the corresponding repair
is not in the source: `NoWrap` (C17-D2) while the store is as found, "no cached page with sub-code 0x3F7F" (C17-D7) while
the walk looks its start position up with the wildcard.  Proved without looking at the generated values. -/
theorem search_exact_pass_current (exec : Exec) (ops : List PutOp) (P S : Int) (s0 : SearchSt) (n : Nat)
    (hops : ∀ o ∈ ops, o.subno ≤ 0x3F7F) (hP : PgOk P) (hS : 0 ≤ S ∧ S ≤ 0xFFFF)
    (hnw : Zvbi.Gen.Cache.putReplacesAllVersions = false → NoWrap (buildF Zvbi.Gen.Cache.putReplacesAllVersions ops))
    (hany : Shape.current.startExact = false →
      ∀ p, ∀ e ∈ ((buildF Zvbi.Gen.Cache.putReplacesAllVersions ops).slots p).chain, (e.subno : Int) ≠ ANY_SUBNO)
    (hnew : searchNew P S 1 = some s0) :
    let c := buildF Zvbi.Gen.Cache.putReplacesAllVersions ops
    let pass := (runNexts Shape.current exec c s0 (List.replicate n 1)).takeWhile (fun r => r.1 = .ret SEARCH_SUCCESS)
    (∀ r ∈ pass, Matches exec c r.2.1 r.2.2) ∧
    (pass.length < n → ∀ p s : Nat, PgOk p → Matches exec c p s → ∃ r ∈ pass, r.2 = (p, s)) ∧
    (pass.map (fun r => passRank P (if S = ANY_SUBNO then 0 else S) r.2.1 r.2.2)).Pairwise (· ≤ ·) := by
  have hnw' : NoWrap (buildF Zvbi.Gen.Cache.putReplacesAllVersions ops) := by
    by_cases h : Zvbi.Gen.Cache.putReplacesAllVersions = false
    · exact hnw h
    · have ht : Zvbi.Gen.Cache.putReplacesAllVersions = true := by simpa using h
      rw [ht]; exact noWrap_repaired ops
  have hany' : Shape.current.startExact = true ∨
      ∀ p, ∀ e ∈ ((buildF Zvbi.Gen.Cache.putReplacesAllVersions ops).slots p).chain, (e.subno : Int) ≠ ANY_SUBNO := by
    by_cases h : Shape.current.startExact = false
    · exact Or.inr (hany h)
    · exact Or.inl (by simpa using h)
  exact search_exact_pass _ Shape.current exec ops P S s0 n hops hnw' hP hS hany' hnew

/-- non-vacuity: a search on a two page cache, five calls -/
example : ∀ r ∈ (runNexts Shape.repaired exAb (buildF true [⟨0x100, 0, 0, abPage⟩, ⟨0x101, 0, 0, abPage⟩])
      { stopPgno0 := 0x100, stopSubno0 := 0, stopPgno1 := 0x8FF, stopSubno1 := 0x3F7E } (List.replicate 5 1)).takeWhile
        (fun r => r.1 = .ret SEARCH_SUCCESS),
    Matches exAb (buildF true [⟨0x100, 0, 0, abPage⟩, ⟨0x101, 0, 0, abPage⟩]) r.2.1 r.2.2 :=
  (search_exact_pass_repaired exAb _ 0x100 0 _ 5 (by decide) ⟨by decide, by decide⟩ ⟨by decide, by decide⟩ rfl).1

/-! ## finding C17-D8: the flags of `search_page_fwd` -/

/-- **fwd_continue_bol_counterexample.** (finding C17-D8, replay corpus/C17/D8-fwd-continue-bol.ops)  A forward search
that continues on the page of the previous hit hands the matcher the text from the cursor - here from column 2 of row 1,
in the middle of the row - with the flags 0: the matcher, which would refuse under URE_NOTBOL, accepts "mm" as standing
at a line start, and the page is reported again with columns 2-3 highlighted.  (`search_page_fwd` sets `flags =
URE_NOTBOL` behind every character and `flags = 0` behind every row separator while it builds the haystack, so at the
call the variable describes the end of the haystack, not the position `first`.) -/
theorem fwd_continue_bol_counterexample :
    (hayFwd bolPage.text 1 2).2 = 2 ∧
    ((pageFwd Shape.repaired bolSpy bolCtx 0x100 bolPage false).1, (pageFwd Shape.repaired bolSpy bolCtx 0x100 bolPage false).2.hl) = (1, [(1, 2), (1, 3)]) ∧
    (∀ t, bolSpy { notBol := true } t = none) :=
  ⟨cexD8_facts.1, cexD8_facts.2, bolSpy_notbol⟩

end Zvbi.Props.C17Pass
