import ZvbiModel.Net.LemmasGap
/-!
# C13 - station, programme, time and aspect announcements are faithful and debounced

Property theorems only (helper lemmas live in `ZvbiModel/Net/Lemmas*.lean`, vocabulary in
`ZvbiModel/Net/Spec.lean`).  Every theorem holds for every station table (`cfg.lk` is a
parameter) and for every decoder state `s`, reachable or not, unless a hypothesis says otherwise.
Histories are lists of atoms (`tick` = head of a `vbi_decode` call, `line` = one sliced line,
`mask`, `chsw`); `frames_are_atom_lists` says a frame is `tick` followed by its lines, so all
interleavings of the carriers inside and across frames are covered.  Events are the ones raised;
the handler sees the sub-list selected by its mask (`handler_sees_raised_events_only`).
-/
namespace Zvbi.Props.C13
open Zvbi.Net Zvbi.Codec Zvbi.Gen

/-! ## plumbing -/

/-- One call of `vbi_decode` is the atom list `tick t :: lines`. -/
theorem frames_are_atom_lists (cfg : Cfg) (s : State) (t : Nat) (ls : List Line) :
    frameRaw cfg s t ls = runAtoms cfg s (frameAtoms t ls) := frameRaw_eq_runAtoms cfg s t ls

/-- The handler is called only with events that were raised (mask filter of `vbi_send_event`). -/
theorem handler_sees_raised_events_only (cfg : Cfg) (s : State) (t : Nat) (ls : List Line) :
    ∀ e ∈ (frame cfg s t ls).2, e ∈ (frameRaw cfg s t ls).2 := by
  intro e he
  simp only [frame, deliver] at he
  exact (List.mem_filter.mp he).1

example : (frame cfg0 init 0 []).2 = [] := by decide

/-! ## event_values_faithful -/

/-- Every NETWORK / NETWORK_ID event raised by a VPS or 8/30 line carries the CNI that line transmitted,
    the id and the name the table gives for it; and it is raised only if that value was already stored
    with a change pending.  Excluded: an identified station replaced by a CNI the table does not know
    (`event_values_unknown_station_counterexample`, F17). -/
theorem event_values_faithful (cfg : Cfg) (t : Nat) (s : State) (l : Line) (c : Carrier) (v : Nat)
    (h : lineCni s.mask l = some (c, v)) (hx : ¬ ((cfg.lk c v).1 = 0 ∧ s.net.nuid ≠ 0)) (n : Network)
    (hn : Ev.network n ∈ (rxLine cfg t s l).2 ∨ Ev.networkId n ∈ (rxLine cfg t s l).2) :
    cniOf c n = v ∧ n.nuid = (cfg.lk c v).1 ∧ n.name = lkName cfg.lk c v ∧ cniOf c s.net = v ∧ s.net.cycle = 1 := by
  have k := rxLine_cniStep cfg t s l (lineCni_some_kind _ _ _ h)
  obtain ⟨extra, hev, hex⟩ := k.2.2.2.2.2.2.2.2
  rw [hev, h] at hn
  exact cniRx_faithful cfg.lk c v s hx n (mem_extra_of_network hex n hn)

/-- F17 in the model: when an identified station is replaced by a CNI missing from the table, the line
    raises NETWORK twice and a NETWORK_ID whose CNI fields are all zero although `v` was received. -/
theorem event_values_unknown_station_counterexample (cfg : Cfg) (t : Nat) (s : State) (l : Line) (c : Carrier) (v : Nat)
    (h : lineCni s.mask l = some (c, v)) (hst : v = cniOf c s.net) (hcy : s.net.cycle = 1)
    (hold : s.net.nuid ≠ 0) (hnew : (cfg.lk c v).1 = 0) :
    countNetwork (rxLine cfg t s l).2 = 2 ∧ Ev.networkId {} ∈ (rxLine cfg t s l).2 ∧
    cniOf c (rxLine cfg t s l).1.net = 0 := by
  have k := rxLine_cniStep cfg t s l (lineCni_some_kind _ _ _ h)
  obtain ⟨extra, hev, hex⟩ := k.2.2.2.2.2.2.2.2
  have f := cniRx_unknown_facts cfg.lk c v s hst hcy hold hnew
  rw [hev, k.1, h]
  simp only [cniStep]
  refine ⟨?_, List.mem_append_left _ f.2.1, f.2.2⟩
  rw [countNetwork_append, f.1, countNetwork_extra extra hex]

/-- A PROG_ID event from VPS carries exactly the PIL/PTY/PCS/CNI of this line, and the same programme id was
    received on the previous VPS line that changed it (double reception, VPS has no error protection). -/
theorem event_values_faithful_vps_pid (lk : Lookup) (s : State) (b : Buf) (p : Pid)
    (h : Ev.progId p ∈ (rxVps lk s b).2) : p = decodeVpsPdc b ∧ s.vpsPid = decodeVpsPdc b ∧ decodeVpsCni b = s.net.cniVps :=
  rxVps_progId lk s b p h

/-- A LOCAL_TIME event carries the time and offset decoded from this very 8/30 format 1 packet. -/
theorem event_values_faithful_local_time (lk : Lookup) (s : State) (b : Buf) (t east : Int)
    (h : Ev.localTime t east ∈ (rxTtx lk s b).2) : decode8301LocalTime b = some (t, east) :=
  rxTtx_localTime lk s b t east h

/-- A PROG_ID event from Teletext carries the programme id decoded from this very 8/30 format 2 packet. -/
theorem event_values_faithful_pdc (lk : Lookup) (s : State) (b : Buf) (p : Pid)
    (h : Ev.progId p ∈ (rxTtx lk s b).2) : decode8302Pdc b = some p :=
  rxTtx_progId lk s b p h

/-- An ASPECT event carries the aspect the WSS word encodes; it needs that word stored, three earlier
    repeats counted, valid parity, and an aspect different from the one announced last. -/
theorem event_values_faithful_aspect (s : State) (b0 b1 t : Nat) (a : Aspect) (h : Ev.aspect a ∈ (rxWss s b0 b1 t).2) :
    a = wssAspect b0 b1 ∧ s.wssLast = (b0, b1) ∧ 2 ≤ s.wssRep ∧ wssParityOk b0 = true ∧ a ≠ s.aspect := by
  have e := rxWss_event s b0 b1 t a h
  exact ⟨e.2.2.2.2.1, e.2.1, e.2.2.1, e.2.2.2.1, e.2.2.2.2.2⟩

/-- An XDS NETWORK / NETWORK_ID event carries the received name and the check sum over call letters (or name);
    it needs the same name stored by an earlier packet and a change pending. -/
theorem event_values_faithful_xds (g : Bool) (s : State) (ty : Nat) (bytes : List Nat) (n : Network)
    (h : Ev.network n ∈ (rxXds g s ty bytes).2 ∨ Ev.networkId n ∈ (rxXds g s ty bytes).2) :
    ty = 1 ∧ (xdsStrfu s.net.name bytes).2 = false ∧ s.net.cycle = 1 ∧ n.name = s.net.name ∧
    n.name = (xdsStrfu s.net.name bytes).1 ∧ n.nuid = xdsNuid (if s.net.call ≠ [] then s.net.call else s.net.name) :=
  rxXds_announce g s ty bytes n h

-- non-vacuity: a VPS word received twice is announced with its own CNI
example : (runAtoms { lk := fun _ _ => (7, [65]), xdsGuard := false } init
    [.line 0 (.vps [0,0,0,0,0,0,0,0,0xC0,0,0x02,0x81,0]), .line 0 (.vps [0,0,0,0,0,0,0,0,0xC0,0,0x02,0x81,0])]).2.length = 2 := by
  decide

/-! ## announce_needs_repeat -/

/-- A line whose CNI differs from the one stored for its carrier raises neither NETWORK nor NETWORK_ID. -/
theorem announce_needs_stored_value (cfg : Cfg) (t : Nat) (s : State) (l : Line) (c : Carrier) (v : Nat)
    (h : lineCni s.mask l = some (c, v)) (hd : v ≠ cniOf c s.net) : Silent (rxLine cfg t s l).2 :=
  line_differs_silent cfg t s l c v h hd

/-- Full strength, any interleaving: take ANY state, a reception of `u` on carrier `c`, then ANY atoms that
    are not receptions on `c` (other carriers, WSS, XDS, pages, ticks with or without time-outs, mask
    changes, channel switches), then a reception of `v ≠ u`, `v ≠ 0` on `c`: nothing is announced.
    (`v = 0` is the value a reset leaves behind; a CNI of 0 means "none".) -/
theorem announce_needs_repeat (cfg : Cfg) (c : Carrier) (u v : Nat) (hne : u ≠ v) (hv0 : v ≠ 0)
    (s0 : State) (t1 : Nat) (l1 : Line) (h1 : lineCni s0.mask l1 = some (c, u))
    (mid : List Atom) (hmid : ∀ a ∈ mid, a.freeOf c = true) (t2 : Nat) (l2 : Line)
    (h2 : lineCni (runAtoms cfg (stepAtom cfg s0 (.line t1 l1)).1 mid).1.mask l2 = some (c, v)) :
    Silent (stepAtom cfg (runAtoms cfg (stepAtom cfg s0 (.line t1 l1)).1 mid).1 (.line t2 l2)).2 :=
  needs_repeat_window cfg c u v hne hv0 s0 t1 l1 h1 mid hmid t2 l2 h2

/-- WSS, full strength: four WSS words in time order from ANY state with ANY other atoms (including resets)
    in between; an ASPECT event at the fourth needs all four identical and valid parity (the code's
    `++rep_ct < 3`). -/
theorem announce_needs_repeat_wss (cfg : Cfg) (s0 : State) (w1 w2 w3 w4 : Nat × Nat) (t1 t2 t3 t4 : Nat)
    (m1 m2 m3 : List Atom) (f1 : ∀ a ∈ m1, a.wssFree = true) (f2 : ∀ a ∈ m2, a.wssFree = true)
    (f3 : ∀ a ∈ m3, a.wssFree = true) (h0 : s0.wssTime ≤ t1) (h12 : t1 ≤ t2) (h23 : t2 ≤ t3)
    (a : Aspect)
    (hev : Ev.aspect a ∈ (stepAtom cfg (runAtoms cfg s0
        (Atom.line t1 (.wss w1.1 w1.2) :: m1 ++ Atom.line t2 (.wss w2.1 w2.2) :: m2 ++
         Atom.line t3 (.wss w3.1 w3.2) :: m3)).1 (.line t4 (.wss w4.1 w4.2))).2) :
    w1 = w2 ∧ w2 = w3 ∧ w3 = w4 ∧ wssParityOk w4.1 = true ∧ a = wssAspect w4.1 w4.2 :=
  wss_needs_four cfg s0 w1 w2 w3 w4 t1 t2 t3 t4 m1 m2 m3 f1 f2 f3 h0 h12 h23 a hev

-- non-vacuity: the fourth identical valid word does raise ASPECT (16:9 = format 3, odd parity bit set)
example : (runAtoms cfg0 init [.line 1 (.wss 0x0B 0), .line 2 (.wss 0x0B 0), .line 3 (.wss 0x0B 0), .line 4 (.wss 0x0B 0)]).2
    = [Ev.aspect (wssAspect 0x0B 0), Ev.progInfo (wssAspect 0x0B 0)] := by decide

/-! ## no_reannounce_while_stable -/

/-- Right after a NETWORK_ID from the debounce nothing is pending (`cycle = 2`). -/
theorem announcement_settles (lk : Lookup) (c : Carrier) (v : Nat) (s : State) (n : Network)
    (h : Ev.networkId n ∈ (cniRx lk c v s).2) : (cniRx lk c v s).1.net.cycle = 2 := by
  by_cases h1 : v = cniOf c s.net
  · by_cases h2 : s.net.cycle = 1
    · by_cases h3 : (lk c v).1 = s.net.nuid
      · rw [cniRx_same lk c v s h1 h2 h3]
      · by_cases h4 : s.net.nuid = 0
        · rw [cniRx_first lk c v s h1 h2 h3 h4]
        · by_cases h5 : (lk c v).1 = 0
          · rw [cniRx_unknown lk c v s h1 h2 h4 h5]
          · rw [cniRx_switch lk c v s h1 h2 h3 h4 h5]
    · rw [cniRx_idle lk c v s h1 h2] at h; simp at h
  · rw [cniRx_change lk c v s h1] at h; simp at h

/-- While nothing is pending and every reception (VPS, 8/30-1, 8/30-2, XDS name and call letters; WSS words
    and pages are free) equals what is stored, in any interleaving over any number of regular frames,
    neither NETWORK nor NETWORK_ID is raised, the network record stays as it is, the countdown stays idle, and a
    page cached at any point of the history is still cached at its end. -/
theorem no_reannounce_while_stable (cfg : Cfg) (n : Network) (mask : Nat) (hn : n.cycle ≠ 1)
    (atoms : List Atom) (s : State) (h1 : s.net = n) (h2 : s.chswcd = 0) (h3 : s.mask = mask)
    (hreg : RegularFrom s.time atoms) (hq : ∀ a ∈ atoms, SameAsStored n mask a) :
    Silent (runAtoms cfg s atoms).2 ∧ (runAtoms cfg s atoms).1.net = n ∧ (runAtoms cfg s atoms).1.chswcd = 0 ∧
    (runAtoms cfg s atoms).1.mask = mask ∧
    (∀ q1 q2, atoms = q1 ++ q2 → (runAtoms cfg s q1).1.cached ⊆ (runAtoms cfg s atoms).1.cached) :=
  stable_run cfg n mask hn atoms s h1 h2 h3 hreg hq

/-- WSS: an ASPECT event stores the announced aspect, and an event needs an aspect different from the stored
    one, so the same word arriving again cannot announce again. -/
theorem no_reannounce_aspect (s : State) (b0 b1 t : Nat) (a : Aspect) (h : Ev.aspect a ∈ (rxWss s b0 b1 t).2) :
    (rxWss s b0 b1 t).1.aspect = a ∧ ∀ t' a', Ev.aspect a' ∉ (rxWss (rxWss s b0 b1 t).1 b0 b1 t').2 := by
  have e := rxWss_event s b0 b1 t a h
  have st : (rxWss s b0 b1 t).1.aspect = a := by
    have nt : ¬ t < s.wssTime := by omega
    have hp : wssParityOk b0 = true := e.2.2.2.1
    have hr : ¬ s.wssRep + 1 < 3 := by omega
    have hne : ¬ wssAspect b0 b1 = s.aspect := by rw [← e.2.2.2.2.1]; exact e.2.2.2.2.2
    simp [rxWss, nt, e.2.1, hr, hp, hne, e.2.2.2.2.1]
  refine ⟨st, ?_⟩
  intro t' a' h'
  have e' := rxWss_event _ b0 b1 t' a' h'
  exact e'.2.2.2.2.2 (by rw [st, e'.2.2.2.2.1, e.2.2.2.2.1])

-- non-vacuity: a fifth and sixth identical word raise nothing more
example : (runAtoms cfg0 init [.line 1 (.wss 0x0B 0), .line 2 (.wss 0x0B 0), .line 3 (.wss 0x0B 0), .line 4 (.wss 0x0B 0),
    .line 5 (.wss 0x0B 0), .line 6 (.wss 0x0B 0)]).2.length = 2 := by decide

/-! ## single_glitch_harmless -/

/-- Full strength, interleaved carriers, with the hypothesis the shared `cycle` variable forces (`ids_agree`):
    the station transmits `st c` on carrier `c` and every carrier that is received with its station value
    (`ok c`) resolves to the one id `id`.  The decoder has identified the station (`nuid = id`), no countdown
    runs, and each carrier's stored value is the station's or a deviating value recorded in `lg`.  Then over
    ANY regularly timed history of VPS / 8/30 / WSS / page lines in ANY interleaving, in which deviating
    words may occur on any carrier any number of times as long as the same wrong value never comes twice
    in a row on one carrier, no NETWORK event is raised, no cached page is lost and the station stays
    identified.  A single deviating word between identical ones is the special case. -/
theorem single_glitch_harmless (cfg : Cfg) (st : Carrier → Nat) (ok : Carrier → Bool) (id mask : Nat)
    (ids_agree : ∀ c, ok c = true → (cfg.lk c (st c)).1 = id)
    (atoms : List Atom) (s : State) (lg : Carrier → Option Nat)
    (hid : s.net.nuid = id) (hcd : s.chswcd = 0) (hm : s.mask = mask)
    (hst : ∀ c, cniOf c s.net = st c ∨ lg c = some (cniOf c s.net))
    (hreg : RegularFrom s.time atoms) (hg : NoRepeatedGlitch st ok mask lg atoms) :
    NoNetwork (runAtoms cfg s atoms).2 ∧ s.cached ⊆ (runAtoms cfg s atoms).1.cached ∧
    (runAtoms cfg s atoms).1.net.nuid = id :=
  glitch_run cfg st ok id mask ids_agree atoms s lg ⟨hid, hcd, hm, hst⟩ hreg hg

/-- the demonstration table: VPS 0x0AC1 is station 193, nothing else is known (so 8/30-1 CNI 0 has id 0) -/
def lkDemo : Lookup := fun c v => if c = .vps ∧ v = 0x0AC1 then (193, [79, 82, 70]) else (0, [])
def cfgDemo : Cfg := { lk := lkDemo, xdsGuard := false }
def vpsA : Line := .vps [0,0,0,0,0,0,0,0,0xC0,0xD1,0x5A,0x81,0]     -- CNI 0x0AC1
def vpsG : Line := .vps [0,0,0,0,0,0,0,0,0xC0,0x00,0x02,0x83,0]     -- CNI 0x0AC3, the deviating word
/-- 8/30 format 1, CNI 0 -/
def p8301Zero : Line := .ttx [0x15,0xEA,0x15,0xEA,0xEA,0xEA,0x2F,0xEA,0x5E,0x00,0x00,0x85,0x26,0x98,0x65,0x23,0x11,0x11,
  0x20,0x20,0x20,0x20,0x20,0x20,0x20,0x20,0x20,0x20,0x20,0x20,0x20,0x20,0x20,0x20,0x20,0x20,0x20,0x20,0x20,0x20,0x20,0x20]
/-- VPS received twice (station 193 announced), then VPS and 8/30-1 alternating, one page cached -/
def establishF11 : List Atom :=
  [.mask 3534, .tick 1000000, .line 1000000 vpsA, .tick 1040000, .line 1040000 vpsA,
   .tick 1080000, .line 1080000 p8301Zero, .tick 1120000, .line 1120000 p8301Zero,
   .tick 1160000, .line 1160000 vpsA, .tick 1200000, .line 1200000 p8301Zero,
   .tick 1240000, .line 1240000 (.page 0x100)]

/-- The excluded point (F11): the two carriers resolve to different ids (193 and 0).  After the station is
    identified and a page cached, ONE deviating VPS word followed by the unchanged 8/30-1 packet raises
    NETWORK (twice) and empties the cache.  The same history is `corpus/C13/F11-vps-glitch-flushes-cache.ops`
    on the real code with the real table. -/
theorem single_glitch_interleaved_counterexample :
    (cfgDemo.lk .vps 0x0AC1).1 ≠ (cfgDemo.lk .p8301 0).1 ∧
    (runAtoms cfgDemo init establishF11).1.net.nuid = 193 ∧
    (runAtoms cfgDemo init establishF11).1.cached = [0x100] ∧
    (runAtoms cfgDemo init establishF11).1.net.cycle = 2 ∧
    countNetwork (runAtoms cfgDemo (runAtoms cfgDemo init establishF11).1
      [.tick 1280000, .line 1280000 vpsG, .tick 1320000, .line 1320000 p8301Zero]).2 = 2 ∧
    (runAtoms cfgDemo (runAtoms cfgDemo init establishF11).1
      [.tick 1280000, .line 1280000 vpsG, .tick 1320000, .line 1320000 p8301Zero]).1.cached = [] := by
  decide

/-- XDS, current code (no comparison of the new id with `n->nuid`): station announced, one deviating name,
    the name again twice: NETWORK is raised for the unchanged station and the cache emptied (F18). -/
theorem single_glitch_xds_counterexample :
    let est := (runAtoms { cfgDemo with xdsGuard := false } init
      [.mask 3534, .line 0 (.xds 1 [75, 81]), .line 0 (.xds 1 [75, 81]), .line 0 (.page 0x100)]).1
    est.cached = [0x100] ∧ est.net.nuid = xdsNuid [75, 81] ∧
    countNetwork (runAtoms { cfgDemo with xdsGuard := false } est
      [.line 0 (.xds 1 [75, 63]), .line 0 (.xds 1 [75, 81]), .line 0 (.xds 1 [75, 81])]).2 = 1 ∧
    (runAtoms { cfgDemo with xdsGuard := false } est
      [.line 0 (.xds 1 [75, 63]), .line 0 (.xds 1 [75, 81]), .line 0 (.xds 1 [75, 81])]).1.cached = [] := by
  decide

/-- XDS with the comparison in place (`xdsGuard = true`, fixes/xds-name-reannounce.diff): a name packet that
    yields the id of the identified station raises no NETWORK event and keeps the cache, whatever happened
    before. -/
theorem single_glitch_harmless_xds_with_guard (s : State) (bytes : List Nat)
    (hid : xdsNuid (if s.net.call ≠ [] then s.net.call else (xdsStrfu s.net.name bytes).1) = s.net.nuid) :
    NoNetwork (rxXds true s 1 bytes).2 ∧ (rxXds true s 1 bytes).1.cached = s.cached ∧
    (rxXds true s 1 bytes).1.net.nuid = s.net.nuid :=
  rxXds_guarded_same s bytes hid

/-- which of the two XDS shapes the current tree has (extracted by translate/gen_net.py) -/
theorem xds_guard_of_this_tree : cfg0.xdsGuard = xdsNuidGuard := rfl

-- non-vacuity of `single_glitch_harmless`: same history as the counterexample, but the 8/30-1 packet is absent
-- from the `ok` carriers' disagreement because the table knows its code too
example : NoRepeatedGlitch (fun c => if c = .vps then 0x0AC1 else 0) (fun c => c == .vps) 3534 (fun c => if c = .vps then none else some 0)
    [.tick 1280000, .line 1280000 vpsG, .tick 1320000, .line 1320000 vpsA, .tick 1360000, .line 1360000 vpsA] := by
  simp [NoRepeatedGlitch, lineCni, vpsG, vpsA, decodeVpsCni, bt]

/-! ## station_change_exactly_one_event_and_flush -/

/-- The reception that makes the decoder adopt a different, known station (value already stored once, new id
    neither the old one nor 0, old station identified) raises exactly one NETWORK event, carrying the new id
    and the received CNI, empties the page cache (the `vbi->cn` of the old station is dropped: C10
    `chsw_unreachable`), and leaves nothing pending. -/
theorem station_change_exactly_one_event_and_flush (cfg : Cfg) (t : Nat) (s : State) (l : Line) (c : Carrier) (v : Nat)
    (h : lineCni s.mask l = some (c, v)) (hst : v = cniOf c s.net) (hcy : s.net.cycle = 1)
    (hid : (cfg.lk c v).1 ≠ s.net.nuid) (hold : s.net.nuid ≠ 0) (hnew : (cfg.lk c v).1 ≠ 0) :
    countNetwork (rxLine cfg t s l).2 = 1 ∧
    (∀ n, Ev.network n ∈ (rxLine cfg t s l).2 → n.nuid = (cfg.lk c v).1 ∧ cniOf c n = v) ∧
    (rxLine cfg t s l).1.cached = [] ∧ (rxLine cfg t s l).1.net.nuid = (cfg.lk c v).1 ∧
    (rxLine cfg t s l).1.net.cycle = 2 := by
  have k := rxLine_cniStep cfg t s l (lineCni_some_kind _ _ _ h)
  obtain ⟨extra, hev, hex⟩ := k.2.2.2.2.2.2.2.2
  have f := cniRx_switch_facts cfg.lk c v s hst hcy hid hold hnew
  rw [hev, k.1, k.2.1, h]
  simp only [cniStep]
  refine ⟨?_, ?_, f.2.2.1, f.2.2.2.1, f.2.2.2.2.1⟩
  · rw [countNetwork_append, f.1, countNetwork_extra extra hex]
  · intro n hn
    exact f.2.1 n (mem_extra_of_network hex n (Or.inl hn))

/-- From ANY state: a new CNI `b` received twice in a row on carrier `c` (whatever was stored before) while a
    different known station was identified: over the two lines together exactly one NETWORK event, the cache
    is empty afterwards and the new station is identified. -/
theorem station_change_two_receptions (cfg : Cfg) (t1 t2 : Nat) (s : State) (l1 l2 : Line) (c : Carrier) (b : Nat)
    (h1 : lineCni s.mask l1 = some (c, b)) (h2 : lineCni s.mask l2 = some (c, b)) (hb : b ≠ cniOf c s.net)
    (hid : (cfg.lk c b).1 ≠ s.net.nuid) (hold : s.net.nuid ≠ 0) (hnew : (cfg.lk c b).1 ≠ 0) :
    countNetwork (runAtoms cfg s [.line t1 l1, .line t2 l2]).2 = 1 ∧
    (runAtoms cfg s [.line t1 l1, .line t2 l2]).1.cached = [] ∧
    (runAtoms cfg s [.line t1 l1, .line t2 l2]).1.net.nuid = (cfg.lk c b).1 := by
  have k := rxLine_cniStep cfg t1 s l1 (lineCni_some_kind _ _ _ h1)
  obtain ⟨extra, hev, hex⟩ := k.2.2.2.2.2.2.2.2
  rw [h1] at k hev
  simp only [cniStep, cniRx_change cfg.lk c b s hb] at k hev
  have hnet : (rxLine cfg t1 s l1).1.net = { setCni c s.net b with cycle := 1 } := k.1
  have hm : (rxLine cfg t1 s l1).1.mask = s.mask := k.2.2.2.1
  have q := station_change_exactly_one_event_and_flush cfg t2 (rxLine cfg t1 s l1).1 l2 c b (by rw [hm]; exact h2)
    (by rw [hnet, cniOf_cycle, cniOf_setCni_self])
    (by rw [hnet])
    (by rw [hnet]; show (cfg.lk c b).1 ≠ (setCni c s.net b).nuid; rw [setCni_nuid]; exact hid)
    (by rw [hnet]; show (setCni c s.net b).nuid ≠ 0; rw [setCni_nuid]; exact hold) hnew
  simp only [runAtoms, stepAtom, List.append_nil]
  refine ⟨?_, q.2.2.1, q.2.2.2.1⟩
  rw [countNetwork_append, q.1, hev, countNetwork_append, countNetwork_extra extra hex]
  rfl

/-- Invariant of the channel-switch countdown: `vbi_chsw_reset` leaves it idle, whoever called it and with
    whatever id (vbi.c:553-557) - so no reset is ever followed by a second one 40 frames later. -/
theorem countdown_idle_after_reset (s : State) (id : Nat) : (chswReset s id).1.chswcd = 0 := chswReset_idle s id

/-- The line that replaces an identified station by another known one leaves the countdown idle, even if a
    time-stamp gap had armed it before. -/
theorem countdown_idle_after_station_change (lk : Lookup) (c : Carrier) (v : Nat) (s : State) (h : v = cniOf c s.net)
    (h2 : s.net.cycle = 1) (h3 : (lk c v).1 ≠ s.net.nuid) (h4 : s.net.nuid ≠ 0) (h5 : (lk c v).1 ≠ 0) :
    (cniRx lk c v s).1.chswcd = 0 := by
  rw [cniRx_switch lk c v s h h2 h3 h4 h5]

/-- Histories with gaps.  From a state with an identified station and a countdown that is idle or has at
    least three frames to go: a tick with ANY time stamp (a gap arms the 40-frame countdown), the new CNI
    `b`, a tick with any time stamp, `b` again (known id, different from the old one), then any regular
    history in which every reception equals what is now stored.  Over the whole history exactly ONE NETWORK
    event; the change empties the cache and cancels the countdown; afterwards the countdown stays idle (no
    second reset when the 40 frames are over), the new station stays identified, and every page cached for
    the new station at any point stays cached. -/
theorem station_change_exactly_one_event_and_flush_over_gap (cfg : Cfg) (s : State) (t0 t1 : Nat) (l1 l2 : Line)
    (c : Carrier) (b : Nat) (quiet : List Atom) (hcd : s.chswcd = 0 ∨ 3 ≤ s.chswcd)
    (h1 : lineCni s.mask l1 = some (c, b)) (h2 : lineCni s.mask l2 = some (c, b)) (hb : b ≠ cniOf c s.net)
    (hid : (cfg.lk c b).1 ≠ s.net.nuid) (hold : s.net.nuid ≠ 0) (hnew : (cfg.lk c b).1 ≠ 0)
    (hreg : RegularFrom (runAtoms cfg s [.tick t0, .line t0 l1, .tick t1, .line t1 l2]).1.time quiet)
    (hq : ∀ a ∈ quiet, SameAsStored (runAtoms cfg s [.tick t0, .line t0 l1, .tick t1, .line t1 l2]).1.net s.mask a) :
    countNetwork (runAtoms cfg s ([.tick t0, .line t0 l1, .tick t1, .line t1 l2] ++ quiet)).2 = 1 ∧
    (runAtoms cfg s [.tick t0, .line t0 l1, .tick t1, .line t1 l2]).1.cached = [] ∧
    (runAtoms cfg s [.tick t0, .line t0 l1, .tick t1, .line t1 l2]).1.chswcd = 0 ∧
    (runAtoms cfg s ([.tick t0, .line t0 l1, .tick t1, .line t1 l2] ++ quiet)).1.net.nuid = (cfg.lk c b).1 ∧
    (runAtoms cfg s ([.tick t0, .line t0 l1, .tick t1, .line t1 l2] ++ quiet)).1.chswcd = 0 ∧
    (∀ q1 q2, quiet = q1 ++ q2 →
      (runAtoms cfg s ([.tick t0, .line t0 l1, .tick t1, .line t1 l2] ++ q1)).1.cached ⊆
      (runAtoms cfg s ([.tick t0, .line t0 l1, .tick t1, .line t1 l2] ++ quiet)).1.cached) :=
  change_over_gap cfg s t0 t1 l1 l2 c b quiet hcd h1 h2 hb hid hold hnew hreg hq

/-- 42 regular frames repeating the new station's VPS word, starting 40 ms after `t` -/
def quietVps (l : Line) : Nat → Nat → List Atom
  | 0, _ => []
  | n + 1, t => .tick (t + 40000) :: .line (t + 40000) l :: quietVps l n (t + 40000)

-- non-vacuity of the gap theorem: station 193, a 2 s gap, station 195 twice, a page, 42 quiet frames:
-- one NETWORK event in all, countdown idle, the page still cached
example :
    let lk : Lookup := fun _ v => if v = 0x0AC1 then (193, [65]) else if v = 0x0AC3 then (195, [66]) else (0, [])
    let cfg : Cfg := { lk := lk, xdsGuard := true }
    let s := (runAtoms cfg init [.mask 3534, .tick 1000000, .line 1000000 vpsA, .tick 1040000, .line 1040000 vpsA]).1
    let r := runAtoms cfg s ([.tick 3000000, .line 3000000 vpsG, .tick 3040000, .line 3040000 vpsG] ++
                              (.tick 3080000 :: .line 3080000 (.page 0x234) :: quietVps vpsG 42 3080000))
    s.net.nuid = 193 ∧ countNetwork r.2 = 1 ∧ r.1.chswcd = 0 ∧ r.1.cached = [0x234] ∧ r.1.net.nuid = 195 := by decide

/-- The hypothesis "old station identified" is needed.  Observation on the countdown's design (not a defect of
    the debounce): when NO station was identified before the gap, identifying the new one does not call
    `vbi_chsw_reset`, the countdown keeps running and 40 frames later the decoder resets anyway: NETWORK (nuid 0),
    cache dropped, station announced again.  Same history on the real code:
    `corpus/C13/gap-unidentified-countdown-fires.ops`. -/
theorem station_identified_during_countdown_observation :
    let lk : Lookup := fun _ v => if v = 0x0AC1 then (193, [65]) else (0, [])
    let cfg : Cfg := { lk := lk, xdsGuard := true }
    let r := runAtoms cfg init ([.mask 3534, .tick 1000000, .tick 1040000, .tick 3000000, .line 3000000 vpsA,
                                 .tick 3040000, .line 3040000 vpsA, .tick 3080000, .line 3080000 (.page 0x234)] ++
                                quietVps vpsA 40 3080000)
    countNetwork r.2 = 3 ∧ r.1.cached = [] ∧ r.1.net.nuid = 193 := by decide

-- non-vacuity: station 193 identified, then another known station received twice: one NETWORK event, cache empty
example :
    let lk : Lookup := fun _ v => if v = 0x0AC1 then (193, [65]) else if v = 0x0AC3 then (195, [66]) else (0, [])
    let r := runAtoms { lk := lk, xdsGuard := false } init
      [.mask 3534, .line 0 vpsA, .line 0 vpsA, .line 0 (.page 0x100), .line 0 vpsG, .line 0 vpsG]
    countNetwork r.2 = 2 ∧ r.1.cached = [] ∧ r.1.net.nuid = 195 := by decide

end Zvbi.Props.C13
