import ZvbiModel.Net.LemmasGap
/-!
# C13 - station, programme, time and aspect announcements are faithful and debounced

Property theorems only (helper lemmas live in `ZvbiModel/Net/Lemmas*.lean`, vocabulary in
`ZvbiModel/Net/Spec.lean`).  Every theorem holds for every station table (`cfg.lk` is a
parameter) and for every decoder state `s`, reachable or not, unless a hypothesis says otherwise.
Histories are lists of atoms (`tick` = head of a `vbi_decode` call, `line` = one sliced line,
`mask`, `chsw`); `frames_are_atom_lists` says a frame is `tick` followed by its lines, so all
interleavings of the carriers inside and across frames are covered.  Events are the ones raised;
the handler sees the sub-list selected by its mask (`handler_sees_raised_events_only`).

Two source shapes each for F11 and F35 (`cfg.perCarrier`, `cfg.chswIdent`; read from the tree by
translate/gen_netflags.py, see `cfg_of_this_tree`).  Every theorem is stated for every `cfg`, i.e. for both
shapes, unless it names a flag: the counterexamples name the unrepaired value, the full-strength statements
(`single_glitch_harmless_per_carrier`, `station_change_to_unknown_exactly_one_event`) the repaired one.
`pending cfg c s` is `n->cycle == 1` in the shared-cycle shape and `vbi->cni_cycle[c] == 1` in the per-carrier one.
-/
namespace Zvbi.Props.C13
open Zvbi.Net Zvbi.Codec Zvbi.Gen

/-- a configuration with an empty station table (for histories without CNIs) -/
def cfgPlain : Cfg := { lk := fun _ _ => (0, []), xdsGuard := true }

/-! ## plumbing -/

/-- One call of `vbi_decode` is the atom list `tick t :: lines`. -/
theorem frames_are_atom_lists (cfg : Cfg) (s : State) (t : Nat) (ls : List Line) :
    frameRaw cfg s t ls = runAtoms cfg s (frameAtoms t ls) := frameRaw_eq_runAtoms cfg s t ls

/-- The handler is called only with events that were raised (mask filter of `vbi_send_event`). -/
theorem handler_sees_raised_events_only (cfg : Cfg) (s : State) (t : Nat) (ls : List Line) :
    ∀ e ∈ (frame cfg s t ls).2, e ∈ (frameRaw cfg s t ls).2 := by
  intro e he
  simp only [frame, deliver] at he
  exact (List.mem_filter.mp he).1

example : (frame cfg0 init 0 []).2 = [] := by decide

/-! ## event_values_faithful -/

/-- Every NETWORK / NETWORK_ID event raised by a VPS or 8/30 line carries the CNI that line transmitted,
    the id and the name the table gives for it; and it is raised only if that value was already stored
    with a change pending.  With the callers of `vbi_chsw_reset` passing "identified" (`cfg.chswIdent`, F35
    repaired) this holds without exception; before, one case is excluded: an identified station replaced by a
    CNI the table does not know (`event_values_unknown_station_counterexample`). -/
theorem event_values_faithful (cfg : Cfg) (t : Nat) (s : State) (l : Line) (c : Carrier) (v : Nat)
    (h : lineCni s.mask l = some (c, v)) (hx : cfg.chswIdent = true ∨ ¬ ((cfg.lk c v).1 = 0 ∧ s.net.nuid ≠ 0)) (n : Network)
    (hn : Ev.network n ∈ (rxLine cfg t s l).2 ∨ Ev.networkId n ∈ (rxLine cfg t s l).2) :
    cniOf c n = v ∧ n.nuid = (cfg.lk c v).1 ∧ n.name = lkName cfg c v ∧ cniOf c s.net = v ∧ pending cfg c s := by
  have k := rxLine_cniStep cfg t s l (lineCni_some_kind _ _ _ h)
  obtain ⟨extra, hev, hex⟩ := k.2.2.2.2.2.2.2.2
  rw [hev, h] at hn
  exact cniRx_faithful cfg c v s hx n (mem_extra_of_network hex n hn)

/-- F35 (was F17) in the model, for every tree WITHOUT the repair (`cfg.chswIdent = false`: the CNI paths call
    `vbi_chsw_reset (vbi, id)` with `id = 0`): when an identified station is replaced by a CNI missing from the
    table, the line raises NETWORK twice and a NETWORK_ID whose CNI fields are all zero although `v` was received. -/
theorem event_values_unknown_station_counterexample (cfg : Cfg) (hI : cfg.chswIdent = false)
    (t : Nat) (s : State) (l : Line) (c : Carrier) (v : Nat)
    (h : lineCni s.mask l = some (c, v)) (hst : v = cniOf c s.net) (hcy : pending cfg c s)
    (hold : s.net.nuid ≠ 0) (hnew : (cfg.lk c v).1 = 0) :
    countNetwork (rxLine cfg t s l).2 = 2 ∧ Ev.networkId {} ∈ (rxLine cfg t s l).2 ∧
    cniOf c (rxLine cfg t s l).1.net = 0 := by
  have k := rxLine_cniStep cfg t s l (lineCni_some_kind _ _ _ h)
  obtain ⟨extra, hev, hex⟩ := k.2.2.2.2.2.2.2.2
  have f := cniRx_unknown_facts cfg c v s hst hcy hold hnew hI
  rw [hev, k.1, h]
  simp only [cniStep]
  refine ⟨?_, List.mem_append_left _ f.2.1, f.2.2⟩
  rw [countNetwork_append, f.1, countNetwork_extra extra hex]

/-- A PROG_ID event from VPS carries exactly the PIL/PTY/PCS/CNI of this line, and the same programme id was
    received on the previous VPS line that changed it (double reception, VPS has no error protection). -/
theorem event_values_faithful_vps_pid (cfg : Cfg) (s : State) (b : Buf) (p : Pid)
    (h : Ev.progId p ∈ (rxVps cfg s b).2) : p = decodeVpsPdc b ∧ s.vpsPid = decodeVpsPdc b ∧ decodeVpsCni b = s.net.cniVps :=
  rxVps_progId cfg s b p h

/-- A LOCAL_TIME event carries the time and offset decoded from this very 8/30 format 1 packet. -/
theorem event_values_faithful_local_time (cfg : Cfg) (s : State) (b : Buf) (t east : Int)
    (h : Ev.localTime t east ∈ (rxTtx cfg s b).2) : decode8301LocalTime b = some (t, east) :=
  rxTtx_localTime cfg s b t east h

/-- A PROG_ID event from Teletext carries the programme id decoded from this very 8/30 format 2 packet. -/
theorem event_values_faithful_pdc (cfg : Cfg) (s : State) (b : Buf) (p : Pid)
    (h : Ev.progId p ∈ (rxTtx cfg s b).2) : decode8302Pdc b = some p :=
  rxTtx_progId cfg s b p h

/-- An ASPECT event carries the aspect the WSS word encodes; it needs that word stored, three earlier
    repeats counted, valid parity, and an aspect different from the one announced last. -/
theorem event_values_faithful_aspect (s : State) (b0 b1 t : Nat) (a : Aspect) (h : Ev.aspect a ∈ (rxWss s b0 b1 t).2) :
    a = wssAspect b0 b1 ∧ s.wssLast = (b0, b1) ∧ 2 ≤ s.wssRep ∧ wssParityOk b0 = true ∧ a ≠ s.aspect := by
  have e := rxWss_event s b0 b1 t a h
  exact ⟨e.2.2.2.2.1, e.2.1, e.2.2.1, e.2.2.2.1, e.2.2.2.2.2⟩

/-- An XDS NETWORK / NETWORK_ID event carries the received name and the check sum over call letters (or name);
    it needs the same name stored by an earlier packet and a change pending. -/
theorem event_values_faithful_xds (g : Bool) (s : State) (ty : Nat) (bytes : List Nat) (n : Network)
    (h : Ev.network n ∈ (rxXds g s ty bytes).2 ∨ Ev.networkId n ∈ (rxXds g s ty bytes).2) :
    ty = 1 ∧ (xdsStrfu s.net.name bytes).2 = false ∧ s.net.cycle = 1 ∧ n.name = s.net.name ∧
    n.name = (xdsStrfu s.net.name bytes).1 ∧ n.nuid = xdsNuid (if s.net.call ≠ [] then s.net.call else s.net.name) :=
  rxXds_announce g s ty bytes n h

-- non-vacuity: a VPS word received twice is announced with its own CNI
example : (runAtoms { lk := fun _ _ => (7, [65]), xdsGuard := false } init
    [.line 0 (.vps [0,0,0,0,0,0,0,0,0xC0,0,0x02,0x81,0]), .line 0 (.vps [0,0,0,0,0,0,0,0,0xC0,0,0x02,0x81,0])]).2.length = 2 := by
  decide

/-! ## announce_needs_repeat -/

/-- A line whose CNI differs from the one stored for its carrier raises neither NETWORK nor NETWORK_ID. -/
theorem announce_needs_stored_value (cfg : Cfg) (t : Nat) (s : State) (l : Line) (c : Carrier) (v : Nat)
    (h : lineCni s.mask l = some (c, v)) (hd : v ≠ cniOf c s.net) : Silent (rxLine cfg t s l).2 :=
  line_differs_silent cfg t s l c v h hd

/-- Full strength, any interleaving: take ANY state, a reception of `u` on carrier `c`, then ANY atoms that
    are not receptions on `c` (other carriers, WSS, XDS, pages, ticks with or without time-outs, mask
    changes, channel switches), then a reception of `v ≠ u`, `v ≠ 0` on `c`: nothing is announced.
    (`v = 0` is the value a reset leaves behind; a CNI of 0 means "none".) -/
theorem announce_needs_repeat (cfg : Cfg) (c : Carrier) (u v : Nat) (hne : u ≠ v) (hv0 : v ≠ 0)
    (s0 : State) (t1 : Nat) (l1 : Line) (h1 : lineCni s0.mask l1 = some (c, u))
    (mid : List Atom) (hmid : ∀ a ∈ mid, a.freeOf c = true) (t2 : Nat) (l2 : Line)
    (h2 : lineCni (runAtoms cfg (stepAtom cfg s0 (.line t1 l1)).1 mid).1.mask l2 = some (c, v)) :
    Silent (stepAtom cfg (runAtoms cfg (stepAtom cfg s0 (.line t1 l1)).1 mid).1 (.line t2 l2)).2 :=
  needs_repeat_window cfg c u v hne hv0 s0 t1 l1 h1 mid hmid t2 l2 h2

/-- WSS, full strength: four WSS words in time order from ANY state with ANY other atoms (including resets)
    in between; an ASPECT event at the fourth needs all four identical and valid parity (the code's
    `++rep_ct < 3`). -/
theorem announce_needs_repeat_wss (cfg : Cfg) (s0 : State) (w1 w2 w3 w4 : Nat × Nat) (t1 t2 t3 t4 : Nat)
    (m1 m2 m3 : List Atom) (f1 : ∀ a ∈ m1, a.wssFree = true) (f2 : ∀ a ∈ m2, a.wssFree = true)
    (f3 : ∀ a ∈ m3, a.wssFree = true) (h0 : s0.wssTime ≤ t1) (h12 : t1 ≤ t2) (h23 : t2 ≤ t3)
    (a : Aspect)
    (hev : Ev.aspect a ∈ (stepAtom cfg (runAtoms cfg s0
        (Atom.line t1 (.wss w1.1 w1.2) :: m1 ++ Atom.line t2 (.wss w2.1 w2.2) :: m2 ++
         Atom.line t3 (.wss w3.1 w3.2) :: m3)).1 (.line t4 (.wss w4.1 w4.2))).2) :
    w1 = w2 ∧ w2 = w3 ∧ w3 = w4 ∧ wssParityOk w4.1 = true ∧ a = wssAspect w4.1 w4.2 :=
  wss_needs_four cfg s0 w1 w2 w3 w4 t1 t2 t3 t4 m1 m2 m3 f1 f2 f3 h0 h12 h23 a hev

-- non-vacuity: the fourth identical valid word does raise ASPECT (16:9 = format 3, odd parity bit set)
example : (runAtoms cfg0 init [.line 1 (.wss 0x0B 0), .line 2 (.wss 0x0B 0), .line 3 (.wss 0x0B 0), .line 4 (.wss 0x0B 0)]).2
    = [Ev.aspect (wssAspect 0x0B 0), Ev.progInfo (wssAspect 0x0B 0)] := by decide

/-! ## no_reannounce_while_stable -/

/-- Right after a NETWORK_ID from the debounce nothing is pending on that carrier (`cycle = 2`). -/
theorem announcement_settles (cfg : Cfg) (c : Carrier) (v : Nat) (s : State) (n : Network)
    (h : Ev.networkId n ∈ (cniRx cfg c v s).2) : ¬ pending cfg c (cniRx cfg c v s).1 := by
  revert h
  apply cniRx_cases cfg c v s (fun r => Ev.networkId n ∈ r.2 → ¬ pending cfg c r.1)
  · intro _ h; simp at h
  · intro _ _ h; simp at h
  all_goals (intros; exact markDone_not_pending _ _ _ _)

/-- While nothing is pending (`n->cycle`, and in the per-carrier shape every `vbi->cni_cycle[c]`, differ from 1)
    and every reception (VPS, 8/30-1, 8/30-2, XDS name and call letters; WSS words
    and pages are free) equals what is stored, in any interleaving over any number of regular frames,
    neither NETWORK nor NETWORK_ID is raised, the network record stays as it is, the countdown stays idle, and a
    page cached at any point of the history is still cached at its end. -/
theorem no_reannounce_while_stable (cfg : Cfg) (n : Network) (mask : Nat) (hn : n.cycle ≠ 1)
    (atoms : List Atom) (s : State) (hnp : ∀ c, cfg.perCarrier = true → cycOf c s.deb ≠ 1)
    (h1 : s.net = n) (h2 : s.chswcd = 0) (h3 : s.mask = mask)
    (hreg : RegularFrom s.time atoms) (hq : ∀ a ∈ atoms, SameAsStored n mask a) :
    Silent (runAtoms cfg s atoms).2 ∧ (runAtoms cfg s atoms).1.net = n ∧ (runAtoms cfg s atoms).1.chswcd = 0 ∧
    (runAtoms cfg s atoms).1.mask = mask ∧
    (∀ q1 q2, atoms = q1 ++ q2 → (runAtoms cfg s q1).1.cached ⊆ (runAtoms cfg s atoms).1.cached) :=
  have r := stable_run cfg n s.deb mask hn hnp atoms s h1 rfl h2 h3 hreg hq
  ⟨r.1, r.2.1, r.2.2.1, r.2.2.2.1, r.2.2.2.2.1⟩

/-- WSS: an ASPECT event stores the announced aspect, and an event needs an aspect different from the stored
    one, so the same word arriving again cannot announce again. -/
theorem no_reannounce_aspect (s : State) (b0 b1 t : Nat) (a : Aspect) (h : Ev.aspect a ∈ (rxWss s b0 b1 t).2) :
    (rxWss s b0 b1 t).1.aspect = a ∧ ∀ t' a', Ev.aspect a' ∉ (rxWss (rxWss s b0 b1 t).1 b0 b1 t').2 := by
  have e := rxWss_event s b0 b1 t a h
  have st : (rxWss s b0 b1 t).1.aspect = a := by
    have nt : ¬ t < s.wssTime := by omega
    have hp : wssParityOk b0 = true := e.2.2.2.1
    have hr : ¬ s.wssRep + 1 < 3 := by omega
    have hne : ¬ wssAspect b0 b1 = s.aspect := by rw [← e.2.2.2.2.1]; exact e.2.2.2.2.2
    simp [rxWss, nt, e.2.1, hr, hp, hne, e.2.2.2.2.1]
  refine ⟨st, ?_⟩
  intro t' a' h'
  have e' := rxWss_event _ b0 b1 t' a' h'
  exact e'.2.2.2.2.2 (by rw [st, e'.2.2.2.2.1, e.2.2.2.2.1])

-- non-vacuity: a fifth and sixth identical word raise nothing more
example : (runAtoms cfg0 init [.line 1 (.wss 0x0B 0), .line 2 (.wss 0x0B 0), .line 3 (.wss 0x0B 0), .line 4 (.wss 0x0B 0),
    .line 5 (.wss 0x0B 0), .line 6 (.wss 0x0B 0)]).2.length = 2 := by decide

/-- enable_other_class_keeps_aspect: on a tree whose `vbi_event_enable` resets the programme info only when neither
    ASPECT nor PROG_INFO was enabled before (`keeps = true`; `Gen.Net.enableKeepsProgInfo`, read from vbi.c on every
    run): while a handler for ASPECT or PROG_INFO is registered, registering / changing / removing handlers with ANY
    mask - the other of the two bits, other event classes, everything at once - keeps the remembered aspect and its
    source and the WSS repeat state, so a WSS word that encodes the remembered aspect raises no ASPECT (and no
    PROG_INFO) event afterwards: the handler that has been told this aspect is not told again. -/
theorem enable_other_class_keeps_aspect (s : State) (m : Nat)
    (hon : hasBit s.mask (VBI_EVENT_ASPECT ||| VBI_EVENT_PROG_INFO) = true) :
    (eventEnable true s m).aspect = s.aspect ∧ (eventEnable true s m).aspectSource = s.aspectSource ∧
    (eventEnable true s m).wssLast = s.wssLast ∧ (eventEnable true s m).wssRep = s.wssRep ∧
    ∀ b0 b1 t, wssAspect b0 b1 = s.aspect → (rxWss (eventEnable true s m) b0 b1 t).2 = [] := by
  have ha : (eventEnable true s m).aspect = s.aspect := by
    simp only [eventEnable]
    repeat' split
    all_goals simp_all
  refine ⟨ha, ?_, ?_, ?_, ?_⟩
  · simp only [eventEnable]
    repeat' split
    all_goals simp_all
  · simp only [eventEnable]
    repeat' split
    all_goals simp_all
  · simp only [eventEnable]
    repeat' split
    all_goals simp_all
  · intro b0 b1 t hw
    simp only [rxWss]
    repeat' split
    all_goals first
      | rfl
      | (rename_i hne; rw [ha] at hne; exact absurd hw hne)

-- non-vacuity: an ASPECT handler exists after `mask 0x40`, and the hypothesis of the theorem holds for that state
example : hasBit (runAtoms cfgPlain init [.mask 0x40]).1.mask (VBI_EVENT_ASPECT ||| VBI_EVENT_PROG_INFO) = true := by decide

/-- 16:9 word with valid parity four times to an ASPECT-only handler (mask 0x40), then the handler is registered
    again with ASPECT | PROG_INFO (0xC0), then the same word once more -/
def aspectThenOtherBit : List Atom :=
  [.mask 0x40, .line 1 (.wss 0x0B 0), .line 2 (.wss 0x0B 0), .line 3 (.wss 0x0B 0), .line 4 (.wss 0x0B 0),
   .mask 0xC0, .line 5 (.wss 0x0B 0)]

/-- non-vacuity and the other shape (seeded change C13-g): with the inner test the fifth word raises nothing;
    without it (`enableKeepsInfo = false`) the unchanged aspect is announced a second time with identical values. -/
theorem enable_other_class_counterexample :
    (runAtoms { cfgPlain with enableKeepsInfo := true } init aspectThenOtherBit).2 =
      [Ev.aspect (wssAspect 0x0B 0), Ev.progInfo (wssAspect 0x0B 0)] ∧
    (runAtoms { cfgPlain with enableKeepsInfo := false } init aspectThenOtherBit).2 =
      [Ev.aspect (wssAspect 0x0B 0), Ev.progInfo (wssAspect 0x0B 0), Ev.aspect (wssAspect 0x0B 0), Ev.progInfo (wssAspect 0x0B 0)] := by
  decide

/-! ## single_glitch_harmless -/

/-- Either shape.  Interleaved carriers, with the hypothesis the shared `cycle` variable forces (`ids_agree`; for the
    per-carrier shape see `single_glitch_harmless_per_carrier`, which needs no such hypothesis):
    the station transmits `st c` on carrier `c` and every carrier that is received with its station value
    (`ok c`) resolves to the one id `id`.  The decoder has identified the station (`nuid = id`), no countdown
    runs, and each carrier's stored value is the station's or a deviating value recorded in `lg`.  Then over
    ANY regularly timed history of VPS / 8/30 / WSS / page lines in ANY interleaving, in which deviating
    words may occur on any carrier any number of times as long as the same wrong value never comes twice
    in a row on one carrier, no NETWORK event is raised, no cached page is lost and the station stays
    identified.  A single deviating word between identical ones is the special case. -/
theorem single_glitch_harmless (cfg : Cfg) (st : Carrier → Nat) (ok : Carrier → Bool) (id mask : Nat)
    (ids_agree : ∀ c, ok c = true → (cfg.lk c (st c)).1 = id)
    (atoms : List Atom) (s : State) (lg : Carrier → Option Nat)
    (hid : s.net.nuid = id) (hcd : s.chswcd = 0) (hm : s.mask = mask)
    (hst : ∀ c, cniOf c s.net = st c ∨ lg c = some (cniOf c s.net))
    (hreg : RegularFrom s.time atoms) (hg : NoRepeatedGlitch st ok mask lg atoms) :
    NoNetwork (runAtoms cfg s atoms).2 ∧ s.cached ⊆ (runAtoms cfg s atoms).1.cached ∧
    (runAtoms cfg s atoms).1.net.nuid = id :=
  glitch_run cfg st ok id mask ids_agree atoms s lg ⟨hid, hcd, hm, hst⟩ hreg hg

/-- FULL strength, for every tree with the repair of F11 (`cfg.perCarrier = true`: one repeat cycle and one
    "CNI announced last" per carrier): NO hypothesis about ids.  The station transmits `st c` on carrier `c`; every
    carrier has announced that value or never had to (`annOf c = st c`: 0 for a carrier that sends nothing), a repeat
    is awaited only on carriers whose stored value is a deviating word, no countdown runs.  Then over ANY regularly
    timed history of VPS / 8/30 / WSS / page lines in ANY interleaving, with any number of deviating words on any
    carriers (never the same wrong value twice in a row on one carrier): neither NETWORK nor NETWORK_ID is raised,
    no cached page is lost, and the identification (whatever it is, 0 included) stays. -/
theorem single_glitch_harmless_per_carrier (cfg : Cfg) (hp : cfg.perCarrier = true) (st : Carrier → Nat) (mask : Nat)
    (atoms : List Atom) (s : State) (lg : Carrier → Option Nat)
    (hcd : s.chswcd = 0) (hm : s.mask = mask)
    (hst : ∀ c, cniOf c s.net = st c ∨ lg c = some (cniOf c s.net))
    (hann : ∀ c, annOf c s.deb = st c) (hpend : ∀ c, pending cfg c s → cniOf c s.net ≠ st c)
    (hreg : RegularFrom s.time atoms) (hg : NoRepeatedGlitch st (fun _ => true) mask lg atoms) :
    Silent (runAtoms cfg s atoms).2 ∧ s.cached ⊆ (runAtoms cfg s atoms).1.cached ∧
    (runAtoms cfg s atoms).1.net.nuid = s.net.nuid :=
  glitch_run_per cfg hp st s.net.nuid mask atoms s lg ⟨rfl, hcd, hm, hst, hann, hpend⟩ hreg hg

/-- the demonstration table: VPS 0x0AC1 is station 193, nothing else is known (so 8/30-1 CNI 0 has id 0) -/
def lkDemo : Lookup := fun c v => if c = .vps ∧ v = 0x0AC1 then (193, [79, 82, 70]) else (0, [])
def cfgDemo : Cfg := { lk := lkDemo, xdsGuard := false }
def vpsA : Line := .vps [0,0,0,0,0,0,0,0,0xC0,0xD1,0x5A,0x81,0]     -- CNI 0x0AC1
def vpsG : Line := .vps [0,0,0,0,0,0,0,0,0xC0,0x00,0x02,0x83,0]     -- CNI 0x0AC3, the deviating word
/-- 8/30 format 1, CNI 0 -/
def p8301Zero : Line := .ttx [0x15,0xEA,0x15,0xEA,0xEA,0xEA,0x2F,0xEA,0x5E,0x00,0x00,0x85,0x26,0x98,0x65,0x23,0x11,0x11,
  0x20,0x20,0x20,0x20,0x20,0x20,0x20,0x20,0x20,0x20,0x20,0x20,0x20,0x20,0x20,0x20,0x20,0x20,0x20,0x20,0x20,0x20,0x20,0x20]
/-- VPS received twice (station 193 announced), then VPS and 8/30-1 alternating, one page cached -/
def establishF11 : List Atom :=
  [.mask 3534, .tick 1000000, .line 1000000 vpsA, .tick 1040000, .line 1040000 vpsA,
   .tick 1080000, .line 1080000 p8301Zero, .tick 1120000, .line 1120000 p8301Zero,
   .tick 1160000, .line 1160000 vpsA, .tick 1200000, .line 1200000 p8301Zero,
   .tick 1240000, .line 1240000 (.page 0x100)]

/-- The excluded point (F11) in the shared-cycle shape (`cfgDemo.perCarrier = false`): the two carriers resolve to
    different ids (193 and 0).  After the station is
    identified and a page cached, ONE deviating VPS word followed by the unchanged 8/30-1 packet raises
    NETWORK (twice) and empties the cache.  The same history is `corpus/C13/F11-vps-glitch-flushes-cache.ops`
    on the real code with the real table. -/
theorem single_glitch_interleaved_counterexample :
    cfgDemo.perCarrier = false ∧
    (cfgDemo.lk .vps 0x0AC1).1 ≠ (cfgDemo.lk .p8301 0).1 ∧
    (runAtoms cfgDemo init establishF11).1.net.nuid = 193 ∧
    (runAtoms cfgDemo init establishF11).1.cached = [0x100] ∧
    (runAtoms cfgDemo init establishF11).1.net.cycle = 2 ∧
    countNetwork (runAtoms cfgDemo (runAtoms cfgDemo init establishF11).1
      [.tick 1280000, .line 1280000 vpsG, .tick 1320000, .line 1320000 p8301Zero]).2 = 2 ∧
    (runAtoms cfgDemo (runAtoms cfgDemo init establishF11).1
      [.tick 1280000, .line 1280000 vpsG, .tick 1320000, .line 1320000 p8301Zero]).1.cached = [] := by
  decide

/-- the same table and history in the per-carrier shape (with either shape of the `vbi_chsw_reset` call) -/
def cfgDemoPer (ident : Bool) : Cfg := { cfgDemo with perCarrier := true, chswIdent := ident }

/-- The witness of F11 is harmless in the per-carrier shape: same establishing history, same deviating VPS word,
    same unchanged 8/30-1 packet, then the station's VPS word again twice: neither NETWORK nor NETWORK_ID, the page stays
    cached, station 193 stays identified; and the state after the establishing history satisfies the hypotheses
    of `single_glitch_harmless_per_carrier` (non-vacuity of that theorem on the very history that breaks the
    shared-cycle shape). -/
theorem single_glitch_interleaved_per_carrier (ident : Bool) :
    let s := (runAtoms (cfgDemoPer ident) init establishF11).1
    let st : Carrier → Nat := fun c => if c = .vps then 0x0AC1 else 0
    s.net.nuid = 193 ∧ s.cached = [0x100] ∧ s.chswcd = 0 ∧
    (∀ c, cniOf c s.net = st c) ∧ (∀ c, annOf c s.deb = st c) ∧ (∀ c, ¬ pending (cfgDemoPer ident) c s) ∧
    (runAtoms (cfgDemoPer ident) s
      [.tick 1280000, .line 1280000 vpsG, .tick 1320000, .line 1320000 p8301Zero,
       .tick 1360000, .line 1360000 vpsA, .tick 1400000, .line 1400000 vpsA]).2.all
        (fun e => !e.isNetwork && !e.isNetworkId) = true ∧
    (runAtoms (cfgDemoPer ident) s
      [.tick 1280000, .line 1280000 vpsG, .tick 1320000, .line 1320000 p8301Zero,
       .tick 1360000, .line 1360000 vpsA, .tick 1400000, .line 1400000 vpsA]).1.cached = [0x100] := by
  cases ident <;>
  · refine ⟨by decide, by decide, by decide, ?_, ?_, ?_, by decide, by decide⟩
    · intro c; cases c <;> decide
    · intro c; cases c <;> decide
    · intro c; cases c <;> decide

/-- XDS, current code (no comparison of the new id with `n->nuid`): station announced, one deviating name,
    the name again twice: NETWORK is raised for the unchanged station and the cache emptied (F18). -/
theorem single_glitch_xds_counterexample :
    let est := (runAtoms { cfgDemo with xdsGuard := false } init
      [.mask 3534, .line 0 (.xds 1 [75, 81]), .line 0 (.xds 1 [75, 81]), .line 0 (.page 0x100)]).1
    est.cached = [0x100] ∧ est.net.nuid = xdsNuid [75, 81] ∧
    countNetwork (runAtoms { cfgDemo with xdsGuard := false } est
      [.line 0 (.xds 1 [75, 63]), .line 0 (.xds 1 [75, 81]), .line 0 (.xds 1 [75, 81])]).2 = 1 ∧
    (runAtoms { cfgDemo with xdsGuard := false } est
      [.line 0 (.xds 1 [75, 63]), .line 0 (.xds 1 [75, 81]), .line 0 (.xds 1 [75, 81])]).1.cached = [] := by
  decide

/-- XDS with the comparison in place (`xdsGuard = true`, fixes/xds-name-reannounce.diff): a name packet that
    yields the id of the identified station raises no NETWORK event and keeps the cache, whatever happened
    before. -/
theorem single_glitch_harmless_xds_with_guard (s : State) (bytes : List Nat)
    (hid : xdsNuid (if s.net.call ≠ [] then s.net.call else (xdsStrfu s.net.name bytes).1) = s.net.nuid) :
    NoNetwork (rxXds true s 1 bytes).2 ∧ (rxXds true s 1 bytes).1.cached = s.cached ∧
    (rxXds true s 1 bytes).1.net.nuid = s.net.nuid :=
  rxXds_guarded_same s bytes hid

/-- which of the two XDS shapes the current tree has (extracted by translate/gen_net.py) -/
theorem xds_guard_of_this_tree : cfg0.xdsGuard = xdsNuidGuard := rfl

/-- which shapes of F11 / F35 the tree under test has (extracted by translate/gen_netflags.py on every run): the
    configuration the driver runs, and the correspondence check compares with the real code, carries exactly
    these two flags -/
theorem cfg_of_this_tree :
    cfg0.perCarrier = Zvbi.Gen.Net.cniCyclePerCarrier ∧ cfg0.chswIdent = Zvbi.Gen.Net.chswCallersIdentified := ⟨rfl, rfl⟩

-- non-vacuity of `single_glitch_harmless`: same history as the counterexample, but the 8/30-1 packet is absent
-- from the `ok` carriers' disagreement because the table knows its code too
example : NoRepeatedGlitch (fun c => if c = .vps then 0x0AC1 else 0) (fun c => c == .vps) 3534 (fun c => if c = .vps then none else some 0)
    [.tick 1280000, .line 1280000 vpsG, .tick 1320000, .line 1320000 vpsA, .tick 1360000, .line 1360000 vpsA] := by
  simp [NoRepeatedGlitch, lineCni, vpsG, vpsA, decodeVpsCni, bt]

/-! ## station_change_exactly_one_event_and_flush -/

/-- The reception that makes the decoder adopt a different station (value already stored once with a change
    pending, new id not the old one, old station identified) raises exactly one NETWORK event, carrying the new id
    and the received CNI, empties the page cache (the `vbi->cn` of the old station is dropped: C10
    `chsw_unreachable`), and leaves nothing pending on that carrier.  The new station must be known to the table
    (`id ≠ 0`) on a tree without the repair of F35; with it (`cfg.chswIdent = true`) ANY CNI will do
    (`station_change_to_unknown_exactly_one_event`). -/
theorem station_change_exactly_one_event_and_flush (cfg : Cfg) (t : Nat) (s : State) (l : Line) (c : Carrier) (v : Nat)
    (h : lineCni s.mask l = some (c, v)) (hst : v = cniOf c s.net) (hcy : pending cfg c s)
    (hid : (cfg.lk c v).1 ≠ s.net.nuid) (hold : s.net.nuid ≠ 0) (hnew : cfg.chswIdent = true ∨ (cfg.lk c v).1 ≠ 0) :
    countNetwork (rxLine cfg t s l).2 = 1 ∧
    (∀ n, Ev.network n ∈ (rxLine cfg t s l).2 → n.nuid = (cfg.lk c v).1 ∧ cniOf c n = v) ∧
    (rxLine cfg t s l).1.cached = [] ∧ (rxLine cfg t s l).1.net.nuid = (cfg.lk c v).1 ∧
    cniOf c (rxLine cfg t s l).1.net = v ∧
    ¬ pending cfg c (rxLine cfg t s l).1 := by
  have k := rxLine_cniStep cfg t s l (lineCni_some_kind _ _ _ h)
  have kd := rxLine_cniStep_deb cfg t s l (lineCni_some_kind _ _ _ h)
  obtain ⟨extra, hev, hex⟩ := k.2.2.2.2.2.2.2.2
  have f := cniRx_switch_facts cfg c v s hst hcy hid hold hnew
  rw [pending_congr cfg c _ _ k.1 kd]
  rw [hev, k.1, k.2.1, h]
  simp only [cniStep]
  refine ⟨?_, ?_, f.2.2.1, f.2.2.2.1, f.2.2.2.2.2, f.2.2.2.2.1⟩
  · rw [countNetwork_append, f.1, countNetwork_extra extra hex]
  · intro n hn
    exact f.2.1 n (mem_extra_of_network hex n (Or.inl hn))

/-- station_change_exactly_one_event at FULL strength, the CNI-missing-from-the-table case included, for every tree
    with the repair of F35 (`cfg.chswIdent = true`): an identified station replaced by ANY other CNI - known to the
    table or not - raises exactly ONE NETWORK event; it and the NETWORK_ID that follows carry the received CNI and the
    table's answer (id 0 and an empty name for an unknown one), the cache is emptied, the CNI stays stored and
    nothing is pending, so it is not announced a second time. -/
theorem station_change_to_unknown_exactly_one_event (cfg : Cfg) (hI : cfg.chswIdent = true)
    (t : Nat) (s : State) (l : Line) (c : Carrier) (v : Nat)
    (h : lineCni s.mask l = some (c, v)) (hst : v = cniOf c s.net) (hcy : pending cfg c s)
    (hid : (cfg.lk c v).1 ≠ s.net.nuid) (hold : s.net.nuid ≠ 0) :
    countNetwork (rxLine cfg t s l).2 = 1 ∧
    (∀ n, (Ev.network n ∈ (rxLine cfg t s l).2 ∨ Ev.networkId n ∈ (rxLine cfg t s l).2) →
      n.nuid = (cfg.lk c v).1 ∧ cniOf c n = v ∧ n.name = lkName cfg c v) ∧
    (rxLine cfg t s l).1.cached = [] ∧ (rxLine cfg t s l).1.net.nuid = (cfg.lk c v).1 ∧
    cniOf c (rxLine cfg t s l).1.net = v ∧ ¬ pending cfg c (rxLine cfg t s l).1 := by
  have q := station_change_exactly_one_event_and_flush cfg t s l c v h hst hcy hid hold (Or.inl hI)
  refine ⟨q.1, ?_, q.2.2.1, q.2.2.2.1, q.2.2.2.2.1, q.2.2.2.2.2⟩
  intro n hn
  have e := event_values_faithful cfg t s l c v h (Or.inl hI) n hn
  exact ⟨e.2.1, e.1, e.2.2.1⟩

-- non-vacuity of `station_change_to_unknown_exactly_one_event` and of `event_values_unknown_station_counterexample`: station
-- 193 identified and a page cached, then the VPS code 0x0AC3, which the demonstration table does not know, twice.
-- Callers pass "identified": ONE more NETWORK event, it and the NETWORK_ID carry the received code, the code stays stored.
-- Callers pass the id 0: TWO more NETWORK events, all of zeros, NETWORK_ID of zeros, the stored code is wiped.
example :
    let r := runAtoms { cfgDemo with chswIdent := true } init
      [.mask 3534, .line 0 vpsA, .line 0 vpsA, .line 0 (.page 0x100), .line 0 vpsG, .line 0 vpsG]
    countNetwork r.2 = 2 ∧ r.1.cached = [] ∧ r.1.net.nuid = 0 ∧ r.1.net.cniVps = 0x0AC3 ∧
    Ev.network { cniVps := 0x0AC3, cycle := 1 } ∈ r.2 ∧ Ev.networkId { cniVps := 0x0AC3, cycle := 1 } ∈ r.2 := by decide
example :
    let r := runAtoms cfgDemo init
      [.mask 3534, .line 0 vpsA, .line 0 vpsA, .line 0 (.page 0x100), .line 0 vpsG, .line 0 vpsG]
    cfgDemo.chswIdent = false ∧ countNetwork r.2 = 3 ∧ r.1.cached = [] ∧ r.1.net.cniVps = 0 ∧ Ev.networkId {} ∈ r.2 := by decide

/-- From ANY state: a new CNI `b` received twice in a row on carrier `c` (whatever was stored before) while a
    different station was identified (new one known to the table, or any CNI with the repair of F35): over the two
    lines together exactly one NETWORK event, the cache is empty afterwards and the new station is identified.
    Per-carrier shape: `b` is not the value this carrier announced last (`hper`; true in every state the decoder
    reaches by announcing what it stores - a carrier returning to its announced value is a glitch that is over). -/
theorem station_change_two_receptions (cfg : Cfg) (t1 t2 : Nat) (s : State) (l1 l2 : Line) (c : Carrier) (b : Nat)
    (h1 : lineCni s.mask l1 = some (c, b)) (h2 : lineCni s.mask l2 = some (c, b)) (hb : b ≠ cniOf c s.net)
    (hid : (cfg.lk c b).1 ≠ s.net.nuid) (hold : s.net.nuid ≠ 0) (hnew : cfg.chswIdent = true ∨ (cfg.lk c b).1 ≠ 0)
    (hper : cfg.perCarrier = true → b ≠ annOf c s.deb) :
    countNetwork (runAtoms cfg s [.line t1 l1, .line t2 l2]).2 = 1 ∧
    (runAtoms cfg s [.line t1 l1, .line t2 l2]).1.cached = [] ∧
    (runAtoms cfg s [.line t1 l1, .line t2 l2]).1.net.nuid = (cfg.lk c b).1 := by
  have k := rxLine_cniStep cfg t1 s l1 (lineCni_some_kind _ _ _ h1)
  have kd := rxLine_cniStep_deb cfg t1 s l1 (lineCni_some_kind _ _ _ h1)
  obtain ⟨extra, hev, hex⟩ := k.2.2.2.2.2.2.2.2
  rw [h1] at k hev kd
  simp only [cniStep, cniRx_change cfg c b s hb] at k hev kd
  have hnet : (rxLine cfg t1 s l1).1.net = (markChange cfg c b s).net := k.1
  have hm : (rxLine cfg t1 s l1).1.mask = s.mask := k.2.2.2.1
  have hpend : pending cfg c (rxLine cfg t1 s l1).1 := by
    rw [pending_congr cfg c _ _ hnet kd, markChange_pending_self]
    cases hp : cfg.perCarrier
    · exact Or.inl rfl
    · exact Or.inr (hper hp)
  have q := station_change_exactly_one_event_and_flush cfg t2 (rxLine cfg t1 s l1).1 l2 c b (by rw [hm]; exact h2)
    (by rw [hnet, markChange_cniOf_self])
    hpend
    (by rw [hnet, markChange_nuid]; exact hid)
    (by rw [hnet, markChange_nuid]; exact hold) hnew
  simp only [runAtoms, stepAtom, List.append_nil]
  refine ⟨?_, q.2.2.1, q.2.2.2.1⟩
  rw [countNetwork_append, q.1, hev, countNetwork_append, countNetwork_extra extra hex]
  rfl

/-- Invariant of the channel-switch countdown: `vbi_chsw_reset` leaves it idle, whoever called it and with
    whatever id (vbi.c:553-557) - so no reset is ever followed by a second one 40 frames later. -/
theorem countdown_idle_after_reset (s : State) (id : Nat) : (chswReset s id).1.chswcd = 0 := chswReset_idle s id

/-- The line that replaces an identified station by another known one leaves the countdown idle, even if a
    time-stamp gap had armed it before. -/
theorem countdown_idle_after_station_change (cfg : Cfg) (c : Carrier) (v : Nat) (s : State) (h : v = cniOf c s.net)
    (h2 : pending cfg c s) (h3 : (cfg.lk c v).1 ≠ s.net.nuid) (h4 : s.net.nuid ≠ 0)
    (h5 : cfg.chswIdent = true ∨ (cfg.lk c v).1 ≠ 0) :
    (cniRx cfg c v s).1.chswcd = 0 := by
  rw [cniRx_switch cfg c v s h h2 h3 h4 h5, markDone_chswcd]

/-- Histories with gaps.  From a state with an identified station and a countdown that is idle or has at
    least three frames to go: a tick with ANY time stamp (a gap arms the 40-frame countdown), the new CNI
    `b`, a tick with any time stamp, `b` again (id different from the old one; known to the table, or any CNI with
    the repair of F35), then any regular history in which every reception equals what is now stored.  In the
    per-carrier shape "nothing else is pending" is a hypothesis (`hper`: `b` is not what this carrier announced
    last, no XDS name and no other carrier awaits its repeat); the shared cycle made that automatic.  Over the whole history exactly ONE NETWORK
    event; the change empties the cache and cancels the countdown; afterwards the countdown stays idle (no
    second reset when the 40 frames are over), the new station stays identified, and every page cached for
    the new station at any point stays cached. -/
theorem station_change_exactly_one_event_and_flush_over_gap (cfg : Cfg) (s : State) (t0 t1 : Nat) (l1 l2 : Line)
    (c : Carrier) (b : Nat) (quiet : List Atom) (hcd : s.chswcd = 0 ∨ 3 ≤ s.chswcd)
    (h1 : lineCni s.mask l1 = some (c, b)) (h2 : lineCni s.mask l2 = some (c, b)) (hb : b ≠ cniOf c s.net)
    (hid : (cfg.lk c b).1 ≠ s.net.nuid) (hold : s.net.nuid ≠ 0) (hnew : cfg.chswIdent = true ∨ (cfg.lk c b).1 ≠ 0)
    (hper : cfg.perCarrier = true → b ≠ annOf c s.deb ∧ s.net.cycle ≠ 1 ∧ ∀ c', c' ≠ c → cycOf c' s.deb ≠ 1)
    (hreg : RegularFrom (runAtoms cfg s [.tick t0, .line t0 l1, .tick t1, .line t1 l2]).1.time quiet)
    (hq : ∀ a ∈ quiet, SameAsStored (runAtoms cfg s [.tick t0, .line t0 l1, .tick t1, .line t1 l2]).1.net s.mask a) :
    countNetwork (runAtoms cfg s ([.tick t0, .line t0 l1, .tick t1, .line t1 l2] ++ quiet)).2 = 1 ∧
    (runAtoms cfg s [.tick t0, .line t0 l1, .tick t1, .line t1 l2]).1.cached = [] ∧
    (runAtoms cfg s [.tick t0, .line t0 l1, .tick t1, .line t1 l2]).1.chswcd = 0 ∧
    (runAtoms cfg s ([.tick t0, .line t0 l1, .tick t1, .line t1 l2] ++ quiet)).1.net.nuid = (cfg.lk c b).1 ∧
    (runAtoms cfg s ([.tick t0, .line t0 l1, .tick t1, .line t1 l2] ++ quiet)).1.chswcd = 0 ∧
    (∀ q1 q2, quiet = q1 ++ q2 →
      (runAtoms cfg s ([.tick t0, .line t0 l1, .tick t1, .line t1 l2] ++ q1)).1.cached ⊆
      (runAtoms cfg s ([.tick t0, .line t0 l1, .tick t1, .line t1 l2] ++ quiet)).1.cached) :=
  change_over_gap cfg s t0 t1 l1 l2 c b quiet hcd h1 h2 hb hid hold hnew hper hreg hq

/-- 42 regular frames repeating the new station's VPS word, starting 40 ms after `t` -/
def quietVps (l : Line) : Nat → Nat → List Atom
  | 0, _ => []
  | n + 1, t => .tick (t + 40000) :: .line (t + 40000) l :: quietVps l n (t + 40000)

-- non-vacuity of the gap theorem: station 193, a 2 s gap, station 195 twice, a page, 42 quiet frames:
-- one NETWORK event in all, countdown idle, the page still cached
example :
    let lk : Lookup := fun _ v => if v = 0x0AC1 then (193, [65]) else if v = 0x0AC3 then (195, [66]) else (0, [])
    let cfg : Cfg := { lk := lk, xdsGuard := true }
    let s := (runAtoms cfg init [.mask 3534, .tick 1000000, .line 1000000 vpsA, .tick 1040000, .line 1040000 vpsA]).1
    let r := runAtoms cfg s ([.tick 3000000, .line 3000000 vpsG, .tick 3040000, .line 3040000 vpsG] ++
                              (.tick 3080000 :: .line 3080000 (.page 0x234) :: quietVps vpsG 42 3080000))
    s.net.nuid = 193 ∧ countNetwork r.2 = 1 ∧ r.1.chswcd = 0 ∧ r.1.cached = [0x234] ∧ r.1.net.nuid = 195 := by decide

/-- The hypothesis "old station identified" is needed.  Observation on the countdown's design (not a defect of
    the debounce): when NO station was identified before the gap, identifying the new one does not call
    `vbi_chsw_reset`, the countdown keeps running and 40 frames later the decoder resets anyway: NETWORK (nuid 0),
    cache dropped, station announced again.  Same history on the real code:
    `corpus/C13/gap-unidentified-countdown-fires.ops`. -/
theorem station_identified_during_countdown_observation :
    let lk : Lookup := fun _ v => if v = 0x0AC1 then (193, [65]) else (0, [])
    let cfg : Cfg := { lk := lk, xdsGuard := true }
    let r := runAtoms cfg init ([.mask 3534, .tick 1000000, .tick 1040000, .tick 3000000, .line 3000000 vpsA,
                                 .tick 3040000, .line 3040000 vpsA, .tick 3080000, .line 3080000 (.page 0x234)] ++
                                quietVps vpsA 40 3080000)
    countNetwork r.2 = 3 ∧ r.1.cached = [] ∧ r.1.net.nuid = 193 := by decide

-- non-vacuity: station 193 identified, then another known station received twice: one NETWORK event, cache empty
example :
    let lk : Lookup := fun _ v => if v = 0x0AC1 then (193, [65]) else if v = 0x0AC3 then (195, [66]) else (0, [])
    let r := runAtoms { lk := lk, xdsGuard := false } init
      [.mask 3534, .line 0 vpsA, .line 0 vpsA, .line 0 (.page 0x100), .line 0 vpsG, .line 0 vpsG]
    countNetwork r.2 = 2 ∧ r.1.cached = [] ∧ r.1.net.nuid = 195 := by decide

end Zvbi.Props.C13
