import ZvbiModel.Props.C03
import ZvbiModel.Props.C10
import ZvbiModel.Props.C10Ttx
import ZvbiModel.Props.C03Cache
import ZvbiModel.Ttx.CacheTrace
/-!
# C03 x C10, part 5 - the whole-history half of "the decoder's page list is refined by the cache.c model"

`Props/C10Ttx.lean` joins the two models for ONE operation: if the retrievable entries of network `nid` in a
state of the cache.c model (C10, `Zvbi.Cache`) are the most recently used page list `Net.cache` of the Teletext
decoder model (C03, `Zvbi.Ttx`) - relation `C10Ttx.Sim` -, then after a look-up / a store performed on both
sides they still are (`sim_get`, `sim_put`).  What was missing: that the decoder's list changes in NO other way.

1. `cache_evolves_by_cache_operations`: over EVERY history of packets the decoder's list is the empty list with
   a sequence of the three operations of the cache interface applied (`CacheOp`: `.get` = `_vbi_cache_get_page`,
   `.put` = `_vbi_cache_put_page`, `.clear` = `vbi_chsw_reset` recycling the network), every store being one that
   the history announces by an `Event.put`; with `C03.no_foreign_page_number` every stored page carries numbers
   of an accepted header of the history (`stored_pages_carry_transmitted_numbers`).
   Proved branch by branch through `vbi_decode_teletext` / `vbi_decode` (`Ttx/CacheTrace.lean`: `Reach`,
   `run_reach`; every table parser - MPT, MPT-EX, BTT, MIP, `vbi_convert_page`, the header branch - is shown to
   perform look-ups only, `Looks`).
2. `cache_operations_are_simulated`: each of the three operations, applied on the decoder side, against the
   corresponding call of the cache.c model of the current source, keeps `Sim` (`.get`: unconditionally;
   `.put`: under the side conditions of `C10Ttx.sim_put_current`; `.clear`: `vbi_chsw_reset`, after which the
   decoder holds the network handed out by `_vbi_cache_add_network` (a new or the recycled record), which has no
   page - `C10.chsw_unreachable`).

## What is still missing for an unconditional whole-history refinement theorem

`ttx_refined_by_cache_full` below states it (an unproved `def`, checked on one concrete history only): run next
to the decoder a cache.c state on which every operation of the decoder's trace is mirrored by the calls the
decoder makes (`mirrorOp`); then `Sim` holds after every history.  1. and 2. reduce it to discharging, ALONG the
history, the side conditions of the store (`sim_put_current`) - a joint invariant of both models:

* memory never short (`memUsed + pageSize .. <= memLimit`; the limit is 2^30 in the C code): when it is short
  cache.c deletes pages of its choice, which the decoder's list (it never evicts) does not follow.  Needs a bound
  on the total size of what the decoder can have stored (at most 0x800 page numbers, a bounded number of
  versions per key class) - not analysed, hence the full statement could even be false for exotic histories;
* the network is found (`findNet nid = some cn`) and the page number of every store is in 0x100..0x8FF
  (decoder side: `mag8 * 256 + page`; follows from `AsmOk`-style invariants, not yet stated for this purpose);
* the page type the decoder passes (its `Net.stat`) is the `page_type` in the statistics of the cache.c model
  (its own `Net.stat`): in C it is the same memory (`cn->_pages[]`), the two models keep separate copies - the
  decoder trace `CacheOp` would have to carry the statistics writes as well (`mirrorOp` forces the type with
  an `Op.ptype` before each store instead);
* references: `sim_get` / `sim_put` are stated for states reachable from `init` by `Op`s; the decoder releases
  every page right after use (`cache_page_unref`), so the mirrored history interleaves `unref`s - `Sim` is about
  retrievable entries and is not disturbed by them as long as memory is not short (no lemma yet).

Property theorems only (models `ZvbiModel/Ttx/Model.lean`, `ZvbiModel/Cache/Model.lean`).
-/
namespace Zvbi.Props.C03Join
open Zvbi.Ttx Zvbi.Ttx.Spec Zvbi.Hamm Zvbi.Gen Zvbi.Gen.Cache

/-! ## 1. the whole history -/

/-- Over every history of packets (any bytes whatever, decoder with or without a Teletext handler) the page list
    the decoder holds afterwards is the EMPTY list to which a sequence `ops` of cache interface operations was
    applied, one after the other - look-up with move to front (`.get`), store with the page type of the
    statistics (`.put`), deletion of all pages at a channel switch (`.clear`) - and nothing else ever touches
    the list: not the page statistics, the magazine records, the table parsers, refused packets.  Every store in
    `ops` is of a page which the history announced with an `Event.put` (the model's record of a
    `_vbi_cache_put_page` call), and hence (`C03.no_foreign_page_number`) of a page whose number and sub-code
    the decoder computed from an accepted header packet of this very history. -/
theorem cache_evolves_by_cache_operations (on : Bool) (ps : List Packet) :
    ∃ ops : List CacheOp,
      (run (init.enable on) ps).1.net.cache = ops.foldl applyOp [] ∧
      ∀ pt p, CacheOp.put pt p ∈ ops →
        Event.put p ∈ (run (init.enable on) ps).2 ∧ ∃ pk, pk ∈ ps ∧ ∃ m, hdrKey pk = some (m, p.pgno, p.subno) := by
  obtain ⟨ops, h1, h2⟩ := run_reach (init.enable on) ps
  have h0 : (init.enable on).net.cache = [] := by cases on <;> rfl
  rw [h0] at h1
  exact ⟨ops, h1, fun pt p hp => ⟨h2 pt p hp, C03.no_foreign_page_number on ps p (h2 pt p hp)⟩⟩

/-- non-vacuity: the two-header history of `C03Cache` (header of page 123 / 2359, then a header of page 120 of
    the same magazine): the trace is look-up of 123, store of the terminated page 123 with page type 1
    (`PT_NORMAL`, set by `store_lop` just before), look-up of 120 - three operations, one of them a store, and the
    page stored is the one in the `Event.put` of the history. -/
example :
    let r := run (init.enable true) [C03.f21Tx, C03.f21Tx.set 2 21]
    let p := (r.2.filterMap fun e => match e with | Event.put q => some q | _ => none).getD 0 Page.zero
    r.1.net.cache = [CacheOp.get 0x123 0x2359 0xFFFFFFFF, .put 1 p, .get 0x120 0x2359 0xFFFFFFFF].foldl applyOp []
    ∧ r.2.contains (Event.put p) = true ∧ p.pgno = 0x123 ∧ r.1.net.cache.length = 1 := by
  decide +kernel

/-- Corollary in terms of the list alone: whatever sequence of cache operations produced the decoder's page
    list over a history - there is one, and in it every page handed to `_vbi_cache_put_page` carries a page
    number and sub-code computed from an accepted header of that history; no store of any other page
    contributes to the list. -/
theorem stored_pages_carry_transmitted_numbers (on : Bool) (ps : List Packet) :
    ∃ ops : List CacheOp,
      (run (init.enable on) ps).1.net.cache = ops.foldl applyOp [] ∧
      ∀ pt p, CacheOp.put pt p ∈ ops → ∃ pk, pk ∈ ps ∧ ∃ m, hdrKey pk = some (m, p.pgno, p.subno) := by
  obtain ⟨ops, h1, h2⟩ := cache_evolves_by_cache_operations on ps
  exact ⟨ops, h1, fun pt p hp => (h2 pt p hp).2⟩

/-- non-vacuity: the header that accounts for the store of the example above -/
example : hdrKey C03.f21Tx = some (1, 0x123, 0x2359)
    ∧ ((run (init.enable true) [C03.f21Tx, C03.f21Tx.set 2 21]).2.any
        fun e => match e with | Event.put q => q.pgno == 0x123 && q.subno == 0x2359 | _ => false) = true := by
  decide +kernel

/-! ## 2. each operation is simulated by the cache.c model -/

/-- Let the retrievable entries of network `nid` in a reachable state of the cache.c model (current source) be
    the decoder's page list `c` (`C10Ttx.Sim`; `enc` abstracts the page content).  Then for each of the three
    operations by which (theorem 1) the decoder's list evolves, the list after the operation is again what the
    cache.c model holds after the corresponding call:
    * `.get`: `_vbi_cache_get_page (ca, cn, pgno, subno, mask)` - any arguments, also page numbers the cache
      refuses (both sides then answer "not cached" and change nothing); both sides hand out the same page;
    * `.put` with the page type `cn.getStat p.pgno` of the cache.c statistics: `_vbi_cache_put_page`, provided
      the network exists, the page number is in 0x100..0x8FF, memory is not short and the call succeeds; a
      page number `xFF` is refused by both sides (nothing changes);
    * `.clear`: `vbi_chsw_reset` (`Op.chsw nid`: the old network is released, `_vbi_cache_add_network` hands out
      `nid'`, a new or the recycled record); the decoder continues on `nid'`, whose set of retrievable entries is
      empty like the decoder's list. -/
theorem cache_operations_are_simulated (ops : List Zvbi.Cache.Op) (nid : Nat) (enc : Page → Nat) (c : List Page)
    (hsim : C10Ttx.Sim nid enc c (Zvbi.Cache.runF putReplacesAllVersions Zvbi.Cache.init ops)) :
    (∀ pgno subno mask : Nat,
      C10Ttx.Sim nid enc (applyOp c (.get pgno subno mask))
        ((Zvbi.Cache.runF putReplacesAllVersions Zvbi.Cache.init ops).getPage nid pgno subno mask).1
      ∧ ((Zvbi.Cache.runF putReplacesAllVersions Zvbi.Cache.init ops).getPage nid pgno subno mask).2.map
          Zvbi.Cache.Page.entry = (cacheGet c pgno subno mask).map (fun r => Zvbi.Cache.tentry nid enc r.1))
    ∧ (∀ cn, (Zvbi.Cache.runF putReplacesAllVersions Zvbi.Cache.init ops).findNet nid = some cn →
        ∀ p : Page, 0x100 ≤ p.pgno ∧ p.pgno ≤ 0x8FF →
        (Zvbi.Cache.runF putReplacesAllVersions Zvbi.Cache.init ops).memUsed
            + Zvbi.Cache.pageSize p.function p.x26 p.x28
          ≤ (Zvbi.Cache.runF putReplacesAllVersions Zvbi.Cache.init ops).memLimit →
        ∀ s' r, (Zvbi.Cache.runF putReplacesAllVersions Zvbi.Cache.init ops).putPageF putReplacesAllVersions nid
            ⟨p.pgno, p.subno, p.function, p.x26, p.x28, enc (Zvbi.Cache.tstored (cn.getStat p.pgno).ptype p)⟩
              = .ok (s', r) →
        C10Ttx.Sim nid enc (applyOp c (.put (cn.getStat p.pgno).ptype p)) s')
    ∧ (∀ cn, (Zvbi.Cache.runF putReplacesAllVersions Zvbi.Cache.init ops).findNet nid = some cn →
        ∀ nid', (Zvbi.Cache.stepF putReplacesAllVersions
            (Zvbi.Cache.runF putReplacesAllVersions Zvbi.Cache.init ops) (.chsw nid)).2 = .net nid' →
        C10Ttx.Sim nid' enc (applyOp c .clear)
          (Zvbi.Cache.stepF putReplacesAllVersions
            (Zvbi.Cache.runF putReplacesAllVersions Zvbi.Cache.init ops) (.chsw nid)).1) := by
  refine ⟨?_, ?_, ?_⟩
  · intro pgno subno mask
    cases hv : Zvbi.Cache.validPgno pgno with
    | true =>
      have h := C10Ttx.sim_get putReplacesAllVersions ops nid enc c hsim pgno subno mask hv
      exact ⟨h.2, h.1⟩
    | false =>
      have hg : cacheGet c pgno subno mask = none := by
        unfold cacheGet
        rw [if_pos]
        unfold Zvbi.Cache.validPgno at hv
        simp only [decide_eq_false_iff_not, not_and, Decidable.not_not, ne_eq] at hv
        simp only [Bool.or_eq_true, decide_eq_true_eq, beq_iff_eq]
        by_cases h1 : pgno < 0x100
        · exact Or.inl (Or.inl h1)
        · by_cases h2 : pgno > 0x8FF
          · exact Or.inl (Or.inr h2)
          · exact Or.inr (hv (by omega) (by omega))
      have hc : Zvbi.Cache.State.getPage (Zvbi.Cache.runF putReplacesAllVersions Zvbi.Cache.init ops) nid pgno subno mask
          = (Zvbi.Cache.runF putReplacesAllVersions Zvbi.Cache.init ops, none) := by
        unfold Zvbi.Cache.State.getPage
        rw [if_pos (by rw [hv]; rfl)]
      have ha : applyOp c (.get pgno subno mask) = c := by
        show (match cacheGet c pgno subno mask with | some r => r.2 | none => c) = c
        rw [hg]
      rw [hc, ha, hg]
      exact ⟨hsim, rfl⟩
  · intro cn hf p hrange hroom s' r hres
    show C10Ttx.Sim nid enc (match cachePut c (cn.getStat p.pgno).ptype p with | some c' => c' | none => c) s'
    cases hc : cachePut c (cn.getStat p.pgno).ptype p with
    | some c' =>
      exact (C10Ttx.sim_put_current ops nid enc c hsim cn hf p hrange _ rfl hroom c' hc s' r hres).2
    | none =>
      have hnone : ∀ fix pt, cachePutF fix c pt p = none → p.pgno &&& 0xFF = 0xFF := by
        intro fix pt
        unfold cachePutF
        split
        · rename_i h; intro _; simpa using h
        · generalize putKey pt p.pgno p.subno = k
          obtain ⟨a, b⟩ := k
          intro h; cases h
      have hlow := hnone _ _ hc
      have hp : (Zvbi.Cache.runF putReplacesAllVersions Zvbi.Cache.init ops).putPageF putReplacesAllVersions nid
            ⟨p.pgno, p.subno, p.function, p.x26, p.x28, enc (Zvbi.Cache.tstored (cn.getStat p.pgno).ptype p)⟩
          = .ok (Zvbi.Cache.runF putReplacesAllVersions Zvbi.Cache.init ops, none) := by
        unfold Zvbi.Cache.State.putPageF
        rw [hf]
        exact if_pos hlow
      rw [hp] at hres
      injection hres with hres
      injection hres with h1 _
      rw [← h1]
      exact hsim
  · intro cn hf nid' hout
    have h := (C10.chsw_unreachable putReplacesAllVersions ops nid cn hf nid' hout).1
    unfold C10Ttx.Sim
    show _ = Zvbi.Cache.tstore nid' enc []
    unfold Zvbi.Cache.State.abs Zvbi.Cache.tstore
    rw [List.map_nil, List.filter_eq_nil_iff]
    intro e he
    obtain ⟨q, hq, rfl⟩ := List.mem_map.mp he
    have := h q (List.mem_filter.mp hq).1
    simp [Zvbi.Cache.Page.entry, this]

/-- non-vacuity: the cache.c state after creation of the network simulates the empty decoder list; the network
    is found, memory is not short for a Level one page, the store of page 123 / 2359 succeeds - every hypothesis
    of the three parts can be met; after the store both sides hold one page, filed under sub-code 0; a channel
    switch in the state that holds this page hands out a network (the recycled record, again number 0) - which
    then has no page (part 3 of the theorem), while the state before had one. -/
example :
    C10Ttx.Sim 0 (fun _ => 0) [] (Zvbi.Cache.runF putReplacesAllVersions Zvbi.Cache.init [.addNet])
    ∧ ((Zvbi.Cache.runF putReplacesAllVersions Zvbi.Cache.init [.addNet]).findNet 0).isSome = true
    ∧ (Zvbi.Cache.runF putReplacesAllVersions Zvbi.Cache.init [.addNet]).memUsed + Zvbi.Cache.pageSize 0 0 0
        ≤ (Zvbi.Cache.runF putReplacesAllVersions Zvbi.Cache.init [.addNet]).memLimit
    ∧ (match (Zvbi.Cache.runF putReplacesAllVersions Zvbi.Cache.init [.addNet]).putPageF putReplacesAllVersions 0
          ⟨0x123, 0x2359, 0, 0, 0, 0⟩ with
        | .ok (s', _) => s'.abs.map (fun e => (e.net, e.pgno, e.subno))
        | .error _ => []) = [(0, 0x123, 0)]
    ∧ ((applyOp [] (.put 1 { Page.zero with pgno := 0x123, subno := 0x2359 })).map fun x => (x.pgno, x.subno))
        = [(0x123, 0)]
    ∧ (Zvbi.Cache.stepF putReplacesAllVersions
        (Zvbi.Cache.runF putReplacesAllVersions Zvbi.Cache.init [.addNet, .put 0 ⟨0x123, 0x2359, 0, 0, 0, 0⟩, .unref 0])
          (.chsw 0)).2 = .net 0
    ∧ (Zvbi.Cache.runF putReplacesAllVersions Zvbi.Cache.init [.addNet, .put 0 ⟨0x123, 0x2359, 0, 0, 0, 0⟩, .unref 0]).abs.length
        = 1 := by
  unfold C10Ttx.Sim
  decide +kernel

/-! ## 3. the unconditional statement (not proved) -/

/-- what the decoder calls in cache.c for one operation of its trace, on the network `acc.2` it holds:
    look-up and release of the page found; the page type of the decoder's statistics written to the statistics
    of the network (in C the same memory), store, release of the page stored; `vbi_chsw_reset`, after which the
    decoder holds the new network -/
def mirrorOp (enc : Page → Nat) (acc : Zvbi.Cache.State × Nat) : CacheOp → Zvbi.Cache.State × Nat
  | .get pgno subno mask =>
    match acc.1.getPage acc.2 pgno subno mask with
    | (s, some q) => (s.pageUnref q.id, acc.2)
    | (s, none) => (s, acc.2)
  | .put pt p =>
    let s := (Zvbi.Cache.stepCur acc.1 (.ptype acc.2 p.pgno pt)).1
    match s.putPageF putReplacesAllVersions acc.2
        ⟨p.pgno, p.subno, p.function, p.x26, p.x28, enc (Zvbi.Cache.tstored pt p)⟩ with
    | .ok (s', some q) => (s'.pageUnref q.id, acc.2)
    | .ok (s', none) => (s', acc.2)
    | .error _ => (s, acc.2)
  | .clear =>
    match Zvbi.Cache.stepCur acc.1 (.chsw acc.2) with
    | (s, .net nid') => (s, nid')
    | (s, _) => (s, acc.2)

/-- the cache.c state and the network the decoder holds after the trace `ops`, from `vbi_cache_new` and the
    creation of the decoder's first network -/
def mirror (enc : Page → Nat) (ops : List CacheOp) : Zvbi.Cache.State × Nat :=
  ops.foldl (mirrorOp enc) Zvbi.Cache.init.addNetwork

/-- FULL STATEMENT (not proved): over every history the decoder's page list has a trace of cache operations
    (as in `cache_evolves_by_cache_operations`) such that the cache.c model, driven by the calls the decoder
    makes for this trace, ends in a state whose retrievable entries of the decoder's network are that list.
    Missing: see the file header (memory never short along the history, page type agreement, references). -/
def ttx_refined_by_cache_full : Prop :=
  ∀ (on : Bool) (ps : List Packet) (enc : Page → Nat),
    ∃ ops : List CacheOp,
      (run (init.enable on) ps).1.net.cache = ops.foldl applyOp [] ∧
      (∀ pt p, CacheOp.put pt p ∈ ops → Event.put p ∈ (run (init.enable on) ps).2) ∧
      C10Ttx.Sim (mirror enc ops).2 enc (run (init.enable on) ps).1.net.cache (mirror enc ops).1

/-- the instance of the full statement for the two-header history of section 1 (trace given there) holds: the
    mirrored cache.c state has exactly the one entry 123 / 0 of network 0, as the decoder's list. -/
example :
    let r := run (init.enable true) [C03.f21Tx, C03.f21Tx.set 2 21]
    let p := (r.2.filterMap fun e => match e with | Event.put q => some q | _ => none).getD 0 Page.zero
    let ops := [CacheOp.get 0x123 0x2359 0xFFFFFFFF, .put 1 p, .get 0x120 0x2359 0xFFFFFFFF]
    r.1.net.cache = ops.foldl applyOp []
    ∧ (mirror (fun _ => 0) ops).1.abs.filter (fun e => decide (e.net = (mirror (fun _ => 0) ops).2))
        = Zvbi.Cache.tstore (mirror (fun _ => 0) ops).2 (fun _ => 0) r.1.net.cache
    ∧ ((mirror (fun _ => 0) ops).1.abs.map fun e => (e.net, e.pgno, e.subno)) = [(0, 0x123, 0)] := by
  decide +kernel

end Zvbi.Props.C03Join
