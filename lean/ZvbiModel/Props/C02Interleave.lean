import ZvbiModel.Ttx.Roundtrip11
import ZvbiModel.Props.C02Roundtrip
/-!
# Property C02, round 4: reachability invariants and `interleaved_page_roundtrip`

* `reachable_shape`: in every state the decoder reaches from `vbi_decoder_new` by ANY packet history the arrays
  have their C extents (8 slots, `lop_raw[26]`, `raw[26]` of slot pages and cached pages) and no channel-switch
  countdown runs; `single_page_roundtrip_reachable` restates last round's theorem from such a state without
  the shape hypotheses.
* `interleaved_page_roundtrip`: parallel mode, packets of OTHER magazines interleaved arbitrarily between P's
  header, rows and terminator.  Foreign packets must be `Ttx.Benign` - which excludes exactly the four ways other
  magazines interfere on packet.c (E1-E4); each exclusion is justified below by a kernel-checked counterexample
  on the model (`e1_*` .. `e4_*`), all four replayed on the C code (corpus/C02/interfere-e*.ops).
* `parallel_network_invariant`: the state hypothesis `IInv` of the theorem holds after ANY history of packets
  whose page headers do not carry C11.
-/
namespace Zvbi.Props.C02Interleave
open Zvbi.Ttx Zvbi.Hamm Zvbi.Fmt Zvbi.Fmt.L1Spec Zvbi.Props.C02Roundtrip

/-- **reachable_shape**.  For every packet history from a fresh decoder (handler registered or not): eight
assembly slots; every slot has 26 `lop_raw` rows and a page record with 26 rows; every cached page has 26 rows;
`vt.current` names one of the eight slots; no channel-switch countdown is running; the handler mask is the
one set at the start. -/
theorem reachable_shape (on : Bool) (hist : List Packet) :
    let s := (run (init.enable on) hist).1
    s.raw.length = 8 ∧ (∀ m, m < 8 → (s.rp m).lopRaw.length = 26 ∧ (s.rp m).page.raw.length = 26)
    ∧ (∀ q ∈ s.net.cache, q.raw.length = 26) ∧ (∀ c, s.current = some c → c < 8) ∧ s.chswcd = 0 ∧ s.mask = on := by
  obtain ⟨h, hm⟩ := run_shape hist (init.enable on) (init_shape on)
  refine ⟨h.len, h.slots, h.cache, h.cur, h.cd, ?_⟩
  rw [hm]; cases on <;> rfl

example : ((run (init.enable true) exStream).1.rp 1).lopRaw.length = 26 :=
  ((reachable_shape true exStream).2.1 1 (by decide)).1

/-- `step` keeps the shapes from ANY state that has them (the invariant itself, not only its reachable instances) -/
theorem shape_invariant (s : St) (p : Packet) (h : Shape s) : Shape (step s p).1 := (step_shape s p h).1

example : Shape (init.enable true) := init_shape true

/-- **single_page_roundtrip_reachable**: last round's theorem from any state the decoder reaches from a fresh
decoder with a TTX_PAGE handler: the hypotheses `raw.length = 8`, `mask`, `chswcd = 0`, `lopRaw.length = 26`
are gone. -/
theorem single_page_roundtrip_reachable (hist : List Packet)
    (t : Tx) (hdr : Packet) (hh : IsHeader hdr t.m t.page t.s12 t.s34 t.fl) (hdec : decimalPage t.page)
    (hpar : t.fl &&& 0x10 = 0)
    (s1 : St) (ev1 : List Event)
    (ht : terminatePage (tick (run (init.enable true) hist).1) t.m t.pgno t.page = (s1, ev1))
    (htext : TextPage s1.net t.pgno t.page (t.prev s1))
    (rp : List RowPkt) (hrp : ∀ x ∈ rp, IsPacket x.2 t.m x.1 ∧ 1 ≤ x.1 ∧ x.1 ≤ 25 ∧ GoodRow (payload x.2))
    (hq : Packet) (hterm : Terminator (run (run (init.enable true) hist).1 (hdr :: rp.map (·.2))).1 t.m t.page hq)
    (hnosw : Event.chsw ∉ (run (run (init.enable true) hist).1 (hdr :: rp.map (·.2) ++ [hq])).2) :
    ∃ q pt, Fetched q t s1 hdr (rowsOf rp) pt
      ∧ (pt = PT_CLOCK → (s1.net.getStat t.pgno).pageType = PT_CLOCK)
      ∧ (∀ subno mask, subno = q.subno ∨ subno = ANY_SUBNO →
          (cacheGet (run (run (init.enable true) hist).1 (hdr :: rp.map (·.2) ++ [hq])).1.net.cache t.pgno subno mask).map (·.1)
            = some q)
      ∧ ttxPages (run (run (init.enable true) hist).1 (hdr :: rp.map (·.2) ++ [hq])).2 = ttxPages ev1 ++ [(t.pgno, t.subno)] := by
  obtain ⟨h, hm⟩ := run_shape hist (init.enable true) (init_shape true)
  have hcl := terminatePage_closed (tick (run (init.enable true) hist).1) t.m t.pgno t.page
  rw [ht] at hcl
  have hL : (s1.rp t.m).lopRaw.length = 26 := by
    rw [(hcl.slots t.m).id.2.2.2.1]; exact (h.slots t.m hh.mag).1
  exact single_page_roundtrip _ h.len (by rw [hm]; rfl) h.cd t hdr hh hdec
    ⟨a16_lt hdr 4 _ hh.s12, a16_lt hdr 6 _ hh.s34, a16_lt hdr 8 _ hh.fl⟩ hpar s1 ev1 ht htext hL rp hrp hq hterm hnosw

/-- **consistent_headers_no_channel_switch**.  `GoodHdr tmpl off p`: if `p` is a page header whose page number decodes,
its columns 8..31 carry that page number at `off..off+2` (first occurrence) and otherwise equal the network's template
with odd parity (`HdrOk`, the sender-side form of last round's `HeaderAgrees`; column `off+3` and the clock 32..39 are
free).  A history from a fresh decoder in which EVERY packet is such - whatever else it is: rows, X/26, undecodable
bytes, hex pages, C11 - never makes the decoder signal a channel switch (`vbi_chsw_reset` is not reached). -/
theorem consistent_headers_no_channel_switch (tmpl : List Nat) (off : Nat) (on : Bool) (hist : List Packet)
    (hg : ∀ p ∈ hist, GoodHdr tmpl off p) : Event.chsw ∉ (run (init.enable on) hist).2 :=
  (run_hinv tmpl off hist _ (init_hinv tmpl off on) hg).2

/-- a packet that is not a page header is `GoodHdr` for every template -/
theorem goodHdr_of_row (tmpl : List Nat) (off : Nat) (p : Packet) (m k : Nat) (hp : IsPacket p m k) (hk : 1 ≤ k) :
    GoodHdr tmpl off p := by
  intro pmag page ha h0 _
  obtain ⟨hm, hk32, ha'⟩ := hp
  rw [ha'] at ha; injection ha with ha
  rw [← ha, (addr_split m hm k hk32).2] at h0
  omega

/-- **single_page_roundtrip_from_init**: last round's theorem from a fresh decoder with a TTX_PAGE handler after ANY
history `hist`, with NO hypothesis about shapes and NO "no channel switch" hypothesis: instead all headers of the
history and the two headers of the transmission are consistent with one network header (`GoodHdr`). -/
theorem single_page_roundtrip_from_init (tmpl : List Nat) (off : Nat) (hist : List Packet)
    (hgood : ∀ p ∈ hist, GoodHdr tmpl off p)
    (t : Tx) (hdr : Packet) (hh : IsHeader hdr t.m t.page t.s12 t.s34 t.fl) (hdec : decimalPage t.page)
    (hpar : t.fl &&& 0x10 = 0) (hgh : GoodHdr tmpl off hdr)
    (s1 : St) (ev1 : List Event)
    (ht : terminatePage (tick (run (init.enable true) hist).1) t.m t.pgno t.page = (s1, ev1))
    (htext : TextPage s1.net t.pgno t.page (t.prev s1))
    (rp : List RowPkt) (hrp : ∀ x ∈ rp, IsPacket x.2 t.m x.1 ∧ 1 ≤ x.1 ∧ x.1 ≤ 25 ∧ GoodRow (payload x.2))
    (hq : Packet) (hterm : Terminator (run (run (init.enable true) hist).1 (hdr :: rp.map (·.2))).1 t.m t.page hq)
    (hgq : GoodHdr tmpl off hq) :
    ∃ q pt, Fetched q t s1 hdr (rowsOf rp) pt
      ∧ (pt = PT_CLOCK → (s1.net.getStat t.pgno).pageType = PT_CLOCK)
      ∧ (∀ subno mask, subno = q.subno ∨ subno = ANY_SUBNO →
          (cacheGet (run (run (init.enable true) hist).1 (hdr :: rp.map (·.2) ++ [hq])).1.net.cache t.pgno subno mask).map (·.1)
            = some q)
      ∧ ttxPages (run (run (init.enable true) hist).1 (hdr :: rp.map (·.2) ++ [hq])).2 = ttxPages ev1 ++ [(t.pgno, t.subno)] := by
  have hall : ∀ p ∈ hist ++ (hdr :: rp.map (·.2) ++ [hq]), GoodHdr tmpl off p := by
    intro p hp
    rw [List.mem_append] at hp
    rcases hp with hp | hp
    · exact hgood p hp
    · rw [List.mem_append] at hp
      rcases hp with hp | hp
      · rcases List.mem_cons.mp hp with rfl | hp
        · exact hgh
        · rw [List.mem_map] at hp
          obtain ⟨x, hx, rfl⟩ := hp
          exact goodHdr_of_row tmpl off x.2 t.m x.1 (hrp x hx).1 (hrp x hx).2.1
      · rw [List.mem_singleton] at hp; rw [hp]; exact hgq
  have hn := consistent_headers_no_channel_switch tmpl off true _ hall
  rw [run_append] at hn
  have hnosw : Event.chsw ∉ (run (run (init.enable true) hist).1 (hdr :: rp.map (·.2) ++ [hq])).2 :=
    fun h => hn (List.mem_append_right _ h)
  exact single_page_roundtrip_reachable hist t hdr hh hdec hpar s1 ev1 ht htext rp hrp hq hterm hnosw

/-- the TTX_PAGE events carrying page number `pgno` -/
def pagesOf (pgno : Nat) (ev : List Event) : List (Nat × Nat) := (ttxPages ev).filter (fun x => x.1 == pgno)

theorem pagesOf_append (pgno : Nat) (a b : List Event) : pagesOf pgno (a ++ b) = pagesOf pgno a ++ pagesOf pgno b := by
  unfold pagesOf; rw [ttxPages_append, List.filter_append]

/-- **parallel_network_invariant**: `IInv` (array shapes, handler registered, no page in progress carries C11,
every slot not discarded holds a page of its own magazine) holds after any history whose page headers do not
carry C11 - whatever else the network sends (undecodable packets, X/26 on a TOP page, inconsistent headers ...). -/
theorem parallel_network_invariant (hist : List Packet) (hpar : ∀ p ∈ hist, ParHdr p) :
    IInv (run (init.enable true) hist).1 := run_iinv hist _ init_iinv hpar

example : IInv (run (init.enable true) []).1 := parallel_network_invariant [] (fun _ h => by cases h)

/-- **interleaved_page_roundtrip**.  Decoder in a parallel-mode state (`IInv s`, see `parallel_network_invariant`).
Header of page P (magazine `t.m`, decimal page number, any sub-code and control bits with C11 = 0, erase flag set or
not); then ANY sequence of items, each either a row 1..25 of P (odd-parity bytes; any subset, order, repeats) or a
packet of ANOTHER magazine that is `Benign` in the state it arrives in (headers, rows, X/26, X/27, X/28, M/29, 8/30 -
anything that avoids E1-E4); then a terminating header of P's magazine (another decimal text page or a
time-filling header) that does not trigger a channel switch.  Then the conclusions of `single_page_roundtrip` hold
with the rows of P among the items: the cache holds, first in its chain for P's page number, a text page `q` with
P's numbers, national option, flags, rows = `mergeRows (previous version | blanks, row 0 := header) (rows of P
received)`; exact and wildcard look-ups return it; and among ALL events of the sequence those carrying P's page
number are the ones of closing the earlier page in P's slot followed by exactly one (P.pgno, P.subno). -/
theorem interleaved_page_roundtrip (s : St) (hi : IInv s)
    (t : Tx) (hdr : Packet) (hh : IsHeader hdr t.m t.page t.s12 t.s34 t.fl) (hdec : decimalPage t.page)
    (hpar : t.fl &&& 0x10 = 0)
    (s1 : St) (ev1 : List Event) (ht : terminatePage (tick s) t.m t.pgno t.page = (s1, ev1))
    (htext : TextPage s1.net t.pgno t.page (t.prev s1))
    (items : List Item) (hok : ItemsOk t.m (step s hdr).1 items) (hgood : ∀ x ∈ ownRows items, GoodRow (payload x.2))
    (hq : Packet) (hterm : Terminator (run s (hdr :: items.map Item.pkt)).1 t.m t.page hq)
    (hnosw : Event.chsw ∉ (step (run s (hdr :: items.map Item.pkt)).1 hq).2) :
    ∃ q pt, Fetched q t s1 hdr (rowsOf (ownRows items)) pt
      ∧ (pt = PT_CLOCK → ((run s (hdr :: items.map Item.pkt)).1.net.getStat t.pgno).pageType = PT_CLOCK)
      ∧ (∀ subno mask, subno = q.subno ∨ subno = ANY_SUBNO →
          (cacheGet (run s (hdr :: items.map Item.pkt ++ [hq])).1.net.cache t.pgno subno mask).map (·.1) = some q)
      ∧ pagesOf t.pgno (run s (hdr :: items.map Item.pkt ++ [hq])).2 = pagesOf t.pgno ev1 ++ [(t.pgno, t.subno)] := by
  have hm := hh.mag
  -- P's header
  have hg := terminatePage_glob (tick s) t.m t.pgno t.page
  have hcl := terminatePage_closed (tick s) t.m t.pgno t.page
  rw [ht] at hg hcl
  have hlen1 : s1.raw.length = 8 := by rw [hg.len]; exact hi.shape.len
  have hL : (s1.rp t.m).lopRaw.length = 26 := by
    rw [(hcl.slots t.m).id.2.2.2.1]; exact (hi.shape.slots t.m hm).1
  obtain ⟨ho, he, _⟩ := decode_header_text (tick s) hdr t.m t.page t.s12 t.s34 t.fl hh hdec hi.mask s1 ev1 ht hlen1 htext
  have hparhdr : ParHdr hdr := by
    intro pmag _ _ fl hfl
    rw [hh.fl] at hfl; injection hfl with hfl; rw [← hfl]; exact hpar
  have hi2 := step_iinv s hdr hi hparhdr
  have hstep : step s hdr = ((decodeTeletext (tick s) hdr).st, (decodeTeletext (tick s) hdr).ev) := step_eq_decode s hdr hi.shape.cd
  rw [show hdr :: items.map Item.pkt ++ [hq] = (hdr :: items.map Item.pkt) ++ [hq] from rfl, run_append]
  rw [run_cons] at hterm hnosw ⊢
  rw [hstep] at hi2 hok hterm hnosw ⊢
  simp only [] at hi2 hok hterm hnosw ⊢
  generalize (decodeTeletext (tick s) hdr).st = s2 at ho hi2 hok hterm hnosw ⊢
  generalize (decodeTeletext (tick s) hdr).ev = ev2 at he ⊢
  -- the items
  have hmid0 : Mid s2 s2 t.m [] := ⟨hi2, ⟨t.m, ho.cur⟩, SameText.refl _, rfl, rfl⟩
  obtain ⟨hmid, hpages, _⟩ := run_items s2 t.m hm ho.fn t.pgno ⟨t.page, a16_lt hdr 2 _ hh.page, rfl⟩ items s2 [] hmid0 hok
  simp only [List.nil_append] at hmid
  generalize hsR : (run s2 (items.map Item.pkt)).1 = sR at hmid hterm hnosw ⊢
  generalize (run s2 (items.map Item.pkt)).2 = evR at hpages ⊢
  obtain ⟨c, hc⟩ := hmid.cur
  have hready : Ready sR s1 t hdr (rowsOf (ownRows items)) := by
    refine ⟨hmid.inv.shape.len, hmid.inv.mask, hmid.inv.shape.cd, parallelCur_of sR hmid.inv.shape hmid.inv.par c hc,
      ?_, ?_, ?_, ?_, ?_, ?_, ?_, ?_⟩
    · rw [hmid.page.fn]; exact ho.fn
    · rw [hmid.page.pgno]; exact ho.pg
    · rw [hmid.page.subno]; exact ho.sub
    · rw [hmid.page.national]; exact ho.nat
    · rw [hmid.page.flags]; exact ho.flags
    · rw [hmid.page.raw]; exact ho.raw
    · rw [hmid.lr, ho.lr]
    · rw [hmid.lp, ho.lp]
  have hrows : ∀ r ∈ rowsOf (ownRows items), 1 ≤ r.1 ∧ r.1 ≤ 25 ∧ GoodRow r.2 := by
    have gen : ∀ (items : List Item) (s' : St), ItemsOk t.m s' items → (∀ x ∈ ownRows items, GoodRow (payload x.2)) →
        ∀ r ∈ rowsOf (ownRows items), 1 ≤ r.1 ∧ r.1 ≤ 25 ∧ GoodRow r.2 := by
      intro items
      induction items with
      | nil => intro _ _ _ r hr; cases hr
      | cons it items ih =>
        intro s' hok hg r hr
        cases it with
        | own k p =>
          obtain ⟨⟨_, hk1, hk2⟩, hrest⟩ := hok
          simp only [ownRows, rowsOf, List.map_cons, List.mem_cons] at hr
          rcases hr with rfl | hr
          · exact ⟨hk1, hk2, hg (k, p) (by simp [ownRows])⟩
          · exact ih _ hrest (fun x hx => hg x (by simp [ownRows, hx])) r hr
        | foreign m' k p =>
          exact ih _ hok.2 (fun x hx => hg x hx) r hr
        | ownx k p =>
          exact ih _ hok.2 (fun x hx => hg x hx) r hr
    exact gen items s2 hok hgood
  simp only [run_cons, run_nil, List.append_nil]
  have hfin : ∃ q pt, Fetched q t s1 hdr (rowsOf (ownRows items)) pt
      ∧ (pt = PT_CLOCK → (sR.net.getStat t.pgno).pageType = PT_CLOCK)
      ∧ (∀ subno mask, subno = q.subno ∨ subno = ANY_SUBNO →
          (cacheGet (step sR hq).1.net.cache t.pgno subno mask).map (·.1) = some q)
      ∧ ttxPages (step sR hq).2 = [(t.pgno, t.subno)] := by
    cases hterm with
    | text u hu hum hune hudec hutext =>
      obtain ⟨um, upage, us12, us34, ufl⟩ := u
      simp only [] at hu hum hune hudec
      subst hum
      exact fetched_after_text sR s1 t hdr _ hready hm hdec hL hrows hq upage us12 us34 ufl hu hune hudec hutext hnosw
    | filler _ haQ hpQ =>
      exact fetched_after_filler sR s1 t hdr _ hready hm hdec hL hrows hq haQ hpQ hnosw
  obtain ⟨q, pt, f1, f2, f3, f4⟩ := hfin
  refine ⟨q, pt, f1, f2, f3, ?_⟩
  rw [pagesOf_append, pagesOf_append]
  have e1 : pagesOf t.pgno ev2 = pagesOf t.pgno ev1 := by unfold pagesOf; rw [he]
  have e2 : pagesOf t.pgno evR = [] := by
    unfold pagesOf
    rw [List.filter_eq_nil_iff]
    intro x hx
    have := hpages x hx
    simpa using this
  have e3 : pagesOf t.pgno (step sR hq).2 = [(t.pgno, t.subno)] := by
    unfold pagesOf; rw [f4]; simp
  rw [e1, e2, e3, List.append_nil]

/-! ### non-vacuity: a concrete interleaved transmission satisfies every hypothesis of the theorem -/

/-- header of (`m`, `page`), sub-code 0, control byte C7..C14 = `fl` (bit 4 = C11), 32 text bytes -/
def hdrPkt (m page fl : Nat) (text : List Nat) : Packet :=
  C02.addrBytes m 0 ++ [ham8 (page &&& 15), ham8 (page >>> 4), ham8 0, ham8 0, ham8 0, ham8 0, ham8 (fl &&& 15), ham8 (fl >>> 4)]
    ++ text
def blank32 : List Nat := List.replicate 32 0x20
def rowPkt (m k b : Nat) : Packet := C02.addrBytes m k ++ List.replicate 40 b

def tx123 : Tx := ⟨1, 0x23, 0, 0, 0⟩
/-- page 123 of magazine 1: row 1, [header 250 of magazine 2, row 1 of it], row 2, [header 251: 250 is stored] -/
def exItems : List Item :=
  [.own 1 (rowPkt 1 1 0xC1), .foreign 2 0 (hdrPkt 2 0x50 0 blank32), .foreign 2 1 (rowPkt 2 1 0xC1), .own 2 (rowPkt 1 2 0x43),
   .foreign 2 0 (hdrPkt 2 0x51 0 blank32)]
def stA : St := tick (init.enable true)

theorem isPkt (p : Packet) (m k : Nat) (h1 : m < 8) (h2 : k < 32) (h3 : a16 p 0 = some (m + 8 * k)) : IsPacket p m k :=
  ⟨h1, h2, h3⟩

set_option maxRecDepth 100000 in
/-- `interleaved_page_roundtrip` applies to these packets from a fresh decoder (all hypotheses discharged, the
    three foreign packets are `Benign` in the states they arrive in, terminator = time-filling header) -/
example : ∃ q pt, Fetched q tx123 stA (hdrPkt 1 0x23 0 blank32) (rowsOf (ownRows exItems)) pt := by
  have hh : IsHeader (hdrPkt 1 0x23 0 blank32) 1 0x23 0 0 0 :=
    ⟨by decide, by decide +kernel, by decide +kernel, by decide +kernel, by decide +kernel, by decide +kernel⟩
  have ht : terminatePage (tick (init.enable true)) tx123.m tx123.pgno tx123.page = (stA, []) := by decide +kernel
  have hprev : tx123.prev stA = none := by decide +kernel
  have htext : TextPage stA.net tx123.pgno tx123.page (tx123.prev stA) := by
    rw [hprev]; show TextType _ _ _; unfold TextType; decide +kernel
  have hfl : ∀ (p : Packet), a16 p 8 = some 0 → ∀ fl, a16 p 8 = some fl → fl &&& 0x10 = 0 := by
    intro p e fl hfl; rw [e] at hfl; injection hfl with hfl; rw [← hfl]; rfl
  have hok : ItemsOk tx123.m (step (init.enable true) (hdrPkt 1 0x23 0 blank32)).1 exItems := by
    refine ⟨⟨isPkt _ _ _ (by decide) (by decide) (by decide +kernel), by decide, by decide⟩,
      ⟨by decide, isPkt _ _ _ (by decide) (by decide) (by decide +kernel),
        ⟨fun _ => ⟨0x50, by decide +kernel⟩, fun h => absurd h (by decide), by decide +kernel, fun _ => hfl _ (by decide +kernel)⟩⟩,
      ⟨by decide, isPkt _ _ _ (by decide) (by decide) (by decide +kernel),
        ⟨fun h => absurd h (by decide), fun h => absurd h (by decide), by decide +kernel, fun h => absurd h (by decide)⟩⟩,
      ⟨isPkt _ _ _ (by decide) (by decide) (by decide +kernel), by decide, by decide⟩,
      ⟨by decide, isPkt _ _ _ (by decide) (by decide) (by decide +kernel),
        ⟨fun _ => ⟨0x51, by decide +kernel⟩, fun h => absurd h (by decide), by decide +kernel, fun _ => hfl _ (by decide +kernel)⟩⟩, trivial⟩
  have hgood : ∀ x ∈ ownRows exItems, GoodRow (payload x.2) := by
    intro x hx b hb
    have : ∀ x ∈ ownRows exItems, ∀ b ∈ payload x.2, b < 256 ∧ oddPar b = true := by decide +kernel
    exact this x hx b hb
  have hterm : Terminator (run (init.enable true) (hdrPkt 1 0x23 0 blank32 :: exItems.map Item.pkt)).1 tx123.m tx123.page
      (hdrPkt 1 0xFF 0 blank32) := Terminator.filler (by decide) (by decide +kernel) (by decide +kernel)
  obtain ⟨q, pt, h, _⟩ := interleaved_page_roundtrip (init.enable true) init_iinv tx123 _ hh ⟨by decide, by decide⟩ (by decide)
    stA [] ht htext exItems hok hgood _ hterm (by decide +kernel)
  exact ⟨q, pt, h⟩

/-- ... and the conclusion is what the model computes on them: 123 fetched with rows 1 and 2 as sent, exactly one
    event for 123 (the foreign page 250 has its own) -/
example : (cacheGet (run (init.enable true) (hdrPkt 1 0x23 0 blank32 :: exItems.map Item.pkt ++ [hdrPkt 1 0xFF 0 blank32])).1.net.cache
        0x123 ANY_SUBNO 0).map (fun r => (r.1.function, r.1.raw.getD 1 [], r.1.raw.getD 2 [], r.1.raw.getD 3 []))
      = some (FN_LOP, List.replicate 40 0xC1, List.replicate 40 0x43, blankRow)
    ∧ ttxPages (run (init.enable true) (hdrPkt 1 0x23 0 blank32 :: exItems.map Item.pkt ++ [hdrPkt 1 0xFF 0 blank32])).2
      = [(0x250, 0), (0x123, 0)] := by decide +kernel

/-! ### the four interferences are real: without each clause of `Benign` the page is lost (model; replayed on C) -/

/-- header text with the page number at columns 8..10 and byte `x` at column 20 -/
def textOf (pgno x : Nat) : List Nat :=
  [par8 ((pgno >>> 8) + 0x30), par8 (((pgno >>> 4) &&& 15) + 0x30), par8 ((pgno &&& 15) + 0x30)] ++ List.replicate 9 0x20
    ++ [x] ++ List.replicate 19 0x20

def fetchedRows (ps : List Packet) (pgno : Nat) : Option (List (List Nat)) :=
  (cacheGet (run (init.enable true) ps).1.net.cache pgno ANY_SUBNO 0).map (·.1.raw)

/-- a header of magazine 2 whose page number byte (0x01) is uncorrectable -/
def e1Foreign : Packet := C02.addrBytes 2 0 ++ [0x01, 0x01] ++ List.replicate 38 0x15
def e1Stream : List Packet :=
  [hdrPkt 1 0x23 0 blank32, rowPkt 1 1 0xC1, e1Foreign, rowPkt 1 2 0x43, hdrPkt 1 0x24 0 blank32]

/-- **E1** (`Benign.pgno` is needed): the foreign header's page number does not decode, and page 123 of magazine 1
    - header, rows and terminator all received intact - is neither stored nor announced.
    Replay on the C code: corpus/C02/interfere-e1-bad-pgno.ops. -/
theorem e1_bad_pgno_interferes : a16 e1Foreign 2 = none ∧ fetchedRows e1Stream 0x123 = none
    ∧ ttxPages (run (init.enable true) e1Stream).2 = [] := by decide +kernel

/-- magazine 1 opens its basic TOP table 1F0, then sends X/26 while page 223 of magazine 2 is in progress -/
def e2Stream : List Packet :=
  [hdrPkt 1 0xF0 0 blank32, hdrPkt 2 0x23 0 blank32, rowPkt 2 1 0xC1, rowPkt 1 26 0x15, rowPkt 2 2 0x43, hdrPkt 2 0x24 0 blank32]

/-- **E2** (`Benign.x26` is needed): the slot of magazine 1 has function BTT when its packet 26 arrives; page 223 is lost.
    Replay on the C code: corpus/C02/interfere-e2-x26-on-btt.ops. -/
theorem e2_x26_on_btt_interferes :
    X26Desync ((run (init.enable true) (e2Stream.take 3)).1.rp 1).page.function
    ∧ fetchedRows e2Stream 0x223 = none ∧ ttxPages (run (init.enable true) e2Stream).2 = [] := by decide +kernel

/-- magazine 1 sends 100 (text A), 101 (text B), 102; 223 of magazine 2 is in progress when 101 is stored -/
def e3Stream : List Packet :=
  [hdrPkt 1 0x00 0 (textOf 0x100 0x20), hdrPkt 1 0x01 0 (textOf 0x101 0xC1), hdrPkt 2 0x23 0 blank32, rowPkt 2 1 0xC1,
   hdrPkt 1 0x02 0 (textOf 0x102 0xC1), rowPkt 2 2 0x43, hdrPkt 2 0x24 0 blank32]

/-- **E3** (`Benign.nosw` is needed): storing the foreign page 101 fails the rolling-header test (`Event.chsw`): the
    cache is emptied (100 is gone) and page 223 is lost.
    Replay on the C code: corpus/C02/interfere-e3-rolling-header.ops. -/
theorem e3_rolling_header_interferes :
    Event.chsw ∈ (step (run (init.enable true) (e3Stream.take 4)).1 (hdrPkt 1 0x02 0 (textOf 0x102 0xC1))).2
    ∧ fetchedRows e3Stream 0x223 = none ∧ fetchedRows e3Stream 0x100 = none
    ∧ ttxPages (run (init.enable true) e3Stream).2 = [(0x100, 0)] := by decide +kernel

/-- a header of magazine 2 carrying C11 between the packets of page 123 of magazine 1 -/
def e4Stream : List Packet :=
  [hdrPkt 1 0x23 0 blank32, rowPkt 1 1 0xC1, hdrPkt 2 0x50 0x10 blank32, rowPkt 1 2 0x43, hdrPkt 1 0x24 0 blank32]

/-- **E4** (`Benign.par` is needed): the next header of magazine 1 terminates page 250 of magazine 2 (one event) instead
    of 123, which is overwritten unseen.  Replay on the C code: corpus/C02/interfere-e4-foreign-c11.ops. -/
theorem e4_foreign_c11_interferes : a16 (hdrPkt 2 0x50 0x10 blank32) 8 = some 0x10
    ∧ fetchedRows e4Stream 0x123 = none ∧ (fetchedRows e4Stream 0x250).isSome = true
    ∧ ttxPages (run (init.enable true) e4Stream).2 = [(0x250, 0)] := by decide +kernel

/-! ### non-vacuity of `GoodHdr`: the headers of `e3Stream` with text A are consistent, the one with text B is not -/

theorem hdrOk_textA (page : Nat) (hp : page < 3) :
    HdrOk (payload (hdrPkt 1 0 0 (textOf 0x100 0x20))) 8 (0x100 + page) (payload (hdrPkt 1 page 0 (textOf (0x100 + page) 0x20))) := by
  have h : ∀ page < 3, ∀ k < 32, 8 ≤ k → (k < 8 ∨ 8 + 4 ≤ k) →
      oddPar ((payload (hdrPkt 1 page 0 (textOf (0x100 + page) 0x20))).getD k 0) = true
      ∧ (payload (hdrPkt 1 page 0 (textOf (0x100 + page) 0x20))).getD k 0
        = (payload (hdrPkt 1 0 0 (textOf 0x100 0x20))).getD k 0 := by decide +kernel
  have hd : ∀ page < 3, (payload (hdrPkt 1 page 0 (textOf (0x100 + page) 0x20))).getD 8 0 = (pgDigits (0x100 + page)).1
      ∧ (payload (hdrPkt 1 page 0 (textOf (0x100 + page) 0x20))).getD (8 + 1) 0 = (pgDigits (0x100 + page)).2.1
      ∧ (payload (hdrPkt 1 page 0 (textOf (0x100 + page) 0x20))).getD (8 + 2) 0 = (pgDigits (0x100 + page)).2.2 := by
    decide +kernel
  exact ⟨by decide, by decide, hd page hp, fun k h1 h2 => by omega, fun k h1 h2 h3 => h page hp k h2 h1 h3⟩

/-- so a cycle 100, 101, 102, 100 with that header never signals a channel switch (also by direct evaluation) -/
example : Event.chsw ∉ (run (init.enable true) [hdrPkt 1 0 0 (textOf 0x100 0x20), hdrPkt 1 1 0 (textOf 0x101 0x20),
    hdrPkt 1 2 0 (textOf 0x102 0x20), hdrPkt 1 0 0 (textOf 0x100 0x20)]).2 := by decide +kernel

end Zvbi.Props.C02Interleave
