import ZvbiModel.Net.XdsStrLemmas
import ZvbiModel.Net.PidLemmas
/-!
# C13, complete-value debounce: XDS network name / call letters and the VPS programme id

`Props/C13.lean` states the debounce of the CNI carriers and of WSS.  This file adds the two places where
the debounced value is a compound one and "received again unchanged" means *every part of it*:

* the XDS network name and call letters (`caption.c` `xds_strfu`): a C string stored in a fixed array;
  "unchanged" must mean equal as complete strings - a proper prefix of the stored name is a different name;
* the VPS programme id (`packet.c` `vbi_decode_vps`): a record of nine fields compared by `memcmp`;
  "unchanged" must mean every transmitted field equal.

Histories are lists of atoms as in `Props/C13.lean` (any state, any interleaving the hypotheses allow).
Helper lemmas: `Net/XdsStrLemmas.lean`, `Net/PidLemmas.lean`; the array-level model of `xds_strfu`:
`Net/XdsStr.lean` (tied to the C function by the `strfu` op of the correspondence, extents by `layout`).
-/
namespace Zvbi.Props.C13Str
open Zvbi.Net Zvbi.Codec Zvbi.Gen

/-! ## xds_strfu -/

/-- `xds_strfu (d, s, len)` for EVERY content of the destination array `d` (stale bytes behind the old
    terminator, no terminator at all, bytes with the sign bit set) and EVERY received text of 0..32
    seven-bit bytes, `d` at least 33 bytes long: the call stays inside the array; its result is non-zero
    exactly if the C string the array held differs from the filtered received text (as complete strings:
    a longer stored string counts through `neq |= *d`, a shorter one through the `*d ^ c` at its
    terminator); afterwards the array holds that text, and the bytes behind the new terminator are the
    ones that were there. -/
theorem strfu_neq_iff (d s : List Nat) (hs : ∀ c ∈ s, c < 128) (hd : ∀ x ∈ d, x < 256)
    (hlen : s.length ≤ xdsMaxLen) (hsize : xdsMaxLen < d.length) :
    ∃ d' n, strfu d s = some (d', n) ∧ (n ≠ 0 ↔ cstr d ≠ xdsFilter s) ∧ cstr d' = xdsFilter s ∧
      d'.length = d.length ∧ d'.drop ((xdsFilter s).length + 1) = d.drop ((xdsFilter s).length + 1) := by
  have hf : (xdsFilter s).length < d.length := Nat.lt_of_le_of_lt (Nat.le_trans (xdsFilter_length_le s) hlen) hsize
  obtain ⟨n, hn, hiff⟩ := strfu_spec d s hs hd hf
  refine ⟨_, n, hn, hiff, cstr_append_nul _ _ (xdsFilter_ne_zero s), ?_, ?_⟩
  · simp only [List.length_append, List.length_cons, List.length_drop]; omega
  · rw [show xdsFilter s ++ 0 :: d.drop ((xdsFilter s).length + 1) = (xdsFilter s ++ [0]) ++ d.drop ((xdsFilter s).length + 1) by simp]
    exact List.drop_left' (by simp)

-- non-vacuity: "ABCD" stored (a stale "E" behind the terminator), "ABC" received: different (neq = 'D'), array updated
example : strfu [0x41, 0x42, 0x43, 0x44, 0, 0x45] [0x41, 0x42, 0x43] = some ([0x41, 0x42, 0x43, 0, 0, 0x45], 0x44) := by decide
-- "AB" stored, stale "CD" behind it, "ABCD" received: different although every byte compared equal but the terminator
example : (strfu [0x41, 0x42, 0, 0x44, 0, 0] [0x41, 0x42, 0x43, 0x44]).map (·.2 != 0) = some true := by decide
-- same text, leading blanks and a control code: equal
example : strfu [0x41, 0x20, 0x42, 0, 0x45] [0x20, 0x01, 0x41, 0x01, 0x42] = some ([0x41, 0x20, 0x42, 0, 0x45], 0) := by decide

/-- The store never writes past `vbi_network.name` (64 bytes) or `.call` (40 bytes) for any packet the XDS
    separator can deliver (at most 32 bytes): in the model an access behind the array is `none`.  The extents
    are those of the compiled struct (`layout` op). -/
theorem strfu_never_writes_past_the_destination (d s : List Nat) (hs : ∀ c ∈ s, c < 128) (hd : ∀ x ∈ d, x < 256)
    (hlen : s.length ≤ xdsMaxLen) (hsize : d.length = nameSize ∨ d.length = callSize) :
    ∃ d' n, strfu d s = some (d', n) ∧ d'.length = d.length := by
  have h33 : xdsMaxLen < d.length := by
    rcases hsize with e | e <;> rw [e] <;> decide
  obtain ⟨d', n, h, _, _, hl, _⟩ := strfu_neq_iff d s hs hd hlen h33
  exact ⟨d', n, h, hl⟩

/-- The model does report an overrun when there is one: a text that with its terminator is longer than the array. -/
theorem strfu_overrun_is_reported (d s : List Nat) (h : d.length ≤ (xdsFilter s).length) : strfu d s = none := by
  unfold strfu
  apply strfuCopy_overrun
  rw [xdsFilter_eq, List.length_map] at h
  exact h

example : strfu [0x41, 0] [0x41, 0x42] = none := by decide

/-- The string-level `xdsStrfu` of `Net/Model.lean` (which all history theorems use) is a sound abstraction of the
    array-level function for every array content: same new string, same "changed" verdict. -/
theorem strfu_refines_string_model (d s : List Nat) (hs : ∀ c ∈ s, c < 128) (hd : ∀ x ∈ d, x < 256)
    (hlen : s.length ≤ xdsMaxLen) (hsize : xdsMaxLen < d.length) :
    ∃ d' n, strfu d s = some (d', n) ∧ (xdsStrfu (cstr d) s).1 = cstr d' ∧ ((xdsStrfu (cstr d) s).2 = true ↔ n ≠ 0) := by
  obtain ⟨d', n, h, hiff, hc, _, _⟩ := strfu_neq_iff d s hs hd hlen hsize
  refine ⟨d', n, h, ?_, ?_⟩
  · rw [xdsStrfu_eq, hc]
  · rw [xdsStrfu_eq, hiff]
    simp only [bne_iff_ne, ne_eq]
    exact ⟨fun h e => h e.symm, fun h e => h e.symm⟩

/-! ## the network name is announced on an equal repeat only -/

/-- From ANY state: a network-name packet `u`, then ANY atoms except name packets and VPS / Teletext lines (call
    letters, other XDS packets, WSS, pages, ticks with or without time-outs, mask changes, channel switches),
    then a name packet `v`.  A NETWORK or NETWORK_ID event at `v` needs `u` and `v` to be equal as complete
    filtered strings, and the event carries that string. -/
theorem name_announce_needs_equal_repeat (cfg : Cfg) (s0 : State) (t1 t2 : Nat) (u v : List Nat) (mid : List Atom)
    (hmid : ∀ a ∈ mid, a.nameFree = true) (n : Network)
    (h : Ev.network n ∈ (stepAtom cfg (runAtoms cfg (stepAtom cfg s0 (.line t1 (.xds 1 u))).1 mid).1 (.line t2 (.xds 1 v))).2 ∨
         Ev.networkId n ∈ (stepAtom cfg (runAtoms cfg (stepAtom cfg s0 (.line t1 (.xds 1 u))).1 mid).1 (.line t2 (.xds 1 v))).2) :
    xdsFilter u = xdsFilter v ∧ n.name = xdsFilter v :=
  name_needs_equal_repeat cfg s0 t1 t2 u v mid hmid n h

/-- A prefix is not a repeat: if the second name is a proper prefix of the first (or the other way round),
    nothing is announced. -/
theorem name_prefix_is_not_a_repeat (cfg : Cfg) (s0 : State) (t1 t2 : Nat) (u v : List Nat) (mid : List Atom)
    (hmid : ∀ a ∈ mid, a.nameFree = true) (w : List Nat) (hw : w ≠ [])
    (hp : xdsFilter u = xdsFilter v ++ w ∨ xdsFilter v = xdsFilter u ++ w) :
    Silent (stepAtom cfg (runAtoms cfg (stepAtom cfg s0 (.line t1 (.xds 1 u))).1 mid).1 (.line t2 (.xds 1 v))).2 := by
  have ne : xdsFilter u ≠ xdsFilter v := by
    intro e
    have hl : w.length = 0 := by
      rcases hp with h | h
      · have := congrArg List.length h; rw [e, List.length_append] at this; omega
      · have := congrArg List.length h; rw [e, List.length_append] at this; omega
    exact hw (List.eq_nil_of_length_eq_zero hl)
  intro e he
  cases e with
  | network n => exact absurd (name_needs_equal_repeat cfg s0 t1 t2 u v mid hmid n (Or.inl he)).1 ne
  | networkId n => exact absurd (name_needs_equal_repeat cfg s0 t1 t2 u v mid hmid n (Or.inr he)).1 ne
  | progId _ => exact ⟨rfl, rfl⟩
  | localTime _ _ => exact ⟨rfl, rfl⟩
  | aspect _ => exact ⟨rfl, rfl⟩
  | progInfo _ => exact ⟨rfl, rfl⟩

-- non-vacuity (the seeded change C13-d): "ABCD" then "ABC" announces nothing; "ABC" once more does
example : (runAtoms cfg0 init [.mask 3534, .line 0 (.xds 1 [0x41, 0x42, 0x43, 0x44]), .line 0 (.xds 1 [0x41, 0x42, 0x43])]).2 = [] := by
  decide
example : ((runAtoms cfg0 init [.mask 3534, .line 0 (.xds 1 [0x41, 0x42, 0x43, 0x44]), .line 0 (.xds 1 [0x41, 0x42, 0x43]),
    .line 0 (.xds 1 [0x41, 0x42, 0x43])]).2.map Ev.type) = [VBI_EVENT_NETWORK, VBI_EVENT_NETWORK_ID] := by decide

/-! ## the VPS programme id -/

/-- What the `memcmp (&pid, &vbi->vps_pid, sizeof (pid))` of `vbi_decode_vps` covers: two records are equal
    exactly if the nine fields the decoders write are (channel, CNI type, CNI, PIL, LUF, MI, PRF, PCS audio,
    PTY) - the model's record has no field outside the comparison.  (The C struct has `tape_delayed` and two
    reserved arrays besides, zero in both operands after `CLEAR`, and no padding: `layout` op, `pid ... :dirty`
    marker of the harness.) -/
theorem pid_compare_covers_every_field (p q : Pid) :
    p = q ↔ (p.channel = q.channel ∧ p.cniType = q.cniType ∧ p.cni = q.cni ∧ p.pil = q.pil ∧ p.luf = q.luf ∧
             p.mi = q.mi ∧ p.prf = q.prf ∧ p.pcsAudio = q.pcsAudio ∧ p.pty = q.pty) := by
  rw [pid_eq_iff_fields]
  simp [pidFields]

/-- For VPS the record comparison is the comparison of everything the line transmits for the label:
    CNI, PIL, PCS audio and PTY. -/
theorem vps_label_eq_iff (b1 b2 : Buf) :
    decodeVpsPdc b1 = decodeVpsPdc b2 ↔
      (decodeVpsCni b1 = decodeVpsCni b2 ∧ (decodeVpsPdc b1).pil = (decodeVpsPdc b2).pil ∧
       bt b1 2 >>> 6 = bt b2 2 >>> 6 ∧ bt b1 12 = bt b2 12) := by
  rw [pid_compare_covers_every_field]
  simp [decodeVpsPdc]

/-- From ANY state: a VPS line `b1`, then ANY ticks (time-outs included), channel switches, WSS lines and pages,
    then a VPS line `b2`.  A PROG_ID event at `b2` needs the two lines to carry labels equal in EVERY transmitted
    field (CNI, PIL, PCS audio, PTY), and the event carries exactly that label. -/
theorem vps_pid_repeat_complete (cfg : Cfg) (s0 : State) (t1 t2 : Nat) (b1 b2 : Buf) (mid : List Atom)
    (hmid : ∀ a ∈ mid, a.pidQuiet = true) (p : Pid)
    (h : Ev.progId p ∈ (stepAtom cfg (runAtoms cfg (stepAtom cfg s0 (.line t1 (.vps b1))).1 mid).1 (.line t2 (.vps b2))).2) :
    p = decodeVpsPdc b2 ∧ decodeVpsCni b1 = decodeVpsCni b2 ∧ (decodeVpsPdc b1).pil = (decodeVpsPdc b2).pil ∧
    bt b1 2 >>> 6 = bt b2 2 >>> 6 ∧ bt b1 12 = bt b2 12 := by
  have k := vps_pid_needs_equal_repeat cfg s0 t1 t2 b1 b2 mid hmid p h
  exact ⟨k.2, (vps_label_eq_iff b1 b2).mp k.1⟩

/-- the seeded change C13-c in the model: same CNI, PIL and PCS, PTY 0x31 then 0x35 -/
def vpsPty (pty : Nat) : Line := .vps [0, 0, 0x80, 0, 0, 0, 0, 0, 0xC0, 0xD1, 0x5A, 0x81, pty]

-- non-vacuity: the identical line twice raises PROG_ID with its label; a different PTY on the second does not
example : ((runAtoms cfg0 init [.mask 3534, .line 0 (vpsPty 0x31), .line 0 (vpsPty 0x31)]).2.filter (·.isExtra)) =
    [Ev.progId (decodeVpsPdc [0, 0, 0x80, 0, 0, 0, 0, 0, 0xC0, 0xD1, 0x5A, 0x81, 0x31])] := by decide
example : ((runAtoms cfg0 init [.mask 3534, .line 0 (vpsPty 0x31), .line 0 (vpsPty 0x35)]).2.filter (·.isExtra)) = [] := by decide

/-- All histories, all interleavings of all carriers, from the start: whenever a VPS line raises PROG_ID, the
    event's label is this line's, and the very same complete label was carried by an earlier VPS line of the
    history (the stored record is always the complete label of one received line, never a mixture, and never
    the all-zero record a reset or a new handler leaves). -/
theorem vps_pid_was_received_before (cfg : Cfg) (hist : List Atom) (t : Nat) (b : Buf) (p : Pid)
    (h : Ev.progId p ∈ (stepAtom cfg (runAtoms cfg init hist).1 (.line t (.vps b))).2) :
    p = decodeVpsPdc b ∧ decodeVpsPdc b ∈ vpsLabels hist := by
  simp only [stepAtom, rxLine] at h
  have f := rxVps_progId_full cfg _ b p h
  refine ⟨f.1, ?_⟩
  have nz : decodeVpsPdc b ≠ {} := by
    intro e
    have := congrArg Pid.channel e
    simp [decodeVpsPdc, VBI_PID_CHANNEL_VPS] at this
  rcases runAtoms_vpsPid cfg hist init with e | e | e
  · rw [f.2.1] at e; exact absurd e nz
  · rw [f.2.1] at e; exact absurd e nz
  · rw [f.2.1] at e; exact e

/-- packet 8/30 format 1 with CNI 0x1234 -/
def p8301Demo : Line := .ttx [0x15,0xEA,0x15,0xEA,0xEA,0xEA,0x2F,0xEA,0x5E,0x48,0x2C,0x85,0x26,0x98,0x65,0x23,0x11,0x11,0x20,0x20,
  0x20,0x20,0x20,0x20,0x20,0x20,0x20,0x20,0x20,0x20,0x20,0x20,0x20,0x20,0x20,0x20,0x20,0x20,0x20,0x20,0x20,0x20]

/-- the table of the tree under test with the shared debounce cycle (F11 unrepaired) resp. one cycle per carrier -/
def cfgShared : Cfg := { cfg0 with perCarrier := false }
def cfgPer : Cfg := { cfg0 with perCarrier := true }

/-- Why `vps_pid_repeat_complete` excludes Teletext lines (and XDS names) between the two VPS lines: VPS lines that
    arrive while nothing is pending are not looked at, and in the shared-cycle shape (`perCarrier = false`, F11) the
    debounce cycle is shared with the other carriers.
    Label P1 announced; a line with another PTY (ignored); a new 8/30 format 1 CNI starts a cycle; P1 again is
    announced by comparison with the label stored three VPS lines ago, although the PREVIOUS VPS line carried a
    different one.  `vps_pid_was_received_before` is what holds in every interleaving.  (Observation; the same
    history on the real code: corpus/C13/obs-vps-pid-stale-label.ops.)  With one cycle per carrier the Teletext
    packet does not make the VPS block look at its line: no PROG_ID (last conjunct). -/
theorem vps_pid_interleaved_observation :
    (runAtoms cfgShared init [.mask 3534, .line 0 (vpsPty 0x31), .line 0 (vpsPty 0x31), .line 0 (vpsPty 0x35), .line 0 p8301Demo]).1.vpsPid
      = decodeVpsPdc [0, 0, 0x80, 0, 0, 0, 0, 0, 0xC0, 0xD1, 0x5A, 0x81, 0x31] ∧
    ((stepAtom cfgShared (runAtoms cfgShared init [.mask 3534, .line 0 (vpsPty 0x31), .line 0 (vpsPty 0x31), .line 0 (vpsPty 0x35),
        .line 0 p8301Demo]).1 (.line 0 (vpsPty 0x31))).2.filter (·.isExtra)) =
      [Ev.progId (decodeVpsPdc [0, 0, 0x80, 0, 0, 0, 0, 0, 0xC0, 0xD1, 0x5A, 0x81, 0x31])] ∧
    ((stepAtom cfgPer (runAtoms cfgPer init [.mask 3534, .line 0 (vpsPty 0x31), .line 0 (vpsPty 0x31), .line 0 (vpsPty 0x35),
        .line 0 p8301Demo]).1 (.line 0 (vpsPty 0x31))).2.filter (·.isExtra)) = [] := by decide

/-! ## packet 8/30 format 2 -/

/-- A PROG_ID event from Teletext is the label of this very packet in every field (LCI, LUF, PRF, PCS audio, MI,
    CNI, PIL, PTY as `vbi_decode_teletext_8302_pdc` decodes them).  libzvbi does not debounce it: the packet is
    Hamming 8/4 protected and every valid packet is announced (next theorem). -/
theorem pid_8302_is_this_packets_label (cfg : Cfg) (s : State) (b : Buf) (p : Pid)
    (h : Ev.progId p ∈ (rxTtx cfg s b).2) : decode8302Pdc b = some p ∧ pidFields p = (decode8302Pdc b).elim [] pidFields := by
  have e := rxTtx_progId cfg s b p h
  exact ⟨e, by rw [e]; rfl⟩

/-- a packet 8/30 format 2: CNI 0x1234, PIL 0x2B0C0, PTY 0x31, LCI 1, PRF, PCS 2, MI -/
def p8302Demo : Line := .ttx [0x15,0xEA,0x49,0xEA,0xEA,0xEA,0x2F,0xEA,0x5E,0x8C,0x73,0xD0,0x15,0x73,0x5E,0xA1,0x15,0x15,0xB6,0x49,
  0xA1,0xD0,0x20,0x20,0x20,0x20,0x20,0x20,0x20,0x20,0x20,0x20,0x20,0x20,0x20,0x20,0x20,0x20,0x20,0x20,0x20,0x20]

/-- Observation, not a theorem about a debounce: the first reception of a format 2 packet already raises PROG_ID
    (with the complete label). -/
theorem pid_8302_first_reception_is_announced :
    (runAtoms cfg0 init [.mask 3534, .line 0 p8302Demo]).2.filter (·.isExtra) =
      [Ev.progId { channel := 1, cniType := VBI_CNI_TYPE_8302, cni := 0x1234, pil := 0x2B0C0, luf := 0, mi := 1, prf := 1,
                   pcsAudio := 2, pty := 0x31 }] := by decide

end Zvbi.Props.C13Str
