import ZvbiModel.Search.LemmasAnchors
import ZvbiModel.Search.LemmasExact
import ZvbiModel.Search.WitnessD8Fixed
import ZvbiModel.Search.Current
/-!
# C17, line anchors: the flags search.c hands to ure_exec, in both source shapes (round 6)

Finding C17-D8 and its repair fixes/C17-line-anchors.diff (search.c half) are two source shapes of the flags argument of
the `ure_exec` calls in `search_page_fwd` / `search_page_rev`, selected by `Shape.anchors`, read from /repo on every run by
translate/gen_search.py (`Zvbi.Gen.Search.lineAnchors` -> `Shape.current`).  All theorems of Props/C17.lean and
Props/C17Pass.lean hold for an arbitrary `sh`, i.e. in both shapes (the matcher is a parameter there).  Here: what the
matcher is TOLD about the text it gets.

* `anchors_fwd_flags` / `anchors_rev_flags` (repaired shape): URE_NOTBOL is handed over exactly when the text handed over
  does not begin at a row start (`lineStart`: offset 0 of the page text or directly behind a row separator) - also when a
  search continues inside a row (forward: text from the cursor; backward: every repeated exec behind a match).
* `anchors_fwd_success` (repaired shape): a SUCCESS of search_page_fwd is a match the engine found under those flags.
* `anchors_rev_report`: what search_page_rev reports is the result of an exec under `revFlags` at an offset inside the text.
* `anchors_found_shape`: the shape as found: forward always 0 (C17-D8), backward URE_NOTBOL for every `pos > 0` (so the
  `^` occurrences of later rows are never seen by the repeated exec: the FIRST `^` occurrence of a page is reported).
* `rev_loop_total`: the loop of search_page_rev ends for EVERY matcher, empty matches included (b5116c9) - the hypothesis
  of `rev_matches_terminate` (Props/C17.lean) is gone.
* `fwd_continue_bol_repaired`: the witness of C17-D8 on the repaired shape - the page is not reported a second time.
What `^` / `$` then MEAN inside ure_exec is Props/C17UreAnchors.lean.
-/
namespace Zvbi.Props.C17Anchors
open Zvbi.Search

/-- **anchors_fwd_flags.** Repaired shape, `search_page_fwd`, any haystack and any position `first` inside it (the whole
page: `first = 0`; continued search: the cursor): URE_NOTBOL is handed to ure_exec if and only if `first` is NOT the
beginning of a row; URE_NOTEOL never (the forward haystack ends with a row separator). -/
theorem anchors_fwd_flags (sh : Shape) (ha : sh.anchors = true) (hay : List Nat) (first : Nat) (h : first ≤ hay.length) :
    ((fwdFlags sh hay first).notBol = true ↔ ¬ lineStart hay first) ∧ (fwdFlags sh hay first).notEol = false := by
  rw [fwdFlags_repaired sh ha]
  exact ⟨insideRow_iff hay first h, rfl⟩

example : (fwdFlags Shape.anchored [0x61, 0x62, 0x0A, 0x63] 3).notBol = false ∧
    (fwdFlags Shape.anchored [0x61, 0x62, 0x0A, 0x63] 1).notBol = true := by decide

/-- **anchors_rev_flags.** Repaired shape, `search_page_rev`, the exec that begins at offset `pos` of the haystack (0 for
the first, behind the previous match for the repeated ones): URE_NOTBOL if and only if `pos` is not the beginning of a
row; URE_NOTEOL is the flag `hayRev` computed (the haystack was cut inside a row). -/
theorem anchors_rev_flags (sh : Shape) (ha : sh.anchors = true) (hay : List Nat) (ne : Bool) (pos : Nat) (h : pos ≤ hay.length) :
    ((revFlags sh hay ne pos).notBol = true ↔ ¬ lineStart hay pos) ∧ (revFlags sh hay ne pos).notEol = ne := by
  rw [revFlags_repaired sh ha]
  exact ⟨insideRow_iff hay pos h, rfl⟩

example : (revFlags Shape.anchored [0x61, 0x0A, 0x61, 0x0A] true 2).notBol = false ∧
    (revFlags Shape.repaired [0x61, 0x0A, 0x61, 0x0A] true 2).notBol = true := by decide

/-- **anchors_found_shape.** The shape as found (C17-D8): `search_page_fwd` hands flags 0 wherever the text begins;
`search_page_rev` hands URE_NOTBOL for every offset behind 0, row start or not. -/
theorem anchors_found_shape (sh : Shape) (ha : sh.anchors = false) (hay : List Nat) (ne : Bool) (pos : Nat) :
    fwdFlags sh hay pos = {} ∧ revFlags sh hay ne pos = { notBol := decide (pos > 0), notEol := ne } :=
  ⟨fwdFlags_found sh ha hay pos, revFlags_found sh ha hay ne pos⟩

example : fwdFlags Shape.repaired [0x61, 0x62] 1 = {} := (anchors_found_shape Shape.repaired rfl _ false _).1

/-- **anchors_fwd_success.** Repaired shape: when `search_page_fwd` reports a page (return value 1), the engine returned
that match on the text from `first` under flags that say truthfully whether `first` is a row start. -/
theorem anchors_fwd_success (sh : Shape) (ha : sh.anchors = true) (exec : Exec) (s0 s' : SearchSt) (p : Nat) (e : Entry) (w : Bool)
    (h : pageFwd sh exec s0 p e w = (1, s')) :
    ∃ ms me, exec { notBol := insideRow (hayFwd e.text (cursorRow s0 p e) s0.col0).1 (hayFwd e.text (cursorRow s0 p e) s0.col0).2,
                    notEol := false }
        ((hayFwd e.text (cursorRow s0 p e) s0.col0).1.drop (hayFwd e.text (cursorRow s0 p e) s0.col0).2) = some (ms, me) := by
  obtain ⟨_, ms, me, hex, _⟩ := pageFwd_one h
  rw [fwdFlags_repaired sh ha] at hex
  exact ⟨ms, me, hex⟩

example : ∃ ms me, bolSpy { notBol := false, notEol := false } [0x6d, 0x6d] = some (ms, me) := ⟨0, 2, by decide⟩

/-- **anchors_rev_report.** Either shape: the loop of `search_page_rev` started at (0, 0, 0, 0) returns `i = 0` (nothing
found) or the result of an exec at an offset `pos'` inside the haystack that was handed exactly `revFlags sh hay ne pos'`
- in the repaired shape: URE_NOTBOL iff `pos'` is not a row start (`anchors_rev_flags`). -/
theorem anchors_rev_report (sh : Shape) (exec : Exec) (hay : List Nat) (ne : Bool) (f i ms me : Nat)
    (h : revMatches sh exec hay ne f 0 0 0 0 = some (i, ms, me)) (hi : i ≠ 0) :
    ∃ pos' ms1 me1, pos' < hay.length ∧ exec (revFlags sh hay ne pos') (hay.drop pos') = some (ms1, me1) ∧
      ms = pos' + ms1 ∧ me = pos' + me1 := by
  rcases revMatches_last sh exec hay ne f 0 0 0 0 i ms me h with ⟨h0, _⟩ | ⟨p, a, b, _, h2, h3, h4, h5⟩
  · exact absurd h0 hi
  · exact ⟨p, a, b, h2, h3, h4, h5⟩

example : revMatches Shape.anchored (fun _ t => if t.take 1 = [0x61] then some (0, 1) else none) [0x61] false 3 0 0 0 0 =
    some (1, 0, 1) := by decide

/-- **rev_loop_total.** The repeated `ure_exec` of `search_page_rev` ends for EVERY matcher, also one that returns empty
matches (`pos = (me > pos) ? me : pos + 1`, b5116c9): with the fuel `pageRev` gives it the model never runs out. -/
theorem rev_loop_total (sh : Shape) (exec : Exec) (hay : List Nat) (ne : Bool) :
    revMatches sh exec hay ne (hay.length + 2) 0 0 0 0 ≠ none :=
  revMatches_terminates sh exec hay ne

example : revMatches Shape.repaired (fun _ _ => some (0, 0)) [1, 2, 3] false 5 0 0 0 0 ≠ none := rev_loop_total _ _ _ _

/-- **fwd_continue_bol_repaired.** The witness of finding C17-D8 (row "abmm", cursor behind "ab", matcher for `^mm` that
obeys URE_NOTBOL) in the repaired shape: the flags say NOTBOL, the page is not reported again. -/
theorem fwd_continue_bol_repaired :
    (pageFwd Shape.anchored bolSpy bolCtx 0x100 bolPage false).1 = 0 ∧
    fwdFlags Shape.anchored (hayFwd bolPage.text 1 2).1 (hayFwd bolPage.text 1 2).2 = { notBol := true } :=
  cexD8_fixed_facts

/-- **current_anchor_shape.** The shape gen_search.py read from /repo on this run is one of the two. -/
theorem current_anchor_shape : Shape.current.anchors = Zvbi.Gen.Search.lineAnchors := rfl

example : Shape.current.anchors = true ∨ Shape.current.anchors = false := by cases Shape.current.anchors <;> simp

end Zvbi.Props.C17Anchors
