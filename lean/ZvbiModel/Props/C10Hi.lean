import ZvbiModel.Props.C10Evict
import ZvbiModel.Cache.HiSubRef
import ZvbiModel.Cache.HiSubWrap
/-!
# C10, round 5: 'highest subpage' - the open statement is settled

`hi_subno_agrees_full` (Props/C10Evict.lean: `hi_subno_agrees` without the hypothesis `Tame`) is FALSE, on both source
shapes of `_vbi_cache_put_page`, and the reason is not finding F17: `n_subpages` (`uint16_t`) counts the ALLOCATED
versions of a page number, replaced versions a client still holds included, and `cache_network_add_page` starts the
recorded range over when the counter reads 1.  A client holding 65536 references on versions of one page number makes
the counter read 0; the next store is taken for the only sub-page.  The witness (65538 operations) is proved by
induction over a closed form of the state (Cache/HiSubWrap.lean), and was replayed on the real code
(corpus/C10/latent_hi_subno_wrap.txt).

What IS true for every history of the repaired shape (the shape /repo has): the hypothesis can be weakened from
"no state holds 65536 versions of one page number" to a bound on the CLIENT: fewer than 65280 page references held
at any time (`hi_subno_agrees_refbound`) - at most 256 versions are retrievable (`version_bound_repaired`), every other
allocated version is a zombie and a zombie is referenced.  The Teletext decoder of libzvbi holds O(1) references.
-/
namespace Zvbi.Props.C10Hi
open Zvbi.Cache Zvbi.Gen.Cache Zvbi.Props.C10Evict

/-- **The witness.**  After `addnet`, 65536 stores of page 10A.5 whose returned references are all kept, and one store of
    10A.1 - on either source shape - the version 10A.5 stored last is allocated, RETRIEVABLE (on its hash chain, not a
    zombie) and held, and the recorded range of page 10A in its network is `1 .. 1`. -/
theorem hi_subno_wrap_witness (fix : Bool) :
    ∃ (n : Net) (p : Page), n ∈ (runF fix init wrapOps).nets ∧ p ∈ (runF fix init wrapOps).pages ∧ p.net = n.id
      ∧ p.pri = .normal ∧ 0 < p.ref ∧ p.pgno = 0x10A ∧ p.subno = 5
      ∧ (n.getStat 0x10A).subMin = 1 ∧ (n.getStat 0x10A).subMax = 1 := by
  obtain ⟨n, p, h1, h2, h3, h4, h5, h6, h7, h8⟩ := wrap_final fix
  unfold rng at h8
  simp only [Prod.mk.injEq] at h8
  exact ⟨n, p, h1, h2, h3, h4, h5, h6, h7, h8.1, h8.2⟩

/-- the witness history has 65538 operations -/
example : wrapOps.length = 65538 := wrapOps_length

/-- ... and `vbi_cache_hi_subno` answers 1 for page 10A while sub-page 5 of it is cached: the API disagrees with the
    map, on the current source too -/
theorem hi_subno_wrap_answer (fix : Bool) :
    (∃ p ∈ (runF fix init wrapOps).pages, p.pri ≠ .zombie ∧ p.net = 0 ∧ p.pgno = 0x10A ∧ p.subno = 5)
    ∧ (stepF fix (runF fix init wrapOps) (.hiSubno 0 0x10A)).2 = .num 1 := by
  obtain ⟨n, p, h1, h2, h3, h4, _, h6, h7, _, h9⟩ := hi_subno_wrap_witness fix
  have g := good_reach fix wrapOps
  have hid : n.id = 0 := wrap_nets fix n h1
  refine ⟨⟨p, h2, by rw [h4]; decide, by rw [h3, hid], h6, h7⟩, ?_⟩
  have hf : (runF fix init wrapOps).findNet 0 = some n := by
    have := findNet_of_mem' g.1 h1
    rw [hid] at this
    exact this
  rw [hi_subno_answer fix _ 0 0x10A n hf (by decide), h9]

/-- **`hi_subno_agrees_full` is false** (it was listed as open): the recorded range does not bound the sub-page numbers of
    the allocated - not even of the retrievable - versions after every history. -/
theorem hi_subno_agrees_full_counterexample : ¬ hi_subno_agrees_full := by
  intro h
  obtain ⟨n, p, h1, h2, h3, _, _, h6, h7, _, h9⟩ := hi_subno_wrap_witness true
  have := h true wrapOps n p h1 h2 h3
  rw [h6, h7, h9] at this
  exact absurd this (by decide)

/-- **Repaired shape (the source as it is), every history:** if the stored sub-page numbers fit 16 bits and the clients
    hold fewer than 65280 page references at any time (`RefBound` on every state of the history), the recorded range
    `subno_min .. subno_max` bounds the sub-page number of every allocated version of every page number - so
    `vbi_cache_hi_subno` (which answers `subno_max`, `hi_subno_answer`) is at least the highest sub-page number cached.
    The hypothesis is about the CLIENT, not about the cache content: any number of pages may be cached. -/
theorem hi_subno_agrees_refbound (ops : List Op) (h1 : ∀ op ∈ ops, SubOk op)
    (h2 : ∀ k, 1 ≤ k → k ≤ ops.length → RefBound (runF true init (ops.take k)))
    (n : Net) (p : Page) (hn : n ∈ (runF true init ops).nets) (hp : p ∈ (runF true init ops).pages) (hnet : p.net = n.id) :
    (n.getStat p.pgno).subMin ≤ p.subno ∧ p.subno ≤ (n.getStat p.pgno).subMax :=
  hi_subno_agrees true ops (tame_of_refbound ops init good_init ukey_init h1 h2) n p hn hp hnet

/-- the hypothesis is satisfiable and the bound is attained: the decoder's pattern (store, release) -/
example : RefBound (runF true init [.addNet, .put 0 ⟨0x101, 2, 0, 0, 0, 7⟩, .unref 0, .put 0 ⟨0x101, 5, 0, 0, 0, 8⟩])
    ∧ ((runF true init [.addNet, .put 0 ⟨0x101, 2, 0, 0, 0, 7⟩, .unref 0, .put 0 ⟨0x101, 5, 0, 0, 0, 8⟩]).nets.map
      (fun n => ((n.getStat 0x101).subMin, (n.getStat 0x101).subMax))) = [(2, 5)] := by
  constructor
  · show _ + 256 < 65536
    decide
  · decide

/-- the hypothesis is exact in kind: what breaks it is held references only.  In every reachable state of the repaired
    shape the allocated versions of a page number are at most 256 retrievable ones plus the referenced pages. -/
theorem versions_le_refs_repaired (ops : List Op) (nid pg : Nat) :
    (runF true init ops).pages.countP (fun p => p.net = nid ∧ p.pgno = pg)
      ≤ 256 + (runF true init ops).pages.countP (fun p => 0 < p.ref) := by
  have g := good_reach true ops
  have h1 := count_le_live_add_ref nid pg _ g.1.zombieRef
  have h2 := version_bound_repaired ops nid pg
  omega

/-- ... so `n_subpages` is the exact number of allocated versions (no modulus) under the same client bound -/
theorem nsub_exact_refbound (ops : List Op) (hb : RefBound (runF true init ops)) (n : Net) (hn : n ∈ (runF true init ops).nets)
    (pg : Nat) : (n.getStat pg).nSub = (runF true init ops).pages.countP (fun p => p.net = n.id ∧ p.pgno = pg) := by
  have g := good_reach true ops
  have h := versions_le_refs_repaired ops n.id pg
  rw [g.1.nSub n hn pg]
  unfold RefBound at hb
  exact Nat.mod_eq_of_lt (by omega)

example : (runF true init [.addNet, .put 0 ⟨0x101, 2, 0, 0, 0, 7⟩, .put 0 ⟨0x101, 2, 0, 0, 0, 8⟩]).nets.map
    (fun n => (n.getStat 0x101).nSub) = [2] := by decide

end Zvbi.Props.C10Hi
