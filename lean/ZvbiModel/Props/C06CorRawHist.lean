import ZvbiModel.Mux.CorRawHistory
import ZvbiModel.Props.C06CorRaw
/-!
# C06, round 5 - `vbi_dvb_mux_cor` = `vbi_dvb_mux_feed` over whole histories with raw VBI data

Property theorems only.  Models: `Mux/CorRawModel.lean`, `Mux/RawModel.lean`; the two applications `corRunR` / `runR` and the
lemmas: `Mux/CorRawHistory.lean`.
-/
namespace Zvbi.Props.C06CorRawHist
open Zvbi.Mux Zvbi.Mux.EnParse
open Zvbi.Props.C06Raw (StateOK exSp exRaw exLine)
open Zvbi.Props.C06CorRaw (exFrame exTs)

/-- **cor_history_equals_feed_raw.**  Both source shapes, PES and TS, any multiplexer in a reachable state with nothing pending:
for EVERY history of non-empty well-formed frames - sliced lines and raw line requests, `raw` / `sp` NULL or given, sampling
parameters valid or not, accepted or rejected, each frame with its own non-empty list of positive output buffer sizes used
cyclically - and configuration changes, the application that runs the `vbi_dvb_mux_cor` loop produces byte for byte the stream
of the application that calls `vbi_dvb_mux_feed`, and both end with nothing pending, the same configuration, continuity counter
and raw-line state (`raw_samples_left == 0`). -/
theorem cor_history_equals_feed_raw (keep : Bool) (fuel : Nat) (hfuel : 66928 ≤ fuel) (ops : List (OpR × List Nat))
    (hops : ∀ op ∈ ops, CorOpROK op) (m : RMux) (hm : StateOK m) (hi : Idle m.mux) :
    (corRunR keep fuel m ops).2 = (runR keep m (ops.map Prod.fst)).2
    ∧ Idle (corRunR keep fuel m ops).1.mux
    ∧ (corRunR keep fuel m ops).1.mux.cfg = (runR keep m (ops.map Prod.fst)).1.mux.cfg
    ∧ (corRunR keep fuel m ops).1.mux.cc = (runR keep m (ops.map Prod.fst)).1.mux.cc
    ∧ (corRunR keep fuel m ops).1.raw = (runR keep m (ops.map Prod.fst)).1.raw
    ∧ (corRunR keep fuel m ops).1.raw.left = 0 := by
  obtain ⟨h1, h2⟩ := cor_history_equals_feed_raw_lemma keep fuel hfuel ops hops m m ⟨hi, rfl, rfl, rfl, hm.raw, hm.cfg⟩
  exact ⟨h1, h2.idle, h2.cfg, h2.cc, h2.raw, h2.left⟩

/-! non-vacuity: TS mode; an accepted frame with a raw line, a rejected one (line 10 is outside the raw frame), a frame with
invalid sampling parameters, a configuration change, another accepted frame -/
def exHist : List (OpR × List Nat) :=
  [(.frame exFrame 0xFFFFFFFF (some exRaw) (some exSp) 7, [1, 7, 50]),
   (.frame [exLine SL_VBI625 10] 0xFFFFFFFF (some exRaw) (some exSp) 8, [3]),
   (.frame exFrame 0xFFFFFFFF (some exRaw) (some { exSp with offset := 131 }) 9, [100]),
   (.dataId 0x10, []),
   (.frame exFrame 0xFFFFFFFF (some exRaw) (some exSp) 10, [188, 5])]
example : ∀ op ∈ exHist, CorOpROK op := by
  have wf : ∀ id line : Nat, id < 2 ^ 32 → line < 2 ^ 32 → Sliced.WF (exLine id line) := fun id line hi hl =>
    ⟨hi, hl, by simp [exLine], by intro b hb; have := (List.mem_replicate.mp hb).2; omega⟩
  have fwf : ∀ s ∈ exFrame, Sliced.WF s := by
    intro s hs
    simp only [exFrame, List.mem_cons, List.not_mem_nil, or_false] at hs
    rcases hs with rfl | rfl | rfl <;> exact wf _ _ (by decide) (by decide)
  intro op hop
  simp only [exHist, List.mem_cons, List.not_mem_nil, or_false] at hop
  rcases hop with rfl | rfl | rfl | rfl | rfl
  · exact ⟨by decide, fwf, by decide, by decide⟩
  · exact ⟨by decide, by intro s hs; rw [List.mem_singleton] at hs; subst hs; exact wf _ _ (by decide) (by decide),
      by decide, by decide⟩
  · exact ⟨by decide, fwf, by decide, by decide⟩
  · trivial
  · exact ⟨by decide, fwf, by decide, by decide⟩
example : (corRunR true 66928 exTs exHist).2 = (runR true exTs (exHist.map Prod.fst)).2
    ∧ (runR true exTs (exHist.map Prod.fst)).2.length = 3 * 188 + 3 * 188 := by decide +kernel

end Zvbi.Props.C06CorRawHist
