import ZvbiModel.Props.C02SerialCycle
/-!
# Property C02: the magazine-serial cycle theorem joined with the formatter (`page_roundtrip_cycle_serial_fetch`)

The serial-mode counterpart of `C02Chain.page_roundtrip_cycle_fetch`: what `vbi_fetch_vt_page` returns after a whole
cycle of magazine-serial transmissions of several magazines (`C02SerialCycle.page_roundtrip_cycle_serial`).
-/
namespace Zvbi.Props.C02SerialCycle
open Zvbi.Ttx Zvbi.Hamm Zvbi.Fmt Zvbi.Fmt.L1Spec Zvbi.Props.C02Roundtrip Zvbi.Props.C02Interleave

/-- **page_roundtrip_cycle_serial_fetch**: the serial cycle theorem joined with the formatter.  Under the hypotheses of
`page_roundtrip_cycle_serial`, for the LAST transmission `x` of a page number in the cycle (no later transmission and not
the final header carry that page number): in the state after the final header `vbi_fetch_vt_page` (model `C02.fetch`:
cache look-up, LOP check, Level 1 / 1.5 formatting with default region `region`) with the wildcard sub-code - or the
sub-code the page was filed under - succeeds with the transmitted page number, and every cell of rows 0..24 is
`L1Spec.cell` (EN 300 706 12.2) of a page `q` whose national option bits are the transmitted C12-C14 and whose byte at
(row r, column c), for every row number r received in this transmission, is byte c of a packet r of this transmission. -/
theorem page_roundtrip_cycle_serial_fetch (tmpl : List Nat) (off : Nat)
    (hist : List Packet) (hhist : ∀ p ∈ hist, GoodS tmpl off p)
    (x0 : STx) (xs : List STx) (hx : ∀ x ∈ x0 :: xs, SSegOk tmpl off x)
    (fin : Packet) (mF finPage : Nat) (hmF : mF < 8) (hfa : a16 fin 0 = some mF) (hfp : a16 fin 2 = some finPage)
    (hft : TextOnly fin)
    (halt : AltS ((x0 :: xs).map (·.1.pgno) ++ [mag8Of mF * 256 + finPage])) (region : Nat)
    (pre : List STx) (x : STx) (post : List STx) (e : x0 :: xs = pre ++ x :: post)
    (hlast : ∀ y ∈ post, y.1.pgno ≠ x.1.pgno) (hfinne : mag8Of mF * 256 + finPage ≠ x.1.pgno) :
    let sF := (run (run (init.enable true) hist).1 (sstream (x0 :: xs) ++ [fin])).1
    ∃ q, q.national = rev8 x.1.fl &&& 7
      ∧ (∀ subno, subno = q.subno ∨ subno = ANY_SUBNO →
          ∃ cells, C02.fetch sF region x.1.pgno subno = some (x.1.pgno, q.subno, cells)
            ∧ ∀ row col, row < 25 → col < 40 → cellAt cells row col = L1Spec.cell .lib (C02.pageInOf region q) row col)
      ∧ (∀ r ∈ x.rows, ∃ r' ∈ x.rows, r'.1 = r.1
          ∧ ∀ c, c < 40 → (C02.pageInOf region q).raw (40 * r.1 + c) = r'.2.getD c 0) := by
  intro sF
  obtain ⟨_, hclaims⟩ := page_roundtrip_cycle_serial tmpl off hist hhist x0 xs hx fin mF finPage hmF hfa hfp hft halt
  obtain ⟨q, pt, hF, _, hknown, _⟩ := hclaims pre x post e
  obtain ⟨hqmem, hget⟩ := hknown hlast hfinne
  refine ⟨q, hF.national, ?_, ?_⟩
  · intro subno hs
    have hg := hget subno 0xFFFFFFFF hs
    refine ⟨format (C02.pageInOf region q), ?_, fun row col hr hc => format_cellAt _ row col hr hc⟩
    unfold C02.fetch C02.fetchCache C02.cacheOf
    cases hc : cacheGet sF.net.cache x.1.pgno subno 0xFFFFFFFF with
    | none => rw [hc] at hg; cases hg
    | some r =>
      obtain ⟨q', c'⟩ := r
      rw [hc] at hg
      simp only [Option.map_some, Option.some.injEq] at hg
      subst hg
      simp only [hF.fn, true_or, if_true, hF.pgno]
  · intro r hr
    have hxok : SSegOk tmpl off x := hx x (by rw [e]; simp)
    have hsh : q.raw.length = 26 := by
      have := (run_shape (hist ++ (sstream (x0 :: xs) ++ [fin])) (init.enable true) (init_shape true)).1.cache
      rw [run_append] at this
      exact this q hqmem
    have hbl : (x.1.base (s1S (run (run (init.enable true) hist).1 (sstream pre)).1 x.1) x.2.1).length = 26 := by
      rw [← mergeRows_length _ x.rows, ← hF.raw]; exact hsh
    have hr25 : 1 ≤ r.1 ∧ r.1 ≤ 25 := by
      unfold STx.rows rowsOf at hr
      rw [List.mem_map] at hr
      obtain ⟨y, hy, rfl⟩ := hr
      exact ⟨(hxok.rows y hy).2.1, (hxok.rows y hy).2.2.1⟩
    obtain ⟨v, hv, hvm⟩ := merged_row_received _ x.rows r.1 (by rw [hbl]; omega)
      (by rw [List.any_eq_true]; exact ⟨r, hr, by simp⟩)
    refine ⟨(r.1, v), hvm, rfl, ?_⟩
    intro c hc
    show ((q.raw.getD ((40 * r.1 + c) / 40) []).getD ((40 * r.1 + c) % 40) 0) = v.getD c 0
    have e1 : (40 * r.1 + c) / 40 = r.1 := by omega
    have e2 : (40 * r.1 + c) % 40 = c := by omega
    rw [e1, e2, hF.raw, List.getD_eq_getElem?_getD (l := mergeRows _ _), hv]
    rfl

/-- `page_roundtrip_cycle_serial_fetch` APPLIES to the concrete cycle: the second transmission of page 150 (magazine 1,
    the last of that page number) is fetched with the wildcard sub-code, cells = L1Spec of a page whose row 2 is the
    packet sent -/
example : ∃ q cells, C02.fetch (run (run (init.enable true) []).1 (sstream [ser0, ser1, ser2] ++ [hdS 3 0xFF])).1 0 0x150
      ANY_SUBNO = some (0x150, q.subno, cells)
    ∧ ∀ c, c < 40 → (C02.pageInOf 0 q).raw (40 * 2 + c) = 0x45 := by
  have hok : ∀ x ∈ [ser0, ser1, ser2], SSegOk serTmpl 8 x := by
    have : ∀ x ∈ [ser0, ser1, ser2], ssegOkB serTmpl 8 x = true := by decide +kernel
    exact fun x hx => ssegOk_of_dec _ _ x (this x hx)
  obtain ⟨q, _, hfetch, hrows⟩ := page_roundtrip_cycle_serial_fetch serTmpl 8 [] (fun _ h => by cases h) ser0 [ser1, ser2]
    hok (hdS 3 0xFF) 3 0xFF (by decide) (by decide +kernel) (by decide +kernel) (textOnly_of_dec _ (by decide +kernel))
    ⟨by decide, by decide, by decide, trivial⟩ 0 [ser0, ser1] ser2 [] rfl (fun _ h => by cases h) (by decide)
  obtain ⟨cells, hc, _⟩ := hfetch ANY_SUBNO (Or.inr rfl)
  refine ⟨q, cells, hc, ?_⟩
  intro c hc40
  obtain ⟨r', hr', e1, e2⟩ := hrows (2, List.replicate 40 0x45) (by decide +kernel)
  have hr'' : r' = (2, List.replicate 40 0x45) := by
    have : ∀ r ∈ ser2.rows, r.1 = 2 → r = (2, List.replicate 40 0x45) := by decide +kernel
    exact this r' hr' e1
  rw [e2 c hc40, hr'']
  have : ∀ c, c < 40 → (List.replicate 40 0x45).getD c 0 = 0x45 := by decide
  exact this c hc40

end Zvbi.Props.C02SerialCycle
