import ZvbiModel.Ttx.Lemmas8
/-!
# C03 - transmission errors in Teletext are corrected or contained, never shown as data

Property theorems only.  Model: `ZvbiModel/Ttx/Model.lean` (`decodeTeletext` = `vbi_decode_teletext`,
`step` = one Teletext line through `vbi_decode`).  Fault model and sender-side notions:
`ZvbiModel/Ttx/Spec.lean` (`flipBit`, `WellFormed`, `Protected`, `IsHdr8`, `hdrKey`).
Helper lemmas: `ZvbiModel/Ttx/Lemmas*.lean`.
-/
namespace Zvbi.Props.C03
open Zvbi.Ttx Zvbi.Ttx.Spec Zvbi.Hamm Zvbi.Gen

/-! ## clause 1: a single bit error in a Hamming protected byte or triplet is invisible -/

/-- For every decoder state `s`, every received packet `p`, every position `i` which the decoder
    reads in this state through `vbi_unham8` / `vbi_unham16p` / `vbi_unham24p` and which holds a
    valid codeword (`Protected`: the address, and per packet kind header bytes, designation, links,
    X/26, X/27, X/28, M/29, 8/30, MOT, BTT, AIT, MPT, POP bytes) and every bit `b`: the packet with
    that bit inverted produces exactly the same new state, events and return value.  (The 8 header
    bytes after the address are excepted here because `memcpy (raw[0], p, 40)` also stores them
    verbatim; see the next theorem.) -/
theorem single_error_invisible (s : St) (p : Packet) (i b : Nat) (hw : WellFormed p) (hb : b < 8)
    (hp : Protected s p i) (hh : ¬ IsHdr8 s p i) :
    decodeTeletext s (flipBit p i b) = decodeTeletext s p :=
  decode_flip_eq s p i b hw hb hp hh

example : Protected init [0x02, 0x15] 0 := Protected.addr 0 (by decide) ⟨1, by decide, by decide⟩

/-- The same for the 8 Hamming bytes of a header (page number, subcode, control bits): events and
    return value are identical, and both new states are the *same* core result `core` into which
    the verbatim copy of the 8 received bytes is patched (`finish`): the only difference is
    `raw[0][0..7]` of the page in progress, which the formatter never reads (teletext.c:2560). -/
theorem single_error_invisible_header_bytes (s : St) (p : Packet) (i b : Nat) (hw : WellFormed p)
    (hb : b < 8) (hp : Protected s p i) :
    ∃ (core : Res × Bool) (m : Nat),
      decodeTeletext s (flipBit p i b) = finish core m (hdr8 (flipBit p i b)) ∧
      decodeTeletext s p = finish core m (hdr8 p) ∧
      (decodeTeletext s (flipBit p i b)).ev = (decodeTeletext s p).ev ∧
      (decodeTeletext s (flipBit p i b)).ret = (decodeTeletext s p).ret := by
  have h := decode_flip s p i b hw hb hp
  cases ha : a16 p 0 with
  | none =>
    rw [ha] at h
    have h2 : decodeTeletext s p = ⟨s, [], false⟩ := by simp [decodeTeletext, ha]
    refine ⟨(⟨s, [], false⟩, false), 0, ?_, ?_, ?_, ?_⟩
    · rw [h]; rfl
    · rw [h2]; rfl
    · rw [h, h2]
    · rw [h, h2]
  | some pmag =>
    refine ⟨process s pmag (view (kindOf s pmag (a8 p 2)) p), pmag &&& 7, ?_, ?_, ?_, ?_⟩
    · rw [h, ha]
    · simp [decodeTeletext, ha]
    · rw [h, ha]; simp only [decodeTeletext, ha, finish]; split <;> rfl
    · rw [h, ha]; simp only [decodeTeletext, ha, finish]; split <;> rfl

/-- ... hence all later fetches: the whole step through `vbi_decode` (frame bookkeeping, then the
    line) yields the same state and event list. -/
theorem single_error_invisible_step (s : St) (p : Packet) (i b : Nat) (hw : WellFormed p) (hb : b < 8)
    (hp : Protected (frameTick s).1 p i) (hh : ¬ IsHdr8 (frameTick s).1 p i) :
    step s (flipBit p i b) = step s p := by
  unfold step
  simp only []
  rw [single_error_invisible (frameTick s).1 p i b hw hb hp hh]

/-! ## clause 2: uncorrectable address / header -/

/-- A packet whose address bytes are uncorrectable changes nothing and sends nothing. -/
theorem bad_address_no_effect (s : St) (p : Packet) (h : a16 p 0 = none) :
    decodeTeletext s p = ⟨s, [], false⟩ := by
  simp [decodeTeletext, h]

example : a16 [0x01, 0x15] 0 = none := by decide

/-- A header whose page number is uncorrectable only abandons the pages in progress of all
    magazines (`vbi_teletext_desync`): no event, cache and network tables untouched. -/
theorem bad_header_page_number (s : St) (p : Packet) (pmag : Nat) (ha : a16 p 0 = some pmag)
    (h0 : pmag >>> 3 = 0) (hm : s.mask = true) (hpg : a16 p 2 = none) :
    decodeTeletext s p = ⟨desync s, [], false⟩ ∧ (desync s).net = s.net :=
  ⟨decode_hdr_bad_pageno s p pmag ha h0 hm hpg, rfl⟩

/-- A header whose page number decodes but whose subcode / control bits are refused
    (`hdrRejected`, the test of packet.c:2316) terminates the page in progress exactly as a good
    header for that page number would (`terminatePage`, which may store it), gives the magazine's
    assembly slot the new page number and discards it (`hdrAbandon`).  Nothing else: -/
theorem bad_header_contained (s : St) (p : Packet) (pmag page : Nat) (ha : a16 p 0 = some pmag)
    (h0 : pmag >>> 3 = 0) (hm : s.mask = true) (hpg : a16 p 2 = some page)
    (hrej : hdrRejected page ((view Kind.hdr p).g16i 2) ((view Kind.hdr p).g16i 4) ((view Kind.hdr p).g16i 6) = true) :
    decodeTeletext s p =
      let mag0 := pmag &&& 7
      let pgno := (if mag0 == 0 then 8 else mag0) * 256 + page
      let t := terminatePage s mag0 pgno page
      ⟨hdrAbandon t.1 mag0 pgno, t.2, false⟩ :=
  decode_hdr_rejected s p pmag page ha h0 hm hpg hrej

/-- ... in particular no byte of such a packet other than address and page number influences
    the result: two refused headers with the same address and page number are indistinguishable. -/
theorem bad_header_no_byte_enters (s : St) (p q : Packet) (pmag page : Nat)
    (hap : a16 p 0 = some pmag) (haq : a16 q 0 = some pmag) (h0 : pmag >>> 3 = 0) (hm : s.mask = true)
    (hpp : a16 p 2 = some page) (hpq : a16 q 2 = some page)
    (hrp : hdrRejected page ((view Kind.hdr p).g16i 2) ((view Kind.hdr p).g16i 4) ((view Kind.hdr p).g16i 6) = true)
    (hrq : hdrRejected page ((view Kind.hdr q).g16i 2) ((view Kind.hdr q).g16i 4) ((view Kind.hdr q).g16i 6) = true) :
    decodeTeletext s p = decodeTeletext s q := by
  rw [decode_hdr_rejected s p pmag page hap h0 hm hpp hrp, decode_hdr_rejected s q pmag page haq h0 hm hpq hrq]

/-- Which headers are refused: an uncorrectable S3/S4 pair or control pair always; an
    uncorrectable S1/S2 pair when S3/S4 decode to 0 - or always, once the repair F21 is in
    (`ttxFixF21` is regenerated from the current packet.c). -/
theorem bad_header_refused_partial (p : Packet) (hw : WellFormed p) (page : Nat)
    (h : (view Kind.hdr p).g16i 4 < 0 ∨ (view Kind.hdr p).g16i 6 < 0
         ∨ ((view Kind.hdr p).g16i 2 < 0 ∧ ((view Kind.hdr p).g16i 4 = 0 ∨ ttxFixF21 = true))) :
    hdrRejected page ((view Kind.hdr p).g16i 2) ((view Kind.hdr p).g16i 4) ((view Kind.hdr p).g16i 6) = true := by
  have hb := view_g16i_le Kind.hdr p 2 hw (by omega)
  unfold hdrRejected
  by_cases hf : ttxFixF21 = true
  · simp only [hf, if_true, Bool.or_eq_true, decide_eq_true_eq]
    rcases h with h | h | ⟨h, _⟩
    · exact Or.inl (Or.inr (Or.inr h))
    · exact Or.inr h
    · exact Or.inl (Or.inr (Or.inl h))
  · have hf' : ttxFixF21 = false := by simpa using hf
    simp only [hf', Bool.false_eq_true, if_false, Bool.or_eq_true, decide_eq_true_eq]
    rcases h with h | h | ⟨h, h4 | h4⟩
    · exact Or.inl (Or.inr (by omega))
    · exact Or.inr h
    · exact Or.inl (Or.inr (by omega))
    · exact absurd h4 hf

/-- the transmitted header of the counterexample: magazine 1, page 23, subcode 0x2359 -/
def f21Tx : Packet :=
  [2, 21, 94, 73, 199, 115, 94, 73, 21, 21] ++ List.replicate 32 32
/-- the same with bits 0 and 3 of byte 5 (S2) inverted -/
def f21Rx : Packet := flipBit (flipBit f21Tx 5 0) 5 3

/-- FULL STATEMENT (false on the unrepaired code, finding F21): every header with an uncorrectable
    subcode or control byte is refused. -/
def bad_header_refused_full : Prop :=
  ∀ (p : Packet), WellFormed p → ∀ page,
    ((view Kind.hdr p).g16i 2 < 0 ∨ (view Kind.hdr p).g16i 4 < 0 ∨ (view Kind.hdr p).g16i 6 < 0) →
    hdrRejected page ((view Kind.hdr p).g16i 2) ((view Kind.hdr p).g16i 4) ((view Kind.hdr p).g16i 6) = true

/-- ... it holds for the repaired code -/
theorem bad_header_refused_fixed (hf : ttxFixF21 = true) : bad_header_refused_full := by
  intro p hw page h
  apply bad_header_refused_partial p hw page
  rcases h with h | h | h
  · exact Or.inr (Or.inr ⟨h, Or.inr hf⟩)
  · exact Or.inl h
  · exact Or.inr (Or.inl h)

/-- ... and fails on the unrepaired code: two bit errors in the S2 byte of page 123, subcode 23:59
    make the S1/S2 pair uncorrectable, yet the header is accepted - as subpage 0x2279, which was
    never transmitted (replay: corpus/C03/F21_header_subcode.ops). -/
theorem bad_header_contained_counterexample (hf : ttxFixF21 = false) :
    hdrKey f21Tx = some (1, 0x123, 0x2359) ∧ (view Kind.hdr f21Rx).g16i 2 < 0 ∧
    hdrKey f21Rx = some (1, 0x123, 0x2279) ∧ ¬ bad_header_refused_full := by
  have h1 : hdrKey f21Tx = some (1, 0x123, 0x2359) := by
    unfold hdrKey hdrRejected; rw [hf]; decide +kernel
  have h2 : (view Kind.hdr f21Rx).g16i 2 < 0 := by decide +kernel
  have h3 : hdrKey f21Rx = some (1, 0x123, 0x2279) := by
    unfold hdrKey hdrRejected; rw [hf]; decide +kernel
  refine ⟨h1, h2, h3, ?_⟩
  intro hfull
  have hw : WellFormed f21Rx := by
    refine ⟨by decide, ?_⟩
    intro i
    by_cases hi : i < 42
    · have : ∀ i < 42, byte f21Rx i < 256 := by decide +kernel
      exact this i hi
    · unfold byte
      have : f21Rx.length = 42 := by decide
      rw [List.getD_eq_getElem?_getD, List.getElem?_eq_none (by omega)]
      decide
  have := hfull f21Rx hw 0x23 (Or.inl h2)
  unfold hdrRejected at this
  rw [hf] at this
  revert this
  decide +kernel

/-! ## clause 3: the row-wise parity gate -/

/-- `lop_parity_check`: every row of the page that is handed to the cache is the row the page
    (possibly fetched back from the cache) had before, or - rows 1..25 only - the row received in
    this transmission after the X/26 column fix-ups, and then all its 40 bytes have odd parity.
    A row received with a parity error never replaces a good row. -/
theorem parity_gate (cv : Page) (rv : RawPage) (n : Nat) :
    (lopParityCheck cv rv).1.raw.getD n zeroRow = cv.raw.getD n zeroRow ∨
    (1 ≤ n ∧ n ≤ 25 ∧ (lopParityCheck cv rv).1.raw.getD n zeroRow = (lopParityCheck cv rv).2.lopRaw.getD n zeroRow
      ∧ ((lopParityCheck cv rv).2.lopRaw.getD n zeroRow).all oddPar = true) :=
  lopParityCheck_row cv rv n

example : (lopParityCheck Page.zero ⟨Page.zero, List.replicate 26 zeroRow, 2, 0⟩).1.raw.getD 1 zeroRow = zeroRow := by
  decide +kernel

/-- The formatter turns a byte failing the parity test into a space before it looks at it
    (`vbi_format_vt_page`: `if ((raw = vbi_unpar8 (...)) < 0) raw = ' '`): a received character with
    a parity error is never displayed as another character. -/
theorem bad_parity_is_blank (pg : Page) (row column : Nat) (h : ¬ (row = 0 ∧ column < 8))
    (hbad : unpar8 ((pg.raw.getD row zeroRow).getD column 0) = none) : fmtRaw pg row column = 0x20 := by
  unfold fmtRaw
  have : (row == 0 && decide (column < 8)) = false := by
    simp only [Bool.and_eq_false_imp, beq_iff_eq, decide_eq_false_iff_not]
    intro h0 h1; exact h ⟨h0, h1⟩
  rw [this]; simp only [Bool.false_eq_true, if_false]; rw [hbad]

/-- ... and a byte with good parity is passed on with its 7 data bits. -/
theorem good_parity_is_char (pg : Page) (row column c : Nat) (h : ¬ (row = 0 ∧ column < 8))
    (hgood : unpar8 ((pg.raw.getD row zeroRow).getD column 0) = some c) : fmtRaw pg row column = c := by
  unfold fmtRaw
  have : (row == 0 && decide (column < 8)) = false := by
    simp only [Bool.and_eq_false_imp, beq_iff_eq, decide_eq_false_iff_not]
    intro h0 h1; exact h ⟨h0, h1⟩
  rw [this]; simp only [Bool.false_eq_true, if_false]; rw [hgood]

/-! ## X/26 designation continuity -/

/-- Packet 26 changes entry `idx` of the enhancement array of the page in progress only if its
    designation `d` decodes, the fill level is exactly `13 d` - i.e. all earlier designations were
    received completely and in order since the header - and `13 d ≤ idx < 13 d + 13`.
    Out-of-order or missing packets are dropped, never misplaced. -/
theorem x26_continuity (s : St) (mag0 : Nat) (v : View) (hm : mag0 < s.raw.length) (idx : Nat) (t0 : Triplet)
    (hne : ((process26 s mag0 v).st.rp mag0).page.enh.getD idx t0 ≠ (s.rp mag0).page.enh.getD idx t0) :
    ∃ d, v.g8 0 = some d ∧ (s.rp mag0).numTriplets = ((d * 13 : Nat) : Int) ∧ d * 13 ≤ idx ∧ idx < d * 13 + 13 :=
  process26_enh s mag0 v hm idx t0 hne

/-! ## clause 4: no page is stored under a number that was not received in a header -/

/-- Over every history of packets (any bytes whatever, decoder with or without a Teletext
    handler): whenever `_vbi_cache_put_page` is called (`Event.put q`), the page number and subpage
    number of `q` are exactly what the decoder computed (`hdrKey`: Hamming 8/4 decode of address,
    page number and subcode, header accepted) from some header packet of that history.  Rows, X/26,
    X/27, X/28, M/29, 8/30 and the table parsers (MOT, MIP, BTT, AIT, MPT, POP, DRCS) can neither
    store a page nor change the number of a page in progress.
    Proved by an invariant over all reachable states (`AsmOk`, Lemmas7). -/
theorem no_foreign_page_number (on : Bool) (ps : List Packet) (q : Page)
    (h : Event.put q ∈ (run (init.enable on) ps).2) :
    ∃ p, p ∈ ps ∧ ∃ m, hdrKey p = some (m, q.pgno, q.subno) := by
  have := (run_ok (init.enable on) [] ps (init_ok on)).2 q h
  simpa [Sent] using this

/-- non-vacuity: a header followed by a second header of the same magazine stores the first page -/
example : (run (init.enable true) [f21Tx, f21Tx.set 2 21]).2.any
    (fun e => match e with | Event.put q => q.pgno == 0x123 && q.subno == 0x2359 | _ => false) = true := by
  decide +kernel

/-- Hamming 8/4 with up to two inverted bits: corrected (one) or refused (two), never decoded as
    another value. -/
theorem two_errors_never_miscorrected (c e : Nat) (hc : IsHam8 c) (he : FewFlips e) :
    unham8 (c ^^^ e) = none ∨ unham8 (c ^^^ e) = unham8 c := unham8_few c e hc he

/-- ... hence: if the received header `rx` differs from the transmitted header `tx` by at most two
    bit errors in each of its ten Hamming protected bytes (`HdrChannel`) and the decoder accepts it,
    then the numbers it computed are the transmitted magazine and page number - and, with repair
    F21 in place (`ttxFixF21`, regenerated from packet.c), also the transmitted subpage number.
    Together with `no_foreign_page_number`: no page is ever stored under a page number other than
    one that was transmitted. -/
theorem header_numbers_are_transmitted (tx rx : Packet) (hw : WellFormed rx) (hch : HdrChannel tx rx)
    (m pg sub : Nat) (h : hdrKey rx = some (m, pg, sub)) :
    ∃ sub', hdrKey tx = some (m, pg, sub') ∧ (ttxFixF21 = true → sub' = sub) :=
  hdrKey_channel tx rx hw hch m pg sub h

/-- FULL STATEMENT for the subpage number (false on the unrepaired code: `f21Tx`/`f21Rx` above). -/
def subpage_number_is_transmitted_full : Prop :=
  ∀ (tx rx : Packet), WellFormed rx → HdrChannel tx rx → ∀ m pg sub,
    hdrKey rx = some (m, pg, sub) → hdrKey tx = some (m, pg, sub)

theorem subpage_number_is_transmitted_fixed (hf : ttxFixF21 = true) : subpage_number_is_transmitted_full := by
  intro tx rx hw hch m pg sub h
  obtain ⟨sub', h1, h2⟩ := hdrKey_channel tx rx hw hch m pg sub h
  rw [h2 hf] at h1; exact h1

example : HdrChannel f21Tx f21Rx := by
  intro i hi
  have : ∀ i < 10, ∃ n < 16, byte f21Tx i = ham8 n := by decide +kernel
  obtain ⟨n, hn, hb⟩ := this i hi
  refine ⟨⟨n, hn, hb⟩, ?_⟩
  by_cases h5 : i = 5
  · subst h5
    exact ⟨1 <<< 0 ^^^ 1 <<< 3, Or.inr (Or.inr ⟨0, 3, by decide, by decide, by decide, rfl⟩), by decide +kernel⟩
  · refine ⟨0, Or.inl rfl, ?_⟩
    have : ∀ i < 10, i ≠ 5 → byte f21Rx i = byte f21Tx i ^^^ 0 := by decide +kernel
    exact this i hi h5

end Zvbi.Props.C03
