import ZvbiModel.Ttx.MipFlip
/-!
# C03 - the Magazine Inventory Page: a corrected bit error is invisible where the MIP is decoded

Property theorems only (model `ZvbiModel/Ttx/Model.lean`, helper lemmas `ZvbiModel/Ttx/MipFlip.lean`).

`Props/C03.single_error_invisible` says: one flipped bit in a Hamming protected, valid position of
a packet leaves state and events of `decodeTeletext` unchanged.  Rows 1..25 of a page of function
MIP (page number xFD) are NOT covered by it: `processRow` stores their 40 bytes verbatim
(`memcpy (cvtp->data.unknown.raw[packet], p, 40)`, packet.c:2622 ff.), so for the decoder they are
raw positions, the stored byte differs and with it the decoder state.  The bytes are read through
`vbi_unham8` / `vbi_unham16p` only when the next header terminates the page (`parse_mip`,
packet.c:617, called at packet.c:2311).  The theorems below state the error correction at that
level: the decoded MIP - page types, subcodes, subtitle character sets in the network's page
statistics, and the cache look-ups made on the way - is the same.

A MIP page is never handed to `_vbi_cache_put_page`: the FN_MIP branch of `terminatePage` consists of
`parse_mip` alone (`terminatePage_mip` in the lemma file), so the stored copy with the flipped bit
dies with the assembly slot (its function becomes DISCARD) and is not observable later.
-/
namespace Zvbi.Props.C03Mip
open Zvbi.Ttx Zvbi.Ttx.Spec Zvbi.Hamm Zvbi.Gen

/-- `parse_mip` reads a MIP page only through its page number, the mask of received packets and
    the Hamming 8/4 view (`vbi_unham8` of each of the 40 bytes) of its stored rows: two pages which
    agree in these give the same network record and the same list of cache look-ups / faults. -/
theorem mip_rows_read_through_hamming (n : Net) (vtp vtp' : Page) (hp : vtp.pgno = vtp'.pgno)
    (hl : vtp.lopPackets = vtp'.lopPackets)
    (H : ∀ k, rowView .rowH8 (vtp.raw.getD k zeroRow) = rowView .rowH8 (vtp'.raw.getD k zeroRow)) :
    parseMip n vtp = parseMip n vtp' :=
  parseMip_congr n vtp vtp' hp hl H

/-- non-vacuity: packet 1 of MIP 1FD received, entry of page 100 = 0x70 (subtitle page); the stored
    byte 0x2F (nibble 7) and the damaged byte 0x2B give different rows but the same Hamming 8/4 view
    (so the theorem applies), and the decoded MIP is not trivial: the cache is asked for page 100
    (to choose its character set), page 100 becomes a subtitle page -/
example :
    rowView .rowH8 ([0x15, 0x2B] ++ List.replicate 38 0x15) = rowView .rowH8 ([0x15, 0x2F] ++ List.replicate 38 0x15)
    ∧ (parseMip init.net { Page.zero with function := FN_MIP, pgno := 0x1FD, lopPackets := 2
                                          raw := (List.replicate 26 zeroRow).set 1 ([0x15, 0x2B] ++ List.replicate 38 0x15) }).2
        = [Aux.touch 0x100 0 0]
    ∧ ((parseMip init.net { Page.zero with function := FN_MIP, pgno := 0x1FD, lopPackets := 2
                                           raw := (List.replicate 26 zeroRow).set 1 ([0x15, 0x2B] ++ List.replicate 38 0x15) }).1.getStat 0x100).pageType
        = PT_SUBTITLE := by
  decide +kernel

/-- **A single bit error in a stored MIP row is invisible in the decoded MIP.**  For every network
    record `n`, page `cv`, row number `k`, row `r` of 40 bytes, position `i` of the row holding a
    valid Hamming 8/4 codeword and bit `b`: the page whose stored row `k` is `r` with that bit
    inverted is decoded by `parse_mip` to exactly the same result as the page with row `r` - same
    page types, subcodes and character sets in the network's page statistics, same cache look-ups.
    (The two pages themselves differ in that byte; MIP pages are never put into the cache, so the
    byte is not seen again.) -/
theorem mip_single_error_invisible (n : Net) (cv : Page) (k : Nat) (r : List Nat) (i b : Nat)
    (hl : r.length = 40) (hr : ∀ x ∈ r, x < 256) (hi : i < 40) (hv : IsHam8 (r.getD i 0)) (hb : b < 8) :
    parseMip n { cv with raw := cv.raw.set k (r.set i (r.getD i 0 ^^^ (1 <<< b))) }
      = parseMip n { cv with raw := cv.raw.set k r } :=
  parseMip_congr n _ _ rfl rfl (rowsH8Eq_flip cv.raw k r i b hl (getD_lt_of_all r hr) hi hv hb)

/-- non-vacuity: the hypotheses hold for row 1 = 15 2F 15 15 .., position 1 (0x2F = ham8 7), bit 2;
    the row really changes (0x2F becomes 0x2B) -/
example :
    parseMip init.net { Page.zero with
        raw := Page.zero.raw.set 1 (([0x15, 0x2F] ++ List.replicate 38 0x15).set 1
                 (([0x15, 0x2F] ++ List.replicate 38 0x15).getD 1 0 ^^^ (1 <<< 2))) }
      = parseMip init.net { Page.zero with raw := Page.zero.raw.set 1 ([0x15, 0x2F] ++ List.replicate 38 0x15) } :=
  mip_single_error_invisible init.net Page.zero 1 ([0x15, 0x2F] ++ List.replicate 38 0x15) 1 2
    (by decide) (by decide) (by decide) ⟨7, by decide, by decide⟩ (by decide)

example : ([0x15, 0x2F] ++ List.replicate 38 0x15).set 1 (([0x15, 0x2F] ++ List.replicate 38 0x15).getD 1 0 ^^^ (1 <<< 2))
    = [0x15, 0x2B] ++ List.replicate 38 0x15 := by decide

/-- sharpness: TWO flipped bits in that byte (0x2F becomes 0x29) are not corrected; `vbi_unham8` fails,
    `parse_mip` gives up at this entry ("contained"): no cache look-up, page 100 and the entries after
    it (101) stay unknown -/
example :
    (parseMip init.net { Page.zero with function := FN_MIP, pgno := 0x1FD, lopPackets := 2
                                        raw := (List.replicate 26 zeroRow).set 1 ([0x15, 0x29] ++ List.replicate 38 0x15) }).2 = []
    ∧ ((parseMip init.net { Page.zero with function := FN_MIP, pgno := 0x1FD, lopPackets := 2
                                           raw := (List.replicate 26 zeroRow).set 1 ([0x15, 0x29] ++ List.replicate 38 0x15) }).1.getStat 0x100).pageType
        = PT_UNKNOWN
    ∧ ((parseMip init.net { Page.zero with function := FN_MIP, pgno := 0x1FD, lopPackets := 2
                                           raw := (List.replicate 26 zeroRow).set 1 ([0x15, 0x29] ++ List.replicate 38 0x15) }).1.getStat 0x101).pageType
        = PT_UNKNOWN := by
  decide +kernel

/-- **State level.**  Let slot `curr` of the decoder hold a MIP page in assembly and let the header
    now arriving terminate it (`terminatedSlot .. = some curr`).  Replace the stored rows of the slot
    by rows `raw'` with the same Hamming 8/4 view (e.g. one row with a corrected bit error): the
    header produces the same events (the cache look-ups of `parse_mip`; a MIP page is never stored
    in the cache, there is no `put`), the same network record, and the same decoder state except
    that the slot - now closed, function DISCARD - still carries `raw'`. -/
theorem mip_single_error_invisible_terminate (s : St) (curr : Nat) (raw' : List (List Nat)) (mag0 pgno page : Nat)
    (hm : curr < s.raw.length) (hts : terminatedSlot s mag0 pgno page = some curr)
    (hf : (s.rp curr).page.function = FN_MIP)
    (H : ∀ k, rowView .rowH8 (raw'.getD k zeroRow) = rowView .rowH8 ((s.rp curr).page.raw.getD k zeroRow)) :
    let s' := s.setPage curr { (s.rp curr).page with raw := raw' }
    let t := (terminatePage s mag0 pgno page).1
    (terminatePage s' mag0 pgno page).2 = (terminatePage s mag0 pgno page).2 ∧
    (terminatePage s' mag0 pgno page).1.net = t.net ∧
    (terminatePage s' mag0 pgno page).1 = t.setPage curr { (t.rp curr).page with raw := raw' } := by
  intro s' t
  have h := terminatePage_setRawRows s curr raw' mag0 pgno page hm hts hf H
  refine ⟨h.1, ?_, h.2⟩
  rw [show (terminatePage s' mag0 pgno page).1 = t.setRawRows curr raw' from h.2]
  rfl

/-- non-vacuity: magazine 1 assembles MIP 1FD (row 1 as above), header of page 100 arrives: the MIP
    slot is the one terminated, the events are the cache look-up for the subtitle page 100, the
    network record learns the page type, the slot is closed -/
example :
    terminatedSlot (({ init.enable true with current := some 1 } : St).setPage 1
        { Page.zero with function := FN_MIP, pgno := 0x1FD, lopPackets := 2
                         raw := (List.replicate 26 zeroRow).set 1 ([0x15, 0x2F] ++ List.replicate 38 0x15) }) 1 0x100 0 = some 1
    ∧ (terminatePage (({ init.enable true with current := some 1 } : St).setPage 1
        { Page.zero with function := FN_MIP, pgno := 0x1FD, lopPackets := 2
                         raw := (List.replicate 26 zeroRow).set 1 ([0x15, 0x2F] ++ List.replicate 38 0x15) }) 1 0x100 0).2
        = [Event.aux (Aux.touch 0x100 0 0)]
    ∧ ((terminatePage (({ init.enable true with current := some 1 } : St).setPage 1
        { Page.zero with function := FN_MIP, pgno := 0x1FD, lopPackets := 2
                         raw := (List.replicate 26 zeroRow).set 1 ([0x15, 0x2F] ++ List.replicate 38 0x15) }) 1 0x100 0).1.net.getStat 0x100).pageType
        = PT_SUBTITLE := by
  decide +kernel

/-- **The row packet itself.**  Slot `mag0` assembles a MIP page; a row packet `p` (42 bytes) arrives,
    once intact and once with bit `b` of byte `2 + j` inverted, that byte being a valid Hamming 8/4
    codeword.  `processRow` returns the same events and the same return value, and the two states
    differ only in the stored rows of the slot, which have the same Hamming 8/4 view. -/
theorem mip_row_single_error (s : St) (mag0 mag8 packet : Nat) (p : Packet) (j b : Nat) (hw : WellFormed p)
    (hm : mag0 < s.raw.length) (hf : (s.rp mag0).page.function = FN_MIP)
    (hj : j < 40) (hv : IsHam8 (byte p (2 + j))) (hb : b < 8) :
    let r := processRow s mag0 mag8 packet (view .rowRaw p)
    let r' := processRow s mag0 mag8 packet (view .rowRaw (flipBit p (2 + j) b))
    r'.ev = r.ev ∧ r'.ret = r.ret ∧
    ∃ raw', (∀ k, rowView .rowH8 (raw'.getD k zeroRow) = rowView .rowH8 ((r.st.rp mag0).page.raw.getD k zeroRow)) ∧
      r'.st = r.st.setPage mag0 { (r.st.rp mag0).page with raw := raw' } := by
  intro r r'
  obtain ⟨raw', H, e⟩ := processRow_mip_flip s mag0 mag8 packet p j b hw hm hf hj hv hb
  have e' : r' = { r with st := r.st.setRawRows mag0 raw' } := e
  rw [e']
  exact ⟨rfl, rfl, raw', H, rfl⟩

/-- **Row packet, then the terminating header.**  The damaged row packet of a MIP page followed by
    the header that closes the page gives the same events and the same network record as the intact
    packet followed by that header: the bit error is corrected at the point where the MIP is decoded. -/
theorem mip_row_error_corrected_at_page_end (s : St) (mag0 mag8 packet : Nat) (p : Packet) (j b : Nat)
    (hw : WellFormed p) (hm : mag0 < s.raw.length) (hf : (s.rp mag0).page.function = FN_MIP)
    (hj : j < 40) (hv : IsHam8 (byte p (2 + j))) (hb : b < 8) (hmag0 pgno page : Nat)
    (hts : terminatedSlot (processRow s mag0 mag8 packet (view .rowRaw p)).st hmag0 pgno page = some mag0) :
    let t := (processRow s mag0 mag8 packet (view .rowRaw p)).st
    let t' := (processRow s mag0 mag8 packet (view .rowRaw (flipBit p (2 + j) b))).st
    (terminatePage t' hmag0 pgno page).2 = (terminatePage t hmag0 pgno page).2 ∧
    (terminatePage t' hmag0 pgno page).1.net = (terminatePage t hmag0 pgno page).1.net := by
  intro t t'
  obtain ⟨raw', H, e⟩ := processRow_mip_flip s mag0 mag8 packet p j b hw hm hf hj hv hb
  have e' : t' = t.setRawRows mag0 raw' := by
    show (processRow s mag0 mag8 packet (view .rowRaw (flipBit p (2 + j) b))).st = _
    rw [e]
  obtain ⟨hm', hf'⟩ := processRow_mip_slot s mag0 mag8 packet (view .rowRaw p) hm hf
  have h := terminatePage_setRawRows t mag0 raw' hmag0 pgno page hm' hts hf' H
  rw [e']
  refine ⟨h.1, ?_⟩
  rw [h.2]
  rfl

/-- non-vacuity: magazine 1 assembles MIP 1FD; row packet 1 with byte 3 = 0x2F (intact) resp. 0x2B (bit 2
    inverted): the two resulting states differ, the slot has packet 1 marked as received, and the header of
    page 100 arriving after the damaged packet reports the cache look-up for the subtitle page 100 -/
example :
    processRow (({ init.enable true with current := some 1 } : St).setPage 1
        { Page.zero with function := FN_MIP, pgno := 0x1FD }) 1 1 1
        (view .rowRaw (flipBit ([0x02, 0x15, 0x15, 0x2F] ++ List.replicate 38 0x15) 3 2))
      ≠ processRow (({ init.enable true with current := some 1 } : St).setPage 1
        { Page.zero with function := FN_MIP, pgno := 0x1FD }) 1 1 1
        (view .rowRaw ([0x02, 0x15, 0x15, 0x2F] ++ List.replicate 38 0x15))
    ∧ ((processRow (({ init.enable true with current := some 1 } : St).setPage 1
        { Page.zero with function := FN_MIP, pgno := 0x1FD }) 1 1 1
        (view .rowRaw ([0x02, 0x15, 0x15, 0x2F] ++ List.replicate 38 0x15))).st.rp 1).page.lopPackets = 2
    ∧ (terminatePage (processRow (({ init.enable true with current := some 1 } : St).setPage 1
        { Page.zero with function := FN_MIP, pgno := 0x1FD }) 1 1 1
        (view .rowRaw (flipBit ([0x02, 0x15, 0x15, 0x2F] ++ List.replicate 38 0x15) 3 2))).st 1 0x100 0).2
        = [Event.aux (Aux.touch 0x100 0 0)] := by
  decide +kernel

/-- **At the entry point.**  `vbi_decode_teletext` on a row packet (packet number 1..25, address
    decodes) for a magazine that assembles a MIP page, once intact and once with bit `b` of data
    byte `2 + j` (a valid Hamming 8/4 codeword) inverted: same events, same return value; the two
    decoder states differ only in the stored rows of that magazine's slot, and these have the same
    Hamming 8/4 view - which by the theorems above is all the MIP decoding will ever look at. -/
theorem mip_row_single_error_decode (s : St) (p : Packet) (pmag j b : Nat) (hw : WellFormed p)
    (ha : a16 p 0 = some pmag) (hmask : s.mask = true) (h1 : 1 ≤ pmag >>> 3) (h25 : pmag >>> 3 ≤ 25)
    (hm : pmag &&& 7 < s.raw.length) (hf : (s.rp (pmag &&& 7)).page.function = FN_MIP)
    (hj : j < 40) (hv : IsHam8 (byte p (2 + j))) (hb : b < 8) :
    let r := decodeTeletext s p
    let r' := decodeTeletext s (flipBit p (2 + j) b)
    r'.ev = r.ev ∧ r'.ret = r.ret ∧
    ∃ raw', (∀ k, rowView .rowH8 (raw'.getD k zeroRow)
                  = rowView .rowH8 ((r.st.rp (pmag &&& 7)).page.raw.getD k zeroRow)) ∧
      r'.st = r.st.setPage (pmag &&& 7) { (r.st.rp (pmag &&& 7)).page with raw := raw' } := by
  intro r r'
  obtain ⟨raw', H, e⟩ := decode_mip_row_flip s p pmag j b hw ha hmask h1 h25 hm hf hj hv hb
  have e' : r' = { r with st := r.st.setRawRows (pmag &&& 7) raw' } := e
  rw [e']
  exact ⟨rfl, rfl, raw', H, rfl⟩

/-- non-vacuity on a real packet sequence: header of page 1FD, then row 1 of magazine 1 with byte
    3 = 0x2F resp. 0x2B.  The address decodes to magazine 1, packet 1; the slot holds a MIP page; the
    two resulting states differ. -/
example :
    a16 ([199, 0x15, 0x15, 0x2F] ++ List.replicate 38 0x15) 0 = some 9
    ∧ (((run (init.enable true) [[0x02, 0x15, 182, 234, 0x15, 0x15, 0x15, 0x15, 0x15, 0x15] ++ List.replicate 32 0x20]).1.rp 1).page.function
        = FN_MIP)
    ∧ (decodeTeletext (run (init.enable true) [[0x02, 0x15, 182, 234, 0x15, 0x15, 0x15, 0x15, 0x15, 0x15] ++ List.replicate 32 0x20]).1
          (flipBit ([199, 0x15, 0x15, 0x2F] ++ List.replicate 38 0x15) 3 2)
        ≠ decodeTeletext (run (init.enable true) [[0x02, 0x15, 182, 234, 0x15, 0x15, 0x15, 0x15, 0x15, 0x15] ++ List.replicate 32 0x20]).1
          ([199, 0x15, 0x15, 0x2F] ++ List.replicate 38 0x15)) := by
  decide +kernel

/-- limit of the statement (why it is made for the decoded MIP and not as equality of whole event
    traces): the byte with the flipped bit stays in the assembly slot after the MIP page is closed.
    `vbi_decode_teletext` does not clear `cvtp->data` when the next page of the magazine is built from
    scratch as MOT (xFE), BTT (1F0) or MIP, and a MOT / BTT page is cached with `sizeof (*cp)`
    (cache.c `cache_page_size`, default case), union included.  So after
    header 1FD - row 1 - header 1FE - header 100 the cached MOT page 1FE carries the stale MIP row,
    and the `put` events (which show the whole `cache_page`) differ in that dead byte.  Nothing
    decodes it: a MOT page is parsed from the packets as they arrive. -/
example :
    (run (init.enable true)
      [[0x02, 0x15, 182, 234, 0x15, 0x15, 0x15, 0x15, 0x15, 0x15] ++ List.replicate 32 0x20,
       [199, 0x15, 0x15, 0x2B] ++ List.replicate 38 0x15,
       [0x02, 0x15, 253, 234, 0x15, 0x15, 0x15, 0x15, 0x15, 0x15] ++ List.replicate 32 0x20,
       [0x02, 0x15, 0x15, 0x15, 0x15, 0x15, 0x15, 0x15, 0x15, 0x15] ++ List.replicate 32 0x20]).1.net.cache.map
        (fun q => (q.pgno, q.function, (q.raw.getD 1 []).take 4))
      = [(0x1FE, FN_MOT, [0x15, 0x2B, 0x15, 0x15])]
    ∧ (run (init.enable true)
      [[0x02, 0x15, 182, 234, 0x15, 0x15, 0x15, 0x15, 0x15, 0x15] ++ List.replicate 32 0x20,
       [199, 0x15, 0x15, 0x2F] ++ List.replicate 38 0x15,
       [0x02, 0x15, 253, 234, 0x15, 0x15, 0x15, 0x15, 0x15, 0x15] ++ List.replicate 32 0x20,
       [0x02, 0x15, 0x15, 0x15, 0x15, 0x15, 0x15, 0x15, 0x15, 0x15] ++ List.replicate 32 0x20]).1.net.cache.map
        (fun q => (q.pgno, q.function, (q.raw.getD 1 []).take 4))
      = [(0x1FE, FN_MOT, [0x15, 0x2F, 0x15, 0x15])] := by
  decide +kernel

end Zvbi.Props.C03Mip
