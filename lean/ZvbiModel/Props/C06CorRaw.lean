import ZvbiModel.Mux.CorRaw
import ZvbiModel.Mux.MrLemmas
import ZvbiModel.Props.C06Raw
/-!
# C06, round 5 - `vbi_dvb_mux_cor` with raw lines, `vbi_dvb_multiplex_raw`

Property theorems only.  Closes `cor_equals_feed_raw_full`.

Models: `Mux/CorRawModel.lean` (`vbi_dvb_mux_cor` with `raw` / `sp`: `corR`, `corAllR`), `Mux/RawModel.lean`
(`vbi_dvb_multiplex_raw`: `multiplexRaw`, `insert_raw_data_units`: `insertRaw`); independent reader of EN 301 775 4.9:
`Mux/RawSpec.lean` (`unitSeg`, `unitsItems`); lemmas: `Mux/CorRaw.lean`, `Mux/MrLemmas.lean`.
`keep` is the source shape of `generate_pes_packet` (see `Props/C06Raw.lean`); every theorem here holds for both.
-/
namespace Zvbi.Props.C06CorRaw
open Zvbi.Mux Zvbi.Mux.EnParse Zvbi.Mux.RawSpec
open Zvbi.Props.C06Raw (StateOK exSp exRaw exLine exMux)

/-- **cor_equals_feed_raw** (closes the coroutine half of `cor_equals_feed_raw_full`).  PES and TS mode, both source
shapes, any multiplexer in a reachable state with nothing pending, any non-empty frame of sliced lines AND raw line
requests with `raw` / `sp` NULL or given: whenever `vbi_dvb_mux_feed (mx, sliced, n, mask, raw, sp, pts)` accepts the
frame, then for EVERY sequence of positive output buffer sizes the loop around
`vbi_dvb_mux_cor (mx, &buf, &left, &sliced, &n, mask, raw, sp, pts)` never fails, fires no assertion, and has stored
exactly the first `sizes.sum` bytes of what `feed` hands to its callback; once the sizes reach the length of those bytes
the loop has ended with `*sliced_left = 0` and exactly `feed`'s bytes, nothing is pending, configuration, continuity
counter and raw-line state (`raw_samples_left == 0`) are those `feed` leaves. -/
theorem cor_equals_feed_raw (keep : Bool) (m : RMux) (hm : StateOK m) (hi : Idle m.mux) (lines : List Sliced)
    (hl : lines ≠ []) (hwf : ∀ s ∈ lines, Sliced.WF s) (mask : Nat) (raw : Option Bytes) (sp : Option Sp) (pts : Nat)
    (hok : (feedR keep m lines mask raw sp pts).2.ok = true) (sizes : List Nat) (hpos : ∀ s ∈ sizes, 0 < s) :
    ∃ m', m'.mux.cfg = m.mux.cfg
      ∧ (sizes.sum < (feedR keep m lines mask raw sp pts).2.bytes.length →
          corSeqR keep lines mask raw sp pts sizes m []
            = (m', true, true, (feedR keep m lines mask raw sp pts).2.bytes.take sizes.sum, none))
      ∧ ((feedR keep m lines mask raw sp pts).2.bytes.length ≤ sizes.sum →
          corSeqR keep lines mask raw sp pts sizes m [] = (m', true, false, (feedR keep m lines mask raw sp pts).2.bytes, none)
          ∧ Idle m'.mux ∧ m'.mux.cc = (feedR keep m lines mask raw sp pts).1.mux.cc
          ∧ m'.raw = (feedR keep m lines mask raw sp pts).1.raw ∧ m'.raw.left = 0) := by
  obtain ⟨hsp, hr, hne, _⟩ := readyR_of_feedR_ok keep m hi hm.cfg hm.raw lines hl hwf mask raw sp pts hok
  obtain ⟨m', h1, h2, h3⟩ := corSeqR_ready keep lines hl mask raw sp hsp pts _ _ sizes m [] _ hr hne hpos
  refine ⟨m', h1, fun h => ?_, fun h => ?_⟩
  · have := (h2 h).1; rwa [List.nil_append] at this
  · obtain ⟨a, b, c, d⟩ := h3 h
    rw [List.nil_append] at a
    refine ⟨a, b, c, d, ?_⟩
    rw [d]
    obtain ⟨_, pes, st', hg, _, hst, _⟩ := feedR_accepted keep m lines mask raw sp pts hok
    rw [hst]
    exact (generatePesR_ok keep m.mux.cfg hm.cfg m.raw hm.raw lines mask raw sp hsp pts hwf pes st' hg).2.2.2.2.2

/-- a frame with a sliced line, a raw line request and a WSS line, TS mode, buffer sizes 1, 7, 188, 1000 -/
def exFrame : List Sliced := [exLine 3 7, exLine SL_VBI625 8, exLine 0x400 23]
def exTs : RMux := { mux := { cfg := { pid := 0x123, dataId := 0x99 } } }
example : StateOK exTs ∧ Idle exTs.mux := ⟨⟨⟨by decide, by decide, by decide, by decide, by decide, by decide⟩, rfl⟩, by decide⟩
example : (feedR true exTs exFrame 0xFFFFFFFF (some exRaw) (some exSp) 7).2.ok = true
    ∧ (feedR true exTs exFrame 0xFFFFFFFF (some exRaw) (some exSp) 7).2.bytes.length = 3 * 188 := by decide +kernel
example : (corSeqR true exFrame 0xFFFFFFFF (some exRaw) (some exSp) 7 [1, 7, 188, 1000] exTs []).2
    = (true, false, (feedR true exTs exFrame 0xFFFFFFFF (some exRaw) (some exSp) 7).2.bytes, none) := by decide +kernel
example : (corSeqR false exFrame 0xFFFFFFFF (some exRaw) (some exSp) 7 [1, 7, 100] (exMux 0x10) []).2
    = (true, true, (feedR false (exMux 0x10) exFrame 0xFFFFFFFF (some exRaw) (some exSp) 7).2.bytes.take 108, none) := by
  decide +kernel

/-- **the correspondence driver's loop** (op `corraw`: buffer sizes taken cyclically from a non-empty list of positive
sizes) yields, for every frame `feed` accepts and enough fuel, exactly `feed`'s bytes with `*sliced_left = 0`, `*sliced` at
the end of the frame, nothing pending, no assertion, and `feed`'s configuration, continuity counter and raw state. -/
theorem corAllR_equals_feed (keep : Bool) (m : RMux) (hm : StateOK m) (hi : Idle m.mux) (lines : List Sliced)
    (hl : lines ≠ []) (hwf : ∀ s ∈ lines, Sliced.WF s) (mask : Nat) (raw : Option Bytes) (sp : Option Sp) (pts : Nat)
    (hok : (feedR keep m lines mask raw sp pts).2.ok = true) (sizes : List Nat) (hsz : sizes ≠ [])
    (hpos : ∀ s ∈ sizes, 0 < s) (fuel : Nat) (hfuel : (feedR keep m lines mask raw sp pts).2.bytes.length ≤ fuel) :
    ∃ m' calls, corAllR keep sizes lines mask raw sp pts fuel m 0 []
        = (m', true, calls, 0, lines.length, (feedR keep m lines mask raw sp pts).2.bytes, none)
      ∧ 1 ≤ calls ∧ calls ≤ (feedR keep m lines mask raw sp pts).2.bytes.length
      ∧ Idle m'.mux ∧ m'.mux.cfg = m.mux.cfg ∧ m'.mux.cc = (feedR keep m lines mask raw sp pts).1.mux.cc
      ∧ m'.raw = (feedR keep m lines mask raw sp pts).1.raw := by
  obtain ⟨hsp, hr, hne, _⟩ := readyR_of_feedR_ok keep m hi hm.cfg hm.raw lines hl hwf mask raw sp pts hok
  obtain ⟨m', c', heq, h1, h2, h3, h4, h5, h6⟩ :=
    corAllR_ready keep sizes hsz hpos lines hl mask raw sp hsp pts _ _ fuel m 0 [] _ hr hne hfuel
  rw [List.nil_append] at heq
  exact ⟨m', c', heq, by omega, by omega, h3, h4, h5, h6⟩

example : (corAllR true [1, 7, 50] exFrame 0xFFFFFFFF (some exRaw) (some exSp) 7 564 exTs 0 []).2
    = (true, 30, 0, 3, (feedR true exTs exFrame 0xFFFFFFFF (some exRaw) (some exSp) 7).2.bytes, none) := by decide +kernel

/-- **cor_rejects_like_feed_raw.**  Whenever `vbi_dvb_mux_feed (.., raw, sp, ..)` rejects a frame for its content (valid
or no sampling parameters), `vbi_dvb_mux_cor` with any buffer space returns FALSE, stores nothing, leaves nothing
pending and no raw line half sent (`raw_samples_left == 0`), keeps configuration and continuity counter. -/
theorem cor_rejects_like_feed_raw (keep : Bool) (m : RMux) (hi : Idle m.mux) (lines : List Sliced) (hl : lines ≠ [])
    (mask : Nat) (raw : Option Bytes) (sp : Option Sp) (hsp : SpValid sp) (pts : Nat)
    (hrej : (feedR keep m lines mask raw sp pts).2.ok = false) (size : Nat) (hs : 0 < size) :
    (corR keep m size lines mask raw sp pts).2.res.ok = false ∧ (corR keep m size lines mask raw sp pts).2.res.out = []
    ∧ Idle (corR keep m size lines mask raw sp pts).1.mux
    ∧ (corR keep m size lines mask raw sp pts).1.raw.left = 0
    ∧ (corR keep m size lines mask raw sp pts).1.mux.cfg = m.mux.cfg
    ∧ (corR keep m size lines mask raw sp pts).1.mux.cc = m.mux.cc := by
  obtain ⟨st', left, idx, ab, hcor⟩ := corR_idle_reject keep m size lines mask raw sp pts (by omega) hsp hi hl
    (fun pes st' => feedR_rejected_gen keep m lines mask raw sp pts hsp hrej pes st')
  rw [hcor]
  refine ⟨rfl, rfl, ?_, rfl, rfl, rfl⟩
  show (0 : Nat) ≤ m.mux.corOffset
  omega

/-- **invalid sampling parameters**: `vbi_dvb_mux_feed` and `vbi_dvb_mux_cor` both return FALSE and change nothing (the
test precedes everything else in both, also while coroutine output is pending). -/
theorem cor_invalid_sp_like_feed (keep : Bool) (m : RMux) (lines : List Sliced) (mask : Nat) (raw : Option Bytes)
    (sp' : Sp) (pts : Nat) (h : validSp sp' = false) (size : Nat) :
    feedR keep m lines mask raw (some sp') pts = (m, { ok := false, calls := [] })
    ∧ corR keep m size lines mask raw (some sp') pts
        = (m, { res := { ok := false, out := [], slicedLeft := lines.length, slicedIdx := 0 } }) :=
  invalid_sp keep m lines mask raw sp' pts h size

-- line 10 is outside the raw frame (rows 7..9): rejected by both, nothing half sent
example : (feedR true exTs [exLine SL_VBI625 10] 0xFFFFFFFF (some exRaw) (some exSp) 7).2.ok = false
    ∧ (corR true exTs 100 [exLine SL_VBI625 10] 0xFFFFFFFF (some exRaw) (some exSp) 7).2.res.ok = false := by decide +kernel
example : validSp { exSp with offset := 131 } = false := by decide

/-! ## vbi_dvb_multiplex_raw -/

/-- **multiplex_raw_total.**  `vbi_dvb_multiplex_raw (&p, &p_left, &raw, &raw_left, data_identifier, videostd_set, line,
first_pixel_position, n_pixels_total, stuffing)` for ALL arguments (`unsigned int` values; `videostd_set` one of the four
combinations of 625 / 525): no assertion fires; it succeeds exactly when the documented conditions `MrArgsOK` hold (at
least 2 bytes of space - a multiple of 46 in the EN 300 472 compatible format -, `raw_left` in 1..n_pixels_total,
`first_pixel_position + n_pixels_total <= 720`, exactly one video standard, line 7..23 or 320..336 (625) / 270..286
(525)); otherwise it returns FALSE and `*packet`, `*packet_left`, `*raw`, `*raw_left` are unchanged. -/
theorem multiplex_raw_total (packetLeft : Nat) (r : Bytes) (dataId videostd line fpp nTotal : Nat) (stuffing : Bool)
    (hv : videostd < 4) (hfpp : fpp < 2 ^ 32) (hnt : nTotal < 2 ^ 32) (hline : line < 2 ^ 32) :
    ∃ res, multiplexRaw packetLeft r dataId videostd line fpp nTotal stuffing = .ok res
      ∧ (res.ok = true ↔ MrArgsOK packetLeft r dataId videostd line fpp nTotal)
      ∧ (res.ok = false → res.out = [] ∧ res.packetLeft = packetLeft ∧ res.rawLeft = r.length) := by
  by_cases h : MrArgsOK packetLeft r dataId videostd line fpp nTotal
  · obtain ⟨res, _, _, _, h1, h2, _⟩ := multiplexRaw_ok packetLeft r dataId videostd line fpp nTotal stuffing hv hfpp hnt hline h
    exact ⟨res, h1, ⟨fun _ => h, fun _ => h2⟩, fun hf => by rw [h2] at hf; cases hf⟩
  · refine ⟨_, multiplexRaw_fail packetLeft r dataId videostd line fpp nTotal stuffing hv hfpp hnt hline h,
      ⟨fun hf => (by cases hf), fun hh => absurd hh h⟩, fun _ => ⟨rfl, rfl, rfl⟩⟩

/-- **multiplex_raw_units** (closes the `vbi_dvb_multiplex_raw` half of `cor_equals_feed_raw_full`).  When
`vbi_dvb_multiplex_raw` succeeds, the bytes it stored are data units (`parseUnits`, both formats) that the reader of EN 301
775 4.9 takes as `segs.length` monochrome-samples units followed by `k` stuffing units, where
* `SegChain`: every segment is on the requested line and field (`readerLine`: line_offset 7..23, field_parity from the
  line number against the second field start 313 / 263), carries 1..251 samples (at most 40 in the EN 300 472 compatible
  format, `SegMax`), starts at the sample position where the one before ended, the first at `first_pixel_position +
  (n_pixels_total - raw_left)`; first_segment_flag is set exactly on the segment at `first_pixel_position`,
  last_segment_flag exactly on the one ending at `first_pixel_position + n_pixels_total`;
* the samples of the segments in order are exactly the first `raw_left - *raw_left'` input samples (`segPx`): nothing lost,
  duplicated or reordered; `*raw_left' = 0` means the whole input was sent;
* accounting: bytes stored + `*packet_left'` = `*packet_left`; with stuffing the packet is full (`*packet_left' = 0`),
  without there is no stuffing unit and the size is 46 per segment / 6 per segment + the samples (`segBytes`);
* samples are left over only when not even a minimal unit (46 / 7 bytes) fits behind the units stored;
* every non-stuffing data_unit_length fits its byte (<= 255) and is 0x2C in the EN 300 472 compatible format. -/
theorem multiplex_raw_units (packetLeft : Nat) (r : Bytes) (dataId videostd line fpp nTotal : Nat) (stuffing : Bool)
    (hv : videostd < 4) (hfpp : fpp < 2 ^ 32) (hnt : nTotal < 2 ^ 32) (hline : line < 2 ^ 32)
    (h : MrArgsOK packetLeft r dataId videostd line fpp nTotal) :
    ∃ res us segs k, multiplexRaw packetLeft r dataId videostd line fpp nTotal stuffing = .ok res
      ∧ res.ok = true
      ∧ parseUnits res.out = some us
      ∧ unitsItems us = some (segs.map Item.seg ++ List.replicate k Item.stuffing)
      ∧ us.length = segs.length + k
      ∧ SegChain (readerLine videostd line) fpp nTotal (fpp + (nTotal - r.length)) segs
      ∧ SegMax (fixedLengthFormat dataId) segs
      ∧ res.rawLeft ≤ r.length ∧ segPx segs = r.take (r.length - res.rawLeft)
      ∧ res.out.length + res.packetLeft = packetLeft
      ∧ (stuffing = true → res.packetLeft = 0)
      ∧ (stuffing = false → k = 0)
      ∧ segBytes (fixedLengthFormat dataId) segs ≤ packetLeft
      ∧ (res.rawLeft ≠ 0 →
          packetLeft - segBytes (fixedLengthFormat dataId) segs < (if fixedLengthFormat dataId then 46 else 7))
      ∧ (stuffing = false → res.out.length = segBytes (fixedLengthFormat dataId) segs)
      ∧ (∀ u ∈ us, (u.id ≠ 0xFF → u.payload.length ≤ 255) ∧ (fixedLengthFormat dataId = true → u.payload.length = 0x2C)) :=
  multiplexRaw_ok packetLeft r dataId videostd line fpp nTotal stuffing hv hfpp hnt hline h

/-- **multiplex_raw_complete_line.**  A whole line (`raw_left = n_pixels_total`) that `vbi_dvb_multiplex_raw` converted
completely (`*raw_left' = 0`): the independent reader of EN 301 775 4.9 (`RawSpec.assemble`: first / last segment flags
consistent, each segment starting where the one before ended, same line and field, adjacent units, nothing left open)
reassembles the stored data units to exactly ONE raw line - the requested line and field, first sample at
`first_pixel_position`, the `n_pixels_total` input samples - and nothing else (stuffing is skipped). -/
theorem multiplex_raw_complete_line (packetLeft : Nat) (r : Bytes) (dataId videostd line fpp nTotal : Nat) (stuffing : Bool)
    (hv : videostd < 4) (hfpp : fpp < 2 ^ 32) (hnt : nTotal < 2 ^ 32) (hline : line < 2 ^ 32)
    (h : MrArgsOK packetLeft r dataId videostd line fpp nTotal) (hwhole : r.length = nTotal) :
    ∃ res us, multiplexRaw packetLeft r dataId videostd line fpp nTotal stuffing = .ok res ∧ res.ok = true
      ∧ parseUnits res.out = some us
      ∧ (res.rawLeft = 0 →
          (unitsItems us).bind assemble = some [Out.raw ⟨readerLine videostd line, fpp, r⟩]) := by
  obtain ⟨res, us, segs, k, h1, h2, h3, h4, _, hch, _, _, hpx, _⟩ :=
    multiplexRaw_ok packetLeft r dataId videostd line fpp nTotal stuffing hv hfpp hnt hline h
  refine ⟨res, us, h1, h2, h3, ?_⟩
  intro h0
  rw [h0, Nat.sub_zero, List.take_length] at hpx
  have hrne : r ≠ [] := h.2.2.1
  have hsegs : segs ≠ [] := by
    intro hs; rw [hs] at hpx; exact hrne hpx.symm
  rw [hwhole, Nat.sub_self, Nat.add_zero] at hch
  have := assembleGo_chain (readerLine videostd line) fpp nTotal segs fpp [] (List.replicate k Item.stuffing) hch
    (by simp) (by rw [hpx, hwhole]) hsegs
  rw [h4]
  show assembleGo none _ = _
  have hcur : curOf (readerLine videostd line) fpp [] = none := by simp [curOf]
  rw [hcur] at this
  rw [this, assembleGo_stuffing, hpx]
  rfl

/-! non-vacuity: 600 samples of line 320 from position 10, variable-length format, 1000 bytes of space with stuffing:
three segments of 251 + 251 + 98 samples, the rest stuffing; and a packet too small for the line -/
def exSamples : Bytes := (List.range 600).map fun k => (3 + 7 * k) % 256
example : MrArgsOK 1000 exSamples 0x99 VIDEOSTD_625 320 10 600 := by decide +kernel
/-- what the reader sees: return value, bytes stored, `*packet_left`, `*raw_left`, per unit (first, last, line, position, n) -/
def mrSummary (x : Except Err MrResult) : Bool × Nat × Nat × Nat × Option (List (List Nat)) :=
  match x with
  | .ok res => (res.ok, res.out.length, res.packetLeft, res.rawLeft,
      ((parseUnits res.out).bind unitsItems).map fun is => is.map fun i =>
        match i with
        | .seg s => [s.first.toNat, s.last.toNat, s.line, s.pos, s.px.length]
        | _ => [])
  | .error _ => (false, 0, 0, 0, none)
example : mrSummary (multiplexRaw 1000 exSamples 0x99 VIDEOSTD_625 320 10 600 true)
    = (true, 1000, 0, 0, some [[1, 0, 320, 10, 251], [0, 0, 320, 261, 251], [0, 1, 320, 512, 98], [], []]) := by
  decide +kernel
example : (mrSummary (multiplexRaw 300 exSamples 0x99 VIDEOSTD_625 320 10 600 false)).2.1 = 257 + 43
    ∧ (mrSummary (multiplexRaw 300 exSamples 0x99 VIDEOSTD_625 320 10 600 false)).2.2.2.1 = 600 - 251 - 37 := by
  decide +kernel
example : ¬ MrArgsOK 1000 exSamples 0x99 (VIDEOSTD_625 + VIDEOSTD_525) 320 10 600 := by decide +kernel
example : ¬ MrArgsOK 1000 exSamples 0x10 VIDEOSTD_625 320 10 600 ∧ ¬ MrArgsOK 1000 exSamples 0x99 VIDEOSTD_625 24 10 600
    ∧ ¬ MrArgsOK 1000 exSamples 0x99 VIDEOSTD_625 320 121 600 := by decide +kernel
-- the reader reassembles the three segments to the one line that was sent
example : ((match multiplexRaw 1000 exSamples 0x99 VIDEOSTD_625 320 10 600 true with
    | .ok res => (parseUnits res.out).bind fun us => (unitsItems us).bind assemble
    | .error _ => none) = some [Out.raw ⟨320, 10, exSamples⟩]) := by decide +kernel

end Zvbi.Props.C06CorRaw
