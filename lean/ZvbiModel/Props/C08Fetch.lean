import ZvbiModel.Cc.Lemmas3
/-!
# C08, continued - `vbi_fetch_cc_page` hands the dirty region over exactly once

Property theorem only.  Model `Cc/Model.lean`: `fetchPage` = the page copied out, `fetchStep` = the reset of the
dirty fields of the page that was copied (`spg->dirty.y0 = ROWS; y1 = -1; roll = 0`).
-/
namespace Zvbi.Props.C08Fetch
open Zvbi.Cc Zvbi.Gen.Cc

/-- **fetch_hands_dirty_over_once.**  In every decoder state, for every valid page number: after `vbi_fetch_cc_page` a
second fetch of the same page (nothing decoded in between) returns the same cells with an EMPTY dirty region:
`y0 = ROWS > y1 = -1` and `roll = 0` - the three resets of the function, none may be missing (mutant: `dirty.roll = 0`
deleted; the oracle rule `dirty_once` of checks/C08.py states the same on the real code). -/
theorem fetch_hands_dirty_over_once (s : St) (pgno : Int) (h1 : 1 ≤ pgno) (h8 : pgno ≤ 8) (p : Page)
    (hp : fetchPage s pgno = some p) :
    ∃ q, fetchPage (fetchStep s pgno) pgno = some q ∧ q.text = p.text ∧ q.y0 = rows ∧ q.y1 = -1 ∧ q.roll = 0 := by
  have hr : (pgno < 1 || pgno > 8) = false := by
    simp only [Bool.or_eq_false_iff, decide_eq_false_iff_not]; omega
  unfold fetchPage at hp ⊢
  unfold fetchStep
  simp only [hr, Bool.false_eq_true, if_false] at hp ⊢
  cases hc : s.chans[(pgno - 1).toNat &&& 7]? with
  | none => rw [hc] at hp; exact absurd hp (by simp)
  | some ch =>
    rw [hc] at hp
    rw [modCh_get_same _ hc]
    have hg : ∀ (b : Bool) (q : Page), (ch.setPg b q).hidden = ch.hidden := by
      intro b q; cases b <;> rfl
    have hh := hg (!ch.hidden) { ch.pg (!ch.hidden) with y0 := rows, y1 := -1, roll := 0 }
    refine ⟨_, rfl, ?_, ?_, ?_, ?_⟩
    all_goals rw [hh, pg_setPg_same]
    · cases hp; rfl

/-- non-vacuity: page 1 of the fresh decoder can be fetched -/
example : ∃ p, fetchPage init 1 = some p := ⟨_, rfl⟩

end Zvbi.Props.C08Fetch
