import ZvbiModel.Ttx.OwnAux2
import ZvbiModel.Props.C02Chain
import ZvbiModel.Props.C02Flof
/-!
# Property C02, round 6: the page's OWN packets X/26, X/27, X/28 (and M/29 of its magazine) between its rows

Until round 5 an own item of a transmission inside a cycle had to be a row 1..25; only FOREIGN X/26 .. M/29 packets were
free.  Now `Ttx.Item.ownx k p` admits the page's own packets 26..29 anywhere between its rows, in
`C02Interleave.interleaved_page_roundtrip`, `C02Chain.page_roundtrip_cycle`, `page_roundtrip_cycle_fetch` (same theorems,
larger item grammar).  One sender-side exclusion: X/28 with designation code 3 - it declares the page a DRCS page, and
packet.c `parse_28_29` then DISCARDS a page that was opened as a text page (no defect: the sender contradicts itself).

* `own_aux_keeps_rows`: what such a packet can change in the decoder (lemma `Ttx.own_aux_step`).
* `own_x27_links_in_progress`: an own X/27/0 packet files the six FLOF links in the page in progress exactly as
  `C02Flof.x27_links_filed` says, and nothing of the rows / numbers / flags moves.
* the cycle theorems are APPLIED to a cycle whose first page receives X/28/0, X/27/0 and X/26/0 between its rows.

* `page_roundtrip_cycle_links`: the cache entry of a page of the cycle carries the FLOF links and the X/28 record of the
  page in progress at the moment its terminating header arrived (clause 5 of `C02Chain.PageClaim`; lemma chain
  `Ttx/OwnAux3.lean`: `lop_parity_check` touches rows only, `store_lop` hands the page to `_vbi_cache_put_page`, which
  copies it up to `cache_page_size`).

Not proved (see NOTES/C02.md): that the rows / X/26 / X/28 / foreign packets FOLLOWING an own X/27 packet in the same
transmission keep `link[]` (only `parse_27` and the header branch write it; `AuxKept` does not say so), and the same two
clauses for the serial-mode cycle.  On the C code the whole path is judged by the network oracle (FLOF links and X/28/0
pages of every generated transmission).
-/
namespace Zvbi.Props.C02Own
open Zvbi.Ttx Zvbi.Hamm Zvbi.Props.C02Roundtrip Zvbi.Props.C02Interleave Zvbi.Props.C02Chain

/-- **own_aux_keeps_rows**: one `vbi_decode` frame carrying a packet number 26..29 (X/26, X/27, X/28 with a designation
other than 3, M/29) of magazine `m`, arriving while the page in progress of `m` is a Level 1 text page (8 slots, handler
registered, no channel-switch countdown).  Then in slot `m` the page function, page and sub-page number, national
option, control bits, the rows of the page record, the rows collected so far (`lop_raw`) and the `lop_packets` bits are
unchanged (`AuxKept`; what may differ: enhancement triplets, FLOF links, extension record and their designation masks);
every other slot, the reference header, `vt.current` are unchanged (`Quiet`); the cache chain is unchanged; no TTX_PAGE
event and no channel switch is signalled. -/
theorem own_aux_keeps_rows (s : St) (p : Packet) (m k : Nat) (hp : IsPacket p m k) (hk : IsAux p k)
    (hcd : s.chswcd = 0) (hmask : s.mask = true) (hfn : (s.rp m).page.function = FN_LOP) (hl : m < s.raw.length) :
    AuxKept (s.rp m) ((step s p).1.rp m) ∧ (step s p).1.net.cache = s.net.cache
      ∧ Quiet (tick s) (step s p).1 m ∧ ttxPages (step s p).2 = [] ∧ Event.chsw ∉ (step s p).2 := by
  obtain ⟨a1, a2, a3, a4⟩ := own_aux_step s p m k hp hk hcd hmask hfn hl
  exact ⟨a1, a2, a3, a4.pages, a4.nochsw⟩

/-- an X/27/0 packet of magazine 1 carrying six times the link 350/0001 (relative magazine 2), control bits 0xF -/
def x27p : Packet := Zvbi.Props.C02.addrBytes 1 27 ++ [ham8 0] ++
  (List.replicate 6 (Zvbi.Fmt.encLink 0 5 1 0 0 0 2)).flatten ++ [ham8 0xF, 0, 0]
/-- X/26/0 and X/28/0 of magazine 1 (designation 0, triplet bytes all zero) -/
def x26p : Packet := Zvbi.Props.C02.addrBytes 1 26 ++ [ham8 0] ++ List.replicate 39 0
def x28p : Packet := Zvbi.Props.C02.addrBytes 1 28 ++ [ham8 0] ++ List.replicate 39 0

/-- non-vacuity: the three packets are admissible own items, and X/28/3 is not -/
example : IsPacket x27p 1 27 ∧ IsAux x27p 27 ∧ IsPacket x26p 1 26 ∧ IsAux x26p 26 ∧ IsPacket x28p 1 28 ∧ IsAux x28p 28
    ∧ ¬ IsAux (Zvbi.Props.C02.addrBytes 1 28 ++ [ham8 3] ++ List.replicate 39 0) 28 := by
  refine ⟨⟨by decide, by decide, by decide +kernel⟩, ⟨by decide, by decide, fun h => absurd h (by decide)⟩,
    ⟨by decide, by decide, by decide +kernel⟩, ⟨by decide, by decide, fun h => absurd h (by decide)⟩,
    ⟨by decide, by decide, by decide +kernel⟩, ⟨by decide, by decide, fun _ => by decide +kernel⟩, ?_⟩
  intro h
  exact h.2.2 rfl (by decide +kernel)

/-- **own_x27_links_in_progress**: a packet X/27 with designation code 0 of magazine `m`, arriving while the page in
progress of `m` is a text page, whose six links are sent as EN 300 706 9.6.1 prescribes (`links i`: page units, tens,
S1, S2 + M1, S3, S4 + M2 + M3, every group decoding to the nibble sent) and whose link control byte decodes to `ctl`.
After that frame the page in progress has `have_flof` = `ctl >> 3`, `link[i]` = (magazine of the packet XOR relative
magazine with 0 -> 8, tens, units; sub-code S4S3S2S1) for i = 0..5, links 6.. as before - and function, numbers,
national option, control bits, rows, collected rows and `lop_packets` as before (`AuxKept`). -/
theorem own_x27_links_in_progress (s : St) (p : Packet) (m ctl : Nat) (links : Nat → C02Flof.TxLink)
    (hp : IsPacket p m 27) (hcd : s.chswcd = 0) (hmask : s.mask = true)
    (hfn : (s.rp m).page.function = FN_LOP) (hl : m < s.raw.length) (hlen : 6 ≤ (s.rp m).page.link.length)
    (hd : a8 p 2 = some 0) (hc : (view Kind.x27a p).g8 37 = some ctl) (hok : ∀ i, i < 6 → (links i).ok)
    (hn : ∀ i, i < 6 → ∀ k, k < 6 → (view Kind.x27a p).g8 (1 + 6 * i + k) = some ((links i).nibbles.getD k 0)) :
    AuxKept (s.rp m) ((step s p).1.rp m)
    ∧ ((step s p).1.rp m).page.haveFlof = ctl >>> 3
    ∧ (∀ i, i < 6 → (((step s p).1.rp m).page.link.getD i Link.ff).pgno = ((links i).pgno m : Int)
        ∧ (((step s p).1.rp m).page.link.getD i Link.ff).subno = ((links i).subno : Int))
    ∧ (∀ j, 6 ≤ j → ((step s p).1.rp m).page.link.getD j Link.ff = (s.rp m).page.link.getD j Link.ff) := by
  have hstep := own_x27_step s p m 0 hp hcd hmask hfn hd (by omega)
  have hd' : (view Kind.x27a p).g8 0 = some 0 := by rw [view_x27a_g8]; exact hd
  obtain ⟨_, x2, _, x4, x5, _⟩ := C02Flof.x27_links_filed (s.rp m).page (view Kind.x27a p) m ctl links
    (by rw [hfn]; decide) hlen hd' hc hok hn
  have hrp : ((step s p).1.rp m).page = (parse27 (s.rp m).page (view Kind.x27a p) m).1 := by
    rw [hstep, rp_setPage_same (tick s) m _ hl]
    rfl
  refine ⟨(own_aux_step s p m 27 hp ⟨by decide, by decide, fun h => absurd h (by decide)⟩ hcd hmask hfn hl).1, ?_, ?_, ?_⟩
  · rw [hrp]; exact x2
  · intro i hi; rw [hrp]; exact x4 i hi
  · intro j hj; rw [hrp]; exact x5 j hj

/-- magazine 1 sends page 100 with X/28/0, row 1, X/27/0, (header of 250 of magazine 2), X/26/0, row 2; then 101 -/
def own0 : Seg := ⟨⟨1, 0x00, 0, 0, 0⟩, hd 1 0x00,
  [.ownx 28 x28p, .own 1 (rowPkt 1 1 0xC1), .ownx 27 x27p, .foreign 2 0 (hd 2 0x50), .ownx 26 x26p, .own 2 (rowPkt 1 2 0x45)]⟩
def own1 : Seg := ⟨⟨1, 0x01, 0, 0, 0⟩, hd 1 0x01, [.own 3 (rowPkt 1 3 0xC2)]⟩

/-- non-vacuity of `own_x27_links_in_progress` on the model: after header, X/28/0, row 1 and the X/27/0 packet the page
    in progress of magazine 1 has `have_flof` = 1, link 0 = 350/0001, and still row 1 as received -/
example :
    let s := (run (init.enable true) [hd 1 0x00, x28p, rowPkt 1 1 0xC1, x27p]).1
    (s.rp 1).page.haveFlof = 1
    ∧ (((s.rp 1).page.link.getD 0 Link.ff).pgno, ((s.rp 1).page.link.getD 0 Link.ff).subno) = (0x350, 1)
    ∧ (s.rp 1).lopRaw.getD 1 [] = List.replicate 40 0xC1 ∧ (s.rp 1).page.function = FN_LOP := by
  decide +kernel

/-- `page_roundtrip_cycle_fetch` APPLIES to a cycle whose first page receives its own X/28/0, X/27/0 and X/26/0 packets
    between its rows (every hypothesis discharged): page 100 is fetched with rows 1 and 2 as sent -/
example : ∃ q cells, C02.fetch (run (run (init.enable true) []).1 (stream [own0, own1] ++ [hd 1 0xFF])).1 0 0x100 ANY_SUBNO
      = some (0x100, q.subno, cells)
    ∧ (∀ c, c < 40 → (C02.pageInOf 0 q).raw (40 * 1 + c) = 0xC1)
    ∧ ∀ c, c < 40 → (C02.pageInOf 0 q).raw (40 * 2 + c) = 0x45 := by
  have hok : ∀ x ∈ [own0, own1], SegOk cycTmpl 8 1 x := by
    have : ∀ x ∈ [own0, own1], segOkB cycTmpl 8 1 x = true := by decide +kernel
    exact fun x hx => segOk_of_dec _ _ _ x (this x hx)
  obtain ⟨q, _, hfetch, hrows⟩ := page_roundtrip_cycle_fetch cycTmpl 8 1 (by decide) [] (fun _ h => by cases h) own0 [own1] hok
    (hd 1 0xFF) 0xFF (by decide +kernel) (by decide +kernel) (textOnly_of_dec _ (by decide +kernel))
    ⟨by decide, by decide, trivial⟩ 0 [] own0 [own1] rfl (by decide) (by decide)
  obtain ⟨cells, hc, _⟩ := hfetch ANY_SUBNO (Or.inr rfl)
  have hall : ∀ r ∈ own0.rows, r = (1, List.replicate 40 0xC1) ∨ r = (2, List.replicate 40 0x45) := by decide +kernel
  have hget1 : ∀ c, c < 40 → (List.replicate 40 0xC1).getD c 0 = 0xC1 := by decide
  have hget2 : ∀ c, c < 40 → (List.replicate 40 0x45).getD c 0 = 0x45 := by decide
  refine ⟨q, cells, hc, ?_, ?_⟩
  · intro c hc40
    obtain ⟨r', hr', e1, e2⟩ := hrows (1, List.replicate 40 0xC1) (by decide +kernel)
    rw [e2 c hc40]
    rcases hall r' hr' with e | e
    · rw [e]; exact hget1 c hc40
    · rw [e] at e1; exact absurd e1 (by decide)
  · intro c hc40
    obtain ⟨r', hr', e1, e2⟩ := hrows (2, List.replicate 40 0x45) (by decide +kernel)
    rw [e2 c hc40]
    rcases hall r' hr' with e | e
    · rw [e] at e1; exact absurd e1 (by decide)
    · rw [e]; exact hget2 c hc40

/-- **page_roundtrip_cycle_links**: under the hypotheses of `C02Chain.page_roundtrip_cycle` (parallel mode, cycle of
transmissions of magazine `m` with own rows, own X/26 / X/27 / X/28 / M/29 packets and good traffic of the other seven
magazines between them), for the LAST transmission `x` of a page number: the entry a wildcard sub-page fetch finds in
the final cache has `link[]` and `have_flof` (the FLOF links `vbi_fetch_vt_page` reports in `nav_link`:
`C02Flof.nav_link_flof`), `x28_designations` and - when X/28/0, /1 or /4 was received - the extension record (what
`C02Std.fetchX_refines_L1Spec` formats with) of the page in progress at the moment the header terminating `x` arrived
(`sT`).  What an own X/27/0 packet files there: `own_x27_links_in_progress`. -/
theorem page_roundtrip_cycle_links (tmpl : List Nat) (off m : Nat) (hm : m < 8)
    (hist : List Packet) (hhist : ∀ p ∈ hist, Good tmpl off p)
    (x0 : Seg) (xs : List Seg) (hx : ∀ x ∈ x0 :: xs, SegOk tmpl off m x)
    (fin : Packet) (finPage : Nat) (hfa : a16 fin 0 = some m) (hfp : a16 fin 2 = some finPage) (hft : TextOnly fin)
    (halt : Alt ((x0 :: xs).map (·.t.page) ++ [finPage]))
    (pre : List Seg) (x : Seg) (post : List Seg) (e : x0 :: xs = pre ++ x :: post)
    (hlast : ∀ y ∈ post, y.t.page ≠ x.t.page) (hfinne : finPage ≠ x.t.page) :
    let s := (run (init.enable true) hist).1
    let sF := (run s (stream (x0 :: xs) ++ [fin])).1
    let sT := (run (run s (stream pre)).1 x.pkts).1
    ∃ q, (cacheGet sF.net.cache x.t.pgno ANY_SUBNO 0).map (·.1) = some q
      ∧ q.link = (sT.rp m).page.link ∧ q.haveFlof = (sT.rp m).page.haveFlof ∧ q.x28 = (sT.rp m).page.x28
      ∧ ((sT.rp m).page.x28 &&& 0x13 ≠ 0 → q.ext = (sT.rp m).page.ext) := by
  intro s sF sT
  obtain ⟨_, hclaims⟩ := page_roundtrip_cycle tmpl off m hm hist hhist x0 xs hx fin finPage hfa hfp hft halt
  obtain ⟨q, pt, hF, _, hknown, _, hcar⟩ := hclaims pre x post e
  obtain ⟨_, hget⟩ := hknown hlast hfinne
  exact ⟨q, hget ANY_SUBNO 0 (Or.inr rfl), hcar.link, hcar.flof, hcar.x28, hcar.ext⟩

/-- `page_roundtrip_cycle_links` APPLIES to the cycle above: the fetched page 100 has the links of the page in progress -/
example : ∃ q, (cacheGet (run (run (init.enable true) []).1 (stream [own0, own1] ++ [hd 1 0xFF])).1.net.cache 0x100 ANY_SUBNO 0).map (·.1)
      = some q ∧ q.haveFlof = 1 ∧ (q.link.getD 0 Link.ff).pgno = 0x350 := by
  have hok : ∀ x ∈ [own0, own1], SegOk cycTmpl 8 1 x := by
    have : ∀ x ∈ [own0, own1], segOkB cycTmpl 8 1 x = true := by decide +kernel
    exact fun x hx => segOk_of_dec _ _ _ x (this x hx)
  obtain ⟨q, h1, h2, h3, _⟩ := page_roundtrip_cycle_links cycTmpl 8 1 (by decide) [] (fun _ h => by cases h) own0 [own1] hok
    (hd 1 0xFF) 0xFF (by decide +kernel) (by decide +kernel) (textOnly_of_dec _ (by decide +kernel))
    ⟨by decide, by decide, trivial⟩ [] own0 [own1] rfl (by decide) (by decide)
  have hT : ((run (run (run (init.enable true) []).1 (stream [])).1 own0.pkts).1.rp 1).page.haveFlof = 1
      ∧ (((run (run (run (init.enable true) []).1 (stream [])).1 own0.pkts).1.rp 1).page.link.getD 0 Link.ff).pgno = 0x350 := by
    decide +kernel
  exact ⟨q, h1, h3.trans hT.1, (by rw [h2]; exact hT.2)⟩

/-- what the model computes on that cycle: one event per transmission, and the cached page 100 carries rows 1, 2, the
    six FLOF links of its X/27/0 packet -/
example :
    let r := run (init.enable true) (stream [own0, own1] ++ [hd 1 0xFF])
    magPages 1 r.2 = [(0x100, 0), (0x101, 0)]
    ∧ (cacheGet r.1.net.cache 0x100 ANY_SUBNO 0).map (fun g => (g.1.raw.getD 1 [], g.1.raw.getD 2 [], g.1.haveFlof,
          (g.1.link.getD 0 Link.ff).pgno, (g.1.link.getD 5 Link.ff).subno))
        = some (List.replicate 40 0xC1, List.replicate 40 0x45, 1, 0x350, 1) := by
  decide +kernel

end Zvbi.Props.C02Own
