import ZvbiModel.Export.PrintNT
import ZvbiModel.Export.LemmasPrintNT
/-!
# C16, `vbi_print_page_region` in non-table mode (exp-txt.c, `table == FALSE`)

The model `Export/PrintNT.lean` follows the function statement by statement and is compared byte for byte with the real
code (`printnt` op).  Proved for all inputs: the size bound and the absence of any fault but a read outside `pg->text`.
The documented output ("runs of spaces at the start and end of rows are collapsed into single spaces, blank lines are
suppressed") is stated as `print_nt_documented_full` and is OPEN (see `checks/C16.py` `open_statements`); the `example`s
below evaluate the model on the documented behaviours.
-/
namespace Zvbi.Props.C16PrintNT
open Zvbi.Export

/-- **Bounded.**  For every page, region, buffer size, converter and repair state: the non-table mode never reports more
bytes than the stated buffer size (every byte is appended through `print_unicode` with the space that is left), and the
only possible fault is a read outside `pg->text` for a page whose `rows * columns` exceeds the array. -/
theorem print_nt_bounded (cfg : Cfg) (conv : Nat → Option Bytes) (pg : Page) (size column row width height : Int) :
    (∀ out, printRegionNT cfg conv pg size column row width height = .ok (some out) → (out.length : Int) ≤ size) ∧
    (∀ f, printRegionNT cfg conv pg size column row width height = .error f → f = .oob "pg->text") := by
  unfold printRegionNT
  dsimp only
  refine ⟨?_, ?_⟩
  · intro out h
    split at h
    · cases h
    · next hcond =>
      have hs : 0 ≤ size := by
        by_cases hh : size < 0
        · exact absurd (Or.inl hh) hcond
        · omega
      have := ntRows_len _ [] out 0 (by simp) h
      omega
  · intro f h
    split at h
    · cases h
    · exact ntRows_fault _ _ _ f h

/-- The accepted regions are the documented ones: a negative size or a region outside the page gives 0. -/
theorem print_nt_rejects_outside (cfg : Cfg) (conv : Nat → Option Bytes) (pg : Page) (size column row width height : Int)
    (h : size < 0 ∨ column < 0 ∨ column + width - 1 ≥ pg.columns ∨ row < 0 ∨ row + height - 1 ≥ pg.rows) :
    printRegionNT cfg conv pg size column row width height = .ok none := by
  unfold printRegionNT
  dsimp only
  rw [if_pos h]

/-- latin-1 -/
def l1 (u : Nat) : Option Bytes := if u < 256 then some [u] else none
def cfgR : Cfg := { wideClip := true, nullGuard := true, printE2big := true, atOneByte := true }
def row (s : List Nat) : List Cell := s.map fun u => { unicode := u, size := 0 }

-- one row: everything is kept, also leading and trailing spaces (`y == row0`, last row)
example : printRegionNT cfgR l1 ⟨1, 5, row [32, 65, 32, 66, 32], [], []⟩ 100 0 0 5 1 = .ok (some [32, 65, 32, 66, 32]) := by rfl
-- three rows: leading spaces of later rows are dropped, rows are joined by one space, the blank row is suppressed,
-- trailing spaces of inner rows are dropped, those of the last row are kept
example : printRegionNT cfgR l1 ⟨3, 4, row [65, 66, 32, 32] ++ row [32, 32, 32, 32] ++ row [32, 67, 68, 32], [], []⟩ 100 0 0 4 3
    = .ok (some [65, 66, 32, 67, 68, 32]) := by rfl
-- the first row starts at `column`, the last ends at `column + width - 1`, the rows between are scanned in full
example : printRegionNT cfgR l1 ⟨2, 4, row [65, 66, 67, 68] ++ row [69, 70, 71, 72], [], []⟩ 100 1 0 2 2 = .ok (some [66, 67, 68, 32, 69, 70, 71]) := by rfl
-- too small a buffer: failure, never a cut text
example : printRegionNT cfgR l1 ⟨1, 3, row [65, 66, 67], [], []⟩ 2 0 0 3 1 = .ok none := by rfl

/-- **Observation N1 (outside the property: C16 speaks about the table mode).**  "Blank lines are suppressed" is tested with
`spaces >= (x1 - x0)`, which is also true for a row whose only printable character is in the first scanned column
(`spaces == x1 - x0`): two rows `A___` / `B___` come out as `AB___`, the words glued together without the separating space,
while `AC__` / `B___` gives `AC B___`.  Same output on the real code (`corpus/C16/N1-printnt-glued-rows.ops`). -/
theorem print_nt_glue_counterexample :
    printRegionNT cfgR l1 ⟨2, 4, row [65, 32, 32, 32] ++ row [66, 32, 32, 32], [], []⟩ 100 0 0 4 2 = .ok (some [65, 66, 32, 32, 32]) ∧
    printRegionNT cfgR l1 ⟨2, 4, row [65, 67, 32, 32] ++ row [66, 32, 32, 32], [], []⟩ 100 0 0 4 2 = .ok (some [65, 67, 32, 66, 32, 32, 32]) := by
  constructor <;> rfl

/-- **Observation N2 (outside the property).**  The two-row special case ("all chars in row0, column0 ... column1 are double
height: skip row1") tests `doubleh >= (x - x0)` at `x == column1`, which holds for a region one column wide whatever the
character is (`0 >= 0`): of the two-row, one-column region at column 2 of `ABCD` / `EFGH` only `C` is printed, the second row
is dropped, while the region two columns wide gives `BCD EFG`.  Same output on the real code. -/
theorem print_nt_two_row_counterexample :
    printRegionNT cfgR l1 ⟨2, 4, row [65, 66, 67, 68] ++ row [69, 70, 71, 72], [], []⟩ 100 2 0 1 2 = .ok (some [67]) ∧
    printRegionNT cfgR l1 ⟨2, 4, row [65, 66, 67, 68] ++ row [69, 70, 71, 72], [], []⟩ 100 1 0 2 2 = .ok (some [66, 67, 68, 32, 69, 70, 71]) := by
  constructor <;> rfl

/-- the text of one scanned row: blanks (a space or a character that is not printable) as spaces, the rest converted;
    `none` when a character has no conversion and neither has the space -/
def ntRowText (conv : Nat → Option Bytes) : List Cell → Option Bytes
  | [] => some []
  | c :: cs =>
    match (match conv (if ntBlank c.unicode then 0x20 else c.unicode) with | some b => some b | none => conv 0x20), ntRowText conv cs with
    | some b, some r => some (b ++ r)
    | _, _ => none

/-- OPEN (not proved): the documented output of the non-table mode.  Formal part, one-row regions of normal-size cells: all
characters of the row segment, blanks included, when they fit (same text as the table mode, not printable -> space).
For several rows (prose; the two observations N1 N2 above are deviations from it): leading blanks of every row but the first
and trailing blanks of every row but the last are dropped, rows are joined by exactly one space, blank rows are suppressed,
covered cells are skipped.  Missing: the refinement proof with the pending `spaces` counter as the loop invariant (as
`printRows_exact` does for the table mode), and a decision which of N1 / N2 the specification should follow. -/
def print_nt_documented_full : Prop :=
  ∀ (cfg : Cfg) (conv : Nat → Option Bytes) (pg : Page) (size column row width : Int) (cells : List (Nat × Cell)) (e : Bytes),
    0 ≤ column → 0 ≤ row → 1 ≤ width →
    regionCells pg column.toNat row.toNat width.toNat 1 = .ok [cells] → (∀ c ∈ cells, c.2.size = sizeNormal) →
    (∀ c ∈ cells, ∀ b, conv c.2.unicode = some b → b.head? ≠ some 0x40) →
    ntRowText conv (cells.map (·.2)) = some e → (e.length : Int) ≤ size →
    printRegionNT cfg conv pg size column row width 1 = .ok (some e)

end Zvbi.Props.C16PrintNT
