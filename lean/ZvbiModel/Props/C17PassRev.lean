import ZvbiModel.Search.LemmasRev7
import ZvbiModel.Search.WitnessBase
import ZvbiModel.Search.Current
/-!
# C17, whole-pass exactness: REPEATED `vbi_search_next` calls in BACKWARD direction

Counterpart of `Props/C17Pass.lean` for `vbi_search_next (.., -1)`: over ANY number of successive backward calls on an
unchanging reachable cache, up to the first answer that is not SUCCESS,

* `search_pass_rev_sound`: every page reported contains the pattern (whole text, although a continued call searches
  only the text in front of the previous occurrence),
* `search_pass_rev_complete`: when that answer comes (NOT_FOUND), every cached level one page of a valid page number
  that contains the pattern has been reported,
* `search_pass_rev_ordered`: the pages are reported in DESCENDING page order from the start position of the pass
  (`passRankRev`: descending (page, sub-page) from the position `vbi_search_new` computes as "just before (P, S)" -
  `revStart` - wrapping once below 100.0 to 8FF.FFFF); equal ranks are the same page (`passRankRev_inj`), so every page
  is reported in one block (one report per occurrence) and never again,
* `search_exact_pass_rev` = the three together, `search_exact_pass_rev_repaired` on the repaired source shapes,
  `search_exact_pass_rev_repaired_any_shape` for every shape with an exact start look-up (e.g. `Shape.anchored`),
  `search_exact_pass_rev_current` on the shapes read from /repo on this run.

What the backward page search does, and why the whole-text statement holds: `rev_haystack_whole` (a page that is not the
start position - or is, while row[1] = LAST_ROW + 1 as a fresh pass has it - is searched as the very list
`search_page_fwd` builds), `rev_first_exec_flags` (the first `ure_exec` gets flags 0 there, in every source shape),
`rev_exec_loop_ends` (the repeated `ure_exec` ends for ANY matcher, and reports an occurrence iff the first exec found one).

Hypotheses: as for the forward pass (`NoWrap` = exclusion of C17-D2 for the store as found; `0 <= S <= 0xFFFF`; the
exclusion of C17-D7 for `sh.startExact = false` in completeness / order; `PgOk p` for the pages of the completeness part;
no hypothesis on the matcher).  No further hypothesis: S = 0x80, for which `vbi_search_new` computes the backward stop
sub-page number `(0x80 - 0x100) | 0x7E = -2` (the pass starts at the position (P, -2)), is covered.
Direction changes: `search_turn_rev_exact` covers a turn from forward to backward (backward calls on a context whose
direction is +1); `search_turn_fwd_exact` a turn from backward to forward.  Both are stated for the context at the turn (what the
per-call lemmas `pass_step` / `pass_step_rev` establish after a SUCCESS); `search_pass_fwd_then_rev` composes the first with the
forward chain into one statement about the call sequence +1 (k times, all SUCCESS), -1 (n times) of a fresh search; `search_pass_rev_then_fwd` the mirror
sequence -1 (k times), +1 (n times); call sequences with several turns are not composed (the per-turn theorems apply to each turn's context).
-/
namespace Zvbi.Props.C17PassRev
open Zvbi.Search

/-- **rev_haystack_whole.** `search_page_rev` on a page without cursor (`row` = 100: the page is not the start
position; or `row` = row[1] >= 24, as `vbi_search_next` sets row[1] = LAST_ROW + 1 = 25 for a fresh pass): the haystack is
the whole page text - the same list `search_page_fwd` builds and `Matches` speaks about - and the flags variable ends as
0 (behind the last row separator). -/
theorem rev_haystack_whole (t : Text) (row col1 : Int) (hrow : 24 ≤ row) :
    hayRev t row col1 = ((hayFwd t (-1) 0).1, false) := hayRev_whole t row col1 hrow

example : hayRev abPage 100 0 = ((hayFwd abPage (-1) 0).1, false) := rev_haystack_whole _ _ _ (by decide)

/-- **rev_first_exec_flags.** The first `ure_exec` of `search_page_rev` on such a haystack gets the flags 0, in every
source shape (with or without the line anchor repair). -/
theorem rev_first_exec_flags (sh : Shape) (hay : List Nat) : revFlags sh hay false 0 = {} := revFlags_first sh hay

example : revFlags Shape.anchored [0x61, 0x0A] false 0 = {} := rev_first_exec_flags _ _

/-- **rev_exec_loop_ends.** The repeated `ure_exec` of `search_page_rev` (last occurrence in the haystack) ends for
every matcher - the model's fuel `hay.length + 2` is never exhausted - and its counter `i` is 0 ("no occurrence, try next
page") exactly when the first exec, on the whole haystack, found nothing. -/
theorem rev_exec_loop_ends (sh : Shape) (exec : Exec) (hay : List Nat) (ne : Bool) (hlen : hay.length ≠ 0) :
    ∃ i ms me, revMatches sh exec hay ne (hay.length + 2) 0 0 0 0 = some (i, ms, me) ∧
      (i = 0 ↔ exec (revFlags sh hay ne 0) hay = none) := revMatches_ends sh exec hay ne hlen

example : ∃ i ms me, revMatches Shape.repaired exAb [0x61, 0x62, 0x0A] false 5 0 0 0 0 = some (i, ms, me) ∧
    (i = 0 ↔ exAb (revFlags Shape.repaired [0x61, 0x62, 0x0A] false 0) [0x61, 0x62, 0x0A] = none) :=
  rev_exec_loop_ends Shape.repaired exAb [0x61, 0x62, 0x0A] false (by decide)

/-- **search_pass_rev_sound.** (whole backward pass, soundness)  A fresh search on any reachable cache (either store
shape, `NoWrap` = exclusion of C17-D2), any number `n` of successive `vbi_search_next (.., -1)` calls: every page reported
before the first answer other than SUCCESS is a cached level one page whose displayed text contains the pattern (the
matcher accepts the WHOLE text, although a continued call only searched in front of the previous occurrence).  Any
matcher, any source shape. -/
theorem search_pass_rev_sound (fix : Bool) (sh : Shape) (exec : Exec) (ops : List PutOp) (P S : Int) (s0 : SearchSt) (n : Nat)
    (hops : ∀ o ∈ ops, o.subno ≤ 0x3F7F) (hnw : NoWrap (buildF fix ops)) (hP : PgOk P) (hS : 0 ≤ S ∧ S ≤ 0xFFFF)
    (hnew : searchNew P S 1 = some s0) :
    ∀ r ∈ (runNexts sh exec (buildF fix ops) s0 (List.replicate n (-1))).takeWhile (fun r => r.1 = .ret SEARCH_SUCCESS),
      Matches exec (buildF fix ops) r.2.1 r.2.2 := by
  obtain ⟨hcov, hnoff, _, hd0, hinv, hok, _⟩ := pass_setup_rev fix sh exec ops P S s0 hops hnw hP hS hnew
  rw [runNexts_prepared_rev sh exec _ s0 hd0 n]
  exact runNexts_sound_rev sh exec _ hcov hnoff n _ _ (Equiv.refl _) hinv hok

example : ∀ r ∈ (runNexts Shape.repaired exAb (buildF true [⟨0x100, 0, 0, abPage⟩, ⟨0x101, 0, 0, abPage⟩])
      { stopPgno0 := 0x100, stopSubno0 := 0, stopPgno1 := 0x8FF, stopSubno1 := 0x3F7E } (List.replicate 5 (-1))).takeWhile
        (fun r => r.1 = .ret SEARCH_SUCCESS),
    Matches exAb (buildF true [⟨0x100, 0, 0, abPage⟩, ⟨0x101, 0, 0, abPage⟩]) r.2.1 r.2.2 :=
  search_pass_rev_sound true Shape.repaired exAb _ 0x100 0 _ 5 (by decide) (noWrap_repaired _) ⟨by decide, by decide⟩
    ⟨by decide, by decide⟩ rfl

/-- **search_pass_rev_complete.** (whole backward pass, completeness)  Same setting: when one of the `n` calls answers
something other than SUCCESS (NOT_FOUND, or CACHE_EMPTY on an empty cache), every cached level one page with a page
number in 0x100..0x8FF whose text contains the pattern is among the pages reported before.  `hany` = exclusion of finding
C17-D7 in the unrepaired shape (void when `sh.startExact`). -/
theorem search_pass_rev_complete (fix : Bool) (sh : Shape) (exec : Exec) (ops : List PutOp) (P S : Int) (s0 : SearchSt) (n : Nat)
    (hops : ∀ o ∈ ops, o.subno ≤ 0x3F7F) (hnw : NoWrap (buildF fix ops)) (hP : PgOk P) (hS : 0 ≤ S ∧ S ≤ 0xFFFF)
    (hany : sh.startExact = true ∨ ∀ p, ∀ e ∈ ((buildF fix ops).slots p).chain, (e.subno : Int) ≠ ANY_SUBNO)
    (hnew : searchNew P S 1 = some s0)
    (hlen : ((runNexts sh exec (buildF fix ops) s0 (List.replicate n (-1))).takeWhile
      (fun r => r.1 = .ret SEARCH_SUCCESS)).length < n) :
    ∀ p s : Nat, PgOk p → Matches exec (buildF fix ops) p s →
      ∃ r ∈ (runNexts sh exec (buildF fix ops) s0 (List.replicate n (-1))).takeWhile (fun r => r.1 = .ret SEARCH_SUCCESS),
        r.2 = (p, s) := by
  obtain ⟨hcov, hnoff, hcnt, hd0, hinv, hok, hctx, hBP, hBS, hr0, hrow, hsm⟩ :=
    pass_setup_rev fix sh exec ops P S s0 hops hnw hP hS hnew
  rw [runNexts_prepared_rev sh exec _ s0 hd0 n] at hlen ⊢
  intro p s hp hm
  apply runNexts_exact_rev sh exec _ hcov hsm hnoff hcnt _ _ hBP hBS hany n _ _ (Equiv.refl _) hinv hok hctx hlen p s hp hm
  rw [hr0]
  have h0 : 0 ≤ rkR (key (revStart P S).1 (revStart P S).2) (key p s) := by
    obtain ⟨e', hl', _, _⟩ := hm
    obtain ⟨htb, _, _⟩ := page_factsR (Equiv.refl _) hcov hl'
    exact rkR_nonneg (key_bounds2 hBP hBS) (key_boundsR hp htb)
  by_cases h1 : 0 < rkR (key (revStart P S).1 (revStart P S).2) (key p s)
  · exact Or.inl h1
  · exact Or.inr ⟨by omega, hrow⟩

example (n : Nat)
    (hlen : ((runNexts Shape.repaired exAb (buildF true [⟨0x100, 0, 0, abPage⟩, ⟨0x101, 0, 0, abPage⟩])
      { stopPgno0 := 0x100, stopSubno0 := 0, stopPgno1 := 0x8FF, stopSubno1 := 0x3F7E } (List.replicate n (-1))).takeWhile
        (fun r => r.1 = .ret SEARCH_SUCCESS)).length < n) :
    ∀ p s : Nat, PgOk p → Matches exAb (buildF true [⟨0x100, 0, 0, abPage⟩, ⟨0x101, 0, 0, abPage⟩]) p s →
      ∃ r ∈ (runNexts Shape.repaired exAb (buildF true [⟨0x100, 0, 0, abPage⟩, ⟨0x101, 0, 0, abPage⟩])
        { stopPgno0 := 0x100, stopSubno0 := 0, stopPgno1 := 0x8FF, stopSubno1 := 0x3F7E } (List.replicate n (-1))).takeWhile
          (fun r => r.1 = .ret SEARCH_SUCCESS), r.2 = (p, s) :=
  search_pass_rev_complete true Shape.repaired exAb _ 0x100 0 _ n (by decide) (noWrap_repaired _) ⟨by decide, by decide⟩
    ⟨by decide, by decide⟩ (Or.inl rfl) rfl hlen

/-- **search_pass_rev_ordered.** (whole backward pass, order)  Same setting: the pages reported before the first answer
other than SUCCESS come in backward pass order: DESCENDING (page, sub-page) from the start position of the pass
(`revStart P S`, the position just before (P, S)), wrapping once below 100.0 to 8FF.FFFF.  Equal ranks are the same page
(`passRankRev_inj`), so every page is reported in one block (one report per occurrence: `search_page_rev` cuts the text
in front of the previous occurrence and reports the last occurrence of what is left) and never again. -/
theorem search_pass_rev_ordered (fix : Bool) (sh : Shape) (exec : Exec) (ops : List PutOp) (P S : Int) (s0 : SearchSt) (n : Nat)
    (hops : ∀ o ∈ ops, o.subno ≤ 0x3F7F) (hnw : NoWrap (buildF fix ops)) (hP : PgOk P) (hS : 0 ≤ S ∧ S ≤ 0xFFFF)
    (hany : sh.startExact = true ∨ ∀ p, ∀ e ∈ ((buildF fix ops).slots p).chain, (e.subno : Int) ≠ ANY_SUBNO)
    (hnew : searchNew P S 1 = some s0) :
    (((runNexts sh exec (buildF fix ops) s0 (List.replicate n (-1))).takeWhile (fun r => r.1 = .ret SEARCH_SUCCESS)).map
      (fun r => passRankRev P S r.2.1 r.2.2)).Pairwise (· ≤ ·) := by
  obtain ⟨hcov, hnoff, _, hd0, hinv, hok, hctx, hBP, hBS, _, _, hsm⟩ :=
    pass_setup_rev fix sh exec ops P S s0 hops hnw hP hS hnew
  rw [runNexts_prepared_rev sh exec _ s0 hd0 n]
  exact (runNexts_ordered_rev sh exec _ hcov hsm hnoff _ _ hBP hBS hany n _ _ (Equiv.refl _) hinv hok hctx).2

example : (((runNexts Shape.repaired exAb (buildF true [⟨0x100, 0, 0, abPage⟩, ⟨0x101, 0, 0, abPage⟩])
      { stopPgno0 := 0x100, stopSubno0 := 0, stopPgno1 := 0x8FF, stopSubno1 := 0x3F7E } (List.replicate 5 (-1))).takeWhile
        (fun r => r.1 = .ret SEARCH_SUCCESS)).map (fun r => passRankRev 0x100 0 r.2.1 r.2.2)).Pairwise (· ≤ ·) :=
  search_pass_rev_ordered true Shape.repaired exAb _ 0x100 0 _ 5 (by decide) (noWrap_repaired _) ⟨by decide, by decide⟩
    ⟨by decide, by decide⟩ (Or.inl rfl) rfl

/-- **passRankRev_inj.** Two cached positions (valid page number, sub-page number of 16 bits) with the same backward
rank are the same page: `Pairwise (· ≤ ·)` of the ranks means one block of reports per page. -/
theorem passRankRev_inj {P S : Int} (hP : PgOk P) (hS : 0 ≤ S ∧ S ≤ 0xFFFF) {q t q' t' : Int}
    (hq : PgOk q) (ht : 0 ≤ t ∧ t < 65536) (hq' : PgOk q') (ht' : 0 ≤ t' ∧ t' < 65536)
    (h : passRankRev P S q t = passRankRev P S q' t') : q = q' ∧ t = t' := by
  obtain ⟨hBP, hBS, _⟩ := revStart_facts hP hS
  have hk := rkR_inj (key_bounds2 hBP hBS) (key_boundsR hq ht) (key_boundsR hq' ht') h
  unfold key at hk; unfold PgOk at hq hq'
  constructor <;> omega

example : passRankRev 0x100 0 0x101 0 = passRankRev 0x100 0 0x101 0 → (0x101 : Int) = 0x101 ∧ (0 : Int) = 0 :=
  fun h => passRankRev_inj ⟨by decide, by decide⟩ ⟨by decide, by decide⟩ ⟨by decide, by decide⟩
    ⟨by decide, by decide⟩ ⟨by decide, by decide⟩ ⟨by decide, by decide⟩ h

/-- **search_exact_pass_rev.** (backward counterpart of `Zvbi.Props.C17Pass.search_exact_pass`)  Over any number of
successive backward `vbi_search_next` calls on an unchanging reachable cache: the pages reported are exactly the matching
pages, in descending pass order, each in one block of consecutive reports, then NOT_FOUND. -/
theorem search_exact_pass_rev (fix : Bool) (sh : Shape) (exec : Exec) (ops : List PutOp) (P S : Int) (s0 : SearchSt) (n : Nat)
    (hops : ∀ o ∈ ops, o.subno ≤ 0x3F7F) (hnw : NoWrap (buildF fix ops)) (hP : PgOk P) (hS : 0 ≤ S ∧ S ≤ 0xFFFF)
    (hany : sh.startExact = true ∨ ∀ p, ∀ e ∈ ((buildF fix ops).slots p).chain, (e.subno : Int) ≠ ANY_SUBNO)
    (hnew : searchNew P S 1 = some s0) :
    let c := buildF fix ops
    let pass := (runNexts sh exec c s0 (List.replicate n (-1))).takeWhile (fun r => r.1 = .ret SEARCH_SUCCESS)
    (∀ r ∈ pass, Matches exec c r.2.1 r.2.2) ∧
    (pass.length < n → ∀ p s : Nat, PgOk p → Matches exec c p s → ∃ r ∈ pass, r.2 = (p, s)) ∧
    (pass.map (fun r => passRankRev P S r.2.1 r.2.2)).Pairwise (· ≤ ·) :=
  ⟨search_pass_rev_sound fix sh exec ops P S s0 n hops hnw hP hS hnew,
   search_pass_rev_complete fix sh exec ops P S s0 n hops hnw hP hS hany hnew,
   search_pass_rev_ordered fix sh exec ops P S s0 n hops hnw hP hS hany hnew⟩

example : ∀ r ∈ (runNexts Shape.unrepaired exAb (buildF false [⟨0x100, 0, 0, abPage⟩, ⟨0x101, 0, 0, abPage⟩])
      { stopPgno0 := 0x100, stopSubno0 := 0, stopPgno1 := 0x8FF, stopSubno1 := 0x3F7E } (List.replicate 5 (-1))).takeWhile
        (fun r => r.1 = .ret SEARCH_SUCCESS),
    Matches exAb (buildF false [⟨0x100, 0, 0, abPage⟩, ⟨0x101, 0, 0, abPage⟩]) r.2.1 r.2.2 :=
  (search_exact_pass_rev false Shape.unrepaired exAb _ 0x100 0 _ 5 (by decide) (noWrapF_of_few false _ (by decide))
    ⟨by decide, by decide⟩ ⟨by decide, by decide⟩
    (Or.inr (by
      intro p e he
      have : ∀ e ∈ ((buildF false [⟨0x100, 0, 0, abPage⟩, ⟨0x101, 0, 0, abPage⟩]).slots p).chain, e.subno = 0 := by
        intro e he
        by_cases h1 : p = 0x100
        · subst h1; revert e; decide
        · by_cases h2 : p = 0x101
          · subst h2; revert e; decide
          · exfalso
            have : ((buildF false [⟨0x100, 0, 0, abPage⟩, ⟨0x101, 0, 0, abPage⟩]).slots p).chain = [] := by
              simp [buildF, putF, put, putKey, isBcdPgno, nib, removeFirst, Cache.setSlot, Cache.empty, h1, h2]
            rw [this] at he; cases he
      rw [this e he]; decide)) rfl).1

/-- **search_exact_pass_rev_repaired.** The same on the repaired source shapes (store:
fixes/C10-put-replaces-all-versions.diff, walk start / turn: fixes/C17-turn-3f7f.diff): after EVERY history of page stores,
no exclusion left. -/
theorem search_exact_pass_rev_repaired (exec : Exec) (ops : List PutOp) (P S : Int) (s0 : SearchSt) (n : Nat)
    (hops : ∀ o ∈ ops, o.subno ≤ 0x3F7F) (hP : PgOk P) (hS : 0 ≤ S ∧ S ≤ 0xFFFF)
    (hnew : searchNew P S 1 = some s0) :
    let c := buildF true ops
    let pass := (runNexts Shape.repaired exec c s0 (List.replicate n (-1))).takeWhile (fun r => r.1 = .ret SEARCH_SUCCESS)
    (∀ r ∈ pass, Matches exec c r.2.1 r.2.2) ∧
    (pass.length < n → ∀ p s : Nat, PgOk p → Matches exec c p s → ∃ r ∈ pass, r.2 = (p, s)) ∧
    (pass.map (fun r => passRankRev P S r.2.1 r.2.2)).Pairwise (· ≤ ·) :=
  search_exact_pass_rev true Shape.repaired exec ops P S s0 n hops (noWrap_repaired ops) hP hS (Or.inl rfl) hnew

/-- non-vacuity: a backward search on a two page cache, five calls, search created for 100.0 (starts at 8FF.3F7E) -/
example : ∀ r ∈ (runNexts Shape.repaired exAb (buildF true [⟨0x100, 0, 0, abPage⟩, ⟨0x101, 0, 0, abPage⟩])
      { stopPgno0 := 0x100, stopSubno0 := 0, stopPgno1 := 0x8FF, stopSubno1 := 0x3F7E } (List.replicate 5 (-1))).takeWhile
        (fun r => r.1 = .ret SEARCH_SUCCESS),
    Matches exAb (buildF true [⟨0x100, 0, 0, abPage⟩, ⟨0x101, 0, 0, abPage⟩]) r.2.1 r.2.2 :=
  (search_exact_pass_rev_repaired exAb _ 0x100 0 _ 5 (by decide) ⟨by decide, by decide⟩ ⟨by decide, by decide⟩
    rfl).1

/-- non-vacuity in the corner S = 0x80: `vbi_search_new` stores the backward stop position (100, -2) -/
example : ∀ r ∈ (runNexts Shape.repaired exAb (buildF true [⟨0x100, 0, 0, abPage⟩, ⟨0x101, 0, 0, abPage⟩])
      { stopPgno0 := 0x100, stopSubno0 := 0x80, stopPgno1 := 0x100, stopSubno1 := -2 } (List.replicate 5 (-1))).takeWhile
        (fun r => r.1 = .ret SEARCH_SUCCESS),
    Matches exAb (buildF true [⟨0x100, 0, 0, abPage⟩, ⟨0x101, 0, 0, abPage⟩]) r.2.1 r.2.2 :=
  (search_exact_pass_rev_repaired exAb _ 0x100 0x80 _ 5 (by decide) ⟨by decide, by decide⟩ ⟨by decide, by decide⟩
    rfl).1

/-- **search_exact_pass_rev_repaired_any_shape.** The same for ANY shape of the D7 / anchor statements whose walk
start look-up is exact (`sh.startExact = true`: `Shape.repaired`, `Shape.anchored`, ...), repaired store. -/
theorem search_exact_pass_rev_repaired_any_shape (sh : Shape) (hsh : sh.startExact = true) (exec : Exec) (ops : List PutOp)
    (P S : Int) (s0 : SearchSt) (n : Nat)
    (hops : ∀ o ∈ ops, o.subno ≤ 0x3F7F) (hP : PgOk P) (hS : 0 ≤ S ∧ S ≤ 0xFFFF)
    (hnew : searchNew P S 1 = some s0) :
    let c := buildF true ops
    let pass := (runNexts sh exec c s0 (List.replicate n (-1))).takeWhile (fun r => r.1 = .ret SEARCH_SUCCESS)
    (∀ r ∈ pass, Matches exec c r.2.1 r.2.2) ∧
    (pass.length < n → ∀ p s : Nat, PgOk p → Matches exec c p s → ∃ r ∈ pass, r.2 = (p, s)) ∧
    (pass.map (fun r => passRankRev P S r.2.1 r.2.2)).Pairwise (· ≤ ·) :=
  search_exact_pass_rev true sh exec ops P S s0 n hops (noWrap_repaired ops) hP hS (Or.inl hsh) hnew

example : ∀ r ∈ (runNexts Shape.anchored exAb (buildF true [⟨0x100, 0, 0, abPage⟩])
      { stopPgno0 := 0x100, stopSubno0 := 0, stopPgno1 := 0x8FF, stopSubno1 := 0x3F7E } (List.replicate 3 (-1))).takeWhile
        (fun r => r.1 = .ret SEARCH_SUCCESS),
    Matches exAb (buildF true [⟨0x100, 0, 0, abPage⟩]) r.2.1 r.2.2 :=
  (search_exact_pass_rev_repaired_any_shape Shape.anchored rfl exAb _ 0x100 0 _ 3 (by decide) ⟨by decide, by decide⟩
    ⟨by decide, by decide⟩ rfl).1

/-- **search_exact_pass_rev_current.** The same for the source shapes of the CURRENT /repo, as the translators read
them on this run (`Shape.current`, `Zvbi.Gen.Cache.putReplacesAllVersions`).  An exclusion is a hypothesis only while the
corresponding repair is not in the source.  Proved without looking at the generated values. -/
theorem search_exact_pass_rev_current (exec : Exec) (ops : List PutOp) (P S : Int) (s0 : SearchSt) (n : Nat)
    (hops : ∀ o ∈ ops, o.subno ≤ 0x3F7F) (hP : PgOk P) (hS : 0 ≤ S ∧ S ≤ 0xFFFF)
    (hnw : Zvbi.Gen.Cache.putReplacesAllVersions = false → NoWrap (buildF Zvbi.Gen.Cache.putReplacesAllVersions ops))
    (hany : Shape.current.startExact = false →
      ∀ p, ∀ e ∈ ((buildF Zvbi.Gen.Cache.putReplacesAllVersions ops).slots p).chain, (e.subno : Int) ≠ ANY_SUBNO)
    (hnew : searchNew P S 1 = some s0) :
    let c := buildF Zvbi.Gen.Cache.putReplacesAllVersions ops
    let pass := (runNexts Shape.current exec c s0 (List.replicate n (-1))).takeWhile (fun r => r.1 = .ret SEARCH_SUCCESS)
    (∀ r ∈ pass, Matches exec c r.2.1 r.2.2) ∧
    (pass.length < n → ∀ p s : Nat, PgOk p → Matches exec c p s → ∃ r ∈ pass, r.2 = (p, s)) ∧
    (pass.map (fun r => passRankRev P S r.2.1 r.2.2)).Pairwise (· ≤ ·) := by
  have hnw' : NoWrap (buildF Zvbi.Gen.Cache.putReplacesAllVersions ops) := by
    by_cases h : Zvbi.Gen.Cache.putReplacesAllVersions = false
    · exact hnw h
    · have ht : Zvbi.Gen.Cache.putReplacesAllVersions = true := by simpa using h
      rw [ht]; exact noWrap_repaired ops
  have hany' : Shape.current.startExact = true ∨
      ∀ p, ∀ e ∈ ((buildF Zvbi.Gen.Cache.putReplacesAllVersions ops).slots p).chain, (e.subno : Int) ≠ ANY_SUBNO := by
    by_cases h : Shape.current.startExact = false
    · exact Or.inr (hany h)
    · exact Or.inl (by simpa using h)
  exact search_exact_pass_rev _ Shape.current exec ops P S s0 n hops hnw' hP hS hany' hnew

example (hnw : Zvbi.Gen.Cache.putReplacesAllVersions = false → NoWrap (buildF Zvbi.Gen.Cache.putReplacesAllVersions []))
    : ∀ r ∈ (runNexts Shape.current exAb (buildF Zvbi.Gen.Cache.putReplacesAllVersions [])
      { stopPgno0 := 0x100, stopSubno0 := 0, stopPgno1 := 0x8FF, stopSubno1 := 0x3F7E } (List.replicate 2 (-1))).takeWhile
        (fun r => r.1 = .ret SEARCH_SUCCESS),
    Matches exAb (buildF Zvbi.Gen.Cache.putReplacesAllVersions []) r.2.1 r.2.2 :=
  (search_exact_pass_rev_current exAb [] 0x100 0 _ 2 (by simp) ⟨by decide, by decide⟩ ⟨by decide, by decide⟩
    hnw (by intro _ p e he; simp [buildF, Cache.empty] at he) rfl).1

/-- **search_turn_rev_exact.** (a direction change: forward -> backward)  Backward calls on a search context whose
direction is +1, i.e. right after forward calls - `s` is any such context: start position (Q, T) = the page the last
forward call returned, on a valid page number, `T` of 16 bits (and no 0x3F7F in the source shape with the wildcard start
look-up: finding C17-D7 lives exactly here), and that page matches (what `Zvbi.Search.pass_step` gives for a forward
SUCCESS) or the cursor row[1] is below the page; `c'` = the cache as the forward calls left it (any cache `Equiv` to the
reachable one).  `vbi_search_next` installs (Q, T) as stop position and keeps the cursor; then, up to the first answer
other than SUCCESS: every page reported matches; when that answer comes, every matching page OTHER than (Q, T) has been
reported ((Q, T) itself is reported again only for occurrences in front of the one highlighted last - documented
behaviour, the text behind it is never searched backwards); the reports come in descending order from (Q, T), wrapping
once: a full circle back to (Q, T). -/
theorem search_turn_rev_exact (fix : Bool) (sh : Shape) (exec : Exec) (ops : List PutOp) (c' : Cache) (s : SearchSt) (n : Nat)
    (hops : ∀ o ∈ ops, o.subno ≤ 0x3F7F) (hnw : NoWrap (buildF fix ops)) (heq : Equiv (buildF fix ops) c')
    (hdir : s.dir = 1) (hpg : PgOk s.startPgno) (hsub : 0 ≤ s.startSubno ∧ s.startSubno < 65536)
    (hnoany : sh.startExact = true ∨ s.startSubno ≠ ANY_SUBNO)
    (hcur : 24 ≤ s.row1 ∨ MatchesIR exec (buildF fix ops) s.startPgno s.startSubno)
    (hany : sh.startExact = true ∨ ∀ p, ∀ e ∈ ((buildF fix ops).slots p).chain, (e.subno : Int) ≠ ANY_SUBNO) :
    let c := buildF fix ops
    let pass := (runNexts sh exec c' s (List.replicate n (-1))).takeWhile (fun r => r.1 = .ret SEARCH_SUCCESS)
    (∀ r ∈ pass, Matches exec c r.2.1 r.2.2) ∧
    (pass.length < n → ∀ p t : Nat, PgOk p → Matches exec c p t → ((p : Int), (t : Int)) ≠ (s.startPgno, s.startSubno) →
      ∃ r ∈ pass, r.2 = (p, t)) ∧
    (pass.map (fun r => rkR (key s.startPgno s.startSubno) (key r.2.1 r.2.2))).Pairwise (· ≤ ·) := by
  obtain ⟨hcov, _⟩ := reachableF fix sh ops hops hnw s.startPgno hpg
  have hnoff := buildF_noFF fix ops
  have hcnt := buildF_counted fix ops
  obtain ⟨hinv, hctx, f1, f2⟩ := turn_rev_setup sh exec (buildF fix ops) s hdir hpg hsub hnoany hcur
  have hsm := smallSub_buildF fix ops hops hnw
  have hok : StartOk sh c' (prepare sh s (-1)).startPgno := by
    rw [f1]
    rcases hsh : sh.startExact with _ | _
    · right
      by_cases hv : validPgno s.startPgno = true
      · exact Or.inl hv
      · right
        have hff : s.startPgno.toNat % 256 = 255 := by
          unfold validPgno at hv; unfold PgOk at hpg
          have h1 : (0x100 : Int) ≤ s.startPgno := hpg.1
          have h2 : s.startPgno ≤ (0x8FF : Int) := hpg.2
          simp [h1, h2] at hv
          omega
        have hempty := hnoff _ hff
        cases hch : (c'.slots s.startPgno.toNat).chain with
        | nil => rfl
        | cons a l =>
          exfalso
          have hlk := heq.look s.startPgno.toNat (a.subno : Int)
          rw [hempty, hch] at hlk
          simp [predX] at hlk
    · exact Or.inl hsh
  dsimp only
  rw [runNexts_prepared_turn sh exec c' s hdir n]
  refine ⟨runNexts_sound_rev sh exec _ hcov hnoff n _ _ heq hinv hok, ?_, ?_⟩
  · intro hlen p t hp hm hne
    apply runNexts_exact_rev sh exec _ hcov hsm hnoff hcnt _ _ hpg ⟨by omega, hsub.2⟩ hany n _ _ heq hinv hok hctx hlen p t hp hm
    rw [f1, f2, rkR_self]
    left
    obtain ⟨e', hl', _, _⟩ := hm
    obtain ⟨htb, _, _⟩ := page_factsR (Equiv.refl _) hcov hl'
    apply rkR_pos (key_boundsR hpg hsub) (key_boundsR hp htb)
    intro hk
    apply hne
    unfold key at hk; unfold PgOk at hp hpg
    have h1 : (p : Int) = s.startPgno := by omega
    have h2 : (t : Int) = s.startSubno := by omega
    rw [h1, h2]
  · exact (runNexts_ordered_rev sh exec _ hcov hsm hnoff _ _ hpg ⟨by omega, hsub.2⟩ hany n _ _ heq hinv hok hctx).2

/-- non-vacuity: a context as two forward calls leave it (direction +1, standing on 101.0, cursor row[1] untouched) -/
example : ∀ r ∈ (runNexts Shape.repaired exAb (buildF true [⟨0x100, 0, 0, abPage⟩, ⟨0x101, 0, 0, abPage⟩])
      { startPgno := 0x101, startSubno := 0, stopPgno0 := 0x100, stopSubno0 := 0, stopPgno1 := 0x8FF, stopSubno1 := 0x3F7E,
        row0 := 3, col0 := 5, row1 := 25, col1 := 0, dir := 1 } (List.replicate 4 (-1))).takeWhile
        (fun r => r.1 = .ret SEARCH_SUCCESS),
    Matches exAb (buildF true [⟨0x100, 0, 0, abPage⟩, ⟨0x101, 0, 0, abPage⟩]) r.2.1 r.2.2 :=
  (search_turn_rev_exact true Shape.repaired exAb _ _ _ 4 (by decide) (noWrap_repaired _) (Equiv.refl _) rfl
    ⟨by decide, by decide⟩ ⟨by decide, by decide⟩ (Or.inl rfl) (Or.inl (by decide)) (Or.inl rfl)).1


/-- **search_turn_fwd_exact.** (a direction change: backward -> forward)  Forward calls on a search context whose
direction is -1, i.e. right after backward calls; `s` any such context: start position (Q, T) = the page the last backward
call returned, valid page number, `T` of 16 bits, not 0x3F7F in a source shape that reads it as the wildcard (start
look-up `startExact = false`, or the turn statement `turnKeeps = false`: finding C17-D7), and that page matches or the
cursor (row[0], col[0]) is at the top of the page.  `vbi_search_next` installs (Q, T) as stop position; then, up to the
first answer other than SUCCESS: every page reported matches; when that answer comes, every matching page OTHER than (Q, T)
has been reported; the reports come in ascending order from (Q, T), wrapping once. -/
theorem search_turn_fwd_exact (fix : Bool) (sh : Shape) (exec : Exec) (ops : List PutOp) (c' : Cache) (s : SearchSt) (n : Nat)
    (hops : ∀ o ∈ ops, o.subno ≤ 0x3F7F) (hnw : NoWrap (buildF fix ops)) (heq : Equiv (buildF fix ops) c')
    (hdir : s.dir = -1) (hpg : PgOk s.startPgno) (hsub : 0 ≤ s.startSubno ∧ s.startSubno < 65536)
    (hnoany : sh.startExact = true ∨ s.startSubno ≠ ANY_SUBNO)
    (hkeep : sh.turnKeeps = true ∨ s.startSubno ≠ ANY_SUBNO)
    (hcur : (s.row0 = 1 ∧ s.col0 = 0) ∨ MatchesI exec (buildF fix ops) s.startPgno s.startSubno)
    (hany : sh.startExact = true ∨ ∀ p, ∀ e ∈ ((buildF fix ops).slots p).chain, (e.subno : Int) ≠ ANY_SUBNO) :
    let c := buildF fix ops
    let pass := (runNexts sh exec c' s (List.replicate n 1)).takeWhile (fun r => r.1 = .ret SEARCH_SUCCESS)
    (∀ r ∈ pass, Matches exec c r.2.1 r.2.2) ∧
    (pass.length < n → ∀ p t : Nat, PgOk p → Matches exec c p t → ((p : Int), (t : Int)) ≠ (s.startPgno, s.startSubno) →
      ∃ r ∈ pass, r.2 = (p, t)) ∧
    (pass.map (fun r => passRank s.startPgno s.startSubno r.2.1 r.2.2)).Pairwise (· ≤ ·) := by
  obtain ⟨hcov, _⟩ := reachableF fix sh ops hops hnw s.startPgno hpg
  have hnoff := buildF_noFF fix ops
  have hcnt := buildF_counted fix ops
  obtain ⟨hinv, hctx, f1, f2⟩ := turn_fwd_setup sh exec (buildF fix ops) s hdir hpg hsub hnoany hkeep hcur
  have hok : StartOk sh c' (prepare sh s 1).startPgno := by rw [f1]; exact startOk_of_equiv sh heq hnoff hpg
  dsimp only
  rw [runNexts_prepared_turn_fwd sh exec c' s hdir n]
  refine ⟨runNexts_sound sh exec _ hcov hnoff n _ _ heq hinv hok, ?_, ?_⟩
  · intro hlen p t hp hm hne
    apply runNexts_exact sh exec _ hcov hnoff hcnt _ _ hpg hsub hany n _ _ heq hinv hok hctx hlen p t hp hm
    rw [f1, f2, passRank_rk, passRank_rk, rk_self]
    left
    obtain ⟨e', hl', _, _⟩ := hm
    obtain ⟨htb, _, _⟩ := page_factsR (Equiv.refl _) hcov hl'
    apply rk_pos (key_boundsR hpg hsub) (key_boundsR hp htb)
    intro hk
    apply hne
    unfold key at hk; unfold PgOk at hp hpg
    have h1 : (p : Int) = s.startPgno := by omega
    have h2 : (t : Int) = s.startSubno := by omega
    rw [h1, h2]
  · exact (runNexts_ordered sh exec _ hcov hnoff _ _ hpg hsub hany n _ _ heq hinv hok hctx).2

/-- non-vacuity: a context as two backward calls leave it (direction -1, standing on 100.0, cursor row[0] at the top) -/
example : ∀ r ∈ (runNexts Shape.repaired exAb (buildF true [⟨0x100, 0, 0, abPage⟩, ⟨0x101, 0, 0, abPage⟩])
      { startPgno := 0x100, startSubno := 0, stopPgno0 := 0x100, stopSubno0 := 0, stopPgno1 := 0x8FF, stopSubno1 := 0x3F7E,
        row0 := 1, col0 := 0, row1 := 3, col1 := 3, dir := -1 } (List.replicate 4 1)).takeWhile
        (fun r => r.1 = .ret SEARCH_SUCCESS),
    Matches exAb (buildF true [⟨0x100, 0, 0, abPage⟩, ⟨0x101, 0, 0, abPage⟩]) r.2.1 r.2.2 :=
  (search_turn_fwd_exact true Shape.repaired exAb _ _ _ 4 (by decide) (noWrap_repaired _) (Equiv.refl _) rfl
    ⟨by decide, by decide⟩ ⟨by decide, by decide⟩ (Or.inl rfl) (Or.inl rfl) (Or.inl ⟨rfl, rfl⟩) (Or.inl rfl)).1


/-- **search_pass_fwd_then_rev.** (one statement over a call sequence with a direction change)  A fresh search on a
reachable cache, `k >= 1` forward calls that all answer SUCCESS, then `n` backward calls.  `sk` = cache and search context
after the forward calls (`runFinal`); its start position is the page reported last (`Zvbi.Search.pass_step`).  The answers
of the whole sequence are those of the forward calls followed by `back`; in `back`, up to the first answer other than
SUCCESS: every page reported matches; when that answer comes, every matching page other than the turn page has been
reported; the reports descend from the turn page, wrapping once. -/
theorem search_pass_fwd_then_rev (fix : Bool) (sh : Shape) (exec : Exec) (ops : List PutOp) (P S : Int) (s0 : SearchSt) (k n : Nat)
    (hops : ∀ o ∈ ops, o.subno ≤ 0x3F7F) (hnw : NoWrap (buildF fix ops)) (hP : PgOk P) (hS : 0 ≤ S ∧ S ≤ 0xFFFF)
    (hany : sh.startExact = true ∨ ∀ p, ∀ e ∈ ((buildF fix ops).slots p).chain, (e.subno : Int) ≠ ANY_SUBNO)
    (hnew : searchNew P S 1 = some s0) (hk : 1 ≤ k)
    (hall : ∀ r ∈ runNexts sh exec (buildF fix ops) s0 (List.replicate k 1), r.1 = .ret SEARCH_SUCCESS) :
    let c := buildF fix ops
    let sk := runFinal sh exec c s0 (List.replicate k 1)
    let back := runNexts sh exec sk.1 sk.2 (List.replicate n (-1))
    let pass := back.takeWhile (fun r => r.1 = .ret SEARCH_SUCCESS)
    runNexts sh exec c s0 (List.replicate k 1 ++ List.replicate n (-1)) =
      runNexts sh exec c s0 (List.replicate k 1) ++ back ∧
    (∀ r ∈ pass, Matches exec c r.2.1 r.2.2) ∧
    (pass.length < n → ∀ p t : Nat, PgOk p → Matches exec c p t →
      ((p : Int), (t : Int)) ≠ (sk.2.startPgno, sk.2.startSubno) → ∃ r ∈ pass, r.2 = (p, t)) ∧
    (pass.map (fun r => rkR (key sk.2.startPgno sk.2.startSubno) (key r.2.1 r.2.2))).Pairwise (· ≤ ·) := by
  obtain ⟨hcov, hnoff, hcnt, hd0, hinv, hok, hctx, hS0, _⟩ := pass_setup fix sh exec ops P S s0 hops hnw hP hS hnew
  rw [runNexts_prepared sh exec _ s0 hd0 k] at hall
  obtain ⟨g1, g2, g3, g4⟩ := fwd_prefix sh exec _ hcov hnoff P _ hP hS0 hany k _ _ (Equiv.refl _) hinv hok hctx hall
  have hm := g4 (Or.inl hk)
  rw [← runFinal_prepared sh exec _ s0 hd0 k hk] at g1 g2 g3 hm
  dsimp only
  refine ⟨runNexts_append sh exec _ _ _ _, ?_⟩
  exact search_turn_rev_exact fix sh exec ops _ _ n hops hnw g1 g2.dir g2.pg g3.sub g3.noany (Or.inr hm) hany

example (hall : ∀ r ∈ runNexts Shape.repaired exAb (buildF true [⟨0x100, 0, 0, abPage⟩, ⟨0x101, 0, 0, abPage⟩])
      { stopPgno0 := 0x100, stopSubno0 := 0, stopPgno1 := 0x8FF, stopSubno1 := 0x3F7E } (List.replicate 2 1),
      r.1 = .ret SEARCH_SUCCESS) :
    runNexts Shape.repaired exAb (buildF true [⟨0x100, 0, 0, abPage⟩, ⟨0x101, 0, 0, abPage⟩])
      { stopPgno0 := 0x100, stopSubno0 := 0, stopPgno1 := 0x8FF, stopSubno1 := 0x3F7E }
      (List.replicate 2 1 ++ List.replicate 3 (-1)) =
    runNexts Shape.repaired exAb (buildF true [⟨0x100, 0, 0, abPage⟩, ⟨0x101, 0, 0, abPage⟩])
      { stopPgno0 := 0x100, stopSubno0 := 0, stopPgno1 := 0x8FF, stopSubno1 := 0x3F7E } (List.replicate 2 1) ++
    runNexts Shape.repaired exAb
      (runFinal Shape.repaired exAb (buildF true [⟨0x100, 0, 0, abPage⟩, ⟨0x101, 0, 0, abPage⟩])
        { stopPgno0 := 0x100, stopSubno0 := 0, stopPgno1 := 0x8FF, stopSubno1 := 0x3F7E } (List.replicate 2 1)).1
      (runFinal Shape.repaired exAb (buildF true [⟨0x100, 0, 0, abPage⟩, ⟨0x101, 0, 0, abPage⟩])
        { stopPgno0 := 0x100, stopSubno0 := 0, stopPgno1 := 0x8FF, stopSubno1 := 0x3F7E } (List.replicate 2 1)).2
      (List.replicate 3 (-1)) :=
  (search_pass_fwd_then_rev true Shape.repaired exAb _ 0x100 0 _ 2 3 (by decide) (noWrap_repaired _) ⟨by decide, by decide⟩
    ⟨by decide, by decide⟩ (Or.inl rfl) rfl (by decide) hall).1


/-- **search_pass_rev_then_fwd.** (the mirror call sequence)  A fresh search, `k >= 1` backward calls that all answer
SUCCESS, then `n` forward calls: the answers are those of the backward calls followed by `fwd`; in `fwd`, up to the first
answer other than SUCCESS: every page reported matches; when that answer comes, every matching page other than the turn
page has been reported; the reports ascend from the turn page, wrapping once.  `hany2`: in the source shape whose turn
statement reads 0x3F7F as the wildcard (`turnKeeps = false`, finding C17-D7) no cached page has that sub-page number. -/
theorem search_pass_rev_then_fwd (fix : Bool) (sh : Shape) (exec : Exec) (ops : List PutOp) (P S : Int) (s0 : SearchSt) (k n : Nat)
    (hops : ∀ o ∈ ops, o.subno ≤ 0x3F7F) (hnw : NoWrap (buildF fix ops)) (hP : PgOk P) (hS : 0 ≤ S ∧ S ≤ 0xFFFF)
    (hany : sh.startExact = true ∨ ∀ p, ∀ e ∈ ((buildF fix ops).slots p).chain, (e.subno : Int) ≠ ANY_SUBNO)
    (hany2 : sh.turnKeeps = true ∨ ∀ p, ∀ e ∈ ((buildF fix ops).slots p).chain, (e.subno : Int) ≠ ANY_SUBNO)
    (hnew : searchNew P S 1 = some s0) (hk : 1 ≤ k)
    (hall : ∀ r ∈ runNexts sh exec (buildF fix ops) s0 (List.replicate k (-1)), r.1 = .ret SEARCH_SUCCESS) :
    let c := buildF fix ops
    let sk := runFinal sh exec c s0 (List.replicate k (-1))
    let fwd := runNexts sh exec sk.1 sk.2 (List.replicate n 1)
    let pass := fwd.takeWhile (fun r => r.1 = .ret SEARCH_SUCCESS)
    runNexts sh exec c s0 (List.replicate k (-1) ++ List.replicate n 1) =
      runNexts sh exec c s0 (List.replicate k (-1)) ++ fwd ∧
    (∀ r ∈ pass, Matches exec c r.2.1 r.2.2) ∧
    (pass.length < n → ∀ p t : Nat, PgOk p → Matches exec c p t →
      ((p : Int), (t : Int)) ≠ (sk.2.startPgno, sk.2.startSubno) → ∃ r ∈ pass, r.2 = (p, t)) ∧
    (pass.map (fun r => passRank sk.2.startPgno sk.2.startSubno r.2.1 r.2.2)).Pairwise (· ≤ ·) := by
  obtain ⟨hcov, hnoff, hcnt, hd0, hinv, hok, hctx, hBP, hBS, _, _, hsm⟩ :=
    pass_setup_rev fix sh exec ops P S s0 hops hnw hP hS hnew
  rw [runNexts_prepared_rev sh exec _ s0 hd0 k] at hall
  obtain ⟨g1, g2, g3, g4⟩ := rev_prefix sh exec _ hcov hsm hnoff _ _ hBP hBS hany k _ _ (Equiv.refl _) hinv hok hctx hall
  have hm := g4 (Or.inl hk)
  rw [← runFinal_prepared_rev sh exec _ s0 hd0 k hk] at g1 g2 g3 hm
  dsimp only
  refine ⟨runNexts_append sh exec _ _ _ _, ?_⟩
  obtain ⟨e, hle, _, _⟩ := hm
  have hsub := lookupX_smallR hcov hle
  have hkeep : sh.turnKeeps = true ∨
      (runFinal sh exec (buildF fix ops) s0 (List.replicate k (-1))).2.startSubno ≠ ANY_SUBNO := by
    rcases hany2 with h | h
    · exact Or.inl h
    · right; rw [← lookupX_subno hle]; exact h _ e (lookupX_mem hle)
  exact search_turn_fwd_exact fix sh exec ops _ _ n hops hnw g1 g2.dir g2.pg hsub g3.noany hkeep
    (Or.inr ⟨e, hle, by assumption, by assumption⟩) hany

example (hall : ∀ r ∈ runNexts Shape.repaired exAb (buildF true [⟨0x100, 0, 0, abPage⟩, ⟨0x101, 0, 0, abPage⟩])
      { stopPgno0 := 0x100, stopSubno0 := 0, stopPgno1 := 0x8FF, stopSubno1 := 0x3F7E } (List.replicate 2 (-1)),
      r.1 = .ret SEARCH_SUCCESS) :
    ∀ r ∈ (runNexts Shape.repaired exAb
      (runFinal Shape.repaired exAb (buildF true [⟨0x100, 0, 0, abPage⟩, ⟨0x101, 0, 0, abPage⟩])
        { stopPgno0 := 0x100, stopSubno0 := 0, stopPgno1 := 0x8FF, stopSubno1 := 0x3F7E } (List.replicate 2 (-1))).1
      (runFinal Shape.repaired exAb (buildF true [⟨0x100, 0, 0, abPage⟩, ⟨0x101, 0, 0, abPage⟩])
        { stopPgno0 := 0x100, stopSubno0 := 0, stopPgno1 := 0x8FF, stopSubno1 := 0x3F7E } (List.replicate 2 (-1))).2
      (List.replicate 3 1)).takeWhile (fun r => r.1 = .ret SEARCH_SUCCESS),
    Matches exAb (buildF true [⟨0x100, 0, 0, abPage⟩, ⟨0x101, 0, 0, abPage⟩]) r.2.1 r.2.2 :=
  (search_pass_rev_then_fwd true Shape.repaired exAb _ 0x100 0 _ 2 3 (by decide) (noWrap_repaired _) ⟨by decide, by decide⟩
    ⟨by decide, by decide⟩ (Or.inl rfl) (Or.inl rfl) rfl (by decide) hall).2.1


end Zvbi.Props.C17PassRev
