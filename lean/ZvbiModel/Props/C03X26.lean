import ZvbiModel.Ttx.X26Fresh
/-!
# C03, part 2 - X/26 enhancement data and the parity gate; a lost page number closes every magazine

Property theorems only (model `ZvbiModel/Ttx/Model.lean`, helper lemmas `ZvbiModel/Ttx/X26Fix.lean`,
`ZvbiModel/Ttx/X26Fresh.lean`).  The exception clause of C03 - "positions overridden by X/26
enhancement data excepted" - is only as narrow as these three facts make it:

1. the triplets `lop_parity_check` consults are triplets of the page under assembly (written by
   X/26 packets of this transmission, or kept with the cached copy of this very page number), never
   those of the page that used the magazine's assembly slot before;
2. the row a column triplet is applied to is the row of the LAST row-address triplet of mode 0x01,
   0x04 or 0x07 ("address display row 0") before it;
3. a header whose page number is uncorrectable closes the pages in progress of ALL magazines.

`Props/C03.lean` already has: `parity_gate` (a row enters the cache only with 40 odd-parity bytes,
after the fix-ups - but it does not say which cells the fix-ups touch), `x26_continuity` (packet 26
writes only `enh[13 d .. 13 d + 12]` - but not what the other entries hold after a header) and
`bad_header_page_number` (result state is `desync s` - but not what `desync` means for the other
magazines).  The theorems below are these missing halves; nothing is restated.
-/
namespace Zvbi.Props.C03X26
open Zvbi.Ttx Zvbi.Ttx.Spec Zvbi.Hamm Zvbi.Gen

/-! ## 1. after a header the enhancement array belongs to the page under assembly -/

/-- An accepted header (page number decodes, subcode / control bits not refused) for magazine slot
    `mag0`: afterwards the slot expects X/26 designation 0 next (`num_triplets = 0`), no Level 1 row
    counts as received, and the page under assembly either continues the cached copy `q` of that
    very page number - `enh` and the mask of received X/26 designations are `q`'s (source shape with
    fixes/C03-enh-zero-filler.diff, flag `ttxFixEnhFiller` regenerated from packet.c: if `q` was stored without
    X/26 data, so that the cache handed it back without its array, every entry is the unused value instead of the
    zero triplets of the unrepaired code - finding C03-enh-zero-filler, `C03Tx.live_triplets_were_transmitted_counterexample`) - or was built from
    scratch: then no designation is marked as received and, if it is a Level one page (the only kind
    handed to `lop_parity_check`), EVERY entry of `enh` is the unused value 0xFF.  So whatever
    `enh` holds until an X/26 packet of this transmission writes it (`C03.x26_continuity`: entries
    `13 d .. 13 d + 12` only), none of it stems from the page that used the slot before. -/
theorem enh_fresh_after_header (s : St) (mag0 mag8 : Nat) (v : View) (page : Nat) (hm : mag0 < s.raw.length)
    (hpg : v.g16 0 = some page) (hacc : hdrRejected page (v.g16i 2) (v.g16i 4) (v.g16i 6) = false) :
    let rp := (processHeader s mag0 mag8 v).1.st.rp mag0
    rp.numTriplets = 0 ∧ rp.lopPackets = 0 ∧
    ((∃ q, q ∈ (terminatePage s mag0 (mag8 * 256 + page) page).1.net.cache ∧ q.pgno = mag8 * 256 + page ∧
           (rp.page.enh = q.enh ∨ (ttxFixEnhFiller = true ∧ q.x26 = 0 ∧ rp.page.enh = enhUnused)) ∧
           rp.page.x26 = q.x26) ∨
     (rp.page.x26 = 0 ∧ (rp.page.function = FN_LOP → rp.page.enh = enhUnused))) := by
  have hlen : (terminatePage s mag0 (mag8 * 256 + page) page).1.raw.length = s.raw.length :=
    (terminatePage_frame s mag0 (mag8 * 256 + page) page).1.len
  unfold processHeader
  rw [hpg]
  simp only [hacc, Bool.false_eq_true, if_false]
  rw [rp_setRp_same _ _ _ (by simp only [setPage_length]; omega)]
  refine ⟨rfl, rfl, ?_⟩
  have h := headerPage_enh
    ({ (terminatePage s mag0 (mag8 * 256 + page) page).1.setPage mag0
          { ((terminatePage s mag0 (mag8 * 256 + page) page).1.rp mag0).page with pgno := mag8 * 256 + page } with
        current := some mag0 } : St).net
    { ((terminatePage s mag0 (mag8 * 256 + page) page).1.rp mag0).page with pgno := mag8 * 256 + page }
    page (v.g16i 2 + v.g16i 4 * 256).toNat (v.g16i 6).toNat (zeroRow.take 8 ++ (v.raw.drop 8))
  exact h

/-- An array of unused entries addresses no cell at all ... -/
theorem unused_enh_addresses_nothing (r c : Nat) : ¬ Addressed enhUnused r c := by
  rintro ⟨pre, t, post, he, _⟩
  rw [liveTriplets_enhUnused] at he
  cases pre <;> simp at he

/-- ... and `lop_parity_check` never looks behind the first unused entry: the rows it hands to the
    parity gate do not depend on what follows it (where, without the wipe at the header, the
    triplets of the slot's previous page would still stand). -/
theorem parity_check_ignores_unused_tail (cv : Page) (rv : RawPage) (pre post post' : List Triplet)
    (u : Triplet) (hu : u.address > 63) :
    (lopParityCheck { cv with enh := pre ++ u :: post } rv).2.lopRaw =
    (lopParityCheck { cv with enh := pre ++ u :: post' } rv).2.lopRaw := by
  rw [lopParityCheck_lopRaw, lopParityCheck_lopRaw]
  show (if (cv.x26 != 0) = true then x26Fix (pre ++ u :: post) rv.lopRaw else rv.lopRaw) =
       (if (cv.x26 != 0) = true then x26Fix (pre ++ u :: post') rv.lopRaw else rv.lopRaw)
  rw [x26Fix_ignores_unused_tail pre post post' u hu]

/-- non-vacuity: a fresh header on the initial decoder builds page 123 from scratch, all 209 entries unused -/
example : ((processHeader (init.enable true) 1 1
      (view Kind.hdr ([2, 21, 94, 73, 21, 21, 21, 21, 21, 21] ++ List.replicate 32 32))).1.st.rp 1).page.enh = enhUnused := by
  decide +kernel

/-! ## 2. which cells the fix-ups of `lop_parity_check` touch -/

/-- ROW ADDRESSING.  The active row after a list of X/26 triplets is decided by its last
    row-address triplet (address 40..63) of mode 0x01 (full row colour), 0x04 (set active position)
    or 0x07 (address display row 0): it names row `address - 40` (40 meaning row 24), mode 0x07
    names row 0; every other triplet keeps the row. -/
theorem active_row_last_wins (pre : List Triplet) (t : Triplet) :
    activeRow (pre ++ [t]) = if t.isRowSet then t.rowOf else activeRow pre := by
  unfold activeRow activeRowFrom
  simp only [List.reverse_append, List.reverse_cons, List.reverse_nil, List.nil_append, List.singleton_append,
    List.find?_cons]
  by_cases h : t.isRowSet = true
  · simp [h]
  · have : t.isRowSet = false := by simpa using h
    simp [this]

/-- mode 0x07 is a row address like the others: after it the active row is 0, whatever row was
    active before -/
theorem mode7_addresses_row_0 (pre : List Triplet) (a d : Nat) (h40 : 40 ≤ a) (h63 : a ≤ 63) :
    activeRow (pre ++ [⟨a, 7, d⟩]) = 0 := by
  rw [active_row_last_wins]
  have : (Triplet.mk a 7 d).isRowSet = true := by simp [Triplet.isRowSet, h40, h63]
  simp [this, Triplet.rowOf]

/-- PARITY FIX-UPS.  `lop_parity_check` hands to the parity gate the received rows in which exactly
    the bytes at ADDRESSED cells got their parity bit forced (`vbi_par8`): cell (r, c) is addressed
    iff the part of `enh` in use (before the first unused entry) contains a character-placing
    column triplet with address `c` at a point where the active row - see `active_row_last_wins` -
    is `r`.  Every other byte reaches the gate as received; so a parity error outside the cells
    the page's own X/26 data addresses keeps the row out of the cache (`C03.parity_gate`). -/
theorem parity_fixups_only_at_addressed_cells (cv : Page) (rv : RawPage) (r c : Nat)
    (hr : r < rv.lopRaw.length) (hc : c < (rv.lopRaw.getD r zeroRow).length) :
    let out := (lopParityCheck cv rv).2.lopRaw
    (cv.x26 = 0 → out = rv.lopRaw) ∧
    (cv.x26 ≠ 0 → Addressed cv.enh r c → cellAt out r c = par8 (cellAt rv.lopRaw r c)) ∧
    (cv.x26 ≠ 0 → ¬ Addressed cv.enh r c → cellAt out r c = cellAt rv.lopRaw r c) := by
  simp only [lopParityCheck_lopRaw]
  refine ⟨fun h0 => by simp [h0], fun hn hA => ?_, fun hn hA => ?_⟩
  · have : (cv.x26 != 0) = true := by simpa using hn
    simp only [this, if_true]
    rw [x26Fix_eq_fixLive]
    exact (fixLive_cells (liveTriplets cv.enh) 0 rv.lopRaw r c hr hc).1 hA
  · have : (cv.x26 != 0) = true := by simpa using hn
    simp only [this, if_true]
    rw [x26Fix_eq_fixLive]
    exact (fixLive_cells (liveTriplets cv.enh) 0 rv.lopRaw r c hr hc).2 hA

/-- the X/26 data of the demonstration: set active position row 5, G2 character column 3,
    address display row 0, G0 character column 20, unused entries -/
def demoEnh : List Triplet :=
  [⟨45, 4, 0⟩, ⟨3, 0x0F, 0x41⟩, ⟨63, 7, 0⟩, ⟨20, 9, 0x42⟩] ++ List.replicate 205 Triplet.ff

/-- non-vacuity, and the situation of the seeded change "mode 0x07 ignored": (5, 3) and (0, 20) are
    addressed, (5, 20) is not - a received row 5 with a parity error in column 20 ('Z' 0x5A -> 0x5B)
    does not replace the cached row 5 -/
example : Addressed demoEnh 5 3 ∧ Addressed demoEnh 0 20 :=
  ⟨⟨[⟨45, 4, 0⟩], ⟨3, 0x0F, 0x41⟩, [⟨63, 7, 0⟩, ⟨20, 9, 0x42⟩], by decide, by decide, rfl, by decide⟩,
   ⟨[⟨45, 4, 0⟩, ⟨3, 0x0F, 0x41⟩, ⟨63, 7, 0⟩], ⟨20, 9, 0x42⟩, [], by decide, by decide, rfl, by decide⟩⟩

example :
    let cv := { Page.zero with x26 := 1, enh := demoEnh, raw := List.replicate 26 blankRow }
    let bad := (List.replicate 40 0x5A).set 20 0x5B
    let rv : RawPage := ⟨cv, (List.replicate 26 zeroRow).set 5 bad, 1 <<< 5, 13⟩
    (lopParityCheck cv rv).1.raw.getD 5 zeroRow = blankRow ∧
    cellAt (lopParityCheck cv rv).2.lopRaw 5 20 = 0x5B := by
  decide +kernel

/-! ## 3. an uncorrectable page number closes the pages in progress of all magazines -/

/-- For EVERY packet history `ps` (any bytes) on a decoder with a Teletext handler, and every header
    `p` whose address decodes (packet 0 of some magazine) but whose page number is uncorrectable:
    afterwards the page in progress of each of the eight magazines is closed (`DISCARD`), so
    * a Level 1 row or an X/26 packet of ANY magazine changes nothing, and
    * the next header of ANY magazine, whatever page it announces, stores no page and sends no event
    - until that header opens a new page.  In particular the rows that followed the damaged
    header can never be merged into, and stored under the number of, an older page of their magazine. -/
theorem bad_pgno_desyncs_all (ps : List Packet) (p : Packet) (pmag : Nat)
    (hmask : (run (init.enable true) ps).1.mask = true)
    (ha : a16 p 0 = some pmag) (h0 : pmag >>> 3 = 0) (hpg : a16 p 2 = none) :
    let s' := (decodeTeletext (run (init.enable true) ps).1 p).st
    (∀ m, m < 8 → (s'.rp m).page.function = FN_DISCARD) ∧
    (∀ m, m < 8 → ∀ mag8 packet v, processRow s' m mag8 packet v = ⟨s', [], true⟩) ∧
    (∀ m, m < 8 → ∀ v, process26 s' m v = ⟨s', [], true⟩) ∧
    (∀ m, m < 8 → ∀ pgno page, (terminatePage s' m pgno page).2 = []) := by
  have hok := (run_ok (init.enable true) [] ps (init_ok true)).1
  rw [decode_hdr_bad_pageno _ p pmag ha h0 hmask hpg]
  have hfn : ∀ m, m < 8 → ((desync (run (init.enable true) ps).1).rp m).page.function = FN_DISCARD :=
    fun m hm => desync_function _ m (by rw [hok.len]; exact hm)
  refine ⟨hfn, fun m hm mag8 packet v => processRow_discard _ m mag8 packet v (hfn m hm),
          fun m hm v => process26_discard _ m v (hfn m hm), fun m hm pgno page => ?_⟩
  apply terminatePage_discard
  intro c hc
  apply hfn
  exact terminatedSlot_lt (desync (run (init.enable true) ps).1) m pgno page c hm (fun c' hc' => hok.cur c' hc') hc

/-- non-vacuity: page 123 in progress in magazine 1, header of page 2xx with the units digit of the
    page number hit twice (0x15 -> 0x16): magazine 1 is closed as well -/
example :
    let ps : List Packet := [[2, 21, 94, 73, 21, 21, 21, 21, 21, 21] ++ List.replicate 32 32]
    let s := (run (init.enable true) ps).1
    let p : Packet := [73, 21, 0x16, 73, 21, 21, 21, 21, 21, 21] ++ List.replicate 32 32
    s.mask = true ∧ (s.rp 1).page.function = FN_LOP ∧ a16 p 0 = some 2 ∧ a16 p 2 = none ∧
    ((decodeTeletext s p).st.rp 1).page.function = FN_DISCARD := by
  decide +kernel

end Zvbi.Props.C03X26
