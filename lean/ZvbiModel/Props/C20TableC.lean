import ZvbiModel.Locks.Lemmas
import ZvbiModel.Locks.Instance
/-!
# C20 - table theorems, part C: callouts, per-mutex protection (`decide +kernel` over the COMPLETE table that
`translate/gen_locks.py` extracts from the current source; split over three files so that they
build in parallel)
-/
namespace Zvbi.Props.C20
open Zvbi.Locks Zvbi.Locks.Instance Zvbi.Generated.Locks

/-- **Callbacks, no exception.**  The table contains no callout that is delivered while a mutex
needed by the handler-safe functions (`vbi_fetch_cc_page`: cc, `vbi_channel_switched`: chswcd) is
held, and the translator expanded every callout of the role graphs with the handler calls (so the
race and deadlock theorems below cover handlers that re-enter the library). -/
theorem callouts_reentrant_table : allBadCallouts = [] ∧ allUnexpanded = [] := by decide +kernel

/-- corollary: the statement of the first delivery (every bad callout is one of K2) -/
theorem callouts_reentrant_modulo_known :
    (allBadCallouts.all fun p => knownCallout p.1) = true ∧
    (allUnexpanded.all fun p => allBadCallouts.contains p) = true := by
  rw [callouts_reentrant_table.1, callouts_reentrant_table.2]; exact ⟨rfl, rfl⟩

/-- **Protection, no exception.**  In every role graph every access (read or write) to
`vbi->cc.channel[*]` happens under `cc.mutex`, to the `vbi3_raw_decoder` state under `rd->mutex`, to
`vbi->chswcd` under `chswcd_mutex`. -/
theorem table_protection :
    (roles.all fun R => protectedB mx_cc isCcChannel noSite R.accs) = true ∧
    (roles.all fun R => protectedB mx_rd isRd3 noSite R.accs) = true ∧
    (roles.all fun R => protectedB mx_chswcd isChswcd noSite R.accs) = true := by decide +kernel

end Zvbi.Props.C20
