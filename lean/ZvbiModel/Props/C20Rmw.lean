import ZvbiModel.Locks.Rmw
import ZvbiModel.Generated.LocksRmw
/-!
# C20 - atomicity of read-modify-write sequences: no lost update

Lock discipline (`Props/C20.lean`) and section atomicity (`Props/C20Snapshot.lean`) do not exclude
`v := get (); set (v - 1)` with one critical section per access (seed C20-f): every access holds the
mutex, no data race, and a concurrent `vbi_channel_switched ()` between the two sections is overwritten
by the stale countdown.  The obligation added here: **every write of a shared variable that depends
(data or control) on a read of that variable lies in the SAME critical section as the read.**

* generic (all programs, all schedules): `rmw_confined_memoryless`, `rmw_confined_serializable`;
* a table shaped like seed C20-f loses an update: `rmw_split_loses_update`;
* the table `translate/gen_locks_rmw.py` extracts from the CURRENT source: `table_rmw_whole_modulo_expiry_clear`,
  `table_rmw_writes_locked`, `table_rmw_dirty_whole`, `table_rmw_cc_text_single_writer`,
  `table_rmw_concurrent_roles_whole`, and the one shape the current code has outside a single section
  (countdown expiry in one section, `vbi_chsw_reset ()` clearing the countdown in a later one):
  `expiry_clear_serializable`.
-/
namespace Zvbi.Props.C20
open Zvbi.Locks.Rmw

/-- **A confined critical section is memoryless** (all sections, all states).  If every store of the
section depends only on registers the same section loaded, then the shared store it leaves and every
value it loads are those of the section run from blank registers: nothing the thread read in an
EARLIER critical section reaches the shared state. -/
theorem rmw_confined_memoryless (s : Sec) (h : s.confined = true) (σ : Store) (ρ : Regs) :
    (Sec.run s (σ, ρ)).1 = secFun s σ ∧
    ∀ r, (loadsOf s).contains r = true → (Sec.run s (σ, ρ)).2 r = (Sec.run s (σ, blank)).2 r :=
  ⟨confined_store s h σ ρ, fun r hr => confined_loads s h σ ρ r hr⟩

example : Sec.confined [.ld 0 0, .st 0 [0] (fun l => some (l.headD 0 - 1))] = true := by decide

/-- **No lost update** (all thread programs, all initial registers, all schedules).  If every dependent
read/write pair lies within one critical section (`confined`), then every interleaving of the sections
(the atomic steps a mutex gives, `Zvbi.Locks.Atomic.atomic_sections`) computes exactly what the
transactional semantics computes for the same order: each section an isolated transaction
`secFun s : Store → Store` that takes nothing from earlier sections.  Same final values of the shared
variables, same sections left to run; by `rmw_confined_memoryless` also the same values read. -/
theorem rmw_confined_serializable (c : Cfg) (h : ∀ j, ∀ s ∈ c.todo j, Sec.confined s = true)
    (sch : List Nat) :
    (run c sch).σ = (srun ⟨c.σ, c.todo⟩ sch).σ ∧ (run c sch).todo = (srun ⟨c.σ, c.todo⟩ sch).todo :=
  run_srun sch c h

/-! ## the shape of seed C20-f: read in one section, dependent write in the next -/

/-- shared variable 0 = `vbi->chswcd` -/
def cd : Var := 0

/-- the countdown tick of `vbi_decode ()`, as written in the current source: ONE section -/
def tickWhole : List Sec :=
  [[.ld 0 cd, .st cd [0] (fun l => let v := l.headD 0; if v > 1 then some (v - 1) else if v = 1 then some 0 else none)]]

/-- the same tick through `chswcd_get ()` / `chswcd_set ()` (seed C20-f): TWO sections -/
def tickSplit : List Sec :=
  [[.ld 0 cd], [.st cd [0] (fun l => let v := l.headD 0; if v > 1 then some (v - 1) else if v = 1 then some 0 else none)]]

/-- `vbi_channel_switched ()` -/
def request : List Sec := [[.st cd [] (fun _ => some 1)]]

def prog (tick : List Sec) (x0 : Int) : Cfg :=
  ⟨fun _ => x0, fun _ => blank, fun i => if i = 0 then tick else if i = 1 then request else []⟩

/-- **A split read-modify-write loses the update** (counterexample for a table shaped like C20-f).
Decoding thread 0 ticks the countdown 40 through get / set, thread 1 requests a channel switch.  The
schedule get, request, set ends with the countdown at 39 - the request is gone - while the two serial
orders of the operations end with 1 (tick, then request: reset at the next frame) and 0 (request, then
tick: the reset ran); the split program is not `confined`, the one-section program is, and for it
every complete schedule is one of the two serial orders. -/
theorem rmw_split_loses_update :
    (run (prog tickSplit 40) [0, 1, 0]).σ cd = 39 ∧
    (run (prog tickSplit 40) [0, 0, 1]).σ cd = 1 ∧
    (run (prog tickSplit 40) [1, 0, 0]).σ cd = 0 ∧
    (tickSplit.all Sec.confined) = false ∧
    (tickWhole.all Sec.confined) = true ∧
    (run (prog tickWhole 40) [0, 1]).σ cd = 1 ∧
    (run (prog tickWhole 40) [1, 0]).σ cd = 0 := by
  refine ⟨by decide, by decide, by decide, by decide, by decide, by decide, by decide⟩

/-! ## the one shape of the current source that spans two sections: expiry, then clear

`if (vbi->chswcd > 0 && --vbi->chswcd == 0) { unlock; vbi_chsw_reset (vbi, 0); }` - the decrement is one
section; `vbi_chsw_reset ()` ends with `lock; vbi->chswcd = 0; unlock`, control dependent on the
expiry.  The only concurrent operation on the countdown is `vbi_channel_switched ()` = store 1. -/

/-- section 1: decrement if running; section 2 (the end of the reset): clear, executed iff the
countdown expired in section 1 (register 0 = value read there) -/
def expiryClear : List Sec :=
  [[.ld 0 cd, .st cd [0] (fun l => if l.headD 0 > 0 then some (l.headD 0 - 1) else none)],
   [.st cd [0] (fun l => if l.headD 0 = 1 then some 0 else none)]]

/-- **Expiry-then-clear is serialisable against channel-switch requests** (all countdown values).
A request that falls between the decrement and the clear gives the same countdown AND the same reset
decision (register 0 = 1 iff the reset runs) as the serial order "request, then the whole tick" when
the countdown expired (the request is served by the reset that is running), and as "whole tick, then
request" otherwise (the clear is skipped).  The value coincidence that makes this work - the request
stores exactly the value from which the countdown expires - is part of the statement. -/
theorem expiry_clear_serializable (x0 : Int) :
    let mid := run (prog expiryClear x0) [0, 1, 0]
    let before := run (prog expiryClear x0) [1, 0, 0]
    let after := run (prog expiryClear x0) [0, 0, 1]
    (x0 = 1 → mid.σ cd = before.σ cd ∧ mid.regs 0 0 = before.regs 0 0) ∧
    (x0 ≠ 1 → mid.σ cd = after.σ cd ∧ mid.regs 0 0 = after.regs 0 0) := by
  intro mid before after
  constructor
  · intro h
    subst h
    exact ⟨by decide, by decide⟩
  · intro h
    have hm : mid.σ cd = 1 ∧ mid.regs 0 0 = x0 := by
      by_cases hp : 0 < x0 <;>
        simp [mid, run, prog, step, expiryClear, request, Sec.run, Op.run, upd, cd, hp, h]
    have ha : after.σ cd = 1 ∧ after.regs 0 0 = x0 := by
      by_cases hp : 0 < x0 <;>
        simp [after, run, prog, step, expiryClear, request, Sec.run, Op.run, upd, cd, hp, h]
    exact ⟨by rw [hm.1, ha.1], by rw [hm.2, ha.2]⟩

example : (run (prog expiryClear 1) [0, 1, 0]).σ cd = 0 := by decide

/-! ## the table extracted from the current source -/
open Zvbi.Generated.LocksRmw

/-- writes of the variable by roles that run in other threads than the decoding thread -/
def remoteWrites (v : String) : List Write := writes.filter fun w => w.var == v && w.multi

/-- the expiry-clear shape: control dependence only, the literal 0 is stored, the read's own section
completed its read-modify-write, and every concurrent role stores the literal 1 under the mutex -/
def expiryClearShape (p : Pair) : Bool :=
  p.ctrl && p.const == some 0 && p.consumed &&
    (remoteWrites p.var).all fun w => w.const == some 1 && w.locked

/-- FULL statement (false on the current tree because of the expiry-clear pair, see
`expiry_clear_serializable`; kept visible): every dependent pair lies in one section. -/
def table_rmw_whole_full : Prop := pairs.all (fun p => p.same) = true

/-- **Every dependent read/write pair of `vbi->chswcd` in the current source lies within ONE critical
section of `chswcd_mutex`** - the hypothesis of `rmw_confined_serializable` - except pairs of the
expiry-clear shape, which `expiry_clear_serializable` covers (`decide` over the COMPLETE extracted table;
seed C20-f makes this false: its pairs get -> set are split, not consumed, and store 40 / countdown - 1). -/
theorem table_rmw_whole_modulo_expiry_clear :
    pairs.all (fun p => p.same || expiryClearShape p) = true := by decide +kernel

/-- every write of a scalar shared variable in every role holds the variable's mutex -/
theorem table_rmw_writes_locked : writes.all (fun w => w.locked) = true := by decide +kernel

/-- **vbi_fetch_cc_page vs. decode: the dirty-region bookkeeping is read-modify-written atomically** - FULL strength,
no exception.  `dirty.{y0,y1,roll}` of the caption pages are the only members of `cc.channel` that both the decoding
thread (`render`, `roll_up`, `clear`, ...) and `vbi_fetch_cc_page ()` (which resets them) write.  Every write of them
that depends on a read of them lies in the same critical section of `cc.mutex` as the read, on every call path of
`vbi_decode ()`: the sections end at each event callback (`caption_send_event`), and no dirty value is carried across
one. -/
theorem table_rmw_dirty_whole :
    (pairs.filter fun p => p.var == "cc.channel.dirty").all (fun p => p.same) = true := by decide +kernel

/-- **The rest of `cc.channel` (text, cursor, mode) has ONE writer**: only the decoding role writes it, under
`cc.mutex`; a variable no concurrent thread writes cannot lose an update, so the read/write pairs of `vbi_decode ()`
on it that span an event callback (`decodeRegionSplitPairs` of them, field-insensitive) are harmless. -/
theorem table_rmw_cc_text_single_writer :
    (regionWriters.filter fun w => w.var == "cc.channel").all (fun w => !w.multi && w.locked) = true := by decide +kernel

/-- **Raw decoder: add / remove / check services vs. decode** - in every role that runs concurrently with another
(fetch, channel switch, raw decode, services) every write of `cc.channel` / the `vbi3_raw_decoder` that depends on a
read of it lies in the same critical section as the read, and every such write holds the mutex: no check-then-act
across two sections of `rd->mutex`. -/
theorem table_rmw_concurrent_roles_whole :
    regionPairs.all (fun p => p.same) = true ∧ regionWriters.all (fun w => w.locked) = true := by decide +kernel

/-- the extraction is not empty: the decrement and the frame-drop restart are found as one-section pairs -/
theorem table_rmw_nonvacuous :
    (pairs.filter fun p => p.same && p.var == "vbi.chswcd").length ≥ 2 ∧ (remoteWrites "vbi.chswcd").length ≥ 1 ∧
    (pairs.filter fun p => p.var == "cc.channel.dirty").length ≥ 10 ∧ (remoteWrites "cc.channel.dirty").length ≥ 3 ∧
    regionPairs.length ≥ 3 := by decide +kernel

end Zvbi.Props.C20
