import ZvbiModel.Slicer.BufModel
import ZvbiModel.Slicer.BufLemmas
import ZvbiModel.Slicer.BufSpec
import ZvbiModel.Slicer.LemmasRows
import ZvbiModel.Generated.SlicerLegacy
import ZvbiModel.Props.C05
/-!
# C05, second part - the public bit slicer entry points: output buffer, points array, accepted parameters

`vbi3_bit_slicer_slice (bs, buffer, buffer_size, raw)` and `vbi3_bit_slicer_slice_with_points (...)` are what a
direct user of the bit slicer calls (the raw decoder calls them with `sizeof (sliced->data)`).  The model is
`Slicer/BufModel.lean`.  `Guard.bits` is the `buffer_size` test of zvbi 0.2.x as released, `Guard.bytes` the one
of `fixes/C05-slice-buffer-size.diff`; `bounded` selects the CRI points of `fixes/C05-points-bound.diff`.  Which
ones /repo contains is `Generated.SlicerGuard` (measured on the compiled code by `translate/gen_slicerguard.py`,
checked again by the `bslice` correspondence ops on every run).  For the released versions the full statements
are FALSE (`*_counterexample`, replayed on the C code by `corpus/C05/buffer-guard-*.ops`, `F17-*.ops`).
-/
namespace Zvbi.Props.C05Buf
open Zvbi.Slicer Zvbi.Generated.ServiceTable

/-! ## the output buffer -/

/-- REPAIRED `buffer_size` test, every parameter set `set_params` accepts (released or repaired search limit),
    every `buffer_size`, every image: `vbi3_bit_slicer_slice` either refuses - exactly when the buffer is smaller
    than the payload, rounded up to bytes - or stores nothing (CRI / FRC not found) or stores exactly the bytes
    `0 .. ceil (payload_bits / 8) - 1`, every one of them at an index `< buffer_size`.
    Hypothesis `hp`: a low-pass configuration has a non-empty payload (see `lowpass_zero_payload_counterexample`). -/
theorem slice_writes_within_buffer (tight : Bool) (p : Params) (c : Cfg) (h : setParams tight p = .ok c)
    (hp : c.kind = .lowpass → 0 < p.payloadBits) (bufferSize : Nat) (oc : Outcome) :
    let r := slice .bytes c bufferSize oc
    (r.refused = true ↔ bufferSize < (p.payloadBits + 7) / 8) ∧
    (r.refused = true → r.writes = [] ∧ r.ret = false) ∧
    (∀ i ∈ r.writes, i < bufferSize) ∧
    (r.refused = false → r.writes = match oc with
      | .found _ => List.range ((p.payloadBits + 7) / 8)
      | _ => []) := by
  have hb := payloadBytes_eq h
  have hw := payloadWrites_eq h hp
  intro r
  cases hg : guardRefuses .bytes c bufferSize with
  | true =>
    have hr : r = { refused := true, ret := false, writes := [] } := slice_refused oc hg
    have hlt : payloadBytes c > bufferSize := by simpa [guardRefuses] using hg
    rw [hr]
    exact ⟨⟨(fun _ => by omega), (fun _ => rfl)⟩, (fun _ => ⟨rfl, rfl⟩), (by simp), (by simp)⟩
  | false =>
    have hr := slice_passed (g := .bytes) (c := c) (b := bufferSize) oc hg
    have hge : ¬ (payloadBytes c > bufferSize) := by simpa [guardRefuses] using hg
    cases oc with
    | found k =>
      have hr' : r = { refused := false, ret := true, writes := payloadWrites c } := hr
      rw [hr']
      refine ⟨⟨(fun hh => by cases hh), (fun _ => by omega)⟩, (fun hh => by cases hh), ?_, (fun _ => by rw [hw, hb])⟩
      intro i hi
      simp only at hi
      rw [hw] at hi; have := List.mem_range.1 hi; omega
    | noCri =>
      have hr' : r = { refused := false, ret := false, writes := [] } := hr
      rw [hr']
      exact ⟨⟨(fun hh => by cases hh), (fun _ => by omega)⟩, (fun hh => by cases hh), (by simp), (fun _ => rfl)⟩
    | frcFail k =>
      have hr' : r = { refused := false, ret := false, writes := [] } := hr
      rw [hr']
      exact ⟨⟨(fun hh => by cases hh), (fun _ => by omega)⟩, (fun hh => by cases hh), (by simp), (fun _ => rfl)⟩

example : (slice .bytes Spec.teletextB_13_5_tight 42 (.found 32)).writes.length = 42 ∧
    (slice .bytes Spec.teletextB_13_5_tight 41 (.found 32)).refused = true := by decide +kernel

/-- The statement for the RELEASED test, kept visible; refuted below. -/
def slice_writes_within_buffer_released_full : Prop :=
  ∀ (p : Params) (c : Cfg), setParams true p = .ok c → p.Sane → ∀ (bufferSize : Nat) (oc : Outcome),
    ∀ i ∈ (slice .bits c bufferSize oc).writes, i < bufferSize

/-- The released test `bs->payload > buffer_size * 8` compares BYTES with bits in octet mode: Teletext B
    (336 payload bits, `bs->payload = 42`, `endian = 1`) with `buffer_size = 6` passes (42 <= 48), the call
    succeeds and stores 42 bytes - byte 41 of a 6 byte buffer.  Replayed on the C code by
    corpus/C05/buffer-guard-teletext-b-6bytes.ops (ASan: heap-buffer-overflow WRITE of size 1, 0 bytes to the right
    of the 6 byte region, `bit_slicer_Y8` called from `vbi3_bit_slicer_slice`). -/
theorem slice_buffer_guard_counterexample : ¬ slice_writes_within_buffer_released_full := by
  intro hfull
  have h := hfull Spec.teletextB_13_5 Spec.teletextB_13_5_tight Spec.teletextB_13_5_tight_ok
    Spec.teletextB_13_5_sane 6 (.found 32) 41 (by decide +kernel)
  exact absurd h (by decide)

/-- Released test, PARTIAL: it is sound in the bit modes (payload not a whole number of octets), as long as
    `buffer_size * 8` does not wrap the `unsigned int` - there `bs->payload` really counts bits. -/
theorem slice_writes_within_buffer_released_partial (tight : Bool) (p : Params) (c : Cfg) (h : setParams tight p = .ok c)
    (hbit : p.payloadBits % 8 ≠ 0) (bufferSize : Nat) (hnw : bufferSize * 8 < U32) (oc : Outcome) :
    ∀ i ∈ (slice .bits c bufferSize oc).writes, i < bufferSize := by
  obtain ⟨h1, h2⟩ := setParams_payload h
  have hw := payloadWrites_eq h (fun _ => by omega)
  have hb := payloadBytes_eq h
  rcases payloadOf_cases p with ⟨_, e1, e2⟩ | ⟨h8, _, _⟩
  · have hmod : bufferSize * 8 % U32 = bufferSize * 8 := Nat.mod_eq_of_lt hnw
    cases hg : guardRefuses .bits c bufferSize with
    | true => rw [slice_refused oc hg]; simp
    | false =>
      have hge : ¬ (c.payload > bufferSize * 8) := by simpa [guardRefuses, hmod] using hg
      rw [slice_passed oc hg]
      cases oc with
      | found k =>
        intro i hi
        simp only at hi
        rw [hw, hb] at hi
        have := List.mem_range.1 hi
        rw [h1, e1] at hge
        omega
      | noCri => simp
      | frcFail k => simp
  · exact absurd h8 hbit

example : (setParams true Spec.bitMode13).toOption.map (fun c => (c.endian, c.payload, (slice .bits c 1 (.found 0)).refused,
    (slice .bits c 2 (.found 0)).writes)) = some (3, 13, true, [0, 1]) := by decide +kernel

/-- What the raw decoder passes: for every service table row (regenerated from src/raw_decoder.c), every pixel
    format, sampling rate and line length `set_params` accepts, `slice (..., sliced->data, sizeof (sliced->data), ...)`
    is never refused and stores only inside the 56 byte `data` array of the `vbi_sliced` record - with the released
    `buffer_size` test as well as with the repaired one (the defect needs a caller with a smaller buffer). -/
theorem rows_slice_within_record (r : Row) (hr : r ∈ usableRows) (fmt : Fmt) (rate spl : Nat) (tight : Bool) (c : Cfg)
    (h : setParams tight (rowParams r fmt rate spl) = .ok c) (g : Guard) (oc : Outcome) :
    (slice g c slicedDataSize oc).refused = false ∧ ∀ i ∈ (slice g c slicedDataSize oc).writes, i < slicedDataSize := by
  obtain ⟨_, _, _, hpos, _, _, _, _, _, hfit, hbits⟩ := rows_sane r hr
  have hb : payloadBytes c = (r.payload + 7) / 8 := payloadBytes_eq h
  have hw := payloadWrites_eq h (fun _ => hpos)
  obtain ⟨h1, h2⟩ := setParams_payload h
  have hsz : slicedDataSize * 8 < U32 := by decide
  have hle : (r.payload + 7) / 8 ≤ slicedDataSize := by
    by_cases h8 : r.payload % 8 ≠ 0
    · rw [if_pos h8] at hfit; omega
    · rw [if_neg h8] at hfit; omega
  have hg : guardRefuses g c slicedDataSize = false := by
    cases g with
    | bytes => simp only [guardRefuses, decide_eq_false_iff_not]; omega
    | bits =>
      simp only [guardRefuses, decide_eq_false_iff_not, Nat.mod_eq_of_lt hsz]
      rw [h1]
      rcases payloadOf_cases (rowParams r fmt rate spl) with ⟨_, e1, _⟩ | ⟨_, e1, _⟩
      · rw [e1]; show ¬ (r.payload > slicedDataSize * 8); omega
      · rw [e1]; show ¬ (r.payload / 8 > slicedDataSize * 8); omega
  rw [slice_passed oc hg]
  cases oc with
  | found k =>
    refine ⟨rfl, ?_⟩
    intro i hi
    have hi' : i ∈ payloadWrites c := hi
    rw [hw, hb] at hi'
    have := List.mem_range.1 hi'
    omega
  | noCri => exact ⟨rfl, by simp⟩
  | frcFail k => exact ⟨rfl, by simp⟩

example : Spec.rowTeletextB ∈ usableRows ∧ (Spec.rowTeletextB.payload + 7) / 8 = 42 ∧ slicedDataSize = 56 := by decide

/-! ## the points array of `vbi3_bit_slicer_slice_with_points` -/

/-- REPAIRED points limit: for every accepted parameter set, every `max_points`, every image (any outcome, any
    sequence of clock ticks): `vbi3_bit_slicer_slice_with_points` refuses when `max_points < total_bits`, and
    otherwise every element of `points[]` it stores has an index `< max_points`, and so has `*n_points`. -/
theorem points_within_max (tight : Bool) (p : Params) (c : Cfg) (h : setParams tight p = .ok c) (maxPoints : Nat)
    (collects : Bool) (oc : Outcome) (ticks : List Bool) :
    let r := slicePoints true c (p.criBits + p.frcBits + p.payloadBits) maxPoints collects oc ticks
    (r.refused = true ↔ maxPoints < p.criBits + p.frcBits + p.payloadBits) ∧
    (∀ i ∈ r.writes, i < maxPoints) ∧ r.nPoints ≤ maxPoints := by
  have hn := nBits_accepted h
  have hfrc : c.frcBits ≤ c.nBits := by unfold Cfg.nBits nBitsOf; omega
  simp only [slicePoints]
  by_cases hg : p.criBits + p.frcBits + p.payloadBits > maxPoints
  · simp only [hg, if_true]
    exact ⟨by constructor <;> intro _ <;> first | rfl | omega, by simp, Nat.zero_le _⟩
  · simp only [hg, if_false]
    cases collects with
    | false => exact ⟨by constructor <;> intro hh <;> first | cases hh | omega, by simp, Nat.zero_le _⟩
    | true =>
      simp only [Bool.not_true, Bool.false_eq_true, if_false, if_true]
      have hl := criPoints_idx_le_limit (maxPoints - c.nBits) ticks
      have hd := criPoints_dense (some (maxPoints - c.nBits)) ticks
      cases oc with
      | noCri =>
        refine ⟨by constructor <;> intro hh <;> first | cases hh | omega, ?_, by simp only; omega⟩
        intro i hi; have := dense_mem_lt hd hi; omega
      | frcFail k =>
        refine ⟨by constructor <;> intro hh <;> first | cases hh | omega, ?_, Nat.zero_le _⟩
        intro i hi
        have := dense_mem_lt (dataPoints_dense _ c.frcBits hd) hi
        rw [dataPoints_idx] at this; omega
      | found k =>
        refine ⟨by constructor <;> intro hh <;> first | cases hh | omega, ?_, ?_⟩
        · intro i hi
          have := dense_mem_lt (dataPoints_dense _ c.nBits hd) hi
          rw [dataPoints_idx] at this; omega
        · simp only; rw [dataPoints_idx]; omega

example : (slicePoints true Spec.teletextB_13_5_tight 360 360 true (.found 5) (List.replicate 20 true)).writes.length = 18 + 342 ∧
    (slicePoints false Spec.teletextB_13_5_tight 360 360 true (.found 5) (List.replicate 20 true)).writes.length = 20 + 342 := by
  decide +kernel

/-- The statement for the RELEASED code (only `total_bits <= max_points` is checked), kept visible; refuted below. -/
def points_within_max_released_full : Prop :=
  ∀ (p : Params) (c : Cfg), setParams true p = .ok c → p.Sane → ∀ (maxPoints : Nat) (oc : Outcome) (ticks : List Bool),
    TicksAdmissible c oc ticks →
    ∀ i ∈ (slicePoints false c (p.criBits + p.frcBits + p.payloadBits) maxPoints true oc ticks).writes, i < maxPoints

/-- F17: the CRI search stores one point per recovered clock tick of the whole search window.  Teletext B at
    13.5 MHz with 2048 samples per line searches 1382 samples = 5528 `CRI()` invocations; a signal near the CRI
    frequency yields a tick every 8 invocations - 691 points in the 512 element array the raw decoder supplies
    (`_vbi3_raw_decoder_sp_line.points`).  Replayed on the C code by corpus/C05/F17-points-square-wave.ops (690
    points observed) and, under ASan, corpus/C05/extra/F17-debug-points.c. -/
theorem points_within_max_counterexample : ¬ points_within_max_released_full := by
  intro hfull
  let ticks : List Bool := (List.range 5528).map (fun n => n % 8 == 0)
  have hadm : TicksAdmissible Spec.teletextB_2048_cfg .noCri ticks := by
    show ticks.length = oversampling Spec.teletextB_2048_cfg * Spec.teletextB_2048_cfg.criSamples
    simp only [ticks, List.length_map, List.length_range]; rfl
  have h := hfull Spec.teletextB_2048 Spec.teletextB_2048_cfg Spec.teletextB_2048_ok Spec.teletextB_2048_sane
    512 .noCri ticks hadm 600
  have hcount : ticks.count true = 691 := by decide +kernel
  have hmem : 600 ∈ (slicePoints false Spec.teletextB_2048_cfg
      (Spec.teletextB_2048.criBits + Spec.teletextB_2048.frcBits + Spec.teletextB_2048.payloadBits) 512 true .noCri ticks).writes := by
    rw [slicePoints_noCri_writes false _ _ _ _ (by decide)]
    simp only [Bool.false_eq_true, if_false]
    rw [criPoints_dense none ticks, criPoints_none_idx, hcount]
    exact List.mem_range.2 (by omega)
  exact absurd (h hmem) (by omega)

/-- What does hold for the RELEASED code, every image: at most one point per `CRI()` invocation, so an array of
    `oversampling * cri_samples + frc_bits + payload_bits` elements is never overrun (4 * cri_samples for the
    template slicer, cri_samples for the low-pass slicer). -/
theorem points_bound_released (c : Cfg) (totalBits maxPoints : Nat)
    (collects : Bool) (oc : Outcome) (ticks : List Bool) (ht : TicksAdmissible c oc ticks) :
    ∀ i ∈ (slicePoints false c totalBits maxPoints collects oc ticks).writes,
      i < oversampling c * c.criSamples + c.nBits := by
  have hfrc : c.frcBits ≤ c.nBits := by unfold Cfg.nBits nBitsOf; omega
  simp only [slicePoints]
  by_cases hg : totalBits > maxPoints
  · simp [hg]
  · simp only [hg, if_false]
    cases collects with
    | false => simp
    | true =>
      simp only [Bool.not_true, Bool.false_eq_true, if_false]
      have hl := criPoints_idx_le_length none ticks
      have hd := criPoints_dense none ticks
      cases oc with
      | noCri =>
        intro i hi
        have := dense_mem_lt hd hi
        unfold TicksAdmissible at ht; simp only at ht
        omega
      | frcFail k =>
        intro i hi
        have := dense_mem_lt (dataPoints_dense _ c.frcBits hd) hi
        rw [dataPoints_idx] at this
        unfold TicksAdmissible at ht; simp only at ht
        have : oversampling c * (k + 1) ≤ oversampling c * c.criSamples := Nat.mul_le_mul_left _ ht.1
        omega
      | found k =>
        intro i hi
        have := dense_mem_lt (dataPoints_dense _ c.nBits hd) hi
        rw [dataPoints_idx] at this
        unfold TicksAdmissible at ht; simp only at ht
        have : oversampling c * (k + 1) ≤ oversampling c * c.criSamples := Nat.mul_le_mul_left _ ht.1
        omega

example : oversampling Spec.teletextB_2048_cfg * Spec.teletextB_2048_cfg.criSamples + Spec.teletextB_2048_cfg.nBits = 5870 := by decide

/-- `vbi3_bit_slicer_slice_with_points` reads only inside the line (repaired search limit), in all three of its
    branches: low-pass function, other function without points, and the Y8 template expanded in place with the
    constants `bpp = 1`, one byte per sample - which agree with the configured state because `set_params`
    selects `bit_slicer_Y8` for the Y8 format only. -/
theorem with_points_reads_in_line (p : Params) (c : Cfg) (h : setParams true p = .ok c) (hf : p.fmt.WF) (hb : p.fmt.bpp ≤ 4)
    (oc : Outcome) (hoc : oc.admissible c) : ∀ x ∈ withPointsReads p c oc, x < p.spl * p.fmt.bpp := by
  obtain ⟨c0, h0, ht⟩ := setParams_true.1 h
  have hg := geom_tighten (geom_of_ok h0 hf hb) ht
  have base := C05.payload_reads_in_line p c h hf hb oc hoc
  rw [hg.bpp] at base
  unfold withPointsReads
  by_cases hy : c.kind = .core ∧ p.fmt = fmtY8
  · have e1 : c.bpp = 1 := by rw [hg.bpp, hy.2]; rfl
    have e2 : c.width = 1 := by rw [hg.width, hy.2]; rfl
    have : ({ c with bpp := 1, width := 1 } : Cfg) = c := by cases c; simp_all
    rw [if_pos hy, this]
    exact base
  · rw [if_neg hy]
    exact base

/-- the in-place expansion is entered for YUV420 (Y8) only: no other `vbi_pixfmt` maps to the Y8 slicer facts -/
example : ∀ t ∈ pixfmts, fmtOfName t.1 = some fmtY8 → t.1 = "YUV420" := by decide

/-! ## which parameters `set_params` accepts (the caller obligations `Params.Sane`) -/

/-- `vbi3_bit_slicer_set_params` does NOT reject what `Params.Sane` excludes: each obligation is violated by a
    parameter set the repaired function accepts - no payload, no CRI bits, `cri_end` equal to and below
    `sample_offset`.  (So "accepted implies Sane" is false; what reaches `set_params` from the raw decoder is Sane:
    `C05.rows_sane_params`.) -/
theorem acceptance_does_not_imply_sane :
    ((setParams true Spec.caption525_27_empty).toOption.map (fun c => (c.kind, c.payload)) = some (.lowpass, 0)) ∧
    ((setParams true { Spec.teletextB_13_5 with criBits := 0 }).toOption.isSome = true) ∧
    ((setParams true { Spec.caption525_27 with criEnd := 0 }).toOption.map (fun c => (c.kind, c.criSamples)) = some (.lowpass, 0)) ∧
    ((setParams true { Spec.teletextB_13_5 with offset := 10, criEnd := 3 }).toOption.map (·.criSamples) = some 44) := by
  decide +kernel

/-- `cri_end < sample_offset` (excluded by `Params.Sane.criEnd`) is harmless with the repaired search limit: the
    unsigned difference `cri_end - sample_offset` wraps to almost 2^32 and is then clamped by the look-ahead limit,
    i.e. `cri_end` is ignored; the search has at least one position.  (With the released limit it stays wrapped:
    `example` below.) -/
theorem cri_end_below_offset_clamped (p : Params) (c : Cfg) (h : setParams true p = .ok c)
    (hnw : criSamples0 p + dataSamples p < U32) (hlt : p.criEnd < p.offset) :
    c.criSamples = p.spl - p.offset - lookAhead c.kind c.phaseShift c.step c.nBits ∧ 0 < c.criSamples := by
  obtain ⟨c0, h0, ht⟩ := setParams_true.1 h
  obtain ⟨hla, hc⟩ := tighten_ok ht
  obtain ⟨_, _, _, hspl, _, _, _, _, hoff, hfit, hc0⟩ := setParams0_ok h0
  have e : c0.criSamples = (min p.criEnd ((p.spl + U32 - dataSamples p) % U32) + U32 - p.offset) % U32 := by rw [hc0]
  have hla' : lookAhead c.kind c.phaseShift c.step c.nBits = lookAhead c0.kind c0.phaseShift c0.step c0.nBits := by
    rw [hc]; rfl
  have hcs : c.criSamples = min c0.criSamples (p.spl - p.offset - lookAhead c0.kind c0.phaseShift c0.step c0.nBits) := by
    rw [hc]
  rw [hla', hcs, e]
  rw [Nat.mod_eq_of_lt hnw] at hfit
  have hU : U32 = 4294967296 := rfl
  generalize dataSamples p = ds at *
  generalize criSamples0 p = cs at *
  generalize lookAhead c0.kind c0.phaseShift c0.step c0.nBits = la at *
  have hA : (p.spl + U32 - ds) % U32 = p.spl - ds := by rw [hU]; omega
  have hB : min p.criEnd (p.spl - ds) = p.criEnd := Nat.min_eq_left (by omega)
  have hC : (p.criEnd + U32 - p.offset) % U32 = p.criEnd + U32 - p.offset := by rw [hU]; omega
  have hD : min (p.criEnd + U32 - p.offset) (p.spl - p.offset - la) = p.spl - p.offset - la :=
    Nat.min_eq_right (by rw [hU]; omega)
  rw [hA, hB, hC, hD]
  exact ⟨rfl, by omega⟩

example : (setParams false { Spec.teletextB_13_5 with offset := 10, criEnd := 3 }).toOption.map (·.criSamples) = some 4294967289 := by
  decide +kernel

/-- `payload_bits = 0` (excluded by `Params.Sane.payloadBits`) is accepted, selects octet mode with `bs->payload = 0`,
    passes the (repaired) `buffer_size` test for ANY buffer - and the `do { ... } while (--j > 0)` loops of
    `low_pass_bit_slicer_Y8` then run 2^32 times: 2^32 bytes stored through `buffer`.  The template slicers use
    `for (j = bs->payload; j > 0; --j)` and store nothing.  Not reachable from the raw decoder (`rows_sane_params`:
    every table row has a payload); a direct API user must not pass it. -/
theorem lowpass_zero_payload_counterexample :
    ∃ c, setParams true Spec.caption525_27_empty = .ok c ∧ c.kind = .lowpass ∧
      (slice .bytes c 0 (.found 0)).refused = false ∧ (slice .bytes c 0 (.found 0)).writes.length = U32 := by
  have hg : guardRefuses .bytes Spec.caption525_27_empty_cfg 0 = false := by decide +kernel
  refine ⟨_, Spec.caption525_27_empty_ok, rfl, ?_, ?_⟩
  · rw [slice_passed _ hg]
  · rw [slice_passed _ hg]
    simp only
    rw [payloadWrites_lowpass_octet _ rfl (by decide), List.length_range]
    rfl

example : payloadWrites { Spec.caption525_27_empty_cfg with kind := .core } = [] := by decide +kernel

/-! ## the legacy slicer of decoder.c: the search limit for EVERY line length

`vbi_bit_slicer_init` has no failure path; `slicer->cri_bytes` (an `int`) becomes the `unsigned` trip count of the CRI
search loop.  `Generated.SlicerLegacy.legacyClamp` is the block of statements that limits it, translated from the current
src/decoder.c by `translate/gen_slicerlegacy.py`; the theorems below are about that regenerated expression. -/

set_option linter.unusedSimpArgs false in
/-- The clamp block as written in /repo computes exactly the clamp of the hand-written model (`legacyInit true`):
    `max 0 (min cri_bytes (raw_samples - look_ahead))` - for all integers. -/
theorem legacy_clamp_agrees (raw la cb : Int) :
    Zvbi.Generated.SlicerLegacy.legacyClamp raw la cb = max 0 (min cb (raw - la)) := by
  simp only [Zvbi.Generated.SlicerLegacy.legacyClamp, Bool.not_eq_true', Bool.and_eq_true, decide_eq_true_eq,
    decide_eq_false_iff_not, Bool.or_eq_true]
  repeat' split
  all_goals omega

example : Zvbi.Generated.SlicerLegacy.legacyClamp 720 709 (720 - 665) = 11 := by decide

/-- For EVERY `raw_samples`, `data_samples` and `look_ahead` (all integers - every service, sampling rate and line
    length, not only the line lengths the raw decoder passes): the trip count `vbi_bit_slicer_init` leaves is never
    negative (so the unsigned loop counter never wraps), at most `raw_samples - data_samples` (or 0), and at most
    `raw_samples - look_ahead` (or 0).  In particular a line too short for the service (`raw_samples < data_samples`,
    whatever its relation to `look_ahead`) gives 0: the slicer finds nothing and reads nothing. -/
theorem legacy_cri_bytes_in_range (raw ds la : Int) :
    0 ≤ Zvbi.Generated.SlicerLegacy.legacyClamp raw la (raw - ds) ∧
    Zvbi.Generated.SlicerLegacy.legacyClamp raw la (raw - ds) ≤ max 0 (raw - ds) ∧
    Zvbi.Generated.SlicerLegacy.legacyClamp raw la (raw - ds) ≤ max 0 (raw - la) ∧
    (raw < ds → Zvbi.Generated.SlicerLegacy.legacyClamp raw la (raw - ds) = 0) := by
  rw [legacy_clamp_agrees]; omega

/-- Caption 625 at 13.5 MHz, 480 samples: `data_samples` 486 > 480 >= `look_ahead` 475 - the band in which a clamp that
    only looks at `raw_samples - look_ahead` would leave -6 -/
example : Zvbi.Generated.SlicerLegacy.legacyClamp 480 475 (480 - 486) = 0 := by decide

/-- The same for the configured legacy slicer of the model, every parameter set (every table row is one): the model's
    `cri_bytes` IS the regenerated clamp applied to the model's `look_ahead` and `data_samples`, hence within
    `0 .. max 0 (raw_samples - data_samples)`; the unsigned trip count equals it (`raw_samples` is an `int`). -/
theorem legacy_init_cri_bytes_in_range (p : LParams) :
    (legacyInit true p).criBytes =
      Zvbi.Generated.SlicerLegacy.legacyClamp p.rawSamples
        ((lastBitSample (legacyInit true p).phaseShift (legacyInit true p).step (legacyInit true p).nBits + 1 : Nat) : Int)
        ((p.rawSamples : Int) - ((p.rate * (p.payloadBits + p.frcBits) / p.bitRate : Nat) : Int)) ∧
    0 ≤ (legacyInit true p).criBytes ∧
    (legacyInit true p).criBytes ≤ max 0 ((p.rawSamples : Int) - ((p.rate * (p.payloadBits + p.frcBits) / p.bitRate : Nat) : Int)) ∧
    (p.rawSamples < 2147483648 → ((legacyInit true p).iterations : Int) = (legacyInit true p).criBytes) := by
  have e : (legacyInit true p).criBytes =
      Zvbi.Generated.SlicerLegacy.legacyClamp p.rawSamples
        ((lastBitSample (legacyInit true p).phaseShift (legacyInit true p).step (legacyInit true p).nBits + 1 : Nat) : Int)
        ((p.rawSamples : Int) - ((p.rate * (p.payloadBits + p.frcBits) / p.bitRate : Nat) : Int)) := by
    rw [legacy_clamp_agrees]
    simp only [legacyInit, LCfg.nBits]
    rfl
  have r := legacy_cri_bytes_in_range p.rawSamples ((p.rate * (p.payloadBits + p.frcBits) / p.bitRate : Nat) : Int)
    ((lastBitSample (legacyInit true p).phaseShift (legacyInit true p).step (legacyInit true p).nBits + 1 : Nat) : Int)
  rw [← e] at r
  refine ⟨e, r.1, r.2.1, ?_⟩
  intro hraw
  have hle : (legacyInit true p).criBytes ≤ (p.rawSamples : Int) := by
    have := r.2.1
    have h0 : (0 : Int) ≤ ((p.rate * (p.payloadBits + p.frcBits) / p.bitRate : Nat) : Int) := Int.natCast_nonneg _
    omega
  unfold LCfg.iterations
  have h1 := r.1
  have hU : (U32 : Int) = 4294967296 := rfl
  rw [hU]
  omega

example : (legacyInit true { Spec.legacyTeletextB_13_5 with rawSamples := 480 }).criBytes = 0 := by decide +kernel


end Zvbi.Props.C05Buf
