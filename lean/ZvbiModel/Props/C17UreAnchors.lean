import ZvbiModel.Ure.CurrentExec
/-!
# C17, line anchors inside `ure_exec`: the repaired source shape (fixes/C17-line-anchors.diff, ure.c half; round 6)

`Ure/ExecAnchors.lean` is `ure_exec` with the four statements of the repair; `Ure/Exec.lean` the shape as found
(findings C17-U8, C17-U9; `Props/C17Ure.lean`).  `execCur` (what the drivers run) follows the shape translate/gen_ure.py
reads from /repo on every run.  Proved here, for EVERY DFA, text, flags and position (transition level):

* `bol_taken_iff_line_start`: the `^` transition is taken exactly in front of the first character of a line - at the
  start of the text iff URE_NOTBOL is not set, elsewhere iff the character in front is a separator (and the position is
  not between CR and LF) - zero width (`lp` and `sp` stay), under the per-position guard against `^` cycles;
* `bol_line_start_spec`: what "line start" is, by position;
* `eol_taken_iff_separator`: the `$` transition is taken exactly in front of a separator, whatever URE_NOTEOL says, and
  records the match end in front of it;
* `noteol_switches_lookahead_off`: with URE_NOTEOL the end-of-text look-ahead never reports a match;
and, kernel evaluated on the DFAs `ure_compile` builds for `^a` and `a$` (harness dump in the doc comments), the inputs of
findings C17-U8 / C17-U9 / C17-D8 in both shapes: `anchors_witness_repaired`, `anchors_witness_found`.
NOT proved (open, see NOTES/C17.md): the whole-run statement "execA reports the leftmost match of an anchored
pattern", termination and index safety of `execA` for every DFA (`exec_terminates`, `exec_never_oob` are about `exec`).
-/
namespace Zvbi.Props.C17UreAnchors
open Zvbi.Ure

/-- **bol_line_start_spec.** Position 0 is a line start unless the caller set URE_NOTBOL; position `n + 1` is a line start
iff the character at `n` is a separator and (`n`, `n + 1`) is not a CR LF pair. -/
theorem bol_line_start_spec (flags : Nat) (text : List Nat) (c n : Nat) :
    bolAt flags text c 0 = !notBol flags ∧
    bolAt flags text c (n + 1) = (isbrk (text.getD n 0) && !(text.getD n 0 == 0x0d && c == 0x0a)) := by
  constructor
  · simp [bolAt]
  · simp [bolAt]

example : bolAt 0 [0x61, 0x0a, 0x61] 0x61 2 = true ∧ bolAt 0 [0x61, 0x0a, 0x61] 0x0a 1 = false ∧
    bolAt 4 [0x61] 0x61 0 = false := by decide

/-- **bol_taken_iff_line_start.** Repaired shape, any DFA / flags / text / position: the `^` transition is refused when
the position is not a line start; at a line start it is taken - zero width: the new `lp` and `sp` are both the old `lp` -
unless the guard against cycles of `^` transitions (more than `nstates` such steps at this position) stops it. -/
theorem bol_taken_iff_line_start (sh : Shape) (ct : CType) (d : Dfa) (flags : Nat) (text : List Nat) (c lp sp zw : Nat) :
    (bolAt flags text c lp = false → symTryA sh ct d flags text .bol c lp sp zw = .no) ∧
    (bolAt flags text c lp = true → zw ≤ d.states.length →
      symTryA sh ct d flags text .bol c lp sp zw = .yes lp lp (zw + 1)) := by
  constructor
  · intro h; simp [symTryA, h]
  · intro h hz
    have : ¬ zw > d.states.length := by omega
    simp [symTryA, h, this]

example : symTryA Shape.repaired ⟨fun _ _ => false, id⟩ ⟨false, false, [.bol], [⟨true, []⟩]⟩ 0 [0x0a, 0x61] .bol 0x61 1 2 0 =
    .yes 1 1 1 := (bol_taken_iff_line_start _ _ _ _ _ _ _ _ _).2 (by decide) (by decide)

/-- **eol_taken_iff_separator.** Repaired shape: the `$` transition is taken iff the character at the position is a
separator - URE_NOTEOL (bit 3 of `flags`) plays no part - and is zero width (`sp = lp`: the match end is recorded in
front of the separator). -/
theorem eol_taken_iff_separator (sh : Shape) (ct : CType) (d : Dfa) (flags : Nat) (text : List Nat) (c lp sp zw : Nat) :
    symTryA sh ct d flags text .eol c lp sp zw = if isbrk c then .yes lp lp zw else .no := by
  simp [symTryA]

example : symTryA Shape.repaired ⟨fun _ _ => false, id⟩ ⟨false, false, [.eol], [⟨true, []⟩]⟩ 8 [0x61, 0x0a] .eol 0x0a 1 2 0 =
    .yes 1 1 0 := by rw [eol_taken_iff_separator]; rfl

/-- **noteol_switches_lookahead_off.** Repaired shape: the test `iterA` makes at the end of the text in a non-accepting
state ("this ugly hack": a `$` transition into an accepting state counts as taken) reports nothing when URE_NOTEOL is set. -/
theorem noteol_switches_lookahead_off (d : Dfa) (flags : Nat) (tr : List (Nat × Nat)) (h : notEol flags = true) :
    (if notEol flags then Hack.no else eolHack d tr) = Hack.no := by
  simp [h]

example : notEol 8 = true := by decide

/-- DFA of `^a` (harness: `ok dfa 0 2 3 2 S bol c61 T 0:0>1 0:1>2 1:-`) -/
def dfaBolA : Dfa := ⟨false, false, [.bol, .chr 0x61], [⟨false, [(0, 1)]⟩, ⟨false, [(1, 2)]⟩, ⟨true, []⟩]⟩
/-- DFA of `a$` (harness: `ok dfa 0 2 3 2 S c61 eol T 0:0>1 0:1>2 1:-`) -/
def dfaAEol : Dfa := ⟨false, false, [.chr 0x61, .eol], [⟨false, [(0, 1)]⟩, ⟨false, [(1, 2)]⟩, ⟨true, []⟩]⟩
def ctNone : CType := ⟨fun _ _ => false, id⟩

set_option maxRecDepth 100000 in
/-- **anchors_witness_repaired.** `^a`: found behind an empty line ("\n\n\na" -> [3,4)) and behind a separator that begins
the text ("\na" -> [1,2)) (C17-U9); with URE_NOTBOL not at offset 0 of "aa" but at the row start of "a\na" -> [2,3) (what
search.c needs, C17-D8).  `a$`: the match end stays in front of the final separator ("a\n" -> [0,1), C17-U8); with
URE_NOTEOL not at the end of "xa", but in front of the separator of "a\nxa" -> [0,1). -/
theorem anchors_witness_repaired :
    execA Shape.repaired ctNone dfaBolA 0 [0x0a, 0x0a, 0x0a, 0x61] = .found 3 4 ∧
    execA Shape.repaired ctNone dfaBolA 0 [0x0a, 0x61] = .found 1 2 ∧
    execA Shape.repaired ctNone dfaBolA 4 [0x61, 0x61] = .none ∧
    execA Shape.repaired ctNone dfaBolA 4 [0x61, 0x0a, 0x61] = .found 2 3 ∧
    execA Shape.repaired ctNone dfaAEol 0 [0x61, 0x0a] = .found 0 1 ∧
    execA Shape.repaired ctNone dfaAEol 8 [0x78, 0x61] = .none ∧
    execA Shape.repaired ctNone dfaAEol 8 [0x61, 0x0a, 0x78, 0x61] = .found 0 1 := by
  refine ⟨by decide +kernel, by decide +kernel, by decide +kernel, by decide +kernel, by decide +kernel, by decide +kernel,
    by decide +kernel⟩

set_option maxRecDepth 100000 in
/-- **anchors_witness_found.** The same inputs on the shape as found (replayed on the C code:
corpus/C17/ure-semantics-open.ops, corpus/C17/ure-line-anchors.ops): nothing behind the empty line, nothing behind the
leading separator, nothing at all under URE_NOTBOL; match end behind the separator; URE_NOTEOL ignored at the end of
the text but switching `$` off in front of the separator. -/
theorem anchors_witness_found :
    exec Shape.repaired ctNone dfaBolA 0 [0x0a, 0x0a, 0x0a, 0x61] = .none ∧
    exec Shape.repaired ctNone dfaBolA 0 [0x0a, 0x61] = .none ∧
    exec Shape.repaired ctNone dfaBolA 4 [0x61, 0x0a, 0x61] = .none ∧
    exec Shape.repaired ctNone dfaAEol 0 [0x61, 0x0a] = .found 0 2 ∧
    exec Shape.repaired ctNone dfaAEol 8 [0x78, 0x61] = .found 1 2 ∧
    exec Shape.repaired ctNone dfaAEol 8 [0x61, 0x0a, 0x78, 0x61] = .found 3 4 := by
  refine ⟨by decide +kernel, by decide +kernel, by decide +kernel, by decide +kernel, by decide +kernel, by decide +kernel⟩

/-- **current_exec_shape.** What the drivers run is one of the two models, chosen by the flag gen_ure.py wrote on this run. -/
theorem current_exec_shape (ct : CType) (d : Dfa) (flags : Nat) (text : List Nat) :
    execCur ct d flags text = (if Zvbi.Gen.Ure.lineAnchors then execA Shape.current ct d flags text
                               else exec Shape.current ct d flags text) := rfl

example : execCur ctNone dfaAEol 0 [] = .none := by decide +kernel

end Zvbi.Props.C17UreAnchors
