import ZvbiModel.Nav.LinkLemmas2
/-!
# C01 - src/teletext.c `vbi_resolve_link`, `vbi_resolve_home`, `ait_title`, `vbi_page_title`: every array access in range

Model: `Nav/Link.lean` (statement by statement, checked accesses; `buffer[43]` of vbi_resolve_link with UNWRITTEN bytes whose
read is a fault; `keyword` is the model of `Nav/Model.lean`).  All extents, loop bounds, guards, offsets and strings are
regenerated from the current source by translate/gen_c01link.py (`Generated/C01Link.lean`); the statement skeleton of each of
the four functions is pinned by a digest there.  Lemmas: `Nav/LinkLemmas.lean`, `Nav/LinkLemmas2.lean`.
-/
namespace Zvbi.Props.C01Link
open Zvbi.Nav Zvbi.Nav.Link Zvbi.Gen.C01Link

/-- The regenerated numbers fit the regenerated extents: a row of COLUMNS cells plus two blanks and the NUL fits `buffer[]`,
    `nav_link[5]` is inside `nav_link[]`, the loops of vbi_page_title stay inside `btt_link[]` and `ait.title[]`, the scan of
    ait_title inside `title.text[]`, `font[0]` inside `font[2]`, the title with its NUL (at most 13 bytes) inside the documented
    41 byte buffer; and the extents are the ones `Generated/C01Nav.lean` has (same probe structures). -/
theorem link_extents_consistent :
    rlCols + 3 ≤ rlBufferLen ∧ rlCols = columns ∧ rhIdx < navLinkLen ∧ ptBttLoop ≤ bttLinkLen ∧ ptTitles ≤ aitTitleLen ∧
    atStart + 1 ≤ (aitTextLen : Int) ∧ 0 < atFonts ∧ atStart + atNulOff + 1 ≤ (ptBufDoc : Int) ∧
    rlBufferLen ≤ Zvbi.Gen.C01Nav.zapBufferLen ∧ textLen = Zvbi.Gen.C01Nav.textLen ∧ navLinkLen = Zvbi.Gen.C01Nav.navLinkLen ∧
    navIndexLen = Zvbi.Gen.C01Nav.navIndexLen ∧ urlLen = Zvbi.Gen.C01Nav.urlLen ∧
    overTop = Zvbi.Gen.C01Nav.sizeVals.getD 4 0 ∧ overBottom = Zvbi.Gen.C01Nav.sizeVals.getD 5 0 := by decide

example : rlBufferLen = 43 ∧ rhIdx = 5 ∧ ptTitles = 46 := by decide

/-- **vbi_resolve_link, entry: every `column`, `row`, `pgno` (any `int`).**  Given the assertion `0 <= column < EXT_COLUMNS`
    (a failed assertion aborts) and, for the row-24 branch, that `nav_index[column]` holds an index of `nav_link[]` (what
    flof_navigation_bar, flof_links and top_label store there: `nav_index_values_in_range`): the read `acp[column]` in row 24,
    `pg->nav_index[column]`, `pg->nav_link[i]`, and - when the guard `row < 1 || row > 23 || column >= COLUMNS ||
    pg->pgno < 0x100` lets the call pass - each `acp[i]` of the buffer loop is inside its array.  For any other `row` no cell
    is read at all (the pointer `&pg->text[row * EXT_COLUMNS]` is formed but not dereferenced). -/
theorem resolve_link_entry_in_range (column row : Int) (link : Bool) (navIdx pgno : Int)
    (ha : rlAssertLo ≤ column ∧ column < rlAssertHi) (hn : 0 ≤ navIdx ∧ navIdx < (navLinkLen : Int)) :
    ∀ a ∈ rlEntryLog column row link navIdx pgno, okLink a := by
  -- what the proof needs of the regenerated numbers
  have f1 : 0 ≤ rlAssertLo ∧ 0 ≤ rlRowLo := by decide
  have f2 : rlNavRow * rlStride + rlAssertHi ≤ (textLen : Int) ∧ 0 ≤ rlNavRow * rlStride := by decide
  have f3 : rlAssertHi ≤ (navIndexLen : Int) := by decide
  have f4 : rlRowHi * rlStride + (rlCols : Int) ≤ (textLen : Int) := by decide
  have f5 : (0 : Int) ≤ rlStride := by decide
  intro a h
  unfold rlEntryLog at h
  split at h
  · rename_i hr
    subst hr
    simp only [List.mem_cons] at h
    rcases h with rfl | h
    · show 0 ≤ rlNavRow * rlStride + column ∧ rlNavRow * rlStride + column < (textLen : Int)
      omega
    · split at h
      · simp only [List.mem_cons, List.not_mem_nil, or_false] at h
        rcases h with rfl | rfl
        · show 0 ≤ column ∧ column < (navIndexLen : Int)
          omega
        · exact hn
      · cases h
  · split at h
    · cases h
    · rename_i hg
      simp only [List.mem_map, List.mem_range] at h
      obtain ⟨i, hi, rfl⟩ := h
      have m1 : row * rlStride ≤ rlRowHi * rlStride := Int.mul_le_mul_of_nonneg_right (by omega) f5
      have m2 : 0 ≤ row * rlStride := Int.mul_nonneg (by omega) f5
      show 0 ≤ row * rlStride + (i : Int) ∧ row * rlStride + (i : Int) < (textLen : Int)
      omega

/-- not vacuous: row 23, last column reads `text[23 * 41 + 39]`; row 24 with a link reads `nav_link[3]` -/
example : ((0, 982) ∈ rlEntryLog 39 23 false 0 0x100) ∧ ((2, 3) ∈ rlEntryLog 35 24 true 3 0x100) ∧
    rlEntryLog 5 1000 true 77 0x100 = [] := by decide

/-- the values flof_navigation_bar (`i`), flof_links (`k`) and top_label (`index`) store into `pg->nav_index[]` (loop bounds and
    call parameters regenerated in `Generated/C01Nav.lean`) are indices of `nav_link[6]` -/
theorem nav_index_values_in_range :
    (∀ i < Zvbi.Gen.C01Nav.flofKeys, i < navLinkLen) ∧ (∀ k < Zvbi.Gen.C01Nav.flofLinksKeys2, k < navLinkLen) ∧
    (∀ call ∈ Zvbi.Gen.C01Nav.topCalls, call.1 < navLinkLen) := by decide

example : (2, 2) ∈ Zvbi.Gen.C01Nav.topCalls := by decide

/-- **vbi_resolve_link, buffer loop: every row content, every `column` (any `int`).**  After any number `n <= COLUMNS` of
    iterations: no store outside `buffer[43]`, NO READ OF A BYTE THAT HAS NOT BEEN WRITTEN (the look-back `buffer + j + 1 - 3`
    / `- 2` is guarded by `j > 2`, so its lowest byte is `buffer[1]`; `buffer[0]` - still indeterminate without a restart - is
    never read before `buffer[0] = ' '`), and `0 <= j <= n`, `-1 <= b <= j`, every byte `buffer[1 .. j]` written. -/
theorem resolve_link_loop_invariant (column : Int) (cell : Nat → LCell) (n : Nat) (hn : n ≤ rlCols) :
    ∃ s, rlLoop column cell n 0 rlStart = some s ∧ s.buf.length = rlBufferLen ∧ 0 ≤ s.j ∧ s.j ≤ n ∧ -1 ≤ s.b ∧ s.b ≤ s.j ∧
      ∀ k : Nat, 1 ≤ k → (k : Int) ≤ s.j → ∃ v, s.buf[k]? = some (some v) := by
  obtain ⟨s, hs, hi⟩ := rlLoop_inv column cell n 0 rlStart (by omega) rlStart_inv
  exact ⟨s, hs, hi.len, hi.j1, by have := hi.j2; omega, hi.b1, hi.b2, hi.wr⟩

/-- not vacuous: ` abc(at)x.de`, cells 1 .. 11 linked, column 9: restart at cell 0, "(at" found by the look-back, `b = 3`;
    an all-blank unlinked row, column 39: restarts up to cell 38, `b` stays -1; a row of OVER_TOP cells stores nothing -/
example : (rlLoop 9 (fun i => ⟨[0x20, 0x61, 0x62, 0x63, 0x28, 0x61, 0x74, 0x29, 0x78, 0x2E, 0x64, 0x65].getD i 0x20, 0,
      decide (1 ≤ i) && decide (i ≤ 11)⟩) 40 0 rlStart).map (fun s => (s.j, s.b)) = some (39, 3) ∧
    (rlLoop 39 (fun _ => ⟨0x20, 0, false⟩) 40 0 rlStart).map (fun s => (s.j, s.b)) = some (1, -1) ∧
    (rlLoop 0 (fun _ => ⟨0x41, 4, false⟩) 40 0 rlStart).map (fun s => (s.j, s.b)) = some (0, 0) := by decide +kernel

/-- the buffer vbi_resolve_link hands to `keyword` is the one the keyword theorems are stated for: blank, `j` bytes, blank,
    NUL, all `j + 3 <= 43` of them written, for every row content and column -/
theorem resolve_link_buffer_wf (column : Int) (cell : Nat → LCell) :
    ∃ s bytes, rlLoop column cell rlCols 0 rlStart = some s ∧ rlFinish s = some bytes ∧ WF bytes s.j.toNat ∧
      0 ≤ s.b + rlKwOff ∧ s.b + rlKwOff ≤ s.j + 1 := by
  obtain ⟨s, hs, hi⟩ := rlLoop_inv column cell rlCols 0 rlStart (by omega) rlStart_inv
  obtain ⟨bytes, hb, wf⟩ := rlFinish_ok s _ (by omega) hi
  have k : rlKwOff = 1 := rfl
  exact ⟨s, bytes, hs, hb, wf, by have := hi.b1; omega, by have := hi.b2; omega⟩

example : (rlLoop 39 (fun _ => ⟨0x20, 0, false⟩) 40 0 rlStart).bind rlFinish = some [0x20, 0x20, 0x20, 0] := by
  decide +kernel

/-- **keyword() at column 0 and at column `len + 1`** (the cases `keyword_in_range` of Props/C01Nav does not cover; the second
    call of vbi_resolve_link runs at `b + 1` with `b = -1` possible, the first at column 1 of a possibly empty row): the byte
    there is a blank, `keyword` looks at nothing else - in particular not at `s[-1]`, which at column 0 would be in front of
    `buffer[]` - and returns 1 without a link.  Proved for the model's `keyword`, every buffer, every subno. -/
theorem keyword_on_blank_in_range (buf : List Nat) (len : Nat) (wf : WF buf len) (subno : Nat) :
    keyword buf 0 subno = some { n := 1 } ∧ keyword buf (len + 1) subno = some { n := 1 } :=
  ⟨keyword_blank buf 0 subno wf.first, keyword_blank buf (len + 1) subno wf.last⟩

/-- not vacuous, and the blank matters: with a digit at column 0 the model reports the read of `s[-1]` -/
example : keyword [0x20, 0x40, 0x20, 0] 0 0 = some { n := 1 } ∧ keyword [0x31, 0x40, 0x20, 0] 0 0 = none := by
  decide +kernel

/-- **vbi_resolve_link, text rows: every row content (40 cells of ANY unicode / size / link flag), every `column` (any `int`),
    every subno.**  The whole path - buffer loop, the three final stores, the first `keyword (ld, buffer, 1, ...)` and, when it
    found no link, the second `keyword (ld, buffer, b + 1, ...)` with `b + 1` anywhere in `0 .. j + 1` - makes no access outside
    `buffer[43]`, reads no unwritten byte, no byte in front of the buffer or behind its NUL, uses up no scan bound, and leaves
    `strlen (ld->url) + 1 < 256`; both results consume at least one byte. -/
theorem resolve_link_text_in_range (column : Int) (cell : Nat → LCell) (subno : Nat) :
    ∃ r1 r2, resolveText column cell subno = some (r1, r2) ∧ 1 ≤ r1.n ∧ r1.url + 1 < urlLen ∧
      (r2 = none ↔ r1.linked = true) ∧ ∀ r, r2 = some r → 1 ≤ r.n ∧ r.url + 1 < urlLen := by
  obtain ⟨s, hs, hi⟩ := rlLoop_inv column cell rlCols 0 rlStart (by omega) rlStart_inv
  obtain ⟨bytes, hb, wf⟩ := rlFinish_ok s _ (by omega) hi
  have k0 : rlKwCol = 1 := rfl
  have k1 : rlKwOff = 1 := rfl
  have hj := hi.j1
  have hb1 := hi.b1
  have hb2 := hi.b2
  obtain ⟨r1, h1, p1, _, _, u1⟩ := kwCall_ok bytes s.j.toNat wf rlKwCol subno (by omega) (by omega)
  unfold resolveText
  rw [hs]; simp only
  rw [hb]; simp only
  rw [h1]; simp only
  by_cases hl : r1.linked = true
  · rw [if_pos hl]
    exact ⟨r1, none, rfl, p1, u1, by simp [hl], fun r h => by cases h⟩
  · rw [if_neg hl]
    obtain ⟨r2, h2, p2, _, _, u2⟩ := kwCall_ok bytes s.j.toNat wf (s.b + rlKwOff) subno (by omega) (by omega)
    rw [h2]
    exact ⟨r1, some r2, rfl, p1, u1, by simp [hl], fun r h => by cases h; exact ⟨p2, u2⟩⟩

/-- not vacuous: ` abc(at)x.de` with the cursor on the dot - the first call (column 1, `a`) finds nothing, the second runs at
    `b + 1 = 4` on `(at)`, walks back over `abc` and forward to the blank; an all-blank row: second call at column 0 -/
example : resolveText 9 (fun i => ⟨[0x20, 0x61, 0x62, 0x63, 0x28, 0x61, 0x74, 0x29, 0x78, 0x2E, 0x64, 0x65].getD i 0x20, 0,
      decide (1 ≤ i) && decide (i ≤ 11)⟩) 0
      = some ({ n := 1 }, some { n := 8, back := 3, linked := true, url := 15 }) ∧
    resolveText 39 (fun _ => ⟨0x20, 0, false⟩) 0 = some ({ n := 1 }, some { n := 1 }) ∧
    resolveText 3 (fun i => ⟨[0x20, 0x31, 0x30, 0x30].getD i 0x20, 0, decide (1 ≤ i) && decide (i ≤ 3)⟩) 0
      = some ({ n := 3, linked := true }, none) := by decide +kernel

/-- **vbi_resolve_home**: for every `pgno`, the element read is inside `nav_link[]`; below 0x100 nothing is read -/
theorem resolve_home_in_range (pgno : Int) : ∀ i ∈ rhLog pgno, i < navLinkLen := by
  intro i h
  unfold rhLog at h
  split at h
  · cases h
  · have : rhIdx < navLinkLen := by decide
    simp only [List.mem_cons, List.not_mem_nil, or_false, or_self] at h
    omega

example : rhLog 0x100 = [5, 5] ∧ rhLog 0xFF = [] := by decide

/-- **ait_title: every title.**  Given that `title.text[]` holds 7 bit values (parse_ait stores vbi_unpar8 results:
    `Props/C01Nav.ait_text_char_in_range`): the scan reads `ait->text[11 .. 0]` only, `buf[i + 1] = 0` is stored at 0 .. 12 (with
    `i` down to -1: `buf[0]`), the characters at `buf[0 .. 11]` - at most 13 bytes of the caller's 41 -, `font[0]` is inside
    `font[2]`, and the character handed to vbi_teletext_unicode is 0x20 .. 0x7F.  (`font[0]` itself is a font
    vbi_teletext_unicode handles: `Props/C01Nav.format_fonts_valid`, `Props/C01Cells.charset_designation_in_range`.) -/
theorem ait_title_in_range (text : Nat → Nat) (h : ∀ k, text k ≤ 0x7F) : ∀ a ∈ atLog text, okAit a :=
  atLog_ok text h

/-- not vacuous: a five letter title stores the NUL at `buf[5]`; an empty title (all 0) stores it at `buf[0]` -/
example : ((1, 5) ∈ atLog (fun i => if i < 5 then 0x41 else 0x20)) ∧ ((0, 11) ∈ atLog (fun _ => 0)) ∧
    ((1, 0) ∈ atLog (fun _ => 0)) := by decide +kernel

/-- **vbi_page_title, loops**: `btt_link[i]` for `i < 8` and `vtp->data.ait.title[j]` for `j < 46` are inside their arrays -/
theorem page_title_loops_in_range :
    (∀ i, ptFirst ≤ i → i < ptBttLoop → i < bttLinkLen) ∧ (∀ j, ptTitleFirst ≤ j → j < ptTitles → j < aitTitleLen) := by
  have a : ptBttLoop ≤ bttLinkLen := by decide
  have b : ptTitles ≤ aitTitleLen := by decide
  exact ⟨fun i _ h => by omega, fun j _ h => by omega⟩

example : ptBttLoop = 8 ∧ bttLinkLen = 15 := by decide

/-- **vbi_page_title, reference balance.**  For every sequence of outcomes of the BTT links the loop visits (page not cached,
    cached page with the wrong function, title found - which returns -, title not in this page): every successful
    `_vbi_cache_get_page` is followed by exactly one `cache_page_unref` (the release points are regenerated from the source:
    which `continue` / `return` / block end is preceded by `cache_page_unref (vtp);`), a failed one by none; at `return` the
    ledger is balanced. -/
theorem page_title_refs_balanced :
    (∀ c : PtCase, (ptRefs c).1 = (ptRefs c).2 ∧ (ptRefs c).1 ≤ 1) ∧ (ptRefs .notCached).1 = 0 ∧
    ∀ cs : List PtCase, (ptLedger cs).1 = (ptLedger cs).2 :=
  ⟨ptRefs_balanced, rfl, ptLedger_balanced⟩

example : ptLedger [.notCached, .wrongFunction, .notFound, .found, .notFound] = (3, 3) := by decide

end Zvbi.Props.C01Link
