import ZvbiModel.Demux.LemmasFeed
import ZvbiModel.Demux.LemmasLock
import ZvbiModel.Demux.LemmasForget
import ZvbiModel.Demux.LemmasCor
import ZvbiModel.Mux.Spec
import ZvbiModel.Demux.Ts
import ZvbiModel.Demux.LemmasTs
import ZvbiModel.Demux.LemmasTsSafe
import ZvbiModel.Demux.LemmasTsCont
/-!
# C07 - DVB demux output depends only on the byte stream and recovers after damage

Property theorems only; helper lemmas are in `ZvbiModel/Demux/Lemmas*.lean`.
Model: `ZvbiModel/Demux/Model.lean` (PES path, `wrap_around`, frame assembly), spec:
`ZvbiModel/Demux/Spec.lean` (`arun`, `frames`: the demultiplexer as a function of the concatenated
stream, no buffers, no calls).  Bytes are `Nat`s; the C code reads `uint8_t`.

Full-strength statements that are not proved are `def ..._full : Prop` at the end (never used as
hypotheses); the check lists them under `open_statements`.
-/
namespace Zvbi.Props.C07
open Zvbi.Demux

variable (cfg : SrcCfg)

/-- **wrap_window.** `wrap_around` (any skip, any lookahead, any split of the data between the wrap
buffer and the caller's buffer, at any source offset - coroutine re-entry included) never touches
memory outside the two buffers (`WrapSpec` is `False` on `.fault`), and
* when it returns TRUE the window `dst .. scan_end + lookahead` is a prefix, at least `lookahead`
  long, of the logical stream `unconsumed wrap bytes ++ rest of the caller's buffer` after the
  skip; nothing of that stream is lost (`WrapWin.rest`) and the skip counter is 0;
* when it returns FALSE the whole buffer was consumed, the skip was applied to the logical stream,
  the remaining skip is carried, and too few bytes are left for the lookahead (`WrapMore`).
`hist` is what was fed before: the unconsumed wrap bytes are a suffix of the bytes already seen,
which is what makes the "window inside the caller's buffer" shortcut sound. -/
theorem wrap_window (w : Wrap) (buf hist : Bytes) (si srcSize : Nat)
    (hlo : w.leftover ≤ w.wb.length) (hsi : si ≤ buf.length) (hsz : srcSize ≤ buf.length)
    (hla : 0 < w.lookahead) (hcap : w.lookahead ≤ PES_BUF_SIZE)
    (hsuf : w.pend <:+ hist ++ buf.take si) :
    WrapSpec w buf hist si (wrapAround PES_BUF_SIZE w buf si srcSize) :=
  wrapAround_spec PES_BUF_SIZE w buf hist si srcSize hlo hsi hsz hcap hla hsuf

example : WrapSpec {} [0, 0, 1] [] 0 (wrapAround PES_BUF_SIZE {} [0, 0, 1] 0 3) :=
  wrap_window {} [0, 0, 1] [] 0 3 (by decide) (by decide) (by decide) (by decide) (by decide) (by simp [Wrap.pend])

/-- **scan_finds_first_start_code (byte-wise).** The start code scan with its 3-byte skips stops at
the first position, at or after where it started, at which `00 00 01 xx` (`xx >= 0xBC`) begins; if
it gives up at `q` (window exhausted) there is no start code at any position before `q`.  It never
reads outside the window (`ScanFirst` is `False` on `.fault`). -/
theorem scan_finds_first_start_code (win : Bytes) (scanEnd p : Nat)
    (hse : scanEnd + 4 ≤ win.length) (hp : p ≤ scanEnd) :
    ScanFirst win p (scanLoop (win.length + 1) win scanEnd p) :=
  scanLoop_first win scanEnd hse (win.length + 1) p hp (by omega)

example : scanLoop 9 [9, 9, 0, 0, 1, 0xBD, 7, 7] 4 0 = .found 2 := by decide

/-- **scan is independent of where the window ends.** Two windows onto the same stream (any two
prefixes of at least 48 bytes) leave the demultiplexer in states from which the rest of the stream
is processed identically: the loop body never faults, always advances by at least one byte, and
`arun` from the resulting (skip, lookahead, frame state) is the same. -/
theorem scan_window_independent (L w1 w2 : Bytes) (fs : FS) (sk1 sk2 la : Nat)
    (h1 : w1 <+: L) (h2 : w2 <+: L) (hla : 48 ≤ la) (hla2 : la ≤ 65495)
    (hw1 : la ≤ w1.length) (hw2 : la ≤ w2.length) :
    ∃ r1 r2 : Core, ∃ outs : List FrameOut,
      pesIter true cfg sk1 la fs w1 = ((r1.skip, r1.lookahead), r1.fs, outs, none) ∧
      pesIter true cfg sk2 la fs w2 = ((r2.skip, r2.lookahead), r2.fs, outs, none) ∧
      1 ≤ r1.skip ∧ 1 ≤ r2.skip ∧ arun cfg r1 L = arun cfg r2 L := by
  obtain ⟨a1, b1, c1, o1, e1, p1, _, _, ar1⟩ := pesIter_arun (cfg := cfg) L w1 fs sk1 la h1 hla hla2 hw1
  obtain ⟨a2, b2, c2, o2, e2, p2, _, _, ar2⟩ := pesIter_arun (cfg := cfg) L w2 fs sk2 la h2 hla hla2 hw2
  have hpre : (arun cfg { skip := a1, lookahead := b1, fs := c1 } L).pre o1
      = (arun cfg { skip := a2, lookahead := b2, fs := c2 } L).pre o2 := by rw [← ar1, ← ar2]
  by_cases hp : la > 48
  · -- payload: both windows show the same `la` bytes
    have t1 : w1.take la = L.take la := by
      obtain ⟨t, rfl⟩ := h1; exact (List.take_append_of_le_length hw1).symm
    have t2 : w2.take la = L.take la := by
      obtain ⟨t, rfl⟩ := h2; exact (List.take_append_of_le_length hw2).symm
    rw [pesIter_payload _ _ _ _ _ hp hw1, t1] at e1
    rw [pesIter_payload _ _ _ _ _ hp hw2, t2] at e2
    obtain ⟨f1, q1, hq1⟩ := payloadRes_ok cfg sk1 la fs (L.take la) (by
      have := h1.length_le; simp; omega)
    obtain ⟨f2, q2, hq2⟩ := payloadRes_ok cfg sk2 la fs (L.take la) (by
      have := h1.length_le; simp; omega)
    have hsame : f1 = f2 ∧ q1 = q2 := by
      unfold payloadRes at hq1 hq2
      rcases hpp : pesPacketFrame cfg 3 true cfg.corSkipsEmpty { fs with frame := { fs.frame with nDu := 0 } } (L.take la)
        with ⟨a, b, r, c⟩
      rw [hpp] at hq1 hq2
      cases r <;> simp_all
    obtain ⟨rfl, rfl⟩ := hsame
    rw [hq1] at e1
    rw [hq2] at e2
    simp only [Prod.mk.injEq] at e1 e2
    obtain ⟨⟨rfl, rfl⟩, rfl, rfl, -⟩ := e1
    obtain ⟨⟨rfl, rfl⟩, rfl, rfl, -⟩ := e2
    exact ⟨⟨la, 48, f1⟩, ⟨la, 48, f1⟩, q1, by rw [pesIter_payload _ _ _ _ _ hp hw1, t1, hq1],
      by rw [pesIter_payload _ _ _ _ _ hp hw2, t2, hq2], by omega, by omega, rfl⟩
  · -- scan: no frames are produced
    have h48 : la = 48 := by omega
    subst h48
    have o1nil : o1 = [] := by
      rw [pesIter_scan _ _ _ _ hw1] at e1
      obtain ⟨x, y, z, hx, _⟩ := scanLoop_arun (cfg := cfg) L w1 fs sk1 h1 hw1 (w1.length + 1) 0 (Nat.zero_le _) (by omega)
      rw [hx] at e1; simp only [Prod.mk.injEq] at e1; exact e1.2.2.1.symm
    have o2nil : o2 = [] := by
      rw [pesIter_scan _ _ _ _ hw2] at e2
      obtain ⟨x, y, z, hx, _⟩ := scanLoop_arun (cfg := cfg) L w2 fs sk2 h2 hw2 (w2.length + 1) 0 (Nat.zero_le _) (by omega)
      rw [hx] at e2; simp only [Prod.mk.injEq] at e2; exact e2.2.2.1.symm
    subst o1nil; subst o2nil
    rw [ARes.pre_nil, ARes.pre_nil] at hpre
    exact ⟨⟨a1, b1, c1⟩, ⟨a2, b2, c2⟩, [], e1, e2, p1, p2, hpre⟩

/-- **feed_split_invariant (PES path, full).** For every reachable context (`Inv`), feeding `a` and
then `b` delivers exactly the frames of feeding `a ++ b`, and ends in a context with the same
resume state (skip, lookahead, frame/PTS state) and the same unconsumed bytes. -/
theorem feed_split_invariant (s : St) (a b : Bytes) (h : Inv cfg s) :
    (pesFeed cfg s (a ++ b)).frames = (pesFeed cfg s a).frames ++ (pesFeed cfg (pesFeed cfg s a).st b).frames ∧
    (pesFeed cfg s (a ++ b)).st.core = (pesFeed cfg (pesFeed cfg s a).st b).st.core ∧
    (pesFeed cfg s (a ++ b)).st.pending = (pesFeed cfg (pesFeed cfg s a).st b).st.pending :=
  pesFeed_split (cfg := cfg) s a b h

/-- the invariant holds initially and after every feed call, so `feed_split_invariant` applies to
every history of calls -/
theorem inv_reachable (chunks : List Bytes) : Inv cfg (pesFeeds cfg St.init chunks).st :=
  (pesFeeds_refines (cfg := cfg) chunks St.init Inv_init).2.1

/-- **frames = f(stream).** Any partition of a stream into successive `vbi_dvb_demux_feed` calls -
of any sizes, down to single bytes, empty buffers included - delivers exactly `frames stream`,
the value of the buffer-free stream machine on the concatenation. -/
theorem feeds_equal_frames_of_stream (chunks : List Bytes) :
    (pesFeeds cfg St.init chunks).frames = frames cfg chunks.flatten := by
  have h := (pesFeeds_refines (cfg := cfg) chunks St.init Inv_init).2.2
  have e : St.init.pending ++ chunks.flatten = chunks.flatten := by
    simp [St.pending, St.init, Wrap.pend]
  rw [e] at h
  unfold frames
  have : St.init.core = Core.init := rfl
  rw [← this, h]

example : (pesFeeds cfg St.init [[0, 0], [1], [0xBD, 0, 1]]).frames = frames cfg [0, 0, 1, 0xBD, 0, 1] :=
  feeds_equal_frames_of_stream cfg [[0, 0], [1], [0xBD, 0, 1]]

/-- **garbage_safe.** Whatever bytes are fed in whatever pieces: no access outside the wrap buffer
or the caller's buffer, no failed `assert`, no `for (;;)` that runs out of its fuel - every loop
iteration consumes at least one byte or returns (the fuel `leftover + length + 2` suffices). -/
theorem garbage_safe (chunks : List Bytes) : (pesFeeds cfg St.init chunks).err = none :=
  (pesFeeds_refines (cfg := cfg) chunks St.init Inv_init).1

/-- **progress of one call.** From a reachable context one `demux_pes_packet` call terminates
within `pesFuel` iterations with "need more data" and has consumed the whole buffer. -/
theorem feed_consumes_all (s : St) (buf : Bytes) (h : Inv cfg s) :
    ∃ s' outs, pesLoop (pesFuel s buf) true cfg s buf 0 buf.length = (s', outs, buf.length, .needMore) := by
  have hpl : s.pending.length = s.pw.leftover := s.pw.pend_length h.1.1
  obtain ⟨s', outs, hloop, _, _⟩ := pesLoop_refines (cfg := cfg) (pesFuel s buf) s buf s.pending 0 h.1 (Nat.zero_le _)
    (by simp) (by simp only [pesFuel, List.drop_zero, List.length_append, hpl]; omega)
  exact ⟨s', outs, hloop⟩

/-- `demux_pes_packet_frame`: the `for (;;)` runs at most twice, extraction never reads outside
the packet, and the result is 0 or a data unit error (callback installed). -/
theorem packet_frame_two_rounds (se : Bool) (fs : FS) (d : Bytes) (hd : 2 ≤ d.length) :
    (pesPacketFrame cfg 3 true se fs d).2.2.1 = .done ∨ (pesPacketFrame cfg 3 true se fs d).2.2.1 = .err :=
  pesPacketFrame_ok se fs d hd

/-! ## The two defects of the unrepaired tree (fixed in /repo by 776a0f0 and 7c6e61c)

Stated for the *unrepaired* shape of the source explicitly (`SrcCfg.unrepaired`, resp. the hypothesis
`cfg.pesDiscards = false`), never through the generated constants, so they stay true whatever the
current tree looks like.  Witness packets are built in `Demux/Spec.lean` (`livelockPacket`,
`overflowPacket`); the same bytes are `corpus/C07/*.ops`. -/

/-- **cor_equals_feed was false before 776a0f0 (F55).** Draining `livelockPacket` through
`vbi_dvb_demux_cor` never consumes it: three calls in a row return 0 lines with `*buffer_left`
unchanged (and the state repeats). -/
theorem cor_livelock_counterexample :
    (pesCorDrain 8 SrcCfg.unrepaired 0 St.init livelockPacket 0 64).stalled = true := by
  decide +kernel

/-- with the repair the same packet is consumed -/
example : (pesCorDrain 8 SrcCfg.repaired 0 St.init livelockPacket 0 64).err = none ∧
    (pesCorDrain 8 SrcCfg.repaired 0 St.init livelockPacket 0 64).stalled = false := by decide +kernel
/-- through the callback interface the packet is consumed too (with a spurious empty frame first) -/
example : (pesFeed SrcCfg.repaired St.init livelockPacket).err = none ∧
    (pesFeed SrcCfg.repaired St.init livelockPacket).frames.length = 1 := by decide +kernel

/-- **resync was false before 7c6e61c (F56).** While `demux_pes_packet` tests `err < 0`
(`cfg.pesDiscards = false`) and `line_address` tests for the overflow first (`cfg.lateOverflow = false`,
the shape of that tree), a reachable PES context whose line buffer is full and which is not at
a frame start (`Deaf`) is absorbing: whatever is fed afterwards, in whatever pieces - intact
packets included - no frame is delivered ever again. -/
theorem pes_lockup_unrepaired (hlo : cfg.lateOverflow = false) (hflag : cfg.pesDiscards = false)
    (s : St) (h : Inv cfg s) (hd : Deaf s.fs) (chunks : List Bytes) : (pesFeeds cfg s chunks).frames = [] := by
  have h1 := (pesFeeds_refines (cfg := cfg) chunks s h).2.2
  have h2 := (arun_deaf (cfg := cfg) hlo hflag (s.pending ++ chunks.flatten) s.core hd).1
  rw [h1] at h2
  exact h2

/-- the absorbing state was reachable with one packet -/
theorem pes_lockup_reachable : Deaf (pesFeed SrcCfg.unrepaired St.init overflowPacket).st.fs := by
  unfold Deaf Full
  decide +kernel

/-! ## Recovery (repaired tree) -/

/-- **resync: a frame start forgets.** Two demultiplexers at the same stream position (same skip,
same lookahead) that are both at a frame start (`new_frame`) - whatever stale lines, line counters,
frame PTS they hold, and whatever packet PTS as long as no header is pending - deliver the same
frames on *every* continuation of the stream.  `new_frame` is what every discard sets, so this is
the statement that a discard leaves no trace. -/
theorem resync_frame_start_forgets (c1 c2 : Core) (L : Bytes)
    (hs : c1.skip = c2.skip) (hl : c1.lookahead = c2.lookahead) (h48 : 48 ≤ c1.lookahead) (h65 : c1.lookahead ≤ 65495)
    (h1 : c1.fs.newFrame = true) (h2 : c2.fs.newFrame = true)
    (hp : c1.lookahead > 48 → c1.fs.packetPts = c2.fs.packetPts) :
    (arun cfg c1 L).frames = (arun cfg c2 L).frames :=
  (arun_forget (cfg := cfg) L c1 c2 hs hl h48 h65 (Or.inr ⟨h1, h2, hp⟩)).1

/-- a data unit error in the PES path discards the frame (since 7c6e61c) -/
theorem error_discards (hflag : cfg.pesDiscards = true) (fs : FS) : (pesErrFs cfg fs).newFrame = true := by
  simp [pesErrFs, hflag]

/-- a context at a frame start in scan mode behaves like a freshly reset one at the same position -/
theorem frame_start_like_reset (s : St) (h1 : s.fs.newFrame = true) (h2 : s.pw.lookahead = 48) (L : Bytes) :
    (arun cfg s.core (s.pending ++ L)).frames = (arun cfg { s.core with fs := {} } (s.pending ++ L)).frames := by
  have hf : FsForget s.core.lookahead s.core.fs ({ s.core with fs := {} } : Core).fs :=
    Or.inr ⟨h1, rfl, fun h => by simp only [St.core] at h; omega⟩
  exact (arun_forget (cfg := cfg) (s.pending ++ L) s.core { s.core with fs := {} } rfl rfl
    (by simp only [St.core]; omega) (by simp only [St.core]; omega) hf).1

/-- the context after the packet that used to lock the demultiplexer up (70 line units) -/
def afterOverflow : St := (pesFeed SrcCfg.repaired St.init overflowPacket).st

/-- **pes_recovers_after_overflow.** On the repaired tree `overflowPacket` leaves the demultiplexer at
a frame start, and from there it behaves on every continuation `L` exactly like a freshly reset
demultiplexer at the same stream position: no absorbing state any more. -/
theorem pes_recovers_after_overflow :
    afterOverflow.fs.newFrame = true ∧
    ∀ L, (arun SrcCfg.repaired afterOverflow.core (afterOverflow.pending ++ L)).frames
       = (arun SrcCfg.repaired { afterOverflow.core with fs := {} } (afterOverflow.pending ++ L)).frames := by
  have h1 : afterOverflow.fs.newFrame = true := by decide +kernel
  have h2 : afterOverflow.pw.lookahead = 48 := by decide +kernel
  exact ⟨h1, frame_start_like_reset SrcCfg.repaired afterOverflow h1 h2⟩

/-- ... and concretely: the frame of the next intact packet is delivered (when the one after it begins) -/
example : ((pesFeeds SrcCfg.repaired St.init [overflowPacket, linePacket 3 7 0x55, linePacket 4 7 0x66]).frames.map
    fun f => (f.pts, f.lines.map fun l => (l.id, l.line))) = [(3, [(3, 7)])] := by decide +kernel
/-- the same three packets on the unrepaired tree: nothing -/
example : (pesFeeds SrcCfg.unrepaired St.init [overflowPacket, linePacket 3 7 0x55, linePacket 4 7 0x66]).frames = [] := by
  decide +kernel

/-- **the coroutine interface always makes progress (since 776a0f0).** With the `continue` for a
frame without lines in place, a `vbi_dvb_demux_cor` call from *any* context that does not fault either
returns a frame or exhausts the buffer; hence the documented caller loop
`while (left > 0) vbi_dvb_demux_cor (...)` never stalls - the positive counterpart of
`cor_livelock_counterexample`, for every context, buffer and `max_lines >= 1`. -/
theorem cor_always_progresses (hse : cfg.corSkipsEmpty = true) (maxLines : Nat) (hm : 1 ≤ maxLines)
    (fuel stall : Nat) (s : St) (buf : Bytes) (si : Nat) :
    (pesCorDrain fuel cfg stall s buf si maxLines).stalled = false :=
  pesCorDrain_no_livelock cfg hse maxLines hm fuel stall s buf si

/-! ## TS path (`demux_ts_packet`: sync search, 188-byte alignment, PID filter, continuity, PES reassembly) -/

/-- the TS demux context reached from a new demultiplexer by a history of feed calls -/
def tsAfter (pid : Nat) (hist : List Bytes) : TsSt := hist.foldl (fun s c => (tsFeed cfg s c).st) (TsSt.init pid)

/-- the TS invariant (ts_buffer fill + lookahead = 10 in sync / 197 searching, lookahead >= 1,
consume <= ts_pes_todo, PES buffer bounds) holds after every history of feed calls -/
theorem ts_inv_reachable (pid : Nat) (hist : List Bytes) : TsInv (tsAfter cfg pid hist) := by
  unfold tsAfter
  have : ∀ (s : TsSt), TsInv s → TsInv (hist.foldl (fun s c => (tsFeed cfg s c).st) s) := by
    induction hist with
    | nil => intro s h; exact h
    | cons c cs ih => intro s h; exact ih _ (tsFeed_safe s c h).2
  exact this _ (TsInv_init pid)

/-- **garbage_safe, TS path.** Whatever bytes are fed to a TS demultiplexer in whatever pieces: no
access outside `ts_buffer` / `pes_buffer` / the caller's buffer, no failed `assert`, no unsigned
wrap-around of the lookahead / todo counters, and the loop terminates (every iteration consumes at
least one byte or returns). -/
theorem ts_garbage_safe (pid : Nat) (hist : List Bytes) (buf : Bytes) :
    (tsFeed cfg (tsAfter cfg pid hist) buf).err = none :=
  (tsFeed_safe _ buf (ts_inv_reachable cfg pid hist)).1

/-- **ts_feed_split_invariant (TS path, full).** For every reachable TS context, feeding `a` and then
`b` delivers exactly the frames of feeding `a ++ b` and ends in the *same context*: every
input-consuming block of the loop body (payload copy, skip, look-ahead copy into `ts_buffer`) is a
resumable counter, and sync search / header evaluation / continuity never read input. -/
theorem ts_feed_split_invariant (pid : Nat) (hist : List Bytes) (a b : Bytes) :
    let s := tsAfter cfg pid hist
    (tsFeed cfg s (a ++ b)).frames = (tsFeed cfg s a).frames ++ (tsFeed cfg (tsFeed cfg s a).st b).frames ∧
    (tsFeed cfg s (a ++ b)).st = (tsFeed cfg (tsFeed cfg s a).st b).st := by
  intro s
  have hi := ts_inv_reachable cfg pid hist
  have h1 := tsFeed_safe (cfg := cfg) s a hi
  have h2 := tsFeed_safe (cfg := cfg) (tsFeed cfg s a).st b h1.2
  have h3 := tsFeed_safe (cfg := cfg) s (a ++ b) hi
  exact tsFeed_split s a b h1.1 h2.1 h3.1

example : (tsFeed cfg (TsSt.init 256) (List.replicate 150 0x47 ++ List.replicate 250 0x47)).st
    = (tsFeed cfg (tsFeed cfg (TsSt.init 256) (List.replicate 150 0x47)).st (List.replicate 250 0x47)).st :=
  (ts_feed_split_invariant cfg 256 [] (List.replicate 150 0x47) (List.replicate 250 0x47)).2

/-- successive `vbi_dvb_demux_feed` calls on a TS demultiplexer: final context and all frames delivered -/
def tsFeeds : TsSt → List Bytes → TsSt × List FrameOut
  | s, [] => (s, [])
  | s, c :: cs => ((tsFeeds (tsFeed cfg s c).st cs).1, (tsFeed cfg s c).frames ++ (tsFeeds (tsFeed cfg s c).st cs).2)

/-- **ts_split_invariant (TS path, any partition).** For every reachable TS context, feeding a stream in
ANY partition into successive buffers - of any sizes, down to single bytes, empty buffers included -
delivers exactly the frames of feeding it whole and ends in the same context.  Holds in both shapes of
the "PES packet complete" step (with and without fix dvb-demux-ts-first-packet). -/
theorem ts_split_invariant (pid : Nat) (hist chunks : List Bytes) :
    tsFeeds cfg (tsAfter cfg pid hist) chunks
      = ((tsFeed cfg (tsAfter cfg pid hist) chunks.flatten).st, (tsFeed cfg (tsAfter cfg pid hist) chunks.flatten).frames) := by
  induction chunks generalizing hist with
  | nil => simp [tsFeeds, tsFeed]
  | cons c cs ih =>
    have hstep : tsAfter cfg pid (hist ++ [c]) = (tsFeed cfg (tsAfter cfg pid hist) c).st := by
      simp [tsAfter, List.foldl_append]
    have h := ih (hist ++ [c])
    rw [hstep] at h
    obtain ⟨h1, h2⟩ := ts_feed_split_invariant cfg pid hist c cs.flatten
    simp only [tsFeeds, List.flatten_cons, h]
    rw [h1, h2]

example : tsFeeds cfg (TsSt.init 256) [[0x47, 1], [], [2]]
    = ((tsFeed cfg (TsSt.init 256) [0x47, 1, 2]).st, (tsFeed cfg (TsSt.init 256) [0x47, 1, 2]).frames) :=
  ts_split_invariant cfg 256 [] [[0x47, 1], [], [2]]

/-- **F30: the first frame of a TS stream was never delivered when its PES packet is one TS packet long**
(source without fix dvb-demux-ts-first-packet, whatever the other three flags): the sync search leaves
the whole first TS packet in `ts_buffer`, the header evaluation copies its 184 payload bytes, the PES
packet is complete - and only the copy loop had the "PES packet complete" step.  Of the frames 3, 4, 5
of `tsThree`, 3 and 4 are to be delivered (5 stays open); only 4 is. -/
theorem ts_first_frame_lost_counterexample :
    ((tsFeed { SrcCfg.repaired with tsCompletesInHeader := false } (TsSt.init 256) tsThree).frames.map
      fun f => (f.pts, f.lines.map (·.line))) = [(4, [7])] := by decide +kernel

/-- with `ts_pes_packet_complete ()` also at the end of the header evaluation the first frame arrives -/
example : ((tsFeed SrcCfg.repaired (TsSt.init 256) tsThree).frames.map fun f => (f.pts, f.lines.map (·.line)))
    = [(3, [7]), (4, [7])] ∧ (tsFeed SrcCfg.repaired (TsSt.init 256) tsThree).err = none := by decide +kernel

/-- **ts_unknown_counter_accepts_any.** While the expected continuity_counter is unknown (`ts_continuity == -1`:
new demultiplexer, after `vbi_dvb_demux_reset`, after every loss of sync) no packet is classified as repeated
or as a continuity error, whatever counter it carries (all 16 values; in particular 14 = -2 mod 16, the value a
"previous counter" computed from -1 would match): a packet of the PID that passes the TS header checks goes on
to the PES start test with the counter learned from it.  (Seeded change C07-f breaks exactly this.) -/
theorem ts_unknown_counter_accepts_any (b3 : Nat) (s : TsSt) (q : Bytes) (hc : s.cont = none)
    (hh : tsHeaderCheck s q = none) :
    tsContCheck none b3 = .ok ∧
    tsHeader cfg s q =
      match tsStart { s with cont := some (q.getD 3 0 + 1) } q with
      | none => (tsSkipPesPacket { s with cont := some (q.getD 3 0 + 1) } q, none)
      | some s1 => tsCopy cfg s1 q :=
  ⟨tsContCheck_none b3, tsHeader_unknown s q hc hh⟩

/-- non-vacuity, end to end on the model: an intact stream of one-packet frames delivers its first frame for
every initial continuity_counter 0..15 (the stream start is an unknown-counter state) -/
example : (List.range 16).all (fun cc =>
    ((tsFeed SrcCfg.repaired (TsSt.init 256) (tsThreeFrom cc)).frames.map fun f => (f.pts, f.lines.map (·.line)))
      == [(3, [7]), (4, [7])]) = true := by decide +kernel

/-- **the repeated-packet rule drops exactly a packet whose counter equals the previous one.**  After a packet
with header byte `p` was accepted (`ts_continuity = p + 1`) the next packet of the PID with header byte `q` is
* accepted iff `q` carries the next counter,
* taken for a repeated packet iff `q` carries the same counter as `p` (ISO 13818-1 2.4.3.3: a duplicate),
* a continuity error (PES packet and frame discarded) in the 14 other cases;
and a repeated packet is skipped with nothing else changed: expected counter, PES packet under assembly and
frame are kept (`tsSkipPacket` only moves on in `ts_buffer`). -/
theorem ts_repeated_iff_same_counter (p q : Nat) :
    (tsContCheck (some (p + 1)) q = .ok ↔ q % 16 = (p + 1) % 16) ∧
    (tsContCheck (some (p + 1)) q = .repeated ↔ q % 16 = p % 16) ∧
    (tsContCheck (some (p + 1)) q = .lost ↔ (q % 16 ≠ (p + 1) % 16 ∧ q % 16 ≠ p % 16)) := by
  have h1 := tsContCheck_ok_next p q
  have h2 := tsContCheck_repeated_prev p q
  refine ⟨h1, h2, ?_⟩
  cases h : tsContCheck (some (p + 1)) q with
  | ok => rw [h] at h1; simp [h1.1 rfl]
  | repeated => rw [h] at h2; simp [h2.1 rfl]
  | lost =>
    rw [h] at h1 h2
    simp only [true_iff]
    exact ⟨fun e => (by have := h1.2 e; cases this), fun e => (by have := h2.2 e; cases this)⟩

/-- ... skipped with nothing else changed -/
theorem ts_repeated_packet_skipped (s : TsSt) (q : Bytes) (p : Nat) (hc : s.cont = some (p + 1))
    (hh : tsHeaderCheck s q = none) (hr : q.getD 3 0 % 16 = p % 16) :
    tsHeader cfg s q = (tsSkipPacket s q, none) ∧ (tsSkipPacket s q).cont = s.cont ∧ (tsSkipPacket s q).fs = s.fs
      ∧ (tsSkipPacket s q).pes = s.pes ∧ (tsSkipPacket s q).pesTodo = s.pesTodo := by
  refine ⟨tsHeader_repeated s q (p + 1) hc hh (by rw [Nat.add_sub_cancel]; exact hr) (by omega), ?_⟩
  unfold tsSkipPacket tsAdvance
  dsimp only
  split <;> exact ⟨rfl, rfl, rfl, rfl⟩

/-- non-vacuity: the second packet of `tsThree` sent twice is dropped once, all frames arrive -/
example : ((tsFeed SrcCfg.repaired (TsSt.init 256)
      (tsOf 256 0 (linePacket 3 7 0x55) ++ tsOf 256 1 (linePacket 4 7 0x66) ++ tsOf 256 1 (linePacket 4 7 0x66)
        ++ tsOf 256 2 (linePacket 5 7 0x77))).frames.map fun f => (f.pts, f.lines.map (·.line)))
    = [(3, [7]), (4, [7])] := by decide +kernel
example : tsContCheck (some (0x1E + 1)) 0x1E = .repeated ∧ tsContCheck (some (0x1F + 1)) 0x10 = .ok
    ∧ tsContCheck (some (0x1F + 1)) 0x12 = .lost := by decide

/-! ## Joint with C06 (multiplexer model `ZvbiModel/Mux`) -/

/-- a demultiplexed line seen as the multiplexer spec's `Line` (WSS: 14 bits) -/
def toLine (l : Sliced) : Option Zvbi.Mux.EnParse.Line :=
  if l.id = SL_TELETEXT_B then some ⟨.ttx, l.line, l.data⟩
  else if l.id = SL_VPS then some ⟨.vps, l.line, l.data⟩
  else if l.id = SL_WSS_625 then some ⟨.wss, l.line, [l.data.getD 0 0, l.data.getD 1 0 % 64]⟩
  else if l.id = SL_CAPTION_625_F1 then some ⟨.cc, l.line, l.data⟩
  else none

/-- what the demultiplexer model delivers, in the vocabulary of the multiplexer spec -/
def deliveredAs (fs : List FrameOut) : List (Nat × List Zvbi.Mux.EnParse.Line) :=
  fs.map fun f => (f.pts, f.lines.filterMap toLine)

/-- the two models compose on real bytes: four frames through C06's model of `vbi_dvb_mux_feed`
(PES mode), the concatenated output through this model of `vbi_dvb_demux_feed`: the first three come
back with PTS, services, lines and payload bits (the fourth is pending until a fifth begins) -/
example :
    let ops : List Zvbi.Mux.EnParse.Op :=
      [.frame [⟨3, 7, List.replicate 56 0x15⟩, ⟨4, 16, List.replicate 56 0x31⟩, ⟨0x400, 23, List.replicate 56 0xF7⟩] 0xFFFFFFFF 5,
       .frame [⟨3, 7, List.replicate 56 0x80⟩, ⟨3, 320, List.replicate 56 0x01⟩] 0xFFFFFFFF 6,
       .frame [⟨3, 9, List.replicate 56 0x55⟩] 0xFFFFFFFF 7, .frame [⟨3, 8, List.replicate 56 0⟩] 0xFFFFFFFF 8]
    let r := Zvbi.Mux.EnParse.run Zvbi.Mux.newPes ops
    deliveredAs (frames SrcCfg.repaired r.2.1) = (r.2.2.take 3).map (fun s => (s.pts, s.lines)) := by
  decide +kernel

/-! ## Full statements not proved (kept visible; tied to the code by the oracle only) -/

/-- cor_equals_feed: draining a buffer through the coroutine interface delivers the frames of
`vbi_dvb_demux_feed` that have at least one line.  False on the unchanged tree (`skipEmpty = false`:
finding C07-cor-livelock, see `cor_livelock_counterexample`); expected to hold with the fix. -/
def cor_equals_feed_full : Prop :=
  ∀ (chunks : List Bytes) (buf : Bytes),
    let s := (pesFeeds cfg St.init chunks).st
    let r := pesCorDrain (2 * buf.length + 4) cfg 0 s buf 0 64
    r.err = none ∧ r.stalled = false ∧ r.frames = (pesFeed cfg s buf).frames.filter (fun f => !f.lines.isEmpty)

/-- resync, end to end: after arbitrary damage, once the demultiplexer is at a packet boundary of an
intact stream, every frame but at most the first is delivered as sent.  Needs the sender spec of C06
(`ZvbiModel/Mux`); judged by the oracle of the C07 check on every run. -/
def resync_full : Prop :=
  ∀ (c : Core) (L : Bytes), c.skip = 0 → c.lookahead = 48 →
    ∃ x y rest, (arun cfg c L).frames = x ++ rest ∧ frames cfg L = y ++ rest ∧ x.length ≤ 2 ∧ y.length ≤ 1

/-- mux_demux_roundtrip_model (join of C06 and C07): for every history of multiplexer operations in
which consecutive accepted frames are separable by the demultiplexer's rule (each frame has 1..64
lines and begins on a line not beyond the previous frame's last line), this model of the
demultiplexer returns, from the concatenated output of C06's model of the multiplexer, all accepted
frames but the last with their PTS and lines.  Not proved: it needs (a) "EnParse accepts bs and the
lines of every packet ascend => `frames bs` = the packets' lines" (a parser-equivalence theorem
between `EnParse.pesStream` and `arun`), and (b) from C06 that accepted frames ascend and all output
bytes are < 256.  The `example` above evaluates an instance in the kernel; the C06 `--demux` oracle
and the C07 oracle judge it on the real code on every run. -/
def mux_demux_roundtrip_model_full : Prop :=
  ∀ (ops : List Zvbi.Mux.EnParse.Op), (∀ op ∈ ops, Zvbi.Mux.EnParse.Op.OK op) →
    let r := Zvbi.Mux.EnParse.run Zvbi.Mux.newPes ops
    (∀ s ∈ r.2.2, 1 ≤ s.lines.length ∧ s.lines.length ≤ 64) →
    (∀ i, i + 1 < r.2.2.length →
      ((r.2.2.getD (i + 1) ⟨0, 0, []⟩).lines.headD ⟨.ttx, 0, []⟩).line
        ≤ ((r.2.2.getD i ⟨0, 0, []⟩).lines.getLastD ⟨.ttx, 0, []⟩).line ∧
      ((r.2.2.getD (i + 1) ⟨0, 0, []⟩).lines.headD ⟨.ttx, 0, []⟩).line ≠ 0) →
    deliveredAs (frames cfg r.2.1) = (r.2.2.dropLast).map (fun s => (s.pts, s.lines))

end Zvbi.Props.C07
