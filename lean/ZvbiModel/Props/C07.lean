import ZvbiModel.Demux.LemmasFeed
import ZvbiModel.Demux.LemmasLock
import ZvbiModel.Demux.Ts
/-!
# C07 - DVB demux output depends only on the byte stream and recovers after damage

Property theorems only; helper lemmas are in `ZvbiModel/Demux/Lemmas*.lean`.
Model: `ZvbiModel/Demux/Model.lean` (PES path, `wrap_around`, frame assembly), spec:
`ZvbiModel/Demux/Spec.lean` (`arun`, `frames`: the demultiplexer as a function of the concatenated
stream, no buffers, no calls).  Bytes are `Nat`s; the C code reads `uint8_t`.

Full-strength statements that are not proved are `def ..._full : Prop` at the end (never used as
hypotheses); the check lists them under `open_statements`.
-/
namespace Zvbi.Props.C07
open Zvbi.Demux

variable (cfg : SrcCfg)

/-- **wrap_window.** `wrap_around` (any skip, any lookahead, any split of the data between the wrap
buffer and the caller's buffer, at any source offset - coroutine re-entry included) never touches
memory outside the two buffers (`WrapSpec` is `False` on `.fault`), and
* when it returns TRUE the window `dst .. scan_end + lookahead` is a prefix, at least `lookahead`
  long, of the logical stream `unconsumed wrap bytes ++ rest of the caller's buffer` after the
  skip; nothing of that stream is lost (`WrapWin.rest`) and the skip counter is 0;
* when it returns FALSE the whole buffer was consumed, the skip was applied to the logical stream,
  the remaining skip is carried, and too few bytes are left for the lookahead (`WrapMore`).
`hist` is what was fed before: the unconsumed wrap bytes are a suffix of the bytes already seen,
which is what makes the "window inside the caller's buffer" shortcut sound. -/
theorem wrap_window (w : Wrap) (buf hist : Bytes) (si srcSize : Nat)
    (hlo : w.leftover ≤ w.wb.length) (hsi : si ≤ buf.length) (hsz : srcSize ≤ buf.length)
    (hla : 0 < w.lookahead) (hcap : w.lookahead ≤ PES_BUF_SIZE)
    (hsuf : w.pend <:+ hist ++ buf.take si) :
    WrapSpec w buf hist si (wrapAround PES_BUF_SIZE w buf si srcSize) :=
  wrapAround_spec PES_BUF_SIZE w buf hist si srcSize hlo hsi hsz hcap hla hsuf

example : WrapSpec {} [0, 0, 1] [] 0 (wrapAround PES_BUF_SIZE {} [0, 0, 1] 0 3) :=
  wrap_window {} [0, 0, 1] [] 0 3 (by decide) (by decide) (by decide) (by decide) (by decide) (by simp [Wrap.pend])

/-- **scan_finds_first_start_code (byte-wise).** The start code scan with its 3-byte skips stops at
the first position, at or after where it started, at which `00 00 01 xx` (`xx >= 0xBC`) begins; if
it gives up at `q` (window exhausted) there is no start code at any position before `q`.  It never
reads outside the window (`ScanFirst` is `False` on `.fault`). -/
theorem scan_finds_first_start_code (win : Bytes) (scanEnd p : Nat)
    (hse : scanEnd + 4 ≤ win.length) (hp : p ≤ scanEnd) :
    ScanFirst win p (scanLoop (win.length + 1) win scanEnd p) :=
  scanLoop_first win scanEnd hse (win.length + 1) p hp (by omega)

example : scanLoop 9 [9, 9, 0, 0, 1, 0xBD, 7, 7] 4 0 = .found 2 := by decide

/-- **scan is independent of where the window ends.** Two windows onto the same stream (any two
prefixes of at least 48 bytes) leave the demultiplexer in states from which the rest of the stream
is processed identically: the loop body never faults, always advances by at least one byte, and
`arun` from the resulting (skip, lookahead, frame state) is the same. -/
theorem scan_window_independent (L w1 w2 : Bytes) (fs : FS) (sk1 sk2 la : Nat)
    (h1 : w1 <+: L) (h2 : w2 <+: L) (hla : 48 ≤ la) (hla2 : la ≤ 65495)
    (hw1 : la ≤ w1.length) (hw2 : la ≤ w2.length) :
    ∃ r1 r2 : Core, ∃ outs : List FrameOut,
      pesIter true cfg sk1 la fs w1 = ((r1.skip, r1.lookahead), r1.fs, outs, none) ∧
      pesIter true cfg sk2 la fs w2 = ((r2.skip, r2.lookahead), r2.fs, outs, none) ∧
      1 ≤ r1.skip ∧ 1 ≤ r2.skip ∧ arun cfg r1 L = arun cfg r2 L := by
  obtain ⟨a1, b1, c1, o1, e1, p1, _, _, ar1⟩ := pesIter_arun (cfg := cfg) L w1 fs sk1 la h1 hla hla2 hw1
  obtain ⟨a2, b2, c2, o2, e2, p2, _, _, ar2⟩ := pesIter_arun (cfg := cfg) L w2 fs sk2 la h2 hla hla2 hw2
  have hpre : (arun cfg { skip := a1, lookahead := b1, fs := c1 } L).pre o1
      = (arun cfg { skip := a2, lookahead := b2, fs := c2 } L).pre o2 := by rw [← ar1, ← ar2]
  by_cases hp : la > 48
  · -- payload: both windows show the same `la` bytes
    have t1 : w1.take la = L.take la := by
      obtain ⟨t, rfl⟩ := h1; exact (List.take_append_of_le_length hw1).symm
    have t2 : w2.take la = L.take la := by
      obtain ⟨t, rfl⟩ := h2; exact (List.take_append_of_le_length hw2).symm
    rw [pesIter_payload _ _ _ _ _ hp hw1, t1] at e1
    rw [pesIter_payload _ _ _ _ _ hp hw2, t2] at e2
    obtain ⟨f1, q1, hq1⟩ := payloadRes_ok cfg sk1 la fs (L.take la) (by
      have := h1.length_le; simp; omega)
    obtain ⟨f2, q2, hq2⟩ := payloadRes_ok cfg sk2 la fs (L.take la) (by
      have := h1.length_le; simp; omega)
    have hsame : f1 = f2 ∧ q1 = q2 := by
      unfold payloadRes at hq1 hq2
      rcases hpp : pesPacketFrame 3 true cfg.corSkipsEmpty { fs with frame := { fs.frame with nDu := 0 } } (L.take la)
        with ⟨a, b, r, c⟩
      rw [hpp] at hq1 hq2
      cases r <;> simp_all
    obtain ⟨rfl, rfl⟩ := hsame
    rw [hq1] at e1
    rw [hq2] at e2
    simp only [Prod.mk.injEq] at e1 e2
    obtain ⟨⟨rfl, rfl⟩, rfl, rfl, -⟩ := e1
    obtain ⟨⟨rfl, rfl⟩, rfl, rfl, -⟩ := e2
    exact ⟨⟨la, 48, f1⟩, ⟨la, 48, f1⟩, q1, by rw [pesIter_payload _ _ _ _ _ hp hw1, t1, hq1],
      by rw [pesIter_payload _ _ _ _ _ hp hw2, t2, hq2], by omega, by omega, rfl⟩
  · -- scan: no frames are produced
    have h48 : la = 48 := by omega
    subst h48
    have o1nil : o1 = [] := by
      rw [pesIter_scan _ _ _ _ hw1] at e1
      obtain ⟨x, y, z, hx, _⟩ := scanLoop_arun (cfg := cfg) L w1 fs sk1 h1 hw1 (w1.length + 1) 0 (Nat.zero_le _) (by omega)
      rw [hx] at e1; simp only [Prod.mk.injEq] at e1; exact e1.2.2.1.symm
    have o2nil : o2 = [] := by
      rw [pesIter_scan _ _ _ _ hw2] at e2
      obtain ⟨x, y, z, hx, _⟩ := scanLoop_arun (cfg := cfg) L w2 fs sk2 h2 hw2 (w2.length + 1) 0 (Nat.zero_le _) (by omega)
      rw [hx] at e2; simp only [Prod.mk.injEq] at e2; exact e2.2.2.1.symm
    subst o1nil; subst o2nil
    rw [ARes.pre_nil, ARes.pre_nil] at hpre
    exact ⟨⟨a1, b1, c1⟩, ⟨a2, b2, c2⟩, [], e1, e2, p1, p2, hpre⟩

/-- **feed_split_invariant (PES path, full).** For every reachable context (`Inv`), feeding `a` and
then `b` delivers exactly the frames of feeding `a ++ b`, and ends in a context with the same
resume state (skip, lookahead, frame/PTS state) and the same unconsumed bytes. -/
theorem feed_split_invariant (s : St) (a b : Bytes) (h : Inv cfg s) :
    (pesFeed cfg s (a ++ b)).frames = (pesFeed cfg s a).frames ++ (pesFeed cfg (pesFeed cfg s a).st b).frames ∧
    (pesFeed cfg s (a ++ b)).st.core = (pesFeed cfg (pesFeed cfg s a).st b).st.core ∧
    (pesFeed cfg s (a ++ b)).st.pending = (pesFeed cfg (pesFeed cfg s a).st b).st.pending :=
  pesFeed_split (cfg := cfg) s a b h

/-- the invariant holds initially and after every feed call, so `feed_split_invariant` applies to
every history of calls -/
theorem inv_reachable (chunks : List Bytes) : Inv cfg (pesFeeds cfg St.init chunks).st :=
  (pesFeeds_refines (cfg := cfg) chunks St.init Inv_init).2.1

/-- **frames = f(stream).** Any partition of a stream into successive `vbi_dvb_demux_feed` calls -
of any sizes, down to single bytes, empty buffers included - delivers exactly `frames stream`,
the value of the buffer-free stream machine on the concatenation. -/
theorem feeds_equal_frames_of_stream (chunks : List Bytes) :
    (pesFeeds cfg St.init chunks).frames = frames cfg chunks.flatten := by
  have h := (pesFeeds_refines (cfg := cfg) chunks St.init Inv_init).2.2
  have e : St.init.pending ++ chunks.flatten = chunks.flatten := by
    simp [St.pending, St.init, Wrap.pend]
  rw [e] at h
  unfold frames
  have : St.init.core = Core.init := rfl
  rw [← this, h]

example : (pesFeeds cfg St.init [[0, 0], [1], [0xBD, 0, 1]]).frames = frames cfg [0, 0, 1, 0xBD, 0, 1] :=
  feeds_equal_frames_of_stream cfg [[0, 0], [1], [0xBD, 0, 1]]

/-- **garbage_safe.** Whatever bytes are fed in whatever pieces: no access outside the wrap buffer
or the caller's buffer, no failed `assert`, no `for (;;)` that runs out of its fuel - every loop
iteration consumes at least one byte or returns (the fuel `leftover + length + 2` suffices). -/
theorem garbage_safe (chunks : List Bytes) : (pesFeeds cfg St.init chunks).err = none :=
  (pesFeeds_refines (cfg := cfg) chunks St.init Inv_init).1

/-- **progress of one call.** From a reachable context one `demux_pes_packet` call terminates
within `pesFuel` iterations with "need more data" and has consumed the whole buffer. -/
theorem feed_consumes_all (s : St) (buf : Bytes) (h : Inv cfg s) :
    ∃ s' outs, pesLoop (pesFuel s buf) true cfg s buf 0 buf.length = (s', outs, buf.length, .needMore) := by
  have hpl : s.pending.length = s.pw.leftover := s.pw.pend_length h.1.1
  obtain ⟨s', outs, hloop, _, _⟩ := pesLoop_refines (cfg := cfg) (pesFuel s buf) s buf s.pending 0 h.1 (Nat.zero_le _)
    (by simp) (by simp only [pesFuel, List.drop_zero, List.length_append, hpl]; omega)
  exact ⟨s', outs, hloop⟩

/-- `demux_pes_packet_frame`: the `for (;;)` runs at most twice, extraction never reads outside
the packet, and the result is 0 or a data unit error (callback installed). -/
theorem packet_frame_two_rounds (se : Bool) (fs : FS) (d : Bytes) (hd : 2 ≤ d.length) :
    (pesPacketFrame 3 true se fs d).2.2.1 = .done ∨ (pesPacketFrame 3 true se fs d).2.2.1 = .err :=
  pesPacketFrame_ok se fs d hd

/-! ## The two defects of the unrepaired tree (fixed in /repo by 776a0f0 and 7c6e61c)

Stated for the *unrepaired* shape of the source explicitly (`SrcCfg.unrepaired`, resp. the hypothesis
`cfg.pesDiscards = false`), never through the generated constants, so they stay true whatever the
current tree looks like.  Witness packets are built in `Demux/Spec.lean` (`livelockPacket`,
`overflowPacket`); the same bytes are `corpus/C07/*.ops`. -/

/-- **cor_equals_feed was false before 776a0f0 (F55).** Draining `livelockPacket` through
`vbi_dvb_demux_cor` never consumes it: three calls in a row return 0 lines with `*buffer_left`
unchanged (and the state repeats). -/
theorem cor_livelock_counterexample :
    (pesCorDrain 8 SrcCfg.unrepaired 0 St.init livelockPacket 0 64).err = some (.assertFail "cor_livelock") := by
  decide +kernel

/-- with the repair the same packet is consumed -/
example : (pesCorDrain 8 SrcCfg.repaired 0 St.init livelockPacket 0 64).err = none := by decide +kernel
/-- through the callback interface the packet is consumed too (with a spurious empty frame first) -/
example : (pesFeed SrcCfg.repaired St.init livelockPacket).err = none ∧
    (pesFeed SrcCfg.repaired St.init livelockPacket).frames.length = 1 := by decide +kernel

/-- **resync was false before 7c6e61c (F56).** While `demux_pes_packet` tests `err < 0`
(`cfg.pesDiscards = false`), a reachable PES context whose line buffer is full and which is not at
a frame start (`Deaf`) is absorbing: whatever is fed afterwards, in whatever pieces - intact
packets included - no frame is delivered ever again. -/
theorem pes_lockup_unrepaired (hflag : cfg.pesDiscards = false)
    (s : St) (h : Inv cfg s) (hd : Deaf s.fs) (chunks : List Bytes) : (pesFeeds cfg s chunks).frames = [] := by
  have h1 := (pesFeeds_refines (cfg := cfg) chunks s h).2.2
  have h2 := (arun_deaf (cfg := cfg) hflag (s.pending ++ chunks.flatten) s.core hd).1
  rw [h1] at h2
  exact h2

/-- the absorbing state was reachable with one packet -/
theorem pes_lockup_reachable : Deaf (pesFeed SrcCfg.unrepaired St.init overflowPacket).st.fs := by
  unfold Deaf Full
  decide +kernel

/-! ## Full statements not proved (kept visible; tied to the code by the oracle only) -/

/-- feed_split_invariant for the TS path (`demux_ts_packet`): modelled in `Demux/Ts.lean`, compared
with the C code on every run, not proved. -/
def ts_feed_split_invariant_full : Prop :=
  ∀ (pid : Nat) (hist : List Bytes) (a b : Bytes),
    let s := hist.foldl (fun s c => (tsFeed s c).st) (TsSt.init pid)
    (tsFeed s (a ++ b)).frames = (tsFeed s a).frames ++ (tsFeed (tsFeed s a).st b).frames

/-- cor_equals_feed: draining a buffer through the coroutine interface delivers the frames of
`vbi_dvb_demux_feed` that have at least one line.  False on the unchanged tree (`skipEmpty = false`:
finding C07-cor-livelock, see `cor_livelock_counterexample`); expected to hold with the fix. -/
def cor_equals_feed_full : Prop :=
  ∀ (chunks : List Bytes) (buf : Bytes),
    let s := (pesFeeds cfg St.init chunks).st
    let r := pesCorDrain (2 * buf.length + 4) cfg 0 s buf 0 64
    r.err = none ∧ r.frames = (pesFeed cfg s buf).frames.filter (fun f => !f.lines.isEmpty)

/-- resync, end to end: after arbitrary damage, once the demultiplexer is at a packet boundary of an
intact stream, every frame but at most the first is delivered as sent.  Needs the sender spec of C06
(`ZvbiModel/Mux`); judged by the oracle of the C07 check on every run. -/
def resync_full : Prop :=
  ∀ (c : Core) (L : Bytes), c.skip = 0 → c.lookahead = 48 →
    ∃ x y rest, (arun cfg c L).frames = x ++ rest ∧ frames cfg L = y ++ rest ∧ x.length ≤ 2 ∧ y.length ≤ 1

end Zvbi.Props.C07
