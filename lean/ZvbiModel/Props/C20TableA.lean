import ZvbiModel.Locks.Lemmas
import ZvbiModel.Locks.Instance
/-!
# C20 - table theorems, part A: bracketing, lock order, no trylock (`decide +kernel` over the COMPLETE table that
`translate/gen_locks.py` extracts from the current source; split over three files so that they
build in parallel)
-/
namespace Zvbi.Props.C20
open Zvbi.Locks Zvbi.Locks.Instance Zvbi.Generated.Locks

/-- The extracted graphs are well bracketed: the held-set annotation is inductive on every edge of
every role function (no path re-locks a held mutex or unlocks one it does not hold) and nothing is
held on entry and on return. -/
theorem table_well_bracketed : rolesAnnOK = true := by decide +kernel

theorem roles_annOK : ∀ R ∈ roles, R.annOK = true := by
  have h := table_well_bracketed
  unfold rolesAnnOK at h
  exact List.all_eq_true.1 h

/-- Lock order event < cc, rd < chswcd on every acquisition, except that `vbi_decode` (single thread,
sole user of the event mutex) may take the event mutex at any time. -/
theorem table_lock_order : tableOrdered rank roles = true := by decide +kernel

theorem table_try_free : roles.all Role.tryFree = true := by decide +kernel

end Zvbi.Props.C20
