import ZvbiModel.Net.LemmasEvents
import ZvbiModel.Props.C12
/-!
# C13 - every field of every announced event, from the sender's side

`Props/C13.lean` states faithfulness against the decoders of the line (`decode8302Pdc b`, `decode8301LocalTime b`).
Here the statements are joined with the sender specification of C12 (`Codec/Spec.lean`: `enc8302`, `enc8301`, proved
round trips `p8302_roundtrip`, `p8301_roundtrip`), so they speak about the values the station put into the packet:
PIL, LCI, LUF, PRF, PCS, MI, PTY and CNI of 8/30 format 2, MJD / UTC / offset and CNI of format 1.  The ASPECT event
`vbi_chsw_reset` raises when it forgets an aspect ratio is covered field by field, together with the invariant that
says which line kind the recorded `aspect_source` stands for, and the 525-line WSS (CPR-1204) path that is the only
reachable producer of `aspect_source == 2`.
-/
namespace Zvbi.Props.C13Ev
open Zvbi.Net Zvbi.Codec Zvbi.Codec.Spec Zvbi.Gen

/-- an empty station table (histories without CNI look-ups) -/
def cfgE : Cfg := { lk := fun _ _ => (0, []), xdsGuard := true }

/-- magazine 8 packet 30 address, designation `d`, initial page link 8FF / 3F7F (Hamming 8/4), zeros elsewhere -/
def fillA (d : Nat) : Nat → Nat := fun i => [0x15, 0xea, Zvbi.Hamm.ham8 d, 0xea, 0xea, 0xea, 0x2f, 0xea, 0x5e].getD i 0

/-! ## Teletext packet 8/30 format 2: the PDC label -/

/-- `event_values_faithful`, 8/30 format 2 programme identification, every field: whatever state the decoder is in and
    whatever the unprotected bytes of the packet are, a PROG_ID event raised by the packet the sender specification
    builds from (LCI, LUF, PRF, PCS, MI, CNI, PIL, PTY) carries exactly these eight values (and CNI type 8/30-2). -/
theorem event_values_faithful_8302_fields (cfg : Cfg) (s : State) (fill : Nat → Nat) (f : F2)
    (h1 : f.lci < 4) (h2 : f.luf < 2) (h3 : f.prf < 2) (h4 : f.pcs < 4) (h5 : f.mi < 2) (h6 : f.cni < 65536)
    (h7 : f.pil < 1048576) (h8 : f.pty < 256) (p : Pid)
    (h : Ev.progId p ∈ (rxTtx cfg s (enc8302 fill f)).2) :
    p.channel = f.lci ∧ p.cniType = VBI_CNI_TYPE_8302 ∧ p.cni = f.cni ∧ p.pil = f.pil ∧ p.luf = f.luf ∧
    p.mi = f.mi ∧ p.prf = f.prf ∧ p.pcsAudio = f.pcs ∧ p.pty = f.pty := by
  have e := rxTtx_progId cfg s _ p h
  rw [(Zvbi.Props.C12.p8302_roundtrip fill f h1 h2 h3 h4 h5 h6 h7 h8).1] at e
  have e' := Option.some.inj e
  rw [← e']
  exact ⟨rfl, rfl, rfl, rfl, rfl, rfl, rfl, rfl, rfl⟩

-- non-vacuity: the packet of the sender specification does raise PROG_ID, with the label that was sent
example : Ev.progId { channel := 2, cniType := 3, cni := 0xFDCB, pil := 0xABCDE, luf := 1, mi := 1, prf := 0,
                      pcsAudio := 3, pty := 0x5A } ∈
    (rxTtx cfgE { init with mask := 0x800 } (enc8302 (fillA 2)
      { lci := 2, luf := 1, prf := 0, pcs := 3, mi := 1, cni := 0xFDCB, pil := 0xABCDE, pty := 0x5A })).2 := by decide

/-! ## Teletext packet 8/30 format 1: local time and CNI -/

/-- A LOCAL_TIME event raised by the format 1 packet of the sender specification carries the transmitted date and
    time of day as seconds since 1970 and the transmitted offset (half hours, sign) in seconds. -/
theorem event_values_faithful_local_time_fields (cfg : Cfg) (s : State) (fill : Nat → Nat) (cni mjd hh mm ss l : Nat)
    (neg : Bool) (hmjd : mjd < 100000) (h1 : hh < 24) (h2 : mm < 60) (h3 : ss ≤ 60) (hl : l < 32) (t east : Int)
    (h : Ev.localTime t east ∈ (rxTtx cfg s (enc8301 fill cni mjd hh mm ss l neg)).2) :
    (t, east) = (((mjd : Nat) - 40587 : Int) * 86400 + ((ss + mm * 60 + hh * 3600 : Nat) : Int),
                 if neg then -((l * 1800 : Nat) : Int) else ((l * 1800 : Nat) : Int)) := by
  have e := rxTtx_localTime cfg s _ t east h
  rw [Zvbi.Props.C12.p8301_roundtrip fill cni mjd hh mm ss l neg hmjd h1 h2 h3 hl] at e
  exact (Option.some.inj e).symm

example : Ev.localTime ((58754 - 40587) * 86400 + 45296) (-5400) ∈
    (rxTtx cfgE { init with mask := 0x400 } (enc8301 (fillA 0) 0x1234 58754 12 34 56 3 true)).2 := by decide

/-- The reception a format 1 packet of the sender specification constitutes for the CNI debounce is the transmitted
    CNI: with `event_values_faithful` (Props/C13.lean) every NETWORK / NETWORK_ID event of that packet carries it. -/
theorem event_values_faithful_8301_cni (mask : Nat) (fill : Nat → Nat) (cni mjd hh mm ss l : Nat) (neg : Bool)
    (hc : cni < 65536) (v : Nat)
    (h : lineCni mask (.ttx (enc8301 fill cni mjd hh mm ss l neg)) = some (.p8301, v)) : v = cni := by
  have e := ttxCni_p8301 mask _ v h
  rw [Zvbi.Props.C12.p8301_cni_roundtrip fill cni mjd hh mm ss l neg hc] at e
  exact e

example : lineCni 0x108 (.ttx (enc8301 (fillA 0) 0x1234 58754 12 34 56 3 true)) = some (.p8301, 0x1234) := by decide

/-! ## the ASPECT event of `vbi_chsw_reset` -/

/-- Every field of the ASPECT event `vbi_chsw_reset` raises, for every state and every argument: it is raised iff an
    aspect source is recorded, exactly once, and says "full format, ratio 1.0, no film mode, subtitles unknown" with
    the active lines of the 625-line system (23..310) for source 1 and of the 525-line system (22..262) otherwise. -/
theorem reset_aspect_event_faithful (s : State) (id : Nat) :
    (∀ a, Ev.aspect a ∈ (chswReset s id).2 ↔ (s.aspectSource > 0 ∧ a = chswAspect s.aspectSource)) ∧
    chswAspect 1 = { first := 23, last := 310, ratio := 1, film := 0, subt := VBI_SUBT_UNKNOWN } ∧
    (∀ src, src ≠ 1 → chswAspect src = { first := 22, last := 262, ratio := 1, film := 0, subt := VBI_SUBT_UNKNOWN }) ∧
    (chswReset s id).1.aspectSource = 0 := by
  refine ⟨fun a => chswReset_aspect_events s id a, by decide, ?_, chswReset_src s id⟩
  intro src h
  simp [chswAspect, h]

example : (chswReset { init with aspectSource := 2 } 0).2 = [Ev.aspect { first := 22, last := 262, ratio := 1, film := 0, subt := 3 }] := by
  decide

/-- Along EVERY history from the initial state (all line kinds, time-outs, channel switches, handler registrations, in
    any order) the ASPECT event of a reset names the system of the line that stored the aspect ratio being forgotten:
    lines 23..310 exactly when that was a WSS-625 word, lines 22..262 exactly when it was a CPR-1204 word; the other
    three fields are constant.  (`aspect_source` is 0, 1 or 2 on every reachable state: invariant `SrcInv`.) -/
theorem reset_aspect_names_the_storing_carrier (cfg : Cfg) (atoms : List Atom) (id : Nat) (a : Aspect)
    (h : Ev.aspect a ∈ (chswReset (runAtoms cfg init atoms).1 id).2) :
    a.ratio = 1 ∧ a.film = 0 ∧ a.subt = VBI_SUBT_UNKNOWN ∧
    (((∃ b0 b1, (runAtoms cfg init atoms).1.aspect = wssAspect b0 b1) ∧ a.first = 23 ∧ a.last = 310) ∨
     ((∃ b0, (runAtoms cfg init atoms).1.aspect = cprAspect b0) ∧ a.first = 22 ∧ a.last = 262)) := by
  have inv := runAtoms_srcInv cfg atoms init (Or.inl rfl)
  obtain ⟨hs, ha⟩ := (chswReset_aspect_events _ id a).mp h
  rcases inv with h0 | ⟨h1, w⟩ | ⟨h2, w⟩
  · rw [h0] at hs
    exact absurd hs (by decide)
  · rw [h1] at ha
    rw [ha]
    exact ⟨rfl, rfl, rfl, Or.inl ⟨w, by decide, by decide⟩⟩
  · rw [h2] at ha
    rw [ha]
    exact ⟨rfl, rfl, rfl, Or.inr ⟨w, by decide, by decide⟩⟩

-- non-vacuity: a CPR-1204 word, then a channel switch: the time-out reset announces 22..262
example : (runAtoms cfgE init [.mask 0x40, .tick 1000000, .line 1000000 (.cpr 0x80), .chsw, .tick 1040000]).2 =
    [Ev.aspect (cprAspect 0x80), Ev.progInfo (cprAspect 0x80),
     Ev.aspect { first := 22, last := 262, ratio := 1, film := 0, subt := 3 }] := by decide

/-- No history reaches an `aspect_source` other than 0, 1, 2 (XDS aspect packets are not fed). -/
theorem aspect_source_range (cfg : Cfg) (atoms : List Atom) : (runAtoms cfg init atoms).1.aspectSource ≤ 2 := by
  rcases runAtoms_srcInv cfg atoms init (Or.inl rfl) with h | ⟨h, _⟩ | ⟨h, _⟩ <;> rw [h] <;> decide

example : (runAtoms cfgE init [.line 0 (.cpr 0)]).1.aspectSource = 2 := by decide

/-! ## WSS-625 and CPR-1204 words: ASPECT and PROG_INFO -/

/-- A CPR-1204 word (no error protection, no repeat counter in the code) raises nothing when it encodes the stored
    record, else ASPECT followed by PROG_INFO, both with the record the word encodes (bit 7: anamorphic, bit 6:
    letterbox lines 72..212, else 22..262), and records source 2. -/
theorem event_values_faithful_cpr (s : State) (b0 : Nat) :
    ((rxCpr s b0).2 = [] ∧ cprAspect b0 = s.aspect ∧ (rxCpr s b0).1 = s) ∨
    ((rxCpr s b0).2 = [Ev.aspect (cprAspect b0), Ev.progInfo (cprAspect b0)] ∧ cprAspect b0 ≠ s.aspect ∧
     (rxCpr s b0).1.aspect = cprAspect b0 ∧ (rxCpr s b0).1.aspectSource = 2) := rxCpr_events s b0

example : cprAspect 0xC0 = { first := 72, last := 212, ratio := 2, film := 0, subt := 3 } := by decide

/-- PROG_INFO is never raised alone and never with another record than the ASPECT event before it: a WSS-625 word
    raises nothing or exactly ASPECT, PROG_INFO with the aspect the word encodes. -/
theorem prog_info_follows_aspect (s : State) (b0 b1 t : Nat) :
    (rxWss s b0 b1 t).2 = [] ∨ (rxWss s b0 b1 t).2 = [Ev.aspect (wssAspect b0 b1), Ev.progInfo (wssAspect b0 b1)] :=
  rxWss_events s b0 b1 t

example : (rxWss { init with wssLast := (0x0B, 0), wssRep := 2 } 0x0B 0 5).2 =
    [Ev.aspect (wssAspect 0x0B 0), Ev.progInfo (wssAspect 0x0B 0)] := by decide

/-! ## the network name -/

/-- Every name of the station table of this tree (regenerated from src/network-table.h on every run) is at most 62
    bytes long, so `strlcpy (n->name, name, sizeof (n->name) - 1)` in the three CNI paths never truncates: the name
    in a NETWORK / NETWORK_ID event (`lkName` = first 62 bytes) is the complete table name.  (Consequence for the
    mutation run: a wrong size argument there is unobservable with this table.) -/
theorem table_names_fit : cniTable.all (fun e => e.name.length ≤ 62) = true := by decide +kernel

example : cniTable.length = cniTableSize := by decide +kernel

end Zvbi.Props.C13Ev
