import ZvbiModel.Slicer.Model
import ZvbiModel.Slicer.Spec
import ZvbiModel.Slicer.Lemmas
import ZvbiModel.Slicer.LemmasLegacy
import ZvbiModel.Slicer.LemmasDecode
import ZvbiModel.Slicer.LemmasRows
/-!
# C05 - raw decoding never touches memory outside the raw image or the output array

Property theorems only; the model is `Slicer/Model.lean`, helper lemmas are in `Slicer/Lemmas*.lean`.

`setParams tight p` is `vbi3_bit_slicer_set_params`, `legacyInit tight p` is `vbi_bit_slicer_init`:
`tight = false` is the arithmetic of zvbi 0.2.x as released, `tight = true` the arithmetic with
`fixes/slicer-lookahead.diff`.  Which one /repo contains is `Generated.ServiceTable.slicerTight /
legacyTight` (checked numerically by the correspondence ops on every run).  For the released
arithmetic the full-strength statements are FALSE (`*_counterexample`, replayed on the C code by
`corpus/C05/*.ops`) and are kept as `*_partial` with the slack hypothesis; for the repaired
arithmetic they are proved at full strength.

An image enters only through `Outcome` (CRI never found / found in iteration k with FRC mismatch /
found in iteration k): quantifying over all admissible outcomes covers all image contents.
-/
namespace Zvbi.Props.C05
open Zvbi.Slicer Zvbi.Generated.ServiceTable

/-! ## one line through `vbi3_bit_slicer_slice` -/

/-- The CRI search itself (and the start-up window of the low-pass slicer) never reads outside the line -
    for the released and for the repaired search limit, every accepted parameter set, every image. -/
theorem cri_loop_reads_in_line (tight : Bool) (p : Params) (c : Cfg) (h : setParams tight p = .ok c) (hs : p.Sane) :
    ∀ x ∈ sliceReads c .noCri, x < p.spl * c.bpp := by
  have key : ∀ c0, setParams0 p = .ok c0 → ∀ m, m ≤ c0.criSamples → ∀ c1 : Cfg, Geom p c1 → c1.kind = c0.kind →
      ∀ x ∈ initReads c1 ++ (List.range m).flatMap (criReads c1), x < p.spl * c1.bpp := by
    intro c0 h0 m hm c1 hg hk
    have hf := orig_facts h0 hs
    have hd := dataBits_pos hs
    have hw := width_pos hg hs.fmt
    apply searchReads_lt hg hw
    · rw [hk]
      cases hkk : c0.kind
      · simp only; have := hf.criSamples_le; have := hf.ds_ge; omega
      · simp only; have := hf.criSamples_le; have := hf.ds_lp hkk; omega
    · intro hl
      have := hf.ds_lp (hk ▸ hl); have := hf.fit; omega
  cases tight with
  | false =>
    have h0 := setParams_false.1 h
    exact key c h0 c.criSamples (Nat.le_refl _) c (geom_of_ok h0 hs.fmt hs.bpp) rfl
  | true =>
    obtain ⟨c0, h0, ht⟩ := setParams_true.1 h
    obtain ⟨_, hc⟩ := tighten_ok ht
    have hg := geom_tighten (geom_of_ok h0 hs.fmt hs.bpp) ht
    have hle : c.criSamples ≤ c0.criSamples := by rw [hc]; exact Nat.min_le_left _ _
    have hk : c.kind = c0.kind := by rw [hc]
    exact key c0 h0 c.criSamples hle c hg hk

example : ∃ c, setParams false Spec.teletextB_13_5 = .ok c ∧ c.criSamples = 55 := ⟨_, rfl, rfl⟩

/-- FULL STRENGTH, repaired limit: whatever the image, wherever the CRI is recognised, with or without FRC
    match, for the template slicers and the low-pass slicer alike, every byte read lies inside the
    `samples_per_line` pixels of the line.  No hypothesis on the caller beyond a known pixel format. -/
theorem payload_reads_in_line (p : Params) (c : Cfg) (h : setParams true p = .ok c) (hf : p.fmt.WF) (hb : p.fmt.bpp ≤ 4)
    (oc : Outcome) (hoc : oc.admissible c) : ∀ x ∈ sliceReads c oc, x < p.spl * c.bpp := by
  obtain ⟨c0, h0, ht⟩ := setParams_true.1 h
  obtain ⟨hla, hc⟩ := tighten_ok ht
  have hg := geom_tighten (geom_of_ok h0 hf hb) ht
  have hw := width_pos hg hf
  have hla' : lookAhead c.kind c.phaseShift c.step c.nBits = lookAhead c0.kind c0.phaseShift c0.step c0.nBits := by
    rw [hc]; rfl
  apply sliceReads_lt hg hw _ _ oc hoc
  · rw [hla', hc]; show min c0.criSamples _ + _ + _ ≤ _; omega
  · rw [hla']; exact hla

example : (setParams true Spec.teletextB_13_5).toOption = some { Spec.teletextB_13_5_cfg with criSamples := 54 } ∧
    Outcome.admissible { Spec.teletextB_13_5_cfg with criSamples := 54 } (.found 53) := by decide +kernel

/-- The same in the closed form of DESIGN.md: the last byte of the interpolation neighbour of the last payload
    bit, for the search stopped at any admitted position `k`. -/
theorem payload_last_index_in_line (p : Params) (c : Cfg) (h : setParams true p = .ok c) (hf : p.fmt.WF) (hb : p.fmt.bpp ≤ 4)
    (hk : c.kind = .core) (k : Nat) (hkc : k < c.criSamples) :
    c.skip + (k + (c.phaseShift + (p.frcBits + p.payloadBits - 1) * c.step) / 256 + 1) * c.bpp + c.width - 1
      < p.spl * c.bpp := by
  obtain ⟨c0, h0, ht⟩ := setParams_true.1 h
  obtain ⟨hla, hc⟩ := tighten_ok ht
  have hg := geom_tighten (geom_of_ok h0 hf hb) ht
  have hw := width_pos hg hf
  have hn : c0.nBits = p.frcBits + p.payloadBits := nBits_eq h0
  have hk0 : c0.kind = .core := by rw [hc] at hk; exact hk
  have e1 : c.phaseShift = c0.phaseShift := by rw [hc]
  have e2 : c.step = c0.step := by rw [hc]
  have e3 : c.criSamples ≤ p.spl - p.offset - lookAhead c0.kind c0.phaseShift c0.step c0.nBits := by
    rw [hc]; exact Nat.min_le_right _ _
  rw [hk0, hn] at hla e3
  unfold lookAhead lastBitSample at hla e3
  simp only at hla e3
  rw [e1, e2]
  have := pix_lt hg (m := k + (c0.phaseShift + (p.frcBits + p.payloadBits - 1) * c0.step) / 256 + 1) (j := c.width - 1)
    (by omega) (by omega)
  omega

/-- The low-pass variant in closed form: the last sample of the 16 sample window of the last payload bit. -/
theorem lowpass_last_index_in_line (p : Params) (c : Cfg) (h : setParams true p = .ok c) (hf : p.fmt.WF) (hb : p.fmt.bpp ≤ 4)
    (hk : c.kind = .lowpass) (k : Nat) (hkc : k < c.criSamples) :
    c.skip + (k + 1 + (c.phaseShift + (p.frcBits + p.payloadBits - 1) * c.step) / 256 + 15) * c.bpp < p.spl * c.bpp := by
  obtain ⟨c0, h0, ht⟩ := setParams_true.1 h
  obtain ⟨hla, hc⟩ := tighten_ok ht
  have hg := geom_tighten (geom_of_ok h0 hf hb) ht
  have hw := width_pos hg hf
  have hn : c0.nBits = p.frcBits + p.payloadBits := nBits_eq h0
  have hk0 : c0.kind = .lowpass := by rw [hc] at hk; exact hk
  have e1 : c.phaseShift = c0.phaseShift := by rw [hc]
  have e2 : c.step = c0.step := by rw [hc]
  have e3 : c.criSamples ≤ p.spl - p.offset - lookAhead c0.kind c0.phaseShift c0.step c0.nBits := by
    rw [hc]; exact Nat.min_le_right _ _
  rw [hk0, hn] at hla e3
  unfold lookAhead lastBitSample at hla e3
  simp only at hla e3
  rw [e1, e2]
  have := pix_lt hg (m := k + 1 + (c0.phaseShift + (p.frcBits + p.payloadBits - 1) * c0.step) / 256 + 15) (j := 0)
    (by omega) hw
  omega

/-- Released limit, PARTIAL: the statement of `payload_reads_in_line` under the slack hypothesis that the
    look-ahead of the payload loop is covered by the `data_samples` the search limit leaves.
    Without the hypothesis the statement is false: `payload_reads_in_line_counterexample`. -/
theorem payload_reads_in_line_partial (p : Params) (c : Cfg) (h : setParams false p = .ok c) (hs : p.Sane)
    (hslack : lookAhead c.kind c.phaseShift c.step c.nBits ≤ dataSamples p)
    (oc : Outcome) (hoc : oc.admissible c) : ∀ x ∈ sliceReads c oc, x < p.spl * c.bpp := by
  have h0 := setParams_false.1 h
  have hg := geom_of_ok h0 hs.fmt hs.bpp
  have hfa := orig_facts h0 hs
  apply sliceReads_lt hg (width_pos hg hs.fmt) _ _ oc hoc
  · have := hfa.criSamples_le; omega
  · have := hfa.fit; have := hfa.cs0_pos; omega

example : ∃ c, setParams false Spec.caption525_13_5 = .ok c ∧
    lookAhead c.kind c.phaseShift c.step c.nBits ≤ dataSamples Spec.caption525_13_5 := ⟨_, rfl, by decide⟩

/-- The full-strength statement for the released limit, kept visible; it is refuted below. -/
def payload_reads_in_line_released_full : Prop :=
  ∀ (p : Params) (c : Cfg), setParams false p = .ok c → p.Sane →
    ∀ oc : Outcome, oc.admissible c → ∀ x ∈ sliceReads c oc, x < p.spl * c.bpp

/-- F7: Teletext B at 13.5 MHz with 720 samples per line (Y8).  The released `set_params` accepts, admits the CRI
    in search iteration 54, and the interpolation neighbour of the last payload bit is then read at byte 720 =
    `samples_per_line * bpp`.  Replayed on the C code by corpus/C05/F7-teletext-b-13_5MHz.ops (ASan:
    heap-buffer-overflow READ 1, bit_slicer.c:284, 0 bytes right of the 720 byte line). -/
theorem payload_reads_in_line_counterexample : ¬ payload_reads_in_line_released_full := by
  intro hfull
  have h := hfull Spec.teletextB_13_5 _ (rfl : setParams false Spec.teletextB_13_5 = .ok Spec.teletextB_13_5_cfg)
    Spec.teletextB_13_5_sane (.found 54) (by decide) 720 (by decide +kernel)
  exact absurd h (by decide)

/-- F7, low-pass slicer: Closed Caption 525 at 27 MHz with 1440 samples per line selects
    `low_pass_bit_slicer_Y8`; with the CRI found in the last admitted iteration (581) the 16 sample window of the
    last payload bit reaches byte 1442.  Replayed by corpus/C05/F7-caption-525-27MHz-lowpass.ops. -/
theorem lowpass_reads_in_line_counterexample : ¬ payload_reads_in_line_released_full := by
  intro hfull
  have h := hfull Spec.caption525_27 _ (rfl : setParams false Spec.caption525_27 = .ok Spec.caption525_27_cfg)
    Spec.caption525_27_sane (.found 581) (by decide) 1442 (by decide +kernel)
  exact absurd h (by decide)

/-- Under the caller obligations the search always has at least one position (so the `0 == --i` loop of the
    low-pass slicer cannot wrap), for both limits when the repaired one accepts. -/
theorem search_nonempty (tight : Bool) (p : Params) (c : Cfg) (h : setParams tight p = .ok c) (hs : p.Sane) :
    0 < c.criSamples := by
  cases tight with
  | false => exact (orig_facts (setParams_false.1 h) hs).criSamples_pos
  | true =>
    obtain ⟨c0, h0, ht⟩ := setParams_true.1 h
    obtain ⟨hla, hc⟩ := tighten_ok ht
    have := (orig_facts h0 hs).criSamples_pos
    rw [hc]; show 0 < min c0.criSamples _; omega

/-! ## the legacy slicer of decoder.c -/

/-- FULL STRENGTH, repaired `vbi_bit_slicer_init`: every byte `vbi_bit_slice` reads lies inside the
    `raw_samples` pixels of the line - any image, any parameters (the repaired limit also clamps at zero, so
    even `raw_samples` too small for the payload is safe). -/
theorem legacy_reads_in_line (p : LParams) (hs : p.Sane) (oc : Outcome) (hoc : oc.ladmissible (legacyInit true p)) :
    ∀ x ∈ lsliceReads (legacyInit true p) oc, x < p.rawSamples * p.fmt.stride :=
  lsliceReads_lt (c := legacyInit true p) hs.fmt (legacy_tight_room p hs.raw) oc hoc

example : Outcome.ladmissible (legacyInit true Spec.legacyTeletextB_13_5) (.found 53) := by decide

/-- Released `vbi_bit_slicer_init`, PARTIAL: holds when the caller supplies enough samples for FRC + payload
    (there is no failure path) and the look-ahead is covered by `data_samples`. -/
theorem legacy_reads_in_line_partial (p : LParams) (hs : p.Sane)
    (hds : p.rate * (p.payloadBits + p.frcBits) / p.bitRate ≤ p.rawSamples)
    (hslack : lastBitSample (legacyInit false p).phaseShift (legacyInit false p).step (legacyInit false p).nBits + 1
      ≤ p.rate * (p.payloadBits + p.frcBits) / p.bitRate)
    (oc : Outcome) (hoc : oc.ladmissible (legacyInit false p)) :
    ∀ x ∈ lsliceReads (legacyInit false p) oc, x < p.rawSamples * p.fmt.stride := by
  apply lsliceReads_lt (c := legacyInit false p) hs.fmt _ oc hoc
  right
  rw [legacy_orig_iterations p hs.raw hds]
  omega

/-- F7 in the legacy slicer: same numbers, byte 720 of a 720 byte line
    (corpus/C05/F7-legacy-teletext-b.ops). -/
theorem legacy_reads_in_line_counterexample :
    ¬ (∀ (p : LParams), p.Sane → p.rate * (p.payloadBits + p.frcBits) / p.bitRate ≤ p.rawSamples →
        ∀ oc : Outcome, oc.ladmissible (legacyInit false p) →
        ∀ x ∈ lsliceReads (legacyInit false p) oc, x < p.rawSamples * p.fmt.stride) := by
  intro hfull
  have h := hfull Spec.legacyTeletextB_13_5 Spec.legacyTeletextB_13_5_sane (by decide) (.found 54) (by decide)
    720 (by decide +kernel)
  exact absurd h (by decide)

/-! ## `vbi3_raw_decoder_decode` -/

/-- Every line pointer handed to `decode_pattern` is the start of a row of the image (also with interlaced
    pitch and the field-2 reset), and a whole `bytes_per_line` row from there stays inside the
    `(count[0]+count[1]) * bytes_per_line` image - for every `max_lines` and whatever the rows contain. -/
theorem decode_reads_in_image (sp : Sp) (b : Nat) (hv : sp.valid b) (maxLines : Nat) (hit : Nat → Bool) :
    ∀ v ∈ (decode sp maxLines hit).visited,
      v.1 < sp.scanLines ∧ v.2 = lineOffset sp v.1 ∧ v.2 + sp.bpl ≤ sp.imageBytes := by
  intro v hv'
  have h := (dinv_decode sp maxLines hit).visited v hv'
  exact ⟨h.1, h.2, by rw [h.2]; exact line_in_image hv h.1⟩

example : (decode ⟨2, 2, 10, true⟩ 4 (fun _ => true)).visited = [(0, 0), (1, 20), (2, 10), (3, 30)] := by decide

/-- At most `max_lines` records are written: every output slot handed to a slicer has index `< max_lines`, the
    returned count is `<= max_lines` and `<=` the number of rows - for every image (`hit` arbitrary). -/
theorem decode_writes_le_max_lines (sp : Sp) (maxLines : Nat) (hit : Nat → Bool) :
    (∀ k ∈ (decode sp maxLines hit).slots, k < maxLines) ∧ (decode sp maxLines hit).n ≤ maxLines ∧
    (decode sp maxLines hit).n ≤ sp.scanLines :=
  let h := dinv_decode sp maxLines hit
  ⟨h.slots, h.n_le, h.n_le_rows⟩

example : (decode ⟨3, 2, 10, false⟩ 2 (fun _ => true)).n = 2 := by decide

/-- Every service table row fits a `vbi_sliced` record: the bytes a successful slice stores are at most
    `sizeof (sliced->data)` and the `payload > buffer_size * 8` test of `vbi3_bit_slicer_slice` passes. -/
theorem payload_fits_record : ∀ r ∈ usableRows,
    (if r.payload % 8 ≠ 0 then r.payload / 8 + 1 else r.payload / 8) ≤ slicedDataSize ∧ r.payload ≤ slicedDataSize * 8 := by
  intro r hr
  have h := rows_sane r hr
  exact ⟨h.2.2.2.2.2.2.2.2.2.1, h.2.2.2.2.2.2.2.2.2.2⟩

example : usableRows.length = 16 ∧ slicedDataSize = 56 := by decide

/-- The bytes a configured slicer stores on success are exactly what `payload_fits_record` bounds. -/
theorem bytes_written_fit (r : Row) (hr : r ∈ usableRows) (fmt : Fmt) (rate spl : Nat) (tight : Bool) (c : Cfg)
    (h : setParams tight (rowParams r fmt rate spl) = .ok c) : bytesWritten c ≤ slicedDataSize ∧ bufferRefused c slicedDataSize = false := by
  have hfit := payload_fits_record r hr
  have hcfg : ∃ c0, setParams0 (rowParams r fmt rate spl) = .ok c0 ∧ c.payload = c0.payload ∧ c.endian = c0.endian := by
    cases tight with
    | false => exact ⟨c, setParams_false.1 h, rfl, rfl⟩
    | true =>
      obtain ⟨c0, h0, ht⟩ := setParams_true.1 h
      obtain ⟨_, hc⟩ := tighten_ok ht
      exact ⟨c0, h0, by rw [hc], by rw [hc]⟩
  obtain ⟨c0, h0, e1, e2⟩ := hcfg
  obtain ⟨_, _, _, _, _, _, _, _, _, _, hc0⟩ := setParams0_ok h0
  have ep : c0.payload = (payloadOf (rowParams r fmt rate spl)).1 := by rw [hc0]
  have ee : c0.endian = (payloadOf (rowParams r fmt rate spl)).2 := by rw [hc0]
  unfold bytesWritten bufferRefused
  rw [e1, e2, ep, ee]
  simp only [payloadOf, rowParams]
  have h1 := hfit.1; have h2 := hfit.2
  by_cases h8 : r.payload % 8 = 0 <;> by_cases hm : r.modulation % 2 = 1 <;> simp [h8, hm] at h1 ⊢ <;> omega

/-! ## the service table, every admitted sampling rate -/

/-- The repaired limit never turns an accepted service into a rejected one (which would hit
    `assert (!"bit_slicer_set_params")` in `add_services`): for every table row, every pixel format, every sampling
    rate `permit_service` admits and every line length the released `set_params` accepts, the repaired one
    accepts too, changes nothing but `cri_samples`, and keeps at least one search position. -/
theorem rows_tight_never_rejects (r : Row) (hr : r ∈ usableRows) (fmt : Fmt) (hf : fmt.WF) (hb : fmt.bpp ≤ 4)
    (rate spl : Nat) (hrate : rate < U32) (hperm : permitRate r rate = true) (c0 : Cfg)
    (h0 : setParams false (rowParams r fmt rate spl) = .ok c0) :
    ∃ c, setParams true (rowParams r fmt rate spl) = .ok c ∧ 0 < c.criSamples ∧ c.criSamples ≤ c0.criSamples ∧
      c = { c0 with criSamples := c.criSamples } := by
  have h0' := setParams_false.1 h0
  have hroom := row_room hr hrate hperm h0'
  have hs := row_sane_params (rows_sane r hr) hf hb spl hrate
  have hfa := orig_facts h0' hs
  have hfit := hfa.fit
  have hnot : ¬ ((rowParams r fmt rate spl).offset + lookAhead c0.kind c0.phaseShift c0.step c0.nBits ≥ (rowParams r fmt rate spl).spl) := by
    omega
  refine ⟨{ c0 with criSamples := min c0.criSamples ((rowParams r fmt rate spl).spl - (rowParams r fmt rate spl).offset
      - lookAhead c0.kind c0.phaseShift c0.step c0.nBits) }, ?_, ?_, Nat.min_le_left _ _, rfl⟩
  · apply setParams_true.2
    refine ⟨c0, h0', ?_⟩
    unfold tighten
    simp only [hnot, if_false]
  · have := hfa.criSamples_pos
    show 0 < min c0.criSamples _
    omega

example : permitRate Spec.rowTeletextB 13500000 = true ∧ Spec.rowTeletextB ∈ usableRows := by decide

/-- The caller obligations hold for everything `add_services` passes to `set_params`, at any 32 bit sampling rate. -/
theorem rows_sane_params (r : Row) (hr : r ∈ usableRows) (fmt : Fmt) (hf : fmt.WF) (hb : fmt.bpp ≤ 4) (rate spl : Nat)
    (hrate : rate < U32) : (rowParams r fmt rate spl).Sane :=
  row_sane_params (rows_sane r hr) hf hb spl hrate

/-- End to end for the raw decoder with the repaired limit: for every service table row, pixel format, sampling
    rate, valid sampling parameters, `max_lines`, and every image (every `hit`, every search outcome on every row),
    each byte the slicer of that service reads lies inside the `(count[0]+count[1]) * bytes_per_line` image. -/
theorem decode_slicer_reads_in_image (r : Row) (fmt : Fmt) (hf : fmt.WF) (hb : fmt.bpp ≤ 4)
    (rate : Nat) (sp : Sp) (hv : sp.valid fmt.bpp) (c : Cfg)
    (h : setParams true (rowParams r fmt rate (sp.bpl / fmt.bpp)) = .ok c)
    (maxLines : Nat) (hit : Nat → Bool) (v : Nat × Nat) (hvis : v ∈ (decode sp maxLines hit).visited)
    (oc : Outcome) (hoc : oc.admissible c) : ∀ x ∈ sliceReads c oc, v.2 + x < sp.imageBytes := by
  intro x hx
  have h1 := payload_reads_in_line _ c h hf hb oc hoc x hx
  have h2 := (decode_reads_in_image sp fmt.bpp hv maxLines hit v hvis).2.2
  obtain ⟨c0, h0, ht⟩ := setParams_true.1 h
  have hg := geom_tighten (geom_of_ok h0 hf hb) ht
  have h3 : (rowParams r fmt rate (sp.bpl / fmt.bpp)).spl * c.bpp ≤ sp.bpl := by
    rw [hg.bpp]; exact spl_bytes_le_bpl sp.bpl fmt.bpp
  omega

/-- Every pixel format `set_params` knows has its sampled bytes inside the pixel, and its `bytes_per_sample`
    equals `VBI_PIXFMT_BPP` (the divisor `add_services` uses for `samples_per_line`). -/
theorem formats_well_formed : ∀ t ∈ pixfmts, Spec.FormatOk t := by decide

example : fmtOfName "UYVY" = some ⟨2, 1, 1, true⟩ := rfl

end Zvbi.Props.C05
