import ZvbiModel.Fmt.LemmasStd2
import ZvbiModel.Fmt.Ext
import ZvbiModel.Props.C02
import ZvbiModel.Ttx.Roundtrip1
/-!
# Property C02, round 5: how far the refinement to the STANDARD's rules reaches, and X/28 at Level 1

`C02.format_refines_L1Spec_full` (every cell = `L1Spec.cell .std`) is false because of the held-mosaic reset rule
(known finding F37).  Round 1 proved it for all attributes but the character (`..._partial`) and for pages without any
reset event (`..._noReset`).  Review of what those two leave out without need:

* a page with one reset event anywhere was excluded as a whole.  `format_refines_L1Spec_no_stale_hold`: every cell up to
  the first mode / size change OF ITS OWN ROW that follows a captured mosaic equals the standard's cell in all seven attributes
  (lower halves of double-height rows: the row above decides);
* `format_refines_L1Spec_unless_blank_held`: every cell where the standard does not show the blank held mosaic
  U+EE20 equals the standard's cell in all attributes - all text, all mosaics, all held mosaics that the standard
  keeps, double height / width / size cells and their lower / right halves, boxed and transparent cells on
  newsflash / subtitle / inhibit-display pages (`flags` is quantified), concealed cells (the fetched cell carries the
  character AND the conceal flag; blanking under "reveal off" is done by the exporters, not by the fetch), every
  national option subset and G0 set (`national`, `charset0/1` quantified).
* the remaining deviation is exactly F37: `format_std_deviation_shape`.

X/28 / M/29 at Level 1: the join `C02.fetch` formatted every cached page with the default magazine's extension
(`charset_code = {default region, 0}`, CLUT offsets 0).  teletext.c does that only for pages WITHOUT X/28/0 and X/28/4:
`if (vtp->x28_designations & 0x11) ext = &vtp->data.ext_lop.ext` holds at every level, so a page's own character set
designation and CLUT offsets apply at Level 1 too (M/29 never does at Level 1/1.5: `vt.default_magazine`).  The model
`Fmt.pageInX` follows that selection (correspondence op `fmtx`); `fetchX_refines_L1Spec` is the join for EVERY packet
history including X/28 packets, `fetchX_eq_fetch_without_x28` shows last rounds' theorem is its X/28-free instance.
-/
namespace Zvbi.Props.C02Std
open Zvbi.Fmt Zvbi.Fmt.L1Spec Zvbi.Props.C02

/-- **format_refines_L1Spec_unless_blank_held**: for every page and cell, if the standard's cell is not the blank
held mosaic U+EE20, the formatted cell IS the standard's cell (unicode, fg, bg, flash, conceal, size, opacity). -/
theorem format_refines_L1Spec_unless_blank_held (p : PageIn) (row col : Nat) (hr : row < 25) (hc : col < 40)
    (h : (L1Spec.cell .std p row col).unicode ≠ 0xEE20) :
    cellAt (format p) row col = L1Spec.cell .std p row col :=
  cell_eq_of_rel _ _ (format_refines_L1Spec_partial p row col hr hc) h

/-- non-vacuity: on the F37 witness the cell after the stale one (a mosaic character) is the standard's -/
example : cellAt (format heldWitness) 1 1 = L1Spec.cell .std heldWitness 1 1 :=
  format_refines_L1Spec_unless_blank_held heldWitness 1 1 (by decide) (by decide) (by decide +kernel)

/-- **format_refines_L1Spec_no_stale_hold**: a cell whose deciding row (`srcRow`: the row itself, or the row above
for the lower half of a double-height row) has, at the columns `0..col`, no change of alpha/mosaics mode or of size
AFTER a mosaic character was captured (`ResetBeforeCapture`; in particular: no such change at all, `NoResetUpto`)
equals the standard's cell in every attribute - whatever the rest of the row and the other rows contain. -/
theorem format_refines_L1Spec_no_stale_hold (p : PageIn) (row col : Nat) (hr : row < 25) (hc : col < 40)
    (h : ResetBeforeCapture (rowCtx p (srcRow p row)) col) :
    cellAt (format p) row col = L1Spec.cell .std p row col := by
  rw [format_cellAt p row col hr hc, cell_eq_of_rbc p row col h]

/-- non-vacuity: row 1 of the F37 witness switches to mosaics at column 0 (a reset event, nothing captured yet),
    captures a block at column 1, holds at column 2, changes mode at column 3: columns 0..2 are covered - including
    the held-mosaic cell at column 2 - while the page as a whole is NOT covered by `format_refines_L1Spec_noReset` -/
example : ResetBeforeCapture (rowCtx heldWitness (srcRow heldWitness 1)) 2
    ∧ (cellAt (format heldWitness) 1 2).unicode = 0xEE7F
    ∧ ¬ (∀ r, r < 25 → NoHeldReset (rowCtx heldWitness r)) := by
  refine ⟨?_, by decide +kernel, ?_⟩
  · have : ∀ j, j ≤ 2 → (heldResetAfter (rowCtx heldWitness (srcRow heldWitness 1)) j = true
        ∨ heldResetAt (rowCtx heldWitness (srcRow heldWitness 1)) j = true) →
        ∀ i, i ≤ j → heldCapture (rowCtx heldWitness (srcRow heldWitness 1)) i = none := by decide +kernel
    exact this
  · intro h
    have := (h 1 (by decide) 3 (by decide)).1
    revert this
    decide +kernel

/-- **format_std_deviation_shape**: wherever the formatted cell differs from the standard's, the standard shows the
blank mosaic U+EE20, the library a different character, all other attributes agree, and the deciding row has, at or
before that column, a mosaic character captured and then a change of alpha/mosaics mode or of size (finding F37 and
nothing else). -/
theorem format_std_deviation_shape (p : PageIn) (row col : Nat) (hr : row < 25) (hc : col < 40)
    (hne : cellAt (format p) row col ≠ L1Spec.cell .std p row col) :
    (L1Spec.cell .std p row col).unicode = 0xEE20
    ∧ cellAt (format p) row col = { L1Spec.cell .std p row col with unicode := (cellAt (format p) row col).unicode }
    ∧ ∃ i j, i ≤ j ∧ j ≤ col ∧ (heldCapture (rowCtx p (srcRow p row)) i).isSome = true
        ∧ (heldResetAfter (rowCtx p (srcRow p row)) j = true ∨ heldResetAt (rowCtx p (srcRow p row)) j = true) := by
  have hrel := format_refines_L1Spec_partial p row col hr hc
  refine ⟨?_, ?_, ?_⟩
  · apply Classical.byContradiction
    intro h
    exact hne (cell_eq_of_rel _ _ hrel h)
  · obtain ⟨h1, h2, h3, h4, h5, h6, _⟩ := hrel
    generalize cellAt (format p) row col = a at *
    generalize L1Spec.cell .std p row col = b at *
    cases a; cases b
    simp only [] at h1 h2 h3 h4 h5 h6
    simp only [Cell.mk.injEq, true_and]
    exact ⟨h1, h2, h3, h4, h5, h6⟩
  · apply Classical.byContradiction
    intro h
    apply hne
    apply format_refines_L1Spec_no_stale_hold p row col hr hc
    intro j hj hreset i hi
    cases hx : heldCapture (rowCtx p (srcRow p row)) i with
    | none => rfl
    | some v => exact absurd ⟨i, j, hi, hj, by rw [hx]; rfl, hreset⟩ h

example : cellAt (format heldWitness) 1 5 ≠ L1Spec.cell .std heldWitness 1 5 := by decide +kernel

/-! ## X/28 at Level 1 -/

/-- the formatter's view of a cached page of the decoder model INCLUDING its X/28 record -/
def pageInOfX (region : Nat) (pg : Zvbi.Ttx.Page) : PageIn :=
  pageInX region pg.pgno pg.subno pg.flags pg.national
    ⟨pg.x28, pg.ext.charset0, pg.ext.charset1, pg.ext.fgClut, pg.ext.bgClut⟩
    (fun i => (pg.raw.getD (i / 40) []).getD (i % 40) 0)

/-- `vbi_fetch_vt_page` at Level 1 / 1.5 over the decoder state, with the extension selection of teletext.c -/
def fetchX (s : Zvbi.Ttx.St) (region pgno subno : Nat) : Option (Nat × Nat × List (List Cell)) :=
  match Zvbi.Ttx.cacheGet (cacheOf s) pgno subno 0xFFFFFFFF with
  | some (pg, _) =>
    if pg.function = Zvbi.Ttx.FN_LOP ∨ pg.function = Zvbi.Ttx.FN_EACEM then
      some (pg.pgno, pg.subno, format (pageInOfX region pg))
    else none
  | none => none

/-- **ext_selection**: the page's own character set codes and CLUT offsets are used exactly when X/28/0 or X/28/4
was received (`x28_designations & 0x11`), otherwise `{default region, 0}` and offsets 0 - at Level 1 and 1.5 an M/29
packet never changes the formatting. -/
theorem ext_selection (region pgno subno flags national : Nat) (e : ExtIn) (raw : Nat → Nat) :
    (e.x28 &&& 0x11 = 0 →
      pageInX region pgno subno flags national e raw
        = { pgno := pgno, subno := subno, flags := flags, national := national, charset0 := region, charset1 := 0,
            fgClut := 0, bgClut := 0, raw := raw })
    ∧ (e.x28 &&& 0x11 ≠ 0 →
      pageInX region pgno subno flags national e raw
        = { pgno := pgno, subno := subno, flags := flags, national := national, charset0 := e.cs0, charset1 := e.cs1,
            fgClut := e.fgClut, bgClut := e.bgClut, raw := raw }) := by
  unfold pageInX ownExt
  constructor
  · intro h; simp [h]
  · intro h; simp [h]

/-- X/28/4 only (bit 4), Cyrillic-2 designation 0x24 with national option 0 and CLUT offsets 8 / 16 on a page of
    region 0: the letter 0x41 of row 1 is fetched as U+0410 in colour 8 + 7 on 16 + 0 -/
example :
    cellAt (format (pageInX 0 0x100 0 0 0 ⟨0x10, 0x24, 0, 8, 16⟩ (fun i => if i = 40 then 0xC1 else 0x20))) 1 0
      = { unicode := 0x0410, fg := 15, bg := 16, size := 0, opacity := 3 }
    ∧ cellAt (format (pageInX 0 0x100 0 0 0 ⟨0x02, 0x24, 0, 8, 16⟩ (fun i => if i = 40 then 0xC1 else 0x20))) 1 0
      = { unicode := 0x41, fg := 7, bg := 0, size := 0, opacity := 3 } := by decide +kernel

/-- **fetchX_refines_L1Spec**: for EVERY packet history (X/28 and M/29 packets included), whenever the fetch succeeds
its page / subpage numbers are the cached ones and every cell is L1Spec of the cached bytes under the character
set designation and CLUT offsets teletext.c selects for that page. -/
theorem fetchX_refines_L1Spec (history : List Zvbi.Ttx.Packet) (region pgno subno : Nat)
    (rp rs : Nat) (rows : List (List Cell))
    (h : fetchX (history.foldl (fun s pk => (Zvbi.Ttx.step s pk).1) (Zvbi.Ttx.init.enable true)) region pgno subno
          = some (rp, rs, rows)) :
    ∃ pg rest, Zvbi.Ttx.cacheGet (cacheOf (history.foldl (fun s pk => (Zvbi.Ttx.step s pk).1) (Zvbi.Ttx.init.enable true)))
        pgno subno 0xFFFFFFFF = some (pg, rest)
      ∧ rp = pg.pgno ∧ rs = pg.subno
      ∧ ∀ row col, row < 25 → col < 40 → cellAt rows row col = L1Spec.cell .lib (pageInOfX region pg) row col := by
  unfold fetchX at h
  split at h
  · rename_i pg rest hget
    split at h
    · cases h
      exact ⟨pg, rest, hget, rfl, rfl, fun row col hr hc => format_cellAt _ row col hr hc⟩
    · cases h
  · cases h

example : fetchX (Zvbi.Ttx.init.enable true) 0 0x100 0 = none := by decide +kernel

/-- **fetchX_eq_fetch_without_x28**: on a state whose cached pages carry neither X/28/0 nor X/28/4 the fetch of the
earlier rounds (`C02.fetch`, default extension) is the same function. -/
theorem fetchX_eq_fetch_without_x28 (s : Zvbi.Ttx.St) (region pgno subno : Nat)
    (h : ∀ pg ∈ cacheOf s, pg.x28 &&& 0x11 = 0) : fetchX s region pgno subno = fetch s region pgno subno := by
  unfold fetchX fetch fetchCache
  cases hg : Zvbi.Ttx.cacheGet (cacheOf s) pgno subno 0xFFFFFFFF with
  | none => rfl
  | some r =>
    obtain ⟨pg, rest⟩ := r
    have hmem : pg ∈ cacheOf s := by
      unfold Zvbi.Ttx.cacheGet at hg
      split at hg
      · cases hg
      · rw [Zvbi.Ttx.cacheFind_eq] at hg
        split at hg
        · rename_i q hq
          simp only [Option.some.injEq, Prod.mk.injEq] at hg
          rw [← hg.1]
          exact List.mem_of_find?_eq_some hq
        · cases hg
    have e : pageInOfX region pg = pageInOf region pg := by
      unfold pageInOfX pageInOf
      exact (ext_selection _ _ _ _ _ _ _).1 (h pg hmem)
    simp only [e]

example : fetchX (Zvbi.Ttx.init.enable true) 0 0x100 0 = fetch (Zvbi.Ttx.init.enable true) 0 0x100 0 :=
  fetchX_eq_fetch_without_x28 _ _ _ _ (fun _ h => by cases h)

end Zvbi.Props.C02Std
