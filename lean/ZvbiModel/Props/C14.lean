import ZvbiModel.Pdc.LemmasWin
import ZvbiModel.Pdc.LemmasFwd
import ZvbiModel.Pdc.LemmasSec
/-!
# C14 - PIL to time conversion picks the right year and instant and leaves TZ alone

Property theorems only.  Vocabulary: `ZvbiModel/Pdc/Spec.lean` (`PilValid`, `Tm.hasPil`,
`Tm.monthIndex`, `Zone.SoundAt`, `Zone.Lawful`, `World.Consistent`, `TzUntouched`,
`RestoreFailed`, `effectiveTz`), model: `ZvbiModel/Pdc/Model.lean`, concrete calendar:
`ZvbiModel/Pdc/Calendar.lean`.  libc is the parameter `L : Libc` (failure injection at
strdup/setenv/time/localtime_r/gmtime_r/mktime, the clock, one `Zone` per TZ value); `cfg : Cfg`
is generated from the C source (which `_vbi_timegm` is compiled, shape of the three epoch guards).
All theorems but one hold for every `cfg`, hence for the code before and after the F9 repair
(commit 00745a5); `valid_representable_succeeds_current_source` is about the generated `cfg`.
-/
namespace Zvbi.Props.C14
open Zvbi.Pdc

/-! ## the concrete calendar (model of gmtime_r / timegm / fixed-offset zones) -/

/-- Every valid Gregorian date survives days-from-civil followed by civil-from-days. -/
theorem calendar_civil_roundtrip (y m d : Int) (hm0 : 1 ≤ m) (hm1 : m ≤ 12) (hd0 : 1 ≤ d)
    (hd1 : d ≤ daysInMonth (isLeap y) m) : civilFromDays (daysFromCivil y m d) = (y, m, d) :=
  civilFromDays_daysFromCivil y m d hm0 hm1 hd0 hd1

example : civilFromDays (daysFromCivil 2024 2 29) = (2024, 2, 29) := by decide

/-- Every day number maps to a valid Gregorian date that maps back to it (all of `Int`, both signs). -/
theorem calendar_days_roundtrip (z : Int) :
    daysFromCivil (civilFromDays z).1 (civilFromDays z).2.1 (civilFromDays z).2.2 = z
    ∧ 1 ≤ (civilFromDays z).2.1 ∧ (civilFromDays z).2.1 ≤ 12 ∧ 1 ≤ (civilFromDays z).2.2
    ∧ (civilFromDays z).2.2 ≤ daysInMonth (isLeap (civilFromDays z).1) (civilFromDays z).2.1 :=
  daysFromCivil_civilFromDays z

example : civilFromDays (-1) = (1969, 12, 31) := by decide

/-- gmtime after timegm returns the same valid broken-down time; timegm after gmtime returns the
same instant, and gmtime only produces valid civil times. -/
theorem calendar_tm_roundtrip :
    (∀ tm : Tm, tm.validCivil → (tmFromSecs (secsFromTm tm)).sameCivil tm)
    ∧ (∀ t : Int, secsFromTm (tmFromSecs t) = t ∧ (tmFromSecs t).validCivil) :=
  ⟨tmFromSecs_secsFromTm, secsFromTm_tmFromSecs⟩

/-- A zone with a fixed UTC offset satisfies the two libc laws the zone theorems assume:
`localtime_r` yields months 0..11 and an `int` year, and `mktime` of any valid civil time returns
an instant showing exactly that civil time (there are no gaps). -/
theorem fixed_zone_laws (east : Int) :
    (fixedZone east).Lawful ∧ ∀ tm : Tm, tm.validCivil → (fixedZone east).SoundAt tm :=
  ⟨fixedZone_lawful east, fixedZone_soundAt east⟩

/-! ## invalid PILs fail -/

/-- `vbi_pil_is_valid_date` accepts exactly the PILs that name a real month, day (29 February
included), hour and minute. -/
theorem valid_date_spec (pil : Nat) : pilIsValidDate pil = true ↔ PilValid pil := pilIsValidDate_iff pil

example : PilValid (mkPil 2 29 23 59) ∧ ¬ PilValid (mkPil 2 30 0 0) ∧ ¬ PilValid (mkPil 6 15 24 0) := by decide

/-- An invalid PIL makes both conversions return (time_t) -1 without any libc call or state change. -/
theorem invalid_fails (cfg : Cfg) (L : Libc) (w : World) (pil : Nat) (start east : Int) (tz : Option String)
    (h : ¬ PilValid pil) :
    vbiPilLtoToTime cfg L w pil start east = (-1, w) ∧ vbiPilToTime cfg L w pil start tz = (-1, w) := by
  have hv : pilIsValidDate pil = false := by
    cases hb : pilIsValidDate pil with
    | false => rfl
    | true => exact absurd ((pilIsValidDate_iff pil).1 hb) h
  unfold vbiPilLtoToTime vbiPilToTime
  simp [hv]

/-- A successful offset conversion is a representable time_t. -/
theorem result_representable (cfg : Cfg) (L : Libc) (w : World) (pil : Nat) (start east t : Int)
    (hutc : UtcIsCalendar cfg L) (h : (validPilLtoToTime cfg L w pil start east).1 = .ok t) :
    TIME_MIN ≤ t ∧ t ≤ TIME_MAX := by
  obtain ⟨tm0, w1, _, _, h1⟩ := validPilLtoToTime_val cfg L w pil start east t h
  obtain ⟨_, r, _, _, _, hgo, rfl, hr0, hr1⟩ := ltoFromTm_val cfg L w1 tm0 pil east t hutc h1
  unfold guardOut at hgo
  unfold TIME_MIN TIME_MAX at *
  split at hgo
  · split at hgo <;> simp at hgo <;> omega
  · simp at hgo; omega

/-! ## TZ untouched -/

/-- `vbi_pil_to_time`: on every path - any `tz` (NULL, "UTC", valid, empty, with '='), TZ initially set
or unset, any combination of libc failures - either TZ, libc's zone state and the heap are exactly
as before, or `restore_tz`'s setenv failed (the documented ENOMEM exception), the strdup'ed copy is
freed and the call returns (time_t) -1. -/
theorem tz_restored_pil_to_time (cfg : Cfg) (L : Libc) (w : World) (pil : Nat) (start : Int) (tz : Option String)
    (hc : w.Consistent) :
    TzUntouched w (vbiPilToTime cfg L w pil start tz).2
    ∨ (RestoreFailed L w (vbiPilToTime cfg L w pil start tz).2 ∧ (vbiPilToTime cfg L w pil start tz).1 = -1) :=
  vbiPilToTime_tz cfg L w pil start tz hc

/-- The same for `vbi_pil_lto_to_time` (whose `_vbi_timegm` switches TZ to "UTC" when HAVE_TIMEGM is undefined). -/
theorem tz_restored_pil_lto_to_time (cfg : Cfg) (L : Libc) (w : World) (pil : Nat) (start east : Int) (hc : w.Consistent) :
    TzUntouched w (vbiPilLtoToTime cfg L w pil start east).2
    ∨ (RestoreFailed L w (vbiPilLtoToTime cfg L w pil start east).2 ∧ (vbiPilLtoToTime cfg L w pil start east).1 = -1) :=
  vbiPilLtoToTime_tz cfg L w pil start east hc

/-- The same for `vbi_pil_validity_window` (all PIL classes, including NSPV -> `vbi_pty_validity_window`). -/
theorem tz_restored_pil_validity_window (cfg : Cfg) (L : Libc) (w : World) (pil : Nat) (start : Int) (tz : Option String)
    (hc : w.Consistent) :
    TzUntouched w (vbiPilValidityWindow cfg L w pil start tz).2
    ∨ (RestoreFailed L w (vbiPilValidityWindow cfg L w pil start tz).2 ∧ (vbiPilValidityWindow cfg L w pil start tz).1 = none) :=
  vbiPilValidityWindow_tz cfg L w pil start tz hc

/-- The same for `vbi_pil_lto_validity_window`. -/
theorem tz_restored_pil_lto_validity_window (cfg : Cfg) (L : Libc) (w : World) (pil : Nat) (start east : Int)
    (hc : w.Consistent) :
    TzUntouched w (vbiPilLtoValidityWindow cfg L w pil start east).2
    ∨ (RestoreFailed L w (vbiPilLtoValidityWindow cfg L w pil start east).2
       ∧ (vbiPilLtoValidityWindow cfg L w pil start east).1 = none) :=
  vbiPilLtoValidityWindow_tz cfg L w pil start east hc

/-- If setenv never fails, the TZ state is restored after every call, whatever else fails. -/
theorem tz_restored_without_enomem (cfg : Cfg) (L : Libc) (w : World) (pil : Nat) (start east : Int) (tz : Option String)
    (hc : w.Consistent) (hno : ∀ k, L.fails .setenv k = false) :
    TzUntouched w (vbiPilToTime cfg L w pil start tz).2 ∧ TzUntouched w (vbiPilLtoToTime cfg L w pil start east).2
    ∧ TzUntouched w (vbiPilValidityWindow cfg L w pil start tz).2
    ∧ TzUntouched w (vbiPilLtoValidityWindow cfg L w pil start east).2 := by
  have no : ∀ w', ¬ RestoreFailed L w w' := fun w' h => by
    obtain ⟨k, hk⟩ := h.2.2; rw [hno k] at hk; cases hk
  refine ⟨?_, ?_, ?_, ?_⟩
  · exact (tz_restored_pil_to_time cfg L w pil start tz hc).resolve_right (fun h => no _ h.1)
  · exact (tz_restored_pil_lto_to_time cfg L w pil start east hc).resolve_right (fun h => no _ h.1)
  · exact (tz_restored_pil_validity_window cfg L w pil start tz hc).resolve_right (fun h => no _ h.1)
  · exact (tz_restored_pil_lto_validity_window cfg L w pil start east hc).resolve_right (fun h => no _ h.1)

/-- non-vacuity: a consistent world with TZ set, and a libc in which the restoring setenv fails -/
example : ∃ (L : Libc) (w : World), w.Consistent ∧
    (vbiPilToTime Generated.cfg L w (mkPil 6 15 12 30) 1000000000 (some "AAA-1")).2.env = some "AAA-1"
    ∧ (vbiPilToTime Generated.cfg L w (mkPil 6 15 12 30) 1000000000 (some "AAA-1")).1 = -1 :=
  ⟨{ fails := fun s k => s == .setenv && k == 2, now := 0, zoneOf := fun _ => fixedZone 3600 },
   { env := some "BBB+5", libc := some "BBB+5", heap := 0, restoreFailed := false, calls := fun _ => 0 },
   ⟨rfl, rfl⟩, by decide, by decide⟩

/-! ## right year and instant, in a zone given by name (`vbi_pil_to_time`) -/

/-- fields_preserved: a successful `vbi_pil_to_time`, viewed in the zone it was asked for, shows the
PIL's month, day, hour and minute (second 0).  Assumptions on libc: `localtime_r` yields a month in
0..11, and `mktime` is correct at this PIL's local time (true unless that local time falls into a
DST gap of the zone); the reference time lies in years 1 .. 2^31-2. -/
theorem fields_preserved (cfg : Cfg) (L : Libc) (w : World) (pil : Nat) (start : Int) (tz : Option String)
    (hc : w.Consistent) (htz : tz ≠ some "UTC")
    (hlaw : (L.zoneOf (effectiveTz w tz)).Lawful)
    (hsound : ∀ tm : Tm, tm.validCivil → tm.hasPil pil → (L.zoneOf (effectiveTz w tz)).SoundAt tm)
    (hyear : ∀ tms, (L.zoneOf (effectiveTz w tz)).toLocal (refTime L start) = some tms →
      1 ≤ tms.year + 1900 ∧ tms.year + 1901 ≤ INT_MAX)
    (hr : (vbiPilToTime cfg L w pil start tz).1 ≠ -1) :
    ∃ tmr, (L.zoneOf (effectiveTz w tz)).toLocal (vbiPilToTime cfg L w pil start tz).1 = some tmr ∧ tmr.hasPil pil := by
  obtain ⟨_, tmr, _, h2, h3, _⟩ := pil_to_time_core cfg L w pil start tz hc htz hlaw hsound hyear hr
  exact ⟨tmr, h2, h3⟩

/-- nearest_year: the month of the result is at most 6 months before and at most 5 months after the
month of the reference time (both viewed in the zone), and no other year has this property. -/
theorem nearest_year (cfg : Cfg) (L : Libc) (w : World) (pil : Nat) (start : Int) (tz : Option String)
    (hc : w.Consistent) (htz : tz ≠ some "UTC")
    (hlaw : (L.zoneOf (effectiveTz w tz)).Lawful)
    (hsound : ∀ tm : Tm, tm.validCivil → tm.hasPil pil → (L.zoneOf (effectiveTz w tz)).SoundAt tm)
    (hyear : ∀ tms, (L.zoneOf (effectiveTz w tz)).toLocal (refTime L start) = some tms →
      1 ≤ tms.year + 1900 ∧ tms.year + 1901 ≤ INT_MAX)
    (hr : (vbiPilToTime cfg L w pil start tz).1 ≠ -1) :
    ∃ tms tmr, (L.zoneOf (effectiveTz w tz)).toLocal (refTime L start) = some tms
      ∧ (L.zoneOf (effectiveTz w tz)).toLocal (vbiPilToTime cfg L w pil start tz).1 = some tmr
      ∧ -6 ≤ tmr.monthIndex - tms.monthIndex ∧ tmr.monthIndex - tms.monthIndex ≤ 5
      ∧ ∀ y : Int, y ≠ tmr.year → ¬ (-6 ≤ 12 * y + tmr.mon - tms.monthIndex ∧ 12 * y + tmr.mon - tms.monthIndex ≤ 5) := by
  obtain ⟨tms, tmr, h1, h2, _, h4, h5, _⟩ := pil_to_time_core cfg L w pil start tz hc htz hlaw hsound hyear hr
  refine ⟨tms, tmr, h1, h2, h4, h5, fun y hy => ?_⟩
  unfold Tm.monthIndex at h4 h5
  exact nearest_year_unique tmr.year tms.monthIndex y tmr.mon ⟨h4, h5⟩ hy

/-- leap_day_rule: a PIL of 29 February converts only into a leap year. -/
theorem leap_day_rule (cfg : Cfg) (L : Libc) (w : World) (pil : Nat) (start : Int) (tz : Option String)
    (hc : w.Consistent) (htz : tz ≠ some "UTC")
    (hlaw : (L.zoneOf (effectiveTz w tz)).Lawful)
    (hsound : ∀ tm : Tm, tm.validCivil → tm.hasPil pil → (L.zoneOf (effectiveTz w tz)).SoundAt tm)
    (hyear : ∀ tms, (L.zoneOf (effectiveTz w tz)).toLocal (refTime L start) = some tms →
      1 ≤ tms.year + 1900 ∧ tms.year + 1901 ≤ INT_MAX)
    (hr : (vbiPilToTime cfg L w pil start tz).1 ≠ -1) (hm : pilMonth pil = 2) (hd : pilDay pil = 29) :
    ∃ tmr, (L.zoneOf (effectiveTz w tz)).toLocal (vbiPilToTime cfg L w pil start tz).1 = some tmr
      ∧ isLeap (tmr.year + 1900) := by
  obtain ⟨_, tmr, _, h2, _, _, _, h6⟩ := pil_to_time_core cfg L w pil start tz hc htz hlaw hsound hyear hr
  exact ⟨tmr, h2, h6 hm hd⟩

/-- The three statements above without any assumption on libc when the zone has a fixed offset
(`TZ=AAA-1` ...): fields, nearest year and leap day, on the proved calendar. -/
theorem fixed_zone_conversion (cfg : Cfg) (L : Libc) (w : World) (pil : Nat) (start east : Int) (tz : Option String)
    (hc : w.Consistent) (htz : tz ≠ some "UTC") (hz : L.zoneOf (effectiveTz w tz) = fixedZone east)
    (hyear : 1 ≤ (tmFromSecs (refTime L start + east)).year + 1900 ∧ (tmFromSecs (refTime L start + east)).year + 1901 ≤ INT_MAX)
    (hr : (vbiPilToTime cfg L w pil start tz).1 ≠ -1) :
    let r := (vbiPilToTime cfg L w pil start tz).1
    (tmFromSecs (r + east)).hasPil pil
    ∧ -6 ≤ (tmFromSecs (r + east)).monthIndex - (tmFromSecs (refTime L start + east)).monthIndex
    ∧ (tmFromSecs (r + east)).monthIndex - (tmFromSecs (refTime L start + east)).monthIndex ≤ 5
    ∧ (pilMonth pil = 2 → pilDay pil = 29 → isLeap ((tmFromSecs (r + east)).year + 1900)) := by
  intro r
  have hlaw : (L.zoneOf (effectiveTz w tz)).Lawful := hz ▸ fixedZone_lawful east
  have hsound : ∀ tm : Tm, tm.validCivil → tm.hasPil pil → (L.zoneOf (effectiveTz w tz)).SoundAt tm :=
    fun tm hv _ => hz ▸ fixedZone_soundAt east tm hv
  have hy : ∀ tms, (L.zoneOf (effectiveTz w tz)).toLocal (refTime L start) = some tms →
      1 ≤ tms.year + 1900 ∧ tms.year + 1901 ≤ INT_MAX := by
    intro tms h; rw [hz] at h
    obtain ⟨rfl, _⟩ := fixedZone_toLocal east _ tms h
    exact hyear
  obtain ⟨tms, tmr, h1, h2, h3, h4, h5, h6⟩ := pil_to_time_core cfg L w pil start tz hc htz hlaw hsound hy hr
  rw [hz] at h1 h2
  obtain ⟨rfl, _⟩ := fixedZone_toLocal east _ tms h1
  obtain ⟨rfl, _⟩ := fixedZone_toLocal east _ tmr h2
  exact ⟨h3, h4, h5, h6⟩

example : (vbiPilToTime Generated.cfg { fails := fun _ _ => false, now := 0, zoneOf := fun _ => fixedZone 3600 }
    { env := none, libc := none, heap := 0, restoreFailed := false, calls := fun _ => 0 }
    (mkPil 6 15 12 30) 1000000000 (some "AAA-1")).1 = 992604600 := by decide

/-! ## right year and instant, at a UTC offset (`vbi_pil_lto_to_time`, and `tz = "UTC"`) -/

/-- fields_preserved / nearest_year / leap_day_rule for `vbi_pil_lto_to_time`: a successful
conversion, viewed at the offset `seconds_east`, shows the PIL's month, day, hour, minute; its month
is within [-6, +5] months of the reference month, uniquely so; 29 February only in a leap year; the
result is representable.  libc's UTC is the proved calendar (`UtcIsCalendar`). -/
theorem lto_conversion (cfg : Cfg) (L : Libc) (w : World) (pil : Nat) (start east : Int)
    (hutc : UtcIsCalendar cfg L)
    (hyear : 1 ≤ (tmFromSecs (refTime L start + east)).year + 1900 ∧ (tmFromSecs (refTime L start + east)).year + 1901 ≤ INT_MAX)
    (hr : (vbiPilLtoToTime cfg L w pil start east).1 ≠ -1) :
    let t := (vbiPilLtoToTime cfg L w pil start east).1
    PilValid pil
    ∧ (tmFromSecs (t + east)).hasPil pil
    ∧ -6 ≤ (tmFromSecs (t + east)).monthIndex - (tmFromSecs (refTime L start + east)).monthIndex
    ∧ (tmFromSecs (t + east)).monthIndex - (tmFromSecs (refTime L start + east)).monthIndex ≤ 5
    ∧ (∀ y : Int, y ≠ (tmFromSecs (t + east)).year →
        ¬ (-6 ≤ 12 * y + (tmFromSecs (t + east)).mon - (tmFromSecs (refTime L start + east)).monthIndex
           ∧ 12 * y + (tmFromSecs (t + east)).mon - (tmFromSecs (refTime L start + east)).monthIndex ≤ 5))
    ∧ (pilMonth pil = 2 → pilDay pil = 29 → isLeap ((tmFromSecs (t + east)).year + 1900))
    ∧ TIME_MIN ≤ t ∧ t ≤ TIME_MAX := by
  intro t
  have hv : pilIsValidDate pil = true := by
    cases hb : pilIsValidDate pil with
    | true => rfl
    | false => exfalso; apply hr; unfold vbiPilLtoToTime; simp [hb]
  have hok : ∃ t', (validPilLtoToTime cfg L w pil start east).1 = .ok t' ∧ t = t' := by
    have ht : t = (validPilLtoToTime cfg L w pil start east).1.toTime := by
      show (vbiPilLtoToTime cfg L w pil start east).1 = _
      unfold vbiPilLtoToTime; simp [hv]
    cases hres : (validPilLtoToTime cfg L w pil start east).1 with
    | ok t' => exact ⟨t', rfl, by rw [ht, hres]; rfl⟩
    | invalidPil => exfalso; apply hr; show t = -1; rw [ht, hres]; rfl
    | fail => exfalso; apply hr; show t = -1; rw [ht, hres]; rfl
  obtain ⟨t', hok, hte⟩ := hok
  have hpv := (pilIsValidDate_iff pil).1 hv
  obtain ⟨_, _, _, c3, c4, c5, c6, _, _, _, _⟩ := lto_core cfg L w pil start east t' hutc hpv hyear hok
  have hrep := result_representable cfg L w pil start east t' hutc hok
  rw [hte]
  refine ⟨hpv, c3, c4, c5, fun y hy => ?_, c6, hrep.1, hrep.2⟩
  unfold Tm.monthIndex at c4 c5
  exact nearest_year_unique _ _ y _ ⟨c4, c5⟩ hy

example : (vbiPilLtoToTime Generated.cfg { fails := fun _ _ => false, now := 0, zoneOf := fun _ => utcZone }
    { env := none, libc := none, heap := 0, restoreFailed := false, calls := fun _ => 0 }
    (mkPil 6 15 12 30) 1000000000 3600).1 = 992604600 := by decide

/-! ## F9: the epoch guards -/

/-- The hypothesis the offset arithmetic forced (F9, repaired by commit 00745a5): when the guards compare
against the epoch (`cfg.epochIn`, `cfg.epochOut`, as before the repair), a conversion can only succeed
if the reference time is at least `-seconds_east` (west of UTC) resp. the result is non-negative
(east of UTC). -/
theorem f9_epoch_guards_force (cfg : Cfg) (L : Libc) (w : World) (pil : Nat) (start east t : Int)
    (hutc : UtcIsCalendar cfg L) (h : (validPilLtoToTime cfg L w pil start east).1 = .ok t) :
    (cfg.epochIn = true → east < 0 → -east ≤ refTime L start) ∧ (cfg.epochOut = true → 0 < east → 0 ≤ t) := by
  obtain ⟨tm0, w1, _, hgi, h1⟩ := validPilLtoToTime_val cfg L w pil start east t h
  obtain ⟨_, r, _, _, _, hgo, rfl, _, _⟩ := ltoFromTm_val cfg L w1 tm0 pil east t hutc h1
  constructor
  · intro he hlt
    unfold guardIn at hgi; rw [if_pos hlt, if_pos he] at hgi; simp at hgi; omega
  · intro he hgt
    unfold guardOut at hgo; rw [if_pos hgt, if_pos he] at hgo; simp at hgo; omega

/-- F9 on the model: with the guards as they were before the repair, 15 June 12:30 with
reference time 100 s after the epoch and offset -3600 is refused, although with the guard written
against TIME_MIN the very same call yields the representable time -17231400 (15 June 1969 13:30 UTC).
The same input is replayed on the C code by corpus/C14/f9_epoch_guards.ops. -/
theorem f9_counterexample :
    let L : Libc := { fails := fun _ _ => false, now := 0, zoneOf := fun _ => utcZone }
    let w : World := { env := none, libc := none, heap := 0, restoreFailed := false, calls := fun _ => 0 }
    (vbiPilLtoToTime { haveTimegm := false, epochIn := true, epochOut := true, epochWin := true } L w (mkPil 6 15 12 30) 100 (-3600)).1 = -1
    ∧ (vbiPilLtoToTime { haveTimegm := false, epochIn := false, epochOut := false, epochWin := false } L w (mkPil 6 15 12 30) 100 (-3600)).1 = -17231400 := by
  decide

/-! ## validity windows -/

/-- window_contains_and_ordered (offset path): for a PIL with a real month and day, a window returned
by `vbi_pil_lto_validity_window` is either the indefinite window (29 February in a non-leap year),
or: begin is 00:00 of the PIL's day at the given offset (20:00 of the previous day if the PIL hour is
below 4), end is 04:00 of the next day, so begin < end and the length is 28 h resp. 32 h
(EN 300 231 9.3); and if the PIL itself converts, the converted time lies in [begin, end).
Explicit exception `t0 ≠ -1`: (time_t) -1 is the error value of the documented interface, so a day whose
00:00 is exactly one second before the epoch (possible only when seconds_east = 1 mod 60) gets no window:
`window_minus_one_refused`. -/
theorem window_contains_and_ordered (cfg : Cfg) (L : Libc) (w : World) (pil : Nat) (start east b e : Int)
    (hutc : UtcIsCalendar cfg L) (hcl : classifyPil pil = .date)
    (hyear : 1 ≤ (tmFromSecs (refTime L start + east)).year + 1900 ∧ (tmFromSecs (refTime L start + east)).year + 1901 ≤ INT_MAX)
    (h : (vbiPilLtoValidityWindow cfg L w pil start east).1 = some (b, e)) :
    (b = TIME_MIN ∧ e = TIME_MAX) ∨
    (∃ t0 : Int,
      -- t0 = 00:00 of the PIL's day, viewed at the offset
      (tmFromSecs (t0 + east)).mon + 1 = pilMonth pil ∧ (tmFromSecs (t0 + east)).mday = pilDay pil
      ∧ (tmFromSecs (t0 + east)).hour = 0 ∧ (tmFromSecs (t0 + east)).min = 0 ∧ (tmFromSecs (t0 + east)).sec = 0
      ∧ t0 ≠ -1
      ∧ b = t0 - (if pilHour pil < 4 then 4 * 60 * 60 else 0) ∧ e = t0 + 28 * 60 * 60
      ∧ b < e ∧ (e - b = 28 * 60 * 60 ∨ e - b = 32 * 60 * 60)
      ∧ (∀ T, (validPilLtoToTime cfg L w pil start east).1 = .ok T → PilValid pil → b ≤ T ∧ T < e)) := by
  rcases lto_window_shape cfg L w pil start east b e hcl h with ⟨_, hb, he⟩ | ⟨t0, hok, hb, he, _, _, hne⟩
  · exact Or.inl ⟨hb, he⟩
  · right
    obtain ⟨fm, fd, fh, fmi⟩ := pil_mask_fields pil
    have hpv := PilValid_mask pil hcl
    obtain ⟨tm1, c1, c2, c3, _⟩ := lto_core cfg L w _ start east t0 hutc hpv hyear hok
    obtain ⟨g1, g2, g3, g4, g5⟩ := c3
    rw [fm] at g1; rw [fd] at g2; rw [fh] at g3; rw [fmi] at g4
    refine ⟨t0, g1, g2, by simpa using g3, by simpa using g4, g5, hne, hb, he, ?_, ?_, ?_⟩
    · rw [hb, he]; split <;> omega
    · rw [hb, he]; split
      · right; omega
      · left; omega
    · intro T hT hpvT
      obtain ⟨tm1', d1, d2, _⟩ := lto_core cfg L w pil start east T hutc hpvT hyear hT
      have htm : tm1' = tm1 := by
        have := tmMonMday_congr (tmFromSecs (refTime L start + east)) pil (pil &&& mkPil 15 31 0 0) fm.symm fd.symm
        rw [this, c1] at d1; cases d1; rfl
      rw [htm] at d2
      rw [fh, fmi] at c2
      rw [secsFromTm_hm] at d2
      have hh := pilHour_lt pil
      have hmi := pilMinute_lt pil
      obtain ⟨_, _, _, _, hh24, hm60⟩ := hpvT
      have c2 : t0 + east = secsFromTm { tm1 with hour := 0, min := 0, sec := 0 } := c2
      rw [hb, he]
      constructor
      · split <;> omega
      · omega

example : (vbiPilLtoValidityWindow Generated.cfg { fails := fun _ _ => false, now := 0, zoneOf := fun _ => utcZone }
    { env := none, libc := none, heap := 0, restoreFailed := false, calls := fun _ => 0 }
    (mkPil 6 15 12 30) 1000000000 3600).1 = some (992559600, 992660400) := by decide

/-- The sentinel exception, stated: if 00:00 of the PIL's day converts to exactly (time_t) -1, the offset
window function returns FALSE (the C code cannot tell the value from the error return). -/
theorem window_minus_one_refused (cfg : Cfg) (L : Libc) (w : World) (pil : Nat) (start east : Int)
    (hcl : classifyPil pil = .date)
    (h : (validPilLtoToTime cfg L w (pil &&& mkPil 15 31 0 0) start east).1 = .ok (-1)) :
    (vbiPilLtoValidityWindow cfg L w pil start east).1 = none := by
  unfold vbiPilLtoValidityWindow
  rw [hcl]
  unfold validPilLtoValidityWindow
  dsimp only
  split
  · rename_i heq; rw [heq] at h; cases h
  · rfl
  · rename_i t heq; rw [heq] at h; cases h; rfl

example : (vbiPilLtoValidityWindow Generated.cfg { fails := fun _ _ => false, now := 0, zoneOf := fun _ => utcZone }
    { env := none, libc := none, heap := 0, restoreFailed := false, calls := fun _ => 0 }
    (mkPil 1 1 4 9) 86400 1).1 = none := by decide

/-- Zone path (`vbi_pil_validity_window` with a tz other than "UTC") in a zone with a fixed offset: a
date window is the indefinite window or is ordered and exactly 28 h (32 h for PIL hours 0-3) long.
In zones with DST libc decides the two instants (begin = mktime of 00:00 / 20:00 local, end = mktime
of 04:00 local next day: `winFromTm_val`), so the length can differ by the DST shift. -/
theorem window_lengths_fixed_zone (cfg : Cfg) (L : Libc) (w : World) (pil : Nat) (start east b e : Int) (tz : Option String)
    (hc : w.Consistent) (htz : tz ≠ some "UTC") (hz : L.zoneOf (effectiveTz w tz) = fixedZone east)
    (hcl : classifyPil pil = .date) (h : (vbiPilValidityWindow cfg L w pil start tz).1 = some (b, e)) :
    (b = TIME_MIN ∧ e = TIME_MAX) ∨ (b < e ∧ e - b = (if pilHour pil < 4 then 32 else 28) * 60 * 60) :=
  tz_window_fixed cfg L w pil start east b e tz hc htz hz hcl h

example : (vbiPilValidityWindow Generated.cfg { fails := fun _ _ => false, now := 0, zoneOf := fun _ => fixedZone 3600 }
    { env := none, libc := none, heap := 0, restoreFailed := false, calls := fun _ => 0 }
    (mkPil 6 15 2 0) 1000000000 (some "AAA-1")).1 = some (992545200, 992660400) := by decide

/-- Windows of the PILs that carry no date (EN 300 231 Annex F): unallocated codes are refused,
service codes, months 13/14 and unreal days give the indefinite window - in both window functions,
without touching libc. -/
theorem window_classes (cfg : Cfg) (L : Libc) (w : World) (pil : Nat) (start east : Int) (tz : Option String) :
    (classifyPil pil = .unallocated →
      vbiPilLtoValidityWindow cfg L w pil start east = (none, w) ∧ vbiPilValidityWindow cfg L w pil start tz = (none, w))
    ∧ (classifyPil pil = .indefinite →
      vbiPilLtoValidityWindow cfg L w pil start east = (some (TIME_MIN, TIME_MAX), w)
      ∧ vbiPilValidityWindow cfg L w pil start tz = (some (TIME_MIN, TIME_MAX), w)) := by
  constructor <;> intro h <;> unfold vbiPilLtoValidityWindow vbiPilValidityWindow <;> rw [h] <;> exact ⟨rfl, rfl⟩

example : classifyPil PIL_TIMER_CONTROL = .indefinite ∧ classifyPil (mkPil 0 1 1 1) = .unallocated
    ∧ classifyPil PIL_NSPV = .nspv ∧ classifyPil (mkPil 2 30 0 0) = .indefinite ∧ classifyPil (mkPil 2 29 0 0) = .date := by decide

/-! ## completeness and the seconds form of the nearest-year rule -/

/-- valid_representable_succeeds: when the guards are written against TIME_MIN (the repaired source)
and libc does not fail, every valid PIL converts, for every reference time whose year (at the given
offset) lies in 1 .. 2^31-3 and every `int` offset - all such results are representable, so there is no
representability hypothesis left and none about the epoch.  The result is exactly the PIL's date
and time in the year picked by the nearest-year rule, minus the offset; the only refusal is
29 February in a non-leap year. -/
theorem valid_representable_succeeds (cfg : Cfg) (L : Libc) (w : World) (pil : Nat) (start east : Int)
    (hin : cfg.epochIn = false) (hout : cfg.epochOut = false)
    (hnf : NoFailures L) (hutc : UtcIsCalendar cfg L) (hv : PilValid pil) (href : refTime L start ≠ -1)
    (he0 : INT_MIN ≤ east) (he1 : east ≤ INT_MAX)
    (hy0 : 1 ≤ (tmFromSecs (refTime L start + east)).year + 1900)
    (hy1 : (tmFromSecs (refTime L start + east)).year + 1902 ≤ INT_MAX) :
    ∃ tm1, tmMonMdayFromPil (tmFromSecs (refTime L start + east)) pil = some tm1 ∧
      (vbiPilLtoToTime cfg L w pil start east).1 =
        if pilMonth pil = 2 ∧ pilDay pil = 29 ∧ ¬ isLeap (tm1.year + 1900) then -1
        else secsFromTm { tm1 with hour := (pilHour pil : Int), min := (pilMinute pil : Int), sec := 0 } - east :=
  lto_succeeds cfg L w pil start east hin hout hnf hutc hv href he0 he1 hy0 hy1

/-- The same for the source as it is now: `Generated.cfg` (regenerated from src/pdc.c on every run) has
both guards against TIME_MIN.  This proof breaks if an epoch guard comes back. -/
theorem valid_representable_succeeds_current_source (L : Libc) (w : World) (pil : Nat) (start east : Int)
    (hnf : NoFailures L) (hutc : UtcIsCalendar Generated.cfg L) (hv : PilValid pil) (href : refTime L start ≠ -1)
    (he0 : INT_MIN ≤ east) (he1 : east ≤ INT_MAX)
    (hy0 : 1 ≤ (tmFromSecs (refTime L start + east)).year + 1900)
    (hy1 : (tmFromSecs (refTime L start + east)).year + 1902 ≤ INT_MAX) :
    ∃ tm1, tmMonMdayFromPil (tmFromSecs (refTime L start + east)) pil = some tm1 ∧
      (vbiPilLtoToTime Generated.cfg L w pil start east).1 =
        if pilMonth pil = 2 ∧ pilDay pil = 29 ∧ ¬ isLeap (tm1.year + 1900) then -1
        else secsFromTm { tm1 with hour := (pilHour pil : Int), min := (pilMinute pil : Int), sec := 0 } - east :=
  lto_succeeds Generated.cfg L w pil start east rfl rfl hnf hutc hv href he0 he1 hy0 hy1

/-- the input F9 used to refuse now converts (same call as `f9_counterexample`, current source) -/
example : (vbiPilLtoToTime Generated.cfg { fails := fun _ _ => false, now := 0, zoneOf := fun _ => utcZone }
    { env := none, libc := none, heap := 0, restoreFailed := false, calls := fun _ => 0 }
    (mkPil 6 15 12 30) 100 (-3600)).1 = -17231400 := by decide

/-- nearest_year_seconds: a successful offset conversion lies strictly within 217 days (seven calendar
months of at most 31 days) of the reference time. -/
theorem nearest_year_seconds (cfg : Cfg) (L : Libc) (w : World) (pil : Nat) (start east : Int)
    (hutc : UtcIsCalendar cfg L)
    (hyear : 1 ≤ (tmFromSecs (refTime L start + east)).year + 1900 ∧ (tmFromSecs (refTime L start + east)).year + 1901 ≤ INT_MAX)
    (hr : (vbiPilLtoToTime cfg L w pil start east).1 ≠ -1) :
    -(217 * 86400) < (vbiPilLtoToTime cfg L w pil start east).1 - refTime L start
    ∧ (vbiPilLtoToTime cfg L w pil start east).1 - refTime L start < 217 * 86400 := by
  obtain ⟨_, _, c4, c5, _⟩ := lto_conversion cfg L w pil start east hutc hyear hr
  obtain ⟨sa, va⟩ := secsFromTm_tmFromSecs (refTime L start + east)
  obtain ⟨sb, vb⟩ := secsFromTm_tmFromSecs ((vbiPilLtoToTime cfg L w pil start east).1 + east)
  have := seconds_bound _ _ va vb c4 c5
  rw [sa, sb] at this
  omega

/-- The same bound for `vbi_pil_to_time` in a zone with a fixed offset. -/
theorem nearest_year_seconds_fixed_zone (cfg : Cfg) (L : Libc) (w : World) (pil : Nat) (start east : Int) (tz : Option String)
    (hc : w.Consistent) (htz : tz ≠ some "UTC") (hz : L.zoneOf (effectiveTz w tz) = fixedZone east)
    (hyear : 1 ≤ (tmFromSecs (refTime L start + east)).year + 1900 ∧ (tmFromSecs (refTime L start + east)).year + 1901 ≤ INT_MAX)
    (hr : (vbiPilToTime cfg L w pil start tz).1 ≠ -1) :
    -(217 * 86400) < (vbiPilToTime cfg L w pil start tz).1 - refTime L start
    ∧ (vbiPilToTime cfg L w pil start tz).1 - refTime L start < 217 * 86400 := by
  obtain ⟨_, c4, c5, _⟩ := fixed_zone_conversion cfg L w pil start east tz hc htz hz hyear hr
  obtain ⟨sa, va⟩ := secsFromTm_tmFromSecs (refTime L start + east)
  obtain ⟨sb, vb⟩ := secsFromTm_tmFromSecs ((vbiPilToTime cfg L w pil start tz).1 + east)
  have := seconds_bound _ _ va vb c4 c5
  rw [sa, sb] at this
  omega

/-! ## zones with daylight-saving time -/

/-- fields_preserved for a named zone with DST, the gap/overlap rule explicit.  The zone is described by
its UTC offset `off t` at every instant and glibc's mktime behaviour for `tm_isdst = -1`
(`Zone.FollowsOffsets`, validated against libc on every run).  A successful `vbi_pil_to_time` has a
valid civil time `tmP` showing the PIL in the year picked by the nearest-year rule, and the result,
viewed in the zone, (a) shows exactly `tmP` whenever that local time exists in the zone (once, or
twice in an overlap - then either instant), and (b) in every case shows `tmP` moved by
`off result - off t'` for an instant `t'` within two days, i.e. by the DST jump when `tmP` falls into
a gap and by nothing otherwise. -/
theorem fields_preserved_dst (cfg : Cfg) (L : Libc) (w : World) (pil : Nat) (start : Int) (tz : Option String)
    (off : Int → Int) (hc : w.Consistent) (htz : tz ≠ some "UTC")
    (hz : (L.zoneOf (effectiveTz w tz)).FollowsOffsets off)
    (hyear : ∀ tms, (L.zoneOf (effectiveTz w tz)).toLocal (refTime L start) = some tms →
      1 ≤ tms.year + 1900 ∧ tms.year + 1901 ≤ INT_MAX)
    (hr : (vbiPilToTime cfg L w pil start tz).1 ≠ -1) :
    ∃ tms tmP tmr, (L.zoneOf (effectiveTz w tz)).toLocal (refTime L start) = some tms
      ∧ tmP.validCivil ∧ tmP.hasPil pil
      ∧ -6 ≤ tmP.monthIndex - tms.monthIndex ∧ tmP.monthIndex - tms.monthIndex ≤ 5
      ∧ (pilMonth pil = 2 → pilDay pil = 29 → isLeap (tmP.year + 1900))
      ∧ (L.zoneOf (effectiveTz w tz)).toLocal (vbiPilToTime cfg L w pil start tz).1 = some tmr
      ∧ ((∃ t0, t0 + off t0 = secsFromTm tmP) → tmr.hasPil pil ∧ tmr.sameCivil tmP)
      ∧ (∃ t', (vbiPilToTime cfg L w pil start tz).1 - 172800 ≤ t' ∧ t' ≤ (vbiPilToTime cfg L w pil start tz).1 + 172800
          ∧ tmr.sameCivil (tmFromSecs (secsFromTm tmP + (off (vbiPilToTime cfg L w pil start tz).1 - off t')))) := by
  obtain ⟨tms, tmP, tmr, h0, v1, v2, v3, v4, v5, h6, h7, h8⟩ := pil_to_time_dst cfg L w pil start tz off hc htz hz hyear hr
  exact ⟨tms, tmP, tmr, h0, v1, v2, v3, v4, v5, h6, fun hex => ⟨(h7 hex).hasPil v2, h7 hex⟩, h8⟩

/-- non-vacuity of `Zone.FollowsOffsets`: every fixed-offset zone is an instance (constant offset) -/
theorem fixed_zone_follows_offsets (east : Int) : (fixedZone east).FollowsOffsets (fun _ => east) :=
  fixedZone_followsOffsets east

end Zvbi.Props.C14
