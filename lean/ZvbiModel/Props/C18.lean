import ZvbiModel.ProxyQ.Model
import ZvbiModel.ProxyQ.Spec
import ZvbiModel.ProxyQ.LemmasQueue
import ZvbiModel.ProxyQ.LemmasSpec
/-!
# C18 - each proxy client gets every captured frame, filtered to its services, in order

Two levels (see NOTES/C18.md):

* the **queue machine** (`Spec.lean`): the sliced queue and all client cursors under arbitrary histories of the
  operations the daemon performs on them, implemented by the same functions (`releaseQ`, `releaseAllQ`, ...)
  the model of the daemon calls.  The theorems named `*_partial` below are proved at this level, for all
  histories.
* the **daemon model** (`Model.lean`, `run`): sockets, messages, service negotiation, device open/close, the
  main loop.  It is what the correspondence check runs against the real daemon on every audit line.  The
  statements about it (`refcount_exact_full`, `release_assert_unreachable_full`, `each_frame_once_in_order_full`,
  `service_union_full`, `stalled_client_isolated_full`) are proved in `Props/C18Full.lean` by lifting the lemmas
  used here (`ProxyQ/Lift*.lean`).  The witnesses of the four defects D1-D4 (repaired in /repo; stated as
  equivalences with the source facts the translator reads) are evaluated on the daemon model.
-/
namespace Zvbi.Props.C18
open Zvbi.ProxyQ Zvbi.Gen.ProxyQ

/-! ## refcount_exact -/

/-- Proved for all histories of the queue machine: the `ref_count` of the `j`-th newest buffer equals the number of
cursors at or before it, no cursor points outside the queue, and the head buffer is held by somebody (so a
buffer goes back to the free list exactly when its count reaches zero, and only from the head). -/
theorem refcount_exact_partial {s : QState} (h : QReach s) : QInv s.q s.bl :=
  qreach_inv h

/-- free + queued is constant under release: what leaves the queue goes to the free list -/
theorem refcount_exact_conservation {s : QState} (h : QReach s) {i : Nat} (hi : i < s.bl.length) (hp : 0 < s.bl.getD i 0) :
    ∃ q' f', releaseQ s.q s.free (s.bl.getD i 0) = .ok (q', f') ∧ q'.length + f' = s.q.length + s.free := by
  obtain ⟨q', f', hr, _, hsum, _⟩ := releaseQ_ok s.free (qreach_inv h) hi rfl hp
  exact ⟨q', f', hr, hsum⟩

/-- non-vacuity: two clients, a frame for both, the first client sends it: count 2 -> 1, cursor moved -/
example : qstep { q := [{ frame := { seq := 0, ts := 1, lines := [] }, ref := 2 }], free := 7, bl := [1, 1] } (.release 0)
    = some (.ok { q := [{ frame := { seq := 0, ts := 1, lines := [] }, ref := 1 }], free := 7, bl := [0, 1] }) := by rfl

/-! ## release_assert_unreachable -/

/-- Proved for all histories of the queue machine: `assert (p_proxy_dev->p_sliced == p_buf)` in
`vbi_proxy_queue_release_sliced` cannot fire, no cursor is dangling and no NULL cursor is released - for a
single release (after a frame was sent, or inside force_free) and for the release loops of a service request
and a disconnect. -/
theorem release_assert_unreachable_partial {s : QState} (h : QReach s) (op : QOp) (e : Err) :
    qstep s op ≠ some (.error e) :=
  qstep_no_error h op e

/-- the same as a statement about the C function itself: whenever the invariant holds and the client's cursor
is not NULL, release_sliced succeeds -/
theorem release_sliced_succeeds {q : List QElem} {bl : List Nat} {i : Nat} (free : Nat) (inv : QInv q bl)
    (hi : i < bl.length) (hp : 0 < bl.getD i 0) : ∃ r, releaseQ q free (bl.getD i 0) = .ok r := by
  obtain ⟨q', f', hr, _⟩ := releaseQ_ok free inv hi rfl hp
  exact ⟨(q', f'), hr⟩

/-- non-vacuity of the assertion site: WITHOUT the invariant it does fire (second buffer released to zero while
the head is still held) -/
example : releaseQ [{ frame := default, ref := 1 }, { frame := default, ref := 1 }] 0 1 = .error (.assertFail .releaseHead) := by
  rfl

def demoCfg : Cfg := { scanning := 625, supp := fun _ => 0xFFFF, count := fun _ => 3 }

def handshake : List Op := [.conn 1 1 0, .credit 0 100000, .iter, .iter, .iter, .iter]

/-- COUNTEREXAMPLE (genuine defect D1, replay corpus/C18/assert-line-count.ops): the other assertion,
`assert (p_buf->line_count < p_buf->max_lines)`, fires for a frame with exactly count[0]+count[1] lines - which
the capture interface allows and the buffer holds.  Stated as an equivalence with the generated source fact so
that it stays true when the assertion is repaired to `<=`. -/
theorem line_count_assert_counterexample :
    (match run demoCfg init (handshake ++ [.cap 1000 [⟨1, 7, 1⟩, ⟨1, 8, 2⟩, ⟨1, 9, 3⟩] true, .iter]) with
     | .error (.assertFail .lineCount) => true
     | _ => false) = assertLineCountStrict := by
  decide

/-! ## each_frame_once_in_order -/

/-- Proved at the queue level: a release by a client takes exactly the OLDEST frame still pending for it and
leaves the others, in order (FIFO, one at a time, nothing skipped, nothing repeated) ... -/
theorem each_frame_once_in_order_partial {s : QState} (h : QReach s) {i : Nat} (hi : i < s.bl.length)
    (hp : 0 < s.bl.getD i 0) :
    ∃ q' f', releaseQ s.q s.free (s.bl.getD i 0) = .ok (q', f') ∧
      pendingOf q' (s.bl.getD i 0 - 1) = (pendingOf s.q (s.bl.getD i 0)).take (s.bl.getD i 0 - 1) := by
  obtain ⟨q', f', hr, inv', _⟩ := releaseQ_ok s.free (qreach_inv h) hi rfl hp
  refine ⟨q', f', hr, ?_⟩
  have hb : s.bl.getD i 0 - 1 ≤ q'.length := inv'.bound _ (List.mem_set hi _)
  rw [releaseQ_frames hr _ hb]
  unfold pendingOf
  rw [← List.map_take, List.take_take]
  congr 2
  omega

/-- ... and a captured frame is put in front of (newer than) the pending frames of exactly the subscribed clients -/
theorem each_frame_enqueued_once (q : List QElem) (fr : Frame) (n b : Nat) :
    pendingOf ({ frame := fr, ref := n } :: q) (b + 1) = fr :: pendingOf q b := by
  simp [pendingOf]

/-! ## filter_exact -/

/-- Proved for the code as it is: the indication carries exactly the captured lines of the granted services, in
order - PROVIDED the frame has no more lines than the client's `vbi_count` snapshot. -/
theorem filter_exact_partial (maxLines granted : Nat) (lines : List Line) (h : lines.length ≤ maxLines) :
    filterLinesWith true maxLines granted lines = specLines granted lines := by
  simp [filterLinesWith, specLines, List.take_of_length_le h]

/-- COUNTEREXAMPLE (genuine defect D3, replay corpus/C18/filter-truncation.ops): the client was granted service
0x400 when the device delivered 3 lines per frame; another client widened the window; the 0x400 line at index 4
is not delivered. -/
theorem filter_exact_counterexample :
    filterLinesWith true 3 0x400 [⟨1, 7, 1⟩, ⟨2, 8, 2⟩, ⟨1, 9, 3⟩, ⟨2, 10, 4⟩, ⟨0x400, 23, 5⟩] = [] ∧
    specLines 0x400 [⟨1, 7, 1⟩, ⟨2, 8, 2⟩, ⟨1, 9, 3⟩, ⟨2, 10, 4⟩, ⟨0x400, 23, 5⟩] = [⟨0x400, 23, 5⟩] := by
  decide

/-- the proposed repair (bound the lines copied, not the index): exact whenever the client's own lines fit its buffer -/
theorem filter_exact_repaired (maxLines granted : Nat) (lines : List Line) (h : (specLines granted lines).length ≤ maxLines) :
    filterLinesWith false maxLines granted lines = specLines granted lines := by
  simp only [filterLinesWith, specLines] at *
  simp [List.take_of_length_le h]

example : filterLinesWith true 9 6 [⟨1, 7, 1⟩, ⟨2, 8, 2⟩, ⟨4, 9, 3⟩] = [⟨2, 8, 2⟩, ⟨4, 9, 3⟩] := by decide

/-! ## stalled_client_isolated / service_change_may_drop_only_own_queued -/

/-- Proved at the queue level (one-run form): whatever client `i` releases - one buffer in force_free because it
stalled, or everything on its own service request or disconnect - every OTHER client keeps its cursor and exactly
the frames that were pending for it, in order. -/
theorem stalled_client_isolated_partial {s s' : QState} (h : QReach s) {i : Nat}
    (hs : qstep s (.release i) = some (.ok s')) :
    ∀ j, j ≠ i → j < s.bl.length → s'.bl.getD j 0 = s.bl.getD j 0 ∧
      pendingOf s'.q (s'.bl.getD j 0) = pendingOf s.q (s.bl.getD j 0) := by
  intro j hj hjl
  have inv' := qstep_inv (qreach_inv h) hs
  simp only [qstep] at hs
  split at hs
  · rename_i hc
    split at hs
    · simp at hs
    · rename_i q f hr
      simp only [Option.some.injEq, Except.ok.injEq] at hs
      subst hs
      have hg : (s.bl.set i (s.bl.getD i 0 - 1)).getD j 0 = s.bl.getD j 0 := by
        simp [List.getD_eq_getElem?_getD, List.getElem?_set_ne (Ne.symm hj)]
      refine ⟨hg, ?_⟩
      simp only at inv' ⊢
      rw [hg]
      have hjl' : j < (s.bl.set i (s.bl.getD i 0 - 1)).length := by simpa using hjl
      have hb : s.bl.getD j 0 ≤ q.length := by
        rw [← hg]; exact inv'.bound _ (getD_mem hjl')
      exact releaseQ_frames hr _ hb
  · simp at hs

/-- `service_change_may_drop_only_own_queued` (queue level, all histories): the flush of client `i`'s queue on its
SERVICE_REQ (and on its disconnect) drops only frames queued for `i`: every other client keeps its cursor and
its pending frames. -/
theorem service_change_may_drop_only_own_queued {s s' : QState} (h : QReach s) {i : Nat}
    (hs : qstep s (.releaseAll i) = some (.ok s')) :
    s'.bl.getD i 0 = 0 ∧ ∀ j, j ≠ i → j < s.bl.length → s'.bl.getD j 0 = s.bl.getD j 0 ∧
      pendingOf s'.q (s'.bl.getD j 0) = pendingOf s.q (s.bl.getD j 0) := by
  have inv' := qstep_inv (qreach_inv h) hs
  simp only [qstep] at hs
  split at hs
  · rename_i hc
    split at hs
    · simp at hs
    · rename_i q f hr
      simp only [Option.some.injEq, Except.ok.injEq] at hs
      subst hs
      refine ⟨getD_set_self hc, ?_⟩
      intro j hj hjl
      have hg : (s.bl.set i 0).getD j 0 = s.bl.getD j 0 := by
        simp [List.getD_eq_getElem?_getD, List.getElem?_set_ne (Ne.symm hj)]
      refine ⟨hg, ?_⟩
      simp only at inv' ⊢
      rw [hg]
      have hjl' : j < (s.bl.set i 0).length := by simpa using hjl
      have hb : s.bl.getD j 0 ≤ q.length := by
        rw [← hg]; exact inv'.bound _ (getD_mem hjl')
      exact releaseAllQ_frames _ hr _ hb
  · simp at hs

/-- non-vacuity: client 0 flushes its two queued frames, client 1 keeps its cursor on the newest one -/
example : qstep { q := [{ frame := { seq := 1, ts := 2, lines := [] }, ref := 2 }, { frame := { seq := 0, ts := 1, lines := [] }, ref := 1 }],
                  free := 6, bl := [2, 1] } (.releaseAll 0)
    = some (.ok { q := [{ frame := { seq := 1, ts := 2, lines := [] }, ref := 1 }], free := 7, bl := [0, 1] }) := by rfl

/-- twelve one-line frames, client 0 stalled right after the handshake, client 1 one frame ahead -/
def ffWitness : List Op :=
  [.conn 1 1 0, .credit 0 1040, .conn 1 1 0, .credit 1 1128, .iter, .iter, .iter, .iter, .iter, .iter] ++
  (List.range 12).flatMap (fun i => [Op.cap (1000 * (i + 1)) [⟨1, 7, i⟩] false, Op.iter])

/-- COUNTEREXAMPLE (genuine defect D2, replay corpus/C18/force-free-second.ops): in the code as it is, which
re-reads the queue head inside the loop of `vbi_proxy_queue_force_free`, client 1 - one frame AHEAD of the stalled
client 0, never lagging by the whole queue - loses frame 2 to the overflow caused by client 0.  Equivalence with
the generated source fact, so that it stays true when the loop is repaired. -/
theorem stalled_client_isolated_counterexample :
    (match run demoCfg init ffWitness with
     | .ok s => s.clients.any (fun c => c.id == 1 && c.done.any (fun x => x.1.seq == 2 && (match x.2 with | .overflow _ => true | _ => false)))
     | .error _ => false) = forceFreeLiveHead := by
  decide

/-! ## service_union -/

/-- Proved: the grant the daemon computes for a client does not change when the daemon masks the client's stored
requests with what was granted (the `&=` after `vbi_capture_update_services`), level by level - so recomputing the
grants of the OTHER clients on somebody's service change gives them the same services again. -/
theorem service_union_partial (a supp : Nat) : (a &&& (a &&& supp)) &&& supp = a &&& supp := by
  apply Nat.eq_of_testBit_eq
  intro i
  simp only [Nat.testBit_and]
  cases a.testBit i <;> cases supp.testBit i <;> rfl

/-- the witness history: two clients, services 1 and 4|2 at different strictness, device opened for the union,
closed when both have left -/
theorem service_union_witness :
    (match run demoCfg init [.conn 1 1 0, .credit 0 100000, .conn 6 2 0, .credit 1 100000, .iter, .iter, .iter, .iter] with
     | .ok s => s.dev.opened && s.dev.allServices == 7
     | .error _ => false) = true ∧
    (match run demoCfg init [.conn 1 1 0, .credit 0 100000, .conn 6 2 0, .credit 1 100000, .iter, .iter, .iter, .iter,
        .close 0, .iter, .close 1, .iter, .iter] with
     | .ok s => !s.dev.opened && s.clients.isEmpty
     | .error _ => false) = true := by
  decide

end Zvbi.Props.C18
