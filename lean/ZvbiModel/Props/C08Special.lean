import ZvbiModel.Cc.Refine18
import ZvbiModel.Cc.Refine19
/-!
# C08, continued - special characters inside caption rows (widening of `refines_Eia608_scripts_*`)

Property theorems only; lemmas in `Cc/Refine15.lean` (one special character as a step of the row simulation) and
`Cc/Refine16..18.lean` (pop-on captions, roll-up and paint-on scripts whose text mixes basic and special characters).  Model `Cc/Model.lean`, reference
`Cc/Spec.lean` (`Eia608`).  Special character k = control pair 0x11 / 0x19 (0x30 | k), k = 0..15; k = 9 is the
transparent space, which is not a character and stays outside (libzvbi moves `col1` without a word break there).
-/
namespace Zvbi.Props.C08Special
open Zvbi.Cc Zvbi.Gen.Cc Eia608

/-- **special_char_step.**  A special-character pair (first byte 0x11 / 0x19 on either field, second byte 0x30..0x3F
except 0x39) runs `specialChar` on the addressed channel; and in ANY mode, for a channel and a reference service whose
current rows hold the same one segment with the same cursor and pen (`RowSim`): both type ONE cell, the character of
15.119 (g) (`Eia608.specialChar k`) with the current pen, at the cursor; the relation is preserved with the segment
extended by that cell; the reference changes no other row; libzvbi raises no event and leaves the displayed memory
alone (a special character is not a space, so there is no word break). -/
theorem special_char_step (s : Cc.St) (c1 : Nat) (f2 : Bool) (h1 : c1 &&& 7 = 1) (k : Nat) (hk : k < 16) (h9 : k ≠ 9) :
    captionCommand s c1 (0x30 ||| k) f2 =
      s.modCh (cmdChan s c1 f2) (fun ch => Cc.specialChar ch (cmdChan s c1 f2) (0x30 ||| k)) ∧
    ∀ (ch : Channel) (v : Service) (lead : Bool) (c0 : Nat) (xs : List SCell) (chan : Nat),
      ChInv ch → RowSim ch v lead c0 xs → c0 + xs.length ≤ 32 →
      RowSim (Cc.specialChar ch chan (0x30 ||| k)) (v.exec (.special k)) lead c0
        (xs ++ [{ ch := Eia608.specialChar k, pen := v.pen }]) ∧
      (∀ r cc, r ≠ v.row → (v.exec (.special k)).target r cc = v.target r cc) ∧
      ChInv (Cc.specialChar ch chan (0x30 ||| k)) ∧
      (Cc.specialChar ch chan (0x30 ||| k)).nev = ch.nev ∧
      (∀ r j, j < 34 → (Cc.specialChar ch chan (0x30 ||| k)).dcell r j = ch.dcell r j) := by
  obtain ⟨a, b, _⟩ := special_c2 k hk
  refine ⟨dispatch_special s c1 _ f2 h1 a b, fun ch v lead c0 xs chan h Q hroom => ?_⟩
  obtain ⟨R, O, I, _, n, d⟩ := special_sim h Q chan k hk h9 hroom
  exact ⟨R, O, I, n, d⟩

/-- the pair 0x11 0x37 (musical note) is such a pair, and the reference decodes it as special character 7 -/
example : (0x11 &&& 7 = 1) ∧ (0x30 ||| 7 = 0x37) ∧ Eia608.decodeCmd 1 0x37 = some (0, .special 7) ∧
    Eia608.specialChar 7 = 0x266A := by decide

/-- **midrow_step** (mid-row codes inside a row, step level; needs the F46 repair `midrowItalicsKeepsColour`, a generated
fact).  A mid-row code (first byte 0x11 / 0x19, second byte 0x20..0x2F, either field) runs `midRow` on the addressed
channel; and in ANY mode, for a channel and a reference service related by `RowSim`: both switch to the same new pen -
colour k = bits 1-3 resp. italics keeping the colour, underline = bit 0, flash off, background kept - for EVERY old pen,
and both type ONE space with that pen at the cursor; the relation is preserved with the segment extended by that cell,
the reference changes no other row; libzvbi word-breaks: outside pop-on mode the row is copied to the display with one
event, in pop-on mode nothing is displayed and no event is raised.  The script theorems do not thread mid-row codes
through yet (a `Glyph` run keeps one pen). -/
theorem midrow_step (hk : midrowItalicsKeepsColour = true) (s : Cc.St) (c1 c2 : Nat) (f2 : Bool) (h1 : c1 &&& 7 = 1)
    (h2 : 0x20 ≤ c2) (h3 : c2 ≤ 0x2F) :
    captionCommand s c1 c2 f2 = s.modCh (cmdChan s c1 f2) (fun ch => midRow ch c2) ∧
    ∀ (ch : Channel) (v : Service) (lead : Bool) (c0 : Nat) (xs : List SCell),
      ChInv ch → RowSim ch v lead c0 xs → c0 + xs.length ≤ 32 →
      let p : Pen := v.pen' ((c2 >>> 1) &&& 7) (c2 &&& 1 == 1) false
      let x : SCell := { ch := 0x20, pen := p }
      let v' : Service := v.exec (.midRow ((c2 >>> 1) &&& 7) (c2 &&& 1 == 1))
      RowSim (midRow ch c2) v' (!(((xs ++ [x]).map toCell).getD 0 default).isSpace) c0 (xs ++ [x]) ∧
      v'.pen = p ∧
      (∀ r cc, r ≠ v.row → v'.target r cc = v.target r cc) ∧
      ChInv (midRow ch c2) ∧
      (if ch.mode ≠ .popOn then
        (midRow ch c2).nev = ch.nev + 1 ∧
        ∀ r j, j < 34 → (midRow ch c2).dcell r j = if r = ch.row then (midRow ch c2).hcell r j else ch.dcell r j
       else (midRow ch c2).nev = ch.nev ∧ ∀ r j, j < 34 → (midRow ch c2).dcell r j = ch.dcell r j) := by
  have hb : c2 &&& 0x10 = 0 := by
    have : ∀ c < 0x30, 0x20 ≤ c → c &&& 0x10 = 0 := by decide
    exact this c2 (by omega) h2
  exact ⟨dispatch_midrow s c1 c2 f2 h1 (by omega) hb, fun ch v lead c0 xs h Q hroom => midrow_sim hk h Q c2 hroom⟩

/-- the reference decodes 0x11 0x2E (italics) / 0x11 0x29 (blue, underlined) as mid-row codes with these arguments -/
example : Eia608.decodeCmd 1 0x2E = some (0, .midRow 7 false) ∧ Eia608.decodeCmd 1 0x29 = some (0, .midRow 4 true) ∧
    ((0x2E >>> 1) &&& 7 = 7) ∧ ((0x29 >>> 1) &&& 7 = 4) := by decide

/-- **refines_Eia608_scripts, pop-on captions with special characters** (channel level, every caption channel
CC1..CC4).  From any state in which libzvbi's channel and the reference service agree (`IdleRel`; the fresh decoder
is one: `init_idle`), for every well-formed stream of pop-on captions `RCL ENM (PAC glyph*)* EOC` whose rows mix
basic characters 0x20..0x7F and special characters (`gStreamOk`, judged on the reference state: every PAC - any row,
indent, colour, italics, underline - addresses a row still empty in the non-displayed memory, the glyphs fit into the
row): after every End Of Caption the 510 cells `vbi_fetch_cc_page` returns equal the reference display memory as
rendered (characters of the standard's chart, colours, underline, italics, flash, opacity, solid spaces), and the
two decoders are again in agreement.  Induction over captions, rows and glyphs.
Not covered here: the byte level of the special-character pairs (parity, the field-1 repetition latch for the doubled
pair, NUL fillers), which `refines_Eia608_scripts_popon` has for basic characters only. -/
theorem refines_Eia608_scripts_popon_special (chan : Nat) (hchan : chan < 4) (caps : List (List GRow))
    (ch : Channel) (v : Service) (I : IdleRel ch v) (hok : gStreamOk v caps) :
    IdleRel (caps.foldl (gCaptionModel chan) ch) (caps.foldl gCaptionSpec v) ∧
    ∀ n, n ≤ caps.length →
      pageMatches ((caps.take n).foldl (gCaptionModel chan) ch) ((caps.take n).foldl gCaptionSpec v) :=
  popon_glyph_stream_refines chan hchan caps I hok

/-- a start state: CC1 of the fresh decoder against the fresh reference service -/
example : ∃ ch, init.chans[0]? = some ch ∧ IdleRel ch (Service.init false) := init_idle 0 (by decide)

set_option maxRecDepth 100000 in
/-- a well-formed one-caption stream with special characters: `RCL ENM PAC(row 15) "A" <note> "B" <registered> EOC` -/
example : gStreamOk (Service.init false) [[⟨4, 0x70, [.code 0x41, .special 7, .code 0x42, .special 0]⟩]] :=
  ⟨⟨⟨by decide, by decide, by decide, 14, 0, none, false, rfl, fun _ => rfl, by decide, by decide⟩, trivial⟩, trivial⟩

/-- **refines_Eia608_scripts, roll-up scripts with special characters** (channel level, CC1..CC4).  From any `IdleRel`
state, a well-formed roll-up script `RUn [PAC] (glyph run | CR)*`, n = 2, 3, 4 (`GRollScript.ok`, judged on the reference
state: defined PAC, non-empty runs of basic and special characters that fit into the row): right after `RUn [PAC]`,
after every run that ends with a space - a special character never does - and after every carriage return the fetched
page equals the reference display memory, cell for cell. -/
theorem refines_Eia608_scripts_rollup_special (chan : Nat) (hchan : chan < 4) (ch : Channel) (v : Service)
    (I : IdleRel ch v) (sc : GRollScript) (hok : sc.ok v) :
    pageMatches (sc.startModel chan ch) (sc.startSpec v) ∧
    ∀ k, (hk0 : 0 < k) → (hk : k ≤ sc.ops.length) → (sc.ops[k - 1]'(by omega)).visible = true →
      pageMatches ((sc.ops.take k).foldl (gRollOpModel chan) (sc.startModel chan ch))
        ((sc.ops.take k).foldl gRollOpSpec (sc.startSpec v)) :=
  rollup_glyph_refines I hchan sc hok

set_option maxRecDepth 100000 in
/-- a well-formed roll-up script on the fresh reference service: `RU2 "A" <note> " " CR <registered> "B " CR` -/
example : GRollScript.ok (Service.init false)
    ⟨2, none, [.text [.code 0x41, .special 7, .code 0x20], .cr, .text [.special 0, .code 0x42, .code 0x20], .cr]⟩ := by
  refine ⟨by decide, by decide, ?_, ?_⟩
  · intro c1 c2 h; cases h
  · exact ⟨⟨by decide, by decide, by decide⟩, trivial, ⟨by decide, by decide, by decide⟩, trivial, trivial⟩

example : GOp.visible (.text [.code 0x41, .special 7, .code 0x20]) = true ∧ GOp.visible (.text [.code 0x41, .special 7]) = false := by
  decide

/-- **refines_Eia608_scripts, paint-on scripts with special characters** (channel level, CC1..CC4).  From any `IdleRel`
state whose cursor row is empty on display, a well-formed paint-on script `RDC (PAC | glyph run)*` (each PAC addresses a
row that is empty in the reference's displayed memory, glyphs only after a PAC): right after RDC, after every PAC and
after every run that ends with a space the fetched page equals the reference display memory. -/
theorem refines_Eia608_scripts_painton_special (chan : Nat) (hchan : chan < 4) (ch : Channel) (v : Service)
    (I : IdleRel ch v) (hrow : ∀ c, v.disp ch.row c = none) (ops : List GPOp) (hok : gpopsOk (v.exec .rdc) false ops) :
    pageMatches (rdcModel ch) (v.exec .rdc) ∧
    ∀ k, (hk0 : 0 < k) → (hk : k ≤ ops.length) → (ops[k - 1]'(by omega)).visible = true →
      pageMatches ((ops.take k).foldl (gPaintOpModel chan) (rdcModel ch)) ((ops.take k).foldl gPaintOpSpec (v.exec .rdc)) :=
  painton_glyph_refines I hrow hchan ops hok

set_option maxRecDepth 100000 in
/-- a well-formed paint-on script on the fresh reference service: `RDC PAC(row 15) "A" <note> " "` -/
example : gpopsOk ((Service.init false).exec .rdc) false [.pac 4 0x70, .text [.code 0x41, .special 7, .code 0x20]] :=
  ⟨⟨by decide, by decide, by decide, 14, 0, none, false, rfl, fun _ => rfl⟩, ⟨rfl, by decide, by decide, by decide⟩, trivial⟩

end Zvbi.Props.C08Special
