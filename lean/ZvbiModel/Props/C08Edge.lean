import ZvbiModel.Cc.Edge1
/-!
# C08, continued - the right margin: Transparent Space (0x11/0x19 0x39), also behind a full row

Property theorems only; lemmas are in `Cc/Edge1.lean` (on top of `Cc/Paint1..3.lean`, `Cc/Refine15.lean`).
Model `Cc/Model.lean` (src/caption.c), reference `Cc/Spec.lean` (`Eia608`).  `hcell` / `dcell` = cell (row, column)
of libzvbi's working (non-displayed) and displayed memory; columns 1..32 are the caption columns, a cursor at
column 33 (`COLUMNS - 1`) is "parked" behind a row that holds 32 characters.
-/
namespace Zvbi.Props.C08Edge
open Zvbi.Cc Zvbi.Gen.Cc

/-- **transparent_space_step.**  The pair 0x11/0x19 0x39 (any first byte with low bits 001, second byte 0x39) is
dispatched to the Transparent Space branch of `caption_command`, and on every channel that satisfies the decoder
invariant that branch has exactly this effect: the cell AT THE CURSOR - column 32 when the cursor is parked at
column 33 behind a full row - of the working memory becomes the transparent space of the channel class (opaque in
text mode); the cursor moves one column to the right and `col1` follows it, unless it is parked; no other cell of
the working memory, no cell of the displayed memory, not the mode / row / pen change and no event is raised.
(Seed C08-g drops the parked arm: on that source the correspondence fails on the `wf-fullrow` / `margin` classes.) -/
theorem transparent_space_step (s : St) (c1 : Nat) (f2 : Bool) (h1 : c1 &&& 7 = 1) :
    captionCommand s c1 0x39 f2 = s.modCh (cmdChan s c1 f2) (fun ch => specialChar ch (cmdChan s c1 f2) 0x39) ∧
    ∀ (ch : Channel) (chan : Nat), ChInv ch →
      let ch' := specialChar ch chan 0x39
      (∀ r j, j < 34 → ch'.hcell r j =
        if r = ch.row ∧ j = (if ch.col < 33 then ch.col else 32) then some (transpSpace (decide (4 ≤ chan)))
        else ch.hcell r j) ∧
      (∀ r j, ch'.dcell r j = ch.dcell r j) ∧
      ch'.col = (if ch.col < 33 then ch.col + 1 else ch.col) ∧
      ch'.col1 = (if ch.col < 33 then ch.col + 1 else ch.col1) ∧
      ch'.mode = ch.mode ∧ ch'.row = ch.row ∧ ch'.attr = ch.attr ∧ ch'.nev = ch.nev ∧ ChInv ch' := by
  refine ⟨dispatch_special s c1 0x39 f2 h1 (by decide) (by decide), fun ch chan h => ?_⟩
  intro ch'
  have e : ch' = tsCell ch (transpSpace (decide (4 ≤ chan))) := specialChar_ts ch chan 0x39 (by decide)
  rw [e]
  obtain ⟨a1, a2, a3, a4, a5, a6, a7, a8, _, a10⟩ := tsCell_spec h (transpSpace (decide (4 ≤ chan)))
  exact ⟨a1, a2, a6, a7, a3, a4, a5, a8, a10⟩

/-- non-vacuity: CC1 of the fresh decoder satisfies the invariant, and there the cursor is not parked -/
example : ChInv (init.chans[0]'(by rw [init_inv.len]; decide)) := init_inv.chs _ (List.getElem_mem _)

/-- **refines_Eia608_edits_ts_partial** (widens `C08Paint.refines_Eia608_edits_partial` by the Transparent Space and by
mid-row codes).  For a channel in paint-on, roll-up or text mode in relation `EditSim` with a reference service (same
cursor, matching pen, every reference cell shown exactly, every empty reference cell without glyph, other rows on
display): EVERY script of characters 0x20..0x7F, Backspace (any column, also column 1 and the parked cursor),
Delete to End of Row, Erase Displayed Memory, Tab Offsets over empty cells, Transparent Spaces at any cursor
position - including the parked cursor, where the 32nd character must disappear - AND mid-row codes (all 16: colour
/ italics, underline; both models switch to the same pen and type a space with it) keeps the relation after every
prefix, and after every prefix that ends with a space, a mid-row code, DER or EDM the DISPLAYED memory shows the
reference display memory.  Well-formedness (`xopsOk`) is judged on the reference state; Transparent Space and mid-row
codes need no side condition.  `hk` = the generated fact that the italics mid-row code keeps the colour (repair of
F46; without it `C08.refines_Eia608_counterexample` applies).  Partial as before: solid spaces are not pinned down, no
PAC / other special character inside such a script. -/
theorem refines_Eia608_edits_ts_partial (hk : midrowItalicsKeepsColour = true) (chan : Nat) (ops : List XOp) (ch : Channel) (v : Eia608.Service)
    (S : EditSim ch v) (hok : xopsOk v ops) :
    EditSim (runX chan ch ops) (specX v ops) ∧
    ∀ k, (hk0 : 0 < k) → (hk : k ≤ ops.length) → (ops[k - 1]'(by omega)).shows = true →
      Visible (runX chan ch (ops.take k)) (specX v (ops.take k)) :=
  xedits_refine hk chan ops S hok

/-- a well-formed script: `A <TS> B <space> BS <TS> <mid-row green underline> C DER` -/
example : xopsOk (Eia608.Service.init true)
    [.edit (.char 0x41), .ts, .edit (.char 0x42), .edit (.char 0x20), .edit .bs, .ts, .midrow 0x23, .edit (.char 0x43),
     .edit .der] := by
  refine ⟨⟨by decide, by decide⟩, trivial, ⟨by decide, by decide⟩, ⟨by decide, by decide⟩, trivial, trivial, trivial,
    ⟨by decide, by decide⟩, trivial, trivial⟩

/-- **transparent_space_parked_erases_column_32** (the statement seed C08-g breaks).  In paint-on, roll-up or text
mode, with the cursor parked behind a full row (`col = 33`) and the channel in relation `EditSim` with the reference:
after a Transparent Space column 32 of libzvbi's working row holds the transparent space, the reference memory is
EMPTY at (row, 32), both cursors stay parked and the relation still holds - so the next visibility point (DER, a
cursor command, CR) shows a row WITHOUT the 32nd character; spelled out for DER: the displayed cell (row, 32)
carries no glyph and the reference display has nothing there. -/
theorem transparent_space_parked_erases_column_32 (chan : Nat) (ch : Channel) (v : Eia608.Service)
    (S : EditSim ch v) (hp : ch.col = 33) :
    (specialChar ch chan 0x39).hcell ch.row 32 = some (transpSpace (decide (4 ≤ chan))) ∧
    (v.exec (.special 9)).disp ch.row 32 = none ∧
    (specialChar ch chan 0x39).col = 33 ∧ (v.exec (.special 9)).col = 33 ∧
    EditSim (specialChar ch chan 0x39) (v.exec (.special 9)) ∧
    (∃ c, (deleteToEnd (specialChar ch chan 0x39) chan).dcell ch.row 32 = some c ∧ c.unicode = 0x20) ∧
    ((v.exec (.special 9)).exec .der).disp ch.row 32 = none := by
  have e := specialChar_ts ch chan 0x39 (by decide)
  rw [e]
  obtain ⟨p1, p2, p3, p4⟩ := parked_ts_erases S chan hp
  have S1 := sim_ts S chan
  have hrow : ch.row < 15 := by have := S.inv.row_le; omega
  have D := (sim_der S1 chan).2 ch.row 32 hrow (by omega) (by omega)
  have hd : ((v.exec (.special 9)).exec .der).disp ch.row 32 = none := by
    rw [spec_der S1.vmode.1 S1.vmode.2]
    show (if ch.row = (v.exec (.special 9)).row ∧ (v.exec (.special 9)).col ≤ 32 then none
          else (v.exec (.special 9)).disp ch.row 32) = none
    rw [p4, if_neg (by omega)]; exact p2
  refine ⟨p1, p2, p3, p4, S1, ?_, hd⟩
  have D' : cellSim ((deleteToEnd (tsCell ch (transpSpace (decide (4 ≤ chan)))) chan).dcell ch.row 32)
      (((v.exec (.special 9)).exec .der).disp ch.row 32) := D
  rw [hd] at D'
  exact D'

/-- non-vacuity: T1 after EDM and 32 characters is in relation with the reference and has the cursor parked -/
example : ∃ (ch : Channel) (v : Eia608.Service), EditSim ch v ∧ ch.col = 33 := by
  have R := (edits_refine 4 (List.replicate 32 (EOp.char 0x41)) start_sim (fill_ok 32 _)).1
  refine ⟨_, _, R, ?_⟩
  rw [← R.col]
  decide

/-- **backspace_at_margins** (BS at column 1 and behind column 32, every mode incl. pop-on).  With the cursor in column 1
a Backspace changes NOTHING - in libzvbi (any channel state) and in the reference.  With the cursor parked behind a
full row (`col = 33`; channel with the invariant and a mode) it erases column 32 and moves there: the working cell
(row, 32) becomes the transparent space, no other cell of either memory changes, no event; the reference empties
(row, 32) of the memory it is writing to and moves to column 32. -/
theorem backspace_at_margins (ch : Channel) (chan : Nat) (v : Eia608.Service) :
    (ch.col ≤ 1 → backspace ch chan = ch) ∧
    (v.col ≤ 1 → v.exec .bs = v) ∧
    (ChInv ch → ch.mode ≠ .none → ch.col = 33 →
      (backspace ch chan).col = 32 ∧ (backspace ch chan).row = ch.row ∧ (backspace ch chan).nev = ch.nev ∧
      (∀ r j, j < 34 → (backspace ch chan).hcell r j =
        if r = ch.row ∧ j = 32 then some (transpSpace (decide (4 ≤ chan))) else ch.hcell r j) ∧
      (∀ r j, (backspace ch chan).dcell r j = ch.dcell r j)) ∧
    (v.mode ≠ none → v.col = 33 → (v.exec .bs).col = 32 ∧ (v.exec .bs).target v.row 32 = none) := by
  refine ⟨fun hc => ?_, fun hc => ?_, fun h hm hp => ?_, fun hm hp => ?_⟩
  · unfold backspace
    have : (ch.mode != Mode.none && decide (ch.col > 1)) = false := by
      simp only [Bool.and_eq_false_iff, decide_eq_false_iff_not]; right; omega
    rw [this]; rfl
  · unfold Eia608.Service.exec
    simp only [hc, or_true, if_true]
  · obtain ⟨b1, _, b3, b4, _, _, _, b8, b9⟩ := backspace_cells h chan hm (by omega)
    refine ⟨by rw [b1, hp], b3, b4, fun r j hj => ?_, b9⟩
    rw [b8 r j hj, hp]
  · unfold Eia608.Service.exec
    have : ¬ (v.mode = none ∨ v.col ≤ 1) := by
      intro h; rcases h with h | h
      · exact hm h
      · omega
    simp only [this, if_false]
    unfold Eia608.Service.setTarget Eia608.Service.target
    by_cases hpop : v.mode = some .popOn
    · simp only [hpop, if_true, hp]
      unfold Eia608.Mem.set
      simp
    · simp only [hpop, if_false, hp]
      unfold Eia608.Mem.set
      simp

/-- non-vacuity of the parked case: T1 after EDM and 32 characters -/
example : ∃ ch : Channel, ChInv ch ∧ ch.mode ≠ .none ∧ ch.col = 33 := by
  have R := (edits_refine 4 (List.replicate 32 (EOp.char 0x41)) start_sim (fill_ok 32 _)).1
  refine ⟨_, R.inv, R.mode.2, ?_⟩
  rw [← R.col]
  decide

end Zvbi.Props.C08Edge
