import ZvbiModel.Cache.HiSub
import ZvbiModel.Cache.UniqueKey
import ZvbiModel.Cache.EvictLemmas
import ZvbiModel.Cache.LemmasWitness
import ZvbiModel.Cache.LemmasAbsR
/-!
# C10, round 3: eviction / limits, 'highest subpage', the repaired source shape

All theorems hold for both source shapes of `_vbi_cache_put_page` (`fix`, see Props/C10.lean) and for histories with
ANY memory limit (`Op.setLimit`, the body of `vbi_cache_set_memory_limit`; the harness pokes the field) - `Inv` contains
`memory_used <= memory_limit`, so `inv_reachable` already says that the limit holds after every operation, also while
pages are referenced (referenced pages do not count, exactly as cache.c defines it).  The network limit is the
constant 1 of libzvbi 0.2 (`vbi_cache_set_network_limit` is compiled for 0.3 only); the statements are about
`nNetsLimit`, whatever it is.
-/
namespace Zvbi.Props.C10Evict
open Zvbi.Cache Zvbi.Gen.Cache

theorem good_reach (fix : Bool) (ops : List Op) : Good (runF fix init ops) := good_runF fix good_init ops

/-! ## eviction -/

/-- Eviction respects references (seeds C10-b, C10-d).  Through ANY operation - stores that evict under memory pressure,
    a lowered memory limit, network add / recycle, channel switch, purge -
    (1) a page with `ref > 0` is still allocated, same content (unless the operation is the release of its last reference),
    (2) the network of such a page is still on the network list,
    (3) the network handed out by `_vbi_cache_add_network (ca, NULL)` (also inside a channel switch) is either new or was a
        network with no network reference and no referenced page: `recycle_network` never takes a network that is in use
        in any way. -/
theorem evict_respects_references (fix : Bool) (ops : List Op) (op : Op) :
    let s := runF fix init ops
    (∀ p ∈ s.pages, 0 < p.ref → ¬ (op = .unref p.id ∧ p.ref = 1) →
      ∃ q ∈ (stepF fix s op).1.pages, q.id = p.id ∧ q.net = p.net ∧ q.pgno = p.pgno ∧ q.subno = p.subno ∧ q.tag = p.tag
        ∧ ∃ n' ∈ (stepF fix s op).1.nets, n'.id = p.net)
    ∧ (∀ n ∈ s.nets, n.id = s.addNetwork.2 → n.ref = 0 ∧ n.nRef = 0 ∧ ∀ p ∈ s.pages, p.net = n.id → p.ref = 0) := by
  intro s
  have g := good_reach fix ops
  refine ⟨fun p hp hr hno => ?_, fun n hn e => ?_⟩
  · rcases held_full_stepF fix g op p hp hr with h | ⟨q, hq, c, _⟩
    · exact absurd h hno
    · obtain ⟨e1, e2, e3, e4, _, _, _, e8⟩ := c
      obtain ⟨n', hn', en⟩ := (good_stepF fix g op).1.netOf q hq
      exact ⟨q, hq, e1.symm, e2.symm, e3.symm, e4.symm, e8.symm, n', hn', by rw [en, e2]⟩
  · obtain ⟨r0, r1⟩ := addNetwork_id_unreferenced g.1 n hn e
    refine ⟨r0, r1, fun p hp hnet => ?_⟩
    have hc := g.1.nRef n hn
    by_cases hz : p.ref = 0
    · exact hz
    · have : 0 < n.nRef := by
        rw [hc]
        exact List.countP_pos_iff.2 ⟨p, hp, by simp [hnet]; omega⟩
      omega

/-- the channel switch of the decoder: the old network is released, the new one is not a network anybody still uses -/
example : (runF false init [.addNet, .put 0 ⟨0x100, 0, 0, 0, 0, 7⟩, .chsw 0]).nets.map (fun n => (n.id, n.ref, n.nRef))
    = [(1, 1, 0), (0, 0, 1)] := by decide

/-- Bookkeeping is exact after any eviction (seeds C10-a, C10-c): after every history - with any sequence of memory limits -
    the counters of EVERY network (not only the one stored into) equal the number of allocated pages, referenced pages and
    versions per page number (the last modulo 65536, see `nsub_exact_partial`), `memory_used` is the sum of the sizes of the
    unreferenced pages and within the limit, the cache-wide page count is the number of allocated pages. -/
theorem evict_bookkeeping_exact (fix : Bool) (ops : List Op) :
    let s := runF fix init ops
    (∀ n ∈ s.nets, n.nCached = s.pages.countP (fun p => p.net = n.id)
      ∧ n.nRef = s.pages.countP (fun p => p.net = n.id ∧ 0 < p.ref)
      ∧ ∀ pg, (n.getStat pg).nSub = s.pages.countP (fun p => p.net = n.id ∧ p.pgno = pg) % 65536)
    ∧ s.memUsed = ((s.pages.filter (fun p => p.ref = 0)).map Page.size).sum ∧ s.memUsed ≤ s.memLimit
    ∧ s.nCachedPages = s.pages.length ∧ (∀ p ∈ s.pages, ∃ n ∈ s.nets, n.id = p.net) := by
  intro s
  have g := good_reach fix ops
  exact ⟨fun n hn => ⟨g.1.nCached n hn, g.1.nRef n hn, g.1.nSub n hn⟩, g.1.mem, g.2.2, g.1.nPages, g.1.netOf⟩

/-- non-vacuity, the situation of seed C10-c: two held networks, memory limit = one plain page, network 0 stores and
    releases page 0x123, network 1 stores 0x145: the victim is un-counted from ITS OWN network -/
example : (runF false init [.addNet, .addNet, .setLimit 1564, .put 0 ⟨0x123, 0, 0, 0, 0, 1⟩, .unref 0,
      .put 1 ⟨0x145, 0, 0, 0, 0, 2⟩]).nets.map (fun n => (n.id, n.nCached, (n.getStat 0x123).nSub, (n.getStat 0x145).nSub))
    = [(1, 1, 0, 1), (0, 0, 0, 0)] := by decide

/-! ## networks stay until a limit is exceeded -/

/-- Releasing a page reference never removes a network that is not a zombie (seed C10-e): every network that was on the
    list and not marked for deletion is still there afterwards, not marked - whatever its reference counts. -/
theorem network_kept_on_page_release (fix : Bool) (ops : List Op) (pid : Nat) :
    let s := runF fix init ops
    ∀ n ∈ s.nets, n.zombie = false → ∃ n' ∈ (stepF fix s (.unref pid)).1.nets, n'.id = n.id ∧ n'.zombie = false := by
  intro s n hn hz
  have g := good_reach fix ops
  show ∃ n' ∈ (step s (.unref pid)).1.nets, _
  unfold step; simp only
  split
  · exact ⟨n, hn, rfl, hz⟩
  · split
    · exact ⟨n, hn, rfl, hz⟩
    · exact pageUnref_liveKept g.1 g.2.1 pid n hn hz

/-- An unreferenced network is kept until the network limit is exceeded: releasing a network reference while
    `n_cached_networks <= n_networks_limit` removes no network that is not a zombie (in particular not the one released). -/
theorem network_kept_until_limit (fix : Bool) (ops : List Op) (nid : Nat)
    (hl : (runF fix init ops).nCachedNets ≤ (runF fix init ops).nNetsLimit) :
    let s := runF fix init ops
    ∀ n ∈ s.nets, n.zombie = false → ∃ n' ∈ (stepF fix s (.netUnref nid)).1.nets, n'.id = n.id ∧ n'.zombie = false := by
  intro s n hn hz
  have g := good_reach fix ops
  show ∃ n' ∈ (step s (.netUnref nid)).1.nets, _
  unfold step; simp only
  split
  · exact ⟨n, hn, rfl, hz⟩
  · exact netUnref_liveKept g.1 hl nid n hn hz

/-- the situation of seed C10-e: network reference dropped first, page reference last - network and pages stay -/
example : (runF false init [.addNet, .put 0 ⟨0x100, 0, 0, 0, 0, 7⟩, .put 0 ⟨0x123, 0, 0, 0, 0, 8⟩, .unref 1, .netUnref 0, .unref 0]).nets.map
      (fun n => (n.id, n.zombie, n.nCached)) = [(0, false, 2)] := by decide

/-! ## 'highest subpage' -/

/-- `vbi_cache_hi_subno` agrees with the map: on a history whose states never hold 65536 or more allocated versions of
    one page number (`Tame`: the hypothesis of `nsub_exact_partial`, on every state of the history, plus sub-page numbers of
    at most 16 bits) the recorded range `subno_min .. subno_max` bounds the sub-page number of every allocated version of
    the page - cached ones and replaced ones still held. -/
theorem hi_subno_agrees (fix : Bool) (ops : List Op) (ht : Tame fix init ops) (n : Net) (p : Page)
    (hn : n ∈ (runF fix init ops).nets) (hp : p ∈ (runF fix init ops).pages) (hnet : p.net = n.id) :
    (n.getStat p.pgno).subMin ≤ p.subno ∧ p.subno ≤ (n.getStat p.pgno).subMax :=
  hi_runF fix ops good_init hi_init ht n hn p hp hnet

/-- ... and `hi_subno` itself answers `subno_max` -/
theorem hi_subno_answer (fix : Bool) (s : State) (nid pgno : Nat) (n : Net) (hf : s.findNet nid = some n)
    (hr : 0x100 ≤ pgno ∧ pgno ≤ 0x8FF) : (stepF fix s (.hiSubno nid pgno)).2 = .num (n.getStat pgno).subMax := by
  show (step s (.hiSubno nid pgno)).2 = _
  unfold step; simp only [hf]
  rw [if_neg (by omega)]

/-- the hypothesis is met by every history that never holds 65536 pages (sub-page numbers of at most 16 bits) -/
theorem hi_subno_agrees_small (fix : Bool) (ops : List Op) (h1 : ∀ op ∈ ops, SubOk op)
    (h2 : ∀ k, k ≤ ops.length → (runF fix init (ops.take k)).pages.length < 65536) : Tame fix init ops :=
  tame_of_small fix ops init h1 h2

/-- it is attained when the code claims so: right after a store that leaves exactly one allocated version of the page
    number, `subno_min = subno_max =` its sub-page number (non-vacuity of `hi_subno_agrees`, both shapes) -/
example : ((runF true init [.addNet, .put 0 ⟨0x101, 2, 0, 0, 0, 7⟩, .put 0 ⟨0x101, 5, 0, 0, 0, 8⟩]).nets.map
      (fun n => ((n.getStat 0x101).subMin, (n.getStat 0x101).subMax))) = [(2, 5)] := by decide

example : Tame true init [.addNet, .put 0 ⟨0x101, 2, 0, 0, 0, 7⟩] := by
  refine tame_of_small true _ init (by
    intro op hop
    simp only [List.mem_cons, List.not_mem_nil, or_false] at hop
    rcases hop with rfl | rfl
    · trivial
    · show (2 : Nat) < 65536; decide) ?_
  intro k hk
  have : k = 0 ∨ k = 1 ∨ k = 2 := by simp at hk; omega
  rcases this with rfl | rfl | rfl <;> decide

/-! ## the repaired source shape (fixes/C10-put-replaces-all-versions.diff) -/

/-- Repaired shape: the cache IS a map.  After any history (any memory limit, eviction, references, channel switches) at
    most one retrievable version exists per (network, page number, key inside the page number), where the key is the low
    byte of the sub-page number for BCD page numbers and the low nibble for hex page numbers (`lowKey`) - in particular per
    (network, pgno, subno): the statement `unique_key_counterexample` refutes for the shape as found. -/
theorem unique_key_repaired (ops : List Op) : ∀ p ∈ (runF true init ops).pages, ∀ q ∈ (runF true init ops).pages,
    p.pri ≠ .zombie → q.pri ≠ .zombie → p.net = q.net → p.pgno = q.pgno →
    lowKey p.pgno p.subno = lowKey q.pgno q.subno → p.id = q.id :=
  ukey_runR ops good_init ukey_init

/-- ... hence per exact key too (the form of `unique_key_counterexample`) -/
theorem unique_subno_repaired (ops : List Op) : ∀ p ∈ (runF true init ops).pages, ∀ q ∈ (runF true init ops).pages,
    p.pri ≠ .zombie → q.pri ≠ .zombie → p.net = q.net → p.pgno = q.pgno → p.subno = q.subno → p.id = q.id :=
  fun p hp q hq hpz hqz hn hg hs => unique_key_repaired ops p hp q hq hpz hqz hn hg (by rw [hg, hs])

/-- Repaired shape: at most 256 retrievable versions of one page number in one network (one per key; the BCD rule of
    `putKey` admits 80 of the keys, the bound cache.c asserts under CACHE_CONSISTENCY).  The count of the shape as found is
    unbounded (`page_bound_counterexample`).  This retires C17-D2 for a decoder that holds no page references: C17's
    hypothesis `NoWrap` (`chain.length < 65536`) is a consequence of the store rule. -/
theorem version_bound_repaired (ops : List Op) (nid pg : Nat) :
    (runF true init ops).pages.countP (fun p => p.net = nid ∧ p.pgno = pg ∧ p.pri ≠ .zombie) ≤ 256 :=
  version_bound_of_ukey (good_reach true ops).1 (unique_key_repaired ops) nid pg

/-- non-vacuity: the F17 replay on both shapes - 3 copies of 0x101.0x102 as found, one version repaired -/
example : ((runF true init (.addNet :: pairOps 3 0)).pages.map (fun p => (p.pgno, p.subno))) = [(0x101, 0x102)]
    ∧ ((runF false init (.addNet :: pairOps 3 0)).pages.map (fun p => (p.pgno, p.subno))) =
      [(0x101, 0x102), (0x101, 0x102), (0x101, 0x102)] := by decide

/-! ## statements kept visible, not proved -/

/-- `hi_subno_agrees` WITHOUT the hypothesis `Tame`.  **FALSE, on both source shapes** (settled in round 5, Props/C10Hi.lean
    `hi_subno_agrees_full_counterexample`): `n_subpages` counts the allocated versions - replaced ones still held by a
    client included - so a client holding 65536 references on versions of one page number makes the `uint16_t` counter read
    0 and the next store restarts the range (`1 == ps->n_subpages`) below the sub-page number of a version that is still
    cached and retrievable.  (Round 3 expected the failure on the shape as found only, through finding F17.)  What holds for
    every history of the repaired shape: `hi_subno_agrees_refbound` (fewer than 65280 page references held at any time). -/
def hi_subno_agrees_full : Prop :=
  ∀ (fix : Bool) (ops : List Op) (n : Net) (p : Page), n ∈ (runF fix init ops).nets → p ∈ (runF fix init ops).pages →
    p.net = n.id → p.subno ≤ (n.getStat p.pgno).subMax

/-- Repaired shape: store refines the map WITHOUT the F17 exception - under a single-version key all versions of the page
    number are replaced (`aputR`) - as a LIST equation: the most-recently-used order of the remaining versions included.
    PROVED: `refines_map_put_repaired` below (Cache/LemmasAbsR.lean: `delete_page` is a filter on the retrievable versions
    with their ids, the version found stays at the head of the chain through the loop). -/
def refines_map_put_repaired_full : Prop :=
  ∀ (ops : List Op) (nid : Nat) (cn : Net) (a : PutArg), (runF true init ops).findNet nid = some cn →
    a.pgno &&& 0xFF ≠ 0xFF → (0x100 ≤ a.pgno ∧ a.pgno ≤ 0x8FF) →
    (runF true init ops).memUsed + pageSize a.func a.x26 a.x28 ≤ (runF true init ops).memLimit →
    ∀ (s' : State) (r : Option Page), (runF true init ops).putPageF true nid a = .ok (s', r) →
      s'.abs = aputR (runF true init ops).abs (putEntry nid a (putKey (cn.getStat a.pgno).ptype a.pgno a.subno).1)
        (putKey (cn.getStat a.pgno).ptype a.pgno a.subno).2

/-- **Repaired shape: the store refines the map (list form).**  For every reachable state of the repaired source, a store
    with memory not short turns the abstract store into `aputR`: under a single-version key (`mask = 0`) EVERY version of
    the page number in that network is replaced, otherwise exactly the version found under the key; the new version is the
    most recent one and is the page handed out; every other version keeps its place in the most-recently-used order. -/
theorem refines_map_put_repaired : refines_map_put_repaired_full := by
  intro ops nid cn a hf hlow hrange hroom s' r hres
  exact (putPageR_abs (good_reach true ops).1 hf a hlow hrange hroom hres).1

/-- ... and the page handed out is the new version; both source shapes at once (`aputF fix`) -/
theorem refines_map_put_both (fix : Bool) (ops : List Op) (nid : Nat) (cn : Net) (a : PutArg)
    (hf : (runF fix init ops).findNet nid = some cn) (hlow : a.pgno &&& 0xFF ≠ 0xFF) (hrange : 0x100 ≤ a.pgno ∧ a.pgno ≤ 0x8FF)
    (hroom : (runF fix init ops).memUsed + pageSize a.func a.x26 a.x28 ≤ (runF fix init ops).memLimit)
    (s' : State) (r : Option Page) (hres : (runF fix init ops).putPageF fix nid a = .ok (s', r)) :
    s'.abs = aputF fix (runF fix init ops).abs (putEntry nid a (putKey (cn.getStat a.pgno).ptype a.pgno a.subno).1)
        (putKey (cn.getStat a.pgno).ptype a.pgno a.subno).2
    ∧ r.map Page.entry = some (putEntry nid a (putKey (cn.getStat a.pgno).ptype a.pgno a.subno).1) :=
  putPageF_abs fix (good_reach fix ops).1 hf a hlow hrange hroom hres

/-- non-vacuity: a sub-page store, another, then a single-version store leaves ONE retrievable version -/
example : ((runF true init [.addNet, .put 0 ⟨0x100, 1, 0, 0, 0, 1⟩, .put 0 ⟨0x100, 2, 0, 0, 0, 2⟩,
    .put 0 ⟨0x100, 0x100, 0, 0, 0, 3⟩]).abs.map (·.subno)) = [0x100] := by decide +kernel

/-- what is proved about the repaired store WITHOUT the room hypothesis: after a store of the repaired shape no OTHER retrievable
    version of the network has the page number and key of the page handed out - the new version is THE version under its
    key (`putTailR_fresh` + `insertNew`), for every reachable state and without a room hypothesis -/
theorem refines_map_put_repaired_partial (ops : List Op) (nid : Nat) (a : PutArg) (s' : State) (p : Page)
    (hres : (runF true init ops).putPageF true nid a = .ok (s', some p)) :
    ∀ q ∈ s'.pages, q.pri ≠ .zombie → q.net = p.net → q.pgno = p.pgno → lowKey q.pgno q.subno = lowKey p.pgno p.subno →
      p ∈ s'.pages → p.pri ≠ .zombie → q.id = p.id := by
  intro q hq hqz hn hg hl hp hpz
  have hu : UKey s' := ukey_putPageR (good_reach true ops) (unique_key_repaired ops) nid a hres
  exact hu q hq p hp hqz hpz hn hg hl

end Zvbi.Props.C10Evict
