import ZvbiModel.Fmt.LemmasHdr
import ZvbiModel.Props.C02
/-!
# Property C02, round 5: the page-number cells of the header row

`vbi_format_vt_page` replaces the first eight bytes of row 0 (the packet address / page number / control bytes of
the header packet, which are not text) by `"\2%x.%02x\7"`: a fetched page shows its own page number and the low
byte of its sub-code in columns 1..6 of the header, green on the row's background, whatever was transmitted there.
-/
namespace Zvbi.Props.C02Hdr
open Zvbi.Fmt Zvbi.Fmt.L1Spec Zvbi.Props.C02

/-- **header_cells**.  For every page with a three-digit page number (0x100..0xFFF; any sub-code, flags, national
option, character set designation, CLUT offsets and ANY 1000 bytes of content) the cells of row 0, columns 0..7 are:
column 0 a space in the row-start colours (white), columns 1..3 the hex digits of the page number, column 4 a full
stop, columns 5..6 the hex digits of `subno & 0xFF`, column 7 a space - columns 1..7 in green (`foreground_clut` + 2);
each character mapped through the first G0 set of the page (`font[0]`); background `background_clut` + black, no
flash / conceal, normal size, opacity `page_opacity[0]` (transparent on suppress-header, newsflash, subtitle and
inhibit-display pages, else opaque). -/
theorem header_cells (p : PageIn) (h1 : 0x100 ≤ p.pgno) (h2 : p.pgno < 0x1000) (c : Nat) (hc : c < 8) :
    cellAt (format p) 0 c =
      { unicode := if c = 0 ∨ c = 7 then 0x20
          else teletextUnicode (fontOf (charsetDesignation p.charset0 p.national)).g0
                 (fontOf (charsetDesignation p.charset0 p.national)).subset ((hdrCodes p.pgno p.subno).getD c 0),
        fg := if c = 0 then p.fgClut + 7 else p.fgClut + 2, bg := p.bgClut + 0, flash := false, conceal := false,
        size := 0, opacity := pageOpacity0 p.flags } := by
  rw [format_cellAt p 0 c (by omega) (by omega)]
  have hq := hdr_quiet p h1 h2 c (by omega)
  have hcode := codeAt_hdr p c hc h1 h2
  have hcl := hdrCodes_class p.pgno p.subno c hc
  rw [← hcode] at hcl
  have hcell := rowCell_quiet (rowCtx p 0) c _ (by omega) hq hcl
  have : cell .lib p 0 c = rowCell (rowCtx p 0) .lib c := by
    unfold cell cellCx
    simp [isLower]
  rw [this, hcell, hcode]
  have hc8 : c = 0 ∨ c = 1 ∨ c = 2 ∨ c = 3 ∨ c = 4 ∨ c = 5 ∨ c = 6 ∨ c = 7 := by omega
  have hg := fun d => hexDigit_ge d
  have hop : (rowCtx p 0).pageOp = pageOpacity0 p.flags := by simp [rowCtx]
  rw [hop]
  rcases hc8 with rfl | rfl | rfl | rfl | rfl | rfl | rfl | rfl
  · simp [hdrCodes, rowCtx]
  · have := hg (p.pgno / 256)
    have h7 : ¬ hexDigit (p.pgno / 256) ≤ 7 := by omega
    simp [hdrCodes, rowCtx, h7]
  · have := hg (p.pgno / 16 % 16)
    have h7 : ¬ hexDigit (p.pgno / 16 % 16) ≤ 7 := by omega
    simp [hdrCodes, rowCtx, h7]
  · have := hg (p.pgno % 16)
    have h7 : ¬ hexDigit (p.pgno % 16) ≤ 7 := by omega
    simp [hdrCodes, rowCtx, h7]
  · simp [hdrCodes, rowCtx]
  · have := hg ((p.subno &&& 0xff) / 16)
    have h7 : ¬ hexDigit ((p.subno &&& 0xff) / 16) ≤ 7 := by omega
    simp [hdrCodes, rowCtx, h7]
  · have := hg ((p.subno &&& 0xff) % 16)
    have h7 : ¬ hexDigit ((p.subno &&& 0xff) % 16) ≤ 7 := by omega
    simp [hdrCodes, rowCtx, h7]
  · simp [hdrCodes, rowCtx]

/-- page 123, sub-code 0x0045, English: " 123.45 " -/
example : (List.range 8).map (fun c => (cellAt (format samplePage) 0 c).unicode)
    = [0x20, 0x31, 0x32, 0x33, 0x2E, 0x30, 0x31, 0x20] := by decide +kernel

/-- ... and the theorem instantiated: column 2 of the header of `samplePage` is the digit '2' in green -/
example : (cellAt (format samplePage) 0 2).fg = 2 ∧ (hdrCodes samplePage.pgno samplePage.subno).getD 2 0 = 0x32 := by
  constructor
  · rw [header_cells samplePage (by decide) (by decide) 2 (by decide)]; rfl
  · decide

/-- **header_cells_decimal**: for a decimal page number 100..899 (every digit 0..9) of a page whose first G0 set is
Latin, columns 1..3 show the three digits of the page number as ASCII digits. -/
theorem header_cells_decimal (p : PageIn) (d2 d1 d0 : Nat) (h2 : 1 ≤ d2 ∧ d2 ≤ 8) (h1 : d1 ≤ 9) (h0 : d0 ≤ 9)
    (hp : p.pgno = d2 * 256 + d1 * 16 + d0) (hl : (fontOf (charsetDesignation p.charset0 p.national)).g0 = 1) :
    (cellAt (format p) 0 1).unicode = 0x30 + d2 ∧ (cellAt (format p) 0 2).unicode = 0x30 + d1
    ∧ (cellAt (format p) 0 3).unicode = 0x30 + d0 := by
  have a1 : 0x100 ≤ p.pgno := by omega
  have a2 : p.pgno < 0x1000 := by omega
  have e2 : p.pgno / 256 = d2 := by omega
  have e1 : p.pgno / 16 % 16 = d1 := by omega
  have e0 : p.pgno % 16 = d0 := by omega
  have hd : ∀ n d, d ≤ 9 → teletextUnicode 1 n (hexDigit d) = 0x30 + d := by
    intro n d hd
    have : d = 0 ∨ d = 1 ∨ d = 2 ∨ d = 3 ∨ d = 4 ∨ d = 5 ∨ d = 6 ∨ d = 7 ∨ d = 8 ∨ d = 9 := by omega
    rcases this with rfl | rfl | rfl | rfl | rfl | rfl | rfl | rfl | rfl | rfl <;> rfl
  rw [header_cells p a1 a2 1 (by decide), header_cells p a1 a2 2 (by decide), header_cells p a1 a2 3 (by decide)]
  simp only [hl, hdrCodes, e2, e1, e0]
  refine ⟨?_, ?_, ?_⟩
  · simpa using hd _ d2 (by omega)
  · simpa using hd _ d1 h1
  · simpa using hd _ d0 h0

/-- page 123 with the German national option under region 0 (Latin G0): "123" -/
example : (cellAt (format samplePage) 0 1).unicode = 0x31 ∧ (cellAt (format samplePage) 0 2).unicode = 0x32
    ∧ (cellAt (format samplePage) 0 3).unicode = 0x33 :=
  header_cells_decimal samplePage 1 2 3 (by decide) (by decide) (by decide) (by decide) (by decide +kernel)

end Zvbi.Props.C02Hdr
