import ZvbiModel.Props.C06Join
import ZvbiModel.Mux.UndefField
import ZvbiModel.Mux.LemmasFeed
/-!
# C06, round 5 - lines with the undefined line number 0: what does not hold (finding C06-D4)

Property theorems only (all evaluated in the kernel on the models `Mux/Model.lean` of src/dvb_mux.c and `Demux/Model.lean`
of src/dvb_demux.c, and replayed on the real code: `corpus/C06/undef-after-raw-field.ops` through `mux_harness --demux`
shows the same frames).

`mux_demux_roundtrip_undef_full` (`Props/C06Join.lean`) is stated for frames WITHOUT raw line requests (`Op.OK`).  Beyond
that hypothesis the round trip of undefined-line Teletext units is false on the current code: `generate_pes_packet` cuts
the frame at every `VBI_SLICED_VBI_625` entry - selected by the service mask or not - and converts the sliced lines in
between with separate `insert_sliced_data_units` calls, each of which derives the field parity of an undefined line from
its OWN `last_line`, restarted at 0 (dvb_mux.c:258, 415).  An undefined-line unit behind such an entry therefore says
"first field" also when the lines sent before it are on the second field; the demultiplexer sees the field parity go
back inside a packet (`line_address`, dvb_demux.c:607: "Illegal line order") and drops the frame.
-/
namespace Zvbi.Props.C06Undef
open Zvbi.Mux Zvbi.Mux.EnParse
open Zvbi.Demux (SrcCfg frames)
open Zvbi.Props.C06Join (exLine)

/-- a raw line request (`VBI_SLICED_VBI_625`) for frame line `line` -/
def rawReq (line : Nat) : Sliced := ⟨SL_VBI625, line, List.replicate 56 0⟩

/-- three frames; the first one: Teletext on line 320, a raw line request for line 321 that the service mask (Teletext
only) does not select, and a Teletext line with the undefined line number 0 -/
def lostOps : List Op :=
  [.frame [exLine 3 320 0x15, rawReq 321, exLine 3 0 0x2A] 0x3 5, .frame [exLine 3 7 1] 3 6, .frame [exLine 3 7 2] 3 7]
/-- the same without the raw line request -/
def keptOps : List Op :=
  [.frame [exLine 3 320 0x15, exLine 3 0 0x2A] 0x3 5, .frame [exLine 3 7 1] 3 6, .frame [exLine 3 7 2] 3 7]

/-- **undef_after_raw_frame_lost (finding C06-D4).**  On the tree WITHOUT fixes/C06-mux-undef-field-after-raw.diff
(`Zvbi.Gen.muxSegLastLine = false`, read from the source by translate/gen_muxflags.py on every run): all three frames of `lostOps` are accepted and the first one is sent
with exactly its two selected lines (320 and the undefined line), yet the library demultiplexer (both source shapes of the
repaired demux statements) delivers only the SECOND frame: the frame with PTS 5 is lost, although the stream contains
nothing but accepted frames, each beginning on a line not beyond the last line of the frame before. -/
theorem undef_after_raw_frame_lost : Zvbi.Gen.muxSegLastLine = false →
    ((run newPes lostOps).2.2.map fun s => (s.pts, s.lines.map (·.line))) = [(5, [320, 0]), (6, [7]), (7, [7])]
    ∧ ((frames SrcCfg.repaired (run newPes lostOps).2.1).map fun f => (f.pts, f.lines.map (·.line))) = [(6, [7])]
    ∧ ((frames SrcCfg.current (run newPes lostOps).2.1).map fun f => (f.pts, f.lines.map (·.line))) = [(6, [7])]
    ∧ (((run newPes lostOps).2.2.dropLast.map received).map fun f => (f.pts, f.lines.map (·.line))) = [(5, [320, 0]), (6, [7])] := by
  decide +kernel

/-- **the cause, on the bytes**: the first packet of `lostOps` holds two Teletext units whose line bytes are 0xC7
(field_parity 0 = second field, line_offset 7) and 0xE0 (field_parity 1 = FIRST field, line_offset 0); without the raw line
request the second one is 0xC0 (second field), as EN 301 775 4.5.2 wants for a line that follows line 320. -/
theorem undef_after_raw_field_bits :
    (Zvbi.Gen.muxSegLastLine = false →
      ((parseUnits (((run newPes lostOps).2.1.take 184).drop 46)).map fun us => (us.take 2).map fun u => (u.id, u.payload.getD 0 0))
        = some [(2, 0xC7), (2, 0xE0)])
    ∧ ((parseUnits (((run newPes keptOps).2.1.take 184).drop 46)).map fun us => (us.take 2).map fun u => (u.id, u.payload.getD 0 0))
      = some [(2, 0xC7), (2, 0xC0)] := by
  decide +kernel

/-- **undef_after_raw_repaired.**  On the tree WITH fixes/C06-mux-undef-field-after-raw.diff (`muxSegLastLine = true`) the same
history makes the round trip: the undefined line behind the raw line request says "second field" (0xC0) and the frame with PTS 5
comes back with both lines. -/
theorem undef_after_raw_repaired : Zvbi.Gen.muxSegLastLine = true →
    ((parseUnits (((run newPes lostOps).2.1.take 184).drop 46)).map fun us => (us.take 2).map fun u => (u.id, u.payload.getD 0 0))
      = some [(2, 0xC7), (2, 0xC0)]
    ∧ frames SrcCfg.repaired (run newPes lostOps).2.1 = (run newPes lostOps).2.2.dropLast.map received
    ∧ ((frames SrcCfg.repaired (run newPes lostOps).2.1).map fun f => (f.pts, f.lines.map (·.line))) = [(5, [320, 0]), (6, [7])] := by
  decide +kernel

/-- **the statement that does hold on these inputs**: without the raw line request the same frames make the round trip -
the frame with the undefined line comes back with both lines and its PTS (an instance of the still open
`mux_demux_roundtrip_undef_full`, whose hypothesis `Op.OK` excludes raw line requests). -/
theorem undef_without_raw_roundtrip :
    (∀ op ∈ keptOps, Op.OK op)
    ∧ frames SrcCfg.repaired (run newPes keptOps).2.1 = (run newPes keptOps).2.2.dropLast.map received
    ∧ ((frames SrcCfg.repaired (run newPes keptOps).2.1).map fun f => (f.pts, f.lines.map (·.line))) = [(5, [320, 0]), (6, [7])] := by
  decide +kernel

/-- the hypothesis the counterexample violates, and only that one -/
example : ¬ (∀ op ∈ lostOps, Op.OK op) := by decide +kernel
example : (∀ s ∈ (run newPes lostOps).2.2, 1 ≤ s.lines.length ∧ Zvbi.Demux.firstLine s.lines ≠ 0) := by decide +kernel

/-- **undef_field_parity_ascends** - the multiplexer's half of the open `mux_demux_roundtrip_undef_full`, for ALL frames
without raw line requests (lines with the undefined line number 0 anywhere, any mask, both formats, any packet size): the
data unit region of the packet of an accepted frame reads (`parseUnits`) as the units `us` of exactly the selected lines
(`unitsLines us = sent mask lines`, none of them stuffing) followed by stuffing units, and the field parities of `us`
ASCEND (`FieldsAscend false`): once a unit says "second field" no later unit says "first field" - an undefined line carries
the field of the last defined line before it.  This is the condition under which `line_address` of the demultiplexer
(dvb_demux.c:603-614) stores a unit with line_offset 0 instead of failing with "Illegal line order"; what is still missing
for the full statement is the demultiplexer's side (C07's join lemmas treat defined lines only). -/
theorem undef_field_parity_ascends (m : Mux) (hc : CfgOK m.cfg) (lines : List Sliced) (hwf : ∀ s ∈ lines, Sliced.WF s)
    (hnr : NoRaw lines) (mask pts : Nat) (hok : (feed m lines mask pts 0).2.ok = true) :
    ∃ pes us st, generatePes m.cfg lines mask pts = .ok (pes, [])
      ∧ (m.cfg.pid = 0 → (feed m lines mask pts 0).2.calls = [some pes])
      ∧ parseUnits (pes.drop 46) = some (us ++ st)
      ∧ (∀ u ∈ st, IsStuffing (fixedLengthFormat m.cfg.dataId) u) ∧ (∀ u ∈ us, u.id ≠ 0xFF)
      ∧ unitsLines us = some (sent mask lines) ∧ FieldsAscend false us := by
  obtain ⟨pes, hg, hpes, _⟩ := feed_accepted m lines mask pts hok
  obtain ⟨us, st, h1, h2, h3, h4, h5⟩ := generatePes_fields m.cfg hc lines mask pts hwf hnr pes hg
  exact ⟨pes, us, st, hg, fun hp => (hpes hp).1, h1, h2, h3, h4, h5⟩

/-- non-vacuity: a frame with undefined lines on both fields is accepted; and `FieldsAscend` is exactly what the
counterexample `lostOps` (with its raw line request) breaks: second field (0xC7), then first field (0xE0) -/
example : (feed newPes [exLine 3 7 1, exLine 3 0 2, exLine 3 320 3, exLine 3 0 4] 3 5 0).2.ok = true := by decide +kernel
example : ((parseUnits (((run newPes lostOps).2.1.take 184).drop 46)).map fun us => decide (FieldsAscend false (us.take 2)))
    = some Zvbi.Gen.muxSegLastLine := by decide +kernel
example : ((parseUnits (((run newPes keptOps).2.1.take 184).drop 46)).map fun us => decide (FieldsAscend false (us.take 2)))
    = some true := by decide +kernel

end Zvbi.Props.C06Undef
