import ZvbiModel.Export.Xpm
import ZvbiModel.Export.LemmasXpm
import ZvbiModel.Props.C16
/-!
# C16, XPM writer (exp-gfx.c `xpm_export`) inside the model

Header text, colour table, row quoting, footer / extension block and the exact byte count as a function of
(columns, rows, aspect, transparency, title, creator), for every target; pixel values are symbolic (`img`: the palette
indices `draw_row_indexed` produced for every text row).
-/
namespace Zvbi.Props.C16Xpm
open Zvbi.Export Zvbi.Export.Spec

/-- what the renderer hands over: one entry per text row, `char_height` lines of `image_width` palette indices -/
def ImgOk (columns rows : Nat) (dh : Bool) (img : List (List (List Nat))) : Prop :=
  img.length = rows ∧ ∀ lines ∈ img, lines.length = (ppmGeom columns dh).charH ∧
    ∀ l ∈ lines, l.length = ppmWidth columns (ppmGeom columns dh)

/-- **XPM output.**  For every target, page size, option vector and colour map: the data is the header text with
`<width> <height> 40 1` (and ` XPMEXT` when there is a title or creator), the 40 palette lines, `/* pixels */`, then for
every text row in page order its image lines (`xpmRowBytes`), then the footer (extension block, `};`) - nothing else;
the same bytes for all four targets; and the length is
header + 600 (597 with `transparency`: entry 8 is `None`) + 13 + rows * ((width + 4) * lines per row) + footer. -/
theorem xpm_output_exact (t : Target) (env : XpmEnv) (colorAt : Nat → Nat) (columns rows : Nat) (img : List (List (List Nat)))
    (hi : ImgOk columns rows env.doubleHeight img) :
    let g := ppmGeom columns env.doubleHeight
    let doc := xpmHeaderText (ppmWidth columns g) (ppmHeight rows g) (xpmExt env)
      ++ (List.range 40).flatMap (xpmColorLine env.transparency colorAt) ++ xpmPixelsComment
      ++ img.flatMap (xpmRowBytes g.scale) ++ output (xpmFooterOps env)
    output (xpmOps t env colorAt columns rows img) = doc ∧
    doc.length = (xpmHeaderText (ppmWidth columns g) (ppmHeight rows g) (xpmExt env)).length + (if env.transparency then 597 else 600) + 13
      + rows * xpmRowSize columns g + (output (xpmFooterOps env)).length := by
  intro g doc
  have hrow : ∀ lines ∈ img, (xpmRowBytes g.scale lines).length = xpmRowSize columns g :=
    fun lines hm => xpmRowBytes_length columns env.doubleHeight lines (hi.2 lines hm).1 (hi.2 lines hm).2
  constructor
  · have hrows := xpmRowOps_output columns g img hrow
    have hhdr := xpmHeaderOps_output env colorAt (ppmWidth columns g) (ppmHeight rows g)
    cases t <;> simp only [xpmOps, output_append, hrows, hhdr, doc, g] <;> simp [output, opBytes]
  · have h1 := flatMap_length_const img (xpmRowBytes g.scale) _ hrow
    have h2 := xpmColorTable_length env.transparency colorAt
    have h3 : xpmPixelsComment.length = 13 := by decide
    simp only [doc, List.length_append, h1, h2, h3, hi.1]

example : xpmHeaderText 480 500 true
    = s2b "/* XPM */\nstatic char *image[] = {\n/* width height ncolors chars_per_pixel */\n\"480 500 40 1 XPMEXT\",\n/* colors */\n" := by decide
example : xpmColorLine true (fun _ => 0x00AB3412) 1 = s2b "\"1 c #1234AB\",\n" ∧ xpmColorLine true (fun _ => 0) 8 = s2b "\". c None\",\n"
    ∧ xpmColorLine false (fun _ => 0) 8 = s2b "\". c #000000\",\n" := by decide
example : output (xpmFooterOps { creator := s2b "a\"b", pgno := 0x123, subno := 0x3F7F })
    = s2b "\"XPMEXT title Teletext Page 123\",\n\"XPMEXT software a'b\",\n\"XPMENDEXT\"\n};\n" := by decide
example : output (xpmFooterOps { titled := false }) = s2b "};\n" := by decide

/-- **Row quoting.**  Every image line is `"`, exactly one colour code per pixel, `",` and a line feed; every code is one of
the 40 characters of `xpm_col_codes` (palette indices >= 40 - translucent colours - become `.`), none of which is `"`, `\`
or a line feed: no pixel value can end the C string early.  A text row yields 13 / 26 lines (caption, aspect 0 / 1) or
10 / 20 lines (Teletext): every second rendered line, every line, or every line twice. -/
theorem xpm_row_quoting (line : List Nat) (scale : Nat) (lines : List (List Nat)) :
    (∃ codes : Bytes, xpmLine line = [34] ++ codes ++ [34, 44, 10] ∧ codes.length = line.length ∧
      ∀ b ∈ codes, b ∈ xpmColCodes ∧ b ≠ 34 ∧ b ≠ 92 ∧ b ≠ 10) ∧
    xpmRowBytes scale lines = (xpmPick scale lines).flatMap xpmLine ∧
    (xpmPick scale lines).length = (if scale = 0 then (lines.length + 1) / 2 else if scale = 2 then lines.length * 2 else lines.length) ∧
    (∀ l ∈ xpmPick scale lines, l ∈ lines) := by
  refine ⟨⟨line.map xpmCode, by simp [xpmLine], by simp, ?_⟩, rfl, xpmPick_length scale lines, fun l h => mem_xpmPick scale lines l h⟩
  intro b hb
  obtain ⟨c, _, rfl⟩ := List.mem_map.1 hb
  exact xpmCode_safe c

example : xpmRowBytes 2 [[7, 0, 8, 48, 200]] = s2b "\"7 ...\",\n\"7 ...\",\n" := by decide
example : xpmPick 0 [[1], [2], [3], [4]] = [[1], [3]] := by decide

/-- The extension texts cannot end their string either: `"` in title / creator is written as `'`. -/
theorem xpm_ext_unquoted (s : Bytes) : (unquote s).length = s.length ∧ ∀ b ∈ unquote s, b ≠ 34 := by
  refine ⟨by simp [unquote], ?_⟩
  intro b hb
  obtain ⟨c, _, rfl⟩ := List.mem_map.1 hb
  split <;> simp_all

/-- The space the module asks for in advance (ALLOC: whole image, FILE: the largest piece between two flushes) covers
every row, and for ALLOC all rows. -/
theorem xpm_needed_covers (t : Target) (env : XpmEnv) (columns rows : Nat) (g : PpmGeom) :
    (t = .alloc → rows * xpmRowSize columns g ≤ xpmNeeded t env columns rows g) ∧
    (1 ≤ rows → xpmRowSize columns g ≤ xpmNeeded t env columns rows g) := by
  constructor
  · intro h; subst h; simp only [xpmNeeded, if_true]; rw [Nat.mul_comm]; omega
  · intro hr
    unfold xpmNeeded
    dsimp only
    split
    · have : xpmRowSize columns g ≤ xpmRowSize columns g * rows := Nat.le_mul_of_pos_right _ hr
      omega
    · exact Nat.le_max_right _ _

/-- **Joined with the write layer**: the XPM module's calls are an instance of the abstract call list of `targets_agree` /
`mem_bounded`: every target delivers the document of `xpm_output_exact`, `vbi_export_mem` reports exactly its size and
leaves the caller's buffer size alone. -/
theorem xpm_targets_agree (wcfg : Cfg) (t : Target) (env : XpmEnv) (colorAt : Nat → Nat) (columns rows : Nat)
    (img : List (List (List Nat))) (user : Option Bytes) (hi : ImgOk columns rows env.doubleHeight img) :
    let ops := xpmOps t env colorAt columns rows img
    (exportMem wcfg .unlimited user ops).ret = some (output ops).length ∧
    (exportMem wcfg .unlimited user ops).user.length = (user.getD []).length ∧
    (exportAlloc wcfg .unlimited ops).data = some (output ops) ∧
    (exportStdio wcfg .unlimited ops).sink = some (output ops) ∧ (exportFile wcfg .unlimited ops).sink = some (output ops) := by
  intro ops
  have ho := (xpm_output_exact t env colorAt columns rows img hi).1
  have ht := Zvbi.Props.C16.targets_agree wcfg user ops
  have hne : output ops ≠ [] := by
    show output (xpmOps t env colorAt columns rows img) ≠ []
    rw [ho]
    intro hnil
    have hl := congrArg List.length hnil
    simp only [List.length_append, List.length_nil] at hl
    have h3 : xpmPixelsComment.length = 13 := by decide
    omega
  exact ⟨ht.1, (Zvbi.Props.C16.mem_bounded wcfg .unlimited user ops).1, ht.2.2.1 hne, ht.2.2.2.1.2, ht.2.2.2.2.2⟩

example : ImgOk 1 1 false [List.replicate 26 (List.replicate 16 7)] := by
  refine ⟨rfl, ?_⟩
  intro lines h
  rw [List.mem_singleton] at h; subst h
  refine ⟨by decide, ?_⟩
  intro l hl; rw [List.eq_of_mem_replicate hl]; decide

end Zvbi.Props.C16Xpm
