import ZvbiModel.Idl.Lemmas
import ZvbiModel.Pfc.Lemmas3
/-!
# C15 - IDL and PFC demultiplexers deliver the sent data in order and flag loss

Property theorems only.  Models: `Idl/Model.lean`, `Pfc/Model.lean`; sender specs and the
stream-level obligations: `Idl/Spec.lean`, `Pfc/Spec.lean`; helper lemmas: `*/Lemmas*.lean`.
-/
namespace Zvbi.Props.C15
open Zvbi.Hamm Zvbi.Gen

/-! ## IDL format A -/
section Idl
open Zvbi.Idl

/-- The CRC table that `init_crc16_table (table, 0x8940)` computes is the bit-serial CRC of
    x^16+x^9+x^7+x^4+1 (LSB first) of each byte value. -/
theorem idl_crc_table_is_bitwise_crc : ∀ i < 256, crcTab i = Spec.shift8 i := crcTab_eq_shift8

/-- Hence the table driven loop of `idl_a_demux_feed` computes that CRC of any byte string. -/
theorem idl_crc_loop_is_bitwise_crc (bytes : List Nat) (hb : ∀ b ∈ bytes, b < 256) :
    crcOf bytes = Spec.crc bytes := crcOf_eq bytes hb

example : crcTab 1 = 0x1081 ∨ crcTab 1 ≠ 0 := by decide

/-- **Refinement to the sender spec.**  Take any transmission: intact first transmissions of
    format A packets for the selected channel/address (any FT options: RI, CI, DL present or not,
    any address length 0..6, dummy bytes after runs of 0x00/0xFF counted from the CI byte),
    intact repeats, packets of ours with a detectable transmission error, and arbitrary foreign
    packets, in any order.  Fed to a demultiplexer that awaits no repeat, the callbacks are exactly
    `Spec.expected`: every intact first transmission, in order, with exactly the sent user bytes;
    DATA_LOST exactly when a packet was damaged or the continuity index jumped since the last
    delivery; DEPENDENT = IAL bit 3.  (`s.flags` is whatever the flag word holds at the start.) -/
theorem idl_delivers_sent (s : St) (hri : s.ri = none) (txs : List Spec.Tx)
    (hsent : ∀ t ∈ txs, Spec.Tx.Sent s.channel s.address t) :
    (run s (txs.map Spec.Tx.bytes)).map (fun cb => (cb.flags, cb.bytes)) =
      Spec.expected s.flags s.ci txs := run_refines txs s hri hsent

/-- In particular the delivered byte strings are exactly the user data of the intact first
    transmissions, block by block, in order - nothing else, nothing missing. -/
theorem idl_delivers_sent_bytes (s : St) (hri : s.ri = none) (txs : List Spec.Tx)
    (hsent : ∀ t ∈ txs, Spec.Tx.Sent s.channel s.address t) :
    (run s (txs.map Spec.Tx.bytes)).map (·.bytes) =
      txs.filterMap (fun t => match t with | .data p => some p.data | _ => none) := by
  have h := congrArg (List.map (·.2)) (run_refines txs s hri hsent)
  rw [List.map_map] at h
  have hl : (List.map ((fun x => x.2) ∘ fun cb : Cb => (cb.flags, cb.bytes)) (run s (txs.map Spec.Tx.bytes)))
      = (run s (txs.map Spec.Tx.bytes)).map (·.bytes) := rfl
  rw [hl] at h
  rw [h]
  clear h hl hsent
  generalize s.flags = fl
  generalize s.ci = eci
  induction txs generalizing fl eci with
  | nil => rfl
  | cons t r ih =>
    cases t <;> simp [Spec.expected, ih]

/-- A freshly created demultiplexer awaits no repeat, so the two theorems above apply to it. -/
theorem idl_new_awaits_no_repeat (channel address fill : Nat) (s : St)
    (h : new channel address fill = some s) :
    s.ri = none ∧ s.ci = none ∧ s.channel = channel ∧ s.address = address := by
  unfold new at h
  split at h
  · cases h
  · split at h
    · cases h
    · cases h; exact ⟨rfl, rfl, rfl, rfl⟩

/-- Packets that are not format A packets of the selected channel and address (another
    channel, not packet 30/31, format B, reserved address length, another address value or
    length, or a header byte damaged beyond repair) change nothing and deliver nothing. -/
theorem idl_other_address_silent (s : St) (buf : List Nat)
    (h : Spec.NotForUs s.channel s.address buf) : (feed s buf).1 = s ∧ (feed s buf).2.2 = none :=
  feed_foreign s buf h

/-- **CRC / Hamming gate.**  In every state and for every 42 bytes: if the callback is invoked,
    then the header bytes decode (after Hamming correction) to a format A packet of the selected
    channel and address, and the check sum over the CRC region is acceptable.  So a packet failing
    its CRC or a Hamming check is never delivered. -/
theorem idl_crc_gate (s : St) (buf : List Nat) (cb : Cb) (hb : ∀ b ∈ buf, b < 256)
    (h : (feed s buf).2.2 = some cb) :
    ¬ Spec.NotForUs s.channel s.address buf ∧ Spec.ChecksumOk buf := feed_gate s buf cb hb h

/-- **Loss is flagged, once.**  For an intact first transmission `p` arriving in a state that
    awaits no repeat: the callback carries DATA_LOST iff the flag word already had it pending or the
    continuity index does not continue the expected one; afterwards nothing is pending and the next
    index is expected. -/
theorem idl_loss_flagged (s : St) (p : Spec.Pkt) (hv : p.Valid)
    (hch : s.channel = p.channel) (haddr : s.address = Spec.spaVal p.spa)
    (hsri : s.ri = none) (hrep : p.haveRi = true → p.ri &&& 0xF = 0) :
    ∃ cb, (feed s p.bytes).2.2 = some cb ∧ cb.bytes = p.data ∧
      (cb.flags &&& 1 = 1 ↔ (s.flags &&& 1 = 1 ∨ Spec.lostFlag s.ci p.ci = 1)) ∧
      (feed s p.bytes).1.flags &&& 1 = 0 ∧ (feed s p.bytes).1.ci = some (p.ci + 1) := by
  rw [feed_data s p hv hch haddr hsri hrep]
  refine ⟨_, rfl, rfl, ?_, ?_, rfl⟩
  · have hl : Spec.lostFlag s.ci p.ci = 0 ∨ Spec.lostFlag s.ci p.ci = 1 := by
      unfold Spec.lostFlag; cases s.ci with
      | none => simp
      | some c => simp only; split <;> simp
    have hd : (p.ial &&& 8) &&& 1 = 0 := by rw [Nat.and_assoc]; simp
    simp only [Nat.and_or_distrib_right, hd, Nat.or_zero]
    rcases hl with h0 | h1
    · simp [h0]
    · simp [h1]
      have h2 : s.flags % 2 = 0 ∨ s.flags % 2 = 1 := by omega
      rcases h2 with h2 | h2 <;> simp [h2]
  · simp only [Nat.and_assoc]
    simp

/-- A packet of ours with a detectable transmission error (and no repeat announced) is refused
    and leaves DATA_LOST pending for the next delivery (previous theorem). -/
theorem idl_damage_is_remembered (s : St) (p : Spec.Pkt) (hd : p.Damaged)
    (hch : s.channel = p.channel) (haddr : s.address = Spec.spaVal p.spa) :
    (feed s p.bytes).2.2 = none ∧ (feed s p.bytes).2.1 = false ∧ (feed s p.bytes).1.flags &&& 1 = 1 := by
  rw [feed_damaged s p hd hch haddr]
  refine ⟨rfl, rfl, ?_⟩
  simp

end Idl

/-! ## Page Format Clear -/
section Pfc
open Zvbi.Pfc
open Zvbi.Pfc.Spec (Ph run)

/-- **No out-of-bounds access, no endless loop - for every history.**  Starting from
    `vbi_pfc_demux_new`, any sequence of `vbi_pfc_demux_feed` calls with arbitrary 42 byte packets
    and `vbi_pfc_demux_reset` calls runs without reading outside a packet, without writing outside
    `block[2048]` (extent from `pfc_demux.h`), without exhausting the loop fuel 42, and keeps
    `bi + left <= 2047`. -/
theorem pfc_never_oob (pgno stream : Nat) (ops : List Op) (hops : ∀ b, Op.feed b ∈ ops → b.length = 42) :
    ∃ r, runOps (new pgno stream) ops = .ok r ∧ Inv r.1 :=
  runOps_ok ops hops _ (inv_new pgno stream)

/-- **The grammar reads back what was sent** (parse ∘ print, independent of the demultiplexer):
    any sequence of sendable blocks with any numbers of filler bytes before, between and after
    them is read as exactly the non-empty blocks, in order. -/
theorem pfc_grammar_reads_blocks (items : List (Spec.Blk × Nat)) (hok : ∀ it ∈ items, it.1.Ok) (lead : Nat) :
    run .idle [] (Spec.flat lead items) = ⟨.idle, Spec.delivered items, true⟩ := by
  have := run_flat items hok lead [] []
  simpa [run_nil] using this

/-- **One packet.**  In any well-formed state, for a packet whose block pointer is usable
    (`Spec.Admissible`: legal value; if no block is in progress it announces the first separator
    with only fillers before it, or 13 and the packet holds fillers only): if the grammar accepts
    the 39 payload bytes in the phase the state stands for, `_vbi_pfc_demux_decode` returns TRUE,
    has called back exactly the blocks the grammar completes in this packet, in order, with
    their bytes, and ends in the state standing for the grammar's phase.  This covers blocks of
    every size at every alignment, separators and structure headers split over packets, and
    blocks ending in the last column. -/
theorem pfc_decode_refines_grammar (buf : List Nat) (hbuf : buf.length = 42) (s : St) (hwf : WF s) (hinv : Inv s)
    (n : Nat) (hn : unham8 (buf.getD 2 0) = some n)
    (hadm : Spec.Admissible (phase s) n (buf.drop 3))
    (hok : (run (phase s) [] (buf.drop 3)).ok = true) :
    ∃ o, decode s buf = .ok o ∧ o.ret = true ∧ WF o.st ∧ Inv o.st ∧
      run (phase s) [] (buf.drop 3) = ⟨phase o.st, o.blocks.map toSpec, true⟩ := by
  obtain ⟨o, h1, h2, h3, h4, _, h6⟩ := decode_run buf hbuf s hwf hinv n hn hadm hok
  exact ⟨o, h1, h2, h3, h4, h6⟩

/-- **Blocks delivered as sent (packet sequences).**  Take any sendable block sequence with
    any filler counts (`Spec.flat`), cut into consecutive 39 byte payloads in any packets whose
    block pointers are usable.  Decoding the packets one after the other from a state between
    blocks calls back exactly the non-empty blocks, in order, each with its application id
    and bytes - nothing else - and ends between blocks.  (Size-0 blocks produce no callback.) -/
theorem pfc_delivers_blocks_rows (items : List (Spec.Blk × Nat)) (hitems : ∀ it ∈ items, it.1.Ok) (lead : Nat)
    (bufs : List (List Nat)) (hlen : ∀ b ∈ bufs, b.length = 42)
    (hstream : (bufs.map (fun b => b.drop 3)).flatten = Spec.flat lead items)
    (s : St) (hidle : s.left = 0) (hinv : Inv s)
    (hadm : Spec.AdmissibleAll .idle (bufs.map Spec.bpAndPayload)) :
    ∃ s' bl, decodeAll s bufs = .ok (s', bl) ∧ bl.map toSpec = Spec.delivered items ∧ s'.left = 0 := by
  have hph := phase_idle s hidle
  have hwf : WF s := by intro h; omega
  have hR := pfc_grammar_reads_blocks items hitems lead
  obtain ⟨s', bl, h1, _, _, _, h5⟩ := decode_rows bufs s hwf hinv hlen (by rw [hph]; exact hadm)
    (by rw [hph, hstream, hR])
  rw [hph, hstream, hR] at h5
  refine ⟨s', bl, h1, ?_, ?_⟩
  · have := congrArg Spec.Res.out h5; exact this.symm
  · have := congrArg Spec.Res.ph h5
    simp only at this
    by_cases h : s'.left = 0
    · exact h
    · exfalso
      unfold phase at this
      rw [if_neg h] at this
      cases ha : s'.appId with
      | none => rw [ha] at this; cases this
      | some a => rw [ha] at this; cases this

end Pfc

end Zvbi.Props.C15
