import ZvbiModel.Idl.LemmasRepeat
import ZvbiModel.Pfc.Lemmas9
import ZvbiModel.Pfc.Witness
/-!
# C15 - IDL and PFC demultiplexers deliver the sent data in order and flag loss

Property theorems only.  Models: `Idl/Model.lean`, `Pfc/Model.lean`; sender specs and the
stream-level obligations: `Idl/Spec.lean`, `Pfc/Spec.lean`; helper lemmas: `*/Lemmas*.lean`.
-/
namespace Zvbi.Props.C15
open Zvbi.Hamm Zvbi.Gen

/-! ## IDL format A -/
section Idl
open Zvbi.Idl

/-- The CRC table that `init_crc16_table (table, 0x8940)` computes is the bit-serial CRC of
    x^16+x^9+x^7+x^4+1 (LSB first) of each byte value. -/
theorem idl_crc_table_is_bitwise_crc : ∀ i < 256, crcTab i = Spec.shift8 i := crcTab_eq_shift8

/-- Hence the table driven loop of `idl_a_demux_feed` computes that CRC of any byte string. -/
theorem idl_crc_loop_is_bitwise_crc (bytes : List Nat) (hb : ∀ b ∈ bytes, b < 256) :
    crcOf bytes = Spec.crc bytes := crcOf_eq bytes hb

example : crcTab 1 = 0x1081 ∨ crcTab 1 ≠ 0 := by decide

/-- **Refinement to the sender spec.**  Take any transmission: intact first transmissions of
    format A packets for the selected channel/address (any FT options: RI, CI, DL present or not,
    any address length 0..6, dummy bytes after runs of 0x00/0xFF counted from the CI byte),
    intact repeats, packets of ours with a detectable transmission error, and arbitrary foreign
    packets, in any order.  Fed to a demultiplexer that awaits no repeat, the callbacks are exactly
    `Spec.expected`: every intact first transmission, in order, with exactly the sent user bytes;
    DATA_LOST exactly when a packet was damaged or the continuity index jumped since the last
    delivery; DEPENDENT = IAL bit 3.  (`s.flags` is whatever the flag word holds at the start.) -/
theorem idl_delivers_sent (s : St) (hri : s.ri = none) (txs : List Spec.Tx)
    (hnr : ∀ t ∈ txs, ∀ p, t ≠ Spec.Tx.damagedRep p)
    (hsent : ∀ t ∈ txs, Spec.Tx.Sent s.channel s.address t) :
    (run s (txs.map Spec.Tx.bytes)).map (fun cb => (cb.flags, cb.bytes)) =
      Spec.expected s.flags s.ci txs := run_refines txs hnr s hri hsent

/-- **Refinement including the repeat mechanism, from any state.**  The transmission may also
    contain damaged packets that announce a repeat (RI bit 7), and the demultiplexer may already
    await a repeat (`dx->ri >= 0`).  The callbacks are exactly `Spec.expectedR`: the awaited repeat,
    arriving intact, is delivered in place of the damaged packet; any other intact packet of ours
    while a repeat is awaited reports DATA_LOST (a first transmission is delivered, a repeat
    discarded); without an awaited repeat, repeats are discarded.  The `sticky` argument says whether
    the receiver keeps awaiting the repeat after it arrived: `false` is the intended receiver, and the
    current source is `sticky = !Gen.idlRiClearedOnRecovery` (see the next two theorems). -/
theorem idl_delivers_sent_repeats (s : St) (txs : List Spec.Tx)
    (hsent : ∀ t ∈ txs, Spec.Tx.Sent s.channel s.address t) :
    (run s (txs.map Spec.Tx.bytes)).map (fun cb => (cb.flags, cb.bytes)) =
      Spec.expectedR (!idlRiClearedOnRecovery) s.flags s.ci s.ri txs := run_refines_R txs s hsent

/-- On a source that forgets the awaited repeat once it arrived (`fixes/idl-repeat-recovered.diff`),
    the demultiplexer is the intended receiver: DATA_LOST exactly when something was lost. -/
theorem idl_delivers_sent_repeats_intended (hfix : idlRiClearedOnRecovery = true) (s : St) (txs : List Spec.Tx)
    (hsent : ∀ t ∈ txs, Spec.Tx.Sent s.channel s.address t) :
    (run s (txs.map Spec.Tx.bytes)).map (fun cb => (cb.flags, cb.bytes)) =
      Spec.expectedR false s.flags s.ci s.ri txs := by
  have := run_refines_R txs s hsent
  rw [hfix] at this
  exact this

/-- In particular the delivered byte strings are exactly the user data of the intact first
    transmissions, block by block, in order - nothing else, nothing missing. -/
theorem idl_delivers_sent_bytes (s : St) (hri : s.ri = none) (txs : List Spec.Tx)
    (hnr : ∀ t ∈ txs, ∀ p, t ≠ Spec.Tx.damagedRep p)
    (hsent : ∀ t ∈ txs, Spec.Tx.Sent s.channel s.address t) :
    (run s (txs.map Spec.Tx.bytes)).map (·.bytes) =
      txs.filterMap (fun t => match t with | .data p => some p.data | _ => none) := by
  have h := congrArg (List.map (·.2)) (run_refines txs hnr s hri hsent)
  rw [List.map_map] at h
  have hl : (List.map ((fun x => x.2) ∘ fun cb : Cb => (cb.flags, cb.bytes)) (run s (txs.map Spec.Tx.bytes)))
      = (run s (txs.map Spec.Tx.bytes)).map (·.bytes) := rfl
  rw [hl] at h
  rw [h]
  clear h hl hsent hnr
  generalize s.flags = fl
  generalize s.ci = eci
  induction txs generalizing fl eci with
  | nil => rfl
  | cons t r ih =>
    cases t <;> simp [Spec.expected, ih]

/-- A freshly created demultiplexer awaits no repeat, so the two theorems above apply to it. -/
theorem idl_new_awaits_no_repeat (channel address fill : Nat) (s : St)
    (h : new channel address fill = some s) :
    s.ri = none ∧ s.ci = none ∧ s.channel = channel ∧ s.address = address := by
  unfold new at h
  split at h
  · cases h
  · split at h
    · cases h
    · cases h; exact ⟨rfl, rfl, rfl, rfl⟩

/-- Packets that are not format A packets of the selected channel and address (another
    channel, not packet 30/31, format B, reserved address length, another address value or
    length, or a header byte damaged beyond repair) change nothing and deliver nothing. -/
theorem idl_other_address_silent (s : St) (buf : List Nat)
    (h : Spec.NotForUs s.channel s.address buf) : (feed s buf).1 = s ∧ (feed s buf).2.2 = none :=
  feed_foreign s buf h

/-- **CRC / Hamming gate.**  In every state and for every 42 bytes: if the callback is invoked,
    then the header bytes decode (after Hamming correction) to a format A packet of the selected
    channel and address, and the check sum over the CRC region is acceptable.  So a packet failing
    its CRC or a Hamming check is never delivered. -/
theorem idl_crc_gate (s : St) (buf : List Nat) (cb : Cb) (hb : ∀ b ∈ buf, b < 256)
    (h : (feed s buf).2.2 = some cb) :
    ¬ Spec.NotForUs s.channel s.address buf ∧ Spec.ChecksumOk buf := feed_gate s buf cb hb h

/-- **Loss is flagged, once.**  For an intact first transmission `p` arriving in a state that
    awaits no repeat: the callback carries DATA_LOST iff the flag word already had it pending or the
    continuity index does not continue the expected one; afterwards nothing is pending and the next
    index is expected. -/
theorem idl_loss_flagged (s : St) (p : Spec.Pkt) (hv : p.Valid)
    (hch : s.channel = p.channel) (haddr : s.address = Spec.spaVal p.spa)
    (hsri : s.ri = none) (hrep : p.haveRi = true → p.ri &&& 0xF = 0) :
    ∃ cb, (feed s p.bytes).2.2 = some cb ∧ cb.bytes = p.data ∧
      (cb.flags &&& 1 = 1 ↔ (s.flags &&& 1 = 1 ∨ Spec.lostFlag s.ci p.ci = 1)) ∧
      (feed s p.bytes).1.flags &&& 1 = 0 ∧ (feed s p.bytes).1.ci = some (p.ci + 1) := by
  rw [feed_data s p hv hch haddr hsri hrep]
  refine ⟨_, rfl, rfl, ?_, ?_, rfl⟩
  · have hl : Spec.lostFlag s.ci p.ci = 0 ∨ Spec.lostFlag s.ci p.ci = 1 := by
      unfold Spec.lostFlag; cases s.ci with
      | none => simp
      | some c => simp only; split <;> simp
    have hd : (p.ial &&& 8) &&& 1 = 0 := by rw [Nat.and_assoc]; simp
    simp only [Nat.and_or_distrib_right, hd, Nat.or_zero]
    rcases hl with h0 | h1
    · simp [h0]
    · simp [h1]
      have h2 : s.flags % 2 = 0 ∨ s.flags % 2 = 1 := by omega
      rcases h2 with h2 | h2 <;> simp [h2]
  · simp only [Nat.and_assoc]
    simp

/-- A packet of ours with a detectable transmission error (and no repeat announced) is refused
    and leaves DATA_LOST pending for the next delivery (previous theorem). -/
theorem idl_damage_is_remembered (s : St) (p : Spec.Pkt) (hd : p.Damaged)
    (hch : s.channel = p.channel) (haddr : s.address = Spec.spaVal p.spa) :
    (feed s p.bytes).2.2 = none ∧ (feed s p.bytes).2.1 = false ∧ (feed s p.bytes).1.flags &&& 1 = 1 := by
  rw [feed_damaged s p hd hch haddr]
  refine ⟨rfl, rfl, ?_⟩
  simp

/-- a concrete transmitted packet: channel 3, address 0x21 (two nibbles), explicit CI and DL,
    user data with a run of nine 0x00 (so a dummy byte is inserted) -/
def exPkt (ci : Nat) : Spec.Pkt :=
  Spec.mkPacket 3 12 2 [1, 2] 0 ci [0, 0, 0, 0, 0, 0, 0, 0, 0, 7] 0xAA (List.replicate 21 0x55)

example : (exPkt 0).payload = [0, 0, 0, 0, 0, 0, 0, 0xAA, 0, 0, 7] := by decide
example : (exPkt 5).Valid := valid_of_validB _ (by decide +kernel)
/-- non-vacuity of `idl_delivers_sent`: two consecutive packets around a foreign one -/
example : (run { channel := 3, address := 0x21, ci := none, ri := none, flags := 0 }
    [(exPkt 5).bytes, List.replicate 42 0, (exPkt 6).bytes]).map (fun cb => (cb.flags, cb.bytes)) =
    [(0, [0, 0, 0, 0, 0, 0, 0, 0, 0, 7]), (0, [0, 0, 0, 0, 0, 0, 0, 0, 0, 7])] := by decide +kernel
/-- ... and a jump of the continuity index is flagged on the next delivery only -/
example : (run { channel := 3, address := 0x21, ci := none, ri := none, flags := 0 }
    [(exPkt 5).bytes, (exPkt 7).bytes, (exPkt 8).bytes]).map (·.flags) = [0, 1, 0] := by decide +kernel
example : Spec.NotForUs 3 0x21 (List.replicate 42 0) := by
  have h : unham8 ((List.replicate 42 0).getD 1 0) = some 1 := by decide
  unfold Spec.NotForUs; rw [h]
  cases unham8 ((List.replicate 42 0).getD 0 0) with
  | none => trivial
  | some c => exact Or.inl (by decide)

/-- **Finding C15-F17 (witness).**  `vbi_idl_a_demux_new` does not initialise `dx->flags`: if the
    allocator hands out memory filled with 0xBE (as ASan's does), the first callback of an intact
    packet carries flags 0xBEBEBEBE instead of 0.  (Vacuous once the source assigns `dx->flags`:
    the translator then sets `Gen.idlFlagsInitialised`.)  Replay: corpus/C15/f17-idl-flags-uninit.ops -/
theorem idl_flags_uninitialised_counterexample : idlFlagsInitialised = false →
    ((new 1 0 190).bind (fun s => (feed s Zvbi.C15Witness.f17Packet).2.2)).map (·.flags) = some 0xBEBEBEBE := by
  decide +kernel

/-- packets with an RI byte: channel 3, address 0x21, RI, CI and DL present -/
def exRep (ci ri : Nat) : Spec.Pkt :=
  Spec.mkPacket 3 14 2 [1, 2] ri ci [0, 0, 0, 0, 0, 0, 0, 0, 0, 7] 0xAA (List.replicate 20 0x55)
/-- the first transmission of packet 5, damaged in its last byte, announcing a repeat -/
def exRepDamaged : Spec.Pkt := { exRep 5 0x80 with crcHi := (exRep 5 0x80).crcHi ^^^ 1 }

example : (exRep 5 0x81).Valid := valid_of_validB _ (by decide +kernel)

/-- **Finding C15-R1 (witness): DATA_LOST without a loss.**  Packet 5 arrives damaged and announces a
    repeat, its repeat arrives intact and is delivered (nothing is lost), then packet 6 arrives:
    libzvbi still awaits the repeat (`dx->ri` is never reset after a successful recovery), takes
    packet 6 for "repeat packets lost" and delivers it with DATA_LOST - the intended receiver
    (`expectedR false`) reports no loss.  Vacuous once the source resets `dx->ri`
    (`Gen.idlRiClearedOnRecovery`).  Replay: corpus/C15/r1-idl-spurious-data-lost.ops -/
theorem idl_spurious_data_lost_counterexample : idlRiClearedOnRecovery = false →
    (run { channel := 3, address := 0x21, ci := none, ri := none, flags := 0 }
      [exRepDamaged.bytes, (exRep 5 0x81).bytes, (exRep 6 0x80).bytes]).map (·.flags) = [0, 1] ∧
    (Spec.expectedR false 0 none none
      [.damagedRep exRepDamaged, .rep (exRep 5 0x81), .data (exRep 6 0x80)]).map (·.1) = [0, 0] := by
  decide +kernel

/-- With an initialised flag word (`fill = 0`, or a repaired source) a new demultiplexer starts
    with no flag pending, so `idl_delivers_sent` yields exactly DATA_LOST / DEPENDENT. -/
theorem idl_new_flags_zero (channel address : Nat) (s : St) (h : new channel address 0 = some s) :
    s.flags = 0 := by
  unfold new at h
  split at h
  · cases h
  · split at h
    · cases h
    · cases h; simp

end Idl

/-! ## Page Format Clear -/
section Pfc
open Zvbi.Pfc
open Zvbi.Pfc.Spec (Ph run)

/-- **No out-of-bounds access, no endless loop - for every history.**  Starting from
    `vbi_pfc_demux_new`, any sequence of `vbi_pfc_demux_feed` calls with arbitrary 42 byte packets
    and `vbi_pfc_demux_reset` calls runs without reading outside a packet, without writing outside
    `block[2048]` (extent from `pfc_demux.h`), without exhausting the loop fuel 42, and keeps
    `bi + left <= 2047`. -/
theorem pfc_never_oob (pgno stream : Nat) (ops : List Op) (hops : ∀ b, Op.feed b ∈ ops → b.length = 42) :
    ∃ r, runOps (new pgno stream) ops = .ok r ∧ Inv r.1 :=
  runOps_ok ops hops _ (inv_new pgno stream)

/-- **The grammar reads back what was sent** (parse ∘ print, independent of the demultiplexer):
    any sequence of sendable blocks with any numbers of filler bytes before, between and after
    them is read as exactly the non-empty blocks, in order. -/
theorem pfc_grammar_reads_blocks (items : List (Spec.Blk × Nat)) (hok : ∀ it ∈ items, it.1.Ok) (lead : Nat) :
    run .idle [] (Spec.flat lead items) = ⟨.idle, Spec.delivered items, true⟩ := by
  have := run_flat items hok lead [] []
  simpa [run_nil] using this

/-- **One packet.**  In any well-formed state, for a packet whose block pointer is usable
    (`Spec.Admissible`: legal value; if no block is in progress it announces the first separator
    with only fillers before it, or 13 and the packet holds fillers only): if the grammar accepts
    the 39 payload bytes in the phase the state stands for, `_vbi_pfc_demux_decode` returns TRUE,
    has called back exactly the blocks the grammar completes in this packet, in order, with
    their bytes, and ends in the state standing for the grammar's phase.  This covers blocks of
    every size at every alignment, separators and structure headers split over packets, and
    blocks ending in the last column. -/
theorem pfc_decode_refines_grammar (buf : List Nat) (hbuf : buf.length = 42) (s : St) (hwf : WF s) (hinv : Inv s)
    (n : Nat) (hn : unham8 (buf.getD 2 0) = some n)
    (hadm : Spec.Admissible (phase s) n (buf.drop 3))
    (hok : (run (phase s) [] (buf.drop 3)).ok = true) :
    ∃ o, decode s buf = .ok o ∧ o.ret = true ∧ WF o.st ∧ Inv o.st ∧
      run (phase s) [] (buf.drop 3) = ⟨phase o.st, o.blocks.map toSpec, true⟩ := by
  obtain ⟨o, h1, h2, h3, h4, _, h6⟩ := decode_run buf hbuf s hwf hinv n hn hadm hok
  exact ⟨o, h1, h2, h3, h4, h6⟩

/-- **Blocks delivered as sent (packet sequences).**  Take any sendable block sequence with
    any filler counts (`Spec.flat`), cut into consecutive 39 byte payloads in any packets whose
    block pointers are usable.  Decoding the packets one after the other from a state between
    blocks calls back exactly the non-empty blocks, in order, each with its application id
    and bytes - nothing else - and ends between blocks.  (Size-0 blocks produce no callback.) -/
theorem pfc_delivers_blocks_rows (items : List (Spec.Blk × Nat)) (hitems : ∀ it ∈ items, it.1.Ok) (lead : Nat)
    (bufs : List (List Nat)) (hlen : ∀ b ∈ bufs, b.length = 42)
    (hstream : (bufs.map (fun b => b.drop 3)).flatten = Spec.flat lead items)
    (s : St) (hidle : s.left = 0) (hinv : Inv s)
    (hadm : Spec.AdmissibleAll .idle (bufs.map Spec.bpAndPayload)) :
    ∃ s' bl, decodeAll s bufs = .ok (s', bl) ∧ bl.map toSpec = Spec.delivered items ∧ s'.left = 0 := by
  have hph := phase_idle s hidle
  have hwf : WF s := by intro h; omega
  have hR := pfc_grammar_reads_blocks items hitems lead
  obtain ⟨s', bl, h1, _, _, _, h5⟩ := decode_rows bufs s hwf hinv hlen (by rw [hph]; exact hadm)
    (by rw [hph, hstream, hR])
  rw [hph, hstream, hR] at h5
  refine ⟨s', bl, h1, ?_, ?_⟩
  · have := congrArg Spec.Res.out h5; exact this.symm
  · have := congrArg Spec.Res.ph h5
    simp only at this
    by_cases h : s'.left = 0
    · exact h
    · exfalso
      unfold phase at this
      rw [if_neg h] at this
      cases ha : s'.appId with
      | none => rw [ha] at this; cases this
      | some a => rw [ha] at this; cases this

/-- **Blocks delivered as sent (whole transmissions).**  A freshly created demultiplexer for
    page `pgno` (0x100..0x8FF), stream `stream`, is fed consecutive pages of that stream: each a page
    header (continuity index counting up modulo 16 from any `ci`, packet count = number of rows,
    any other header content) followed by its rows `X/1 .. X/n`, `n <= 25`.  If the rows' payloads,
    concatenated, are the flat stream of a sendable block sequence (blocks of 0..2047 bytes, any
    filler counts, so any alignment relative to packets and pages) and every block pointer is
    usable, then the callbacks are exactly the non-empty blocks, in order, with their application
    ids and bytes.  Size-0 blocks produce no callback (stated interpretation). -/
theorem pfc_delivers_blocks (pgno stream : Nat) (hpg1 : 0x100 ≤ pgno) (hpg2 : pgno < 0x900) (hst : stream < 16)
    (items : List (Spec.Blk × Nat)) (hitems : ∀ it ∈ items, it.1.Ok) (lead : Nat)
    (ci : Nat) (hci : ci < 16) (pages : List Spec.Page) (hn : ∀ pg ∈ pages, pg.rows.length ≤ 25)
    (hstream : ((Spec.allRows pages).map (·.2)).flatten = Spec.flat lead items)
    (hadm : Spec.AdmissibleAll .idle (Spec.allRows pages)) :
    ∃ s' bl, feedAll (new pgno stream) (Spec.pagesPkts pgno stream ci pages) = .ok (s', bl) ∧
      bl.map toSpec = Spec.delivered items :=
  feed_delivers pgno stream hpg1 hpg2 hst items hitems lead ci hci pages hn hstream hadm

/-- The same from any state between blocks whose page bookkeeping is consistent with the first
    header (continuity index as expected and previous page complete, or - after a reset - any
    index): delivery (re)starts correctly.  Together with `pfc_loss_discards_one_block` this is
    "after which delivery resumes correctly". -/
theorem pfc_delivers_blocks_from (pgno stream : Nat) (hpg1 : 0x100 ≤ pgno) (hpg2 : pgno < 0x900) (hst : stream < 16)
    (items : List (Spec.Blk × Nat)) (hitems : ∀ it ∈ items, it.1.Ok) (lead : Nat)
    (ci : Nat) (hci : ci < 16) (pages : List Spec.Page) (hn : ∀ pg ∈ pages, pg.rows.length ≤ 25)
    (hstream : ((Spec.allRows pages).map (·.2)).flatten = Spec.flat lead items)
    (hadm : Spec.AdmissibleAll .idle (Spec.allRows pages))
    (s : St) (hidle : s.left = 0) (hinv : Inv s) (hpgs : s.pgno = pgno) (hss : s.stream = stream)
    (hready : (s.ci = ci ∧ (s.nPackets = 0 ∨ s.packet = s.nPackets + 1)) ∨ s.ci ≠ ci) :
    ∃ s' bl, feedAll s (Spec.pagesPkts pgno stream ci pages) = .ok (s', bl) ∧
      bl.map toSpec = Spec.delivered items := by
  have hph := phase_idle s hidle
  have hR := pfc_grammar_reads_blocks items hitems lead
  have hready' : (s.ci = ci ∧ (s.nPackets = 0 ∨ s.packet = s.nPackets + 1)) ∨ (s.ci ≠ ci ∧ s.left = 0) := by
    rcases hready with h | h
    · exact Or.inl h
    · exact Or.inr ⟨h, hidle⟩
  obtain ⟨s', bl, h1, _, _, h4⟩ := feed_pages pgno stream hpg1 hpg2 hst pages hn ci s hci
    (by intro h; omega) hinv hpgs hss hready' (by rw [hph]; exact hadm) (by rw [hph, hstream, hR])
  rw [hph, hstream, hR] at h4
  exact ⟨s', bl, h1, (congrArg Spec.Res.out h4).symm⟩

/-- **Foreign packets are ignored.**  A packet that is not a page header (packet number != 0)
    and belongs to another magazine changes nothing and delivers nothing; so does any such packet
    while no page of ours is open (`n_packets = 0`: after a header of another page or stream), and
    stuffing rows 26..31. -/
theorem pfc_foreign_pages_ignored (s : St) (buf : List Nat) (hlen : buf.length = 42) (m y : Nat)
    (haddr : Spec.addrOf buf = some (m, y)) (hy : y ≠ 0)
    (h : (m ^^^ s.pgno) &&& 0xF00 ≠ 0 ∨ s.nPackets = 0 ∨ y > 25) :
    feed s buf = .ok ⟨s, true, []⟩ := by
  rw [feed_nonheader s buf hlen m y haddr hy]
  by_cases h1 : (m ^^^ s.pgno) &&& 0xF00 ≠ 0
  · rw [if_pos h1]
  · rw [if_neg h1]
    by_cases h2 : s.nPackets = 0
    · rw [if_pos h2]
    · rw [if_neg h2]
      have h3 : y > 25 := by rcases h with h | h | h <;> first | exact absurd h h1 | exact absurd h h2 | exact h
      rw [if_pos h3]

/-- A page header of another page (any magazine) delivers nothing; it either changes nothing or
    closes our page, after which the rows that follow are ignored (previous theorem). -/
theorem pfc_foreign_header_delivers_nothing (s : St) (buf : List Nat) (hlen : buf.length = 42) (m pp : Nat)
    (haddr : Spec.addrOf buf = some (m, 0)) (hpage : Spec.pageByteOf buf = some pp) (hne : m ||| pp ≠ s.pgno) :
    ∃ o, feed s buf = .ok o ∧ o.blocks = [] ∧ o.ret = true ∧ (o.st = s ∨ o.st.nPackets = 0) :=
  feed_foreign_header s buf hlen m pp haddr hpage hne

/-- **A page header of another magazine is harmless** (current tree, after fix e5a7d5f; the proof
    needs `Gen.pfcForeignMagHeaderIgnored = true` and stops building if the source loses that test).
    With parallel magazine transmission such a header can arrive in the middle of our page: it
    leaves the state unchanged, and inserting it anywhere into any packet sequence changes neither
    the callbacks nor the final state - so the block in progress is delivered intact. -/
theorem pfc_foreign_magazine_header_harmless (s : St) (hdr : List Nat) (hlen : hdr.length = 42) (m pp : Nat)
    (haddr : Spec.addrOf hdr = some (m, 0)) (hpage : Spec.pageByteOf hdr = some pp)
    (hmag : ((m ||| pp) ^^^ s.pgno) &&& 0xF00 ≠ 0) :
    feed s hdr = .ok ⟨s, true, []⟩ ∧
    ∀ a b : List (List Nat), feedAll s (a ++ hdr :: b) = feedAll s (a ++ b) :=
  ⟨feed_foreign_mag_header (by decide) s hdr hlen m pp haddr hpage hmag,
   fun a b => feedAll_insert hdr s.pgno
     (fun s' hs' => feed_foreign_mag_header (by decide) s' hdr hlen m pp haddr hpage (by rw [hs']; exact hmag))
     b a s rfl⟩

/-- the transmission of finding F41 (a header of magazine 2 between rows 1 and 2 of page 1DF) now
    delivers both blocks intact -/
example : blocksOf (feedAll (new 0x1df 1) Zvbi.C15Witness.f20Packets) =
    [(5, 60, List.range 60), (6, 40, (List.range 40).map (· + 100))] := by decide +kernel

/-- **Loss discards the block in progress, nothing else.**  (a) A row of our open page that is
    not the expected one (a row was lost), and (b) a page header of ours whose continuity index is
    not the expected one (a page was lost), deliver nothing and put the demultiplexer into the
    state of a new one (the partly assembled block is dropped; (b) then records the new page).
    `pfc_delivers_blocks_from` applies to that state. -/
theorem pfc_loss_discards_one_block (s : St) :
    (∀ (buf : List Nat) (m y : Nat), buf.length = 42 → Spec.addrOf buf = some (m, y) → y ≠ 0 →
        (m ^^^ s.pgno) &&& 0xF00 = 0 → s.nPackets ≠ 0 → y ≤ 25 → (y ≠ s.packet ∨ y > s.nPackets) →
        feed s buf = .ok ⟨reset s, true, []⟩) ∧
    (∀ (pgno stream ci n : Nat) (tail : List Nat), 0x100 ≤ pgno → pgno < 0x900 → stream < 16 → ci < 16 → n < 32 →
        s.pgno = pgno → s.stream = stream → ci ≠ s.ci →
        feed s (Spec.headerPkt pgno stream ci n tail) =
          .ok ⟨{ reset s with ci := (ci + 1) &&& 15, packet := 1, nPackets := n }, true, []⟩) ∧
    reset s = { new s.pgno s.stream with blockSize := s.blockSize } ∧ (reset s).left = 0 ∧ Inv (reset s) := by
  refine ⟨?_, ?_, rfl, rfl, inv_reset s⟩
  · intro buf m y hlen haddr hy hm hn h25 hgap
    rw [feed_nonheader s buf hlen m y haddr hy]
    have h1 : ¬ ((m ^^^ s.pgno) &&& 0xF00 ≠ 0) := by simp [hm]
    have h3 : ¬ y > 25 := by omega
    rw [if_neg h1, if_neg hn, if_neg h3, if_pos hgap]
  · intro pgno stream ci n tail h1 h2 h3 h4 h5 h6 h7 h8
    rw [feed_header s pgno stream ci n tail h1 h2 h3 h4 h5 h6 h7, if_pos h8]

/-- **Finding C15-F18 (witness).**  The structure header (and the page sub-code) is read as
    `vbi_unham16p (lo) + vbi_unham16p (hi) * 256` and only the sign of the sum is tested: an
    uncorrectable Hamming error in the low pair goes unnoticed when the high pair is > 0.  Sent: one
    block (app 5, 64 bytes) whose first structure header byte has two bits flipped.  Delivered: a
    block (app 31, 63 bytes) that was never sent.  Replay: corpus/C15/f18a-pfc-structure-header-hamming.ops -/
theorem pfc_header_hamming_counterexample : pfcPairSignChecked = false →
    (blocksOf (feedAll (new 0x1df 1) Zvbi.C15Witness.f18Packets)).map (fun b => (b.1, b.2.1)) = [(31, 63)] := by
  decide +kernel

/-- **Finding C15-F19 (witness).**  The last row of a page is lost; the next page header has the
    expected continuity index and nothing checks that all announced rows arrived: block (app 5,
    bytes 0..99) is delivered with wrong content.  Replay: corpus/C15/f19-pfc-tail-drop.ops -/
theorem pfc_tail_loss_counterexample : pfcPageEndChecked = false →
    ∃ b ∈ blocksOf (feedAll (new 0x1df 1) Zvbi.C15Witness.f19Packets),
      b.1 = 5 ∧ b.2.1 = 100 ∧ b.2.2 ≠ List.range 100 := by
  decide +kernel

/-- **Finding C15-F20 (witness).**  Parallel transmission: a page header of magazine 2 between rows 1
    and 2 of our page closes our page, row 2 is ignored without a reset and block (app 5, bytes
    0..59) is delivered with wrong content.  Replay: corpus/C15/f20-pfc-parallel-header.ops -/
theorem pfc_parallel_header_counterexample : pfcForeignMagHeaderIgnored = false →
    ∃ b ∈ blocksOf (feedAll (new 0x1df 1) Zvbi.C15Witness.f20Packets),
      b.1 = 5 ∧ b.2.1 = 60 ∧ b.2.2 ≠ List.range 60 := by
  decide +kernel

/-! ### non-vacuity: a transmission produced by `Spec.encode` -/

/-- three blocks (one empty), fillers, 2 rows -/
def exItems : List Spec.Item := [⟨5, [1, 2, 3], 2⟩, ⟨6, [], 0⟩, ⟨7, List.range 40, 1⟩]
def exPages : List Spec.Page := [⟨List.replicate 34 0x20, Spec.encode 0 exItems⟩]

example : (Spec.encode 0 exItems).length = 2 := by decide +kernel
example : (blocksOf (feedAll (new 0x1df 1) (Spec.pagesPkts 0x1df 1 9 exPages))).map (fun b => (b.1, b.2.2)) =
    [(5, [1, 2, 3]), (7, List.range 40)] := by decide +kernel
example : (Spec.run .idle [] ((Spec.allRows exPages).map (·.2)).flatten).out = [(5, [1, 2, 3]), (7, List.range 40)] := by
  decide +kernel
example : Spec.run .idle [] (Spec.flat 2 [(⟨5, [1, 2, 3]⟩, 4), (⟨6, []⟩, 0)]) = ⟨.idle, [(5, [1, 2, 3])], true⟩ := by
  decide +kernel

/-- **The executable sender always meets the hypotheses of `pfc_delivers_blocks`** (formerly the
    open statement `pfc_sender_admissible_full`).  For every list of sendable items and every
    number of leading fillers: all block pointers of the packets of `Spec.encode` are usable, and
    their payloads, concatenated, are the flat stream of exactly the items' blocks (the gaps
    enlarged by the alignment fillers).  Proof: an invariant of the layout fold derived from the
    definition of `alignPad` (every first separator of a packet that starts between blocks sits
    at a multiple of 3, <= 36), plus the grammar's phase at every cut of a well-tagged token stream. -/
theorem pfc_sender_admissible (lead : Nat) (items : List Spec.Item)
    (hok : ∀ it ∈ items, it.app < 32 ∧ it.data.length ≤ 2047) :
    Spec.AdmissibleAll .idle (Spec.encode lead items) ∧
    ∃ lead' gaps, gaps.length = items.length ∧
      ((Spec.encode lead items).map (·.2)).flatten =
        Spec.flat lead' ((items.map (fun it => (⟨it.app, it.data⟩ : Spec.Blk))).zip gaps) :=
  ⟨encode_admissible lead items hok, encode_stream_flat lead items⟩

/-- **End to end for the executable sender.**  Whatever sendable items, leading fillers and
    gaps: the rows produced by `Spec.encode`, distributed over pages in any way (<= 25 rows per
    page, continuity index counting from any value), fed to a new demultiplexer, are delivered as
    exactly the non-empty blocks of the items, in order.  No hypothesis about block pointers or
    alignment is left. -/
theorem pfc_sender_delivers (pgno stream : Nat) (hpg1 : 0x100 ≤ pgno) (hpg2 : pgno < 0x900) (hst : stream < 16)
    (lead : Nat) (items : List Spec.Item) (hok : ∀ it ∈ items, it.app < 32 ∧ it.data.length ≤ 2047)
    (ci : Nat) (hci : ci < 16) (pages : List Spec.Page) (hn : ∀ pg ∈ pages, pg.rows.length ≤ 25)
    (hrows : Spec.allRows pages = Spec.encode lead items) :
    ∃ s' bl, feedAll (new pgno stream) (Spec.pagesPkts pgno stream ci pages) = .ok (s', bl) ∧
      bl.map toSpec = Spec.delivered (Spec.itemBlocks items) :=
  encode_delivers pgno stream hpg1 hpg2 hst lead items hok ci hci pages hn hrows

example : Spec.encodeChecked 0 exItems = some (Spec.encode 0 exItems) := by decide +kernel

end Pfc

end Zvbi.Props.C15
