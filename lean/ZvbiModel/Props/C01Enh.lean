import ZvbiModel.Dec.TopNav
import ZvbiModel.Dec.ConvertReads
import ZvbiModel.Enh.ObjRefLemmas
/-!
# C01 - obligations of the Level 2.5 / 3.5 object machinery and of TOP navigation

Three places where the decoder relies on an arithmetic or book-keeping fact that two distant pieces of code must
agree on.  Each fact is regenerated from the current source by translate/gen_c01.py
(`Generated/C01Facts.lean`), so the statements below are about the code as it is now:

1. `add_modulo()` keeps every page number of the TOP navigation scans inside 0x100 ... 0x8FF
   (`cache_network_page_stat` asserts that range and indexes `_pages[]` with it);
2. `vbi_convert_page()` reads nothing behind the (truncated) cached page it converts
   (`cache_page_size()` decides how many bytes exist);
3. `resolve_obj_address()` / `enhance()` / `default_object_invocation()` release every cache page reference they take,
   on every path, for arbitrary (also cyclic) object graphs - nothing is left referenced when the fetch returns;
4. the pointer table index and the object's triplet range stay inside `pop.pointer[]` / `pop.triplet[]`.
-/
namespace Zvbi.Props.C01Enh
open Zvbi.Gen.C01 Zvbi.Generated.Enh

/-! ## 1. add_modulo / TOP navigation -/
section TopNav
open Zvbi.Dec.TopNav

/-- masking with 0x7FF and adding 0x100 lands in the page range, whatever is masked (also a negative value) -/
theorem mask_add_in_range (x : BitVec 32) : InRange ((x &&& 2047#32) + 256#32) := by
  unfold InRange
  have h : (x &&& 2047#32).toNat ≤ 2047 := by
    rw [BitVec.toNat_and]; exact Nat.and_le_right
  have hn : ((x &&& 2047#32) + 256#32).toNat = (x &&& 2047#32).toNat + 256 := by
    rw [BitVec.toNat_add]; simp only [BitVec.toNat_ofNat]; omega
  rw [BitVec.toInt_eq_toNat_cond, hn]
  simp only [pageStatLo, nPageStats]
  split <;> omega

/-- **add_modulo_range** (general form the code relies on): for EVERY `int` page number and EVERY increment the
result of the current `add_modulo` expression satisfies the assertion of `cache_network_page_stat`
(0x100 ≤ result ≤ 0x8FF) - in particular for `pgno = 0x100`, `incr = -1`, where the intermediate value is negative. -/
theorem add_modulo_range (pgno incr : BitVec 32) : InRange (addModulo pgno incr) :=
  mask_add_in_range _

/-- the two uses in `top_navigation_bar`: one page up, one page down, from any page number -/
theorem add_modulo_range_steps (pgno : BitVec 32) :
    InRange (addModulo pgno 1#32) ∧ InRange (addModulo pgno (-1#32)) :=
  ⟨add_modulo_range _ _, add_modulo_range _ _⟩

/-- it is the cyclic successor / predecessor at the ends of the range -/
theorem add_modulo_wraps : addModulo 0x100#32 (-1#32) = 0x8FF#32 ∧ addModulo 0x8FF#32 1#32 = 0x100#32 ∧
    addModulo 0x100#32 1#32 = 0x101#32 ∧ addModulo 0x8FF#32 (-1#32) = 0x8FE#32 := by decide

/-- why the mask matters: with C's truncating remainder (`% 0x800`) the step below page 100 yields 0xFF, outside the
range (seeded change C01-f; replayed on the C code by the oracle: assertion in `cache_network_page_stat`). -/
theorem add_modulo_rem_counterexample :
    (addModuloRem 0x100#32 (-1#32)).toInt = 0xFF ∧ ¬ InRange (addModuloRem 0x100#32 (-1#32)) := by decide

/-- the facts about `top_navigation_bar` used below are in the source -/
theorem top_navigation_uses_add_modulo :
    navPgno1IsSuccessor = true ∧ navScansDownWithMinusOne = true ∧ navScansUpWithPlusOne = true := by decide

theorem scanDown_in_range (bg : BitVec 32 → Bool) (pgno1 : BitVec 32) :
    ∀ (fuel : Nat) (i : BitVec 32), InRange i → ∀ p ∈ scanDown bg pgno1 fuel i, InRange p := by
  intro fuel
  induction fuel with
  | zero => intro i _ p hp; simp [scanDown] at hp
  | succ f ih =>
    intro i hi p hp
    unfold scanDown at hp
    split at hp
    · simp at hp
    · simp only [List.mem_cons] at hp
      rcases hp with rfl | hp
      · exact hi
      · split at hp
        · simp at hp
        · exact ih _ (add_modulo_range _ _) p hp

theorem scanUp_in_range (stop : BitVec 32 → Bool) (pgno : BitVec 32) :
    ∀ (fuel : Nat) (i : BitVec 32), InRange i → ∀ p ∈ scanUp stop pgno fuel i, InRange p := by
  intro fuel
  induction fuel with
  | zero => intro i _ p hp; simp [scanUp] at hp
  | succ f ih =>
    intro i hi p hp
    unfold scanUp at hp
    split at hp
    · simp at hp
    · simp only [List.mem_cons] at hp
      rcases hp with rfl | hp
      · exact hi
      · split at hp
        · simp at hp
        · exact ih _ (add_modulo_range _ _) p hp

/-- **top_navigation_pgnos_in_range**: every page number `top_navigation_bar` hands to `cache_network_page_stat`
is in range - for every page type table (`blockOrGroup`, `stop` arbitrary: also "no block or group page anywhere",
the case in which the downward scan passes page 100) and every length of the walk. -/
theorem top_navigation_pgnos_in_range (bg stop : BitVec 32 → Bool) (fuel : Nat) (pgno : BitVec 32)
    (h : InRange pgno) : ∀ p ∈ visited bg stop fuel pgno, InRange p := by
  intro p hp
  simp only [visited, List.mem_cons, List.mem_append] at hp
  rcases hp with rfl | hp | hp
  · exact h
  · exact scanDown_in_range bg _ fuel pgno h p hp
  · exact scanUp_in_range stop pgno fuel _ (add_modulo_range _ _) p hp

/-- non-vacuity: with no block / group page the downward scan from page 101 does pass 100 and wraps to 8FF -/
example : scanDown (fun _ => false) (addModulo 0x101#32 1#32) 4 0x101#32 = [0x101#32, 0x100#32, 0x8FF#32, 0x8FE#32] := by decide
example : InRange 0x100#32 ∧ InRange 0x8FF#32 ∧ ¬ InRange 0xFF#32 ∧ ¬ InRange 0x900#32 ∧ ¬ InRange (-1#32) := by decide

end TopNav

/-! ## 2. vbi_convert_page reads within cache_page_size -/
section Convert
open Zvbi.Dec.ConvertReads

/-- the translated `cache_page_size` agrees with the compiled function text on the whole probe grid
(16 function values x 3 x26 values x 10 x28 values) -/
theorem cache_page_size_matches_compiled :
    probeRows.all (fun r => cachePageSize ((r.1 : Int) - 16) r.2.1 r.2.2.1 == r.2.2.2) = true := by decide +kernel

theorem srcSize_ge_lop (s : Src) : hdrSize + sizeof_lop ≤ srcSize s := by
  unfold srcSize cachePageSize
  simp only [fn_UNKNOWN, fn_LOP, true_or, if_true, hdrSize, sizeof_lop, sizeof_ext_lop, sizeof_enh_lop]
  split
  · omega
  · split <;> omega

theorem srcSize_ge_enh (s : Src) (h : s.x26 ≠ 0) : hdrSize + sizeof_enh_lop ≤ srcSize s := by
  unfold srcSize cachePageSize
  simp only [fn_UNKNOWN, fn_LOP, true_or, if_true, hdrSize, sizeof_ext_lop, sizeof_enh_lop]
  split
  · omega
  · exact Nat.le_refl _       -- `split` used `h` for the X/26 test

theorem rowReads_within (lo hi lp : Nat) (hhi : hi < rawRows) (s : Src) :
    ∀ r ∈ rowReads lo hi lp, r.1 + r.2 ≤ srcSize s := by
  intro r hr
  simp only [rowReads, List.mem_map, List.mem_filter, List.mem_range] at hr
  obtain ⟨i, ⟨⟨k, hk, rfl⟩, _⟩, rfl⟩ := hr
  have := srcSize_ge_lop s
  simp only [dataOff, rawOff, rawCols, hdrSize, sizeof_lop, rawRows] at *
  omega

/-- **convert_page_reads_within_size**: for every target function, every set of received packets and every
combination of X/26 / X/28 designations of the (truncated, cached) source page, each byte range
`vbi_convert_page` reads from the source lies inside the `cache_page_size` bytes that exist.  The X/26 triplet copy
of the (G)POP case is in range only because it is skipped for a page without X/26 packets - `popEnhCopyRuns` is
regenerated from packet.c; without the guard this proof does not build (seeded change C01-d). -/
theorem convert_page_reads_within_size (newFn : Int) (s : Src) :
    ∀ r ∈ reads newFn s, r.1 + r.2 ≤ srcSize s := by
  intro r hr
  have hlop := srcSize_ge_lop s
  simp only [reads, List.mem_cons] at hr
  rcases hr with rfl | hr
  · simp only [convHeadBytes, hdrSize, sizeof_unknown, sizeof_lop] at *; omega
  · split at hr
    · simp only [List.mem_append] at hr
      rcases hr with hr | hr
      · exact rowReads_within _ _ _ (by decide) s r hr
      · split at hr
        · rename_i hruns
          have hx : s.x26 ≠ 0 := by simpa [popEnhCopyRuns] using hruns
          have := srcSize_ge_enh s hx
          simp only [List.mem_cons, List.not_mem_nil, or_false] at hr
          subst hr
          simp only [dataOff, enhOffEnhLop, popEnhCopyBytes, hdrSize, sizeof_enh_lop] at *; omega
        · simp at hr
    · split at hr
      · simp only [List.mem_cons, List.not_mem_nil, or_false] at hr
        rcases hr with rfl | rfl <;>
          simp only [dataOff, drcsLopOff, drcsLopSize, rawOff, drcsFirstRow, rawCols, drcsRowCount, hdrSize, sizeof_lop] at * <;> omega
      · split at hr
        · exact rowReads_within _ _ _ (by decide) s r hr
        · split at hr
          · exact rowReads_within _ _ _ (by decide) s r hr
          · split at hr
            · exact rowReads_within _ _ _ (by decide) s r hr
            · simp at hr

/-- the guard is needed: for a page cached at the plain size (no X/26, no X/28) the copy would end 624 bytes behind
the page (what AddressSanitizer reports on the seeded change C01-d) -/
theorem convert_page_unguarded_copy_overreads (lp : Nat) :
    dataOff + enhOffEnhLop + popEnhCopyBytes = srcSize ⟨0, 0, lp⟩ + 624 := by
  show _ = cachePageSize fn_UNKNOWN 0 0 + 624
  decide

/-- the copy also stays inside `enh[]` and inside `pop.triplet[]` at the destination -/
theorem convert_page_enh_copy_fits : popEnhCopyBytes ≤ enhLen * tripletSize ∧
    popEnhDstIndex * tripletSize + popEnhCopyBytes ≤ popTripletLen * tripletSize ∧ enhOffEnhLop = enhOffExtLop := by decide

/-- `vbi_decode_teletext`, header of a page that is cached: the bytes copied out of the cached page are exactly
the bytes behind its header (`cache_page_size - header`), for every function and designation set, and they fit the
`data` union of the assembly buffer -/
theorem header_reload_within_size (fn : Int) (x26 x28 : Nat) (_h : headerReloadCopiesSizeMinusHeader = true) :
    (reloadRead fn x26 x28).1 + (reloadRead fn x26 x28).2 = cachePageSize fn x26 x28 ∧
    (reloadRead fn x26 x28).2 ≤ fullSize - hdrSize := by
  unfold reloadRead cachePageSize
  simp only [dataOff, hdrSize, fullSize, sizeof_ext_lop, sizeof_enh_lop, sizeof_lop, sizeof_pop, sizeof_drcs, sizeof_ait]
  repeat' split
  all_goals omega

example : headerReloadCopiesSizeMinusHeader = true := by decide

/-- non-vacuity: a POP conversion of a page with rows 1, 3 and X/26/0 reads the head, two rows and the triplets -/
example : reads fn_POP ⟨1, 0, 0b1010⟩ = [(0, 1564), (128, 40), (208, 40), (1564, 624)] := by decide
example : reads fn_POP ⟨0, 0, 0b1010⟩ = [(0, 1564), (128, 40), (208, 40)] := by decide
example : srcSize ⟨0, 0, 0⟩ = 1564 ∧ srcSize ⟨1, 0, 0⟩ = 2192 ∧ srcSize ⟨0, 0x10, 0⟩ = 2436 := by decide

/-! ### the reading side: `vbi_format_vt_page` / local objects on a (truncated) cached page -/

theorem and_ne_zero_of_sub (x a b : Nat) (hab : b &&& a = a) (h : x &&& a ≠ 0) : x &&& b ≠ 0 := by
  intro hb
  apply h
  have : x &&& a = (x &&& b) &&& a := by rw [Nat.and_assoc, hab]
  rw [this, hb]; simp

/-- **format_reads_within_size**: the page formatter reads `data.ext_lop.ext` only when
`x28_designations & 0x11` and `data.enh_lop.enh` (all 209 triplets) only when `x26_designations & 1` - masks
regenerated from teletext.c - and for every page of function LOP with such designations `cache_page_size` (mask
`0x13`, regenerated from cache.c) allocated those members. -/
theorem format_reads_within_size (x26 x28 : Nat) :
    (x28 &&& formatExtMask ≠ 0 → dataOff + extOff + extSize ≤ cachePageSize fn_LOP x26 x28) ∧
    (x26 &&& formatEnhMask ≠ 0 → dataOff + enhOffEnhLop + enhLen * tripletSize ≤ cachePageSize fn_LOP x26 x28) ∧
    (x26 &&& localObjEnhMask ≠ 0 → dataOff + enhOffEnhLop + enhLen * tripletSize ≤ cachePageSize fn_LOP x26 x28) := by
  have hx : ∀ m, x26 &&& m ≠ 0 → x26 ≠ 0 := by
    intro m h h0; apply h; rw [h0]; simp
  have henh : x26 ≠ 0 → dataOff + enhOffEnhLop + enhLen * tripletSize ≤ cachePageSize fn_LOP x26 x28 := by
    intro h
    unfold cachePageSize
    simp only [fn_UNKNOWN, fn_LOP, or_true, if_true, dataOff, enhOffEnhLop, enhLen, tripletSize, hdrSize,
      sizeof_ext_lop, sizeof_enh_lop]
    split
    · omega
    · omega
  refine ⟨?_, fun h => henh (hx _ h), fun h => henh (hx _ h)⟩
  intro h
  have h13 : x28 &&& 19 ≠ 0 := and_ne_zero_of_sub x28 formatExtMask 19 (by decide) h
  unfold cachePageSize
  simp only [fn_UNKNOWN, fn_LOP, or_true, if_true, dataOff, extOff, extSize, hdrSize, sizeof_ext_lop]
  rw [if_pos h13]
  omega

example : cachePageSize fn_LOP 0 0x10 = hdrSize + sizeof_ext_lop ∧ cachePageSize fn_LOP 1 0 = hdrSize + sizeof_enh_lop := by decide

end Convert

/-! ## 3. references taken on cache pages are all released -/
section Refs
open Zvbi.Enh.ObjRef

/-- what the balance proofs use is in the source: every give-up path of `resolve_obj_address` that holds a page
releases it (the `page not cached` path holds none), the success path hands the reference over, the cached
conversion releases the page it replaced, and both callers release the object page after the nested `enhance`
whether it succeeded or not -/
theorem release_paths_in_source :
    unrefOnConvertFail = true ∧ unrefOnWrongFunction = true ∧ unrefOnPointerOutOfBounds = true ∧
    unrefOnNoObjectDefinition = true ∧ unrefOnNotCached = false ∧ successHandsReferenceOver = true ∧
    convertReleasesOldOnSuccess = true ∧ enhanceUnrefAfterObjectFail = true ∧ enhanceUnrefAfterObjectDone = true ∧
    enhanceFailsOnNullTriplet = true ∧ defaultUnrefAfterObjectFail = true ∧ defaultUnrefAfterObjectDone = true ∧
    defaultFailsOnNullTriplet = true := by decide

/-- `resolve_obj_address` alone: giving up leaves the ledger as it was; success adds exactly the one reference
that goes to the caller -/
theorem resolve_obj_address_refs (r : Resolve) (s : St) :
    (∀ s1, resolve r s = (s1, none) → s1 = s) ∧
    (∀ s1 p t, resolve r s = (s1, some (p, t)) → s1 = s.get p) :=
  ⟨fun s1 h => resolve_none r s s1 h, fun s1 p t h => resolve_some r s s1 p t h⟩

/-- **enhance_refs_balanced**: for arbitrary object contents (cycles allowed), arbitrary look-up results at every
invocation (not cached, conversion fails, wrong function, pointer 507..511 / 0xFFFF, no definition, found - with or
without conversion of a page cached under an unknown function) and any nesting, `enhance` returns - TRUE or FALSE -
holding exactly the references it was called with, and never releases a page it does not hold. -/
theorem enhance_refs_balanced (objs : Objects) (fuel type : Nat) (trips : List Trip) (s : St) (ok : Bool) (s' : St)
    (h : enhance objs fuel type trips s = some (ok, s')) : s'.refs = s.refs ∧ s'.fault = s.fault := by
  have := enhance_balanced objs fuel type trips s ok s' h
  subst this; exact ⟨rfl, rfl⟩

theorem default_objects_refs_balanced (objs : Objects) (fuel : Nat) (l : List (Nat × Resolve)) (s : St) (ok : Bool)
    (s' : St) (h : defaultObjects objs fuel l s = some (ok, s')) : s'.refs = s.refs ∧ s'.fault = s.fault := by
  have := defaultObjects_balanced objs fuel l s ok s' h
  subst this; exact ⟨rfl, rfl⟩

/-- **resolve_obj_refs_balanced**: when `vbi_fetch_vt_page` returns, no reference is left - on the page, on a
(G)POP page, on a converted copy - and none was released twice; with local enhancement data (X/26) or with the MOT
default objects. -/
theorem resolve_obj_refs_balanced (objs : Objects) (fuel page : Nat) (x26 : Option (List Trip))
    (defaults : List (Nat × Resolve)) (ok : Bool) (s : St) (h : fetch objs fuel page x26 defaults = some (ok, s)) :
    s.refs = [] ∧ s.fault = false := by
  unfold fetch at h
  cases x26 with
  | some trips =>
    simp only [Option.map_eq_some_iff] at h
    obtain ⟨⟨ok', s1⟩, he, hm⟩ := h
    have := enhance_balanced objs _ _ _ _ _ _ he
    simp at hm; subst this
    rw [← hm.2, unref_get]; exact ⟨rfl, rfl⟩
  | none =>
    simp only [Option.map_eq_some_iff] at h
    obtain ⟨⟨ok', s1⟩, he, hm⟩ := h
    have := defaultObjects_balanced objs _ _ _ _ _ he
    simp at hm; subst this
    rw [← hm.2, unref_get]; exact ⟨rfl, rfl⟩

/-- and the fetch does return: four nested activations suffice for local enhancement data (type 0) -/
theorem fetch_terminates (objs : Objects) (page : Nat) (trips : List Trip) :
    (fetch objs (maxObjectType + 1) page (some trips) []).isSome := by
  unfold fetch
  have := enhance_isSome objs (maxObjectType + 1) localEnhancementData trips (({} : St).get page) (by decide) (by decide)
  simp only [Option.isSome_map]
  exact this

/-- non-vacuity: an active object found through a converted page invokes a passive object whose pointer is 511
(unused) - two references are taken on the way, FALSE comes back, nothing is left -/
def demo : Objects := fun n => if n = 0 then [.other, .invoke 0x13 (.found 7 none 511 true 1)] else []
example : fetch demo 4 100 (some [.invoke 0x11 (.found 5 (some 6) 26 true 0), .other]) [] = some (false, {}) := by
  simp [fetch, enhance, resolve, demo, skipInvocation, typeMask, localEnhancementData, St.get, St.unref, pointerLimit,
    convertReleasesOldOnSuccess, unrefOnPointerOutOfBounds, enhanceUnrefAfterObjectFail]
example : (resolve (.found 5 none 26 true 0) {}).1.refs = [5] := by
  simp [resolve, St.get, pointerLimit]

end Refs

/-! ## 4. pointer table index, object triplet range -/

/-- `pointer[packet * 24 + i * 2 + half]` with `packet = (address >> 7) & 3`, `i = ((address >> 5) & 3) * 3 + type`,
`type` ≤ 3 (two bits of the triplet mode / of the MOT entry) is inside `pop.pointer[]` -/
theorem pop_pointer_read_in_range (packet grp type half : Nat) (hp : packet ≤ packetMask) (hg : grp ≤ groupMask)
    (ht : type ≤ maxObjectType) (hh : half ≤ 1) :
    pointerIndex packet (grp * groupStride + type) half < popPointerLen := by
  simp only [pointerIndex, packetMask, groupMask, groupStride, maxObjectType, popPointerLen] at *
  omega

/-- a pointer admitted by the guard (`pointer ≤ 506`) addresses a triplet of `pop.triplet[]`, and the
`remaining` count handed to `enhance` (`elements - (pointer + 1)`) ends exactly at the end of the array -/
theorem object_triplets_within_table (pointer : Nat) (h : pointer ≤ pointerLimit) :
    pointer < popTripletLen ∧ (pointer + 1) + (popTripletLen - (pointer + 1)) = popTripletLen := by
  simp only [pointerLimit, popTripletLen] at *
  omega

example : pointerIndex 3 12 1 = 97 ∧ popPointerLen = 98 := by decide

end Zvbi.Props.C01Enh
