import ZvbiModel.Export.Ppm
import ZvbiModel.Export.LemmasPpm
import ZvbiModel.Props.C16
/-!
# C16, PPM writer (exp-gfx.c `ppm_export`) inside the model

Header text, exact byte count as a function of (columns, rows, aspect) and row order, for every target; pixel
values are symbolic (`rowData`: the converted rows).
-/
namespace Zvbi.Props.C16Ppm
open Zvbi.Export Zvbi.Export.Spec

/-- **PPM output.**  For every target, page size and `aspect` setting, when the renderer delivers `rows` rows of
`ppmRowSize` bytes: the data is the header `P6 <width> <height> 255\n` followed by the rows in page order, nothing
else; its length is header + 3 * width * height bytes with width = 16 / 12 pixels per column (caption / Teletext)
and height = 13, 26 (caption, aspect 0 / 1) or 10, 20 (Teletext) lines per row.  The same bytes for all four targets. -/
theorem ppm_output_exact (t : Target) (columns rows : Nat) (dh : Bool) (rowData : List Bytes)
    (hn : rowData.length = rows) (hl : ∀ r ∈ rowData, r.length = ppmRowSize columns (ppmGeom columns dh)) :
    output (ppmOps t columns rows dh rowData)
      = ppmHeader (ppmWidth columns (ppmGeom columns dh)) (ppmHeight rows (ppmGeom columns dh)) ++ rowData.flatten ∧
    (output (ppmOps t columns rows dh rowData)).length
      = (ppmHeader (ppmWidth columns (ppmGeom columns dh)) (ppmHeight rows (ppmGeom columns dh))).length
        + 3 * (ppmWidth columns (ppmGeom columns dh) * ppmHeight rows (ppmGeom columns dh)) := by
  have hout : output (ppmOps t columns rows dh rowData)
      = ppmHeader (ppmWidth columns (ppmGeom columns dh)) (ppmHeight rows (ppmGeom columns dh)) ++ rowData.flatten := by
    have hrows := ppmRowOps_output columns (ppmGeom columns dh) rowData hl
    cases t
    · cases rowData with
      | nil => simp [ppmOps, output, opBytes]
      | cons r rs =>
        have hr : r.length = ppmRowSize columns (ppmGeom columns dh) := hl r (by simp)
        have hrs := ppmRowOps_output columns (ppmGeom columns dh) rs (fun q hq => hl q (by simp [hq]))
        have hle : r.length ≤ ppmNeeded .mem columns rows (ppmGeom columns dh) := by
          have : 1 ≤ rows := by rw [← hn]; simp
          simp only [ppmNeeded, hr]
          exact Nat.le_mul_of_pos_right _ this
        simp only [ppmOps, output_append, hrs]
        simp [output, opBytes, List.take_of_length_le hle]
    all_goals simp only [ppmOps, output_append, hrows]; simp [output, opBytes]
  refine ⟨hout, ?_⟩
  rw [hout, List.length_append, flatten_length_const _ _ hl, hn, ppmRowSize_eq, ppmHeight_eq]
  congr 1
  simp only [Nat.mul_comm, Nat.mul_left_comm, Nat.mul_assoc]

example : (ppmHeader (ppmWidth 40 (ppmGeom 40 true)) (ppmHeight 25 (ppmGeom 40 true))) = [80, 54, 32, 52, 56, 48, 32, 53, 48, 48, 32, 50, 53, 53, 10] := by
  decide      -- "P6 480 500 255\n"

/-- The space the module asks for in advance covers what it stores before the next flush: the whole image for
MEM and ALLOC (plus at most 64 bytes of header), one row for FP / FILE. -/
theorem ppm_needed_covers (t : Target) (columns rows : Nat) (dh : Bool) (hr : 1 ≤ rows) :
    (t = .mem → ppmNeeded t columns rows (ppmGeom columns dh) = rows * ppmRowSize columns (ppmGeom columns dh)) ∧
    (t = .alloc → 64 + rows * ppmRowSize columns (ppmGeom columns dh) ≤ ppmNeeded t columns rows (ppmGeom columns dh)) ∧
    ppmRowSize columns (ppmGeom columns dh) ≤ ppmNeeded t columns rows (ppmGeom columns dh) := by
  obtain ⟨k, rfl⟩ : ∃ k, rows = k + 1 := ⟨rows - 1, by omega⟩
  refine ⟨?_, ?_, ?_⟩
  · intro h; subst h; simp [ppmNeeded, Nat.mul_comm]
  · intro h; subst h
    simp only [ppmNeeded, if_true, Nat.add_sub_cancel]
    have : (k + 1) * ppmRowSize columns (ppmGeom columns dh) = ppmRowSize columns (ppmGeom columns dh) * k + ppmRowSize columns (ppmGeom columns dh) := by
      rw [Nat.succ_mul, Nat.mul_comm]
    rw [this]
    have := Nat.le_max_right (rgbaRowSize columns (ppmGeom columns dh) - (if (ppmGeom columns dh).scale = 2 then ppmWidth columns (ppmGeom columns dh) * 4 else 0))
      (ppmRowSize columns (ppmGeom columns dh))
    omega
  · cases t
    · simp only [ppmNeeded]; rw [Nat.mul_succ]; omega
    all_goals
      simp only [ppmNeeded]
      have := Nat.le_max_right (rgbaRowSize columns (ppmGeom columns dh) - (if (ppmGeom columns dh).scale = 2 then ppmWidth columns (ppmGeom columns dh) * 4 else 0))
        (ppmRowSize columns (ppmGeom columns dh))
      try split
      all_goals omega

example : ppmNeeded .alloc 40 25 (ppmGeom 40 false) = 19200 + 64 + 14400 * 24 ∧ ppmNeeded .fp 40 25 (ppmGeom 40 true) = 28800 + 1920 := by decide

/-- **Joined with the write layer**: the PPM module's calls are an instance of the abstract call list of
`targets_agree` / `mem_bounded`: every target delivers header ++ rows, `vbi_export_mem` reports exactly that size. -/
theorem ppm_targets_agree (wcfg : Cfg) (t : Target) (columns rows : Nat) (dh : Bool) (rowData : List Bytes) (user : Option Bytes)
    (hn : rowData.length = rows) (hl : ∀ r ∈ rowData, r.length = ppmRowSize columns (ppmGeom columns dh)) :
    let ops := ppmOps t columns rows dh rowData
    let img := ppmHeader (ppmWidth columns (ppmGeom columns dh)) (ppmHeight rows (ppmGeom columns dh)) ++ rowData.flatten
    (exportMem wcfg .unlimited user ops).ret = some img.length ∧
    (exportMem wcfg .unlimited user ops).user.length = (user.getD []).length ∧
    (exportAlloc wcfg .unlimited ops).data = some img ∧
    (exportStdio wcfg .unlimited ops).sink = some img ∧ (exportFile wcfg .unlimited ops).sink = some img := by
  intro ops img
  have ho : output ops = img := (ppm_output_exact t columns rows dh rowData hn hl).1
  have ht := Zvbi.Props.C16.targets_agree wcfg user ops
  have hne : output ops ≠ [] := by rw [ho]; simp [img, ppmHeader]
  rw [ho] at ht
  exact ⟨ht.1, (Zvbi.Props.C16.mem_bounded wcfg .unlimited user ops).1, ht.2.2.1 (ho ▸ hne), ht.2.2.2.1.2, ht.2.2.2.2.2⟩

example : (ppmOps .fp 40 1 false [List.replicate (ppmRowSize 40 (ppmGeom 40 false)) 7]).length = 5 := by decide

end Zvbi.Props.C16Ppm
