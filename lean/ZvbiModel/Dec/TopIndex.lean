import ZvbiModel.Generated.C01Facts
/-!
# Rows written by the TOP index page (teletext.c `top_index`, page 900)

`top_index (subno)` walks all AIT titles in page order (`next_ait`).  While `subno > 0` it skips titles, 18 per index
sub-page (`if (lines-- == 0) { subno--; lines = 17; }`); on the requested sub-page it prints one title per row starting
at row 4 while `lines-- <= 0` is false, and skips the rest.  How many titles exist is up to the broadcast.
The type of `lines` decides what `lines--` does at 0: for `int` it becomes -1 and stays negative (the number of titles
is at most 8 AIT pages * 46), for an unsigned type it wraps to 2^32 - 1.  Type, initial value and first row are
regenerated from the source (translate/gen_c01.py).
-/
namespace Zvbi.Dec.TopIndex
open Zvbi.Gen.C01

/-- value of `lines` after `lines--` -/
def postDec (l : Int) : Int :=
  if linesSigned then l - 1 else (if l = 0 then 4294967295 else l - 1)

structure St where
  subno : Int      -- index sub-pages still to skip (`vbi_bcd2dec (subno)`)
  lines : Int
  row   : Nat      -- `acp` = &pg->text[row * EXT_COLUMNS]
deriving Repr, DecidableEq

def init (subno : Int) : St := { subno := subno, lines := linesInit, row := indexFirstRow }

/-- one title: the new state and the row written, if any -/
def step (s : St) : St × Option Nat :=
  if s.subno > 0 then
    (if s.lines = 0 then { s with subno := s.subno - 1, lines := linesInit } else { s with lines := postDec s.lines }, none)
  else if s.lines ≤ 0 then ({ s with lines := postDec s.lines }, none)
  else ({ s with lines := postDec s.lines, row := s.row + 1 }, some s.row)

/-- rows written for `n` titles -/
def rows : Nat → St → List Nat
  | 0, _ => []
  | n + 1, s => match step s with
    | (s', some r) => r :: rows n s'
    | (s', none) => rows n s'

end Zvbi.Dec.TopIndex
