import ZvbiModel.Generated.C01Facts
/-!
# Page numbers of the TOP navigation scans (teletext.c `add_modulo`, `top_navigation_bar`) - C01 "never aborts"

`top_navigation_bar()` looks for the TOP block / group the page belongs to: it walks from the page downwards with
`add_modulo (i, -1)` until it meets `pgno1 = add_modulo (pgno, 1)`, then from `pgno1` upwards with `add_modulo (i, 1)`,
and hands every number it visits to `cache_network_page_stat()`, which asserts `0x100 <= pgno <= 0x8FF` and indexes
`_pages[pgno - 0x100]`.  `add_modulo` is the expression regenerated from the source (`Gen.C01.addModulo`), evaluated
on C `int` = 32-bit two's complement (`BitVec 32`; `%` would be the truncating `BitVec.srem`).
`blockOrGroup` (the page types of the BTT) is arbitrary.  Fuel bounds the walks (2048 numbers exist).
-/
namespace Zvbi.Dec.TopNav
open Zvbi.Gen.C01

/-- the assertion of `cache_network_page_stat`, on the signed value -/
def InRange (p : BitVec 32) : Prop := (pageStatLo : Int) ≤ p.toInt ∧ p.toInt < pageStatLo + nPageStats

instance (p : BitVec 32) : Decidable (InRange p) := by unfold InRange; exact inferInstance

/-- numbers handed to `cache_network_page_stat` by the downward scan started at `i` -/
def scanDown (blockOrGroup : BitVec 32 → Bool) (pgno1 : BitVec 32) : Nat → BitVec 32 → List (BitVec 32)
  | 0, _ => []
  | f + 1, i =>
    if i = pgno1 then [] else
    i :: (if blockOrGroup i then [] else scanDown blockOrGroup pgno1 f (addModulo i (-1#32)))

/-- ... by the upward scan (it only stops early at a block page: `stop`) -/
def scanUp (stop : BitVec 32 → Bool) (pgno : BitVec 32) : Nat → BitVec 32 → List (BitVec 32)
  | 0, _ => []
  | f + 1, i =>
    if i = pgno then [] else
    i :: (if stop i then [] else scanUp stop pgno f (addModulo i 1#32))

/-- all numbers `top_navigation_bar (vtp->pgno = pgno)` looks up: the page itself first, then the two scans -/
def visited (blockOrGroup stop : BitVec 32 → Bool) (fuel : Nat) (pgno : BitVec 32) : List (BitVec 32) :=
  let pgno1 := addModulo pgno 1#32
  pgno :: (scanDown blockOrGroup pgno1 fuel pgno ++ scanUp stop pgno fuel pgno1)

/-- the `%` reading of the same line (seeded change C01-f), for the witness in Props/C01Enh.lean -/
def addModuloRem (pgno incr : BitVec 32) : BitVec 32 := (BitVec.srem ((pgno - 256#32) + incr) 2048#32) + 256#32

end Zvbi.Dec.TopNav
