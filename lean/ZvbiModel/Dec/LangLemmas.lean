/-
Helper lemmas for Props/C01Lang.lean (C01, round "C01lang"): the facts the proofs need from the regenerated constants, the 8-bit
store, the invariant over the page_stat array and its preservation by every event of Dec/Lang.lean.
-/
import ZvbiModel.Dec.Lang

namespace Zvbi.Dec.Lang
open Zvbi.Gen.C01Lang

theorem bound_le (n : Nat) (h : validInTable n = true) : n < fontLen := by
  simp only [validInTable, decide_eq_true_eq] at h
  simp only [fontLen]; omega

theorem fontLen_eq : fontHasG0.length = fontLen := by decide

theorem validSet_spec (n : Nat) :
    ∃ b, validSet n = some b ∧ (b = true → n < fontLen ∧ fontHasG0[n]? = some true) := by
  unfold validSet
  by_cases h : validInTable n = true
  · have hn := bound_le n h
    have hl : n < fontHasG0.length := by rw [fontLen_eq]; exact hn
    refine ⟨fontHasG0[n], ?_, ?_⟩
    · simp [h, fontG0, hn, List.getElem?_eq_getElem hl]
    · intro hb; exact ⟨hn, by simp [List.getElem?_eq_getElem hl, hb]⟩
  · refine ⟨false, by simp [h], by intro h; cases h⟩

theorem pageLanguage_spec (isLop : Bool) (d n : Nat) :
    ∃ r, pageLanguage .validated isLop d n = some r ∧
      (r = -1 ∨ ∃ c : Nat, r = (c : Int) ∧ c < fontLen ∧ fontHasG0[c]? = some true) := by
  unfold pageLanguage
  cases isLop
  · exact ⟨-1, by simp, Or.inl rfl⟩
  · obtain ⟨b1, h1, p1⟩ := validSet_spec d
    obtain ⟨b2, h2, p2⟩ := validSet_spec (clear3 d + n)
    simp only [Bool.not_true, Bool.false_eq_true, if_false, h1, h2, Option.bind_eq_bind, Option.bind_some, Option.pure_def]
    cases b2
    · cases b1
      · exact ⟨-1, by simp, Or.inl rfl⟩
      · exact ⟨(d : Int), by simp, Or.inr ⟨d, rfl, p1 rfl⟩⟩
    · exact ⟨((clear3 d + n : Nat) : Int), by simp, Or.inr ⟨_, rfl, p2 rfl⟩⟩

theorem toField_neg1 : toField (-1) = initCode := by decide

theorem toField_small (c : Nat) (h : c < fontLen) : toField (c : Int) = c := by
  have h' : c < 88 := h
  have e : ((2 ^ codeBits : Nat) : Int) = 256 := by decide
  unfold toField
  rw [e]
  omega

theorem stored_ok (isLop : Bool) (d n : Nat) :
    ∃ r, pageLanguage .validated isLop d n = some r ∧ CodeOK (toField r) := by
  obtain ⟨r, hr, h⟩ := pageLanguage_spec isLop d n
  refine ⟨r, hr, ?_⟩
  rcases h with h | ⟨c, hc, hlt, hg⟩
  · subst h; exact Or.inl toField_neg1
  · subst hc; rw [toField_small c hlt]; exact Or.inr ⟨hlt, hg⟩

/-- the invariant over the whole page_stat array -/
def Inv (s : St) : Prop := ∀ p, CodeOK (s.code p)

theorem set_inv (s : St) (h : Inv s) (p v : Nat) (hv : CodeOK v) : Inv (s.set p v) := by
  intro q
  show CodeOK (if q = p then v else s.code q)
  by_cases e : q = p
  · simp [e, hv]
  · simp [e, h q]

theorem classify_ok (v : Nat) (h : CodeOK v) :
    ∃ r, classifyRead v = some r ∧ ∀ i, r = some i → i < fontLen := by
  unfold classifyRead
  rcases h with h | ⟨hl, _⟩
  · subst h
    exact ⟨none, by decide, by intro i hi; cases hi⟩
  · by_cases g : (v != classifyGuard) = true
    · exact ⟨some v, by simp [g, hl], by intro i hi; cases hi; exact hl⟩
    · exact ⟨none, by simp [g], by intro i hi; cases hi⟩

theorem statRead_ok (code : Nat) :
    ∃ r, statRead code = some r ∧ ∀ i, r = some i → i < fontLen := by
  unfold statRead
  by_cases g : (code == statGuard) = true
  · exact ⟨none, by simp [g], by intro i hi; cases hi⟩
  · obtain ⟨b, hb, p⟩ := validSet_spec code
    cases b
    · exact ⟨none, by simp [g, hb], by intro i hi; cases hi⟩
    · exact ⟨some code, by simp [g, hb], by intro i hi; cases hi; exact (p rfl).1⟩

theorem step_inv (s : St) (h : Inv s) (o : Op) : ∃ s', step .validated s o = some s' ∧ Inv s' := by
  cases o with
  | setLang p l d n =>
      obtain ⟨r, hr, ok⟩ := stored_ok l d n
      exact ⟨s.set p (toField r), by simp [step, hr], set_inv s h p _ ok⟩
  | setLangIfUnknown p l d n =>
      obtain ⟨r, hr, ok⟩ := stored_ok l d n
      by_cases g : (s.code p == storeLopGuard) = true
      · exact ⟨s.set p (toField r), by simp [step, g, hr], set_inv s h p _ ok⟩
      · exact ⟨s, by simp [step, g], h⟩
  | reset p => exact ⟨s.set p initCode, rfl, set_inv s h p _ (Or.inl rfl)⟩
  | classify p =>
      obtain ⟨r, hr, _⟩ := classify_ok (s.code p) (h p)
      exact ⟨s, by simp [step, hr], h⟩
  | stat p =>
      obtain ⟨r, hr, _⟩ := statRead_ok (s.code p)
      exact ⟨s, by simp [step, hr], h⟩

theorem run_inv : ∀ (ops : List Op) (s : St), Inv s → ∃ s', run .validated s ops = some s' ∧ Inv s'
  | [], s, h => ⟨s, rfl, h⟩
  | o :: os, s, h => by
      obtain ⟨s1, h1, i1⟩ := step_inv s h o
      obtain ⟨s2, h2, i2⟩ := run_inv os s1 i1
      exact ⟨s2, by simp [run, h1, h2], i2⟩

end Zvbi.Dec.Lang
