import ZvbiModel.Generated.C01Facts
/-!
# The X/26 packet sequence counter of the Teletext decoder (packet.c `vbi_decode_teletext`, case 26)

Every magazine buffer keeps `num_triplets`: the fill level of `enh_lop.enh[]`, reset to 0 by every accepted page header.
An X/26 packet with designation `d` is accepted only if the sequence test lets it pass; a rejected packet leaves the
sentinel (`-1`) so that all further X/26 packets of the page are rejected too.  An accepted packet stores up to 13
triplets with `enh[num_triplets++] = triplet`, stopping at the first uncorrectable one.
The test (`x26Rejects`), the sentinel, an optional gap-fill loop between test and stores (`x26GapFill`) are regenerated
from the current source by translate/gen_c01.py.  The model records the index of every store.
-/
namespace Zvbi.Dec.X26Seq
open Zvbi.Gen.C01

inductive Op
  | header                              -- a page header of this magazine that is accepted
  | x26 (d : Fin 16) (k : Nat)          -- X/26 with Hamming-decoded designation `d`; `k` triplets precede the first bad one
  | other                               -- any packet that does not touch the counter
deriving Repr, DecidableEq

/-- one packet: the new counter and the indices of `enh[]` written -/
def step (nt : Int) : Op → Int × List Int
  | .header => (0, [])
  | .other => (nt, [])
  | .x26 d k =>
    if x26Rejects nt d.val then (x26Sentinel, [])
    else
      let target : Int := (d.val * x26Stride : Nat)
      let fill := if x26GapFill then (List.range (target - nt).toNat).map (fun (i : Nat) => nt + (i : Int)) else []
      let nt1 := if x26GapFill ∧ nt < target then target else nt
      let n := min k x26PerPacket
      (nt1 + n, fill ++ (List.range n).map (fun (i : Nat) => nt1 + (i : Int)))

/-- all stores of a packet history -/
def run : Int → List Op → List Int
  | _, [] => []
  | nt, op :: rest => (step nt op).2 ++ run (step nt op).1 rest

/-- counter values the decoder can hold between packets -/
def CounterOk (nt : Int) : Prop := nt = x26Sentinel ∨ (0 ≤ nt ∧ nt ≤ 16 * 13)

end Zvbi.Dec.X26Seq
