import ZvbiModel.Generated.C01Facts
/-!
# What `vbi_convert_page()` reads from its source page (packet.c) against `cache_page_size()` (cache.c)

Cached pages are truncated: `_vbi_cache_put_page` allocates `cache_page_size (cp)` bytes, which for a page of function
UNKNOWN / LOP depends on the packets received (`x28_designations & 0x13`: ext_lop, `x26_designations`: enh_lop, else
the plain lop).  `vbi_convert_page (vbi, vtp, cached = TRUE, f)` is called by `resolve_obj_address()` / the DRCS
look-up of `enhance()` with such a truncated page of function UNKNOWN as source.  This model lists the byte ranges
`(offset from the start of the cache_page, length)` the function reads from `vtp` for every target function, with the
loop bounds, the copied sizes and the guard of the X/26 copy taken from the current source (translate/gen_c01.py), the
structure layout from a C probe, and `cache_page_size` translated from cache.c.
-/
namespace Zvbi.Dec.ConvertReads
open Zvbi.Gen.C01

/-- the source page: function UNKNOWN (anything else returns NULL at once), which packets it has -/
structure Src where
  x26 : Nat            -- x26_designations
  x28 : Nat            -- x28_designations
  lopPackets : Nat     -- lop_packets
deriving Repr, DecidableEq

/-- bytes the cache allocated for it -/
def srcSize (s : Src) : Nat := cachePageSize fn_UNKNOWN s.x26 s.x28

/-- `for (i = lo; i <= hi; i++) if (vtp->lop_packets & (1 << i)) parse (..., vtp->data.unknown.raw[i], i)` -/
def rowReads (lo hi lopPackets : Nat) : List (Nat × Nat) :=
  (((List.range (hi + 1 - lo)).map (· + lo)).filter fun i => lopPackets.testBit i).map
    fun i => (dataOff + rawOff + i * rawCols, rawCols)

def reads (newFn : Int) (s : Src) : List (Nat × Nat) :=
  (0, convHeadBytes) ::
  if newFn = fn_POP ∨ newFn = fn_GPOP then
    rowReads popRowLo popRowHi s.lopPackets ++
      (if popEnhCopyRuns s.x26 then [(dataOff + enhOffEnhLop, popEnhCopyBytes)] else [])
  else if newFn = fn_DRCS ∨ newFn = fn_GDRCS then
    [(dataOff + drcsLopOff, drcsLopSize), (dataOff + rawOff + drcsFirstRow * rawCols, drcsRowCount * rawCols)]
  else if newFn = fn_AIT then rowReads aitRowLo aitRowHi s.lopPackets
  else if newFn = fn_MPT then rowReads mptRowLo mptRowHi s.lopPackets
  else if newFn = fn_MPT_EX then rowReads mptExRowLo mptExRowHi s.lopPackets
  else []

/-- `vbi_decode_teletext`, header of a cached page: `memcpy (&cvtp->data, &vtp->data, cache_page_size (vtp)
- sizeof (*vtp) + sizeof (vtp->data))` (unsigned arithmetic: size - header); read range and the room at the destination -/
def reloadRead (fn : Int) (x26 x28 : Nat) : Nat × Nat := (dataOff, cachePageSize fn x26 x28 + (fullSize - hdrSize) - fullSize)

end Zvbi.Dec.ConvertReads
