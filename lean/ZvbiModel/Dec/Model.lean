/-!
# Component `dec` (C01): the survival contract of the whole service decoder

The property "never crashes / aborts / hangs / leaks" has a trivial functional model: every well-formed API
call returns, and `delete` returns the heap to its initial level.  This file models exactly that contract
(which op lines are well-formed, the 64-line frame queue of the harness, the deleted state) so that the
line-protocol correspondence is meaningful: the real decoder must answer `ok` wherever this model does.
The *reasons* why it does (index bounds, cursor invariants, termination, reference counting) are the
theorems of the component models collected in `Props/C01.lean`.
-/
namespace Zvbi.Dec

structure St where
  queued  : Nat := 0      -- sliced lines queued for the next `dec`
  deleted : Bool := false
deriving Repr, DecidableEq

inductive Out | ok | okFreed | rejParse | rejOp | rejDeleted
deriving Repr, DecidableEq

/-- one sliced line: payload at most 56 bytes (sizeof vbi_sliced.data), at most 64 lines per frame -/
def queueLine (s : St) (payloadLen : Nat) : St × Out :=
  if payloadLen > 56 ∨ s.queued ≥ 64 then (s, .rejParse) else ({ s with queued := s.queued + 1 }, .ok)

def decode (s : St) : St × Out := ({ s with queued := 0 }, .ok)

def delete (s : St) : St × Out := ({ s with deleted := true, queued := 0 }, .okFreed)

end Zvbi.Dec
