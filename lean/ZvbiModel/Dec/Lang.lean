/-
Model of the subtitle language bookkeeping of the Teletext decoder (C01, round "C01lang"):
packet.c `page_language()`, the three stores into `struct ttx_page_stat.charset_code` (parse_mip_page, parse_btt,
store_lop), `ttx_page_stat_init`, and the readers: vbi.c `vbi_classify_page` (indexes `vbi_font_descriptors[]` after a
`!= 0xFF` test only), cache.c `cache_network_get_ttx_page_stat` (validates by itself through
`vbi_ttx_charset_from_code`).

Every read of `vbi_font_descriptors[]` is CHECKED: an index outside the regenerated extent makes the function return
`none` (= what -fsanitize=bounds reports / what ASan reports for a global overflow).  Nothing is clamped.
All constants (`fontLen`, the G0 column, the macro bound, the 0xFF tests, the field width, the statement shape of
page_language) come from `Generated/C01Lang.lean` (translate/gen_c01lang.py, every run).  Core Lean only.
-/
import ZvbiModel.Generated.C01Lang

namespace Zvbi.Dec.Lang
open Zvbi.Gen.C01Lang

/-- checked read of `vbi_font_descriptors[n].G0 != 0` -/
def fontG0 (n : Nat) : Option Bool :=
  if n < fontLen then fontHasG0[n]? else none

/-- `VALID_CHARACTER_SET (n)` for a non-negative `n`: `(n) < 88 && vbi_font_descriptors[n].G0`; the table is read only
when the first operand holds.  `none` = the table read is outside the table. -/
def validSet (n : Nat) : Option Bool :=
  if validInTable n then fontG0 n else some false

/-- `charset_code & ~7` for a non-negative int -/
def clear3 (c : Nat) : Nat := c - c % 8

/-- packet.c `page_language()` from `charset_code = ext->charset_code[0]` on, for both statement shapes.
`isLop = false` is the early `return -1` of a cached page of another function.  `d` = `ext->charset_code[0]`
(whatever X/28/0, X/28/4, M/29/0, M/29/4 or the default region stored there), `national` = the option bits. -/
def pageLanguage (sh : Shape) (isLop : Bool) (d national : Nat) : Option Int :=
  if !isLop then some (-1) else
  match sh with
  | .validated => do
      let v1 ← validSet d
      let lang : Int := if v1 then (d : Int) else -1
      let c := clear3 d + national
      let v2 ← validSet c
      pure (if v2 then (c : Int) else lang)
  | .rawFallback => do
      let c := clear3 d + national
      let v ← validSet c
      pure (if v then (c : Int) else (d : Int))

/-- the assignment `ps->charset_code = <int>`: conversion to the unsigned field (`codeBits` wide) -/
def toField (r : Int) : Nat := (r % (2 ^ codeBits : Nat)).toNat

/-- reader 1, vbi.c vbi_classify_page: `if (ps->charset_code != 0xFF) *language = vbi_font_descriptors[ps->charset_code].label;`
`none` = read outside the table; `some none` = language unknown; `some (some i)` = table element i was read. -/
def classifyRead (code : Nat) : Option (Option Nat) :=
  if code != classifyGuard then (if code < fontLen then some (some code) else none) else some none

/-- reader 2, cache.c cache_network_get_ttx_page_stat: `0xFF == code ? NULL : vbi_ttx_charset_from_code (code)` which is
`VALID_CHARACTER_SET (code) ? vbi_font_descriptors + code : NULL` -/
def statRead (code : Nat) : Option (Option Nat) :=
  if code == statGuard then some none else do
    let v ← validSet code
    pure (if v then some code else none)

/-! ## histories -/

/-- the events that touch `charset_code` of a page.  Designation, national bits and page function are whatever the
station sent: they are not constrained here. -/
inductive Op
  /-- parse_mip_page, codes 0x70 .. 0x77 (page cached or not: `isLop = true` also stands for "not cached", where the
      magazine's M/29 / default designation is used), and parse_btt BTT_SUBTITLE with the page cached -/
  | setLang (pgno : Nat) (isLop : Bool) (d national : Nat)
  /-- store_lop: only `if (ps->charset_code == 0xFF)` -/
  | setLangIfUnknown (pgno : Nat) (isLop : Bool) (d national : Nat)
  /-- ttx_page_stat_init (network reset / channel switch) -/
  | reset (pgno : Nat)
  /-- vbi_classify_page (pgno) on a subtitle page -/
  | classify (pgno : Nat)
  /-- cache_network_get_ttx_page_stat (pgno) -/
  | stat (pgno : Nat)

/-- `cn->_pages[pgno - 0x100].charset_code` for every page (index range of the page_stat array: Props/C01Enh / C01Ttx) -/
structure St where
  code : Nat → Nat

def St.init : St := ⟨fun _ => initCode⟩

def St.set (s : St) (pgno v : Nat) : St := ⟨fun p => if p = pgno then v else s.code p⟩

/-- one event; `none` = an access outside `vbi_font_descriptors[]` -/
def step (sh : Shape) (s : St) : Op → Option St
  | .setLang pgno isLop d n => do
      let r ← pageLanguage sh isLop d n
      pure (s.set pgno (toField r))
  | .setLangIfUnknown pgno isLop d n =>
      if s.code pgno == storeLopGuard then do
        let r ← pageLanguage sh isLop d n
        pure (s.set pgno (toField r))
      else some s
  | .reset pgno => some (s.set pgno initCode)
  | .classify pgno => do
      let _ ← classifyRead (s.code pgno)
      pure s
  | .stat pgno => do
      let _ ← statRead (s.code pgno)
      pure s

def run (sh : Shape) : St → List Op → Option St
  | s, [] => some s
  | s, o :: os => match step sh s o with
    | none => none
    | some s' => run sh s' os

/-- the invariant the readers rely on: 0xFF or VALID_CHARACTER_SET -/
def CodeOK (v : Nat) : Prop := v = initCode ∨ (v < fontLen ∧ fontHasG0[v]? = some true)

end Zvbi.Dec.Lang
