import ZvbiModel.Ure.Nfa
/-!
# `ure_compile`, second half: `_ure_reduce` (expression sets -> DFA states), `_ure_merge_equiv`, transfer into the DFA

`_ure_reduce` is a subset construction over hash-consed expressions: a DFA state is a sorted list of expression numbers
("NFA states"); reducing one rewrites every expression of the set to head normal form (`while (eval)`), collects for every
symbol the continuation expressions (`_ure_add_symstate`) and turns each collected list into a DFA state
(`_ure_add_state`).  `_ure_merge_equiv` merges states by a pairwise bisimulation test and renumbers.
All loops whose trip count depends on the data take fuel (`CErr.fuel site` when it runs out).
-/
namespace Zvbi.Ure
open Zvbi.Gen.Ure

/-- `_ure_state_t` -/
structure NState where
  id : Nat
  accepting : Bool := false
  st : List Nat
  /-- (`lhs` = symbol, `rhs` = state) -/
  trans : List (Nat × Nat) := []
deriving Repr, Inhabited

/-- insert into an ascending list without duplicates (`_ure_add_symstate`, second half) -/
def insSorted (x : Nat) : List Nat → List Nat
  | [] => [x]
  | a :: l => if x > a then a :: insSorted x l else if x < a then x :: a :: l else a :: l

/-- `_ure_add_symstate` -/
def addSymstate (b : PBuf) (sym state : Nat) : CM PBuf :=
  match b.symtab[sym]? with
  | none => throw (.oob "symtab")
  | some e =>
    if e.states.length ≥ tableLimit then throw (.limit "symstates")
    else pure { b with symtab := b.symtab.set! sym { e with states := insSorted state e.states } }

def findState (st : List Nat) : List NState → Nat → Option Nat
  | [], _ => none
  | s :: rest, i => if s.st = st then some i else findState st rest (i + 1)

/-- `_ure_add_state` -/
def addState (states : Array NState) (st : List Nat) : CM (Nat × Array NState) :=
  match findState st states.toList 0 with
  | some i => pure (i, states)
  | none =>
    if states.size ≥ tableLimit then throw (.limit "states")
    else pure (states.size, states.push { id := states.size, st := st })

def exprAt (b : PBuf) (i : Nat) : CM Elt :=
  match b.expr[i]? with
  | some e => pure e
  | none => throw (.oob "expr")

/-- `while (eval) switch (b->expr[state].type) ...` for one stack entry; returns the buffer and whether `_URE_ONE`
    was met (`sp->accepting = 1`) -/
def evalLoop : Nat → PBuf → Nat → Bool → CM (PBuf × Bool)
  | 0, _, _, _ => throw (.fuel "reduce.eval")
  | fuel + 1, b, state, acc => do
    let e ← exprAt b state
    if e.type = tSYMBOL then do
      let (ns1, b) ← makeExpr b tONE tNOOP tNOOP
      let b ← addSymstate b e.lhs ns1
      pure (b, acc)
    else if e.type = tONE then pure (b, true)
    else if e.type = tQUEST then do
      let (ns1, b) ← makeExpr b tONE tNOOP tNOOP
      let (st, b) ← makeExpr b tOR ns1 e.lhs
      evalLoop fuel b st acc
    else if e.type = tPLUS then do
      let (ns1, b) ← makeExpr b tSTAR e.lhs tNOOP
      let (st, b) ← makeExpr b tAND e.lhs ns1
      evalLoop fuel b st acc
    else if e.type = tSTAR then do
      let (ns1, b) ← makeExpr b tONE tNOOP tNOOP
      let (ns2, b) ← makeExpr b tPLUS e.lhs tNOOP
      let (st, b) ← makeExpr b tOR ns1 ns2
      evalLoop fuel b st acc
    else if e.type = tOR then do
      let b ← push b e.lhs
      let b ← push b e.rhs
      pure (b, acc)
    else if e.type = tAND then do
      let s1 := e.lhs
      let s2 := e.rhs
      let e1 ← exprAt b s1
      if e1.type = tSYMBOL then do
        let b ← addSymstate b e1.lhs s2
        pure (b, acc)
      else if e1.type = tONE then evalLoop fuel b s2 acc
      else if e1.type = tQUEST then do
        let (ns2, b) ← makeExpr b tAND e1.lhs s2
        let (st, b) ← makeExpr b tOR s2 ns2
        evalLoop fuel b st acc
      else if e1.type = tPLUS then do
        let (ns2, b) ← makeExpr b tOR s2 state
        let (st, b) ← makeExpr b tAND e1.lhs ns2
        evalLoop fuel b st acc
      else if e1.type = tSTAR then do
        let (ns2, b) ← makeExpr b tAND e1.lhs state
        let (st, b) ← makeExpr b tOR s2 ns2
        evalLoop fuel b st acc
      else if e1.type = tOR then do
        let (ns1, b) ← makeExpr b tAND e1.lhs s2
        let (ns2, b) ← makeExpr b tAND e1.rhs s2
        let (st, b) ← makeExpr b tOR ns1 ns2
        evalLoop fuel b st acc
      else if e1.type = tAND then do
        let (ns2, b) ← makeExpr b tAND e1.rhs s2
        let (st, b) ← makeExpr b tAND e1.lhs ns2
        evalLoop fuel b st acc
      else throw (.fuel "reduce.eval")      -- no case: the C loop would spin
    else throw (.fuel "reduce.eval")

def evalFuel : Nat := 4 * 0x10000

/-- `for (j = ...; j < b->stack.slist_used; j++)` -/
def stackLoop : Nat → PBuf → Nat → Bool → CM (PBuf × Bool)
  | 0, _, _, _ => throw (.fuel "reduce.stack")
  | fuel + 1, b, j, acc =>
    match b.stack[j]? with
    | none => pure (b, acc)
    | some state => do
      let (b, acc) ← evalLoop evalFuel b state acc
      stackLoop fuel b (j + 1) acc

/-- `while (_ure_pop (b) != _URE_NOOP) ;` -/
def popAll : Nat → PBuf → CM PBuf
  | 0, _ => throw (.fuel "reduce.pop")
  | fuel + 1, b => do
    let (v, b) ← pop b
    if v = tNOOP then pure b else popAll fuel b

def pushAll (b : PBuf) : List Nat → CM PBuf
  | [] => pure b
  | v :: rest => do
    let b ← push b v
    pushAll b rest

/-- the loop over the symbol table that generates the transitions of DFA state `i` -/
def transLoop : Nat → Nat → PBuf → Array NState → List (Nat × Nat) → CM (PBuf × Array NState × List (Nat × Nat))
  | 0, _, b, states, tr => pure (b, states, tr)
  | fuel + 1, j, b, states, tr =>
    match b.symtab[j]? with
    | none => pure (b, states, tr)
    | some e =>
      if e.states.isEmpty then transLoop fuel (j + 1) b states tr
      else do
        let (rhs, states) ← addState states e.states
        let b := { b with symtab := b.symtab.set! j { e with states := [] } }
        transLoop fuel (j + 1) b states (tr ++ [(j, rhs)])

/-- `for (i = 0; i < b->states.states_used; i++)` of `_ure_reduce` -/
def reduceLoop : Nat → Nat → PBuf → Array NState → CM (PBuf × Array NState)
  | 0, _, _, _ => throw (.fuel "reduce")
  | fuel + 1, i, b, states =>
    match states[i]? with
    | none => pure (b, states)
    | some s => do
      let b ← pushAll b s.st
      let (b, acc) ← stackLoop (tableLimit + 2) b 0 false
      let b ← popAll (b.stack.size + 2) b
      let (b, states, tr) ← transLoop (b.symtab.size + 1) 0 b states []
      let states := states.modify i (fun s => { s with accepting := acc, trans := tr })
      reduceLoop fuel (i + 1) b states

/-- `_ure_reduce (start, b)` -/
def reduce (b : PBuf) (start : Nat) : CM (PBuf × Array NState) := do
  let b := { b with reducing := true }
  let (_, states) ← addState #[] [start]
  let (b, states) ← reduceLoop (tableLimit + 2) 0 b states
  pure ({ b with reducing := false }, states)

/-! ## `_ure_merge_equiv` -/

def stateAt (states : Array NState) (i : Nat) : CM NState :=
  match states[i]? with
  | some s => pure s
  | none => throw (.oob "states")

/-- `_ure_add_equiv` -/
def addEquiv (states : Array NState) (eqv : Array (Nat × Nat)) (l r : Nat) : CM (Array (Nat × Nat)) := do
  let l := (← stateAt states l).id
  let r := (← stateAt states r).id
  if l = r then pure eqv else
  let (l, r) := if l > r then (r, l) else (l, r)
  if eqv.toList.any (fun p => p.1 = l ∧ p.2 = r) then pure eqv
  else if eqv.size ≥ tableLimit then throw (.limit "equiv")
  else pure (eqv.push (l, r))

def addEquivAll (states : Array NState) : Array (Nat × Nat) → List (Nat × Nat) → List (Nat × Nat) → CM (Array (Nat × Nat))
  | eqv, [], _ => pure eqv
  | eqv, _, [] => pure eqv
  | eqv, a :: as, c :: cs => do
    let eqv ← addEquiv states eqv a.2 c.2
    addEquivAll states eqv as cs

/-- `for (eq = 0, done = 0; eq < b->equiv_used; eq++)`; returns (equiv, done) -/
def equivLoop (states : Array NState) : Nat → Nat → Array (Nat × Nat) → CM (Array (Nat × Nat) × Bool)
  | 0, _, _ => throw (.fuel "merge.equiv")
  | fuel + 1, eq, eqv =>
    match eqv[eq]? with
    | none => pure (eqv, false)
    | some (l, r) => do
      let ls ← stateAt states l
      let rs ← stateAt states r
      if ls.accepting ≠ rs.accepting ∨ ls.trans.length ≠ rs.trans.length then pure (eqv, true)
      else if ls.trans.map (·.1) ≠ rs.trans.map (·.1) then pure (eqv, true)
      else do
        let eqv ← addEquivAll states eqv ls.trans rs.trans
        equivLoop states fuel (eq + 1) eqv

/-- `for (j = 0; j < i; j++)`; returns (j, equiv): `j < i` = state `i` is equivalent to state `j` -/
def mergeInner (states : Array NState) (i : Nat) : Nat → Nat → Array (Nat × Nat) → CM (Nat × Array (Nat × Nat))
  | 0, j, eqv => pure (j, eqv)
  | fuel + 1, j, eqv =>
    if j < i then do
      let sj ← stateAt states j
      if sj.id ≠ j then mergeInner states i fuel (j + 1) eqv
      else do
        let eqv ← addEquiv states #[] i j
        let (eqv, done) ← equivLoop states (tableLimit + 2) 0 eqv
        if done then mergeInner states i fuel (j + 1) eqv else pure (j, eqv)
    else pure (j, eqv)

/-- `b->states.states[b->equiv[eq].r].id = b->states.states[b->equiv[eq].l].id` -/
def applyEquiv (states : Array NState) : List (Nat × Nat) → CM (Array NState)
  | [] => pure states
  | (l, r) :: rest => do
    let sl ← stateAt states l
    let sr ← stateAt states r
    applyEquiv (states.set! r { sr with id := sl.id }) rest

def mergeOuter : Nat → Nat → Array NState → Array (Nat × Nat) → CM (Array NState)
  | 0, _, states, _ => pure states
  | fuel + 1, i, states, eqv =>
    match states[i]? with
    | none => pure states
    | some si =>
      if si.id ≠ i then mergeOuter fuel (i + 1) states eqv
      else do
        let (j, eqv) ← mergeInner states i (i + 1) 0 eqv
        let states ← if j < i then applyEquiv states eqv.toList else pure states
        mergeOuter fuel (i + 1) states eqv

/-- renumbering loop -/
def renumber : Nat → Nat → Nat → Array NState → CM (Array NState)
  | 0, _, _, states => pure states
  | fuel + 1, i, eq, states =>
    match states[i]? with
    | none => pure states
    | some s =>
      if s.id = i then renumber fuel (i + 1) (eq + 1) (states.set! i { s with id := eq })
      else do
        let t ← stateAt states s.id
        renumber fuel (i + 1) eq (states.set! i { s with id := t.id })

/-- `_ure_merge_equiv` -/
def mergeEquiv (states : Array NState) : CM (Array NState) := do
  let states ← mergeOuter (states.size + 1) 0 states #[]
  renumber (states.size + 1) 0 0 states

/-! ## `ure_compile` -/

def symOf (s : SymB) : CM Sym :=
  if s.type = tANY_CHAR then pure .any
  else if s.type = tCHAR then pure (.chr s.chr)
  else if s.type = tCCLASS then pure (.ccl false s.props s.ranges)
  else if s.type = tNCCLASS then pure (.ccl true s.props s.ranges)
  else if s.type = tBOL_ANCHOR then pure .bol
  else if s.type = tEOL_ANCHOR then pure .eol
  else throw (.oob "symtype")

/-- transfer loop: keep the states whose `id` equals the running count -/
def transfer (states : Array NState) : List NState → Nat → List DState → CM (List DState)
  | [], _, acc => pure acc.reverse
  | s :: rest, n, acc =>
    if s.id = n then do
      let tr ← s.trans.mapM (fun t => do
        let q ← stateAt states t.2
        pure (t.1, q.id))
      transfer states rest (n + 1) ({ accepting := s.accepting, trans := tr } :: acc)
    else transfer states rest n acc

inductive CRes
  /-- `ure_compile` returned NULL; `b->error` afterwards -/
  | null (error : Int)
  | dfa (d : Dfa)
  | err (e : CErr)
deriving DecidableEq, Repr

/-- `ure_compile (re, relen, casefold, buf)`; `bufError` = `buf->error` left by earlier calls with the same buffer
    (ure_compile does not reset it) -/
def compile (sh : Shape) (ct : CType) (bufError : Int) (casefold : Bool) (pat : List Nat) : CRes :=
  match pat with
  | [] => .null bufError
  | c :: _ =>
    if c = 0 then .null bufError else
    let b : PBuf := { error := bufError, casefold := casefold, blankline := true }
    let r : CM CRes := do
      let (state, b) ← re2nfa sh ct b pat.toArray
      if state = tNOOP then return .null b.error
      let (b, states) ← reduce b state
      let states ← mergeEquiv states
      let syms ← b.symtab.toList.mapM (fun e => symOf e.sym)
      let ds ← transfer states states.toList 0 []
      if syms.length ≥ 0x10000 ∨ ds.length ≥ 0x10000 then throw (.limit "dfa")
      let dfa : Dfa := { casefold := b.casefold, blankline := b.blankline, syms := syms, states := ds }
      -- checked predicate (the C code has no such test; the correspondence shows it never fires): every symbol index and
      -- next state of the DFA handed to ure_exec is inside its table
      if !dfa.wf then throw (.oob "dfa")
      pure (.dfa dfa)
    match r with
    | .ok x => x
    | .error e => .err e

/-- `vbi_search_new (regexp = FALSE)`: the characters `strchr` finds in the list (the UCS-2 code is converted to `char`,
    so only its low byte counts; a low byte of 0 finds the terminator) get a backslash -/
def escChars : List Nat := [0x21, 0x22, 0x23, 0x24, 0x25, 0x26, 0x28, 0x29, 0x2a, 0x2b, 0x2c, 0x2d, 0x2e, 0x2f, 0x3a,
  0x3b, 0x3d, 0x3f, 0x40, 0x5b, 0x5c, 0x5d, 0x5e, 0x5f, 0x7b, 0x7c, 0x7d, 0x7e]

def escapeLit : List Nat → List Nat
  | [] => []
  | c :: rest => if c % 256 = 0 ∨ escChars.contains (c % 256) then 0x5c :: c :: escapeLit rest else c :: escapeLit rest

end Zvbi.Ure
