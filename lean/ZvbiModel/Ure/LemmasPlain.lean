import ZvbiModel.Ure.LemmasTerm
import ZvbiModel.Ure.Spec
/-!
# `ure_exec` on a DFA without anchors: leftmost start, longest extension (lemmas for `exec_sound` / `exec_leftmost` /
`exec_longest_from_ms` / `exec_complete`)
-/
namespace Zvbi.Ure

variable (sh : Shape) (ct : CType) (d : Dfa) (flags : Nat) (text : List Nat)

theorem plain_iff : d.plain = true ↔ ∀ sym ∈ d.syms, sym ≠ .bol ∧ sym ≠ .eol := by
  unfold Dfa.plain
  simp [List.all_eq_true]

theorem symTry_plain (sym : Sym) (hb : sym ≠ .bol) (he : sym ≠ .eol) (c lp sp zw : Nat) :
    symTry sh ct d flags text sym c lp sp zw = if symTakes sh ct flags sym c = true then .yes lp sp zw else .no := by
  cases sym with
  | bol => exact absurd rfl hb
  | eol => exact absurd rfl he
  | any => simp [symTry, symTakes]
  | chr k => simp [symTry, symTakes]
  | ccl neg props ranges =>
    cases neg <;> simp [symTry, symTakes] <;> first | rfl | (split <;> split <;> simp_all)

theorem scan_plain (hpl : d.plain = true) (c lp sp zw : Nat) : ∀ trs, TransOk d trs →
    scan sh ct d flags text c lp sp zw trs =
      match trs.find? (takes sh ct d flags c) with
      | none => .none
      | some t =>
        match d.states[t.2]? with
        | some q' => .to t.2 q' lp sp sp zw
        | none => .oob "states" := by
  intro trs
  induction trs with
  | nil => intro _; simp [scan]
  | cons t rest ih =>
    intro h
    obtain ⟨si, nx⟩ := t
    have ht := h (si, nx) (by simp)
    have hrest : TransOk d rest := fun t ht' => h t (by simp [ht'])
    have hs : d.syms[si]? = some d.syms[si] := List.getElem?_eq_getElem ht.1
    have hp := (plain_iff d).1 hpl _ (List.getElem_mem ht.1)
    have htk : takes sh ct d flags c (si, nx) = symTakes sh ct flags d.syms[si] c := by simp [takes, hs]
    unfold scan
    rw [hs]
    simp only []
    rw [symTry_plain sh ct d flags text _ hp.1 hp.2]
    by_cases hk : symTakes sh ct flags d.syms[si] c = true
    · rw [if_pos hk]
      simp only [List.find?, htk, hk]
      cases hq : d.states[nx]? with
      | none => simp
      | some q' =>
        simp only []
        generalize hsym : d.syms[si] = sym at hp
        cases sym with
        | eol => exact absurd rfl hp.2
        | _ => rfl
    · rw [if_neg hk]
      have hk' : symTakes sh ct flags d.syms[si] c = false := by simpa using hk
      simp only [List.find?, htk, hk']
      exact ih hrest

theorem eolHack_plain (hpl : d.plain = true) : ∀ trs, TransOk d trs → eolHack d trs = .no := by
  intro trs
  induction trs with
  | nil => intro _; simp [eolHack]
  | cons t rest ih =>
    intro h
    obtain ⟨si, nx⟩ := t
    have ht := h (si, nx) (by simp)
    have hrest : TransOk d rest := fun t ht' => h t (by simp [ht'])
    have hs : d.syms[si]? = some d.syms[si] := List.getElem?_eq_getElem ht.1
    have hp := (plain_iff d).1 hpl _ (List.getElem_mem ht.1)
    unfold eolHack
    rw [hs]
    generalize hsym : d.syms[si] = sym at hp
    cases sym with
    | eol => exact absurd rfl hp.2
    | any => simpa using ih hrest
    | chr k => simpa using ih hrest
    | bol => simpa using ih hrest
    | ccl a b c => simpa using ih hrest

/-! ### facts about `runFrom` -/

theorem runFrom_none_mono (q p : Nat) : ∀ n m, n ≤ m → runFrom sh ct d flags text q p n = none →
    runFrom sh ct d flags text q p m = none := by
  intro n m hnm h
  induction m with
  | zero => have : n = 0 := by omega
            subst this; exact h
  | succ m ih =>
    by_cases hn : n = m + 1
    · subst hn; exact h
    · have := ih (by omega)
      simp [runFrom, this]

theorem runFrom_some_le (q p : Nat) : ∀ n q', 1 ≤ n → runFrom sh ct d flags text q p n = some q' → p + n ≤ text.length := by
  intro n q' hn h
  cases n with
  | zero => omega
  | succ n =>
    simp only [runFrom] at h
    cases hr : runFrom sh ct d flags text q p n with
    | none => rw [hr] at h; simp at h
    | some q1 =>
      rw [hr] at h
      simp only [] at h
      cases ht : text[p + n]? with
      | none => rw [ht] at h; simp at h
      | some c =>
        have := (List.getElem?_eq_some_iff.1 ht).1
        omega

theorem runFrom_succ (q p n q1 c : Nat) (hr : runFrom sh ct d flags text q p n = some q1) (ht : text[p + n]? = some c) :
    runFrom sh ct d flags text q p (n + 1) = delta sh ct d flags q1 (foldChar ct d c) := by
  simp [runFrom, hr, ht]

/-- no transition for the character at `p + k`: nothing longer than `k` is read -/
theorem runFrom_stuck (q p k q1 c : Nat) (hr : runFrom sh ct d flags text q p k = some q1) (ht : text[p + k]? = some c)
    (hd : delta sh ct d flags q1 (foldChar ct d c) = none) : ∀ n, k < n → runFrom sh ct d flags text q p n = none := by
  intro n hn
  apply runFrom_none_mono sh ct d flags text q p (k + 1) n (by omega)
  rw [runFrom_succ sh ct d flags text q p k q1 c hr ht, hd]

theorem not_acc_beyond (p n : Nat) (hn : 1 ≤ n) (h : text.length < p + n) : ¬ Acc sh ct d flags text p n := by
  rintro ⟨q, hq, _⟩
  have := runFrom_some_le sh ct d flags text 0 p n q hn hq
  omega

theorem isAcc_eq (st : Nat) (q : DState) (h : d.states[st]? = some q) : isAcc d st = q.accepting := by
  simp [isAcc, h]

/-! ### the loop invariant -/

structure PInv (s : ESt) : Prop where
  sp_le : s.sp ≤ text.length
  st_lt : s.st < d.states.length
  fresh : s.m = none → s.st = 0 ∧ s.acc = none
  att : ∀ ms me, s.m = some (ms, me) → ms < s.sp ∧ me = s.sp ∧
        runFrom sh ct d flags text 0 ms (s.sp - ms) = some s.st ∧
        (∀ a, s.acc = some a → ms < a ∧ a ≤ s.sp ∧ Acc sh ct d flags text ms (a - ms)) ∧
        (∀ n, 1 ≤ n → ms + n ≤ s.sp → Acc sh ct d flags text ms n → ∃ a, s.acc = some a ∧ ms + n ≤ a)
  left : ∀ p, p < base s → ∀ n, 1 ≤ n → ¬ Acc sh ct d flags text p n

/-- what a reported match satisfies -/
def Good : Res → Prop
  | .found ms me => ms < me ∧ me ≤ text.length ∧ Acc sh ct d flags text ms (me - ms) ∧
      (∀ n, me - ms < n → ¬ Acc sh ct d flags text ms n) ∧
      (∀ p, p < ms → ∀ n, 1 ≤ n → ¬ Acc sh ct d flags text p n)
  | _ => True

/-- state at the end of the loop (`sp = ep`) or result `none` of a pass: nothing is accepted anywhere, provided the start
    state is not accepting and the attempt in progress (if any) cannot hide a later start -/
def Exhausted (s : ESt) : Prop :=
  ∀ p, base s ≤ p → ∀ n, 1 ≤ n → ¬ Acc sh ct d flags text p n

theorem iter_good (hwf : d.wf = true) (hpl : d.plain = true) (s : ESt) (hsp : s.sp < text.length)
    (hI : PInv sh ct d flags text s) :
    (∀ r, iter sh ct d flags text s = .done r → Good sh ct d flags text r) ∧
    (∀ s', iter sh ct d flags text s = .cont s' → PInv sh ct d flags text s') := by
  obtain ⟨hne, hall⟩ := (wf_iff d).1 hwf
  have h0 : 0 < d.states.length := by cases h : d.states <;> simp_all
  have hc : text[s.sp]? = some text[s.sp] := List.getElem?_eq_getElem hsp
  have hstlt : s.st < d.states.length := hI.st_lt
  have hq : d.states[s.st]? = some d.states[s.st] := List.getElem?_eq_getElem hstlt
  have hqok : TransOk d d.states[s.st].trans := hall _ (List.getElem_mem hstlt)
  -- the attempt in progress: start `ms0`, `k` characters read
  have hatt : ∃ ms0, ms0 ≤ s.sp ∧ msOf s.m s.sp = ms0 ∧ base s = ms0 ∧
      runFrom sh ct d flags text 0 ms0 (s.sp - ms0) = some s.st ∧
      (∀ a, s.acc = some a → ms0 < a ∧ a ≤ s.sp ∧ Acc sh ct d flags text ms0 (a - ms0)) ∧
      (∀ n, 1 ≤ n → ms0 + n ≤ s.sp → Acc sh ct d flags text ms0 n → ∃ a, s.acc = some a ∧ ms0 + n ≤ a) ∧
      (s.m = none → ms0 = s.sp) ∧ (∀ ms me, s.m = some (ms, me) → ms = ms0 ∧ me = s.sp ∧ ms < s.sp) := by
    cases hm : s.m with
    | none =>
      have hf := hI.fresh hm
      refine ⟨s.sp, Nat.le_refl _, by simp [msOf], by simp [base, hm], by simp [runFrom, hf.1], ?_, ?_, fun _ => rfl, by simp⟩
      · intro a ha; rw [hf.2] at ha; cases ha
      · intro n hn hle; omega
    | some pr =>
      obtain ⟨ms, me⟩ := pr
      obtain ⟨h1, h2, h3, h4, h5⟩ := hI.att ms me hm
      refine ⟨ms, by omega, by simp [msOf], by simp [base, hm], h3, h4, h5, by simp, ?_⟩
      intro ms' me' h; injection h with h; injection h with ha hb; subst ha; subst hb; exact ⟨rfl, h2, h1⟩
  obtain ⟨ms0, hms0, hmsOf, hbase, hrun, hsound, hmax, hnone, hsome⟩ := hatt
  have hk : ms0 + (s.sp - ms0) = s.sp := by omega
  have hleft := hI.left
  rw [hbase] at hleft
  -- nothing longer than what was read when the character has no transition
  have hstuck : delta sh ct d flags s.st (foldChar ct d text[s.sp]) = none →
      ∀ n, s.sp - ms0 < n → ¬ Acc sh ct d flags text ms0 n := by
    intro hd n hn
    rintro ⟨q, hq', _⟩
    have := runFrom_stuck sh ct d flags text 0 ms0 (s.sp - ms0) s.st text[s.sp] hrun (by rw [hk]; exact hc) hd n hn
    rw [this] at hq'; cases hq'
  have hdelta : delta sh ct d flags s.st (foldChar ct d text[s.sp]) =
      (d.states[s.st].trans.find? (takes sh ct d flags (foldChar ct d text[s.sp]))).map (·.2) := by
    simp [delta, hq]
  unfold iter
  simp only [hc, hq]
  rw [scan_plain sh ct d flags text hpl _ _ _ _ _ hqok]
  cases hf : d.states[s.st].trans.find? (takes sh ct d flags (foldChar ct d text[s.sp])) with
  | none =>
    have hd : delta sh ct d flags s.st (foldChar ct d text[s.sp]) = none := by rw [hdelta, hf]; rfl
    have hst := hstuck hd
    simp only []
    -- no accepted stretch from ms0 when nothing was recorded
    have hnoacc : s.acc = none → ∀ n, 1 ≤ n → ¬ Acc sh ct d flags text ms0 n := by
      intro hacc n hn hA
      by_cases hle : ms0 + n ≤ s.sp
      · obtain ⟨a, ha, _⟩ := hmax n hn hle hA
        rw [hacc] at ha; cases ha
      · exact hst n (by omega) hA
    constructor
    · intro r hr
      cases hqa : d.states[s.st].accepting with
      | false =>
        simp only [hqa, Bool.not_false, if_true] at hr
        split at hr
        · rename_i a ha
          split at hr
          · rename_i ms me hm
            injection hr with hr; subst hr
            obtain ⟨e1, e2, e3⟩ := hsome ms me hm
            subst e1
            obtain ⟨s1, s2, s3⟩ := hsound a ha
            refine ⟨s1, by omega, s3, ?_, hleft⟩
            intro n hn hA
            by_cases hle : ms + n ≤ s.sp
            · obtain ⟨a', ha', hge⟩ := hmax n (by omega) hle hA
              rw [ha] at ha'; injection ha' with ha'; omega
            · exact hst n (by omega) hA
          · injection hr with hr; subst hr; trivial
        · simp at hr
      | true =>
        simp only [hqa, Bool.not_true, Bool.false_eq_true, if_false] at hr
        split at hr
        · rename_i ms me hm
          injection hr with hr; subst hr
          obtain ⟨e1, e2, e3⟩ := hsome ms me hm
          subst e1; subst e2
          refine ⟨e3, by omega, ⟨s.st, hrun, by rw [isAcc_eq d _ _ hq]; exact hqa⟩, ?_, hleft⟩
          intro n hn; exact hst n hn
        · injection hr with hr; subst hr; trivial
    · intro s' hs'
      split at hs'
      · split at hs'
        · split at hs' <;> simp at hs'
        · rename_i hacc
          injection hs' with hs'; subst hs'
          have hna := hnoacc hacc
          refine ⟨?_, h0, fun _ => ⟨rfl, rfl⟩, by simp, ?_⟩
          · cases hm : s.m with
            | none => simp; omega
            | some pr => obtain ⟨ms, me⟩ := pr
                         obtain ⟨e1, e2, e3⟩ := hsome ms me hm
                         simp; omega
          · intro p hp n hn
            have hp' : p < ms0 + 1 := by
              cases hm : s.m with
              | none => rw [hm] at hp; simp [base] at hp; have := hnone hm; omega
              | some pr => obtain ⟨ms, me⟩ := pr
                           rw [hm] at hp; simp [base] at hp; have := (hsome ms me hm).1; omega
            by_cases hpe : p = ms0
            · subst hpe; exact hna n hn
            · exact hleft p (by omega) n hn
      · split at hs' <;> simp at hs'
  | some t =>
    obtain ⟨si, nx⟩ := t
    have hmem : (si, nx) ∈ d.states[s.st].trans := List.mem_of_find?_eq_some hf
    have hnx : nx < d.states.length := (hqok _ hmem).2
    have hq' : d.states[nx]? = some d.states[nx] := List.getElem?_eq_getElem hnx
    have hq'ok : TransOk d d.states[nx].trans := hall _ (List.getElem_mem hnx)
    have hd : delta sh ct d flags s.st (foldChar ct d text[s.sp]) = some nx := by rw [hdelta, hf]; rfl
    simp only [hq']
    rw [eolHack_plain d hpl _ hq'ok]
    rw [hmsOf]
    -- one more character read
    have hrun' : runFrom sh ct d flags text 0 ms0 (s.sp + 1 - ms0) = some nx := by
      have : s.sp + 1 - ms0 = (s.sp - ms0) + 1 := by omega
      rw [this, runFrom_succ sh ct d flags text 0 ms0 _ s.st text[s.sp] hrun (by rw [hk]; exact hc), hd]
    have hacc_nx : isAcc d nx = d.states[nx].accepting := isAcc_eq d _ _ hq'
    -- the new acc_me
    have hsound' : ∀ a, (if d.states[nx].accepting = true then some (s.sp + 1) else s.acc) = some a →
        ms0 < a ∧ a ≤ s.sp + 1 ∧ Acc sh ct d flags text ms0 (a - ms0) := by
      intro a ha
      split at ha
      · rename_i hacc
        injection ha with ha; subst ha
        exact ⟨by omega, Nat.le_refl _, ⟨nx, hrun', by rw [hacc_nx]; exact hacc⟩⟩
      · obtain ⟨s1, s2, s3⟩ := hsound a ha
        exact ⟨s1, by omega, s3⟩
    have hmax' : ∀ n, 1 ≤ n → ms0 + n ≤ s.sp + 1 → Acc sh ct d flags text ms0 n →
        ∃ a, (if d.states[nx].accepting = true then some (s.sp + 1) else s.acc) = some a ∧ ms0 + n ≤ a := by
      intro n hn hle hA
      by_cases he : ms0 + n = s.sp + 1
      · obtain ⟨q, hq1, hq2⟩ := hA
        have : n = s.sp + 1 - ms0 := by omega
        subst this
        rw [hrun'] at hq1; injection hq1 with hq1; subst hq1
        rw [hacc_nx] at hq2
        exact ⟨s.sp + 1, by simp [hq2], by omega⟩
      · obtain ⟨a, ha, hge⟩ := hmax n hn (by omega) hA
        split
        · exact ⟨s.sp + 1, rfl, by omega⟩
        · exact ⟨a, ha, hge⟩
    have hcont : ∀ acc', acc' = (if d.states[nx].accepting = true then some (s.sp + 1) else s.acc) →
        PInv sh ct d flags text { sp := s.sp + 1, m := some (ms0, s.sp + 1), acc := acc', st := nx, zw := s.zw } := by
      intro acc' hacc'
      subst hacc'
      refine ⟨by dsimp only; omega, hnx, by simp, ?_, ?_⟩
      · intro ms me h
        injection h with h; injection h with ha hb; subst ha; subst hb
        exact ⟨by dsimp only; omega, rfl, hrun', hsound', hmax'⟩
      · intro p hp; exact hleft p (by simpa [base] using hp)
    constructor
    · intro r hr
      split at hr
      · rename_i hlen
        split at hr
        · -- end of the text in a non-accepting state
          simp only [] at hr
          split at hr
          · rename_i a ha
            injection hr with hr; subst hr
            obtain ⟨s1, s2, s3⟩ := hsound' a ha
            refine ⟨s1, by omega, s3, ?_, hleft⟩
            intro n hn hA
            by_cases hle : ms0 + n ≤ s.sp + 1
            · obtain ⟨a', ha', hge⟩ := hmax' n (by omega) hle hA
              rw [ha] at ha'; injection ha' with ha'; omega
            · exact not_acc_beyond sh ct d flags text ms0 n (by omega) (by omega) hA
          · split at hr <;> simp at hr
        · rename_i hacc
          injection hr with hr; subst hr
          have hacc' : d.states[nx].accepting = true := by simpa using hacc
          refine ⟨by omega, by omega, ⟨nx, hrun', by rw [hacc_nx]; exact hacc'⟩, ?_, hleft⟩
          intro n hn hA
          exact not_acc_beyond sh ct d flags text ms0 n (by omega) (by omega) hA
      · simp at hr
    · intro s' hs'
      split at hs'
      · rename_i hlen
        split at hs'
        · simp only [] at hs'
          split at hs'
          · simp at hs'
          · rename_i hacc
            split at hs'
            · -- restarted at the end of the text
              rename_i hr
              injection hs' with hs'; subst hs'
              refine ⟨by dsimp only; omega, h0, fun _ => ⟨rfl, rfl⟩, by simp, ?_⟩
              intro p hp n hn
              have hp' : p < ms0 + 1 := by simpa [base] using hp
              by_cases hpe : p = ms0
              · subst hpe
                intro hA
                by_cases hle : p + n ≤ s.sp + 1
                · obtain ⟨a', ha', _⟩ := hmax' n hn hle hA
                  rw [hacc] at ha'; cases ha'
                · exact not_acc_beyond sh ct d flags text p n hn (by omega) hA
              · exact hleft p (by omega) n hn
            · injection hs' with hs'; subst hs'
              exact hcont _ rfl
        · simp at hs'
      · injection hs' with hs'; subst hs'
        exact hcont _ rfl

end Zvbi.Ure

namespace Zvbi.Ure
variable (sh : Shape) (ct : CType) (d : Dfa) (flags : Nat) (text : List Nat)

theorem run_good (hwf : d.wf = true) (hpl : d.plain = true) :
    ∀ fuel s, PInv sh ct d flags text s → Good sh ct d flags text (run sh ct d flags text fuel s) := by
  intro fuel
  induction fuel with
  | zero => intro s _; unfold run; split <;> trivial
  | succ f ih =>
    intro s hI
    unfold run
    split
    · rename_i hsp
      have hg := iter_good sh ct d flags text hwf hpl s hsp hI
      cases hit : iter sh ct d flags text s with
      | cont s' => exact ih s' (hg.2 s' hit)
      | done r => exact hg.1 r hit
    · trivial

/-- `hbl`: the blank line flag (the "^$" special case) is set by `ure_compile` only while every symbol is an anchor -/
theorem exec_good (hwf : d.wf = true) (hpl : d.plain = true) (hbl : d.blankline = false) :
    Good sh ct d flags text (exec sh ct d flags text) := by
  obtain ⟨hne, _⟩ := (wf_iff d).1 hwf
  have h0 : 0 < d.states.length := by cases h : d.states <;> simp_all
  unfold exec
  split
  · rename_i h
    rw [hbl] at h
    exact absurd h.2 (by simp)
  · apply run_good sh ct d flags text hwf hpl
    refine ⟨by simp [ESt.init], h0, fun _ => ⟨rfl, rfl⟩, by simp [ESt.init], ?_⟩
    intro p hp; simp [base, ESt.init] at hp

end Zvbi.Ure
