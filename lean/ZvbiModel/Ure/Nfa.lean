import ZvbiModel.Ure.Syntax
import ZvbiModel.Generated.UreLayout
/-!
# `ure_compile`, first half: the parser `_ure_re2nfa` (src/ure.c)

Pattern -> symbol table (`_ure_make_symbol` / `_ure_compile_symbol`: literals, escapes, `\x....`, `\pN,..`, `.`, `^`, `$`,
classes `[..]` with ranges, negation, POSIX names through `cclass_trie[]`, surrogate pairs) and expression table
(`_ure_make_expr`: hash-consed nodes SYMBOL / AND / OR / STAR / PLUS / QUEST built with the operator stack).
Every read of the pattern, of `cclass_flags[]`, `cclass_trie[]`, `spmap[]`, of the stack and of `b->expr[]` goes through
`[i]?`; outside = `CErr.oob site`.  The 16 bit counters of the tables (`ucs2_t ..._used`, `..._size`) wrap at 65536 in
the C code: the model stops with `CErr.limit site` when a table reaches `tableLimit` elements instead.
Tables and constants: Generated/UreLayout.lean (translate/gen_ure.py).
-/
namespace Zvbi.Ure
open Zvbi.Gen.Ure

inductive CErr
  | oob (site : String)
  | limit (site : String)
  | fuel (site : String)
deriving DecidableEq, Repr

abbrev CM := Except CErr

/-- the tables grow in steps of 8 and their size field is 16 bit wide: at 65528 + 8 it wraps to 0 -/
def tableLimit : Nat := 0x10000 - growStep

/-- `_ure_symtab_t` while it is built (`type` 0 = not set) -/
structure SymB where
  type : Nat := 0
  props : Nat := 0
  chr : Nat := 0
  ranges : List (Nat × Nat) := []
deriving DecidableEq, Repr, Inhabited

/-- `_ure_elt_t` -/
structure Elt where
  type : Nat
  lhs : Nat
  rhs : Nat
  onstack : Bool := false
deriving DecidableEq, Repr, Inhabited

structure SymEnt where
  sym : SymB
  /-- `states`: NFA states collected for this symbol during a reduction, ascending -/
  states : List Nat := []
deriving Repr, Inhabited

/-- `_ure_buffer_t` as far as the parser uses it -/
structure PBuf where
  error : Int := 0
  casefold : Bool := false
  blankline : Bool := true
  reducing : Bool := false
  stack : Array Nat := #[]
  symtab : Array SymEnt := #[]
  expr : Array Elt := #[]
deriving Repr, Inhabited

def rd (pat : Array Nat) (i : Nat) : CM Nat :=
  match pat[i]? with
  | some c => pure c
  | none => throw (.oob "pattern")

def isDigit (c : Nat) : Bool := decide (0x30 ≤ c) && decide (c ≤ 0x39)
def isHex (c : Nat) : Bool :=
  isDigit c || (decide (0x41 ≤ c) && decide (c ≤ 0x46)) || (decide (0x61 ≤ c) && decide (c ≤ 0x66))
def hexVal (c : Nat) : Nat := if isDigit c then c - 0x30 else if c ≤ 0x46 then c - 0x41 + 10 else c - 0x61 + 10

def flagOf (n : Nat) : CM Nat :=
  match cclassFlags[n]? with
  | some f => pure f
  | none => throw (.oob "cclass_flags")

/-- loop of `_ure_prop_list`; returns (sp, m, n, error) -/
def propLoop (pat : Array Nat) (ep : Nat) : Nat → Nat → Nat → Nat → Int → CM (Nat × Nat × Nat × Int)
  | 0, sp, m, n, err => pure (sp, m, n, err)
  | fuel + 1, sp, m, n, err =>
    if err = eOK ∧ sp < ep then do
      let c ← rd pat sp
      if c = 0x2c then do
        let f ← flagOf n
        -- n = 0 afterwards: the bound test below cannot fire
        propLoop pat ep fuel (sp + 1) (m ||| f) 0 err
      else if isDigit c then
        let n' := n * 10 + (c - 0x30)
        if n' > 32 ∨ n' ≥ cclassFlags.length then propLoop pat ep fuel (sp + 1) m 0 eINVALID_PROPERTY
        else propLoop pat ep fuel (sp + 1) m n' err
      else pure (sp, m, n, err)
    else pure (sp, m, n, err)

/-- `_ure_prop_list (sp, ep - sp, &mask, b)` -> (characters consumed, mask, b->error) -/
def propList (pat : Array Nat) (sp ep : Nat) (err : Int) : CM (Nat × Nat × Int) := do
  let (sp', m, n, err') ← propLoop pat ep (ep - sp + 1) sp 0 0 err
  let m' ← if n ≠ 0 then (do let f ← flagOf n; pure (m ||| f)) else pure m
  pure (sp' - sp, m', err')

/-- `_ure_hex`: 1 to 4 digits -> (consumed, value) -/
def hexLoop (pat : Array Nat) (ep : Nat) : Nat → Nat → Nat → CM (Nat × Nat)
  | 0, sp, nn => pure (sp, nn)
  | i + 1, sp, nn =>
    if sp < ep then do
      let c ← rd pat sp
      if isHex c then hexLoop pat ep i (sp + 1) (nn * 16 + hexVal c) else pure (sp, nn)
    else pure (sp, nn)

def trieAt (i : Nat) : CM (Nat × Nat × Nat × Nat) :=
  match cclassTrie[i]? with
  | some e => pure e
  | none => throw (.oob "cclass_trie")

/-- `for (; n > 0 && tp->key != *sp; tp++, n--)` -> (tp, n) -/
def trieSiblings (c : Nat) : Nat → Nat → CM (Nat × Nat)
  | tp, 0 => pure (tp, 0)
  | tp, n + 1 => do
    let e ← trieAt tp
    if e.1 = c then pure (tp, n + 1) else trieSiblings c (tp + 1) n

/-- main loop of `_ure_posix_ccl`; returns (sp, tp) or `none` for `return 0` -/
def posixLoop (sh : Shape) (pat : Array Nat) (ep : Nat) : Nat → Nat → Nat → Nat → CM (Option (Nat × Nat))
  | 0, _, sp, tp => pure (some (sp, tp))
  | fuel + 1, i, sp, tp =>
    if sp < ep ∧ i < 8 then do
      let e ← trieAt tp
      let c ← rd pat sp
      let (tp', n) ← trieSiblings c tp e.2.1
      if n = 0 then pure none
      else if c = 0x3a ∧ sh.posixColonMin ≤ i then pure (some (sp + 1, tp'))
      else do
        let e' ← trieAt tp'
        let tp'' := if sp + 1 < ep then e'.2.2.1 else tp'
        posixLoop sh pat ep fuel (i + 1) (sp + 1) tp''
    else pure (some (sp, tp))

/-- `_ure_posix_ccl (cp, ep - cp, sym, b)` -> (consumed, props) -/
def posixCcl (sh : Shape) (pat : Array Nat) (cp ep : Nat) (props : Nat) : CM (Nat × Nat) :=
  if ep - cp < sh.posixMinLen then pure (0, props) else do
    match ← posixLoop sh pat ep 9 0 cp 0 with
    | none => pure (0, props)
    | some (sp, tp) =>
      let e ← trieAt tp
      if e.2.2.2 = 0 then pure (0, props) else pure (sp - cp, props ||| e.2.2.2)

/-- position where `_ure_add_range` inserts: `for (i = 0; i < used && r->min_code < rp->min_code; i++)` -/
def rangePos (mn : Nat) : List (Nat × Nat) → Nat
  | [] => 0
  | r :: rest => if mn < r.1 then rangePos mn rest + 1 else 0

def insertAt {α} (x : α) : Nat → List α → List α
  | 0, l => x :: l
  | _ + 1, [] => [x]
  | n + 1, a :: l => a :: insertAt x n l

/-- `_ure_add_range` -/
def addRange (ct : CType) (casefold : Bool) (ranges : List (Nat × Nat)) (mn mx : Nat) : CM (List (Nat × Nat)) :=
  let mn := if casefold then ct.tolower mn else mn
  let mx := if casefold then ct.tolower mx else mx
  let (mn, mx) := if mn > mx then (mx, mn) else (mn, mx)
  let i := rangePos mn ranges
  match ranges[i]? with
  | some r => if r = (mn, mx) then pure ranges
              else if ranges.length ≥ tableLimit then throw (.limit "ranges") else pure (insertAt (mn, mx) i ranges)
  | none => if ranges.length ≥ tableLimit then throw (.limit "ranges") else pure (insertAt (mn, mx) i ranges)

def escChar (c : Nat) : Option Nat :=
  if c = 0x61 then some 0x07 else if c = 0x62 then some 0x08 else if c = 0x66 then some 0x0c
  else if c = 0x6e then some 0x0a else if c = 0x72 then some 0x0d else if c = 0x74 then some 0x09
  else if c = 0x76 then some 0x0b else none

def isXU (c : Nat) : Bool := c = 0x78 || c = 0x58 || c = 0x75 || c = 0x55

/-- loop state of `_ure_cclass` -/
structure CclSt where
  sp : Nat
  sym : SymB
  err : Int
  last : Nat := 0
  rangeEnd : Bool := false
  rmin : Nat := 0
  rmax : Nat := 0

/-- `*sp == ch` at a place where the C code does not test `sp < ep` first (shape `patGuard`: it does) -/
def peekIs (sh : Shape) (pat : Array Nat) (sp ep ch : Nat) : CM Bool :=
  if sh.patGuard ∧ ¬ sp < ep then pure false else do
    let c ← rd pat sp
    pure (c = ch)

/-- body of the `for` loop of `_ure_cclass`; `none` = the early `return` after a trailing backslash -/
def cclStep (sh : Shape) (ct : CType) (casefold : Bool) (pat : Array Nat) (ep : Nat) (s : CclSt) : CM (Option CclSt) := do
  let c0 ← rd pat s.sp
  let sp := s.sp + 1
  if c0 = 0x5c ∧ sp = ep then return none
  -- escapes / POSIX names; `inl s'` = `continue` with s'
  let r : Sum CclSt (Nat × Nat) ←
    if c0 = 0x5c then do
        let c ← rd pat sp
        let sp := sp + 1
        match escChar c with
        | some k => pure (Sum.inr (k, sp))
        | none =>
          if c = 0x70 ∨ c = 0x50 then do
            let (n, mask, err) ← propList pat sp ep s.err
            let props := if c = 0x50 then (2 ^ 64 - 1) - mask else mask
            pure (Sum.inl { s with sp := sp + n, err := err, sym := { s.sym with props := props } })
          else if isXU c then
            if sp < ep then do
              let h ← rd pat sp
              if isHex h then do
                let (sp', v) ← hexLoop pat ep 4 sp 0
                pure (Sum.inr (v, sp'))
              else pure (Sum.inr (c, sp))
            else pure (Sum.inr (c, sp))
          else pure (Sum.inr (c, sp))
    else if c0 = 0x3a then do
      let (n, props) ← posixCcl sh pat (sp - 1) ep s.sym.props
      if n = 0 then pure (Sum.inr (c0, sp))
      else pure (Sum.inl { s with sp := sp - 1 + n, sym := { s.sym with props := props } })
    else pure (Sum.inr (c0, sp))
  match r with
  | Sum.inl s' => pure (some s')
  | Sum.inr (c, sp) =>
    -- low surrogate after a high surrogate / isolated high surrogate
    let (c, ranges, rangeEnd, rmin, rmax) ←
      if s.last ≠ 0 then
        if 0xdc00 ≤ c ∧ c ≤ 0xdfff then
          pure (0x10000 + (((s.last &&& 0x03ff) <<< 10) ||| (c &&& 0x03ff)), s.sym.ranges, s.rangeEnd, s.rmin, s.rmax)
        else do
          let (mn, mx) := if s.rangeEnd then (s.rmin, s.last &&& 0xffff) else (s.last &&& 0xffff, s.last &&& 0xffff)
          let rs ← addRange ct casefold s.sym.ranges mn mx
          -- (`_ure_add_range` folds and swaps the caller's `range` in place; it is written again before its next use)
          pure (c, rs, false, mn, mx)
      else pure (c, s.sym.ranges, s.rangeEnd, s.rmin, s.rmax)
    if 0xd800 ≤ c ∧ c ≤ 0xdbff then do
      if ← peekIs sh pat sp ep 0x2d then
        pure (some { sp := sp + 1, sym := { s.sym with ranges := ranges }, err := s.err, last := 0, rangeEnd := true, rmin := c, rmax := rmax })
      else
        pure (some { sp := sp, sym := { s.sym with ranges := ranges }, err := s.err, last := c, rangeEnd := rangeEnd, rmin := rmin, rmax := rmax })
    else if rangeEnd then do
      let rs ← addRange ct casefold ranges rmin c
      pure (some { sp := sp, sym := { s.sym with ranges := rs }, err := s.err, last := 0, rangeEnd := false, rmin := rmin, rmax := c })
    else do
      if ← peekIs sh pat sp ep 0x2d then
        pure (some { sp := sp + 1, sym := { s.sym with ranges := ranges }, err := s.err, last := 0, rangeEnd := true, rmin := c, rmax := c })
      else do
        let rs ← addRange ct casefold ranges c c
        pure (some { sp := sp, sym := { s.sym with ranges := rs }, err := s.err, last := 0, rangeEnd := false, rmin := c, rmax := c })

/-- the `for` loop of `_ure_cclass`; returns (state, returned early) -/
def cclLoop (sh : Shape) (ct : CType) (casefold : Bool) (pat : Array Nat) (ep : Nat) : Nat → CclSt → CM (CclSt × Bool)
  | 0, s => pure (s, false)
  | fuel + 1, s =>
    if s.err = eOK ∧ s.sp < ep then do
      let c ← rd pat s.sp
      if c = 0x5d then pure (s, false)
      else
        match ← cclStep sh ct casefold pat ep s with
        | none => pure ({ s with sp := s.sp + 1, err := eUNEXPECTED_EOS }, true)
        | some s' => cclLoop sh ct casefold pat ep fuel s'
    else pure (s, false)

/-- `_ure_cclass (cp, ep - cp, symp, b)` -> (consumed, symbol, b->error) -/
def cclass (sh : Shape) (ct : CType) (casefold : Bool) (pat : Array Nat) (cp ep : Nat) (sym : SymB) (err : Int) :
    CM (Nat × SymB × Int) := do
  let neg ← peekIs sh pat cp ep 0x5e
  let sym := { sym with type := if neg then tNCCLASS else tCCLASS }
  let sp := if neg then cp + 1 else cp
  let (s, early) ← cclLoop sh ct casefold pat ep (ep - sp + 1) { sp := sp, sym := sym, err := err }
  if early then pure (s.sp - cp, s.sym, s.err)
  else if s.sp < ep then do
    let c ← rd pat s.sp
    if c = 0x5d then pure (s.sp + 1 - cp, s.sym, s.err) else pure (s.sp - cp, s.sym, eCCLASS_OPEN)
  else pure (s.sp - cp, s.sym, eCCLASS_OPEN)

/-- `_ure_probe_ls` -/
def probeLs (pat : Array Nat) (ls ep : Nat) : CM (Nat × Nat) := do
  let (sp, code) ← hexLoop pat ep 4 ls 0
  pure (if 0xdc00 ≤ code ∧ code ≤ 0xdfff then sp - ls else 0, code)

/-- `_ure_compile_symbol (sym, ep - sym, symp, b)` -> (consumed, symbol, b->error, blankline flag) -/
def compileSymbol (sh : Shape) (ct : CType) (b : PBuf) (pat : Array Nat) (s0 ep : Nat) : CM (Nat × SymB × Int × Bool) := do
  let c ← rd pat s0
  let sp := s0 + 1
  let sym : SymB := {}
  let (sp, sym, err) ←
    if c = 0x5c then
      if sp = ep then pure (sp, sym, eUNEXPECTED_EOS)
      else do
        let c ← rd pat sp
        let sp := sp + 1
        if c = 0x70 ∨ c = 0x50 then do
          let (n, mask, err) ← propList pat sp ep b.error
          pure (sp + n, { sym with type := if c = 0x70 then tCCLASS else tNCCLASS, props := mask }, err)
        else match escChar c with
          | some k => pure (sp, { sym with type := tCHAR, chr := k }, b.error)
          | none =>
            if isXU c then
              if sp < ep then do
                let h ← rd pat sp
                if isHex h then do
                  let (sp', v) ← hexLoop pat ep 4 sp 0
                  pure (sp', { sym with type := tCHAR, chr := v }, b.error)
                else pure (sp, { sym with type := tCHAR, chr := c }, b.error)
              else pure (sp, { sym with type := tCHAR, chr := c }, b.error)
            else pure (sp, { sym with type := tCHAR, chr := c }, b.error)
    else if c = 0x5e then pure (sp, { sym with type := tBOL_ANCHOR }, b.error)
    else if c = 0x24 then pure (sp, { sym with type := tEOL_ANCHOR }, b.error)
    else if c = 0x5b then do
      let (n, sym', err) ← cclass sh ct b.casefold pat sp ep sym b.error
      pure (sp + n, sym', err)
    else if c = 0x2e then pure (sp, { sym with type := tANY_CHAR }, b.error)
    else pure (sp, { sym with type := tCHAR, chr := c }, b.error)
  -- an early return of the trailing-backslash case skips the rest of the function
  if c = 0x5c ∧ s0 + 1 = ep then return (sp - s0, sym, err, b.blankline)
  -- high surrogate followed by a low surrogate (literal or \x....)
  let (sp, sym) ←
    if sp < ep ∧ sym.type = tCHAR ∧ 0xd800 ≤ sym.chr ∧ sym.chr ≤ 0xdbff then do
      let n ← rd pat sp
      if 0xdc00 ≤ n ∧ n ≤ 0xdfff then
        pure (sp + 1, { sym with chr := 0x10000 + (((sym.chr &&& 0x03ff) <<< 10) ||| (n &&& 0x03ff)) })
      else if n = 0x5c then do
        let isxu ← if sh.patGuard ∧ ¬ sp + 1 < ep then pure false else (do let n1 ← rd pat (sp + 1); pure (isXU n1))
        if isxu then do
          let (k, code) ← probeLs pat (sp + 2) ep
          if 0xdc00 ≤ code ∧ code ≤ 0xdfff then
            pure (sp + k + 2, { sym with chr := 0x10000 + (((sym.chr &&& 0x03ff) <<< 10) ||| (code &&& 0x03ff)) })
          else pure (sp + k, sym)
        else pure (sp, sym)
      else pure (sp, sym)
    else pure (sp, sym)
  let sym := if b.casefold ∧ sym.type = tCHAR then { sym with chr := ct.tolower sym.chr } else sym
  let bl := if sym.type ≠ tBOL_ANCHOR ∧ sym.type ≠ tEOL_ANCHOR then false else b.blankline
  pure (sp - s0, sym, err, bl)

/-- `!_ure_sym_neq` -/
def symSame (a b : SymB) : Bool :=
  a.type = b.type && a.props = b.props &&
  (if a.type = tCCLASS ∨ a.type = tNCCLASS then a.ranges = b.ranges
   else if a.type = tCHAR then a.chr = b.chr else true)

def findSym (x : SymB) : List SymEnt → Nat → Option Nat
  | [], _ => none
  | e :: rest, i => if symSame x e.sym then some i else findSym x rest (i + 1)

/-- `_ure_make_symbol` -> (symbol id, consumed, buffer) -/
def makeSymbol (sh : Shape) (ct : CType) (b : PBuf) (pat : Array Nat) (sp ep : Nat) : CM (Nat × Nat × PBuf) := do
  let (used, sym, err, bl) ← compileSymbol sh ct b pat sp ep
  let b := { b with error := err, blankline := bl }
  match findSym sym b.symtab.toList 0 with
  | some i => pure (i, used, b)
  | none =>
    if b.symtab.size ≥ tableLimit then throw (.limit "symtab")
    else pure (b.symtab.size, used, { b with symtab := b.symtab.push { sym := sym } })

def findExpr (t l r : Nat) : List Elt → Nat → Option Nat
  | [], _ => none
  | e :: rest, i => if e.type = t ∧ e.lhs = l ∧ e.rhs = r then some i else findExpr t l r rest (i + 1)

/-- `_ure_make_expr` -/
def makeExpr (b : PBuf) (t l r : Nat) : CM (Nat × PBuf) :=
  if ((t = tAND ∨ t = tOR) ∧ (l = tNOOP ∨ r = tNOOP)) ∨ ((t = tSTAR ∨ t = tPLUS ∨ t = tQUEST) ∧ l = tNOOP) then
    pure (tNOOP, { b with error := eUNEXPECTED_EOS })
  else
    match findExpr t l r b.expr.toList 0 with
    | some i => pure (i, b)
    | none =>
      if b.expr.size ≥ tableLimit then throw (.limit "expr")
      else pure (b.expr.size, { b with expr := b.expr.push { type := t, lhs := l, rhs := r } })

/-- `_ure_push` -/
def push (b : PBuf) (v : Nat) : CM PBuf :=
  if b.reducing then
    match b.expr[v]? with
    | none => throw (.oob "expr")
    | some e =>
      if e.onstack then pure b
      else if b.stack.size ≥ tableLimit then throw (.limit "stack")
      else pure { b with stack := b.stack.push v, expr := b.expr.set! v { e with onstack := true } }
  else if b.stack.size ≥ tableLimit then throw (.limit "stack")
  else pure { b with stack := b.stack.push v }

/-- `_ure_peek` -/
def peek (b : PBuf) : Nat := match b.stack.back? with
  | some v => v
  | none => tNOOP

/-- `_ure_pop` -/
def pop (b : PBuf) : CM (Nat × PBuf) :=
  match b.stack.back? with
  | none => pure (tNOOP, b)
  | some v =>
    if b.reducing then
      match b.expr[v]? with
      | none => throw (.oob "expr")
      | some e => pure (v, { b with stack := b.stack.pop, expr := b.expr.set! v { e with onstack := false } })
    else pure (v, { b with stack := b.stack.pop })

/-- `while ((top = _ure_peek (b)) == _URE_AND || top == _URE_OR) { p = pop; state = make_expr (p, pop, state); }` -/
def unwind : Nat → PBuf → Nat → CM (Nat × PBuf)
  | 0, _, _ => throw (.fuel "unwind")
  | fuel + 1, b, state =>
    if peek b = tAND ∨ peek b = tOR then do
      let (p, b) ← pop b
      let (l, b) ← pop b
      let (st, b) ← makeExpr b p l state
      unwind fuel b st
    else pure (state, b)

/-- `_ure_isspecial` -/
def isSpecial (cc : Nat) : CM Bool :=
  if cc > 0x20 ∧ cc < 0x7f then
    match spmap[cc >>> 3]? with
    | none => throw (.oob "spmap")
    | some m => pure (m.testBit (cc &&& 7))
  else pure false

/-- the `while` loop of `_ure_re2nfa` -/
def parseLoop (sh : Shape) (ct : CType) (pat : Array Nat) (ep : Nat) : Nat → PBuf → Nat → Nat → CM (Nat × PBuf)
  | 0, _, _, _ => throw (.fuel "re2nfa")
  | fuel + 1, b, sp0, state =>
    if b.error = eOK ∧ sp0 < ep then do
      let c ← rd pat sp0
      let sp := sp0 + 1
      let notFirst := sp ≠ 1
      let (b, sp, state) ←
        if c = 0x28 then do
          let b ← push b tPAREN
          pure (b, sp, state)
        else if c = 0x29 then
          if peek b = tNOOP then pure ({ b with error := eUNBALANCED_GROUP }, sp, state)
          else do
            let (state, b) ← unwind (b.stack.size + 1) b state
            let (_, b) ← pop b
            pure (b, sp, state)
        else if c = 0x7c then do
          let (state, b) ← unwind (b.stack.size + 1) b state
          let b ← push b state
          let b ← push b tOR
          pure (b, sp, state)
        else if c = 0x2a ∧ notFirst then do
          let (st, b) ← makeExpr b tSTAR state tNOOP
          pure (b, sp, st)
        else if (c = 0x2a ∨ c = 0x2b) ∧ notFirst then do
          let (st, b) ← makeExpr b tPLUS state tNOOP
          pure (b, sp, st)
        else if (c = 0x2a ∨ c = 0x2b ∨ c = 0x3f) ∧ notFirst then do
          let (st, b) ← makeExpr b tQUEST state tNOOP
          pure (b, sp, st)
        else do
          let (sym, used, b) ← makeSymbol sh ct b pat sp0 ep
          let (st, b) ← makeExpr b tSYMBOL sym tNOOP
          pure (b, sp0 + used, st)
      let b ←
        if c ≠ 0x28 ∧ c ≠ 0x7c ∧ sp < ep then do
          let n ← rd pat sp
          let spc ← isSpecial n
          if !spc ∨ n = 0x28 then do
            let b ← push b state
            push b tAND
          else pure b
        else pure b
      parseLoop sh ct pat ep fuel b sp state
    else pure (state, b)

/-- `_ure_re2nfa` -> start state (`_URE_NOOP` on error) -/
def re2nfa (sh : Shape) (ct : CType) (b : PBuf) (pat : Array Nat) : CM (Nat × PBuf) := do
  let (state, b) ← parseLoop sh ct pat pat.size (pat.size + 1) b 0 tNOOP
  let (state, b) ← unwind (b.stack.size + 1) b state
  let b := if b.stack.size > 0 then { b with error := eUNBALANCED_GROUP } else b
  pure (if b.error = eOK then state else tNOOP, b)

end Zvbi.Ure
