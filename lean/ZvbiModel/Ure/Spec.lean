import ZvbiModel.Ure.Exec
import ZvbiModel.Ure.Dfa
/-!
# What `ure_exec` and `ure_compile` are supposed to compute (C17, component `ure`)

## Matching (DFAs without `^` / `$`)
`delta` = the transition function the DFA denotes for `ure_exec` (the FIRST transition of the state whose symbol takes
the character), `runFrom q p n` = the state after reading `text[p .. p+n)` from `q`, `Acc p n` = the DFA accepts
`text[p .. p+n)` read from the start state.  The theorems of Props/C17Ure.lean say that `exec` reports the leftmost
`p` with an accepted non-empty stretch and the longest `n` there.

## Regular expressions
`Re` = the regular expression syntax `_ure_re2nfa` parses (over symbol numbers), `Re.lang` its language over symbol
numbers; `DfaLang` the language of a DFA over symbol numbers.  `compile_correct_full` is the open statement.
-/
namespace Zvbi.Ure

section
variable (sh : Shape) (ct : CType) (d : Dfa) (flags : Nat) (text : List Nat)

/-- the DFA has no anchor symbols -/
def Dfa.plain (d : Dfa) : Bool := d.syms.all (fun s => s != .bol && s != .eol)

/-- character symbols: does `sym` take (the folded) character `c`?  (`symTry` for `any` / `chr` / `ccl`) -/
def symTakes (sym : Sym) (c : Nat) : Bool :=
  match sym with
  | .any => dotSep flags || !issep sh ct c
  | .chr k => decide (c = k)
  | .ccl neg props ranges =>
    let m := (if props ≠ 0 then matchesProps ct props c else false) ||
             ranges.any (fun r => decide (r.1 ≤ c) && decide (c ≤ r.2))
    if neg then !m && !(issep sh ct c && !dotSep flags) else m
  | .bol => false
  | .eol => false

def takes (c : Nat) (t : Nat × Nat) : Bool :=
  match d.syms[t.1]? with
  | some sym => symTakes sh ct flags sym c
  | none => false

/-- transition function: first transition of state `q` whose symbol takes `c` -/
def delta (q c : Nat) : Option Nat :=
  match d.states[q]? with
  | none => none
  | some st => (st.trans.find? (takes sh ct d flags c)).map (·.2)

def isAcc (q : Nat) : Bool :=
  match d.states[q]? with
  | some st => st.accepting
  | none => false

/-- state after reading `text[p .. p+n)` (case folded when the DFA is) from state `q`; `none` = no transition -/
def runFrom (q p : Nat) : Nat → Option Nat
  | 0 => some q
  | n + 1 =>
    match runFrom q p n with
    | none => none
    | some q' =>
      match text[p + n]? with
      | none => none
      | some c => delta sh ct d flags q' (foldChar ct d c)

/-- the DFA accepts `text[p .. p+n)` -/
def Acc (p n : Nat) : Prop := ∃ q, runFrom sh ct d flags text 0 p n = some q ∧ isAcc d q = true

end

/-! ## regular expressions over symbol numbers -/

inductive Re
  | sym (s : Nat)
  | cat (a b : Re)
  | alt (a b : Re)
  | star (a : Re)
  | plus (a : Re)
  | opt (a : Re)
deriving Repr

/-- `w` is a concatenation of `n` words of `L` -/
def Pow (L : List Nat → Prop) : Nat → List Nat → Prop
  | 0, w => w = []
  | n + 1, w => ∃ u v, w = u ++ v ∧ L u ∧ Pow L n v

def Re.lang : Re → List Nat → Prop
  | .sym s, w => w = [s]
  | .cat a b, w => ∃ u v, w = u ++ v ∧ a.lang u ∧ b.lang v
  | .alt a b, w => a.lang w ∨ b.lang w
  | .star a, w => ∃ n, Pow a.lang n w
  | .plus a, w => ∃ n, Pow a.lang (n + 1) w
  | .opt a, w => w = [] ∨ a.lang w

/-- the DFA over symbol NUMBERS: state after the word `w` -/
def symRun (d : Dfa) (q : Nat) : List Nat → Option Nat
  | [] => some q
  | s :: w =>
    match d.states[q]? with
    | none => none
    | some st =>
      match st.trans.find? (fun t => t.1 == s) with
      | none => none
      | some t => symRun d t.2 w

def DfaLang (d : Dfa) (w : List Nat) : Prop := ∃ q, symRun d 0 w = some q ∧ isAcc d q = true

/-- expression `e` of the table denotes `r` (the table is hash-consed: children are table indices) -/
inductive Denotes (expr : Array Elt) : Nat → Re → Prop
  | sym (i s : Nat) (h : expr[i]? = some { type := Zvbi.Gen.Ure.tSYMBOL, lhs := s, rhs := Zvbi.Gen.Ure.tNOOP }) :
      Denotes expr i (.sym s)
  | cat (i l r : Nat) (a b : Re) (h : expr[i]? = some { type := Zvbi.Gen.Ure.tAND, lhs := l, rhs := r })
      (ha : Denotes expr l a) (hb : Denotes expr r b) : Denotes expr i (.cat a b)
  | alt (i l r : Nat) (a b : Re) (h : expr[i]? = some { type := Zvbi.Gen.Ure.tOR, lhs := l, rhs := r })
      (ha : Denotes expr l a) (hb : Denotes expr r b) : Denotes expr i (.alt a b)
  | star (i l : Nat) (a : Re) (h : expr[i]? = some { type := Zvbi.Gen.Ure.tSTAR, lhs := l, rhs := Zvbi.Gen.Ure.tNOOP })
      (ha : Denotes expr l a) : Denotes expr i (.star a)
  | plus (i l : Nat) (a : Re) (h : expr[i]? = some { type := Zvbi.Gen.Ure.tPLUS, lhs := l, rhs := Zvbi.Gen.Ure.tNOOP })
      (ha : Denotes expr l a) : Denotes expr i (.plus a)
  | opt (i l : Nat) (a : Re) (h : expr[i]? = some { type := Zvbi.Gen.Ure.tQUEST, lhs := l, rhs := Zvbi.Gen.Ure.tNOOP })
      (ha : Denotes expr l a) : Denotes expr i (.opt a)

/-- OPEN (not proved): for a pattern of the subset {symbols, concatenation, `|`, `*`, `+`, `?`, groups} the parser produces
    an expression that denotes a regular expression `r`, and the DFA `ure_compile` returns accepts, over symbol
    numbers, exactly the language of `r`.  Missing lemma chain: (1) `parseLoop` builds `Denotes b.expr state r` for the
    `r` read off the pattern (operator stack invariant); (2) every rewrite of `evalLoop` preserves the language of the
    expression SET on the stack (the identities are `rewrite_*` in LemmasSpec.lean; the induction over the fuel with
    the `onstack` de-duplication is missing); (3) `reduceLoop`: the language of a DFA state = ε (if accepting) + the union
    over its transitions of symbol · language of the target (subset construction preserves the language); (4)
    `mergeEquiv` only merges bisimilar states and `renumber` is injective on representatives.
    Over CHARACTERS the statement is FALSE when two symbols of the pattern overlap (`ure_exec` takes the first
    transition that matches: finding C17-U5, `overlap_counterexample`). -/
def compile_correct_full : Prop :=
  ∀ (sh : Shape) (ct : CType) (cf : Bool) (pat : List Nat) (d : Dfa),
    compile sh ct 0 cf pat = .dfa d →
    ∃ (b : PBuf) (start : Nat) (r : Re),
      re2nfa sh ct { casefold := cf } pat.toArray = .ok (start, b) ∧ Denotes b.expr start r ∧
      ∀ w, DfaLang d w ↔ r.lang w

/-- OPEN: `exec` reports `none` only when nothing is accepted anywhere, for a DFA without anchors whose start state is
    not accepting, in the repaired shape (`eotRestart`).  Proved: soundness, leftmost, longest (Props/C17Ure.lean);
    false without either hypothesis (`exec_complete_nullable_counterexample`, `exec_complete_eot_counterexample`).
    Missing: one more clause of `PInv` (LemmasPlain.lean) - a state with `sp = text.length` and an attempt in progress has
    `acc = none` and, with `eotRestart`, `text.length ≤ ms + 1` - and the `none` clause of `Good`. -/
def exec_complete_full : Prop :=
  ∀ (sh : Shape) (ct : CType) (d : Dfa) (flags : Nat) (text : List Nat),
    d.wf = true → d.plain = true → d.blankline = false → sh.eotRestart = true → isAcc d 0 = false →
    exec sh ct d flags text = .none → ∀ p n, 1 ≤ n → ¬ Acc sh ct d flags text p n

/-- OPEN: for EVERY literal pattern (no high surrogates, no U+0000) the DFA `compile` builds from the pattern escaped
    as `vbi_search_new` does is the chain DFA and `exec` on it is the leftmost-occurrence search `exactLit` of
    Search/Matcher.lean, in both source shapes (for a chain DFA an attempt that runs into the end of the text cannot
    hide a later occurrence).  Proved: instances (`ure_literal_is_exactLit_partial`), soundness / leftmost / longest for
    every anchor-free DFA; compared by the correspondence on every generated `lit` case.  Missing: (1) `compile
    (escapeLit pat)` = chain DFA (induction over `parseLoop` / `reduceLoop` on a right-nested AND of symbols), (2)
    `runFrom` on the chain = `isPrefix`, (3) `exec_complete` restricted to chains.  `lowerAscii` = the model's `ct.tolower`
    is an assumption on `ct` (true for the probed "C" locale). -/
def ure_literal_is_exactLit_full (exactLit : Bool → List Nat → List Nat → Option (Nat × Nat)) : Prop :=
  ∀ (sh : Shape) (ct : CType) (cf : Bool) (pat text : List Nat) (flags : Nat) (d : Dfa),
    pat ≠ [] → (∀ c ∈ pat, c ≠ 0 ∧ ¬ (0xd800 ≤ c ∧ c ≤ 0xdbff)) →
    (∀ c, ct.tolower c = if 0x41 ≤ c ∧ c ≤ 0x5a then c + 32 else c) →
    compile sh ct 0 cf (escapeLit pat) = .dfa d →
    (match exec sh ct d flags text with
     | .found ms me => some (ms, me)
     | _ => none) = exactLit cf pat text

/-- OPEN: `compile` never reads outside the pattern, `cclass_flags[]`, `cclass_trie[]`, `spmap[]`, the stack, the
    symbol / expression / state / equivalence tables - for every pattern, in the repaired shape (`patGuard`,
    `posixColonMin = 4`); FALSE in the current shape (`compile_oob_counterexample`).  `CErr.limit` (a 16 bit table
    counter would wrap) and `CErr.fuel` are separate outcomes.  Proved: instances; the DFA handed out is well formed
    (`compile_wf`, checked).  Missing: the table invariants (children of an expression are smaller table indices, stack
    entries and transition targets are table indices, `states[i].id ≤ i`) as an induction over the three loops. -/
def compile_never_oob_full : Prop :=
  ∀ (sh : Shape) (ct : CType) (e : Int) (cf : Bool) (pat : List Nat) (site : String),
    sh.patGuard = true → sh.posixColonMin = 4 → compile sh ct e cf pat ≠ .err (.oob site)

/-- OPEN: the fuel of the loops of `compile` always suffices (`_ure_reduce` terminates: the `while (eval)` rewriting is
    well founded because every rewrite continues with an expression whose left spine is shorter, and the stack holds each
    expression at most once).  The state explosion (`(a|b)*a(a|b)^n`: 2^(n+1) states, > 20 s under ASan from n = 12) is
    inherent and ends in `CErr.limit` in the model before a counter wraps. -/
def compile_terminates_full : Prop :=
  ∀ (sh : Shape) (ct : CType) (e : Int) (cf : Bool) (pat : List Nat) (site : String),
    compile sh ct e cf pat ≠ .err (.fuel site)

end Zvbi.Ure
