import ZvbiModel.Ure.Syntax
/-!
# `ure_exec` (src/ure.c) over an abstract DFA, statement by statement

One loop as in the C code: `iter` is one pass through `for (found = skip = 0; found == 0 && sp < ep; )`.
Positions are indices into the text (`sp`, `lp`), `~0` = `none`; `ms`/`me` are set and reset together, so they are
one `Option (ms, me)`.  Every table access (`text[sp]`, `dfa->states[..]`, `dfa->syms[..]`) goes through `[i]?`
and ends the run with `.oob site` when the index is outside (theorem `exec_never_oob`: never for a well-formed DFA).
The loop takes fuel; `.hang` = fuel used up (`exec_terminates`: never with the `^` guard, with URE_NOTBOL or for a
DFA without `^`; `exec_hang_counterexample`: the DFA of `^+` on "x" in the current source).
The surrogate combination and URE_IGNORE_NONSPACING are `#if 0` in zvbi's ure.c and not modelled.
-/
namespace Zvbi.Ure

inductive Try
  | no
  | yes (lp sp zw : Nat)
  | oob (site : String)

section
variable (sh : Shape) (ct : CType) (d : Dfa) (flags : Nat) (text : List Nat)

/-- one `case` of the switch in the transition loop: does `sym` take character `c` (read at `lp`, `sp` = `lp + 1`)?
    `yes lp' sp'`: matched, with the new values of `lp` and `sp` -/
def symTry (sym : Sym) (c lp sp zw : Nat) : Try :=
  match sym with
  | .any => if dotSep flags || !issep sh ct c then .yes lp sp zw else .no
  | .chr k => if c = k then .yes lp sp zw else .no
  | .bol =>
    if notBol flags then .no
    else if lp = 0 then
      -- zero-width: `sp = lp`
      (if sh.bolGuard then (if zw > d.states.length then .no else .yes lp lp (zw + 1)) else .yes lp lp zw)
    else if isbrk c then
      if c = 0x0d ∧ sp < text.length then
        match text[sp]? with
        | none => .oob "text"
        | some n => if n = 0x0a then .yes (sp + 1) (sp + 1) zw else .yes sp sp zw
      else .yes sp sp zw
    else .no
  | .eol => if notEol flags then .no else if isbrk c then .yes lp lp zw else .no
  | .ccl neg props ranges =>
    let m := (if props ≠ 0 then matchesProps ct props c else false) ||
             ranges.any (fun r => decide (r.1 ≤ c) && decide (c ≤ r.2))
    if neg then
      (if !m && !(issep sh ct c && !dotSep flags) then .yes lp sp zw else .no)
    else if m then .yes lp sp zw else .no

/-- result of the transition loop `for (i = 0, matched = 0; matched == 0 && i < stp->ntrans; i++)` -/
inductive Move
  | none
  | oob (site : String)
  /-- transition taken: next state `nx` = `q`, `lp` (-> `ms` when this is the first of the attempt), `me`, `sp` after the
      end-of-line adjustment -/
  | to (nx : Nat) (q : DState) (lp me sp zw : Nat)

def scan (c lp sp zw : Nat) : List (Nat × Nat) → Move
  | [] => .none
  | (si, nx) :: rest =>
    match d.syms[si]? with
    | none => .oob "syms"
    | some sym =>
      match symTry sh ct d flags text sym c lp sp zw with
      | .oob e => .oob e
      | .no => scan c lp sp zw rest
      | .yes lp' sp' zw' =>
        match d.states[nx]? with
        | none => .oob "states"
        | some q' =>
          match sym with
          | .eol =>
            -- skip the separator that caused the match, and the LF of CR LF
            if sp' + 1 < text.length ∧ c = 0x0d then
              match text[sp' + 1]? with
              | none => .oob "text"
              | some n => .to nx q' lp' sp' (if n = 0x0a then sp' + 2 else sp' + 1) zw'
            else .to nx q' lp' sp' (sp' + 1) zw'
          | _ => .to nx q' lp' sp' sp' zw'

inductive Hack
  | no
  | found
  | oob (site : String)

/-- "this ugly hack": at the end of the text in a non-accepting state, the first `$` transition decides -/
def eolHack : List (Nat × Nat) → Hack
  | [] => .no
  | (si, nx) :: rest =>
    match d.syms[si]? with
    | none => .oob "syms"
    | some .eol =>
      (match d.states[nx]? with
       | none => .oob "states"
       | some q' => if q'.accepting then .found else .no)
    | some _ => eolHack rest

structure ESt where
  sp : Nat
  /-- (ms, me); `none` = both `~0` -/
  m : Option (Nat × Nat)
  /-- acc_me -/
  acc : Option Nat
  /-- stp - dfa->states -/
  st : Nat
  /-- zero-width `^` transitions taken so far (repaired shape only) -/
  zw : Nat
deriving DecidableEq, Repr

inductive Res
  | none
  | found (ms me : Nat)
  | oob (site : String)
  | hang
deriving DecidableEq, Repr

inductive Step
  | cont (s : ESt)
  | done (r : Res)
deriving DecidableEq

/-- `if (ms == ~0) ms = lp - text;` -/
def msOf (m : Option (Nat × Nat)) (lp' : Nat) : Nat :=
  match m with
  | some (ms, _) => ms
  | none => lp'

/-- the character the transitions see: `unicode_tolower` when the DFA was compiled with casefold -/
def foldChar (c : Nat) : Nat := if d.casefold then ct.tolower c else c

/-- one pass of the outer loop; precondition of the loop: `s.sp < text.length` -/
def iter (s : ESt) : Step :=
  let lp := s.sp
  match text[lp]? with
  | none => .done (.oob "text")
  | some c0 =>
    let c := foldChar ct d c0
    match d.states[s.st]? with
    | none => .done (.oob "states")
    | some q =>
      match scan sh ct d flags text c lp (lp + 1) s.zw q.trans with
      | .oob e => .done (.oob e)
      | .to nx q' lp' me sp' zw' =>
        let ms := msOf s.m lp'
        let acc := if q'.accepting then some me else s.acc
        if sp' = text.length then
          if !q'.accepting then
            match eolHack d q'.trans with
            | .oob e => .done (.oob e)
            | .found => .done (.found ms sp')
            | .no =>
              match acc with
              | some a => .done (.found ms a)
              | none =>
                if sh.eotRestart ∧ ms + 1 < text.length then
                  .cont { sp := ms + 1, m := none, acc := none, st := 0, zw := zw' }
                else .cont { sp := sp', m := some (ms, me), acc := acc, st := nx, zw := zw' }
          else .done (.found ms sp')
        else .cont { sp := sp', m := some (ms, me), acc := acc, st := nx, zw := zw' }
      | .none =>
        if !q.accepting then
          match s.acc with
          | some a =>
            -- the attempt passed an accepting state: that match stands
            (match s.m with
             | some (ms, _) => .done (.found ms a)
             | none => .done .none)
          | none =>
            .cont { sp := (match s.m with
                           | some (ms, _) => ms + 1
                           | none => lp + 1),
                    m := none, acc := none, st := 0, zw := s.zw }
        else
          match s.m with
          | some (ms, me) => .done (.found ms me)
          | none => .done .none

def run : Nat → ESt → Res
  | fuel, s =>
    if s.sp < text.length then
      match fuel with
      | 0 => .hang
      | f + 1 =>
        match iter sh ct d flags text s with
        | .cont s' => run f s'
        | .done r => r
    else .none

/-- fuel that suffices whenever the run ends at all (`exec_terminates`) -/
def execFuel : Nat := (text.length + 2) * (text.length + d.states.length + 4)

def ESt.init : ESt := { sp := 0, m := none, acc := none, st := 0, zw := 0 }

/-- `ure_exec (dfa, flags, text, textlen, &ms, &me)` -/
def exec : Res :=
  if text.length = 0 ∧ d.blankline = true then .found 0 0
  else run sh ct d flags text (execFuel d text) ESt.init

end
end Zvbi.Ure
