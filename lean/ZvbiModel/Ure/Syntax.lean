/-!
# src/ure.c: the data the regular expression engine works on (C17, component `ure`)

`Sym` = one entry of the symbol table (`_ure_symtab_t`: type, property mask, character or ranges), `Dfa` = what
`ure_compile` returns (`_ure_dfa_t`: flags, symbol table, states with accepting flag and transitions
(symbol index, next state) in the order `ure_exec` tries them).  The C library's character classification
(`iswalnum` ... `iswxdigit`, `towlower`; locale dependent) is a parameter `CType`; the driver instantiates it with
the tables translate/gen_ure.py probes from the C library in the "C" locale the harness runs in
(Generated/UreLayout.lean).  `Shape` = which source form of two places /repo has (read by the translator from the
source text): `_ure_issep` (finding C17-U1, swapped arguments) and the zero-width `^` transition of `ure_exec`
(finding C17-U2, endless loop).
-/
namespace Zvbi.Ure

/-- character classification of the C library -/
structure CType where
  /-- `i` = bit number of the `_URE_*` class flag: 0 alnum, 1 alpha, 2 cntrl, 3 digit, 4 graph, 5 lower, 6 print,
      7 punct, 8 space, 9 upper, 10 xdigit -/
  isProp : Nat → Nat → Bool
  tolower : Nat → Nat

structure Shape where
  /-- `_ure_issep (cc)` tests the line break characters (repaired, as ure.h documents `.`);
      false = `_ure_matches_properties (cc, _URE_SEPARATOR)`: the character is taken for the property mask -/
  issepBrk : Bool
  /-- `ure_exec` bounds the number of zero-width `^` transitions at the start of the text by the number of states -/
  bolGuard : Bool
  /-- `ure_compile`: the reads of `*sp` / `*(sp + 1)` in `_ure_cclass` / `_ure_compile_symbol` stay below `ep` (repaired);
      false = they read the element behind the pattern when it ends there (finding C17-U4) -/
  patGuard : Bool
  /-- `_ure_posix_ccl`: `if (limit < posixMinLen) return 0` (7 in the current source) -/
  posixMinLen : Nat
  /-- `_ure_posix_ccl`: a colon ends the class name from this loop index on (6 = `i == 6 || i == 7`; `:gfx:` and
      `:drcs:` end at 4 and 5: finding C17-U3) -/
  posixColonMin : Nat
  /-- `ure_exec`: an attempt that reaches the end of the text in a non-accepting state without a match behind it is
      restarted one character after its start (repaired); false = the search ends there (finding C17-U7: `abc|b` finds
      nothing in "ab") -/
  eotRestart : Bool
deriving DecidableEq, Repr

inductive Sym
  | any
  | chr (c : Nat)
  | ccl (neg : Bool) (props : Nat) (ranges : List (Nat × Nat))
  | bol
  | eol
deriving DecidableEq, Repr

structure DState where
  accepting : Bool
  /-- (symbol index, next state) -/
  trans : List (Nat × Nat)
deriving DecidableEq, Repr

structure Dfa where
  casefold : Bool
  blankline : Bool
  syms : List Sym
  states : List DState
deriving DecidableEq, Repr

/-- every index stored in the DFA is inside its table, and there is a start state -/
def Dfa.wf (d : Dfa) : Bool :=
  !d.states.isEmpty &&
  d.states.all (fun q => q.trans.all (fun t => decide (t.1 < d.syms.length) && decide (t.2 < d.states.length)))

/-- `_ure_matches_properties (props, c)` (the title / defined / wide / separator tests are commented out in ure.c) -/
def matchesProps (ct : CType) (props c : Nat) : Bool :=
  (List.range 11).any (fun i => props.testBit i && ct.isProp i c) ||
  props.testBit 14 ||
  (props.testBit 16 && ((decide (0xEE00 ≤ c) && decide (c ≤ 0xEE7F)) || (decide (0xEF20 ≤ c) && decide (c ≤ 0xEF7F)))) ||
  (props.testBit 17 && (decide (0xF000 ≤ c) && decide (c ≤ 0xF7FF)))

/-- `_ure_isbrk` -/
def isbrk (c : Nat) : Bool := c == 0x0a || c == 0x0d || c == 0x2028 || c == 0x2029

/-- `_ure_issep (cc)`; current source: `_ure_matches_properties (cc, _URE_SEPARATOR)` = the CHARACTER as property mask
    tested on the character U+8000 -/
def issep (sh : Shape) (ct : CType) (c : Nat) : Bool :=
  if sh.issepBrk then isbrk c else matchesProps ct c 0x8000

/-- flags of `ure_exec` -/
def dotSep (flags : Nat) : Bool := flags.testBit 1
def notBol (flags : Nat) : Bool := flags.testBit 2
def notEol (flags : Nat) : Bool := flags.testBit 3

end Zvbi.Ure
