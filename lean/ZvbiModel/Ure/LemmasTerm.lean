import ZvbiModel.Ure.LemmasExec
/-!
# `ure_exec` terminates - lemmas for `exec_terminates`

Every pass of the loop either consumes a character of the current attempt, or starts the next attempt one position
further right, or takes the zero-width `^` transition at the start of the text.  The last kind is bounded only in the
repaired shape (`bolGuard`), or absent (URE_NOTBOL, no `^` in the DFA).
-/
namespace Zvbi.Ure

variable (sh : Shape) (ct : CType) (d : Dfa) (flags : Nat) (text : List Nat)

/-- how a matching symbol moves `lp` / `sp` (`sp` = `lp + 1` on entry) -/
inductive TryShape (sym : Sym) (lp zw lp' sp' zw' : Nat) : Prop
  | char (h1 : lp' = lp) (h2 : sp' = lp + 1) (h3 : zw' = zw) (h4 : sym ≠ .eol)
  | eol (h0 : sym = .eol) (h1 : lp' = lp) (h2 : sp' = lp) (h3 : zw' = zw)
  | brk (h0 : sym = .bol) (h1 : lp ≠ 0) (h2 : lp' = sp') (h3 : lp + 1 ≤ sp') (h4 : sp' ≤ text.length) (h5 : zw' = zw)
  | zero (h0 : sym = .bol) (h1 : lp = 0) (h2 : lp' = 0) (h3 : sp' = 0) (h4 : notBol flags = false)
      (h5 : sh.bolGuard = true → zw ≤ d.states.length ∧ zw' = zw + 1) (h6 : sh.bolGuard = false → zw' = zw)

theorem symTry_shape (sym : Sym) (c lp zw lp' sp' zw' : Nat) (hlp : lp < text.length)
    (h : symTry sh ct d flags text sym c lp (lp + 1) zw = .yes lp' sp' zw') :
    TryShape sh d flags text sym lp zw lp' sp' zw' := by
  unfold symTry at h
  cases sym with
  | any =>
    simp only [] at h
    split at h
    · injection h with a b c; exact .char a.symm b.symm c.symm (by simp)
    · simp at h
  | chr k =>
    simp only [] at h
    split at h
    · injection h with a b c; exact .char a.symm b.symm c.symm (by simp)
    · simp at h
  | ccl neg props ranges =>
    simp only [] at h
    repeat' split at h
    all_goals first
      | (injection h with a b c; exact .char a.symm b.symm c.symm (by simp))
      | simp at h
  | eol =>
    simp only [] at h
    split at h
    · simp at h
    · split at h
      · injection h with a b c; exact .eol rfl a.symm b.symm c.symm
      · simp at h
  | bol =>
    simp only [] at h
    split at h
    · simp at h
    · rename_i hnb
      have hnb' : notBol flags = false := by simpa using hnb
      split at h
      · rename_i h0
        split at h
        · rename_i hg
          split at h
          · simp at h
          · rename_i hz
            injection h with a b c
            exact .zero rfl h0 (by omega) (by omega) hnb' (fun _ => ⟨by omega, c.symm⟩) (fun hf => by simp [hg] at hf)
        · rename_i hg
          injection h with a b c
          exact .zero rfl h0 (by omega) (by omega) hnb' (fun ht => absurd ht hg) (fun _ => c.symm)
      · rename_i h0
        split at h
        · split at h
          · rename_i hcr
            split at h
            · simp at h
            · split at h
              · injection h with a b c
                exact .brk rfl h0 (by omega) (by omega) (by omega) c.symm
              · injection h with a b c
                exact .brk rfl h0 (by omega) (by omega) (by omega) c.symm
          · injection h with a b c
            exact .brk rfl h0 (by omega) (by omega) (by omega) c.symm
        · simp at h

/-- how a taken transition moves the loop variables -/
inductive MoveShape (lp zw lp' me sp' zw' : Nat) : Prop
  | consume (h1 : lp ≤ lp') (h2 : lp' ≤ me) (h3 : me ≤ sp') (h4 : lp + 1 ≤ sp') (h5 : sp' ≤ text.length) (h6 : zw' = zw)
  | zero (h1 : lp = 0) (h2 : lp' = 0) (h3 : me = 0) (h4 : sp' = 0) (h5 : notBol flags = false) (h7 : Sym.bol ∈ d.syms)
      (h8 : sh.bolGuard = true → zw ≤ d.states.length ∧ zw' = zw + 1) (h9 : sh.bolGuard = false → zw' = zw)

theorem scan_shape (c lp zw : Nat) (hlp : lp < text.length) :
    ∀ trs nx q lp' me sp' zw', scan sh ct d flags text c lp (lp + 1) zw trs = .to nx q lp' me sp' zw' →
      MoveShape sh d flags text lp zw lp' me sp' zw' := by
  intro trs
  induction trs with
  | nil => intro nx q lp' me sp' zw' h; simp [scan] at h
  | cons t rest ih =>
    intro nx q lp' me sp' zw' hsc
    obtain ⟨si, nx0⟩ := t
    unfold scan at hsc
    cases hs : d.syms[si]? with
    | none => rw [hs] at hsc; simp at hsc
    | some sym =>
      rw [hs] at hsc
      simp only [] at hsc
      cases hty : symTry sh ct d flags text sym c lp (lp + 1) zw with
      | oob e' => rw [hty] at hsc; simp at hsc
      | no => rw [hty] at hsc; exact ih _ _ _ _ _ _ hsc
      | yes lp1 sp1 zw1 =>
        have hshape := symTry_shape sh ct d flags text sym c lp zw lp1 sp1 zw1 hlp hty
        rw [hty] at hsc
        simp only [] at hsc
        cases hq : d.states[nx0]? with
        | none => rw [hq] at hsc; simp at hsc
        | some q0 =>
          rw [hq] at hsc
          simp only [] at hsc
          cases hshape with
          | eol h0 h1 h2 h3 =>
            subst h0
            simp only [] at hsc
            split at hsc
            · rename_i hcr
              split at hsc
              · simp at hsc
              · injection hsc with a b c d' e f
                split at e <;> exact .consume (by omega) (by omega) (by omega) (by omega) (by omega) (by omega)
            · rename_i hcr
              injection hsc with a b c d' e f
              exact .consume (by omega) (by omega) (by omega) (by omega) (by omega) (by omega)
          | char h1 h2 h3 h4 =>
            cases sym with
            | eol => exact absurd rfl h4
            | _ =>
              simp only [] at hsc
              injection hsc with a b c d' e f
              exact .consume (by omega) (by omega) (by omega) (by omega) (by omega) (by omega)
          | brk h0 h1 h2 h3 h4 h5 =>
            subst h0
            simp only [] at hsc
            injection hsc with a b c d' e f
            exact .consume (by omega) (by omega) (by omega) (by omega) (by omega) (by omega)
          | zero h0 h1 h2 h3 h4 h5 h6 =>
            subst h0
            simp only [] at hsc
            injection hsc with a b c d' e f
            refine .zero h1 (by omega) (by omega) (by omega) h4 (mem_of_getElem? hs) ?_ ?_
            · intro hg; have := h5 hg; exact ⟨this.1, by omega⟩
            · intro hg; have := h6 hg; omega

/-- zero-width `^` transitions are bounded or absent -/
def ZwBounded : Prop := sh.bolGuard = true ∨ notBol flags = true ∨ Sym.bol ∉ d.syms

structure TInv (s : ESt) : Prop where
  sp_le : s.sp ≤ text.length
  ms_le : ∀ ms me, s.m = some (ms, me) → ms ≤ s.sp
  zw_le : sh.bolGuard = true → s.zw ≤ d.states.length + 1

def base (s : ESt) : Nat :=
  match s.m with
  | some (ms, _) => ms
  | none => s.sp

def inner (s : ESt) : Nat :=
  (text.length - s.sp) + (if sh.bolGuard then d.states.length + 1 - s.zw else 0)

/-- one pass: the invariant is kept and the measure (attempt start, characters left + zero-width budget) decreases -/
theorem iter_measure (hz : ZwBounded sh d flags) (s s' : ESt) (hsp : s.sp < text.length) (hI : TInv sh d text s)
    (hit : iter sh ct d flags text s = .cont s') :
    TInv sh d text s' ∧
    ((base s ≤ base s' ∧ inner sh d text s' < inner sh d text s) ∨ (base s < base s' ∧ base s < text.length)) := by
  have hc : text[s.sp]? = some text[s.sp] := List.getElem?_eq_getElem hsp
  unfold iter at hit
  simp only [hc] at hit
  cases hq : d.states[s.st]? with
  | none => rw [hq] at hit; simp at hit
  | some q =>
    rw [hq] at hit
    simp only [] at hit
    cases hsc : scan sh ct d flags text (foldChar ct d text[s.sp]) s.sp (s.sp + 1) s.zw q.trans with
    | oob e => rw [hsc] at hit; simp at hit
    | none =>
      rw [hsc] at hit
      simp only [] at hit
      split at hit
      · split at hit
        · split at hit <;> simp at hit
        · injection hit with hit
          subst hit
          cases hm : s.m with
          | none =>
            refine ⟨⟨by simp [hm]; omega, by simp, by simpa using hI.zw_le⟩, Or.inr ?_⟩
            simp [base, hm]; omega
          | some p =>
            obtain ⟨ms, me⟩ := p
            have := hI.ms_le ms me hm
            refine ⟨⟨by simp [hm]; omega, by simp, by simpa using hI.zw_le⟩, Or.inr ?_⟩
            simp [base, hm]; omega
      · split at hit <;> simp at hit
    | to nx q' lp' me sp' zw' =>
      have hshape := scan_shape sh ct d flags text _ s.sp s.zw hsp _ _ _ _ _ _ _ hsc
      rw [hsc] at hit
      simp only [] at hit
      have key : ∀ acc, s' = { sp := sp', m := some (msOf s.m lp', me), acc := acc, st := nx, zw := zw' } →
          TInv sh d text s' ∧
          ((base s ≤ base s' ∧ inner sh d text s' < inner sh d text s) ∨ (base s < base s' ∧ base s < text.length)) := by
        intro acc hs'
        subst hs'
        cases hshape with
        | consume h1 h2 h3 h4 h5 h6 =>
          subst h6
          refine ⟨⟨h5, ?_, hI.zw_le⟩, Or.inl ⟨?_, ?_⟩⟩
          · intro ms me' hm
            dsimp only
            simp only [Option.some.injEq, Prod.mk.injEq] at hm
            cases hsm : s.m with
            | none => rw [hsm] at hm; simp only [msOf] at hm; omega
            | some p => obtain ⟨ms0, me0⟩ := p; rw [hsm] at hm; simp only [msOf] at hm; have := hI.ms_le ms0 me0 hsm; omega
          · cases hsm : s.m with
            | none => simp [base, hsm, msOf]; omega
            | some p => obtain ⟨ms0, me0⟩ := p; simp [base, hsm, msOf]
          · simp only [inner]; omega
        | zero h1 h2 h3 h4 h5 h7 h8 h9 =>
          have hg : sh.bolGuard = true := by
            rcases hz with hz | hz | hz
            · exact hz
            · rw [h5] at hz; cases hz
            · exact absurd h7 hz
          have hzw := h8 hg
          refine ⟨⟨by dsimp only; omega, ?_, fun _ => by dsimp only; omega⟩, Or.inl ⟨?_, ?_⟩⟩
          · intro ms me' hm
            dsimp only
            simp only [Option.some.injEq, Prod.mk.injEq] at hm
            cases hsm : s.m with
            | none => rw [hsm] at hm; simp only [msOf] at hm; omega
            | some p => obtain ⟨ms0, me0⟩ := p; rw [hsm] at hm; simp only [msOf] at hm; have := hI.ms_le ms0 me0 hsm; omega
          · cases hsm : s.m with
            | none => simp [base, hsm, msOf]; omega
            | some p => obtain ⟨ms0, me0⟩ := p; simp [base, hsm, msOf]
          · simp only [inner, hg, if_true]; omega
      have key2 : msOf s.m lp' + 1 < text.length →
          s' = { sp := msOf s.m lp' + 1, m := none, acc := none, st := 0, zw := zw' } →
          TInv sh d text s' ∧
          ((base s ≤ base s' ∧ inner sh d text s' < inner sh d text s) ∨ (base s < base s' ∧ base s < text.length)) := by
        intro hlt hs'
        subst hs'
        have hb : base s ≤ msOf s.m lp' ∧ base s < text.length := by
          cases hsm : s.m with
          | none =>
            simp only [base, msOf, hsm]
            cases hshape with
            | consume h1 _ _ _ _ _ => exact ⟨h1, hsp⟩
            | zero h1 h2 _ _ _ _ _ _ => exact ⟨by omega, hsp⟩
          | some p =>
            obtain ⟨ms0, me0⟩ := p
            have := hI.ms_le ms0 me0 hsm
            simp only [base, msOf, hsm]
            exact ⟨Nat.le_refl _, by omega⟩
        refine ⟨⟨by dsimp only; omega, by simp, ?_⟩, Or.inr ⟨by show base s < msOf s.m lp' + 1; omega, hb.2⟩⟩
        intro hg
        dsimp only
        cases hshape with
        | consume _ _ _ _ _ h6 => have := hI.zw_le hg; omega
        | zero _ _ _ _ _ _ h8 _ => have := h8 hg; omega
      split at hit
      · split at hit
        · split at hit
          · simp at hit
          · simp at hit
          · split at hit
            · simp at hit
            · by_cases hr : sh.eotRestart = true ∧ msOf s.m lp' + 1 < text.length
              · rw [if_pos hr] at hit
                injection hit with hit; exact key2 hr.2 hit.symm
              · rw [if_neg hr] at hit
                injection hit with hit; exact key _ hit.symm
        · simp at hit
      · injection hit with hit; exact key _ hit.symm

theorem run_not_hang (hz : ZwBounded sh d flags) :
    ∀ fuel s a, TInv sh d text s → text.length + 1 - base s ≤ a →
      a * (text.length + d.states.length + 2) + inner sh d text s < fuel →
      run sh ct d flags text fuel s ≠ .hang := by
  intro fuel
  induction fuel with
  | zero => intro s a _ _ h; omega
  | succ f ih =>
    intro s a hI ha hf
    unfold run
    split
    · rename_i hsp
      cases hit : iter sh ct d flags text s with
      | done r =>
        simp only []
        unfold iter at hit
        intro hr
        subst hr
        -- `iter` never answers `.hang`
        have hc : text[s.sp]? = some text[s.sp] := List.getElem?_eq_getElem hsp
        simp only [hc] at hit
        repeat' split at hit
        all_goals simp at hit
      | cont s' =>
        simp only []
        obtain ⟨hI', hm⟩ := iter_measure sh ct d flags text hz s s' hsp hI hit
        have hin' : inner sh d text s' ≤ text.length + d.states.length + 1 := by
          have := hI'.sp_le
          simp only [inner]
          split <;> omega
        rcases hm with ⟨hb, hi⟩ | ⟨hb, hl⟩
        · exact ih s' a hI' (by omega) (by omega)
        · cases a with
          | zero => omega
          | succ a' =>
            rw [Nat.succ_mul] at hf
            exact ih s' a' hI' (by omega) (by omega)
    · simp

/-- **exec_terminates** -/
theorem exec_not_hang (hz : ZwBounded sh d flags) : exec sh ct d flags text ≠ .hang := by
  unfold exec
  split
  · simp
  · apply run_not_hang sh ct d flags text hz _ _ (text.length + 1)
    · exact ⟨by simp [ESt.init], by simp [ESt.init], by simp [ESt.init]⟩
    · simp [base, ESt.init]
    · simp only [inner, ESt.init, execFuel]
      have h1 : (text.length + 2) * (text.length + d.states.length + 4)
          = (text.length + 1) * (text.length + d.states.length + 2) + 2 * (text.length + 1) + (text.length + d.states.length + 4) := by
        rw [show text.length + 2 = (text.length + 1) + 1 from rfl, Nat.succ_mul,
            show text.length + d.states.length + 4 = (text.length + d.states.length + 2) + 2 from rfl, Nat.mul_add]
        omega
      rw [h1]
      split <;> omega

end Zvbi.Ure
