import ZvbiModel.Ure.Exec
/-!
# `ure_exec` never leaves its tables (well-formed DFA) - lemmas for `exec_never_oob`
-/
namespace Zvbi.Ure

variable (sh : Shape) (ct : CType) (d : Dfa) (flags : Nat) (text : List Nat)

/-- well-formedness as propositions -/
def TransOk (trs : List (Nat × Nat)) : Prop :=
  ∀ t ∈ trs, t.1 < d.syms.length ∧ t.2 < d.states.length

theorem wf_iff : d.wf = true ↔ d.states ≠ [] ∧ ∀ q ∈ d.states, TransOk d q.trans := by
  unfold Dfa.wf TransOk
  simp only [Bool.and_eq_true, Bool.not_eq_true', List.all_eq_true, decide_eq_true_eq]
  constructor
  · rintro ⟨h1, h2⟩
    refine ⟨by intro h; simp [h] at h1, fun q hq t ht => ?_⟩
    have := h2 q hq t ht
    simpa using this
  · rintro ⟨h1, h2⟩
    refine ⟨by cases h : d.states <;> simp_all, fun q hq t ht => ?_⟩
    have := h2 q hq t ht
    simpa using this

theorem symTry_not_oob (sym : Sym) (c lp sp zw : Nat) (e : String) :
    symTry sh ct d flags text sym c lp sp zw ≠ .oob e := by
  unfold symTry
  cases sym with
  | any => simp only []; split <;> simp
  | chr k => simp only []; split <;> simp
  | eol => simp only []; repeat' split
           all_goals simp
  | ccl neg props ranges =>
    simp only []
    repeat' split
    all_goals simp
  | bol =>
    simp only []
    repeat' split
    all_goals first
      | (rename_i h1 _ h2; have := List.getElem?_eq_none_iff.1 h2; omega)
      | simp

theorem scan_not_oob (c lp sp zw : Nat) (e : String) :
    ∀ trs, TransOk d trs → scan sh ct d flags text c lp sp zw trs ≠ .oob e := by
  intro trs
  induction trs with
  | nil => intro _; simp [scan]
  | cons t rest ih =>
    intro h
    obtain ⟨si, nx⟩ := t
    have ht := h (si, nx) (by simp)
    have hrest : TransOk d rest := fun t ht' => h t (by simp [ht'])
    unfold scan
    have hs : d.syms[si]? = some d.syms[si] := List.getElem?_eq_getElem ht.1
    have hq : d.states[nx]? = some d.states[nx] := List.getElem?_eq_getElem ht.2
    rw [hs]
    simp only []
    cases hty : symTry sh ct d flags text d.syms[si] c lp sp zw with
    | oob e' => exact absurd hty (symTry_not_oob sh ct d flags text _ _ _ _ _ _)
    | no => simpa using ih hrest
    | yes lp' sp' zw' =>
      simp only [hq]
      split
      · split
        · rename_i h'
          have : text[sp' + 1]? = some text[sp' + 1] := List.getElem?_eq_getElem h'.1
          rw [this]
          simp
        · simp
      · simp

/-- a taken transition leads to a state of the table -/
theorem scan_to_valid (c lp sp zw : Nat) :
    ∀ trs, TransOk d trs → ∀ nx q lp' me sp' zw',
      scan sh ct d flags text c lp sp zw trs = .to nx q lp' me sp' zw' → d.states[nx]? = some q := by
  intro trs
  induction trs with
  | nil => intro _ nx q lp' me sp' zw' h; simp [scan] at h
  | cons t rest ih =>
    intro h nx q lp' me sp' zw' hsc
    obtain ⟨si, nx0⟩ := t
    have hrest : TransOk d rest := fun t ht' => h t (by simp [ht'])
    unfold scan at hsc
    cases hs : d.syms[si]? with
    | none => rw [hs] at hsc; simp at hsc
    | some sym =>
      rw [hs] at hsc
      simp only [] at hsc
      cases hty : symTry sh ct d flags text sym c lp sp zw with
      | oob e' => rw [hty] at hsc; simp at hsc
      | no => rw [hty] at hsc; exact ih hrest _ _ _ _ _ _ hsc
      | yes lp1 sp1 zw1 =>
        rw [hty] at hsc
        simp only [] at hsc
        cases hq : d.states[nx0]? with
        | none => rw [hq] at hsc; simp at hsc
        | some q0 =>
          rw [hq] at hsc
          simp only [] at hsc
          split at hsc
          · split at hsc
            · split at hsc
              · simp at hsc
              · injection hsc with h1 h2; subst h1; subst h2; exact hq
            · injection hsc with h1 h2; subst h1; subst h2; exact hq
          · injection hsc with h1 h2; subst h1; subst h2; exact hq

theorem eolHack_not_oob (e : String) : ∀ trs, TransOk d trs → eolHack d trs ≠ .oob e := by
  intro trs
  induction trs with
  | nil => intro _; simp [eolHack]
  | cons t rest ih =>
    intro h
    obtain ⟨si, nx⟩ := t
    have ht := h (si, nx) (by simp)
    have hrest : TransOk d rest := fun t ht' => h t (by simp [ht'])
    unfold eolHack
    have hs : d.syms[si]? = some d.syms[si] := List.getElem?_eq_getElem ht.1
    have hq : d.states[nx]? = some d.states[nx] := List.getElem?_eq_getElem ht.2
    rw [hs]
    cases d.syms[si] with
    | eol => simp only [hq]; split <;> simp
    | any => simpa using ih hrest
    | chr k => simpa using ih hrest
    | bol => simpa using ih hrest
    | ccl a b c => simpa using ih hrest

theorem mem_of_getElem? {α} {l : List α} {i : Nat} {x : α} (h : l[i]? = some x) : x ∈ l := by
  have := List.mem_of_getElem? h
  exact this

/-- one pass of the loop: no access outside a table, and the next state is a state of the table -/
theorem iter_ok (hwf : d.wf = true) (s : ESt) (hsp : s.sp < text.length) (hst : s.st < d.states.length) :
    (∀ e, iter sh ct d flags text s ≠ .done (.oob e)) ∧
    (∀ s', iter sh ct d flags text s = .cont s' → s'.st < d.states.length) := by
  obtain ⟨hne, hall⟩ := (wf_iff d).1 hwf
  have h0 : 0 < d.states.length := by cases h : d.states <;> simp_all
  have hc : text[s.sp]? = some text[s.sp] := List.getElem?_eq_getElem hsp
  have hq : d.states[s.st]? = some d.states[s.st] := List.getElem?_eq_getElem hst
  have hqok : TransOk d d.states[s.st].trans := hall _ (List.getElem_mem hst)
  unfold iter
  simp only [hc, hq]
  cases hsc : scan sh ct d flags text (foldChar ct d text[s.sp]) s.sp (s.sp + 1) s.zw d.states[s.st].trans with
  | oob e' => exact absurd hsc (scan_not_oob sh ct d flags text _ _ _ _ _ _ hqok)
  | none =>
    simp only []
    constructor
    · intro e
      split
      · split
        · split <;> simp
        · simp
      · split <;> simp
    · intro s'
      split
      · split
        · split <;> simp
        · intro h; injection h with h; subst h; exact h0
      · split <;> simp
  | to nx q' lp' me sp' zw' =>
    have hv := scan_to_valid sh ct d flags text _ _ _ _ _ hqok _ _ _ _ _ _ hsc
    have hnx : nx < d.states.length := by
      have := List.getElem?_eq_some_iff.1 hv
      exact this.1
    have hq'ok : TransOk d q'.trans := hall _ (mem_of_getElem? hv)
    simp only []
    constructor
    · intro e
      split
      · split
        · cases hh : eolHack d q'.trans with
          | oob e' => exact absurd hh (eolHack_not_oob d _ _ hq'ok)
          | found => simp
          | no =>
            simp only []
            repeat' split
            all_goals simp
        · simp
      · simp
    · intro s'
      split
      · split
        · cases hh : eolHack d q'.trans with
          | oob e' => exact absurd hh (eolHack_not_oob d _ _ hq'ok)
          | found => simp
          | no =>
            simp only []
            repeat' split
            all_goals first
              | (intro h; injection h with h; subst h; first | exact h0 | exact hnx)
              | simp
        · simp
      · intro h; injection h with h; subst h; exact hnx

theorem run_not_oob (hwf : d.wf = true) (e : String) :
    ∀ fuel s, s.st < d.states.length → run sh ct d flags text fuel s ≠ .oob e := by
  intro fuel
  induction fuel with
  | zero =>
    intro s _
    unfold run
    split <;> simp
  | succ f ih =>
    intro s hst
    unfold run
    split
    · rename_i hsp
      have hi := iter_ok sh ct d flags text hwf s hsp hst
      cases hit : iter sh ct d flags text s with
      | cont s' => simp only []; exact ih s' (hi.2 s' hit)
      | done r =>
        simp only []
        intro h
        subst h
        exact hi.1 e hit
    · simp

/-- **exec_never_oob** -/
theorem exec_not_oob (hwf : d.wf = true) (e : String) : exec sh ct d flags text ≠ .oob e := by
  obtain ⟨hne, _⟩ := (wf_iff d).1 hwf
  have h0 : 0 < d.states.length := by cases h : d.states <;> simp_all
  unfold exec
  split
  · simp
  · exact run_not_oob sh ct d flags text hwf e _ _ h0

end Zvbi.Ure
