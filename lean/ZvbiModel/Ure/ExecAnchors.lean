import ZvbiModel.Ure.Exec
/-!
# `ure_exec` (src/ure.c) in the source shape of fixes/C17-line-anchors.diff (line anchors repaired)

The second source shape of `ure_exec`; `Ure/Exec.lean` is the shape as found (findings C17-U8, C17-U9 and the reading of
URE_NOTBOL / URE_NOTEOL behind C17-D8).  Which one /repo has is read on every run by translate/gen_ure.py
(-> Generated/UreAnchors.lean `lineAnchors`; `execCur` below is what the drivers run).  Differences, statement by statement:

* `case _URE_BOL_ANCHOR`: zero width ALWAYS (`sp = lp`), taken in front of the first character of a line:
  `lp == text` unless URE_NOTBOL (the caller says the text does not begin at a line start - no longer "no `^` anywhere"),
  else `_ure_isbrk (lp[-1])` and not between CR and LF.  The separator is no longer consumed by `^`, `lp` stays, so a failed
  attempt restarts at the character behind its own start (`ms + 1`), which repairs C17-U9.  The guard against a cycle of
  `^` transitions counts per position: `if (bol_at != lp) { bol_at = lp; bol_steps = 0; }`.
* `case _URE_EOL_ANCHOR`: a separator ends a line whatever URE_NOTEOL says; URE_NOTEOL (the END of the text is not a line
  end) switches off the end-of-text look-ahead ("this ugly hack") instead.
* end of the text in an accepting state: `me` stays what the transition recorded (in front of the separator when the
  last transition was `$`; `me = sp - text` is deleted), which repairs C17-U8.
Everything else (restart rules, longest match, casefold) is `Exec.lean` unchanged; `Try`, `Move`, `Hack`, `eolHack`, `msOf`,
`foldChar`, `Res`, `execFuel` are shared.
-/
namespace Zvbi.Ure

section
variable (sh : Shape) (ct : CType) (d : Dfa) (flags : Nat) (text : List Nat)

/-- the position `lp` (`c` = the character there) is the beginning of a line of the text: `lp == text ? !(flags &
    URE_NOTBOL) : _ure_isbrk (lp[-1]) && !(lp[-1] == '\r' && c == '\n')` -/
def bolAt (c lp : Nat) : Bool :=
  if lp = 0 then !notBol flags
  else isbrk (text.getD (lp - 1) 0) && !(text.getD (lp - 1) 0 == 0x0d && c == 0x0a)

/-- one `case` of the switch, repaired shape.  `zw` = `bol_steps` if `bol_at == lp`, else 0 -/
def symTryA (sym : Sym) (c lp sp zw : Nat) : Try :=
  match sym with
  | .bol =>
    if bolAt flags text c lp then (if zw > d.states.length then .no else .yes lp lp (zw + 1)) else .no
  | .eol => if isbrk c then .yes lp lp zw else .no
  | other => symTry sh ct d flags text other c lp sp zw

def scanA (c lp sp zw : Nat) : List (Nat × Nat) → Move
  | [] => .none
  | (si, nx) :: rest =>
    match d.syms[si]? with
    | none => .oob "syms"
    | some sym =>
      match symTryA sh ct d flags text sym c lp sp zw with
      | .oob e => .oob e
      | .no => scanA c lp sp zw rest
      | .yes lp' sp' zw' =>
        match d.states[nx]? with
        | none => .oob "states"
        | some q' =>
          match sym with
          | .eol =>
            if sp' + 1 < text.length ∧ c = 0x0d then
              match text[sp' + 1]? with
              | none => .oob "text"
              | some n => .to nx q' lp' sp' (if n = 0x0a then sp' + 2 else sp' + 1) zw'
            else .to nx q' lp' sp' (sp' + 1) zw'
          | _ => .to nx q' lp' sp' sp' zw'

structure EStA where
  sp : Nat
  m : Option (Nat × Nat)
  acc : Option Nat
  st : Nat
  /-- bol_steps -/
  zw : Nat
  /-- bol_at (`none` = NULL) -/
  zwAt : Option Nat
deriving DecidableEq, Repr

inductive StepA
  | cont (s : EStA)
  | done (r : Res)
deriving DecidableEq

/-- one pass of the outer loop, repaired shape -/
def iterA (s : EStA) : StepA :=
  let lp := s.sp
  match text[lp]? with
  | none => .done (.oob "text")
  | some c0 =>
    let c := foldChar ct d c0
    match d.states[s.st]? with
    | none => .done (.oob "states")
    | some q =>
      match scanA sh ct d flags text c lp (lp + 1) (if s.zwAt = some lp then s.zw else 0) q.trans with
      | .oob e => .done (.oob e)
      | .to nx q' lp' me sp' zw' =>
        -- a `^` step is the only transition that leaves `sp` at `lp`: `bol_at = lp; bol_steps = ...`
        let zwN := if sp' = lp then zw' else s.zw
        let atN := if sp' = lp then some lp else s.zwAt
        let ms := msOf s.m lp'
        let acc := if q'.accepting then some me else s.acc
        if sp' = text.length then
          if !q'.accepting then
            match (if notEol flags then Hack.no else eolHack d q'.trans) with
            | .oob e => .done (.oob e)
            | .found => .done (.found ms sp')
            | .no =>
              match acc with
              | some a => .done (.found ms a)
              | none =>
                if sh.eotRestart ∧ ms + 1 < text.length then
                  .cont { sp := ms + 1, m := none, acc := none, st := 0, zw := zwN, zwAt := atN }
                else .cont { sp := sp', m := some (ms, me), acc := acc, st := nx, zw := zwN, zwAt := atN }
          else .done (.found ms me)
        else .cont { sp := sp', m := some (ms, me), acc := acc, st := nx, zw := zwN, zwAt := atN }
      | .none =>
        if !q.accepting then
          match s.acc with
          | some a =>
            (match s.m with
             | some (ms, _) => .done (.found ms a)
             | none => .done .none)
          | none =>
            .cont { sp := (match s.m with
                           | some (ms, _) => ms + 1
                           | none => lp + 1),
                    m := none, acc := none, st := 0, zw := s.zw, zwAt := s.zwAt }
        else
          match s.m with
          | some (ms, me) => .done (.found ms me)
          | none => .done .none

def runA : Nat → EStA → Res
  | fuel, s =>
    if s.sp < text.length then
      match fuel with
      | 0 => .hang
      | f + 1 =>
        match iterA sh ct d flags text s with
        | .cont s' => runA f s'
        | .done r => r
    else .none

def EStA.init : EStA := { sp := 0, m := none, acc := none, st := 0, zw := 0, zwAt := none }

/-- `ure_exec` in the repaired shape.  Fuel: every position is left after at most `states + 2` zero-width steps plus one
    consuming step, and a restart moves the start of the attempt forward -/
def execA : Res :=
  if text.length = 0 ∧ d.blankline = true then .found 0 0
  else runA sh ct d flags text ((text.length + 2) * (text.length + 2) * (d.states.length + 4)) EStA.init

end
end Zvbi.Ure
