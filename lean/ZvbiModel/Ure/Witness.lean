import ZvbiModel.Ure.LemmasPlain
import ZvbiModel.Ure.Current
/-!
# Concrete DFAs (as `ure_compile` produces them; dumps replayed on the C code in corpus/C17/ure-*.ops) and kernel
evaluated runs on them - the witnesses of the findings C17-U2, U5, U6, U7 and of the repaired shape
-/
namespace Zvbi.Ure

/-- `^+` -/
def dBolPlus : Dfa := ⟨false, true, [Sym.bol], [⟨false, [(0, 1)]⟩, ⟨true, [(0, 1)]⟩]⟩
/-- `a*` -/
def dAStar : Dfa := ⟨false, false, [Sym.chr 0x61], [⟨true, [(0, 0)]⟩]⟩
/-- `abc|b` -/
def dAbcB : Dfa := ⟨false, false, [Sym.chr 0x61, Sym.chr 0x62, Sym.chr 0x63],
  [⟨false, [(0, 1), (1, 2)]⟩, ⟨false, [(1, 3)]⟩, ⟨true, []⟩, ⟨false, [(2, 2)]⟩]⟩
/-- `f.*o` -/
def dFDotO : Dfa := ⟨false, false, [Sym.chr 0x66, Sym.any, Sym.chr 0x6f],
  [⟨false, [(0, 1)]⟩, ⟨false, [(1, 1), (2, 2)]⟩, ⟨true, []⟩]⟩
/-- the literal "ab" (escaped pattern of `vbi_search_new`) -/
def dLitAb : Dfa := ⟨false, false, [Sym.chr 0x61, Sym.chr 0x62], [⟨false, [(0, 1)]⟩, ⟨false, [(1, 2)]⟩, ⟨true, []⟩]⟩

theorem compile_bolplus : compile Shape.unrepaired CType.probed 0 false [0x5e, 0x2b] = .dfa dBolPlus := by decide +kernel
theorem compile_astar : compile Shape.unrepaired CType.probed 0 false [0x61, 0x2a] = .dfa dAStar := by decide +kernel
theorem compile_abcb : compile Shape.unrepaired CType.probed 0 false [0x61, 0x62, 0x63, 0x7c, 0x62] = .dfa dAbcB := by
  decide +kernel
theorem compile_fdoto : compile Shape.unrepaired CType.probed 0 false [0x66, 0x2e, 0x2a, 0x6f] = .dfa dFDotO := by
  decide +kernel
theorem compile_litab : compile Shape.unrepaired CType.probed 0 false (escapeLit [0x61, 0x62]) = .dfa dLitAb := by
  decide +kernel

/-- the state `ure_exec` comes back to on `^+` / "x" -/
def sLoop : ESt := { sp := 0, m := some (0, 0), acc := some 0, st := 1, zw := 0 }

theorem iter_init_loop : iter Shape.unrepaired CType.probed dBolPlus 0 [0x78] ESt.init = .cont sLoop := by decide +kernel
theorem iter_loop : iter Shape.unrepaired CType.probed dBolPlus 0 [0x78] sLoop = .cont sLoop := by decide +kernel

theorem run_loop : ∀ fuel, run Shape.unrepaired CType.probed dBolPlus 0 [0x78] fuel sLoop = .hang := by
  intro fuel
  induction fuel with
  | zero => unfold run; simp [sLoop]
  | succ f ih =>
    unfold run
    have : sLoop.sp < [0x78].length := by decide
    rw [if_pos this, iter_loop]
    exact ih

theorem run_init_loop : ∀ fuel, run Shape.unrepaired CType.probed dBolPlus 0 [0x78] fuel ESt.init = .hang := by
  intro fuel
  cases fuel with
  | zero => unfold run; simp [ESt.init]
  | succ f =>
    unfold run
    have : ESt.init.sp < [0x78].length := by decide
    rw [if_pos this, iter_init_loop]
    exact run_loop f

end Zvbi.Ure
