import ZvbiModel.Ure.Syntax
import ZvbiModel.Generated.UreLayout
/-! The source shape of /repo's ure.c and the C library tables the harness runs with, as read by translate/gen_ure.py -/
namespace Zvbi.Ure
open Zvbi.Gen.Ure

def Shape.current : Shape :=
  { issepBrk := Zvbi.Gen.Ure.issepBrk, bolGuard := Zvbi.Gen.Ure.bolGuard, patGuard := Zvbi.Gen.Ure.patGuard,
    posixMinLen := Zvbi.Gen.Ure.posixMinLen, posixColonMin := Zvbi.Gen.Ure.posixColonMin,
    eotRestart := Zvbi.Gen.Ure.eotRestart }

/-- ure.c as it is in /repo at 9ff427f.. (findings C17-U1..U4 open) -/
def Shape.unrepaired : Shape :=
  { issepBrk := false, bolGuard := false, patGuard := false, posixMinLen := 7, posixColonMin := 6,
    eotRestart := false }

/-- ure.c with fixes/C17-ure-*.diff applied -/
def Shape.repaired : Shape :=
  { issepBrk := true, bolGuard := true, patGuard := true, posixMinLen := 5, posixColonMin := 4, eotRestart := true }

def inRanges (c : Nat) (rs : List (Nat × Nat)) : Bool := rs.any (fun r => decide (r.1 ≤ c) && decide (c ≤ r.2))

/-- iswalnum ... iswxdigit / towlower of the C library in the "C" locale (probe) -/
def CType.probed : CType :=
  { isProp := fun i c => match clsTable[i]? with
      | some rs => inRanges c rs
      | none => false
    tolower := fun c => match lowerRuns.find? (fun r => decide (r.1 ≤ c) && decide (c ≤ r.2.1)) with
      | some r => (Int.ofNat c + r.2.2).toNat
      | none => c }

end Zvbi.Ure
