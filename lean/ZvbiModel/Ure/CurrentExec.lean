import ZvbiModel.Ure.ExecAnchors
import ZvbiModel.Ure.Current
import ZvbiModel.Generated.UreAnchors
/-! `ure_exec` in the source shape of the CURRENT /repo (line anchors as found or repaired), as translate/gen_ure.py read it -/
namespace Zvbi.Ure

def execCur (ct : CType) (d : Dfa) (flags : Nat) (text : List Nat) : Res :=
  if Zvbi.Gen.Ure.lineAnchors then execA Shape.current ct d flags text else exec Shape.current ct d flags text

end Zvbi.Ure
