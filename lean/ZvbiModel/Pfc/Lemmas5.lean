import ZvbiModel.Pfc.Lemmas4
/-!
# Lemmas for the PFC demultiplexer (C15), part 5: rows, pages, whole transmissions; foreign
packets and continuity gaps
-/
namespace Zvbi.Pfc
open Zvbi.Hamm Zvbi.Gen
open Spec (Ph Res run shDecode)


/-- feed packets one after the other -/
def feedAll (s : St) (bufs : List (List Nat)) : Except Err (St × List Block) := runOps s (bufs.map Op.feed)

theorem feedAll_nil (s : St) : feedAll s [] = .ok (s, []) := rfl

theorem feedAll_cons (s : St) (b : List Nat) (r : List (List Nat)) : feedAll s (b :: r) =
    match feed s b with
    | .error e => .error e
    | .ok o =>
      match feedAll o.st r with
      | .error e => .error e
      | .ok (s', bl) => .ok (s', o.blocks ++ bl) := rfl

theorem feedAll_append (a : List (List Nat)) : ∀ (s : St) (b : List (List Nat)) s1 bl1,
    feedAll s a = .ok (s1, bl1) →
    feedAll s (a ++ b) = match feedAll s1 b with
      | .error e => .error e
      | .ok (s', bl) => .ok (s', bl1 ++ bl) := by
  induction a with
  | nil =>
    intro s b s1 bl1 h
    rw [feedAll_nil] at h
    cases h
    simp only [List.nil_append]
    cases feedAll s b with
    | error e => rfl
    | ok r => obtain ⟨s', bl⟩ := r; rfl
  | cons x t ih =>
    intro s b s1 bl1 h
    rw [feedAll_cons] at h
    rw [List.cons_append, feedAll_cons]
    cases hf : feed s x with
    | error e => rw [hf] at h; cases h
    | ok o =>
      rw [hf] at h
      simp only at h ⊢
      cases ht : feedAll o.st t with
      | error e => rw [ht] at h; cases h
      | ok r =>
        obtain ⟨s2, bl2⟩ := r
        rw [ht] at h
        simp only at h
        cases h
        rw [ih o.st b _ _ ht]
        cases feedAll _ b with
        | error e => rfl
        | ok r => obtain ⟨s', bl⟩ := r; simp

theorem bpAndPayload_rowPkt (pgno y bp : Nat) (pl : List Nat) (hbp : bp < 16) :
    Spec.bpAndPayload (Spec.rowPkt pgno y bp pl) = (bp, pl) := by
  simp [Spec.bpAndPayload, Spec.rowPkt, Spec.addrBytes, unham8_ham8 bp hbp]

theorem rowPkt_length (pgno y bp : Nat) (pl : List Nat) (h : pl.length = 39) :
    (Spec.rowPkt pgno y bp pl).length = 42 := by
  simp [Spec.rowPkt, Spec.addrBytes, h]

/-- **rows of an open page**: fed in sequence they are decoded like a packet sequence -/
theorem feed_rows (pgno : Nat) (hpg1 : 0x100 ≤ pgno) (hpg2 : pgno < 0x900) (rows : List (Nat × List Nat)) :
    ∀ y0 s, WF s → Inv s → s.pgno = pgno → s.packet = y0 → 1 ≤ y0 → y0 + rows.length ≤ s.nPackets + 1 →
      s.nPackets ≤ 25 →
      Spec.AdmissibleAll (phase s) rows →
      (run (phase s) [] (rows.map (·.2)).flatten).ok = true →
      ∃ s' bl, feedAll s (Spec.rowsPkts pgno y0 rows) = .ok (s', bl) ∧ WF s' ∧ Inv s' ∧
        s'.packet = y0 + rows.length ∧ s'.ci = s.ci ∧ s'.nPackets = s.nPackets ∧ s'.pgno = s.pgno ∧
        s'.stream = s.stream ∧
        run (phase s) [] (rows.map (·.2)).flatten = ⟨phase s', bl.map toSpec, true⟩ := by
  induction rows with
  | nil =>
    intro y0 s hwf hinv _ hp _ _ _ _ _
    exact ⟨s, [], rfl, hwf, hinv, by simpa using hp, rfl, rfl, rfl, rfl, by simp [run_nil]⟩
  | cons row t ih =>
    intro y0 s hwf hinv hpgs hp hy1 hyn hn25 hadm hok
    obtain ⟨bp, pl⟩ := row
    simp only [Spec.AdmissibleAll] at hadm
    obtain ⟨hadm1, hadm2⟩ := hadm
    have hpl : pl.length = 39 := hadm1.1
    have hbp : bp < 16 := by have := hadm1.2.1; omega
    simp only [List.length_cons] at hyn
    simp only [List.map_cons, List.flatten_cons] at hok ⊢
    rw [run_append] at hok ⊢
    have hok1 : (run (phase s) [] pl).ok = true := by
      by_cases h : (run (phase s) [] pl).ok = true
      · exact h
      · rw [if_neg h] at hok; exact absurd hok h
    rw [if_pos hok1] at hok ⊢
    have hopen : s.nPackets ≠ 0 := by omega
    have hfeed := feed_row s pgno y0 bp pl hpg1 hpg2 hy1 (by omega) hpgs hopen hp.symm (by omega) hpl
    -- the decoder on the state with the advanced packet counter
    have hb := rowPkt_length pgno y0 bp pl hpl
    have hgd : unham8 ((Spec.rowPkt pgno y0 bp pl).getD 2 0) = some bp := by
      simp [Spec.rowPkt, Spec.addrBytes, unham8_ham8 bp hbp]
    have hdrop : (Spec.rowPkt pgno y0 bp pl).drop 3 = pl := by simp [Spec.rowPkt, Spec.addrBytes]
    have hwf1 : WF { s with packet := y0 + 1 } := hwf
    have hinv1 : Inv { s with packet := y0 + 1 } := hinv
    have hph1 : phase { s with packet := y0 + 1 } = phase s := rfl
    obtain ⟨o, ho, h1, h2, h3, h4, h5⟩ := decode_run _ hb { s with packet := y0 + 1 } hwf1 hinv1 bp hgd
      (by rw [hdrop, hph1]; exact hadm1) (by rw [hdrop, hph1]; exact hok1)
    rw [hdrop, hph1] at h5
    rw [h5] at hok hadm2 ⊢
    simp only at hok hadm2 ⊢
    rw [run_acc] at hok ⊢
    simp only at hok
    obtain ⟨e1, e2, e3, e4, e5⟩ := h4
    simp only at e1 e2 e3 e4 e5
    obtain ⟨s', bl, hd, g1, g2, g3, g4, g5, g6, g7, g8⟩ :=
      ih (y0 + 1) o.st h2 h3 (by rw [e4]; exact hpgs) e2 (by omega) (by rw [e3]; omega) (by rw [e3]; exact hn25) hadm2 hok
    refine ⟨s', o.blocks ++ bl, ?_, g1, g2, by rw [g3]; simp; omega, by rw [g4, e1], by rw [g5, e3],
      by rw [g6, e4], by rw [g7, e5], ?_⟩
    · rw [Spec.rowsPkts, feedAll_cons, hfeed, ho]
      simp only [hd]
    · rw [g8]; simp


theorem run_append_ok (xs ys : List Nat) (ph : Ph) (h : (run ph [] (xs ++ ys)).ok = true) :
    (run ph [] xs).ok = true ∧ (run (run ph [] xs).ph [] ys).ok = true ∧
    (run ph [] (xs ++ ys)).ph = (run (run ph [] xs).ph [] ys).ph ∧
    (run ph [] (xs ++ ys)).out = (run ph [] xs).out ++ (run (run ph [] xs).ph [] ys).out := by
  rw [run_append] at h ⊢
  by_cases h1 : (run ph [] xs).ok = true
  · rw [if_pos h1] at h ⊢
    have e := run_acc ys (run ph [] xs).ph (run ph [] xs).out
    rw [e] at h ⊢
    exact ⟨h1, h, rfl, rfl⟩
  · rw [if_neg h1] at h; exact absurd h h1

theorem admAll_append (a b : List (Nat × List Nat)) : ∀ ph, Spec.AdmissibleAll ph (a ++ b) →
    (run ph [] (a.map (·.2)).flatten).ok = true →
    Spec.AdmissibleAll ph a ∧ Spec.AdmissibleAll (run ph [] (a.map (·.2)).flatten).ph b := by
  induction a with
  | nil => intro ph h _; simpa [Spec.AdmissibleAll, run_nil] using h
  | cons row t ih =>
    intro ph h hok
    obtain ⟨bp, pl⟩ := row
    simp only [List.cons_append, Spec.AdmissibleAll] at h
    simp only [List.map_cons, List.flatten_cons] at hok ⊢
    obtain ⟨o1, o2, o3, _⟩ := run_append_ok pl _ ph hok
    obtain ⟨i1, i2⟩ := ih _ h.2 o2
    refine ⟨⟨h.1, i1⟩, ?_⟩
    rw [o3]; exact i2

theorem pageEnd_of_complete (s : St) (h : s.nPackets = 0 ∨ s.packet = s.nPackets + 1) : pageEnd s = s := by
  unfold pageEnd
  split
  · rename_i hc
    simp only [Bool.and_eq_true, decide_eq_true_eq] at hc
    omega
  · rfl

/-- **one page**: header, then its rows -/
theorem feed_page (pgno stream : Nat) (hpg1 : 0x100 ≤ pgno) (hpg2 : pgno < 0x900) (hst : stream < 16)
    (ci : Nat) (hci : ci < 16) (pg : Spec.Page) (hn : pg.rows.length ≤ 25)
    (s : St) (hwf : WF s) (hinv : Inv s) (hpgs : s.pgno = pgno) (hss : s.stream = stream)
    (hready : (s.ci = ci ∧ (s.nPackets = 0 ∨ s.packet = s.nPackets + 1)) ∨ (s.ci ≠ ci ∧ s.left = 0))
    (hadm : Spec.AdmissibleAll (phase s) pg.rows)
    (hok : (run (phase s) [] (pg.rows.map (·.2)).flatten).ok = true) :
    ∃ s' bl, feedAll s (Spec.pagePkts pgno stream ci pg) = .ok (s', bl) ∧ WF s' ∧ Inv s' ∧
      s'.ci = (ci + 1) &&& 15 ∧ s'.packet = s'.nPackets + 1 ∧ s'.pgno = pgno ∧ s'.stream = stream ∧
      run (phase s) [] (pg.rows.map (·.2)).flatten = ⟨phase s', bl.map toSpec, true⟩ := by
  have hfh := feed_header s pgno stream ci pg.rows.length pg.tail hpg1 hpg2 hst hci (by omega) hpgs hss
  -- the state the rows meet
  have key : ∃ s0 : St, (if ci ≠ s.ci then reset s else pageEnd s) = s0 ∧ WF s0 ∧ Inv s0 ∧ phase s0 = phase s ∧
      s0.pgno = pgno ∧ s0.stream = stream := by
    rcases hready with ⟨h1, h2⟩ | ⟨h1, h2⟩
    · have : ¬ (ci ≠ s.ci) := by simp [h1]
      rw [if_neg this, pageEnd_of_complete s h2]
      exact ⟨s, rfl, hwf, hinv, rfl, hpgs, hss⟩
    · have : ci ≠ s.ci := fun h => h1 h.symm
      rw [if_pos this]
      refine ⟨reset s, rfl, ?_, inv_reset s, ?_, hpgs, hss⟩
      · intro h; simp [reset] at h
      · rw [phase_idle s h2, phase_idle]; rfl
  obtain ⟨s0, hs0, hwf0, hinv0, hph0, hpg0, hst0⟩ := key
  rw [hs0] at hfh
  have hwf1 : WF { s0 with ci := (ci + 1) &&& 15, packet := 1, nPackets := pg.rows.length } := hwf0
  have hinv1 : Inv { s0 with ci := (ci + 1) &&& 15, packet := 1, nPackets := pg.rows.length } := hinv0
  have hph1 : phase { s0 with ci := (ci + 1) &&& 15, packet := 1, nPackets := pg.rows.length } = phase s := hph0
  obtain ⟨s', bl, h1, h2, h3, h4, h5, h6, h7, h8, h9⟩ :=
    feed_rows pgno hpg1 hpg2 pg.rows 1 _ hwf1 hinv1 hpg0 rfl (by omega) (by simp; omega) hn
      (by rw [hph1]; exact hadm) (by rw [hph1]; exact hok)
  rw [hph1] at h9
  refine ⟨s', bl, ?_, h2, h3, h5, by rw [h4, h6]; simp; omega, by rw [h7]; exact hpg0, by rw [h8]; exact hst0, h9⟩
  rw [Spec.pagePkts, feedAll_cons, hfh]
  simp only [h1, List.nil_append]


theorem and15_lt (x : Nat) : x &&& 15 < 16 := by
  have := Nat.and_two_pow_sub_one_eq_mod x 4
  simp at this; omega

/-- **consecutive pages**: blocks may span any number of pages -/
theorem feed_pages (pgno stream : Nat) (hpg1 : 0x100 ≤ pgno) (hpg2 : pgno < 0x900) (hst : stream < 16)
    (pages : List Spec.Page) (hn : ∀ pg ∈ pages, pg.rows.length ≤ 25) :
    ∀ ci s, ci < 16 → WF s → Inv s → s.pgno = pgno → s.stream = stream →
      ((s.ci = ci ∧ (s.nPackets = 0 ∨ s.packet = s.nPackets + 1)) ∨ (s.ci ≠ ci ∧ s.left = 0)) →
      Spec.AdmissibleAll (phase s) (Spec.allRows pages) →
      (run (phase s) [] ((Spec.allRows pages).map (·.2)).flatten).ok = true →
      ∃ s' bl, feedAll s (Spec.pagesPkts pgno stream ci pages) = .ok (s', bl) ∧ WF s' ∧ Inv s' ∧
        run (phase s) [] ((Spec.allRows pages).map (·.2)).flatten = ⟨phase s', bl.map toSpec, true⟩ := by
  induction pages with
  | nil =>
    intro ci s _ hwf hinv _ _ _ _ _
    exact ⟨s, [], rfl, hwf, hinv, by simp [Spec.allRows, run_nil]⟩
  | cons pg t ih =>
    intro ci s hci hwf hinv hpgs hss hready hadm hok
    have hall : Spec.allRows (pg :: t) = pg.rows ++ Spec.allRows t := by simp [Spec.allRows]
    rw [hall] at hadm hok ⊢
    rw [List.map_append, List.flatten_append] at hok ⊢
    obtain ⟨o1, o2, o3, o4⟩ := run_append_ok _ _ _ hok
    obtain ⟨a1, a2⟩ := admAll_append _ _ _ hadm o1
    obtain ⟨s1, bl1, f1, w1, i1, c1, p1, g1, t1, r1⟩ :=
      feed_page pgno stream hpg1 hpg2 hst ci hci pg (hn pg (by simp)) s hwf hinv hpgs hss hready a1 o1
    have hph : (run (phase s) [] (pg.rows.map (·.2)).flatten).ph = phase s1 := by rw [r1]
    rw [hph] at a2 o2 o3 o4
    obtain ⟨s', bl, f2, w2, i2, r2⟩ :=
      ih (fun x hx => hn x (by simp [hx])) ((ci + 1) &&& 15) s1 (and15_lt _) w1 i1 g1 t1 (Or.inl ⟨c1, Or.inr p1⟩) a2 o2
    refine ⟨s', bl1 ++ bl, ?_, w2, i2, ?_⟩
    · rw [Spec.pagesPkts, feedAll_append _ s _ s1 bl1 f1, f2]
    · have hokk : (run (phase s) [] ((pg.rows.map (·.2)).flatten ++ ((Spec.allRows t).map (·.2)).flatten)).ok = true := hok
      have e : run (phase s) [] ((pg.rows.map (·.2)).flatten ++ ((Spec.allRows t).map (·.2)).flatten) =
          ⟨(run (phase s) [] ((pg.rows.map (·.2)).flatten ++ ((Spec.allRows t).map (·.2)).flatten)).ph,
           (run (phase s) [] ((pg.rows.map (·.2)).flatten ++ ((Spec.allRows t).map (·.2)).flatten)).out,
           (run (phase s) [] ((pg.rows.map (·.2)).flatten ++ ((Spec.allRows t).map (·.2)).flatten)).ok⟩ := rfl
      rw [e, o3, o4, hokk, r2, r1]
      simp

/-- **blocks delivered as sent**: a fresh demultiplexer fed the pages of a transmission -/
theorem feed_delivers (pgno stream : Nat) (hpg1 : 0x100 ≤ pgno) (hpg2 : pgno < 0x900) (hst : stream < 16)
    (items : List (Spec.Blk × Nat)) (hitems : ∀ it ∈ items, it.1.Ok) (lead : Nat)
    (ci : Nat) (hci : ci < 16) (pages : List Spec.Page) (hn : ∀ pg ∈ pages, pg.rows.length ≤ 25)
    (hstream : ((Spec.allRows pages).map (·.2)).flatten = Spec.flat lead items)
    (hadm : Spec.AdmissibleAll .idle (Spec.allRows pages)) :
    ∃ s' bl, feedAll (new pgno stream) (Spec.pagesPkts pgno stream ci pages) = .ok (s', bl) ∧
      bl.map toSpec = Spec.delivered items := by
  have hph : phase (new pgno stream) = .idle := phase_idle _ rfl
  have hR : run .idle [] (Spec.flat lead items) = ⟨.idle, Spec.delivered items, true⟩ := by
    have := run_flat items hitems lead [] []
    simpa [run_nil] using this
  have hready : ((new pgno stream).ci = ci ∧ ((new pgno stream).nPackets = 0 ∨ (new pgno stream).packet = (new pgno stream).nPackets + 1)) ∨
      ((new pgno stream).ci ≠ ci ∧ (new pgno stream).left = 0) := by
    right
    refine ⟨?_, rfl⟩
    show (256 : Nat) ≠ ci
    omega
  obtain ⟨s', bl, h1, _, _, h4⟩ := feed_pages pgno stream hpg1 hpg2 hst pages hn ci (new pgno stream) hci
    (by intro h; simp [new, reset] at h) (inv_new _ _) rfl rfl hready (by rw [hph]; exact hadm)
    (by rw [hph, hstream, hR])
  rw [hph, hstream, hR] at h4
  exact ⟨s', bl, h1, (congrArg Spec.Res.out h4).symm⟩


end Zvbi.Pfc
