import ZvbiModel.Pfc.Lemmas2
/-!
# Lemmas for the PFC demultiplexer (C15), part 3: whole packets, packet sequences, and the
grammar reading a transmitted block sequence back (parse ∘ print)
-/
namespace Zvbi.Pfc
open Zvbi.Hamm Zvbi.Gen
open Spec (Ph Res run shDecode)


theorem getD_eq_getElem (l : List Nat) (i : Nat) (h : i < l.length) : l.getD i 0 = l[i] := by
  simp [List.getD, List.getElem?_eq_getElem h]

/-- **one packet**: with a usable block pointer (`Spec.Admissible`), `_vbi_pfc_demux_decode`
    does to the 39 payload bytes what the grammar does -/
theorem decode_run (buf : List Nat) (hbuf : buf.length = 42) (s : St) (hwf : WF s) (hinv : Inv s)
    (n : Nat) (hn : unham8 (buf.getD 2 0) = some n)
    (hadm : Spec.Admissible (phase s) n (buf.drop 3))
    (hok : (run (phase s) [] (buf.drop 3)).ok = true) :
    ∃ o, decode s buf = .ok o ∧ LoopRun s (run (phase s) [] (buf.drop 3)) o := by
  obtain ⟨hplen, hn13, hidle⟩ := hadm
  unfold decode
  rw [rdE_ok buf 2 _ (by omega)]
  dsimp only
  rw [getD_eq_getElem buf 2 (by omega)] at hn
  rw [hn]
  dsimp only
  have hbp : ¬ n * 3 > 39 := by omega
  rw [if_neg hbp]
  by_cases hl : s.left > 0
  · exact loop_run buf hbuf (n * 3) 42 s 3 [] hwf hinv (Or.inr hl) (by omega) (by omega) (by omega) hok
  · have hl0 : s.left = 0 := by omega
    have hph := phase_idle s hl0
    rw [hph] at hok ⊢
    have hcons : consume buf s 3 [] = .ok (.fall s 3 []) := by unfold consume; rw [if_neg hl]
    rw [show (42 : Nat) = 41 + 1 from rfl, loop_succ, if_neg (by omega), hcons]
    dsimp only
    unfold afterConsume findSep
    rw [if_pos (by omega)]
    rcases hidle hph with ⟨h13, hfill⟩ | ⟨hlt, hfill, hsep⟩
    · -- no block start announced: the packet holds fillers only
      subst h13
      rw [if_pos (by omega)]
      refine ⟨_, rfl, rfl, hwf, hinv, Same.refl _, ?_⟩
      have := run_idle_fillers [] [] (buf.drop 3) hfill
      rw [List.append_nil] at this
      rw [this, run_nil, hph]; rfl
    · rw [if_neg (by omega)]
      have hidx : n * 3 + 4 - 1 < buf.length := by omega
      rw [rdE_ok buf _ _ hidx]
      dsimp only
      -- the announced separator
      have hsepb : unham8 buf[n * 3 + 4 - 1] = some 0xC := by
        have h1 : (buf.drop 3)[3 * n]? = some buf[n * 3 + 4 - 1] := by
          rw [List.getElem?_drop]
          have : 3 + 3 * n = n * 3 + 4 - 1 := by omega
          rw [this, List.getElem?_eq_getElem hidx]
        rw [h1] at hsep
        simpa using hsep
      have hne : ¬ (unham8 buf[n * 3 + 4 - 1] ≠ some pfcBlockSeparator) := by
        rw [hsepb]; simp [pfcBlockSeparator]
      rw [if_neg hne]
      -- the grammar skips the fillers and takes the separator
      have hsplit : buf.drop 3 = (buf.drop 3).take (3 * n) ++ (buf[n * 3 + 4 - 1] :: buf.drop (n * 3 + 4)) := by
        have h2 : (buf.drop 3).drop (3 * n) = buf[n * 3 + 4 - 1] :: buf.drop (n * 3 + 4) := by
          rw [List.drop_drop]
          have h3 : 3 + 3 * n = n * 3 + 4 - 1 := by omega
          rw [h3, List.drop_eq_getElem_cons hidx]
          have h4 : n * 3 + 4 - 1 + 1 = n * 3 + 4 := by omega
          rw [h4]
        rw [← h2, List.take_append_drop]
      have hR : run .idle [] (buf.drop 3) = run (.hdr []) [] (buf.drop (n * 3 + 4)) := by
        rw [hsplit, run_idle_fillers [] _ _ hfill, run_idle_cons, hsepb]
        simp
      rw [hR] at hok ⊢
      have hph2 : phase { s with blk := [], left := 4, appId := none } = .hdr [] := by
        apply phase_hdr <;> simp
      have := loop_run buf hbuf (n * 3) 41 { s with blk := [], left := 4, appId := none } (n * 3 + 4) []
        (by intro _; simp) (by simp [Inv]) (Or.inl (by omega)) (by omega) (by omega) (by omega)
        (by rw [hph2]; exact hok)
      obtain ⟨o, ho, h1, h2, h3, h4, h5⟩ := this
      refine ⟨o, ho, h1, h2, h3, Same.trans ⟨rfl, rfl, rfl, rfl, rfl⟩ h4, ?_⟩
      rw [← hph2]; exact h5



theorem run_append (ys : List Nat) : ∀ (xs : List Nat) ph acc,
    run ph acc (xs ++ ys) = if (run ph acc xs).ok then run (run ph acc xs).ph (run ph acc xs).out ys else run ph acc xs := by
  intro xs
  induction xs with
  | nil => intro ph acc; rw [run_nil]; rfl
  | cons b t ih =>
    intro ph acc
    rw [List.cons_append]
    cases ph with
    | idle =>
      rw [run_idle_cons, run_idle_cons]
      split
      · exact ih _ _
      · split
        · exact ih _ _
        · rfl
    | hdr g =>
      rw [run_hdr_cons, run_hdr_cons]
      split
      · exact ih _ _
      · cases shDecode (g ++ [b]) with
        | none => rfl
        | some sh =>
          simp only [hdrDone]
          split
          · exact ih _ _
          · exact ih _ _
    | data a n g =>
      rw [run_data_cons, run_data_cons]
      split
      · exact ih _ _
      · exact ih _ _

theorem or_shl4_eq_add (x y : Nat) (hx : x < 16) : x ||| (y <<< 4) = x + y * 16 := by
  have := Nat.shiftLeft_add_eq_or_of_lt (a := y) (b := x) (i := 4) (by omega)
  rw [Nat.or_comm, ← this, Nat.shiftLeft_eq]; omega

theorem and15 (x : Nat) : x &&& 15 = x % 16 := Nat.and_two_pow_sub_one_eq_mod x 4

theorem shDecode_hdrBytes (app size : Nat) (ha : app < 32) (hs : size ≤ 2047) :
    shDecode (Spec.hdrBytes app size) = some (app + size * 32) := by
  have hsh : Spec.shOf app size = app + size * 32 := by
    unfold Spec.shOf
    have h1 : app &&& 0x1F = app := by
      have := Nat.and_two_pow_sub_one_eq_mod app 5
      simp at this; omega
    have := Nat.shiftLeft_add_eq_or_of_lt (a := size) (b := app) (i := 5) (by omega)
    rw [h1, Nat.or_comm, ← this, Nat.shiftLeft_eq]; omega
  unfold Spec.hdrBytes shDecode
  simp only [hsh]
  have hlt : app + size * 32 < 65536 := by omega
  generalize app + size * 32 = sh at *
  simp only [and15, Nat.shiftRight_eq_div_pow]
  rw [unham8_ham8 _ (by omega), unham8_ham8 _ (by omega), unham8_ham8 _ (by omega), unham8_ham8 _ (by omega)]
  simp only [Option.some.injEq]
  rw [or_shl4_eq_add _ _ (by omega), or_shl4_eq_add _ _ (by omega), or_shl8_eq_add _ _ (by omega)]
  omega


theorem unham8_sep : unham8 Spec.sepByte = some 0xC := by decide
theorem unham8_fill : unham8 Spec.fillByte = some 0x3 := by decide

theorem hdrBytes_length (app size : Nat) : (Spec.hdrBytes app size).length = 4 := rfl

/-- the grammar reads one transmitted block back (empty blocks are not reported) -/
theorem run_block (b : Spec.Blk) (hb : b.Ok) (acc : List (Nat × List Nat)) (r : List Nat) :
    run .idle acc (Spec.blockBytes b ++ r) =
      run .idle (acc ++ (if b.data = [] then [] else [(b.app, b.data)])) r := by
  obtain ⟨ha, hs⟩ := hb
  unfold Spec.blockBytes
  rw [List.cons_append, run_idle_cons, unham8_sep]
  simp only [show ¬ ((some 0xC : Option Nat) = some 0x3) by decide, if_false, if_true]
  rw [List.append_assoc]
  have := run_hdr_full acc (b.data ++ r) (Spec.hdrBytes b.app b.data.length) [] (by simp [Spec.hdrBytes]) (by simp [hdrBytes_length])
  rw [this, List.nil_append, shDecode_hdrBytes _ _ ha hs]
  have h5 : (b.app + b.data.length * 32) >>> 5 = b.data.length := by
    rw [Nat.shiftRight_eq_div_pow]; omega
  have h1f : (b.app + b.data.length * 32) &&& 0x1F = b.app := by
    have := Nat.and_two_pow_sub_one_eq_mod (b.app + b.data.length * 32) 5
    simp at this; omega
  simp only [hdrDone, h5, h1f]
  by_cases hd : b.data = []
  · simp [hd]
  · have hlen : b.data.length ≠ 0 := by
      intro h; exact hd (List.length_eq_zero_iff.mp h)
    rw [if_neg hlen, if_neg hd]
    have := run_data_full b.app b.data.length acc r b.data [] hd (by simp)
    rw [this, List.nil_append]

theorem run_fills (acc : List (Nat × List Nat)) (n : Nat) (r : List Nat) :
    run .idle acc (List.replicate n Spec.fillByte ++ r) = run .idle acc r :=
  run_idle_fillers acc r _ (fun b hb => by rw [List.eq_of_mem_replicate hb]; exact unham8_fill)

/-- **parse ∘ print**: the grammar reads a transmitted block sequence back, whatever the fillers -/
theorem run_flat (items : List (Spec.Blk × Nat)) (hok : ∀ it ∈ items, it.1.Ok) (lead : Nat) (r : List Nat) :
    ∀ acc, run .idle acc (Spec.flat lead items ++ r) = run .idle (acc ++ Spec.delivered items) r := by
  unfold Spec.flat
  intro acc
  rw [List.append_assoc, run_fills]
  clear lead
  induction items generalizing acc with
  | nil => simp [Spec.delivered]
  | cons it t ih =>
    have h1 := hok it (by simp)
    rw [List.flatMap_cons, List.append_assoc, List.append_assoc, run_block _ h1, run_fills,
      ih (fun x hx => hok x (by simp [hx]))]
    congr 1
    simp only [Spec.delivered, List.filterMap_cons]
    split <;> simp_all

/-- reading packet after packet is reading the concatenation -/
theorem runRows_eq (rows : List (List Nat)) : ∀ ph acc,
    Spec.runRows ph acc rows = run ph acc rows.flatten := by
  induction rows with
  | nil => intro ph acc; rw [List.flatten_nil, run_nil]; rfl
  | cons pl t ih =>
    intro ph acc
    rw [List.flatten_cons, run_append, Spec.runRows]
    split
    · exact ih _ _
    · rfl


/-- the accumulator of `run` is only a prefix of its output -/
theorem run_acc : ∀ (xs : List Nat) ph acc,
    run ph acc xs = ⟨(run ph [] xs).ph, acc ++ (run ph [] xs).out, (run ph [] xs).ok⟩ := by
  intro xs
  induction xs with
  | nil => intro ph acc; simp [run_nil]
  | cons b t ih =>
    intro ph acc
    cases ph with
    | idle =>
      rw [run_idle_cons, run_idle_cons]
      split
      · exact ih _ _
      · split
        · exact ih _ _
        · simp
    | hdr g =>
      rw [run_hdr_cons, run_hdr_cons]
      split
      · exact ih _ _
      · cases shDecode (g ++ [b]) with
        | none => simp [hdrDone]
        | some sh =>
          simp only [hdrDone]
          split
          · exact ih _ _
          · exact ih _ _
    | data a n g =>
      rw [run_data_cons, run_data_cons]
      split
      · exact ih _ _
      · rw [ih _ (acc ++ [(a, g ++ [b])]), ih _ ([] ++ [(a, g ++ [b])])]
        simp

/-- `_vbi_pfc_demux_decode` on consecutive packets -/
def decodeAll (s : St) : List (List Nat) → Except Err (St × List Block)
  | [] => .ok (s, [])
  | b :: r =>
    match decode s b with
    | .error e => .error e
    | .ok o =>
      match decodeAll o.st r with
      | .error e => .error e
      | .ok (s', bl) => .ok (s', o.blocks ++ bl)

/-- **consecutive packets**: blocks may span any number of packets -/
theorem decode_rows (bufs : List (List Nat)) : ∀ s, WF s → Inv s → (∀ b ∈ bufs, b.length = 42) →
    Spec.AdmissibleAll (phase s) (bufs.map Spec.bpAndPayload) →
    (run (phase s) [] (bufs.map (fun b => b.drop 3)).flatten).ok = true →
    ∃ s' bl, decodeAll s bufs = .ok (s', bl) ∧ WF s' ∧ Inv s' ∧ Same s s' ∧
      run (phase s) [] (bufs.map (fun b => b.drop 3)).flatten = ⟨phase s', bl.map toSpec, true⟩ := by
  induction bufs with
  | nil =>
    intro s hwf hinv _ _ _
    exact ⟨s, [], rfl, hwf, hinv, Same.refl _, by simp [run_nil]⟩
  | cons b t ih =>
    intro s hwf hinv hlen hadm hok
    have hb : b.length = 42 := hlen b (by simp)
    simp only [List.map_cons, Spec.AdmissibleAll, Spec.bpAndPayload] at hadm
    obtain ⟨hadm1, hadm2⟩ := hadm
    simp only [List.map_cons, List.flatten_cons] at hok ⊢
    rw [run_append] at hok ⊢
    have hok1 : (run (phase s) [] (b.drop 3)).ok = true := by
      by_cases h : (run (phase s) [] (b.drop 3)).ok = true
      · exact h
      · rw [if_neg h] at hok; exact absurd hok h
    rw [if_pos hok1] at hok ⊢
    -- the block pointer nibble decodes (it is <= 13)
    have hn : ∃ n, unham8 (b.getD 2 0) = some n := by
      cases h : unham8 (b.getD 2 0) with
      | none => rw [h] at hadm1; have := hadm1.2.1; simp at this
      | some n => exact ⟨n, rfl⟩
    obtain ⟨n, hn⟩ := hn
    rw [hn] at hadm1
    simp only [Option.getD_some] at hadm1
    obtain ⟨o, ho, h1, h2, h3, h4, h5⟩ := decode_run b hb s hwf hinv n hn hadm1 hok1
    rw [h5] at hok hadm2 ⊢
    simp only at hok hadm2 ⊢
    rw [run_acc] at hok ⊢
    simp only at hok
    obtain ⟨s', bl, hd, g1, g2, g3, g4⟩ := ih o.st h2 h3 (fun x hx => hlen x (by simp [hx])) hadm2 hok
    refine ⟨s', o.blocks ++ bl, ?_, g1, g2, Same.trans h4 g3, ?_⟩
    · simp only [decodeAll, ho, hd]
    · rw [g4]; simp


end Zvbi.Pfc
