import ZvbiModel.Pfc.Lemmas
/-!
# Lemmas for the PFC demultiplexer (C15), part 2: the C loop refines the stream grammar

`Spec.run` is the byte-level acceptor of the PFC stream grammar.  `loop_run`: from any column of a
packet beyond the block pointer logic, if the grammar accepts the remaining bytes, the `while`
loop of `_vbi_pfc_demux_decode` (with its `memcpy` chunks, the structure header parse, the filler
scan) ends in the state that stands for the grammar's phase and has called back exactly the
grammar's completed blocks.
-/
namespace Zvbi.Pfc
open Zvbi.Hamm Zvbi.Gen
open Spec (Ph Res run shDecode)


theorem run_nil (ph : Ph) (acc) : run ph acc [] = ⟨ph, acc, true⟩ := by
  cases ph <;> rfl

theorem run_idle_cons (acc) (b : Nat) (r : List Nat) : run .idle acc (b :: r) =
    if unham8 b = some 0x3 then run .idle acc r
    else if unham8 b = some 0xC then run (.hdr []) acc r
    else ⟨.idle, acc, false⟩ := by rw [run]

/-- what the grammar does once the four structure header bytes are in -/
def hdrDone (acc : List (Nat × List Nat)) (r : List Nat) : Option Nat → Res
  | none => ⟨.idle, acc, false⟩
  | some sh =>
    if sh >>> 5 = 0 then run .idle acc r
    else run (.data (sh &&& 0x1F) (sh >>> 5) []) acc r

theorem run_hdr_cons (g acc) (b : Nat) (r : List Nat) : run (.hdr g) acc (b :: r) =
    if g.length + 1 < 4 then run (.hdr (g ++ [b])) acc r
    else hdrDone acc r (shDecode (g ++ [b])) := by
  rw [run]
  split
  · rfl
  · cases shDecode (g ++ [b]) <;> rfl

theorem run_data_cons (a n g acc) (b : Nat) (r : List Nat) : run (.data a n g) acc (b :: r) =
    if g.length + 1 < n then run (.data a n (g ++ [b])) acc r
    else run .idle (acc ++ [(a, g ++ [b])]) r := by rw [run]

/-- header bytes arriving in one piece, header still incomplete -/
theorem run_hdr_part (acc) (r : List Nat) : ∀ (xs g : List Nat), g.length + xs.length < 4 →
    run (.hdr g) acc (xs ++ r) = run (.hdr (g ++ xs)) acc r := by
  intro xs
  induction xs with
  | nil => intro g _; simp
  | cons b t ih =>
    intro g h
    simp only [List.length_cons] at h
    rw [List.cons_append, run_hdr_cons, if_pos (by omega), ih (g ++ [b]) (by simp; omega)]
    simp

/-- header bytes arriving in one piece, completing the header -/
theorem run_hdr_full (acc) (r : List Nat) : ∀ (xs g : List Nat), xs ≠ [] → g.length + xs.length = 4 →
    run (.hdr g) acc (xs ++ r) = hdrDone acc r (shDecode (g ++ xs)) := by
  intro xs
  induction xs with
  | nil => intro g h; exact absurd rfl h
  | cons b t ih =>
    intro g _ h
    simp only [List.length_cons] at h
    cases t with
    | nil =>
      simp only [List.length_nil] at h
      rw [List.cons_append, List.nil_append, run_hdr_cons, if_neg (by omega)]
    | cons b' t' =>
      simp only [List.length_cons] at h
      rw [List.cons_append, run_hdr_cons, if_pos (by omega), ih (g ++ [b]) (by simp) (by simp; omega)]
      simp

theorem run_data_part (a n acc) (r : List Nat) : ∀ (xs g : List Nat), g.length + xs.length < n →
    run (.data a n g) acc (xs ++ r) = run (.data a n (g ++ xs)) acc r := by
  intro xs
  induction xs with
  | nil => intro g _; simp
  | cons b t ih =>
    intro g h
    simp only [List.length_cons] at h
    rw [List.cons_append, run_data_cons, if_pos (by omega), ih (g ++ [b]) (by simp; omega)]
    simp

theorem run_data_full (a n acc) (r : List Nat) : ∀ (xs g : List Nat), xs ≠ [] → g.length + xs.length = n →
    run (.data a n g) acc (xs ++ r) = run .idle (acc ++ [(a, g ++ xs)]) r := by
  intro xs
  induction xs with
  | nil => intro g h; exact absurd rfl h
  | cons b t ih =>
    intro g _ h
    simp only [List.length_cons] at h
    cases t with
    | nil =>
      simp only [List.length_nil] at h
      rw [List.cons_append, List.nil_append, run_data_cons, if_neg (by omega)]
    | cons b' t' =>
      simp only [List.length_cons] at h
      rw [List.cons_append, run_data_cons, if_pos (by omega), ih (g ++ [b]) (by simp) (by simp; omega)]
      simp

theorem run_idle_fillers (acc) (r : List Nat) : ∀ fs : List Nat, (∀ b ∈ fs, unham8 b = some 0x3) →
    run .idle acc (fs ++ r) = run .idle acc r := by
  intro fs
  induction fs with
  | nil => intro _; rfl
  | cons b t ih =>
    intro h
    rw [List.cons_append, run_idle_cons, if_pos (h b (by simp)), ih (fun x hx => h x (by simp [hx]))]


/-! ## the C loop refines the grammar -/

/-- phase of the grammar a demultiplexer state stands for -/
def phase (s : St) : Ph :=
  if s.left = 0 then .idle
  else match s.appId with
    | none => .hdr s.blk
    | some a => .data a s.blockSize s.blk

/-- `bi + left` is 4 while a structure header is read, `block_size` while data is read -/
def WF (s : St) : Prop :=
  s.left > 0 → (match s.appId with
    | none => s.blk.length + s.left = 4
    | some _ => s.blk.length + s.left = s.blockSize)

def toSpec (b : Block) : Nat × List Nat := (b.app, b.bytes)

/-- the page bookkeeping is untouched -/
def Same (s s' : St) : Prop :=
  s'.ci = s.ci ∧ s'.packet = s.packet ∧ s'.nPackets = s.nPackets ∧ s'.pgno = s.pgno ∧ s'.stream = s.stream

theorem Same.refl (s : St) : Same s s := ⟨rfl, rfl, rfl, rfl, rfl⟩
theorem Same.trans {a b c : St} (h1 : Same a b) (h2 : Same b c) : Same a c := by
  obtain ⟨x1, x2, x3, x4, x5⟩ := h1
  obtain ⟨y1, y2, y3, y4, y5⟩ := h2
  exact ⟨y1.trans x1, y2.trans x2, y3.trans x3, y4.trans x4, y5.trans x5⟩

theorem or_shl8_eq_add (x y : Nat) (hx : x < 256) : x ||| (y <<< 8) = x + y * 256 := by
  have := Nat.shiftLeft_add_eq_or_of_lt (a := y) (b := x) (i := 8) (by omega)
  rw [Nat.or_comm, ← this, Nat.shiftLeft_eq]; omega

/-- a structure header the grammar accepts is read the same way by the C code -/
theorem pair16_of_shDecode (a b c d sh : Nat) (h : shDecode [a, b, c, d] = some sh) :
    pair16 (unham16pI a b) (unham16pI c d) = some sh := by
  unfold shDecode at h
  cases ha : unham8 a with
  | none => simp [ha] at h
  | some na =>
    cases hb : unham8 b with
    | none => simp [ha, hb] at h
    | some nb =>
      cases hc : unham8 c with
      | none => simp [ha, hb, hc] at h
      | some nc =>
        cases hd : unham8 d with
        | none => simp [ha, hb, hc, hd] at h
        | some nd =>
          simp only [ha, hb, hc, hd, Option.some.injEq] at h
          have h1 := nib_pair_lt na (unham8_lt16 _ _ ha) nb (unham8_lt16 _ _ hb)
          have h2 := nib_pair_lt nc (unham8_lt16 _ _ hc) nd (unham8_lt16 _ _ hd)
          rw [or_shl8_eq_add _ _ h1] at h
          unfold pair16 unham16pI
          simp only [ha, hb, hc, hd]
          have hlo : ¬ (((na ||| nb <<< 4 : Nat) : Int) < 0) := by omega
          have hhi : ¬ (((nc ||| nd <<< 4 : Nat) : Int) < 0) := by omega
          have hsum : ¬ (((na ||| nb <<< 4 : Nat) : Int) + ((nc ||| nd <<< 4 : Nat) : Int) * 256 < 0) := by omega
          simp only [hlo, hhi, hsum, decide_false, Bool.or_false, Bool.and_false, if_false, Bool.false_eq_true]
          congr 1


theorem phase_idle (s : St) (h : s.left = 0) : phase s = .idle := by simp [phase, h]
theorem phase_hdr (s : St) (h : s.left > 0) (ha : s.appId = none) : phase s = .hdr s.blk := by
  have : s.left ≠ 0 := by omega
  simp [phase, this, ha]
theorem phase_data (s : St) (h : s.left > 0) (a : Nat) (ha : s.appId = some a) :
    phase s = .data a s.blockSize s.blk := by
  have : s.left ≠ 0 := by omega
  simp [phase, this, ha]

/-- `consume`'s result in terms of the grammar result `R` for the rest of the packet -/
def ConsumeRun (buf : List Nat) (acc : List Block) (s : St) (col : Nat) (R : Res) : Consumed → Prop
  | .ret o => o.ret = true ∧ o.blocks = acc ∧ WF o.st ∧ Inv o.st ∧ Same s o.st ∧
      R = ⟨phase o.st, acc.map toSpec, true⟩
  | .cont s' col' => col < col' ∧ col' ≤ 42 ∧ WF s' ∧ Inv s' ∧ Same s s' ∧
      run (phase s') (acc.map toSpec) (buf.drop col') = R
  | .fall s' col' acc' => col < col' ∧ col' ≤ 42 ∧ s'.left = 0 ∧ Inv s' ∧ Same s s' ∧
      run .idle (acc'.map toSpec) (buf.drop col') = R

theorem list4 (l : List Nat) (h : l.length = 4) : l = [l.getD 0 0, l.getD 1 0, l.getD 2 0, l.getD 3 0] := by
  match l, h with
  | [a, b, c, d], _ => rfl

theorem consume_run (buf : List Nat) (hbuf : buf.length = 42) (s : St) (col : Nat) (acc : List Block)
    (hwf : WF s) (hinv : Inv s) (hl : s.left > 0) (hcol : col < 42)
    (hok : (run (phase s) (acc.map toSpec) (buf.drop col)).ok = true) :
    ∃ c, consume buf s col acc = .ok c ∧
      ConsumeRun buf acc s col (run (phase s) (acc.map toSpec) (buf.drop col)) c := by
  unfold consume
  simp only [hl, if_true]
  have hsz : min s.left (42 - col) ≤ s.left := Nat.min_le_left _ _
  have hsz2 : min s.left (42 - col) ≤ 42 - col := Nat.min_le_right _ _
  have hsz3 : 0 < min s.left (42 - col) := by omega
  have h1 : ¬ (s.blk.length + min s.left (42 - col) > pfcBlockExtent) := by
    unfold Inv at hinv; simp only [pfcBlockExtent]; omega
  have h2 : ¬ (col + min s.left (42 - col) > buf.length) := by omega
  simp only [h1, h2, if_false]
  generalize hsize : min s.left (42 - col) = size at *
  have hsplit : buf.drop col = (buf.drop col).take size ++ buf.drop (col + size) := by
    rw [← List.drop_drop, List.take_append_drop]
  have hxl : ((buf.drop col).take size).length = size := by
    rw [List.length_take, List.length_drop]; omega
  have hxne : (buf.drop col).take size ≠ [] := by
    intro h; rw [h] at hxl; simp at hxl; omega
  generalize hxs : (buf.drop col).take size = xs at *
  rw [hsplit] at hok ⊢
  have hwf' := hwf hl
  by_cases hl2 : s.left - size > 0
  · -- the packet ends inside the header / the block
    simp only [hl2, if_true]
    have hsz4 : size = 42 - col := by omega
    have hrest : buf.drop (col + size) = [] := by
      apply List.drop_eq_nil_of_le; omega
    rw [hrest, List.append_nil]
    refine ⟨_, rfl, rfl, rfl, ?_, ?_, ⟨rfl, rfl, rfl, rfl, rfl⟩, ?_⟩
    · intro _
      cases ha : s.appId with
      | none => simp only [ha] at hwf' ⊢; simp only [List.length_append, hxl]; omega
      | some a => simp only [ha] at hwf' ⊢; simp only [List.length_append, hxl]; omega
    · unfold Inv at hinv ⊢; simp only [List.length_append, hxl]; omega
    · cases ha : s.appId with
      | none =>
        simp only [ha] at hwf'
        rw [phase_hdr s hl ha]
        have := run_hdr_part (acc.map toSpec) [] xs s.blk (by omega)
        rw [List.append_nil] at this
        rw [this, run_nil]; congr 1; symm; apply phase_hdr
        · exact hl2
        · rfl
      | some a =>
        simp only [ha] at hwf'
        rw [phase_data s hl a ha]
        have := run_data_part a s.blockSize (acc.map toSpec) [] xs s.blk (by omega)
        rw [List.append_nil] at this
        rw [this, run_nil]; congr 1; symm; apply phase_data
        · exact hl2
        · rfl
  · -- the header / the block is complete
    simp only [hl2, if_false]
    have hsz4 : size = s.left := by omega
    cases ha : s.appId with
    | none =>
      simp only [ha] at hwf'
      rw [phase_hdr s hl ha] at hok ⊢
      have hfull := run_hdr_full (acc.map toSpec) (buf.drop (col + size)) xs s.blk hxne (by omega)
      rw [hfull] at hok ⊢
      cases hsd : shDecode (s.blk ++ xs) with
      | none => rw [hsd] at hok; simp [hdrDone] at hok
      | some sh =>
        have h4 : (s.blk ++ xs).length = 4 := by simp only [List.length_append, hxl]; omega
        have hp : pair16 (unham16pI ((s.blk ++ xs).getD 0 0) ((s.blk ++ xs).getD 1 0))
            (unham16pI ((s.blk ++ xs).getD 2 0) ((s.blk ++ xs).getD 3 0)) = some sh := by
          apply pair16_of_shDecode
          rw [← list4 _ h4]; exact hsd
        simp only [hp]
        have hshle := pair16_le _ _ (unham16pI_le _ _) (unham16pI_le _ _) sh hp
        have hsz5 : sh >>> 5 ≤ 2047 := by rw [Nat.shiftRight_eq_div_pow]; omega
        refine ⟨_, rfl, by omega, by omega, ?_, ?_, ⟨rfl, rfl, rfl, rfl, rfl⟩, ?_⟩
        · intro _; simp
        · simp only [Inv, List.length_nil]; omega
        · simp only [hdrDone]
          by_cases hz : sh >>> 5 = 0
          · rw [if_pos hz, phase_idle _ (by simpa using hz)]
          · rw [if_neg hz, phase_data _ (by simp; omega) (sh &&& 0x1F) rfl]
    | some a =>
      simp only [ha] at hwf'
      rw [phase_data s hl a ha] at hok ⊢
      have hfull := run_data_full a s.blockSize (acc.map toSpec) (buf.drop (col + size)) xs s.blk hxne (by omega)
      rw [hfull]
      refine ⟨_, rfl, by omega, by omega, by simp; omega, ?_, ⟨rfl, rfl, rfl, rfl, rfl⟩, ?_⟩
      · unfold Inv at hinv ⊢; simp only [List.length_append, hxl]; omega
      · simp [toSpec]


/-- what the grammar does after the filler scan stopped -/
def sepDone (A : List (Nat × List Nat)) (buf : List Nat) : Option (Option Nat × Nat) → Res
  | none => ⟨.idle, A, true⟩
  | some (bs, c) => if bs = some 0xC then run (.hdr []) A (buf.drop c) else ⟨.idle, A, false⟩

theorem skipFill_run (buf : List Nat) (hbuf : buf.length = 42) (A : List (Nat × List Nat)) :
    ∀ fuel col, col < 42 → 42 - col ≤ fuel →
      ∃ r, skipFill buf fuel col = .ok r ∧ SepOk col r ∧ run .idle A (buf.drop col) = sepDone A buf r := by
  intro fuel
  induction fuel with
  | zero => intro col h1 h2; omega
  | succ f ih =>
    intro col h1 h2
    unfold skipFill
    rw [rdE_ok buf col _ (by omega)]
    dsimp only
    have hd : buf.drop col = buf[col] :: buf.drop (col + 1) := List.drop_eq_getElem_cons (by omega)
    rw [hd, run_idle_cons]
    by_cases hf : unham8 buf[col] = some pfcFillerByte
    · have hf' : unham8 buf[col] = some 0x3 := hf
      rw [if_pos hf, if_pos hf']
      by_cases h42 : col + 1 ≥ 42
      · rw [if_pos h42]
        refine ⟨none, rfl, trivial, ?_⟩
        rw [List.drop_eq_nil_of_le (by omega), run_nil]; rfl
      · rw [if_neg h42]
        obtain ⟨r, hr, hok, heq⟩ := ih (col + 1) (by omega) (by omega)
        refine ⟨r, hr, ?_, heq⟩
        cases r with
        | none => trivial
        | some x => obtain ⟨bs, c⟩ := x; simp only [SepOk] at hok ⊢; omega
    · have hf' : ¬ unham8 buf[col] = some 0x3 := hf
      rw [if_neg hf, if_neg hf']
      exact ⟨_, rfl, by simp only [SepOk]; omega, rfl⟩

/-- the rest of the loop body after the `if (dx->left > 0)` statement -/
def afterConsume (buf : List Nat) (bp fuel : Nat) (s : St) (col : Nat) (acc : List Block) : Except Err Out :=
  match findSep buf bp col with
  | .error e => .error e
  | .ok none => .ok ⟨s, true, acc⟩
  | .ok (some (bs, col)) =>
    if bs ≠ some pfcBlockSeparator then .ok (desync s acc)
    else loop buf bp fuel { s with blk := [], left := 4, appId := none } col acc

theorem loop_succ (buf : List Nat) (bp fuel : Nat) (s : St) (col : Nat) (acc : List Block) :
    loop buf bp (fuel + 1) s col acc =
      if col ≥ 42 then .ok ⟨s, true, acc⟩ else
      match consume buf s col acc with
      | .error e => .error e
      | .ok (.ret o) => .ok o
      | .ok (.cont s col) => loop buf bp fuel s col acc
      | .ok (.fall s col acc) => afterConsume buf bp fuel s col acc := by
  rw [loop]
  split
  · rfl
  · cases consume buf s col acc with
    | error e => rfl
    | ok c => cases c <;> rfl

/-- what `loop_run` promises -/
def LoopRun (s : St) (R : Res) (o : Out) : Prop :=
  o.ret = true ∧ WF o.st ∧ Inv o.st ∧ Same s o.st ∧ R = ⟨phase o.st, o.blocks.map toSpec, true⟩

/-- **the C loop refines the grammar**: from a column inside the packet (beyond the block
    pointer logic), if the grammar accepts the rest of the packet then the loop ends in the state
    standing for the grammar's phase, having called back exactly the grammar's blocks -/
theorem loop_run (buf : List Nat) (hbuf : buf.length = 42) (bp : Nat) :
    ∀ fuel s col acc, WF s → Inv s → (3 < col ∨ s.left > 0) → 3 ≤ col → col ≤ 42 → 42 - col < fuel →
      (run (phase s) (acc.map toSpec) (buf.drop col)).ok = true →
      ∃ o, loop buf bp fuel s col acc = .ok o ∧
        LoopRun s (run (phase s) (acc.map toSpec) (buf.drop col)) o := by
  intro fuel
  induction fuel with
  | zero => intro s col acc _ _ _ _ _ h; omega
  | succ f ih =>
    intro s col acc hwf hinv hpos h3 hcol hfuel hok
    -- the separator search, shared by both branches
    have idle_part : ∀ (s' : St) (col' : Nat) (acc' : List Block), s'.left = 0 → Inv s' → 3 < col' → col' ≤ 42 →
        col ≤ col' →
        (run .idle (acc'.map toSpec) (buf.drop col')).ok = true →
        ∃ o, afterConsume buf bp f s' col' acc' = .ok o ∧
          LoopRun s' (run .idle (acc'.map toSpec) (buf.drop col')) o := by
      intro s' col' acc' hl' hinv' h3' hcol' hle hok'
      unfold afterConsume findSep
      have hn3 : ¬ col' ≤ 3 := by omega
      rw [if_neg hn3]
      have hwf' : WF s' := by intro h; omega
      by_cases h42 : col' ≥ 42
      · rw [if_pos h42]
        refine ⟨_, rfl, rfl, hwf', hinv', Same.refl _, ?_⟩
        rw [List.drop_eq_nil_of_le (by omega), run_nil, phase_idle _ hl']
      · rw [if_neg h42]
        obtain ⟨r, hr, hsok, heq⟩ := skipFill_run buf hbuf (acc'.map toSpec) 42 col' (by omega) (by omega)
        rw [hr]
        rw [heq] at hok' ⊢
        cases r with
        | none =>
          refine ⟨_, rfl, rfl, hwf', hinv', Same.refl _, ?_⟩
          simp only [sepDone, phase_idle _ hl']
        | some x =>
          obtain ⟨bs, c⟩ := x
          simp only [SepOk] at hsok
          simp only [sepDone] at hok' ⊢
          by_cases hbs : bs = some 0xC
          · have hbs' : ¬ (bs ≠ some pfcBlockSeparator) := by simp [hbs, pfcBlockSeparator]
            rw [if_neg hbs', if_pos hbs] at *
            have hph : phase { s' with blk := [], left := 4, appId := none } = .hdr [] := by
              apply phase_hdr <;> simp
            have := ih { s' with blk := [], left := 4, appId := none } c acc'
              (by intro _; simp) (by simp [Inv]) (Or.inl (by omega)) (by omega) hsok.2 (by omega)
              (by rw [hph]; exact hok')
            obtain ⟨o, ho, h1, h2, h3x, h4, h5⟩ := this
            refine ⟨o, ho, h1, h2, h3x, Same.trans ⟨rfl, rfl, rfl, rfl, rfl⟩ h4, ?_⟩
            rw [← hph]; exact h5
          · rw [if_neg hbs] at hok'; simp at hok'
    rw [loop_succ]
    by_cases h42 : col ≥ 42
    · rw [if_pos h42]
      refine ⟨_, rfl, rfl, hwf, hinv, Same.refl _, ?_⟩
      rw [List.drop_eq_nil_of_le (by omega), run_nil]
    · rw [if_neg h42]
      by_cases hl : s.left > 0
      · obtain ⟨c, hc, hcr⟩ := consume_run buf hbuf s col acc hwf hinv hl (by omega) hok
        rw [hc]
        cases c with
        | ret o =>
          obtain ⟨h1, h2, h3x, h4, h5, h6⟩ := hcr
          refine ⟨o, rfl, h1, h3x, h4, h5, ?_⟩
          rw [h6, h2]
        | cont s' col' =>
          obtain ⟨h1, h2, h3x, h4, h5, h6⟩ := hcr
          dsimp only
          have := ih s' col' acc h3x h4 (Or.inl (by omega)) (by omega) h2 (by omega) (by rw [h6]; exact hok)
          obtain ⟨o, ho, g1, g2, g3, g4, g5⟩ := this
          refine ⟨o, ho, g1, g2, g3, Same.trans h5 g4, ?_⟩
          rw [← h6]; exact g5
        | fall s' col' acc' =>
          obtain ⟨h1, h2, h3x, h4, h5, h6⟩ := hcr
          dsimp only
          have := idle_part s' col' acc' h3x h4 (by omega) h2 (by omega) (by rw [h6]; exact hok)
          obtain ⟨o, ho, g1, g2, g3, g4, g5⟩ := this
          refine ⟨o, ho, g1, g2, g3, Same.trans h5 g4, ?_⟩
          rw [← h6]; exact g5
      · have hl0 : s.left = 0 := by omega
        have hc : consume buf s col acc = .ok (.fall s col acc) := by
          unfold consume; rw [if_neg hl]
        rw [hc]
        dsimp only
        have h3' : 3 < col := by rcases hpos with h | h <;> omega
        rw [phase_idle s hl0] at hok ⊢
        exact idle_part s col acc hl0 hinv h3' hcol (Nat.le_refl _) hok


end Zvbi.Pfc
