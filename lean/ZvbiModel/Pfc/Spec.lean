import ZvbiModel.Hamm.Model
/-!
# PfcSender and the Page Format Clear stream grammar (EN 300 708 section 4, libzvbi's reading)

Abstract side of property C15 for the PFC demultiplexer.  Nothing here mentions the
demultiplexer's code.

* A transmitted **block** `(app, data)`, `data.length <= 2047`, is the byte string
  `ham8 0xC` (block separator), four Hamming 8/4 nibbles of the structure header
  `sh = app | size << 5` (low nibble first), then the data bytes as they are.
  Between blocks any number of filler bytes `ham8 0x3`.
* The **stream** is cut into 39 byte pieces, one per Teletext packet `X/1 .. X/n` of the page
  (bytes 3..41; bytes 0,1 carry magazine and packet number, byte 2 the block pointer).
* The **block pointer** nibble `bp` announces the first block separator of the packet at offset
  `3 * bp` (0..36); 13 means "no block start announced".  A receiver that is between blocks at a
  packet boundary relies on it, so the sender keeps the first separator of such a packet at a
  multiple of 3 by inserting fillers (`alignPad`).
* `run` is the grammar as a byte-level acceptor: what a receiver that is at phase `ph` makes of
  the following stream bytes.  `Admissible` says when a packet's block pointer is usable.
-/
namespace Zvbi.Pfc.Spec
open Zvbi.Hamm

structure Blk where
  app : Nat
  data : List Nat
deriving Repr, DecidableEq

def sepByte : Nat := ham8 0xC
def fillByte : Nat := ham8 0x3

/-- structure header value -/
def shOf (app size : Nat) : Nat := (app &&& 0x1F) ||| (size <<< 5)

def hdrBytes (app size : Nat) : List Nat :=
  let sh := shOf app size
  [ham8 (sh &&& 15), ham8 ((sh >>> 4) &&& 15), ham8 ((sh >>> 8) &&& 15), ham8 ((sh >>> 12) &&& 15)]

/-- one block on the wire -/
def blockBytes (b : Blk) : List Nat := sepByte :: (hdrBytes b.app b.data.length ++ b.data)

/-! ## the grammar as an acceptor -/

/-- receiver phase between two stream bytes -/
inductive Ph
  | idle                                   -- between blocks
  | hdr (got : List Nat)                   -- after a separator, `got` structure header bytes so far (< 4)
  | data (app size : Nat) (got : List Nat) -- inside the data of a block (`got.length < size`)
deriving Repr, DecidableEq

/-- value of four structure header bytes, `none` if a nibble does not decode -/
def shDecode (g : List Nat) : Option Nat :=
  match g with
  | [a, b, c, d] =>
    (match unham8 a, unham8 b, unham8 c, unham8 d with
     | some a, some b, some c, some d => some (a ||| (b <<< 4) ||| ((c ||| (d <<< 4)) <<< 8))
     | _, _, _, _ => none)
  | _ => none

structure Res where
  ph : Ph
  out : List (Nat × List Nat)   -- completed blocks (app, data), in order; empty blocks are not reported
  ok : Bool                     -- false: the stream left the grammar (receiver desynchronised)
deriving Repr, DecidableEq

/-- read stream bytes in phase `ph`, collecting completed blocks in `acc` -/
def run : Ph → List (Nat × List Nat) → List Nat → Res
  | ph, acc, [] => ⟨ph, acc, true⟩
  | .idle, acc, b :: r =>
    if unham8 b = some 0x3 then run .idle acc r
    else if unham8 b = some 0xC then run (.hdr []) acc r
    else ⟨.idle, acc, false⟩
  | .hdr g, acc, b :: r =>
    if g.length + 1 < 4 then run (.hdr (g ++ [b])) acc r
    else
      match shDecode (g ++ [b]) with
      | none => ⟨.idle, acc, false⟩
      | some sh =>
        if sh >>> 5 = 0 then run .idle acc r
        else run (.data (sh &&& 0x1F) (sh >>> 5) []) acc r
  | .data a n g, acc, b :: r =>
    if g.length + 1 < n then run (.data a n (g ++ [b])) acc r
    else run .idle (acc ++ [(a, g ++ [b])]) r

/-- a packet (block pointer nibble, 39 stream bytes) can be used by a receiver in phase `ph`:
    the pointer is a legal value, and if the receiver is between blocks it announces the first
    separator with only fillers before it, or (13) the packet holds fillers only -/
def Admissible (ph : Ph) (bp : Nat) (payload : List Nat) : Prop :=
  payload.length = 39 ∧ bp ≤ 13 ∧
  (ph = .idle →
    (bp = 13 ∧ ∀ b ∈ payload, unham8 b = some 0x3) ∨
    (bp < 13 ∧ (∀ b ∈ payload.take (3 * bp), unham8 b = some 0x3) ∧
      (payload[3 * bp]?).bind unham8 = some 0xC))

/-- the flat stream of a block sequence: `lead` fillers, then each block followed by its fillers -/
def flat (lead : Nat) (items : List (Blk × Nat)) : List Nat :=
  List.replicate lead fillByte ++
    items.flatMap (fun it => blockBytes it.1 ++ List.replicate it.2 fillByte)

/-- what the application must be handed for a block sequence: the non-empty blocks, in order -/
def delivered (items : List (Blk × Nat)) : List (Nat × List Nat) :=
  items.filterMap (fun it => if it.1.data = [] then none else some (it.1.app, it.1.data))

/-- a block that can be sent: 5 bit application id, at most 2047 bytes -/
def Blk.Ok (b : Blk) : Prop := b.app < 32 ∧ b.data.length ≤ 2047

/-- result of reading the payloads of consecutive packets -/
def runRows (ph : Ph) (acc : List (Nat × List Nat)) : List (List Nat) → Res
  | [] => ⟨ph, acc, true⟩
  | pl :: r => if (run ph acc pl).ok then runRows (run ph acc pl).ph (run ph acc pl).out r else run ph acc pl

/-- every packet of the sequence (block pointer nibble, 39 payload bytes) has a usable block pointer -/
def AdmissibleAll (ph : Ph) : List (Nat × List Nat) → Prop
  | [] => True
  | (bp, pl) :: r => Admissible ph bp pl ∧ AdmissibleAll (run ph [] pl).ph r

/-- block pointer nibble of a packet (15 if it does not decode) and its payload -/
def bpAndPayload (buf : List Nat) : Nat × List Nat := ((unham8 (buf.getD 2 0)).getD 15, buf.drop 3)

/-! ## packets of a page -/

/-- magazine and packet number bytes -/
def addrBytes (pgno y : Nat) : List Nat :=
  let pmag := ((pgno >>> 8) &&& 7) ||| (y <<< 3)
  [ham8 (pmag &&& 15), ham8 (pmag >>> 4)]

/-- packet `X/y` (1 <= y <= 25) of page `pgno`: block pointer nibble and 39 stream bytes -/
def rowPkt (pgno y bp : Nat) (payload : List Nat) : List Nat :=
  addrBytes pgno y ++ (ham8 bp :: payload)

/-- page header `X/0` of page `pgno` (0x100 .. 0x8FF): page number, and in the sub-code the
    continuity index `ci`, the stream number and the number `n` of packets of the page; `tail` is
    the rest of the header (control bits, 32 display bytes), irrelevant here -/
def headerPkt (pgno stream ci n : Nat) (tail : List Nat) : List Nat :=
  let subno := (ci &&& 15) ||| ((n &&& 7) <<< 4) ||| ((stream &&& 15) <<< 8) ||| (((n >>> 3) &&& 3) <<< 12)
  addrBytes pgno 0 ++
    [ham8 (pgno &&& 15), ham8 ((pgno >>> 4) &&& 15),
     ham8 (subno &&& 15), ham8 ((subno >>> 4) &&& 15), ham8 ((subno >>> 8) &&& 15), ham8 ((subno >>> 12) &&& 15)] ++ tail

/-- magazine (as the page number base 0x100 .. 0x800) and packet number of a Teletext packet,
    `none` if an address byte is damaged beyond repair -/
def addrOf (buf : List Nat) : Option (Nat × Nat) :=
  match unham8 (buf.getD 0 0), unham8 (buf.getD 1 0) with
  | some a, some b =>
    let v := a ||| (b <<< 4)
    some (if v &&& 7 = 0 then 0x800 else (v &&& 7) <<< 8, v >>> 3)
  | _, _ => none

/-- page number byte of a page header, `none` if damaged beyond repair -/
def pageByteOf (buf : List Nat) : Option Nat :=
  match unham8 (buf.getD 2 0), unham8 (buf.getD 3 0) with
  | some a, some b => some (a ||| (b <<< 4))
  | _, _ => none

/-- rows `X/y0, X/(y0+1), ...` of a page from their (block pointer nibble, payload) pairs -/
def rowsPkts (pgno : Nat) : Nat → List (Nat × List Nat) → List (List Nat)
  | _, [] => []
  | y0, (bp, pl) :: r => rowPkt pgno y0 bp pl :: rowsPkts pgno (y0 + 1) r

/-- one transmitted page of the stream: the rest of its header and its rows -/
structure Page where
  tail : List Nat
  rows : List (Nat × List Nat)

/-- header and rows of one page with continuity index `ci` -/
def pagePkts (pgno stream ci : Nat) (pg : Page) : List (List Nat) :=
  headerPkt pgno stream ci pg.rows.length pg.tail :: rowsPkts pgno 1 pg.rows

/-- consecutive pages, continuity index counting up from `ci` modulo 16 -/
def pagesPkts (pgno stream : Nat) : Nat → List Page → List (List Nat)
  | _, [] => []
  | ci, pg :: r => pagePkts pgno stream ci pg ++ pagesPkts pgno stream ((ci + 1) &&& 15) r

/-- all rows of consecutive pages -/
def allRows (pages : List Page) : List (Nat × List Nat) := pages.flatMap (·.rows)

/-! ## the sender -/

inductive Role | sep | hdr | data | fill
deriving Repr, DecidableEq

/-- one block to send and the number of filler bytes the sender wants after it -/
structure Item where
  app : Nat
  data : List Nat
  gap : Nat

def blockToks (it : Item) : List (Role × Nat) :=
  (Role.sep, sepByte) :: ((hdrBytes it.app it.data.length).map (fun b => (Role.hdr, b)) ++
    it.data.map (fun b => (Role.data, b)))

def fills (n : Nat) : List (Role × Nat) := List.replicate n (Role.fill, fillByte)

/-- fillers needed before the next separator so that the block pointer can announce it -/
def alignPad (out : List (Role × Nat)) : Nat :=
  let pos := out.length
  let off := pos % 39
  let start := pos - off
  let firstInPkt := (out.drop start).all (fun t => t.1 ≠ Role.sep)
  let startsIdle := off = 0 ∨ (out[start]?).map (·.1) = some Role.fill
  if firstInPkt ∧ startsIdle then (if off ≤ 36 then (3 - off % 3) % 3 else 39 - off) else 0

def layout (lead : Nat) (items : List Item) : List (Role × Nat) :=
  let body := items.foldl (fun out it => out ++ fills (alignPad out) ++ blockToks it ++ fills it.gap) (fills lead)
  body ++ fills ((39 - body.length % 39) % 39)

/-- block pointer nibble of one 39 token packet -/
def bpOf (chunk : List (Role × Nat)) : Nat :=
  match chunk.findIdx? (fun t => t.1 = Role.sep) with
  | some off => if off % 3 = 0 ∧ off ≤ 36 then off / 3 else 13
  | none => 13

def chunks : Nat → List (Role × Nat) → List (List (Role × Nat))
  | 0, _ => []
  | n + 1, l => if l.isEmpty then [] else l.take 39 :: chunks n (l.drop 39)

/-- the packets of a transmission: (block pointer nibble, 39 payload bytes) -/
def encode (lead : Nat) (items : List Item) : List (Nat × List Nat) :=
  let l := layout lead items
  (chunks l.length l).map (fun c => (bpOf c, c.map (·.2)))


/-! ## the sender validates its own output (translation validation) -/

/-- executable `Admissible` -/
def admissibleB1 (ph : Ph) (bp : Nat) (pl : List Nat) : Bool :=
  decide (pl.length = 39) && decide (bp ≤ 13) &&
  (match ph with
   | .idle =>
     (decide (bp = 13) && pl.all (fun b => unham8 b == some 0x3)) ||
     (decide (bp < 13) && (pl.take (3 * bp)).all (fun b => unham8 b == some 0x3) &&
       ((pl[3 * bp]?).bind unham8 == some 0xC))
   | _ => true)

/-- executable `AdmissibleAll` -/
def admissibleB (ph : Ph) : List (Nat × List Nat) → Bool
  | [] => true
  | (bp, pl) :: r => admissibleB1 ph bp pl && admissibleB (run ph [] pl).ph r

/-- the items as blocks, for `delivered` -/
def itemBlocks (items : List Item) : List (Blk × Nat) := items.map (fun it => (⟨it.app, it.data⟩, it.gap))

/-- `encode`, but the sender checks that every block pointer it produced is usable and that the
    grammar reads exactly its blocks back from the stream it produced; `none` if not -/
def encodeChecked (lead : Nat) (items : List Item) : Option (List (Nat × List Nat)) :=
  let rows := encode lead items
  if admissibleB .idle rows &&
      decide (run .idle [] (rows.map (·.2)).flatten = ⟨.idle, delivered (itemBlocks items), true⟩)
  then some rows else none

end Zvbi.Pfc.Spec
