import ZvbiModel.Pfc.Multi
/-!
# The executable PFC sender end to end (C15)

`transmit`: `Spec.encode` (alignment fillers, block pointers) followed by a concrete distribution
of the rows over pages (`paginate`) and `Spec.pagesPkts` (page headers, continuity index, packet
addresses) - everything a transmitter does, as one function from blocks to 42 byte packets.
`transmit_delivers`: a new demultiplexer fed with it calls back with exactly the non-empty blocks.
`encode_reception`: the same with foreign traffic, for any distribution over pages.
-/
namespace Zvbi.Pfc
open Zvbi.Hamm Zvbi.Gen
open Spec (Ph Res run shDecode)

/-- number of rows of the next page: the head of `sizes` clamped to 1..25 (25 when `sizes` is used up) -/
def pageSize (sizes : List Nat) : Nat := max 1 (min 25 (sizes.headD 25))

theorem pageSize_bounds (sizes : List Nat) : 1 ≤ pageSize sizes ∧ pageSize sizes ≤ 25 := by
  unfold pageSize; omega

/-- cut the rows into consecutive pages of the given sizes -/
def splitRows : Nat → List Nat → List (Nat × List Nat) → List (List (Nat × List Nat))
  | 0, _, _ => []
  | f + 1, sizes, rows =>
    if rows.isEmpty then [] else
      rows.take (pageSize sizes) :: splitRows f sizes.tail (rows.drop (pageSize sizes))

theorem splitRows_flatten : ∀ (f : Nat) (sizes : List Nat) (rows : List (Nat × List Nat)), rows.length ≤ f →
    (splitRows f sizes rows).flatten = rows := by
  intro f
  induction f with
  | zero => intro sizes rows h; have : rows = [] := List.length_eq_zero_iff.mp (by omega); subst this; rfl
  | succ k ih =>
    intro sizes rows h
    unfold splitRows
    by_cases he : rows.isEmpty
    · rw [if_pos he]; simp at he; subst he; rfl
    · rw [if_neg he]
      have hne : rows ≠ [] := by simpa using he
      have hpos : 0 < rows.length := List.length_pos_iff.mpr hne
      have hb := pageSize_bounds sizes
      rw [List.flatten_cons, ih _ _ (by rw [List.length_drop]; omega), List.take_append_drop]

theorem splitRows_len : ∀ (f : Nat) (sizes : List Nat) (rows : List (Nat × List Nat)),
    ∀ p ∈ splitRows f sizes rows, p.length ≤ 25 := by
  intro f
  induction f with
  | zero => intro sizes rows p hp; simp [splitRows] at hp
  | succ k ih =>
    intro sizes rows p hp
    unfold splitRows at hp
    by_cases he : rows.isEmpty
    · rw [if_pos he] at hp; simp at hp
    · rw [if_neg he] at hp
      simp only [List.mem_cons] at hp
      rcases hp with rfl | hp
      · have hb := pageSize_bounds sizes
        rw [List.length_take]; omega
      · exact ih _ _ p hp

/-- the pages of a transmission: `sizes` rows per page, every header completed by `tail` -/
def paginate (sizes : List Nat) (tail : List Nat) (rows : List (Nat × List Nat)) : List Spec.Page :=
  (splitRows rows.length sizes rows).map (fun r => ⟨tail, r⟩)

theorem allRows_map (tail : List Nat) (l : List (List (Nat × List Nat))) :
    Spec.allRows (l.map (fun r => (⟨tail, r⟩ : Spec.Page))) = l.flatten := by
  induction l with
  | nil => rfl
  | cons a t ih =>
    have : Spec.allRows ((a :: t).map (fun r => (⟨tail, r⟩ : Spec.Page))) =
        a ++ Spec.allRows (t.map (fun r => (⟨tail, r⟩ : Spec.Page))) := by simp [Spec.allRows]
    rw [this, ih]; rfl

theorem allRows_paginate (sizes tail : List Nat) (rows : List (Nat × List Nat)) :
    Spec.allRows (paginate sizes tail rows) = rows := by
  unfold paginate
  rw [allRows_map, splitRows_flatten _ _ _ (Nat.le_refl _)]

theorem paginate_len (sizes tail : List Nat) (rows : List (Nat × List Nat)) :
    ∀ pg ∈ paginate sizes tail rows, pg.rows.length ≤ 25 := by
  intro pg hpg
  unfold paginate at hpg
  simp only [List.mem_map] at hpg
  obtain ⟨r, hr, rfl⟩ := hpg
  exact splitRows_len _ _ _ r hr

/-- **the transmitter**: blocks (with the filler bytes wanted after each, `lead` fillers first) to
    the 42 byte packets of page `pgno`, stream `stream`, first continuity index `ci` -/
def transmit (pgno stream ci lead : Nat) (items : List Spec.Item) (sizes tail : List Nat) : List (List Nat) :=
  Spec.pagesPkts pgno stream ci (paginate sizes tail (Spec.encode lead items))

/-- the non-empty blocks, in order -/
def nonEmptyBlocks (items : List Spec.Item) : List (Nat × List Nat) :=
  (items.filter (fun it => !it.data.isEmpty)).map (fun it => (it.app, it.data))

theorem delivered_itemBlocks (items : List Spec.Item) :
    Spec.delivered (Spec.itemBlocks items) = nonEmptyBlocks items := by
  unfold Spec.delivered Spec.itemBlocks nonEmptyBlocks
  induction items with
  | nil => rfl
  | cons it t ih =>
    cases hd : it.data with
    | nil => simp [hd, ih]
    | cons x xs => simp [hd, ih]

/-- **round trip**: what `transmit` sends, a new demultiplexer delivers - exactly the non-empty
    blocks, in order -/
theorem transmit_delivers (pgno stream : Nat) (hpg1 : 0x100 ≤ pgno) (hpg2 : pgno < 0x900) (hst : stream < 16)
    (ci : Nat) (hci : ci < 16) (lead : Nat) (items : List Spec.Item)
    (hok : ∀ it ∈ items, it.app < 32 ∧ it.data.length ≤ 2047) (sizes tail : List Nat) :
    ∃ s' bl, feedAll (new pgno stream) (transmit pgno stream ci lead items sizes tail) = .ok (s', bl) ∧
      bl.map toSpec = nonEmptyBlocks items := by
  have := encode_delivers pgno stream hpg1 hpg2 hst lead items hok ci hci
    (paginate sizes tail (Spec.encode lead items)) (paginate_len _ _ _) (allRows_paginate _ _ _)
  rw [delivered_itemBlocks] at this
  exact this

/-- **round trip with foreign traffic**: the rows of `Spec.encode`, distributed over pages in any
    way, each page preceded by an interlude of closing headers and the rows of other pages, with
    transparent packets (other magazines, rows 26..31) anywhere -/
theorem encode_reception (pgno stream : Nat) (hpg1 : 0x100 ≤ pgno) (hpg2 : pgno < 0x900) (hst : stream < 16)
    (ci : Nat) (hci : ci < 16) (lead : Nat) (items : List Spec.Item)
    (hok : ∀ it ∈ items, it.app < 32 ∧ it.data.length ≤ 2047)
    (pages : List PageG) (hn : ∀ pg ∈ pages, pg.rows.length = pg.n ∧ pg.n ≤ 25)
    (hrows : allRowsG pages = Spec.encode lead items)
    (hint : IntersOk pgno stream true pages) (post : List (List Nat)) (hpost : Interlude pgno stream false post)
    (l : List (List Nat)) (hthin : Thin pgno l (pagesGPkts pgno stream ci pages ++ post)) :
    ∃ s' bl, feedAll (new pgno stream) l = .ok (s', bl) ∧ bl.map toSpec = nonEmptyBlocks items := by
  obtain ⟨lead', gaps, hgl, hflat⟩ := encode_stream_flat lead items
  have hadm := encode_admissible lead items hok
  have hitems : ∀ it ∈ (items.map (fun it => (⟨it.app, it.data⟩ : Spec.Blk))).zip gaps, it.1.Ok := by
    intro it hit
    have h1 := List.of_mem_zip hit
    obtain ⟨x, hx, hxe⟩ := List.mem_map.mp h1.1
    rw [← hxe]; exact hok x hx
  have hR := run_flat _ hitems lead' [] []
  rw [List.append_nil, run_nil] at hR
  simp only [List.nil_append] at hR
  obtain ⟨s', bl, h1, h2, _⟩ := feed_reception pgno stream hpg1 hpg2 hst ci hci pages
    (fun pg hpg => ⟨by rw [(hn pg hpg).1]; exact Nat.le_refl _, (hn pg hpg).2, Or.inl (hn pg hpg).1⟩) hint post hpost _ .idle
    (by rw [hrows, hflat]; exact hR) (by rw [hrows]; exact hadm) l hthin
  refine ⟨s', bl, h1, ?_⟩
  rw [h2, ← delivered_itemBlocks, delivered_eq, delivered_eq]
  congr 1
  rw [List.map_fst_zip (by rw [List.length_map, hgl]; exact Nat.le_refl _)]
  simp [Spec.itemBlocks, List.map_map, Function.comp_def]

end Zvbi.Pfc
