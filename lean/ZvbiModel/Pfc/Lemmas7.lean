import ZvbiModel.Pfc.Lemmas6
/-!
# Lemmas for the PFC demultiplexer (C15), part 7: the page number never changes; headers of
other magazines (parallel transmission)
-/
namespace Zvbi.Pfc
open Zvbi.Hamm Zvbi.Gen
open Spec (Ph Res run shDecode)


/-- page number and stream of the demultiplexer -/
def Key (s s' : St) : Prop := s'.pgno = s.pgno ∧ s'.stream = s.stream

def ConsumedKey (s : St) : Consumed → Prop
  | .ret o => Key s o.st
  | .cont s' _ => Key s s'
  | .fall s' _ _ => Key s s'

theorem consume_key (buf : List Nat) (s : St) (col : Nat) (acc : List Block) (c : Consumed)
    (h : consume buf s col acc = .ok c) : ConsumedKey s c := by
  unfold consume at h
  by_cases hl : s.left > 0
  · simp only [hl, if_true] at h
    repeat' split at h
    all_goals first
      | (cases h; done)
      | (cases h; exact ⟨rfl, rfl⟩)
  · simp only [hl, if_false] at h
    cases h; exact ⟨rfl, rfl⟩

theorem loop_key (buf : List Nat) (bp : Nat) : ∀ fuel s col acc o,
    loop buf bp fuel s col acc = .ok o → Key s o.st := by
  intro fuel
  induction fuel with
  | zero => intro s col acc o h; simp [loop] at h
  | succ f ih =>
    intro s col acc o h
    rw [loop_succ] at h
    split at h
    · cases h; exact ⟨rfl, rfl⟩
    · cases hc : consume buf s col acc with
      | error e => rw [hc] at h; cases h
      | ok c =>
        rw [hc] at h
        have hk := consume_key buf s col acc c hc
        cases c with
        | ret o' => simp only at h; cases h; exact hk
        | cont s' col' =>
          simp only at h
          have := ih s' col' acc o h
          exact ⟨this.1.trans hk.1, this.2.trans hk.2⟩
        | fall s' col' acc' =>
          simp only at h
          unfold afterConsume at h
          split at h
          · cases h
          · cases h; exact hk
          · split at h
            · cases h; exact hk
            · have := ih _ _ _ o h
              exact ⟨this.1.trans hk.1, this.2.trans hk.2⟩

theorem decode_key (buf : List Nat) (s : St) (o : Out) (h : decode s buf = .ok o) : Key s o.st := by
  unfold decode at h
  split at h
  · cases h
  · split at h
    · cases h; exact ⟨rfl, rfl⟩
    · dsimp only at h
      split at h
      · cases h; exact ⟨rfl, rfl⟩
      · exact loop_key buf _ 42 s 3 [] o h

theorem pageEnd_key (s : St) : Key s (pageEnd s) := by
  unfold pageEnd; split <;> exact ⟨rfl, rfl⟩

/-- `vbi_pfc_demux_feed` never changes the page number and stream the demultiplexer was created for -/
theorem feed_key (buf : List Nat) (s : St) (o : Out) (h : feed s buf = .ok o) : Key s o.st := by
  unfold feed at h
  by_cases h8 : buf.length < 8
  · simp only [h8, if_true] at h; cases h
  simp only [h8, if_false] at h
  repeat' split at h
  all_goals first
    | (cases h; done)
    | (cases h; exact ⟨rfl, rfl⟩)
    | (cases h; exact pageEnd_key s)
    | exact (decode_key buf _ o h)
    | (have := decode_key buf _ o h; exact ⟨this.1, this.2⟩)



/-- a page header of another magazine, on a source that ignores such headers -/
theorem feed_foreign_mag_header (hfix : pfcForeignMagHeaderIgnored = true) (s : St) (buf : List Nat)
    (hlen : buf.length = 42) (m pp : Nat)
    (haddr : Spec.addrOf buf = some (m, 0)) (hpage : Spec.pageByteOf buf = some pp)
    (hmag : ((m ||| pp) ^^^ s.pgno) &&& 0xF00 ≠ 0) :
    feed s buf = .ok ⟨s, true, []⟩ := by
  have hne : m ||| pp ≠ s.pgno := by
    intro h; rw [h, Nat.xor_self] at hmag; simp at hmag
  unfold Spec.addrOf at haddr
  unfold Spec.pageByteOf at hpage
  cases h0 : unham8 (buf.getD 0 0) with
  | none => rw [h0] at haddr; cases haddr
  | some a =>
    cases h1 : unham8 (buf.getD 1 0) with
    | none => rw [h0, h1] at haddr; cases haddr
    | some b =>
      cases h2 : unham8 (buf.getD 2 0) with
      | none => rw [h2] at hpage; cases hpage
      | some c =>
        cases h3 : unham8 (buf.getD 3 0) with
        | none => rw [h2, h3] at hpage; cases hpage
        | some d =>
          rw [h0, h1] at haddr
          rw [h2, h3] at hpage
          simp only [Option.some.injEq, Prod.mk.injEq] at haddr hpage
          obtain ⟨hm, hyy⟩ := haddr
          subst hpage
          unfold feed
          have hl : ¬ buf.length < 8 := by omega
          have hI := unham16pI_of_some _ _ a b h0 h1
          have hP := unham16pI_of_some _ _ c d h2 h3
          have hneg : ¬ (((a ||| (b <<< 4) : Nat) : Int) < 0) := by omega
          have hneg2 : ¬ (((c ||| (d <<< 4) : Nat) : Int) < 0) := by omega
          simp only [hl, if_false, hI, hneg, Int.toNat_natCast, hm, hyy, if_true, hP, hneg2, hne,
            ne_eq, not_false_eq_true, hfix, Bool.true_and, hmag, decide_true]

/-- inserting a packet that every state with our page number ignores, anywhere into a packet
    sequence, changes neither the callbacks nor the final state -/
theorem feedAll_insert (hdr : List Nat) (pgno : Nat)
    (h : ∀ s' : St, s'.pgno = pgno → feed s' hdr = .ok ⟨s', true, []⟩) (b : List (List Nat)) :
    ∀ (a : List (List Nat)) (s : St), s.pgno = pgno → feedAll s (a ++ hdr :: b) = feedAll s (a ++ b) := by
  intro a
  induction a with
  | nil =>
    intro s hs
    simp only [List.nil_append]
    rw [feedAll_cons, h s hs]
    cases hb : feedAll s b with
    | error e => simp [hb]
    | ok r => obtain ⟨s', bl⟩ := r; simp [hb]
  | cons x t ih =>
    intro s hs
    simp only [List.cons_append]
    rw [feedAll_cons, feedAll_cons]
    cases hx : feed s x with
    | error e => rfl
    | ok o =>
      simp only
      rw [ih o.st (by rw [(feed_key x s o hx).1, hs])]

end Zvbi.Pfc
