import ZvbiModel.Pfc.Lemmas3
/-!
# Lemmas for the PFC demultiplexer (C15), part 4: `vbi_pfc_demux_feed` on the packets of pages
-/
namespace Zvbi.Pfc
open Zvbi.Hamm Zvbi.Gen
open Spec (Ph Res run shDecode)


theorem unham16pI_ham8 (a b : Nat) (ha : a < 16) (hb : b < 16) :
    unham16pI (ham8 a) (ham8 b) = ((a ||| (b <<< 4) : Nat) : Int) := by
  unfold unham16pI
  rw [unham8_ham8 a ha, unham8_ham8 b hb]

theorem pair16_nonneg (lo hi : Nat) : pair16 (lo : Int) (hi : Int) = some (lo + hi * 256) := by
  unfold pair16
  have h1 : ¬ ((lo : Int) < 0) := by omega
  have h2 : ¬ ((hi : Int) < 0) := by omega
  have h3 : ¬ ((lo : Int) + (hi : Int) * 256 < 0) := by omega
  simp only [h1, h2, h3, decide_false, Bool.or_false, Bool.and_false, if_false, Bool.false_eq_true]
  congr 1

/-- address byte arithmetic for magazine `hi` (1..8) and packet number `y` -/
theorem addr_facts : ∀ hi < 9, ∀ y < 32, hi ≠ 0 →
    (((hi &&& 7) ||| (y <<< 3)) &&& 15 < 16 ∧ ((hi &&& 7) ||| (y <<< 3)) >>> 4 < 16 ∧
     ((((hi &&& 7) ||| (y <<< 3)) &&& 15) ||| ((((hi &&& 7) ||| (y <<< 3)) >>> 4) <<< 4)) = ((hi &&& 7) ||| (y <<< 3)) ∧
     ((hi &&& 7) ||| (y <<< 3)) >>> 3 = y ∧
     (if ((hi &&& 7) ||| (y <<< 3)) &&& 7 = 0 then 0x800 else (((hi &&& 7) ||| (y <<< 3)) &&& 7) <<< 8) = hi * 256) := by
  decide +kernel

theorem mag_facts : ∀ hi < 9, ∀ pp < 256,
    ((hi * 256) ^^^ (hi * 256 + pp)) &&& 0xF00 = 0 ∧
    (hi * 256) ||| (((hi * 256 + pp) &&& 15) ||| ((((hi * 256 + pp) >>> 4) &&& 15) <<< 4)) = hi * 256 + pp ∧
    (hi * 256 + pp) &&& 15 < 16 ∧ ((hi * 256 + pp) >>> 4) &&& 15 < 16 := by
  decide +kernel


theorem pgno_split (pgno : Nat) (h1 : 0x100 ≤ pgno) (h2 : pgno < 0x900) :
    pgno >>> 8 = pgno / 256 ∧ pgno / 256 < 9 ∧ pgno / 256 ≠ 0 ∧ pgno = pgno / 256 * 256 + pgno % 256 ∧ pgno % 256 < 256 := by
  refine ⟨by rw [Nat.shiftRight_eq_div_pow], by omega, by omega, by omega, by omega⟩

/-- **a row of our open page, in sequence**: `vbi_pfc_demux_feed` passes it to the decoder -/
theorem feed_row (s : St) (pgno y bp : Nat) (payload : List Nat)
    (hpg1 : 0x100 ≤ pgno) (hpg2 : pgno < 0x900) (hy1 : 1 ≤ y) (hy2 : y ≤ 25)
    (hs : s.pgno = pgno) (hopen : s.nPackets ≠ 0) (hseq : y = s.packet) (hle : y ≤ s.nPackets)
    (hpl : payload.length = 39) :
    feed s (Spec.rowPkt pgno y bp payload) =
      decode { s with packet := y + 1 } (Spec.rowPkt pgno y bp payload) := by
  obtain ⟨hsh, hhi, hne, hsplit, hpp⟩ := pgno_split pgno hpg1 hpg2
  obtain ⟨f1, f2, f3, f4, f5⟩ := addr_facts (pgno / 256) hhi y (by omega) hne
  have m := mag_facts (pgno / 256) hhi (pgno % 256) hpp
  rw [← hsplit] at m
  unfold feed
  have hlen : ¬ (Spec.rowPkt pgno y bp payload).length < 8 := by
    simp [Spec.rowPkt, Spec.addrBytes, hpl]
  have g0 : (Spec.rowPkt pgno y bp payload).getD 0 0 = ham8 ((((pgno >>> 8) &&& 7) ||| (y <<< 3)) &&& 15) := by
    simp [Spec.rowPkt, Spec.addrBytes]
  have g1 : (Spec.rowPkt pgno y bp payload).getD 1 0 = ham8 ((((pgno >>> 8) &&& 7) ||| (y <<< 3)) >>> 4) := by
    simp [Spec.rowPkt, Spec.addrBytes]
  rw [hsh] at g0 g1
  have hI : unham16pI ((Spec.rowPkt pgno y bp payload).getD 0 0) ((Spec.rowPkt pgno y bp payload).getD 1 0) =
      (((pgno / 256 &&& 7) ||| (y <<< 3) : Nat) : Int) := by
    rw [g0, g1, unham16pI_ham8 _ _ f1 f2, f3]
  have hneg : ¬ ((((pgno / 256 &&& 7) ||| (y <<< 3) : Nat) : Int) < 0) := by omega
  have hy0 : ¬ (y = 0) := by omega
  have hmag : ¬ ((pgno / 256 * 256 ^^^ s.pgno) &&& 0xF00 ≠ 0) := by rw [hs]; simp [m.1]
  have hy25 : ¬ (y > 25) := by omega
  have hseq' : ¬ (y ≠ s.packet ∨ y > s.nPackets) := by omega
  simp only [hlen, if_false, hI, hneg, Int.toNat_natCast, f4, f5, hy0, hmag, hopen, hy25, hseq']


/-- sub-code arithmetic: continuity index, packet count and stream survive encoding and decoding -/
theorem subno_facts : ∀ ci < 16, ∀ n < 32, ∀ st < 16,
    (((ci &&& 15) ||| ((n &&& 7) <<< 4) ||| ((st &&& 15) <<< 8) ||| (((n >>> 3) &&& 3) <<< 12)) &&& 15 < 16 ∧
     (((ci &&& 15) ||| ((n &&& 7) <<< 4) ||| ((st &&& 15) <<< 8) ||| (((n >>> 3) &&& 3) <<< 12)) >>> 4) &&& 15 < 16 ∧
     (((ci &&& 15) ||| ((n &&& 7) <<< 4) ||| ((st &&& 15) <<< 8) ||| (((n >>> 3) &&& 3) <<< 12)) >>> 8) &&& 15 < 16 ∧
     (((ci &&& 15) ||| ((n &&& 7) <<< 4) ||| ((st &&& 15) <<< 8) ||| (((n >>> 3) &&& 3) <<< 12)) >>> 12) &&& 15 < 16) ∧
    (let sub := (ci &&& 15) ||| ((n &&& 7) <<< 4) ||| ((st &&& 15) <<< 8) ||| (((n >>> 3) &&& 3) <<< 12)
     let v := ((sub &&& 15) ||| (((sub >>> 4) &&& 15) <<< 4)) + ((((sub >>> 8) &&& 15) ||| (((sub >>> 12) &&& 15) <<< 4))) * 256
     (v >>> 8) &&& 15 = st ∧ v &&& 15 = ci ∧ ((v >>> 4) &&& 7) + ((v >>> 9) &&& 0x18) = n) := by
  decide +kernel

/-- **a page header of ours**: only the page bookkeeping changes; a continuity index that does not
    follow resets the demultiplexer first -/
theorem feed_header (s : St) (pgno stream ci n : Nat) (tail : List Nat)
    (hpg1 : 0x100 ≤ pgno) (hpg2 : pgno < 0x900) (hst : stream < 16) (hci : ci < 16) (hn : n < 32)
    (hs : s.pgno = pgno) (hss : s.stream = stream) :
    feed s (Spec.headerPkt pgno stream ci n tail) =
      .ok ⟨{ (if ci ≠ s.ci then reset s else pageEnd s) with
              ci := (ci + 1) &&& 15, packet := 1, nPackets := n }, true, []⟩ := by
  obtain ⟨hsh, hhi, hne, hsplit, hpp⟩ := pgno_split pgno hpg1 hpg2
  obtain ⟨f1, f2, f3, f4, f5⟩ := addr_facts (pgno / 256) hhi 0 (by omega) hne
  obtain ⟨m1, m2, m3, m4⟩ := mag_facts (pgno / 256) hhi (pgno % 256) hpp
  rw [← hsplit] at m1 m2 m3 m4
  obtain ⟨⟨n1, n2, n3, n4⟩, e1, e2, e3⟩ := subno_facts ci hci n hn stream hst
  unfold feed
  have hlen : ¬ (Spec.headerPkt pgno stream ci n tail).length < 8 := by
    simp [Spec.headerPkt, Spec.addrBytes]
  have g0 : (Spec.headerPkt pgno stream ci n tail).getD 0 0 = ham8 ((((pgno >>> 8) &&& 7) ||| (0 <<< 3)) &&& 15) := by
    simp [Spec.headerPkt, Spec.addrBytes]
  have g1 : (Spec.headerPkt pgno stream ci n tail).getD 1 0 = ham8 ((((pgno >>> 8) &&& 7) ||| (0 <<< 3)) >>> 4) := by
    simp [Spec.headerPkt, Spec.addrBytes]
  have g2 : (Spec.headerPkt pgno stream ci n tail).getD 2 0 = ham8 (pgno &&& 15) := by
    simp [Spec.headerPkt, Spec.addrBytes]
  have g3 : (Spec.headerPkt pgno stream ci n tail).getD 3 0 = ham8 ((pgno >>> 4) &&& 15) := by
    simp [Spec.headerPkt, Spec.addrBytes]
  have g4 : (Spec.headerPkt pgno stream ci n tail).getD 4 0 = ham8 (((ci &&& 15) ||| ((n &&& 7) <<< 4) ||| ((stream &&& 15) <<< 8) ||| (((n >>> 3) &&& 3) <<< 12)) &&& 15) := by
    simp [Spec.headerPkt, Spec.addrBytes]
  have g5 : (Spec.headerPkt pgno stream ci n tail).getD 5 0 = ham8 ((((ci &&& 15) ||| ((n &&& 7) <<< 4) ||| ((stream &&& 15) <<< 8) ||| (((n >>> 3) &&& 3) <<< 12)) >>> 4) &&& 15) := by
    simp [Spec.headerPkt, Spec.addrBytes]
  have g6 : (Spec.headerPkt pgno stream ci n tail).getD 6 0 = ham8 ((((ci &&& 15) ||| ((n &&& 7) <<< 4) ||| ((stream &&& 15) <<< 8) ||| (((n >>> 3) &&& 3) <<< 12)) >>> 8) &&& 15) := by
    simp [Spec.headerPkt, Spec.addrBytes]
  have g7 : (Spec.headerPkt pgno stream ci n tail).getD 7 0 = ham8 ((((ci &&& 15) ||| ((n &&& 7) <<< 4) ||| ((stream &&& 15) <<< 8) ||| (((n >>> 3) &&& 3) <<< 12)) >>> 12) &&& 15) := by
    simp [Spec.headerPkt, Spec.addrBytes]
  rw [hsh] at g0 g1
  have hI : unham16pI ((Spec.headerPkt pgno stream ci n tail).getD 0 0) ((Spec.headerPkt pgno stream ci n tail).getD 1 0) =
      (((pgno / 256 &&& 7) ||| (0 <<< 3) : Nat) : Int) := by
    rw [g0, g1, unham16pI_ham8 _ _ f1 f2, f3]
  have hP : unham16pI ((Spec.headerPkt pgno stream ci n tail).getD 2 0) ((Spec.headerPkt pgno stream ci n tail).getD 3 0) =
      (((pgno &&& 15) ||| (((pgno >>> 4) &&& 15) <<< 4) : Nat) : Int) := by
    rw [g2, g3, unham16pI_ham8 _ _ m3 m4]
  have hneg : ¬ ((((pgno / 256 &&& 7) ||| (0 <<< 3) : Nat) : Int) < 0) := by omega
  have hneg2 : ¬ ((((pgno &&& 15) ||| (((pgno >>> 4) &&& 15) <<< 4) : Nat) : Int) < 0) := by omega
  have hpgeq : ¬ (pgno / 256 * 256 ||| ((pgno &&& 15) ||| (((pgno >>> 4) &&& 15) <<< 4)) ≠ s.pgno) := by
    rw [m2, hs]; simp
  have hst' : ¬ (stream ≠ s.stream) := by rw [hss]; simp
  simp only [hlen, if_false, hI, hneg, Int.toNat_natCast, f4, f5, if_true, hP, hneg2, hpgeq,
    g4, g5, g6, g7, unham16pI_ham8 _ _ n1 n2, unham16pI_ham8 _ _ n3 n4, pair16_nonneg, e1, e2, e3, hst']


end Zvbi.Pfc
