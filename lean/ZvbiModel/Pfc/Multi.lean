import ZvbiModel.Pfc.Lemmas9
/-!
# Lemmas for the PFC demultiplexer (C15): whole transmissions with foreign traffic

* `Transparent` - packets a demultiplexer for page `pgno` ignores in every state (rows of other
  magazines, rows 26..31, page headers of other magazines); `Thin`/`feedAll_thin`: deleting any
  number of them anywhere in a packet sequence changes nothing.
* `Closing` / `Interlude` - what may arrive *between* two pages of ours in serial transmission:
  headers of other pages of our magazine or of other streams of our page (they close our page),
  followed by any rows (ignored while our page is closed).
* `PageG`, `feed_pageG`, `feed_pagesG` - pages of ours, each preceded by an interlude, announcing
  `n` packets of which a prefix arrives.  With all packets arriving this is the multi-page theorem
  with foreign traffic; with a proper prefix (and `Gen.pfcPageEndChecked = false`) it says what the
  demultiplexer does when the last packets of a page are lost (finding F42): nothing - it reads the
  stream with the lost packets cut out.
-/
namespace Zvbi.Pfc
open Zvbi.Hamm Zvbi.Gen
open Spec (Ph Res run shDecode)

/-! ## packets that are ignored in every state -/

/-- a 42 byte packet that is a row of another magazine, a row 26..31, or a page header of another
    magazine -/
def Transparent (pgno : Nat) (buf : List Nat) : Prop :=
  buf.length = 42 ∧ ∃ m y, Spec.addrOf buf = some (m, y) ∧
    ((y ≠ 0 ∧ ((m ^^^ pgno) &&& 0xF00 ≠ 0 ∨ y > 25)) ∨
     (y = 0 ∧ ∃ pp, Spec.pageByteOf buf = some pp ∧ ((m ||| pp) ^^^ pgno) &&& 0xF00 ≠ 0))

theorem feed_transparent (pgno : Nat) (buf : List Nat) (h : Transparent pgno buf) (s : St) (hs : s.pgno = pgno) :
    feed s buf = .ok ⟨s, true, []⟩ := by
  obtain ⟨hlen, m, y, haddr, h⟩ := h
  rcases h with ⟨hy, h⟩ | ⟨hy, pp, hpage, hmag⟩
  · rw [feed_nonheader s buf hlen m y haddr hy]
    by_cases h1 : (m ^^^ s.pgno) &&& 0xF00 ≠ 0
    · rw [if_pos h1]
    · rw [if_neg h1]
      by_cases h2 : s.nPackets = 0
      · rw [if_pos h2]
      · rw [if_neg h2]
        have h3 : y > 25 := by
          rcases h with h | h
          · rw [← hs] at h; exact absurd h h1
          · exact h
        rw [if_pos h3]
  · subst hy
    exact feed_foreign_mag_header (by decide) s buf hlen m pp haddr hpage (by rw [hs]; exact hmag)

/-- `l'` is `l` with some transparent packets deleted -/
inductive Thin (pgno : Nat) : List (List Nat) → List (List Nat) → Prop
  | nil : Thin pgno [] []
  | keep (b : List Nat) {l l' : List (List Nat)} : Thin pgno l l' → Thin pgno (b :: l) (b :: l')
  | skip (b : List Nat) {l l' : List (List Nat)} : Transparent pgno b → Thin pgno l l' → Thin pgno (b :: l) l'

theorem Thin.refl (pgno : Nat) : ∀ l, Thin pgno l l
  | [] => .nil
  | b :: l => .keep b (Thin.refl pgno l)

/-- transparent packets anywhere in a packet sequence change neither callbacks nor the final state -/
theorem feedAll_thin (pgno : Nat) {l l' : List (List Nat)} (h : Thin pgno l l') :
    ∀ s : St, s.pgno = pgno → feedAll s l = feedAll s l' := by
  induction h with
  | nil => intro s _; rfl
  | keep b _ ih =>
    intro s hs
    rw [feedAll_cons, feedAll_cons]
    cases hx : feed s b with
    | error e => rfl
    | ok o =>
      simp only
      rw [ih o.st (by rw [(feed_key b s o hx).1, hs])]
  | skip b hb _ ih =>
    intro s hs
    rw [feedAll_cons, feed_transparent pgno b hb s hs]
    simp only
    rw [ih s hs]
    cases feedAll s _ with
    | error e => rfl
    | ok r => obtain ⟨s', bl⟩ := r; simp

/-! ## packets between two pages of ours -/

/-- a page header of another page of our magazine -/
def OtherPageHeader (pgno : Nat) (buf : List Nat) : Prop :=
  buf.length = 42 ∧ ∃ m pp, Spec.addrOf buf = some (m, 0) ∧ Spec.pageByteOf buf = some pp ∧
    m ||| pp ≠ pgno ∧ ((m ||| pp) ^^^ pgno) &&& 0xF00 = 0

theorem feed_other_page_header (s : St) (buf : List Nat) (h : OtherPageHeader s.pgno buf) :
    feed s buf = .ok ⟨{ pageEnd s with nPackets := 0 }, true, []⟩ := by
  obtain ⟨hlen, m, pp, haddr, hpage, hne, hmag⟩ := h
  unfold Spec.addrOf at haddr
  unfold Spec.pageByteOf at hpage
  cases h0 : unham8 (buf.getD 0 0) with
  | none => rw [h0] at haddr; cases haddr
  | some a =>
    cases h1 : unham8 (buf.getD 1 0) with
    | none => rw [h0, h1] at haddr; cases haddr
    | some b =>
      cases h2 : unham8 (buf.getD 2 0) with
      | none => rw [h2] at hpage; cases hpage
      | some c =>
        cases h3 : unham8 (buf.getD 3 0) with
        | none => rw [h2, h3] at hpage; cases hpage
        | some d =>
          rw [h0, h1] at haddr
          rw [h2, h3] at hpage
          simp only [Option.some.injEq, Prod.mk.injEq] at haddr hpage
          obtain ⟨hm, hyy⟩ := haddr
          subst hpage
          unfold feed
          have hl : ¬ buf.length < 8 := by omega
          have hI := unham16pI_of_some _ _ a b h0 h1
          have hP := unham16pI_of_some _ _ c d h2 h3
          have hneg : ¬ (((a ||| (b <<< 4) : Nat) : Int) < 0) := by omega
          have hneg2 : ¬ (((c ||| (d <<< 4) : Nat) : Int) < 0) := by omega
          simp only [hl, if_false, hI, hneg, Int.toNat_natCast, hm, hyy, if_true, hP, hneg2, hne,
            ne_eq, not_false_eq_true, hmag, not_true_eq_false, decide_false, Bool.and_false,
            Bool.false_eq_true]

/-- a page header of our page that belongs to another stream -/
theorem feed_other_stream_header (s : St) (pgno stream ci n : Nat) (tail : List Nat)
    (hpg1 : 0x100 ≤ pgno) (hpg2 : pgno < 0x900) (hst : stream < 16) (hci : ci < 16) (hn : n < 32)
    (hs : s.pgno = pgno) (hss : stream ≠ s.stream) :
    feed s (Spec.headerPkt pgno stream ci n tail) = .ok ⟨{ pageEnd s with nPackets := 0 }, true, []⟩ := by
  obtain ⟨hsh, hhi, hne, hsplit, hpp⟩ := pgno_split pgno hpg1 hpg2
  obtain ⟨f1, f2, f3, f4, f5⟩ := addr_facts (pgno / 256) hhi 0 (by omega) hne
  obtain ⟨m1, m2, m3, m4⟩ := mag_facts (pgno / 256) hhi (pgno % 256) hpp
  rw [← hsplit] at m1 m2 m3 m4
  obtain ⟨⟨n1, n2, n3, n4⟩, e1, e2, e3⟩ := subno_facts ci hci n hn stream hst
  unfold feed
  have hlen : ¬ (Spec.headerPkt pgno stream ci n tail).length < 8 := by
    simp [Spec.headerPkt, Spec.addrBytes]
  have g0 : (Spec.headerPkt pgno stream ci n tail).getD 0 0 = ham8 ((((pgno >>> 8) &&& 7) ||| (0 <<< 3)) &&& 15) := by
    simp [Spec.headerPkt, Spec.addrBytes]
  have g1 : (Spec.headerPkt pgno stream ci n tail).getD 1 0 = ham8 ((((pgno >>> 8) &&& 7) ||| (0 <<< 3)) >>> 4) := by
    simp [Spec.headerPkt, Spec.addrBytes]
  have g2 : (Spec.headerPkt pgno stream ci n tail).getD 2 0 = ham8 (pgno &&& 15) := by
    simp [Spec.headerPkt, Spec.addrBytes]
  have g3 : (Spec.headerPkt pgno stream ci n tail).getD 3 0 = ham8 ((pgno >>> 4) &&& 15) := by
    simp [Spec.headerPkt, Spec.addrBytes]
  have g4 : (Spec.headerPkt pgno stream ci n tail).getD 4 0 = ham8 (((ci &&& 15) ||| ((n &&& 7) <<< 4) ||| ((stream &&& 15) <<< 8) ||| (((n >>> 3) &&& 3) <<< 12)) &&& 15) := by
    simp [Spec.headerPkt, Spec.addrBytes]
  have g5 : (Spec.headerPkt pgno stream ci n tail).getD 5 0 = ham8 ((((ci &&& 15) ||| ((n &&& 7) <<< 4) ||| ((stream &&& 15) <<< 8) ||| (((n >>> 3) &&& 3) <<< 12)) >>> 4) &&& 15) := by
    simp [Spec.headerPkt, Spec.addrBytes]
  have g6 : (Spec.headerPkt pgno stream ci n tail).getD 6 0 = ham8 ((((ci &&& 15) ||| ((n &&& 7) <<< 4) ||| ((stream &&& 15) <<< 8) ||| (((n >>> 3) &&& 3) <<< 12)) >>> 8) &&& 15) := by
    simp [Spec.headerPkt, Spec.addrBytes]
  have g7 : (Spec.headerPkt pgno stream ci n tail).getD 7 0 = ham8 ((((ci &&& 15) ||| ((n &&& 7) <<< 4) ||| ((stream &&& 15) <<< 8) ||| (((n >>> 3) &&& 3) <<< 12)) >>> 12) &&& 15) := by
    simp [Spec.headerPkt, Spec.addrBytes]
  rw [hsh] at g0 g1
  have hI : unham16pI ((Spec.headerPkt pgno stream ci n tail).getD 0 0) ((Spec.headerPkt pgno stream ci n tail).getD 1 0) =
      (((pgno / 256 &&& 7) ||| (0 <<< 3) : Nat) : Int) := by
    rw [g0, g1, unham16pI_ham8 _ _ f1 f2, f3]
  have hP : unham16pI ((Spec.headerPkt pgno stream ci n tail).getD 2 0) ((Spec.headerPkt pgno stream ci n tail).getD 3 0) =
      (((pgno &&& 15) ||| (((pgno >>> 4) &&& 15) <<< 4) : Nat) : Int) := by
    rw [g2, g3, unham16pI_ham8 _ _ m3 m4]
  have hneg : ¬ ((((pgno / 256 &&& 7) ||| (0 <<< 3) : Nat) : Int) < 0) := by omega
  have hneg2 : ¬ ((((pgno &&& 15) ||| (((pgno >>> 4) &&& 15) <<< 4) : Nat) : Int) < 0) := by omega
  have hpgeq : ¬ (pgno / 256 * 256 ||| ((pgno &&& 15) ||| (((pgno >>> 4) &&& 15) <<< 4)) ≠ s.pgno) := by
    rw [m2, hs]; simp
  simp only [hlen, if_false, hI, hneg, Int.toNat_natCast, f4, f5, if_true, hP, hneg2, hpgeq,
    g4, g5, g6, g7, unham16pI_ham8 _ _ n1 n2, unham16pI_ham8 _ _ n3 n4, pair16_nonneg, e1, e2, e3, hss,
    ne_eq, not_false_eq_true]

/-- a header that ends our page in serial transmission: another page of our magazine, or another
    stream of our page -/
def Closing (pgno stream : Nat) (buf : List Nat) : Prop :=
  OtherPageHeader pgno buf ∨
  ∃ stream' ci n tail, stream' < 16 ∧ ci < 16 ∧ n < 32 ∧ stream' ≠ stream ∧ buf = Spec.headerPkt pgno stream' ci n tail

/-- any 42 byte packet that is not a page header -/
def AnyRow (buf : List Nat) : Prop := buf.length = 42 ∧ ∃ m y, Spec.addrOf buf = some (m, y) ∧ y ≠ 0

/-- packets between two pages of ours: closing headers, and - once our page is closed (`closed`) -
    any rows (those of the other pages of our magazine) -/
def Interlude (pgno stream : Nat) : Bool → List (List Nat) → Prop
  | _, [] => True
  | closed, b :: r =>
    (Closing pgno stream b ∧ Interlude pgno stream true r) ∨
    (closed = true ∧ AnyRow b ∧ Interlude pgno stream true r)

theorem feed_closing (pgno stream : Nat) (hpg1 : 0x100 ≤ pgno) (hpg2 : pgno < 0x900) (buf : List Nat)
    (h : Closing pgno stream buf) (s : St) (hs : s.pgno = pgno) (hss : s.stream = stream) :
    feed s buf = .ok ⟨{ pageEnd s with nPackets := 0 }, true, []⟩ := by
  rcases h with h | ⟨stream', ci, n, tail, h1, h2, h3, h4, rfl⟩
  · exact feed_other_page_header s buf (by rw [hs]; exact h)
  · exact feed_other_stream_header s pgno stream' ci n tail hpg1 hpg2 h1 h2 h3 hs (by rw [hss]; exact h4)

theorem feed_closed_row (buf : List Nat) (h : AnyRow buf) (s : St) (hn : s.nPackets = 0) :
    feed s buf = .ok ⟨s, true, []⟩ := by
  obtain ⟨hlen, m, y, haddr, hy⟩ := h
  rw [feed_nonheader s buf hlen m y haddr hy]
  by_cases h1 : (m ^^^ s.pgno) &&& 0xF00 ≠ 0
  · rw [if_pos h1]
  · rw [if_neg h1, if_pos hn]

/-- an interlude delivers nothing and at most closes our page -/
theorem feed_interlude (pgno stream : Nat) (hpg1 : 0x100 ≤ pgno) (hpg2 : pgno < 0x900) (bufs : List (List Nat)) :
    ∀ (c : Bool) (s : St), Interlude pgno stream c bufs → s.pgno = pgno → s.stream = stream →
      pageEnd s = s → (c = true → s.nPackets = 0) →
      ∃ s', feedAll s bufs = .ok (s', []) ∧ (s' = s ∨ s' = { s with nPackets := 0 }) := by
  induction bufs with
  | nil => intro c s _ _ _ _ _; exact ⟨s, rfl, Or.inl rfl⟩
  | cons b r ih =>
    intro c s hint hs hss hpe hc
    rcases hint with ⟨hcl, hr⟩ | ⟨hct, hrow, hr⟩
    · have hf := feed_closing pgno stream hpg1 hpg2 b hcl s hs hss
      rw [hpe] at hf
      obtain ⟨s', h1, h2⟩ := ih true { s with nPackets := 0 } hr hs hss (pageEnd_of_complete _ (Or.inl rfl)) (fun _ => rfl)
      refine ⟨s', ?_, ?_⟩
      · rw [feedAll_cons, hf]; simp only [h1, List.nil_append]
      · rcases h2 with h2 | h2 <;> exact Or.inr h2
    · have hf := feed_closed_row b hrow s (hc hct)
      obtain ⟨s', h1, h2⟩ := ih true s hr hs hss hpe (fun _ => hc hct)
      refine ⟨s', ?_, h2⟩
      rw [feedAll_cons, hf]; simp only [h1, List.nil_append]

/-! ## pages of ours with interludes, of which a prefix of the announced packets arrives -/

/-- one page of ours as it reaches the receiver -/
structure PageG where
  inter : List (List Nat)        -- packets received before the page header
  tail : List Nat                -- rest of the page header
  n : Nat                        -- number of packets the header announces
  rows : List (Nat × List Nat)   -- (block pointer nibble, payload) of the rows X/1, X/2, ... that arrive

def pageGPkts (pgno stream ci : Nat) (pg : PageG) : List (List Nat) :=
  pg.inter ++ Spec.headerPkt pgno stream ci pg.n pg.tail :: Spec.rowsPkts pgno 1 pg.rows

/-- consecutive pages, continuity index counting up from `ci` modulo 16 -/
def pagesGPkts (pgno stream : Nat) : Nat → List PageG → List (List Nat)
  | _, [] => []
  | ci, pg :: r => pageGPkts pgno stream ci pg ++ pagesGPkts pgno stream ((ci + 1) &&& 15) r

def allRowsG (pages : List PageG) : List (Nat × List Nat) := pages.flatMap (·.rows)

/-- every interlude is legitimate; only the first may rely on the page being closed already -/
def IntersOk (pgno stream : Nat) : Bool → List PageG → Prop
  | _, [] => True
  | c, pg :: r => Interlude pgno stream c pg.inter ∧ IntersOk pgno stream false r

/-- every page arrives completely, or the source does not check the end of a page (finding F42) -/
def PageArrives (pg : PageG) : Prop :=
  pg.rows.length ≤ pg.n ∧ pg.n ≤ 25 ∧ (pg.rows.length = pg.n ∨ pfcPageEndChecked = false)

theorem feed_pageG (pgno stream : Nat) (hpg1 : 0x100 ≤ pgno) (hpg2 : pgno < 0x900) (hst : stream < 16)
    (ci : Nat) (hci : ci < 16) (pg : PageG) (hrows : pg.rows.length ≤ pg.n) (hn : pg.n ≤ 25)
    (c : Bool) (hint : Interlude pgno stream c pg.inter)
    (s : St) (hwf : WF s) (hinv : Inv s) (hpgs : s.pgno = pgno) (hss : s.stream = stream)
    (hc : c = true → s.nPackets = 0) (hpe : pageEnd s = s) (hready : s.ci = ci ∨ s.left = 0)
    (hadm : Spec.AdmissibleAll (phase s) pg.rows)
    (hok : (run (phase s) [] (pg.rows.map (·.2)).flatten).ok = true) :
    ∃ s' bl, feedAll s (pageGPkts pgno stream ci pg) = .ok (s', bl) ∧ WF s' ∧ Inv s' ∧
      s'.ci = (ci + 1) &&& 15 ∧ s'.packet = 1 + pg.rows.length ∧ s'.nPackets = pg.n ∧
      s'.pgno = pgno ∧ s'.stream = stream ∧
      run (phase s) [] (pg.rows.map (·.2)).flatten = ⟨phase s', bl.map toSpec, true⟩ := by
  obtain ⟨s1, hf1, hs1⟩ := feed_interlude pgno stream hpg1 hpg2 pg.inter c s hint hpgs hss hpe hc
  -- the state the header meets
  have k1 : WF s1 ∧ Inv s1 ∧ phase s1 = phase s ∧ s1.pgno = pgno ∧ s1.stream = stream ∧ s1.ci = s.ci ∧
      s1.left = s.left ∧ pageEnd s1 = s1 := by
    rcases hs1 with rfl | rfl
    · exact ⟨hwf, hinv, rfl, hpgs, hss, rfl, rfl, hpe⟩
    · exact ⟨hwf, hinv, rfl, hpgs, hss, rfl, rfl, pageEnd_of_complete _ (Or.inl rfl)⟩
  obtain ⟨hwf1, hinv1, hph1, hpg1', hst1, hci1, hleft1, hpe1⟩ := k1
  have hfh := feed_header s1 pgno stream ci pg.n pg.tail hpg1 hpg2 hst hci (by omega) hpg1' hst1
  have key : ∃ s0 : St, (if ci ≠ s1.ci then reset s1 else pageEnd s1) = s0 ∧ WF s0 ∧ Inv s0 ∧ phase s0 = phase s ∧
      s0.pgno = pgno ∧ s0.stream = stream := by
    by_cases h : ci ≠ s1.ci
    · rw [if_pos h]
      have hl : s.left = 0 := by
        rcases hready with h' | h'
        · rw [hci1] at h; exact absurd h'.symm h
        · exact h'
      refine ⟨reset s1, rfl, ?_, inv_reset s1, ?_, hpg1', hst1⟩
      · intro h; simp [reset] at h
      · rw [phase_idle s hl, phase_idle]; rfl
    · rw [if_neg h, hpe1]
      exact ⟨s1, rfl, hwf1, hinv1, hph1, hpg1', hst1⟩
  obtain ⟨s0, hs0, hwf0, hinv0, hph0, hpg0, hst0⟩ := key
  rw [hs0] at hfh
  have hwf2 : WF { s0 with ci := (ci + 1) &&& 15, packet := 1, nPackets := pg.n } := hwf0
  have hinv2 : Inv { s0 with ci := (ci + 1) &&& 15, packet := 1, nPackets := pg.n } := hinv0
  have hph2 : phase { s0 with ci := (ci + 1) &&& 15, packet := 1, nPackets := pg.n } = phase s := hph0
  obtain ⟨s', bl, h1, h2, h3, h4, h5, h6, h7, h8, h9⟩ :=
    feed_rows pgno hpg1 hpg2 pg.rows 1 _ hwf2 hinv2 hpg0 rfl (by omega) (by simp; omega) hn
      (by rw [hph2]; exact hadm) (by rw [hph2]; exact hok)
  rw [hph2] at h9
  refine ⟨s', bl, ?_, h2, h3, h5, h4, h6, by rw [h7]; exact hpg0, by rw [h8]; exact hst0, h9⟩
  unfold pageGPkts
  rw [feedAll_append _ s _ s1 [] hf1, feedAll_cons, hfh]
  simp only [h1, List.nil_append]

/-- **consecutive pages with interludes** (blocks may span pages; of each page a prefix arrives) -/
theorem feed_pagesG (pgno stream : Nat) (hpg1 : 0x100 ≤ pgno) (hpg2 : pgno < 0x900) (hst : stream < 16)
    (pages : List PageG) (hpages : ∀ pg ∈ pages, PageArrives pg) :
    ∀ ci c s, ci < 16 → IntersOk pgno stream c pages → WF s → Inv s → s.pgno = pgno → s.stream = stream →
      (c = true → s.nPackets = 0) → pageEnd s = s → (s.ci = ci ∨ s.left = 0) →
      Spec.AdmissibleAll (phase s) (allRowsG pages) →
      (run (phase s) [] ((allRowsG pages).map (·.2)).flatten).ok = true →
      ∃ s' bl, feedAll s (pagesGPkts pgno stream ci pages) = .ok (s', bl) ∧ WF s' ∧ Inv s' ∧
        pageEnd s' = s' ∧ s'.pgno = pgno ∧ s'.stream = stream ∧
        run (phase s) [] ((allRowsG pages).map (·.2)).flatten = ⟨phase s', bl.map toSpec, true⟩ := by
  induction pages with
  | nil =>
    intro ci c s _ _ hwf hinv hpgs hss _ hpe _ _ _
    exact ⟨s, [], rfl, hwf, hinv, hpe, hpgs, hss, by simp [allRowsG, run_nil]⟩
  | cons pg t ih =>
    intro ci c s hci hint hwf hinv hpgs hss hc hpe hready hadm hok
    obtain ⟨hint1, hint2⟩ := hint
    obtain ⟨hp1, hp2, hp3⟩ := hpages pg (by simp)
    have hall : allRowsG (pg :: t) = pg.rows ++ allRowsG t := by simp [allRowsG]
    rw [hall] at hadm hok ⊢
    rw [List.map_append, List.flatten_append] at hok ⊢
    obtain ⟨o1, o2, o3, o4⟩ := run_append_ok _ _ _ hok
    obtain ⟨a1, a2⟩ := admAll_append _ _ _ hadm o1
    obtain ⟨s1, bl1, f1, w1, i1, c1, p1, n1, g1, t1, r1⟩ :=
      feed_pageG pgno stream hpg1 hpg2 hst ci hci pg hp1 hp2 c hint1 s hwf hinv hpgs hss hc hpe hready a1 o1
    have hpe1 : pageEnd s1 = s1 := by
      rcases hp3 with h | h
      · exact pageEnd_of_complete s1 (Or.inr (by rw [p1, n1, h]; omega))
      · unfold pageEnd; rw [h]; simp
    have hph : (run (phase s) [] (pg.rows.map (·.2)).flatten).ph = phase s1 := by rw [r1]
    rw [hph] at a2 o2 o3 o4
    obtain ⟨s', bl, f2, w2, i2, e2, g2, t2, r2⟩ :=
      ih (fun x hx => hpages x (by simp [hx])) ((ci + 1) &&& 15) false s1 (and15_lt _) hint2 w1 i1 g1 t1
        (fun h => by cases h) hpe1 (Or.inl c1) a2 o2
    refine ⟨s', bl1 ++ bl, ?_, w2, i2, e2, g2, t2, ?_⟩
    · rw [pagesGPkts, feedAll_append _ s _ s1 bl1 f1, f2]
    · have hokk : (run (phase s) [] ((pg.rows.map (·.2)).flatten ++ ((allRowsG t).map (·.2)).flatten)).ok = true := hok
      have e : run (phase s) [] ((pg.rows.map (·.2)).flatten ++ ((allRowsG t).map (·.2)).flatten) =
          ⟨(run (phase s) [] ((pg.rows.map (·.2)).flatten ++ ((allRowsG t).map (·.2)).flatten)).ph,
           (run (phase s) [] ((pg.rows.map (·.2)).flatten ++ ((allRowsG t).map (·.2)).flatten)).out,
           (run (phase s) [] ((pg.rows.map (·.2)).flatten ++ ((allRowsG t).map (·.2)).flatten)).ok⟩ := rfl
      rw [e, o3, o4, hokk, r2, r1]
      simp

/-- **a whole reception from a new demultiplexer**: any packets `l` from which deleting transparent
    packets leaves our pages with their interludes, followed by a final interlude: the callbacks are
    what the grammar reads from the payloads of the rows that arrived -/
theorem feed_reception (pgno stream : Nat) (hpg1 : 0x100 ≤ pgno) (hpg2 : pgno < 0x900) (hst : stream < 16)
    (ci : Nat) (hci : ci < 16) (pages : List PageG) (hpages : ∀ pg ∈ pages, PageArrives pg)
    (hint : IntersOk pgno stream true pages) (post : List (List Nat)) (hpost : Interlude pgno stream false post)
    (D : List (Nat × List Nat)) (ph : Ph)
    (hrun : run .idle [] ((allRowsG pages).map (·.2)).flatten = ⟨ph, D, true⟩)
    (hadm : Spec.AdmissibleAll .idle (allRowsG pages))
    (l : List (List Nat)) (hthin : Thin pgno l (pagesGPkts pgno stream ci pages ++ post)) :
    ∃ s' bl, feedAll (new pgno stream) l = .ok (s', bl) ∧ bl.map toSpec = D ∧ phase s' = ph := by
  have hphn : phase (new pgno stream) = .idle := phase_idle _ rfl
  rw [feedAll_thin pgno hthin (new pgno stream) rfl]
  obtain ⟨s1, bl, h1, _, _, h4, h5, h6, h7⟩ := feed_pagesG pgno stream hpg1 hpg2 hst pages hpages ci true
    (new pgno stream) hci hint (by intro h; simp [new, reset] at h) (inv_new _ _) rfl rfl (fun _ => rfl)
    (pageEnd_of_complete _ (Or.inl rfl)) (Or.inr rfl) (by rw [hphn]; exact hadm) (by rw [hphn, hrun])
  rw [hphn, hrun] at h7
  obtain ⟨s2, g1, g2⟩ := feed_interlude pgno stream hpg1 hpg2 post false s1 hpost h5 h6 h4 (fun h => by cases h)
  refine ⟨s2, bl, ?_, (congrArg Spec.Res.out h7).symm, ?_⟩
  · rw [feedAll_append _ _ _ s1 bl h1, g1]; simp
  · have := congrArg Spec.Res.ph h7
    simp only at this
    rcases g2 with rfl | rfl
    · exact this.symm
    · exact this.symm

end Zvbi.Pfc
